// C22 harness: sequential schedules of AddToBuffer / interval seal / flush / reads on
// the REAL log_buffer.LogBuffer, with the flush function captured as the "disk", and
// a subscriber that alternates disk and memory reads like SubscribeLocalMetadata.
package main

import (
	"bytes"
	"encoding/binary"
	"fmt"
	"io"
	"os"
	"strings"
	"sync"
	"sync/atomic"
	"time"

	"github.com/golang/protobuf/proto"

	"github.com/chrislusf/seaweedfs/weed/filer"
	"github.com/chrislusf/seaweedfs/weed/pb/filer_pb"
	"github.com/chrislusf/seaweedfs/weed/util"
	"github.com/chrislusf/seaweedfs/weed/util/log_buffer"
	"verifharness/hx"
)

const realBufferSize = log_buffer.BufferSize

type ev struct {
	ts int64
	id uint64
}

type flushItem struct {
	start, stop time.Time
	data        []byte
}

// one LogBuffer under test plus the harness side of loopFlush
type rig struct {
	lb       *log_buffer.LogBuffer
	hf       bool
	arrived  chan flushItem
	gate     chan struct{}
	inflight *flushItem
	disk     [][]byte
	sealed   int // seals seen
	written  int // flushFn calls accounted as "on disk"
	marked   int
	lastS2   time.Time
	mu       sync.Mutex // guards disk (concurrent cases: flushFn runs freely)
	flushed  int64      // concurrent cases: flushFn calls that have returned their data
}

func newRig(cap int, iv int64, hf bool, real bool) *rig {
	g := &rig{hf: hf, arrived: make(chan flushItem, 300), gate: make(chan struct{})}
	var fn func(a, b time.Time, buf []byte)
	if hf {
		fn = func(a, b time.Time, buf []byte) {
			g.arrived <- flushItem{a, b, append([]byte(nil), buf...)}
			<-g.gate
		}
	}
	if real {
		g.lb = log_buffer.NewLogBuffer("c22", time.Duration(iv), fn, func() {})
	} else {
		g.lb = log_buffer.NewLogBufferVerif("c22", cap, time.Duration(iv), fn, func() {})
	}
	return g
}

// Terms use primitive 63-bit integers and explicit constructors (see check/C22.v): all
// numbers are non-negative; time.Time{} is printed as the zero_time sentinel.
const zeroTime = "4611686018427387903"

func num(v int64) string {
	if v < 0 || v >= 1<<62-1 {
		panic(fmt.Sprint("number out of the case format's range: ", v))
	}
	return fmt.Sprint(v)
}

func tz(t time.Time) string {
	if t.IsZero() {
		return zeroTime
	}
	return num(t.UnixNano())
}

// list int
func zlist(xs []string) string {
	var sb strings.Builder
	for _, x := range xs {
		sb.WriteString("(ic ")
		sb.WriteString(x)
		sb.WriteString(" ")
	}
	sb.WriteString("inil")
	sb.WriteString(strings.Repeat(")", len(xs)))
	return sb.String()
}

// list of constructor terms
func consList(xs []string) string {
	var sb strings.Builder
	for _, x := range xs {
		sb.WriteString("(cons ")
		sb.WriteString(x)
		sb.WriteString(" ")
	}
	sb.WriteString("nil")
	sb.WriteString(strings.Repeat(")", len(xs)))
	return sb.String()
}

func (g *rig) stateObs() string {
	s := g.lb.StateVerif()
	if !s.PrevStop[2].Equal(g.lastS2) {
		g.sealed++
		g.lastS2 = s.PrevStop[2]
	}
	al := "0"
	if s.Aliased {
		al = "1"
	}
	xs := []string{fmt.Sprint(s.Pos), fmt.Sprint(s.Cap), fmt.Sprint(s.Entries), tz(s.StartTime), tz(s.StopTime),
		fmt.Sprint(s.LastTsNs), tz(g.lb.LastFlushTimeVerif()), al}
	for i := 0; i < 3; i++ {
		xs = append(xs, fmt.Sprint(s.PrevSize[i]), fmt.Sprint(s.PrevCap[i]), tz(s.PrevStart[i]), tz(s.PrevStop[i]))
	}
	return "(RState " + zlist(xs) + ")"
}

func (g *rig) unmarked() int {
	if !g.hf {
		return 0
	}
	return g.sealed - g.marked
}

func pickI64(r *hx.Rng, xs []int64) int64 { return xs[r.Intn(len(xs))] }

func (g *rig) flushWrite() {
	if !g.hf || g.inflight != nil || g.written >= g.sealed {
		return
	}
	select {
	case it := <-g.arrived:
		g.inflight = &it
		g.disk = append(g.disk, it.data)
		g.written++
	case <-time.After(10 * time.Second):
		panic("flushFn was not called for a sealed buffer")
	}
}

func (g *rig) flushMark() {
	if g.inflight == nil {
		return
	}
	want := g.inflight.stop
	g.gate <- struct{}{}
	deadline := time.Now().Add(10 * time.Second)
	for !g.lb.LastFlushTimeVerif().Equal(want) {
		if time.Now().After(deadline) {
			panic("lastFlushTime not updated")
		}
		time.Sleep(20 * time.Microsecond)
	}
	g.inflight = nil
	g.marked++
}

func evOf(e *filer_pb.LogEntry) ev {
	var id uint64
	if len(e.Data) >= 4 {
		id = uint64(binary.BigEndian.Uint32(e.Data[:4]))
	}
	return ev{e.TsNs, id}
}

func evList(l []ev) string {
	xs := make([]string, 0, 2*len(l))
	for _, e := range l {
		xs = append(xs, num(e.ts), num(int64(e.id)))
	}
	return zlist(xs)
}

// one ReadFromBuffer + the decoding loop of LoopProcessLogData
func (g *rig) readOnce(t int64) (cls int, got []ev, last int64) {
	last = t
	defer func() {
		if r := recover(); r != nil {
			cls, got, last = 4, nil, t
		}
	}()
	b, err := g.lb.ReadFromBuffer(time.Unix(0, t))
	if err == log_buffer.ResumeFromDiskError {
		return 1, nil, t
	}
	if b == nil {
		return 0, nil, t
	}
	defer g.lb.ReleaseMemory(b)
	buf := b.Bytes()
	for pos := 0; pos+4 < len(buf); {
		size := util.BytesToUint32(buf[pos : pos+4])
		if pos+4+int(size) > len(buf) {
			return 3, got, last
		}
		e := &filer_pb.LogEntry{}
		if err := proto.Unmarshal(buf[pos+4:pos+4+int(size)], e); err != nil {
			return 4, got, last
		}
		got = append(got, evOf(e))
		last = e.TsNs
		pos += 4 + int(size)
	}
	return 2, got, last
}

// the real LoopProcessLogData until it would wait
func (g *rig) loop(t int64) (cls int, got []ev, last int64) {
	type res struct {
		last time.Time
		err  error
	}
	ch := make(chan res, 1)
	go func() {
		l, err := g.lb.LoopProcessLogData("c22", time.Unix(0, t), func() bool { return false }, func(e *filer_pb.LogEntry) error {
			got = append(got, evOf(e))
			return nil
		})
		ch <- res{l, err}
	}()
	select {
	case r := <-ch:
		switch r.err {
		case nil:
			cls = 0
		case log_buffer.ResumeFromDiskError:
			cls = 1
		case log_buffer.ResumeError:
			cls = 3
		default:
			cls = 4
		}
		return cls, got, r.last.UnixNano()
	case <-time.After(20 * time.Second):
		panic("LoopProcessLogData does not return")
	}
}

// ReadPersistedLogBuffer over the captured segments, with the real ReadEachLogEntry
func (g *rig) diskRead(t int64) (got []ev, processed int64) {
	sizeBuf := make([]byte, 4)
	g.mu.Lock()
	disk := g.disk[:len(g.disk):len(g.disk)]
	g.mu.Unlock()
	for _, segm := range disk {
		var err error
		processed, err = filer.ReadEachLogEntry(bytes.NewReader(segm), sizeBuf, t, func(e *filer_pb.LogEntry) error {
			got = append(got, evOf(e))
			return nil
		})
		if err != io.EOF {
			panic(fmt.Sprint("ReadEachLogEntry: ", err))
		}
	}
	return
}

// subscriber: SubscribeLocalMetadata's loop, one step at a time
type subscriber struct {
	lastRead int64
	onDisk   bool
	memErr   int
	got      []ev
}

func (u *subscriber) obs(from int) string {
	return fmt.Sprintf("(RSub %s %s %d %s)", num(u.lastRead), hx.Bool(u.onDisk), u.memErr, evList(u.got[from:]))
}

func (u *subscriber) disk(g *rig) {
	l, p := g.diskRead(u.lastRead)
	u.got = append(u.got, l...)
	if p != 0 {
		u.lastRead = p
		u.onDisk = false
	} else if u.memErr != 1 {
		u.onDisk = false
	}
}

func (u *subscriber) applyMem(cls int, l []ev, last int64) {
	switch cls {
	case 0:
	case 1:
		u.memErr, u.onDisk = 1, true
	case 2:
		u.got = append(u.got, l...)
		u.lastRead = last
	case 3:
		u.got = append(u.got, l...)
		u.lastRead = last
		u.memErr, u.onDisk = 3, true
	default:
		u.memErr = 4
	}
}

func (u *subscriber) step(g *rig, whole bool) {
	if u.memErr == 4 {
		return
	}
	if u.onDisk {
		u.disk(g)
		return
	}
	if whole {
		cls, l, last := g.loop(u.lastRead)
		if cls == 0 || cls == 1 || cls == 3 {
			// LoopProcessLogData delivered l and returned: same as chunk steps followed by the final class
			u.got = append(u.got, l...)
			u.lastRead = last
			u.applyMem(cls, nil, last)
			if cls == 3 {
				u.lastRead = last
			}
		} else {
			u.memErr = 4
		}
		return
	}
	cls, l, last := g.readOnce(u.lastRead)
	u.applyMem(cls, l, last)
}

type caseGen struct {
	g       *rig
	u       *subscriber
	ops     []string
	impl    []string
	canon   []string
	events  []ev
	nextID  uint64
	key     []byte
	out     *hx.Out
	lastEv  int64
	readCnt int
}

func payload(id uint64, n int) []byte {
	if n < 4 {
		n = 4
	}
	b := make([]byte, n)
	binary.BigEndian.PutUint32(b[:4], uint32(id))
	for i := 4; i < n; i++ {
		b[i] = byte(i)
	}
	return b
}

func (c *caseGen) add(evTs int64, plen int) {
	c.nextID++
	id := c.nextID
	data := payload(id, plen)
	before := c.g.lb.StateVerif()
	c.g.lb.AddToBuffer(c.key, data, evTs)
	after := c.g.lb.StateVerif()
	l := after.Pos - 4
	if after.Entries == before.Entries+1 {
		l = after.Pos - before.Pos - 4
	}
	want := proto.Size(&filer_pb.LogEntry{TsNs: after.LastTsNs, PartitionKeyHash: util.HashToInt32(c.key), Data: data})
	if l != want {
		panic(fmt.Sprintf("marshalled length %d, observed %d", want, l))
	}
	c.events = append(c.events, ev{after.LastTsNs, id})
	c.lastEv = evTs
	c.ops = append(c.ops, fmt.Sprintf("(RAdd %s %s %d)", num(evTs), num(int64(l)), id))
	c.impl = append(c.impl, c.g.stateObs())
	c.canon = append(c.canon, fmt.Sprintf("A%d/%d", evTs, l))
	c.out.Count("op:add", 1)
	if after.LastTsNs != evTs {
		c.out.Count("add:ts-adjusted", 1)
	}
	if after.Entries != before.Entries+1 {
		c.out.Count("add:rotated", 1)
	}
}

func (c *caseGen) simple(name string, f func()) {
	f()
	c.ops = append(c.ops, "R"+name)
	c.impl = append(c.impl, c.g.stateObs())
	c.canon = append(c.canon, name)
	c.out.Count("op:"+name, 1)
}

func (c *caseGen) seal() { c.simple("Seal", c.g.lb.SealVerif) }
func (c *caseGen) flushWrite() {
	c.g.flushWrite()
	c.ops = append(c.ops, "RFlushWrite")
	c.impl = append(c.impl, fmt.Sprintf("(RFlush %d)", len(c.g.disk)))
	c.canon = append(c.canon, "FW")
	c.out.Count("op:FlushWrite", 1)
}
func (c *caseGen) flushMark() {
	c.g.flushMark()
	c.ops = append(c.ops, "RFlushMark")
	c.impl = append(c.impl, "(RFlush "+tz(c.g.lb.LastFlushTimeVerif())+")")
	c.canon = append(c.canon, "FM")
	c.out.Count("op:FlushMark", 1)
}

var clsName = []string{"nil", "resumeFromDisk", "data", "resumeError", "undefined", "spin"}

func (c *caseGen) read(t int64) {
	cls, l, last := c.g.readOnce(t)
	c.ops = append(c.ops, "(RRead "+num(t)+")")
	c.impl = append(c.impl, fmt.Sprintf("(RRes %d %s %s)", cls, evList(l), num(last)))
	c.canon = append(c.canon, fmt.Sprintf("R%d", t))
	c.out.Count("read:"+clsName[cls], 1)
}
func (c *caseGen) loop(t int64) {
	cls, l, last := c.g.loop(t)
	c.ops = append(c.ops, "(RLoop "+num(t)+")")
	c.impl = append(c.impl, fmt.Sprintf("(RRes %d %s %s)", cls, evList(l), num(last)))
	c.canon = append(c.canon, fmt.Sprintf("L%d", t))
	c.out.Count("loop:"+clsName[cls], 1)
}
func (c *caseGen) diskRead(t int64) {
	l, p := c.g.diskRead(t)
	c.ops = append(c.ops, "(RDiskRead "+num(t)+")")
	c.impl = append(c.impl, fmt.Sprintf("(RDisk %s %s)", evList(l), num(p)))
	c.canon = append(c.canon, fmt.Sprintf("D%d", t))
	c.out.Count("op:diskread", 1)
}
func (c *caseGen) sub(whole bool) {
	from := len(c.u.got)
	c.u.step(c.g, whole)
	defer func() { c.impl = append(c.impl, c.u.obs(from)) }()
	if whole {
		c.ops = append(c.ops, "RSubLoop")
		c.canon = append(c.canon, "SL")
	} else {
		c.ops = append(c.ops, "RSubStep")
		c.canon = append(c.canon, "S")
	}
	c.out.Count("op:sub", 1)
}

// a timestamp at or around a boundary
func (c *caseGen) boundary(r *hx.Rng, base int64) int64 {
	if len(c.events) == 0 || r.Chance(1, 10) {
		return pickI64(r, []int64{0, 1, base - 1, base, base + 100000})
	}
	e := c.events[r.Intn(len(c.events))]
	return e.ts + int64(r.PickInt([]int{-1, 0, 0, 0, 1}))
}

// drain: flush everything, then let the subscriber run to quiescence
func (c *caseGen) drain() {
	for i := 0; i < 300 && c.g.hf && (c.g.inflight != nil || c.g.written < c.g.sealed); i++ {
		c.flushWrite()
		c.flushMark()
	}
	for i := 0; i < 8; i++ {
		c.sub(i%3 == 2)
	}
}

func (c *caseGen) finish(kind string, cap int, iv int64, hf bool, t0 int64) {
	term := fmt.Sprintf("{| c_cap := %s; c_iv := %s; c_hf := %s; c_t0 := %s; c_ops := %s; c_impl := %s; c_mode := 0; c_segs := nil; c_readers := nil |}",
		num(int64(cap)), num(iv), hx.Bool(hf), num(t0), consList(c.ops), consList(c.impl))
	nontrivial := len(c.u.got) > 0 && c.g.sealed > 0
	canon := fmt.Sprintf("cap=%d iv=%d hf=%v t0=%d %s", cap, iv, hf, t0, strings.Join(c.canon, ";"))
	c.out.Add(term, canon, nontrivial, kind)
	c.out.Count(fmt.Sprintf("seals:%d", min(c.g.sealed, 6)), 1)
	// unblock the flush goroutine so that it can exit
	c.g.lb.Shutdown()
	close(c.g.gate)
	go func(ch chan flushItem) {
		for range ch {
		}
	}(c.g.arrived)
}

func min(a, b int) int {
	if a < b {
		return a
	}
	return b
}

func newCase(out *hx.Out, cap int, iv int64, hf bool, real bool, t0 int64) *caseGen {
	return &caseGen{g: newRig(cap, iv, hf, real), u: &subscriber{lastRead: t0, onDisk: true}, key: []byte("k"), out: out}
}

const farIv = int64(1000000000000000)

// raceStress: manual mode (C22_RACE_STRESS=1) kept for experiments; bin/check's race-detector
// stage runs the normal cases (concCase / stressCase) under -race instead.  Concurrent AddToBuffer / ReadFromBuffer / real flushes on NewLogBuffer-
// like buffers, real functions only. Supporting evidence for the "no data races" clause.
func raceStress() {
	lb := log_buffer.NewLogBufferVerif("stress", 4096, time.Hour, func(a, b time.Time, buf []byte) {}, func() {})
	done := make(chan struct{})
	go func() {
		for i := 0; i < 20000; i++ {
			lb.AddToBuffer([]byte("k"), payload(uint64(i), 40), int64(1000+i))
		}
		close(done)
	}()
	for i := 0; ; i++ {
		select {
		case <-done:
			lb.Shutdown()
			fmt.Println("race stress finished")
			return
		default:
		}
		if b, err := lb.ReadFromBuffer(time.Unix(0, int64(1000+i%20000))); err == nil && b != nil {
			lb.ReleaseMemory(b)
		}
	}
}

func main() {
	if os.Getenv("C22_RACE_STRESS") != "" {
		raceStress()
		return
	}
	out := hx.Flags("C22", 300)
	out.Rule = "sequential schedules on the real LogBuffer (hook constructor with 64..333-byte buffers; a few cases on NewLogBuffer with 4 MiB buffers and MiB payloads): Add with explicit timestamps (increasing, equal, decreasing, jumps beyond the flush interval), interval Seal, FlushWrite/FlushMark (flushFn gated by the harness), stateless Read/Loop/DiskRead at boundary timestamps (0, before first, exactly at / one below / one above an assigned ts, after last), and a subscriber (SubStep/SubLoop) started at a boundary timestamp; every case ends with a drain (flush all, 8 subscriber steps). Modes: uniform payload length, big (every entry larger than the buffer), varied lengths; flushes may lag arbitrarily in all of them. In shard 0 (and in the race-detector run) case 0 is the schedule that exposed the repaired SealBuffer aliasing (3 unflushed sealed buffers, must be clean), case 1 the fixed witness of known finding 0 (4 seals without a completed flush), case 3 the flushFn=nil subscriber parked behind the last seal; case 2 runs on NewLogBuffer itself. One case in 8 (every second one in the race-detector run) is a history recorded from real goroutines (c_mode 1: 1-2 appenders + interval sealer in a known order and paced to at most two unflushed sealed buffers, real loopFlush with a slow flushFn, 1-3 subscriber goroutines, concurrent LoopProcessLogData calls at boundary timestamps; everything flushed at the end and the subscribers run to quiescence), one in 40 a free-running stress on NewLogBuffer with its real 2 ms loopInterval and Shutdown during reads (c_mode 2). non-trivial = at least one rotation and the subscriber received events; distinct = canonical parameter+op list"
	root := hx.NewRng(out.Seed)
	// bin/check runs shard k with seed*1000+k and the race-detector stage with seed*1000+900
	shard := int(out.Seed % 1000)
	fixed := shard == 0 || shard == 900
	for i := 0; i < out.N; i++ {
		r := root.Fork()
		switch {
		case fixed && i == 0:
			witness0(out)
		case fixed && i == 1:
			witness1(out)
		case fixed && i == 3:
			witnessNilFlush(out)
		case i == 2:
			realCase(out, r)
		case shard == 900 && i%2 == 1, i%8 == 3:
			concCase(out, r)
		case shard == 900 && i%6 == 0, i%40 == 7:
			stressCase(out, r)
		default:
			randomCase(out, r)
		}
	}
	out.Write()
}

// ---- histories from real goroutines ----

type readerHist struct {
	kind     int
	t0       int64
	complete bool
	got      []ev
}

func (h readerHist) term() string {
	return fmt.Sprintf("(RH %d %s %s %s)", h.kind, num(h.t0), hx.Bool(h.complete), evList(h.got))
}

// the records of one flushed buffer
func segEvents(b []byte) []ev {
	var l []ev
	_, err := filer.ReadEachLogEntry(bytes.NewReader(b), make([]byte, 4), 0, func(e *filer_pb.LogEntry) error {
		l = append(l, evOf(e))
		return nil
	})
	if err != io.EOF {
		panic(fmt.Sprint("flushed buffer does not parse: ", err))
	}
	return l
}

func segsTerm(disk [][]byte) (string, int) {
	var xs []string
	n := 0
	for _, b := range disk {
		l := segEvents(b)
		n += len(l)
		xs = append(xs, evList(l))
	}
	return consList(xs), n
}

type addOp struct {
	delta int64
	plen  int
	pause time.Duration
}

// paced concurrent history (mode 1): 1-2 appenders and an interval sealer (serialised among
// themselves by mutMu, so their calls have a definite order, and waiting while two sealed
// buffers are unflushed, which keeps the history outside known finding 0), the real
// loopFlush goroutine with a flushFn that takes its time, subscriber goroutines
// (persisted log / real LoopProcessLogData) and a goroutine of stateless LoopProcessLogData calls.
func concCase(out *hx.Out, r *hx.Rng) {
	cap := r.PickInt([]int{100, 128, 200, 333, 512})
	iv := pickI64(r, []int64{farIv, farIv, 200, 1000})
	base := int64(100000) + int64(r.Intn(1000))
	c := &caseGen{key: []byte("k"), out: out, u: &subscriber{}}
	g := &rig{hf: true}
	c.g = g
	ndelay := r.Range(3, 9)
	delays := make([]time.Duration, ndelay)
	for i := range delays {
		delays[i] = time.Duration(r.PickInt([]int{0, 0, 5, 20, 80, 300})) * time.Microsecond
	}
	var calls int64
	g.lb = log_buffer.NewLogBufferVerif("c22conc", cap, time.Duration(iv), func(a, b time.Time, buf []byte) {
		k := atomic.AddInt64(&calls, 1)
		if d := delays[int(k)%ndelay]; d > 0 {
			time.Sleep(d)
		}
		g.mu.Lock()
		g.disk = append(g.disk, append([]byte(nil), buf...))
		g.mu.Unlock()
		atomic.AddInt64(&g.flushed, 1)
	}, func() {})

	nApp := r.Range(1, 2)
	progs := make([][]addOp, nApp)
	total := 0
	for a := range progs {
		n := r.Range(8, 22)
		total += n
		for k := 0; k < n; k++ {
			op := addOp{delta: int64(r.Range(1, 25)), plen: r.Range(4, 60), pause: time.Duration(r.PickInt([]int{0, 0, 2, 10, 40})) * time.Microsecond}
			switch d := r.Intn(20); {
			case d == 0:
				op.delta = 0
			case d == 1:
				op.delta = -int64(r.Range(1, 20))
			case d == 2 && iv != farIv:
				op.delta = iv + int64(r.Range(0, 5))
			}
			if r.Chance(1, 12) {
				op.plen = cap + r.Range(-20, 30)
			}
			progs[a] = append(progs[a], op)
		}
	}
	nSeal := r.Range(0, 4)
	sealPause := time.Duration(r.PickInt([]int{5, 30, 100})) * time.Microsecond
	nSubs := r.Range(1, 3)
	subT0 := make([]int64, nSubs)
	for i := range subT0 {
		subT0[i] = pickI64(r, []int64{0, base - 1, base, base + int64(r.Intn(120)), base + int64(r.Intn(300))})
	}
	nLoops := r.Range(2, 6)
	loopT := make([]int64, nLoops)
	for i := range loopT {
		loopT[i] = pickI64(r, []int64{0, base, base + int64(r.Intn(60)), base + int64(r.Intn(200)), base + int64(r.Intn(500))})
	}
	canon := fmt.Sprintf("conc cap=%d iv=%d progs=%v seals=%d subs=%v loops=%v delays=%v", cap, iv, progs, nSeal, subT0, loopT, delays)

	var mutMu sync.Mutex
	clock := base
	pace := func() { // returns holding mutMu
		for {
			mutMu.Lock()
			if int64(g.sealed)-atomic.LoadInt64(&g.flushed) <= 1 {
				return
			}
			mutMu.Unlock()
			time.Sleep(20 * time.Microsecond)
		}
	}
	var mutators, readers sync.WaitGroup
	for a := range progs {
		mutators.Add(1)
		go func(prog []addOp) {
			defer mutators.Done()
			for _, op := range prog {
				if op.pause > 0 {
					time.Sleep(op.pause)
				}
				pace()
				ts := clock + op.delta
				if ts < 1 {
					ts = 1
				}
				if ts > clock {
					clock = ts
				}
				c.add(ts, op.plen)
				mutMu.Unlock()
			}
		}(progs[a])
	}
	mutators.Add(1)
	go func() {
		defer mutators.Done()
		for k := 0; k < nSeal; k++ {
			time.Sleep(sealPause)
			pace()
			c.seal()
			mutMu.Unlock()
		}
	}()
	var stop int32
	subs := make([]*subscriber, nSubs)
	for i := range subs {
		subs[i] = &subscriber{lastRead: subT0[i], onDisk: true}
		readers.Add(1)
		go func(u *subscriber) {
			defer readers.Done()
			for atomic.LoadInt32(&stop) == 0 {
				u.step(g, true)
				time.Sleep(3 * time.Microsecond)
			}
		}(subs[i])
	}
	loops := make([]readerHist, nLoops)
	readers.Add(1)
	go func() {
		defer readers.Done()
		for i, t := range loopT {
			cls, l, _ := g.loop(t)
			if cls == 4 {
				panic("LoopProcessLogData: undefined class in a concurrent case")
			}
			loops[i] = readerHist{kind: 1, t0: t, got: l}
			time.Sleep(15 * time.Microsecond)
		}
	}()
	mutators.Wait()
	// everything sealed so far gets flushed and acknowledged
	deadline := time.Now().Add(20 * time.Second)
	for {
		st := g.lb.StateVerif()
		want := st.PrevStop[2]
		if atomic.LoadInt64(&g.flushed) >= int64(g.sealed) && (g.sealed == 0 || g.lb.LastFlushTimeVerif().Equal(want)) {
			break
		}
		if time.Now().After(deadline) {
			panic("flush does not complete")
		}
		time.Sleep(50 * time.Microsecond)
	}
	atomic.StoreInt32(&stop, 1)
	readers.Wait()
	var hs []string
	anyGot := false
	for i, u := range subs {
		for k := 0; k < 8; k++ {
			u.step(g, k%3 == 2)
		}
		if u.memErr == 4 {
			panic("subscriber: undefined class in a concurrent case")
		}
		anyGot = anyGot || len(u.got) > 0
		hs = append(hs, readerHist{kind: 0, t0: subT0[i], complete: true, got: u.got}.term())
	}
	for _, h := range loops {
		hs = append(hs, h.term())
	}
	g.lb.Shutdown()
	// Shutdown's copyToFlush is flushed by loopFlush before it exits
	want := int64(g.sealed)
	if g.lb.StateVerif().PrevStop[2] != g.lastS2 {
		want++
	}
	for atomic.LoadInt64(&g.flushed) < want {
		if time.Now().After(deadline) {
			panic("final flush does not complete")
		}
		time.Sleep(50 * time.Microsecond)
	}
	g.mu.Lock()
	segs, nev := segsTerm(g.disk)
	nseg := len(g.disk)
	g.mu.Unlock()
	if nev != total {
		panic(fmt.Sprintf("flushed %d records, appended %d", nev, total))
	}
	term := fmt.Sprintf("{| c_cap := %s; c_iv := %s; c_hf := true; c_t0 := 0; c_ops := %s; c_impl := %s; c_mode := 1; c_segs := %s; c_readers := %s |}",
		num(int64(cap)), num(iv), consList(c.ops), consList(c.impl), segs, consList(hs))
	out.Add(term, canon, nseg > 1 && anyGot, "concurrent-paced")
	out.Count(fmt.Sprintf("conc:appenders:%d", nApp), 1)
	out.Count(fmt.Sprintf("conc:subscribers:%d", nSubs), 1)
	out.Count("conc:flushed-buffers", nseg)
}

// free-running stress (mode 2) on NewLogBuffer itself: the real loopInterval goroutine
// (2 ms), unserialised appenders, LoopProcessLogData readers that wait for data, Shutdown
// while they read.  Nothing is paced, so known finding 0 may strike: only order, no
// duplicate and no invented event is required of the readers.
func stressCase(out *hx.Out, r *hx.Rng) {
	g := &rig{hf: true}
	iv := int64(2 * time.Millisecond)
	delay := time.Duration(r.PickInt([]int{0, 10, 100})) * time.Microsecond
	g.lb = log_buffer.NewLogBuffer("c22stress", time.Duration(iv), func(a, b time.Time, buf []byte) {
		if delay > 0 {
			time.Sleep(delay)
		}
		g.mu.Lock()
		g.disk = append(g.disk, append([]byte(nil), buf...))
		g.mu.Unlock()
	}, func() {})
	nApp := 2
	per := r.Range(60, 120)
	step := int64(r.PickInt([]int{1000, 100000, 400000})) // event time per add: up to 0.4 ms
	base := int64(1000000)
	plen := r.Range(8, 200)
	t0s := []int64{0, base + step*int64(r.Intn(per))}
	canon := fmt.Sprintf("stress per=%d step=%d plen=%d t0=%v delay=%v", per, step, plen, t0s, delay)
	var apps, readers sync.WaitGroup
	var clock int64 = base
	for a := 0; a < nApp; a++ {
		apps.Add(1)
		go func(a int) {
			defer apps.Done()
			for k := 0; k < per; k++ {
				ts := atomic.AddInt64(&clock, step)
				g.lb.AddToBuffer([]byte("k"), payload(uint64(a*100000+k+1), plen), ts)
				if k%16 == 15 {
					time.Sleep(300 * time.Microsecond)
				}
			}
		}(a)
	}
	var stop int32
	hist := make([]readerHist, len(t0s))
	for i, t0 := range t0s {
		readers.Add(1)
		hist[i] = readerHist{kind: 1, t0: t0}
		go func(h *readerHist) {
			defer readers.Done()
			t := h.t0
			for atomic.LoadInt32(&stop) == 0 {
				last, err := g.lb.LoopProcessLogData("c22stress", time.Unix(0, t), func() bool {
					time.Sleep(50 * time.Microsecond)
					return atomic.LoadInt32(&stop) == 0
				}, func(e *filer_pb.LogEntry) error {
					h.got = append(h.got, evOf(e))
					return nil
				})
				t = last.UnixNano()
				if err == log_buffer.ResumeFromDiskError {
					// served from the persisted log: the flushed buffers
					l, p := g.diskRead(t)
					h.got = append(h.got, l...)
					if p != 0 {
						t = p
					}
					time.Sleep(50 * time.Microsecond)
				}
			}
		}(&hist[i])
	}
	apps.Wait()
	time.Sleep(time.Duration(r.Intn(3)) * time.Millisecond)
	g.lb.Shutdown() // while the readers read
	time.Sleep(3 * time.Millisecond)
	atomic.StoreInt32(&stop, 1)
	readers.Wait()
	deadline := time.Now().Add(20 * time.Second)
	for {
		g.mu.Lock()
		_, nev := segsTerm(g.disk)
		g.mu.Unlock()
		if nev == nApp*per {
			break
		}
		if time.Now().After(deadline) {
			panic("stress: not everything was flushed")
		}
		time.Sleep(time.Millisecond)
	}
	g.mu.Lock()
	segs, _ := segsTerm(g.disk)
	nseg := len(g.disk)
	g.mu.Unlock()
	var hs []string
	anyGot := false
	for _, h := range hist {
		anyGot = anyGot || len(h.got) > 0
		hs = append(hs, h.term())
	}
	term := fmt.Sprintf("{| c_cap := %s; c_iv := %s; c_hf := true; c_t0 := 0; c_ops := nil; c_impl := nil; c_mode := 2; c_segs := %s; c_readers := %s |}",
		num(realBufferSize), num(iv), segs, consList(hs))
	out.Add(term, canon, nseg > 1 && anyGot, "concurrent-stress")
	out.Count("stress:flushed-buffers", nseg)
}

// regression case for the repaired SealBuffer aliasing: three sealed, unflushed buffers;
// on the pinned tree the next record overwrote the oldest of them
func witness0(out *hx.Out) {
	c := newCase(out, 100, farIv, true, false, 0)
	for k := 0; k < 10; k++ {
		c.add(1000+10*int64(k), 12)
	}
	c.loop(0)
	c.sub(false)
	c.sub(true)
	c.drain()
	c.finish("regression-sealbuffer-alias", 100, farIv, true, 0)
}

// known finding 0: four seals while the flush function has not returned push the first
// sealed buffer out of the ring (every entry is larger than the buffer: one per buffer)
func witness1(out *hx.Out) {
	c := newCase(out, 100, farIv, true, false, 0)
	// payloads grow so that the array handed back by SealBuffer is always too small
	// and AddToBuffer allocates a fresh one
	for k, plen := range []int{150, 150, 150, 400, 400} {
		c.add(1000+10*int64(k), plen)
	}
	c.loop(0)
	c.sub(false)
	c.sub(true)
	c.drain()
	c.finish("witness-finding0", 100, farIv, true, 0)
}

// flushFn = nil (the aggregated buffer): a subscriber behind the last seal is parked on the
// (empty) persisted log for ever (c22_nil_flush_liveness_refuted); one that is level with
// the seal goes on receiving from memory
func witnessNilFlush(out *hx.Out) {
	c := newCase(out, 100, farIv, false, false, 0)
	c.add(1000, 12)
	c.seal()
	c.read(0)    // between Seal and the next Add: ResumeFromDisk
	c.read(1000) // level with the seal: nil
	c.read(1001)
	c.sub(false)
	c.sub(false)
	c.add(1010, 12)
	c.read(1000)
	c.loop(999)
	c.drain()
	c.finish("witness-nilflush-parked", 100, farIv, false, 0)
}

// NewLogBuffer itself: 4 MiB buffers, MiB payloads
func realCase(out *hx.Out, r *hx.Rng) {
	hf := true
	t0 := int64(0)
	base := int64(300000)
	if r.Chance(1, 2) {
		t0 = base + int64(r.Intn(40))
	}
	c := newCase(out, realBufferSize, farIv, hf, true, t0)
	ts := base
	plen := r.PickInt([]int{1100000, 1500000, 2200000})
	n := r.Range(5, 8)
	for k := 0; k < n; k++ {
		ts += int64(r.Range(-2, 12))
		c.add(ts, plen)
		if r.Chance(1, 3) {
			c.read(c.boundary(r, base))
		}
		if r.Chance(1, 3) {
			c.sub(r.Bool())
		}
		if c.g.unmarked() >= 1 && r.Chance(2, 3) {
			c.flushWrite()
			c.flushMark()
		}
		for c.g.unmarked() >= 2 {
			c.flushWrite()
			c.flushMark()
		}
	}
	c.loop(c.boundary(r, base))
	c.drain()
	c.finish("real-4MiB", realBufferSize, farIv, hf, t0)
}

func randomCase(out *hx.Out, r *hx.Rng) {
	cap := r.PickInt([]int{64, 100, 128, 200, 333})
	iv := pickI64(r, []int64{farIv, farIv, 40, 200, 1000})
	hf := !r.Chance(1, 10)
	base := int64(100000) + int64(r.Intn(1000))
	mode := r.PickStr([]string{"uniform", "uniform", "uniform", "big", "varied", "varied", "varied"})
	eager := r.Chance(1, 2)
	t0 := pickI64(r, []int64{0, base - 1, base, base + int64(r.Intn(120)), base + int64(r.Intn(400))})
	c := newCase(out, cap, iv, hf, false, t0)
	ulen := r.Range(4, 40)
	if mode == "big" {
		ulen = cap + r.Range(0, 40)
	}
	ts := base
	nops := r.Range(8, 45)
	for j := 0; j < nops; j++ {
		k := r.Intn(100)
		switch {
		case k < 45:
			switch d := r.Intn(20); {
			case d == 0:
				// equal to the previous explicit timestamp
			case d == 1:
				ts -= int64(r.Range(1, 20))
			case d == 2 && iv != farIv:
				ts += iv + int64(r.Range(0, 5))
			default:
				ts += int64(r.Range(1, 25))
			}
			plen := ulen
			if mode == "varied" {
				plen = r.Range(4, 60)
				if r.Chance(1, 12) {
					plen = cap + r.Range(-20, 30)
				}
			}
			c.add(ts, plen)
			if eager && c.g.unmarked() > 0 && r.Chance(3, 4) {
				c.flushWrite()
				if r.Chance(3, 4) {
					c.flushMark()
				}
			}
		case k < 52:
			c.seal()
			if r.Chance(1, 2) { // a reader between Seal and the next Add (startTime = stopTime = Unix(0,0))
				c.read(c.boundary(r, base))
				out.Count("read:right-after-seal", 1)
			}
		case k < 60:
			c.flushWrite()
		case k < 68:
			c.flushMark()
		case k < 78:
			c.read(c.boundary(r, base))
		case k < 83:
			c.loop(c.boundary(r, base))
		case k < 87:
			c.diskRead(c.boundary(r, base))
		case k < 95:
			c.sub(false)
		default:
			c.sub(true)
		}
	}
	// sweep: a read at every assigned timestamp and its neighbours (every 5th case)
	if r.Chance(1, 5) {
		for _, e := range c.events {
			c.read(e.ts - 1)
			c.read(e.ts)
		}
		if len(c.events) > 0 {
			c.read(c.events[len(c.events)-1].ts + 1)
		}
	}
	c.drain()
	out.Count("mode:"+mode, 1)
	if iv != farIv {
		out.Count("interval:short", 1)
	}
	if !hf {
		out.Count("flushFn:nil", 1)
	}
	c.finish("random-"+mode, cap, iv, hf, t0)
}
