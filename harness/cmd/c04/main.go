// C04 harness: compaction is invisible to readers.
//
// Per case two volumes of one real storage.Store (NeedleMapInMemory) get the same
// history: run h1 on both, Volume.Compact (scan) or Volume.Compact2 (index) on the
// first, run h2 on both, Volume.CommitCompact on the first, then every key of the
// universe is read on both.  The code reads the wall clock, so a blob is aged by
// rewriting the AppendAtNs of its stored record right after the write (hook
// VerifC09SetAppendAtNs) and by client-supplied LastModified values; all generated
// ages are at least half an hour away from every expiry boundary.
// With -tags 5BytesOffset some cases extend the .dat file with a hole beyond
// 32 GiB (sparse), so that offsets need the fifth byte.
package main

import (
	"fmt"
	"os"
	"sort"
	"strings"
	"time"

	"github.com/chrislusf/seaweedfs/weed/storage"
	"github.com/chrislusf/seaweedfs/weed/storage/idx"
	"github.com/chrislusf/seaweedfs/weed/storage/needle"
	"github.com/chrislusf/seaweedfs/weed/storage/types"
	"github.com/chrislusf/seaweedfs/weed/util"
	"verifharness/hx"
)

type nd struct {
	id      uint64
	cookie  uint32
	tag, ln int // payload = pat(tag, ln)
	flags   byte
	name    string
	mime    string
	lastmod uint64
	tc, tu  byte
}

const (
	kWrite = iota
	kDelete
	kPad
)

type ev struct {
	kind   int
	t      uint64 // AppendAtNs of the record this event appends
	n      nd
	id     uint64
	cookie uint32
	off    uint64
}

type ttl struct {
	s      string
	tc, tu byte
	min    uint64
}

var (
	noTTL      = ttl{"", 0, 0, 0}
	volTTLs    = []ttl{noTTL, noTTL, noTTL, noTTL, noTTL, noTTL, noTTL, {"1m", 1, 1, 1}, {"1h", 1, 2, 60}, {"1h", 1, 2, 60}, {"3d", 3, 3, 4320}, {"3d", 3, 3, 4320}, {"137y", 137, 6, 137 * 525600}, {"0m", 0, 1, 0}}
	needleTTLs = []ttl{noTTL, noTTL, noTTL, noTTL, noTTL, noTTL, noTTL, noTTL, noTTL, noTTL, noTTL, noTTL, {"1m", 1, 1, 1}, {"1h", 1, 2, 60}, {"3d", 3, 3, 4320}, {"5y", 5, 6, 5 * 525600}}
)

func pat(tag, n int) []byte {
	b := make([]byte, n)
	for i := range b {
		b[i] = byte((tag*131 + i*7) % 256)
	}
	return b
}

func u(v uint64) string { return fmt.Sprintf("%d", v) }

func strTerm(s string) string {
	if s == "" {
		return "[]"
	}
	return "(str " + hx.Str(s) + ")"
}

func (n nd) term() string {
	return fmt.Sprintf("(mkn %d %d (pat %d %d) %d %s %s %s %d %d)", n.id, n.cookie, n.tag, n.ln, n.flags,
		strTerm(n.name), strTerm(n.mime), u(n.lastmod), n.tc, n.tu)
}

func (e ev) term() string {
	switch e.kind {
	case kWrite:
		return fmt.Sprintf("W %s %s", u(e.t), e.n.term())
	case kDelete:
		return fmt.Sprintf("D %s %d %d", u(e.t), e.id, e.cookie)
	}
	return fmt.Sprintf("P %s", u(e.off))
}

// canonical form: times relative to the generation instant
func (e ev) canon(nowNs uint64) string {
	switch e.kind {
	case kWrite:
		n := e.n
		return fmt.Sprintf("W%d.%x.p%d.%d.f%x.%s.%s.lm%d.t%d.%d.age%d", n.id, n.cookie, n.tag, n.ln, n.flags, n.name, n.mime,
			int64(n.lastmod)-int64(nowNs/1e9), n.tc, n.tu, (int64(nowNs)-int64(e.t))/1e9)
	case kDelete:
		return fmt.Sprintf("D%d.%x", e.id, e.cookie)
	}
	return fmt.Sprintf("P%d", e.off)
}

func errClass(err error) string {
	switch {
	case err == nil:
		return "ENone"
	case err == storage.ErrorNotFound:
		return "ENotFound"
	case err == storage.ErrorDeleted:
		return "EDeleted"
	case strings.Contains(err.Error(), "mismatching cookie"):
		return "ECookie"
	case strings.Contains(err.Error(), "is read only"):
		return "EReadOnly"
	}
	return "EOther"
}

type env struct {
	s    *storage.Store
	next int
	out  *hx.Out
}

func (e *env) addVolume(t ttl) needle.VolumeId {
	e.next++
	vid := needle.VolumeId(e.next)
	hx.Must(e.s.AddVolume(vid, "", storage.NeedleMapInMemory, "000", t.s, 0, 0, types.HardDriveType))
	return vid
}

// apply runs one event on one volume and returns the Coq term of the answer.
func (e *env) apply(vid needle.VolumeId, x ev) string {
	switch x.kind {
	case kWrite:
		n := x.n
		nn := &needle.Needle{Id: types.NeedleId(n.id), Cookie: types.Cookie(n.cookie), Flags: n.flags, LastModified: n.lastmod}
		nn.Data = pat(n.tag, n.ln)
		nn.Name = []byte(n.name)
		nn.Mime = []byte(n.mime)
		if n.tc != 0 || n.tu != 0 {
			nn.Ttl = &needle.TTL{Count: n.tc, Unit: n.tu}
		} else {
			nn.Ttl = needle.EMPTY_TTL // what ReadTTL("") gives to CreateNeedleFromRequest
		}
		nn.Checksum = needle.NewCRC(nn.Data)
		unchanged, err := e.s.WriteVolumeNeedle(vid, nn, false)
		if err == nil && !unchanged && n.ln > 0 {
			hx.Must(e.s.GetVolume(vid).VerifC09SetAppendAtNs(n.id, x.t))
		}
		return fmt.Sprintf("RWrite %s %s %d", errClass(err), hx.Bool(unchanged), nn.Size)
	case kDelete:
		nn := &needle.Needle{Id: types.NeedleId(x.id), Cookie: types.Cookie(x.cookie)}
		size, err := e.s.DeleteVolumeNeedle(vid, nn)
		return fmt.Sprintf("RDelete %s %s", errClass(err), hx.Z(int64(size)))
	}
	hx.Must(e.s.GetVolume(vid).DataBackend.Truncate(int64(x.off)))
	return "RPad"
}

func (e *env) read(vid needle.VolumeId, id uint64) (term string, found bool) {
	n := &needle.Needle{Id: types.NeedleId(id)}
	count, err := e.s.ReadVolumeNeedle(vid, n, nil)
	if err != nil {
		return fmt.Sprintf("no %s %s", errClass(err), hx.Z(int64(count))), false
	}
	var tc, tu byte
	if n.Ttl != nil {
		tc, tu = n.Ttl.Count, n.Ttl.Unit
	}
	return fmt.Sprintf("ok %s (mkv %d %d %s %d %s %s %s %d %d)", hx.Z(int64(count)), uint32(n.Cookie), int32(n.Size),
		hx.Bytes(n.Data), n.Flags, hx.Bytes(n.Name), hx.Bytes(n.Mime), u(n.LastModified), tc, tu), len(n.Data) > 0
}

type plan struct {
	kind   string
	vt     ttl
	scan   bool
	h1, h2 []ev
	sched  [][]ev // scan-based only: operations issued from inside the copy loop, before the visit of record i
	h3     []ev   // operations after CommitCompact
	keys   []uint64
	// an abandoned compaction before the real one: after the first pre operations of h1 the first
	// volume runs Compact/Compact2 (0 = none), optionally followed by cleanupCompact; nothing is committed
	pre        int
	preScan    bool
	preCleanup bool
}

// runCase executes one plan on a fresh pair of volumes and records the case.
func (e *env) runCase(p plan, genNowNs uint64) {
	t0 := time.Now()
	a, b := e.addVolume(p.vt), e.addVolume(p.vt)
	var answers []string
	run := func(h []ev) {
		for _, x := range h {
			ra := e.apply(a, x)
			rb := e.apply(b, x)
			if ra != rb {
				panic(fmt.Sprintf("the two volumes answered differently to %s: %s / %s", x.term(), ra, rb))
			}
			answers = append(answers, ra)
		}
	}
	va := e.s.GetVolume(a)
	if p.pre > 0 {
		run(p.h1[:p.pre])
		if p.preScan {
			hx.Must(va.Compact(0, 0))
		} else {
			hx.Must(va.Compact2(0, 0))
		}
		if p.preCleanup {
			hx.Must(va.VerifC04CleanupCompact())
		}
		run(p.h1[p.pre:])
	} else {
		run(p.h1)
	}
	nowS := uint64(time.Now().Unix())
	switch {
	case p.scan && len(p.sched) > 0:
		next := 0
		hx.Must(va.VerifC04CompactHooked(func(i int) {
			if i < len(p.sched) {
				run(p.sched[i])
				next = i + 1
			}
		}))
		// the scanner reached the end of the file: the remaining operations come after the scan
		for ; next < len(p.sched); next++ {
			run(p.sched[next])
		}
	case p.scan:
		hx.Must(va.Compact(0, 0))
	default:
		hx.Must(va.Compact2(0, 0))
	}
	run(p.h2)
	hx.Must(va.CommitCompact())
	nowR := uint64(time.Now().UnixNano())
	readAll := func() (ra, rb []string, nontrivial bool) {
		for _, k := range p.keys {
			ta, _ := e.read(a, k)
			tb, fb := e.read(b, k)
			ra = append(ra, ta)
			rb = append(rb, tb)
			if fb {
				nontrivial = true
			}
			if ta != tb {
				e.out.Count("read:differs", 1)
			} else {
				e.out.Count("read:same", 1)
			}
		}
		return
	}
	ra, rb, nontrivial := readAll()
	datA, idxA, _ := va.FileStat()
	datB, _, _ := e.s.GetVolume(b).FileStat()
	ro := va.IsReadOnly()
	rev := va.VerifC04Revision()
	// the new .idx, entry by entry
	type ks struct {
		k uint64
		s int64
	}
	var kss []ks
	{
		f, err := os.Open(va.FileName(".idx"))
		hx.Must(err)
		hx.Must(idx.WalkIndexFile(f, func(key types.NeedleId, offset types.Offset, size types.Size) error {
			kss = append(kss, ks{uint64(key), int64(size)})
			return nil
		}))
		f.Close()
	}
	sort.Slice(kss, func(i, j int) bool {
		if kss[i].k != kss[j].k {
			return kss[i].k < kss[j].k
		}
		return kss[i].s < kss[j].s
	})
	ksTerms := make([]string, len(kss))
	for i, x := range kss {
		ksTerms[i] = fmt.Sprintf("(%d%%N, %s)", x.k, hx.Z(x.s))
	}
	// operations after the commit: the two volumes may answer differently here
	var ans3a, ans3b []string
	for _, x := range p.h3 {
		ans3a = append(ans3a, e.apply(a, x))
		ans3b = append(ans3b, e.apply(b, x))
	}
	ra3, rb3, _ := readAll()
	datA3, _, _ := va.FileStat()
	datB3, _, _ := e.s.GetVolume(b).FileStat()
	hx.Must(e.s.DeleteVolume(a))
	hx.Must(e.s.DeleteVolume(b))
	if time.Since(t0) > 20*time.Second {
		panic("case took more than 20 s: the expiry margins are no longer safe")
	}

	algo := "Index"
	if p.scan {
		algo = "Scan"
	}
	terms := func(h []ev) string {
		xs := make([]string, len(h))
		for i, x := range h {
			xs[i] = x.term()
		}
		return hx.List(xs)
	}
	var canon []string
	for i, x := range p.h1 {
		if p.pre > 0 && i == p.pre {
			canon = append(canon, fmt.Sprintf("|pre%v%v|", p.preScan, p.preCleanup))
		}
		canon = append(canon, x.canon(genNowNs))
		e.out.Count(fmt.Sprintf("op:%d", x.kind), 1)
	}
	canon = append(canon, "|"+algo+"|")
	schedTerms := make([]string, len(p.sched))
	for i, evs := range p.sched {
		schedTerms[i] = terms(evs)
		canon = append(canon, fmt.Sprintf("|v%d|", i))
		for _, x := range evs {
			canon = append(canon, x.canon(genNowNs))
			e.out.Count(fmt.Sprintf("op:%d", x.kind), 1)
		}
	}
	canon = append(canon, "|copied|")
	for _, x := range p.h2 {
		canon = append(canon, x.canon(genNowNs))
		e.out.Count(fmt.Sprintf("op:%d", x.kind), 1)
	}
	canon = append(canon, "|commit|")
	for _, x := range p.h3 {
		canon = append(canon, x.canon(genNowNs))
	}
	term := fmt.Sprintf("{| vttl := (%d%%N, %d%%N); osz := %d; algo := %s; now_s := %s; now_r := %s; h1 := %s; sched := %s; h2 := %s; h3 := %s; keys := %s; impl_ev := %s; impl_main := %s; impl_twin := %s; fin_dat := %s; fin_idx := %s; fin_ro := %s; twin_dat := %s; fin_rev := %d; fin_ks := %s; impl_ev3_main := %s; impl_ev3_twin := %s; impl_main3 := %s; impl_twin3 := %s; fin_dat3 := %s; twin_dat3 := %s |}",
		p.vt.tc, p.vt.tu, types.OffsetSize, algo, u(nowS), u(nowR), terms(p.h1), hx.List(schedTerms), terms(p.h2), terms(p.h3), hx.NList(p.keys),
		hx.List(answers), hx.List(ra), hx.List(rb), u(datA), u(idxA/uint64(types.NeedleMapEntrySize)), hx.Bool(ro), u(datB),
		rev, hx.List(ksTerms), hx.List(ans3a), hx.List(ans3b), hx.List(ra3), hx.List(rb3), u(datA3), u(datB3))
	e.out.Add(term, fmt.Sprintf("vt%s;%s", p.vt.s, strings.Join(canon, ";")), nontrivial, p.kind)
	e.out.Count(fmt.Sprintf("sched-slots:%d", len(p.sched)), 1)
	e.out.Count(fmt.Sprintf("len-h3:%d", len(p.h3)), 1)
	if p.pre > 0 {
		e.out.Count(fmt.Sprintf("abandoned-compaction:scan=%v,cleanup=%v", p.preScan, p.preCleanup), 1)
	}
	e.out.Count("alg:"+algo, 1)
	e.out.Count("vttl:"+p.vt.s, 1)
	e.out.Count(fmt.Sprintf("len-h1:%d", len(p.h1)), 1)
	e.out.Count(fmt.Sprintf("len-h2:%d", len(p.h2)), 1)
}

// ---------- generation ----------

const hour = uint64(3600)

func cookieOf(key uint64, other bool) uint32 {
	if other {
		return uint32(0x2000 + key)
	}
	return uint32(0x1000 + key)
}

func genNeedle(r *hx.Rng, key uint64, nowS uint64) nd {
	n := nd{id: key, cookie: cookieOf(key, r.Chance(1, 8))}
	n.tag = r.Intn(4)
	n.ln = r.PickInt([]int{1, 1, 3, 3, 3, 8, 8, 8, 17, 17, 40, 40, 300})
	if r.Chance(1, 30) {
		n.ln = 0
	}
	if r.Chance(1, 3) {
		n.name = r.PickStr([]string{"a.txt", "b"})
		n.flags |= needle.FlagHasName
	}
	if r.Chance(1, 4) {
		n.mime = "text/plain"
		n.flags |= needle.FlagHasMime
	}
	if !r.Chance(1, 12) {
		n.flags |= needle.FlagHasLastModifiedDate
		n.lastmod = uint64(int64(nowS) + int64(r.PickInt([]int{0, 0, 0, -2 * 3600, -10 * 86400, -400 * 86400, 2 * 3600, 10 * 86400})))
	}
	t := needleTTLs[r.Intn(len(needleTTLs))]
	if t.s != "" {
		n.tc, n.tu = t.tc, t.tu
		n.flags |= needle.FlagHasTtl
	}
	return n
}

// appendAt picks the AppendAtNs of a record: fresh, 30 minutes old, or an hour past the
// TTL (of the needle, or of the volume when the needle has none)
func appendAt(r *hx.Rng, nowNs uint64, n nd, vt ttl, seq int) uint64 {
	min := uint64(0)
	switch {
	case n.tc != 0:
		min = ttlMinutes(n.tc, n.tu)
	case vt.s != "":
		min = vt.min
	}
	age := uint64(0)
	switch r.Intn(6) {
	case 0:
		age = 1800
	case 1:
		if min > 0 && min < 100*525600 { // keep AppendAtNs positive
			age = min*60 + 3600
		}
	case 2:
		age = 5 * 86400
	}
	return nowNs - age*1e9 + uint64(seq)
}

func ttlMinutes(c, un byte) uint64 {
	m := []uint64{0, 1, 60, 1440, 10080, 43200, 525600}
	return uint64(c) * m[un]
}

func genOps(r *hx.Rng, n int, keys []uint64, nowNs uint64, vt ttl, seq *int) []ev {
	var h []ev
	for i := 0; i < n; i++ {
		key := keys[r.Intn(len(keys))]
		*seq++
		if r.Chance(1, 3) {
			h = append(h, ev{kind: kDelete, t: nowNs + uint64(*seq), id: key, cookie: cookieOf(key, false)})
		} else {
			nn := genNeedle(r, key, nowNs/1e9)
			h = append(h, ev{kind: kWrite, t: appendAt(r, nowNs, nn, vt, *seq), n: nn})
		}
	}
	return h
}

func w(t uint64, id uint64, tag, ln int, lastmod uint64, tt ttl) ev {
	n := nd{id: id, cookie: cookieOf(id, false), tag: tag, ln: ln, lastmod: lastmod, flags: needle.FlagHasLastModifiedDate, tc: tt.tc, tu: tt.tu}
	if tt.s != "" {
		n.flags |= needle.FlagHasTtl
	}
	return ev{kind: kWrite, t: t, n: n}
}

const beyond32g = uint64(1<<35 + 64)

func main() {
	out := hx.Flags("C04", 200)
	five := types.OffsetSize == 5
	out.Rule = "per case two real volumes get the same phase-structured history (h1, Compact or Compact2 on the first volume, h2, CommitCompact on the first volume), 0-12 operations per phase over 3-4 keys x 2 cookies; 3 in 5 scan-based cases also issue 0-2 operations from inside the copy loop before the visit of each of the first 1-8 records (hooked scanner, same goroutine), 1 in 5 cases run an abandoned Compact/Compact2 (with or without cleanupCompact) in the middle of h1, half of the cases continue with 1-6 operations after the commit and read again: writes (payload pat(tag<4, len in {0,1,3,8,17,40,300}), optional name/mime, needle TTL none/1m/1h/3d/5y, LastModified now/-2h/-10d/-400d/+2h/+10d or absent, AppendAtNs fresh/30 min old/TTL+1h old/5 days old) and deletes; volume TTL none/1m/1h/3d/137y/0m; then every key is read on both volumes; the first cases are the fixed witnesses of the known findings; with 5-byte offsets a fifth of the cases extend the .dat beyond 32 GiB (sparse) before or during the compaction (index-based only when before); non-trivial = the never-compacted volume serves a non-empty blob for some key; distinct = canonical history with times relative to the generation instant"
	dir, err := os.MkdirTemp("", "c04-vol")
	hx.Must(err)
	defer os.RemoveAll(dir)
	s := storage.NewStore(nil, 0, "localhost", "localhost", []string{dir}, []int{1 << 20},
		[]util.MinFreeSpace{{Type: util.AsPercent, Percent: 0}}, "", storage.NeedleMapInMemory, []types.DiskType{types.HardDriveType})
	go func() {
		for range s.NewVolumesChan {
		}
	}()
	go func() {
		for range s.DeletedVolumesChan {
		}
	}()
	e := &env{s: s, out: out}
	root := hx.NewRng(out.Seed)

	// fixed witnesses of the known findings
	{
		now := uint64(time.Now().UnixNano())
		ns := now / 1e9
		keys := []uint64{1, 2}
		d3 := ttl{"3d", 3, 3, 4320}
		wit := []plan{
			// 0: an empty blob is dropped by the compaction
			{kind: "witness-empty", vt: noTTL, scan: false, keys: keys, h1: []ev{w(now, 1, 0, 0, ns, noTTL), w(now+1, 2, 1, 3, ns, noTTL)}},
			// 1: a needle with its own TTL in a volume without TTL is dropped although it is readable for 3 more days
			{kind: "witness-ttl", vt: noTTL, scan: false, keys: keys, h1: []ev{w(now, 1, 0, 3, ns, d3), w(now+1, 2, 1, 3, ns, noTTL)}},
			// 2: scan-based compaction: the key-sorted .cpx makes the reload truncate the .dat
			{kind: "witness-scan-order", vt: noTTL, scan: true, keys: keys, h1: []ev{w(now, 2, 0, 3, ns, noTTL), w(now+1, 1, 1, 3, ns, noTTL)}},
			// 1 again: TTL volume, client-supplied old LastModified
			{kind: "witness-ttl-lastmod", vt: d3, scan: true, keys: keys, h1: []ev{w(now, 1, 0, 3, ns-10*86400, noTTL), w(now+1, 2, 1, 3, ns, noTTL)}},
			// 0 again: overwriting with an empty blob during the compaction acts as a delete
			{kind: "witness-empty-h2", vt: noTTL, scan: false, keys: keys, h1: []ev{w(now, 1, 0, 3, ns, noTTL), w(now+1, 2, 1, 3, ns, noTTL)}, h2: []ev{w(now+2, 1, 0, 0, ns, noTTL)}},
		}
		if five {
			// repaired (was finding 3): a write beyond 32 GiB during the compaction used to be lost because
			// makeupDiff kept the fifth offset byte of the old entry; must now read the same on both volumes
			wit = append(wit, plan{kind: "repaired-fifth-byte", vt: noTTL, scan: false, keys: keys,
				h1: []ev{w(now, 1, 0, 3, ns, noTTL)}, h2: []ev{{kind: kPad, off: beyond32g}, w(now+1, 2, 1, 3, ns, noTTL)}})
		}
		// fixed interleavings of writers with the scan-based copy loop (no finding: must read the same)
		wit = append(wit,
			// key 1 is overwritten after its record was copied, key 2 is deleted before the scanner reaches it
			plan{kind: "mid-scan-fixed", vt: noTTL, scan: true, keys: []uint64{1, 2, 3}, h1: []ev{w(now, 1, 0, 3, ns, noTTL), w(now+1, 2, 1, 3, ns, noTTL), w(now+2, 3, 2, 8, ns, noTTL)},
				sched: [][]ev{{}, {w(now+3, 1, 3, 17, ns, noTTL), {kind: kDelete, t: now + 4, id: 2, cookie: cookieOf(2, false)}}},
				h3: []ev{w(now+5, 2, 1, 8, ns, noTTL)}},
			// a record appended during the scan is visited by the scanner (and replayed by makeupDiff), then rewritten
			plan{kind: "mid-scan-fixed", vt: noTTL, scan: true, keys: []uint64{1, 2, 3}, h1: []ev{w(now, 1, 0, 3, ns, noTTL), w(now+1, 3, 1, 3, ns, noTTL)},
				sched: [][]ev{{w(now+2, 2, 2, 8, ns, noTTL)}, {}, {w(now+3, 2, 3, 1, ns, noTTL), w(now+4, 3, 0, 40, ns, noTTL)}},
				h2: []ev{{kind: kDelete, t: now + 5, id: 1, cookie: cookieOf(1, false)}}},
			// an abandoned Compact (files left behind) before the real Compact2
			plan{kind: "abandoned-fixed", vt: noTTL, scan: false, keys: []uint64{1, 2, 3}, pre: 2, preScan: true,
				h1: []ev{w(now, 1, 0, 40, ns, noTTL), w(now+1, 2, 1, 40, ns, noTTL), {kind: kDelete, t: now + 2, id: 1, cookie: cookieOf(1, false)}, w(now+3, 3, 2, 3, ns, noTTL)},
				h2: []ev{w(now+4, 1, 3, 3, ns, noTTL)}})
		for _, p := range wit {
			if out.Len() < out.N {
				e.runCase(p, now)
			}
		}
	}

	for out.Len() < out.N {
		r := root.Fork()
		now := uint64(time.Now().UnixNano())
		nk := r.Range(3, 4)
		keys := make([]uint64, nk)
		for i := range keys {
			keys[i] = uint64(i + 1)
		}
		p := plan{kind: "random", vt: volTTLs[r.Intn(len(volTTLs))], scan: r.Bool(), keys: keys}
		seq := 0
		n1 := r.Range(0, 12)
		if r.Chance(4, 5) && n1 < 3 {
			n1 = 3
		}
		n2 := 0
		if !r.Chance(1, 4) {
			n2 = r.Range(1, 12)
		}
		mode := 0
		if five {
			mode = r.Intn(10) // 0: hole during the compaction, 1: hole before it (index-based only)
		} else {
			mode = 9
		}
		switch mode {
		case 0:
			p.kind = "hole-h2"
			p.h1 = genOps(r, n1, keys, now, p.vt, &seq)
			h2 := genOps(r, r.Range(1, 8), keys, now, p.vt, &seq)
			at := r.Intn(len(h2))
			p.h2 = append(append(append([]ev{}, h2[:at]...), ev{kind: kPad, off: beyond32g}), h2[at:]...)
		case 1:
			p.kind = "hole-h1"
			p.scan = false
			h1 := genOps(r, n1, keys, now, p.vt, &seq)
			at := r.Intn(len(h1) + 1)
			p.h1 = append(append(append([]ev{}, h1[:at]...), ev{kind: kPad, off: beyond32g}), h1[at:]...)
			p.h2 = genOps(r, r.Range(0, 8), keys, now, p.vt, &seq)
		default:
			p.h1 = genOps(r, n1, keys, now, p.vt, &seq)
			if p.scan && r.Chance(3, 5) {
				// writers during the copy loop: 1-8 visit slots with 0-2 operations each
				p.kind = "mid-scan"
				for i, ns := 0, r.Range(1, 8); i < ns; i++ {
					p.sched = append(p.sched, genOps(r, r.PickInt([]int{0, 1, 1, 2}), keys, now, p.vt, &seq))
				}
			}
			p.h2 = genOps(r, n2, keys, now, p.vt, &seq)
			if r.Chance(1, 5) && len(p.h1) > 0 {
				p.pre, p.preScan, p.preCleanup = r.Range(1, len(p.h1)), r.Bool(), r.Bool()
			}
		}
		if r.Chance(1, 2) {
			p.h3 = genOps(r, r.Range(1, 6), keys, now, p.vt, &seq)
		}
		e.runCase(p, now)
	}
	out.Write()
}
