// probe (temporary)
package main

import (
	"fmt"
	"os"
	"time"

	"github.com/chrislusf/seaweedfs/weed/storage"
	"github.com/chrislusf/seaweedfs/weed/storage/needle"
	"github.com/chrislusf/seaweedfs/weed/storage/types"
	"github.com/chrislusf/seaweedfs/weed/util"
)

func mk(id uint64, cookie uint32, data string, ttl string, lm uint64) *needle.Needle {
	n := new(needle.Needle)
	n.Id = types.NeedleId(id)
	n.Cookie = types.Cookie(cookie)
	n.Data = []byte(data)
	n.Checksum = needle.NewCRC(n.Data)
	n.Ttl, _ = needle.ReadTTL(ttl)
	if n.Ttl != needle.EMPTY_TTL {
		n.SetHasTtl()
	}
	if lm != 0 {
		n.LastModified = lm
		n.SetHasLastModifiedDate()
	}
	return n
}

func read(s *storage.Store, vid int, id uint64) string {
	n := new(needle.Needle)
	n.Id = types.NeedleId(id)
	c, err := s.ReadVolumeNeedle(needle.VolumeId(vid), n, nil)
	return fmt.Sprintf("id%d: count=%d err=%v data=%q cookie=%x", id, c, err, n.Data, n.Cookie)
}

func main() {
	dir, _ := os.MkdirTemp("", "c04probe")
	defer os.RemoveAll(dir)
	s := storage.NewStore(nil, 0, "localhost", "localhost", []string{dir}, []int{1 << 20},
		[]util.MinFreeSpace{{Type: util.AsPercent, Percent: 0}}, "", storage.NeedleMapInMemory, []types.DiskType{types.HardDriveType})
	go func() {
		for range s.NewVolumesChan {
		}
	}()
	go func() {
		for range s.DeletedVolumesChan {
		}
	}()
	now := uint64(time.Now().Unix())
	w := func(vid int, n *needle.Needle) {
		_, err := s.WriteVolumeNeedle(needle.VolumeId(vid), n, false)
		if err != nil {
			fmt.Println("write err", err)
		}
	}
	d := func(vid int, id uint64, cookie uint32) {
		n := new(needle.Needle)
		n.Id = types.NeedleId(id)
		n.Cookie = types.Cookie(cookie)
		sz, err := s.DeleteVolumeNeedle(needle.VolumeId(vid), n)
		fmt.Println("delete", id, sz, err)
	}
	vid := 0
	scenario := func(name string, ttl string, alg int, h1, h2 func(vid int), keys []uint64) {
		vid++
		a := vid
		vid++
		b := vid
		hx := func(e error) {
			if e != nil {
				panic(e)
			}
		}
		hx(s.AddVolume(needle.VolumeId(a), "", storage.NeedleMapInMemory, "000", ttl, 0, 0, types.HardDriveType))
		hx(s.AddVolume(needle.VolumeId(b), "", storage.NeedleMapInMemory, "000", ttl, 0, 0, types.HardDriveType))
		h1(a)
		h1(b)
		v := s.GetVolume(needle.VolumeId(a))
		if alg == 1 {
			fmt.Println(name, "Compact:", v.Compact(0, 0))
		} else {
			fmt.Println(name, "Compact2:", v.Compact2(0, 0))
		}
		h2(a)
		h2(b)
		fmt.Println(name, "Commit:", v.CommitCompact())
		for _, k := range keys {
			fmt.Println(name, " compacted", read(s, a, k))
			fmt.Println(name, " twin     ", read(s, b, k))
		}
		ds, is, _ := v.FileStat()
		fmt.Println(name, "dat", ds, "idx", is, "readonly", v.IsReadOnly())
	}
	none := func(int) {}
	if types.OffsetSize == 5 {
		pad := func(v int) {
			vol := s.GetVolume(needle.VolumeId(v))
			fmt.Println("pad", vol.DataBackend.Truncate(1<<35+64))
		}
		scenario("hi-c2", "", 2, func(v int) { w(v, mk(1, 1, "one", "", now)) }, func(v int) { pad(v); w(v, mk(2, 1, "two", "", now)); }, []uint64{1, 2})
		scenario("hi-c2-del", "", 2, func(v int) { w(v, mk(1, 1, "one", "", now));  w(v, mk(2, 1, "two", "", now)) }, func(v int) { pad(v); d(v, 2, 1); }, []uint64{1, 2})
		scenario("hi-c2-h1pad", "", 2, func(v int) { w(v, mk(1, 1, "one", "", now)); pad(v); w(v, mk(2, 1, "two", "", now)) }, func(v int) { w(v, mk(3, 1, "three", "", now)); }, []uint64{1, 2, 3})
		return
	}
	// 1. order: key 2 then key 1, scan-based Compact
	scenario("order-compact1", "", 1, func(v int) { w(v, mk(2, 1, "two", "", now)); w(v, mk(1, 1, "one", "", now)) }, none, []uint64{1, 2})
	scenario("order-compact2", "", 2, func(v int) { w(v, mk(2, 1, "two", "", now)); w(v, mk(1, 1, "one", "", now)) }, none, []uint64{1, 2})
	// 2. empty blob
	scenario("empty-c1", "", 1, func(v int) { w(v, mk(1, 1, "", "", now)); w(v, mk(2, 1, "x", "", now)) }, none, []uint64{1, 2})
	scenario("empty-c2", "", 2, func(v int) { w(v, mk(1, 1, "", "", now)); w(v, mk(2, 1, "x", "", now)) }, none, []uint64{1, 2})
	scenario("empty-h2", "", 2, func(v int) { w(v, mk(1, 1, "one", "", now)); w(v, mk(2, 1, "x", "", now)) }, func(v int) { w(v, mk(1, 1, "", "", now)) }, []uint64{1, 2})
	// 3. ttl needle in non-ttl volume
	scenario("ttl-nonttlvol-c1", "", 1, func(v int) { w(v, mk(1, 1, "one", "3d", now)); w(v, mk(2, 1, "x", "", now)) }, none, []uint64{1, 2})
	scenario("ttl-nonttlvol-c2", "", 2, func(v int) { w(v, mk(1, 1, "one", "3d", now)); w(v, mk(2, 1, "x", "", now)) }, none, []uint64{1, 2})
	// 4. ttl volume 5m, needle ttl 3d, and old last modified
	scenario("ttlvol-oldlm-c2", "5m", 2, func(v int) { w(v, mk(1, 1, "one", "3d", now-3600)); w(v, mk(2, 1, "x", "", now)) }, none, []uint64{1, 2})
	scenario("ttlvol-oldlm-c1", "5m", 1, func(v int) { w(v, mk(1, 1, "one", "", now-3600)); w(v, mk(2, 1, "x", "", now)) }, none, []uint64{1, 2})
	// 5. h2 ops
	scenario("h2-c1", "", 1, func(v int) { w(v, mk(1, 1, "one", "", now)); w(v, mk(2, 1, "two", "", now)); w(v, mk(3, 1, "three", "", now)) },
		func(v int) { d(v, 1, 1); w(v, mk(2, 1, "TWO", "", now)); w(v, mk(4, 1, "four", "", now)); d(v, 4, 1); w(v, mk(5, 1, "five", "", now)) }, []uint64{1, 2, 3, 4, 5})
	scenario("h2-c2", "", 2, func(v int) { w(v, mk(1, 1, "one", "", now)); w(v, mk(2, 1, "two", "", now)); w(v, mk(3, 1, "three", "", now)) },
		func(v int) { d(v, 1, 1); w(v, mk(2, 1, "TWO", "", now)); w(v, mk(4, 1, "four", "", now)); d(v, 4, 1); w(v, mk(5, 1, "five", "", now)) }, []uint64{1, 2, 3, 4, 5})
}
