// C39 harness: operation sequences on the real filesys.FsCache (via the
// verif-tagged constructor), every universe path looked up after every
// operation, node identities compared as small integer ids.
//
// Case layout (global index g = shardIndex*shardSize + i, so the exhaustive part
// is the same for every seed and is split over the shards):
//
//	g = 0, 1              witnesses of known finding 0 (ghost move): the 3-operation
//	                      one (rename a child out, rename the empty directory) and
//	                      the 4-operation one (delete the child instead)
//	2 <= g <= E+1         "trie" cases: the (g-2)-th operation prefix in
//	                      length-lexicographic order over the 40-letter alphabet,
//	                      followed by ALL 40 alphabet operations as branches
//	                      (quick: prefixes of length <= 2, i.e. every sequence of
//	                      length <= 3; thorough: length <= 3, every sequence <= 4)
//	E+1 < g <= E+1+47     "trieR" cases: root node present, alphabet extended by
//	                      Set/Ensure/Delete on "/" and "/c" (46 letters), every
//	                      prefix of length <= 1 followed by all 46 letters
//	g > E+48              random: odd -> random prefix of length 3..6 with all 40
//	                      branches; even -> random sequence of 5..30 operations
//	                      (also on "/", on extra paths, and Get) followed by a
//	                      Get sweep over every path of depth <= 3.
package main

import (
	"context"
	"flag"
	"fmt"
	"strings"

	"github.com/chrislusf/seaweedfs/weed/filesys"
	"github.com/chrislusf/seaweedfs/weed/util"
	"github.com/seaweedfs/fuse"
	"github.com/seaweedfs/fuse/fs"
	"verifharness/hx"
)

// idNode is the harness's own fs.Node: Move's type switches ignore it.
type idNode struct{ id uint64 }

func (n *idNode) Attr(ctx context.Context, a *fuse.Attr) error { return nil }

type opKind int

const (
	opSet opKind = iota
	opEnsure
	opGet
	opDelete
	opMove
)

type op struct {
	kind     opKind
	p, q     string // q: Move target
	id       uint64 // Set / Ensure fresh id (assigned by position)
	position int
}

var u5 = []string{"/a", "/b", "/a/x", "/a/x/y", "/b/x"}

// paths looked up after every operation
var lookupU = []string{"/", "/a", "/b", "/a/x", "/a/x/y", "/b/x", "/a/y", "/b/y", "/b/x/y", "/a/x/x", "/a/x/x/y", "/b/x/x"}

var alphabet []op

func init() {
	for _, p := range u5 {
		alphabet = append(alphabet, op{kind: opSet, p: p})
	}
	for _, p := range u5 {
		alphabet = append(alphabet, op{kind: opEnsure, p: p})
	}
	for _, p := range u5 {
		alphabet = append(alphabet, op{kind: opDelete, p: p})
	}
	for _, p := range u5 {
		for _, q := range u5 {
			alphabet = append(alphabet, op{kind: opMove, p: p, q: q})
		}
	}
}

// path constants defined in coq/check/C39.v (parsing string literals is slow)
var pathConst = map[string]string{"/": "pR", "/a": "pA", "/b": "pB", "/c": "pC", "/a/x": "pAX", "/a/x/y": "pAXY",
	"/b/x": "pBX", "/a/y": "pAY", "/b/y": "pBY", "/b/x/y": "pBXY", "/a/x/x": "pAXX", "/a/x/x/y": "pAXXY", "/b/x/x": "pBXX"}

// vcode prints a lookup result / node id as a constructor of C39.v (o = nil, iK = id K).
func vcode(ok bool, id uint64) string {
	if !ok {
		return "o"
	}
	if (id < 1 || id > 31) && id != 50 {
		panic(fmt.Sprintf("node id %d has no code", id))
	}
	return fmt.Sprintf("i%d", id)
}

func coqPath(p string) string {
	if c, ok := pathConst[p]; ok {
		return c
	}
	parts := util.FullPath(p).Split()
	xs := make([]string, len(parts))
	for i, s := range parts {
		xs[i] = hx.Str(s)
	}
	return "[" + strings.Join(xs, "; ") + "]"
}

func (o op) coq() string {
	switch o.kind {
	case opSet:
		return fmt.Sprintf("(St %s %s)", coqPath(o.p), vcode(true, o.id))
	case opEnsure:
		return fmt.Sprintf("(En %s %s)", coqPath(o.p), vcode(true, o.id))
	case opGet:
		return fmt.Sprintf("(Get %s)", coqPath(o.p))
	case opDelete:
		return fmt.Sprintf("(Delete %s)", coqPath(o.p))
	default:
		return fmt.Sprintf("(Move %s %s)", coqPath(o.p), coqPath(o.q))
	}
}

func (o op) canon() string {
	switch o.kind {
	case opSet:
		return "S" + o.p
	case opEnsure:
		return "E" + o.p
	case opGet:
		return "G" + o.p
	case opDelete:
		return "D" + o.p
	default:
		return "M" + o.p + ">" + o.q
	}
}

// ---- driving the real cache ----

// node modes: every case runs in all three
const (
	modeOpaque = iota // idNode values: Move's type switches ignore them
	modeDir           // real *filesys.Dir values
	modeMixed         // *filesys.File (with an entry) for nodes inserted at leaf-like paths, *filesys.Dir otherwise
)

type world struct {
	c    *filesys.FsCache
	mode int
	ids  map[fs.Node]uint64
}

// in mixed mode a node inserted here is a *File
func filePath(p string) bool {
	return len(util.FullPath(p).Split()) >= 2 && p != "/a/x"
}

func (w *world) mk(id uint64, path string) fs.Node {
	var n fs.Node
	switch {
	case w.mode == modeOpaque:
		n = &idNode{id}
	case w.mode == modeMixed && filePath(path):
		n = filesys.VerifNewFileWithEntry(id, "e")
	default:
		n = filesys.VerifNewDir(id)
	}
	w.ids[n] = id
	return n
}

func newWorld(mode int, root int64) *world {
	w := &world{mode: mode, ids: map[fs.Node]uint64{}}
	if root >= 0 {
		w.c = filesys.VerifNewFsCache(w.mk(uint64(root), "/"))
	} else {
		w.c = filesys.VerifNewFsCache(nil)
	}
	return w
}

var nameConst = map[string]string{"a": "sa", "b": "sb", "c": "sc", "x": "sx", "y": "sy"}

func coqName(n string) string {
	if c, ok := nameConst[n]; ok {
		return c
	}
	return hx.Str(n)
}

func coqParts(parts []string) string {
	p := "/" + strings.Join(parts, "/")
	if c, ok := pathConst[p]; ok {
		return c
	}
	xs := make([]string, len(parts))
	for i, s := range parts {
		xs[i] = coqName(s)
	}
	return "[" + strings.Join(xs, ";") + "]"
}

// dump walks the real structure; a broken link or a cut-off walk becomes an entry no model accepts.
func (w *world) dump() (string, []filesys.VerifDumpEntry) {
	es, bad, trunc := filesys.VerifDump(w.c)
	xs := make([]string, 0, len(es)+1)
	for _, e := range es {
		xs = append(xs, "("+coqParts(e.Path)+","+w.optId(e.Node)+")")
	}
	if bad > 0 || trunc {
		xs = append(xs, "(pR,o)")
	}
	return "[" + strings.Join(xs, ";") + "]", es
}

// attr projects the fields Move rewrites on a real node.
func (w *world) attr(n fs.Node) string {
	pid := func(d *filesys.Dir) string {
		if d == nil {
			return "o"
		}
		return w.optId(d)
	}
	switch x := n.(type) {
	case *filesys.Dir:
		id, name, parent := filesys.VerifDirInfo(x)
		return fmt.Sprintf("(At %s %s %s)", vcode(true, id), coqName(name), pid(parent))
	case *filesys.File:
		id, name, dir := filesys.VerifFileInfo(x)
		if en, has := filesys.VerifFileEntryName(x); has && en != name {
			name = "entry:" + en + "/file:" + name
		}
		return fmt.Sprintf("(At %s %s %s)", vcode(true, id), coqName(name), pid(dir))
	}
	return "A0"
}

// harness-side count of ghost moves (known finding 0), for the evidence only
var ghostSteps, ghostCases int

func under(prefix, p []string) bool {
	if len(prefix) > len(p) {
		return false
	}
	for i := range prefix {
		if prefix[i] != p[i] {
			return false
		}
	}
	return true
}

func (w *world) optId(n fs.Node) string {
	if n == nil {
		return "o"
	}
	id, ok := w.ids[n]
	if !ok {
		panic("cache returned a node the harness never inserted")
	}
	return vcode(true, id)
}

// apply runs one operation and returns the Coq obs record as (everything but the
// attributes, attributes); ghost = the step was a ghost move.
func (w *world) apply(o op) (base, attr string, sawNode, ghost bool) {
	ret, flagv := "o", false
	attr = "A0"
	switch o.kind {
	case opSet:
		w.c.SetFsNode(util.FullPath(o.p), w.mk(o.id, o.p))
	case opEnsure:
		n := w.c.EnsureFsNode(util.FullPath(o.p), func() fs.Node {
			flagv = true
			return w.mk(o.id, o.p)
		})
		ret = w.optId(n)
	case opGet:
		ret = w.optId(w.c.GetFsNode(util.FullPath(o.p)))
	case opDelete:
		w.c.DeleteFsNode(util.FullPath(o.p))
	case opMove:
		_, before := w.dump()
		moved := w.c.Move(util.FullPath(o.p), util.FullPath(o.q))
		flagv = moved != nil
		attr = w.attr(filesys.VerifFsNodeNode(moved))
		if flagv {
			srcLive, dstLive := false, false
			for _, e := range before {
				if e.Node != nil && under(util.FullPath(o.p).Split(), e.Path) {
					srcLive = true
				}
				if e.Node != nil && under(util.FullPath(o.q).Split(), e.Path) {
					dstLive = true
				}
			}
			ghost = !srcLive && dstLive
		}
	}
	all := make([]string, len(lookupU))
	for i, p := range lookupU {
		all[i] = w.optId(w.c.GetFsNode(util.FullPath(p)))
		if all[i] != "o" {
			sawNode = true
		}
	}
	// R ret flag c1..c12 dump attr (coq/check/C39.v); the 12 positions are univ12 = lookupU
	d, _ := w.dump()
	return fmt.Sprintf("R %s %s %s %s", ret, hx.Bool(flagv), strings.Join(all, " "), d), attr, sawNode, ghost
}

func number(prefix []op, branches []op) ([]op, []op) {
	p := make([]op, len(prefix))
	for i, o := range prefix {
		o.id = uint64(i + 1)
		p[i] = o
	}
	b := make([]op, len(branches))
	for i, o := range branches {
		o.id = uint64(len(prefix) + 1)
		b[i] = o
	}
	return p, b
}

type caseRun struct {
	pbase, pattr, bbase, battr, fobs []string
	nontrivial                       bool
	ghosts                           int
	panicked                         bool
}

// runCase replays prefix (+ each branch on a fresh replay) in one node mode.
// Mixed mode may panic (a *File that became the parent of a moved node:
// connectToParent's unchecked type assertion); the run is then dropped.
func runCase(mode int, root int64, prefix, branches []op, final []string) (cr caseRun) {
	defer func() {
		if r := recover(); r != nil {
			if mode != modeMixed {
				panic(r)
			}
			cr = caseRun{panicked: true}
		}
	}()
	w := newWorld(mode, root)
	for _, o := range prefix {
		b, a, saw, g := w.apply(o)
		cr.pbase, cr.pattr = append(cr.pbase, b), append(cr.pattr, a)
		cr.nontrivial = cr.nontrivial || saw
		if g {
			cr.ghosts++
		}
	}
	for _, p := range final {
		cr.fobs = append(cr.fobs, w.optId(w.c.GetFsNode(util.FullPath(p))))
	}
	for _, br := range branches {
		w2 := newWorld(mode, root)
		for _, o := range prefix {
			w2.apply(o)
		}
		b, a, saw, g := w2.apply(br)
		cr.bbase, cr.battr = append(cr.bbase, b), append(cr.battr, a)
		cr.nontrivial = cr.nontrivial || saw
		if g {
			cr.ghosts++
		}
	}
	return
}

func (cr caseRun) baseKey() string {
	return strings.Join(cr.pbase, "|") + "#" + strings.Join(cr.bbase, "|") + "#" + strings.Join(cr.fobs, "|")
}
func (cr caseRun) attrKey() string {
	return strings.Join(cr.pattr, "|") + "#" + strings.Join(cr.battr, "|")
}

func emit(out *hx.Out, kind string, root int64, prefix, branches []op, final []string) {
	prefix, branches = number(prefix, branches)
	opq := runCase(modeOpaque, root, prefix, branches, final)
	dir := runCase(modeDir, root, prefix, branches, final)
	mix := runCase(modeMixed, root, prefix, branches, final)
	// the *Dir run carries the attribute observations and is the one Coq sees; a
	// run in another mode that differs from it (lookups/dump for opaque nodes,
	// also the attributes for File/Dir nodes) is emitted as a case of its own
	emitRun(out, kind, root, prefix, branches, final, dir)
	if dir.ghosts > 0 {
		ghostCases++
		ghostSteps += dir.ghosts
		out.Count("ghost-move-steps(finding 0)", dir.ghosts)
		out.Count("cases-with-ghost-move(finding 0)", 1)
	}
	if opq.baseKey() != dir.baseKey() {
		out.Count("opaque-mode-differs", 1)
		emitRun(out, kind+"-opaque", root, prefix, branches, final, opq)
	}
	switch {
	case mix.panicked:
		out.Count("mixed-mode-panic(File parent)", 1)
	case mix.baseKey() != dir.baseKey() || mix.attrKey() != dir.attrKey():
		out.Count("mixed-mode-differs", 1)
		emitRun(out, kind+"-mixed", root, prefix, branches, final, mix)
	default:
		out.Count("mixed-mode-agrees", 1)
	}
}

func emitRun(out *hx.Out, kind string, root int64, prefix, branches []op, final []string, cr caseRun) {
	ops := make([]string, len(prefix))
	canon := make([]string, len(prefix))
	pobs := make([]string, len(prefix))
	for i, o := range prefix {
		ops[i] = o.coq()
		canon[i] = o.canon()
		pobs[i] = "(" + cr.pbase[i] + " " + cr.pattr[i] + ")"
		out.Count("op:"+[]string{"set", "ensure", "get", "delete", "move"}[o.kind], 1)
		if o.kind == opMove && cr.pattr[i] != "A0" {
			out.Count("move-with-attributes", 1)
		}
	}
	br := make([]string, len(branches))
	for i, o := range branches {
		br[i] = hx.Pair(o.coq(), "("+cr.bbase[i]+" "+cr.battr[i]+")")
	}
	rootS := "None"
	if root >= 0 {
		rootS = hx.OptN(true, uint64(root))
	}
	fin := "[]"
	if len(final) > 0 {
		fin = "(F " + hx.List(cr.fobs) + ")" // F pairs the values with sweep85 (same order as sweep())
	}
	term := fmt.Sprintf("{| root := %s; univ := univ12; ops := %s; impl := %s; branches := %s; final := %s |}",
		rootS, hx.List(ops), hx.List(pobs), hx.List(br), fin)
	out.Count("sequences", maxInt(1, len(branches)))
	out.Count(fmt.Sprintf("prefixlen:%02d", len(prefix)), 1)
	out.Add(term, fmt.Sprintf("%s|r%d|%s|b%d", kind, root, strings.Join(canon, ";"), len(branches)), cr.nontrivial, kind)
}

func maxInt(a, b int) int {
	if a > b {
		return a
	}
	return b
}

// the idx-th prefix in length-lexicographic order
func triePrefix(alphabet []op, idx int) []op {
	a := len(alphabet)
	l, count := 0, 1
	for idx >= count {
		idx -= count
		count *= a
		l++
	}
	p := make([]op, l)
	for i := l - 1; i >= 0; i-- {
		p[i] = alphabet[idx%a]
		idx /= a
	}
	return p
}

// the alphabet plus Set/Ensure/Delete on "/" and "/c" (used with a root node)
func alphabetR() []op {
	a := append([]op{}, alphabet...)
	for _, p := range []string{"/", "/c"} {
		a = append(a, op{kind: opSet, p: p}, op{kind: opEnsure, p: p}, op{kind: opDelete, p: p})
	}
	return a
}

var extraPaths = []string{"/", "/a/y", "/b/y", "/b/x/y", "/a/x/x", "/c"}

func randPath(r *hx.Rng) string {
	if r.Chance(1, 6) {
		return r.PickStr(extraPaths)
	}
	return r.PickStr(u5)
}

func randMovePath(r *hx.Rng) string {
	for {
		p := randPath(r)
		if p != "/" {
			return p
		}
	}
}

func randOp(r *hx.Rng) op {
	switch k := r.Intn(10); {
	case k < 3:
		return op{kind: opSet, p: randPath(r)}
	case k < 4:
		return op{kind: opEnsure, p: randPath(r)}
	case k < 5:
		return op{kind: opGet, p: randPath(r)}
	case k < 7:
		return op{kind: opDelete, p: randPath(r)}
	default:
		return op{kind: opMove, p: randMovePath(r), q: randMovePath(r)}
	}
}

func sweep() []string {
	names := []string{"a", "b", "x", "y"}
	var res []string
	var rec func(prefix string, d int)
	rec = func(prefix string, d int) {
		if d == 0 {
			return
		}
		for _, n := range names {
			p := prefix + "/" + n
			res = append(res, p)
			rec(p, d-1)
		}
	}
	res = append(res, "/")
	rec("", 3)
	return res
}

func main() {
	shardSize := flag.Int("shard", 250, "cases per shard (must equal checks/C39.json \"shard\")")
	out := hx.Flags("C39", 500)
	out.Rule = "global index g = (seed mod 1000)*shard + i: g=0,1 the ghost-move witnesses (3 operations; 4 operations continued after the ghost move); then bounded-exhaustive 'trie' cases = every operation prefix (alphabet: Set/Ensure/Delete on 5 paths /a,/b,/a/x,/a/x/y,/b/x and Move over all 25 pairs = 40 letters) of length <= 2 (quick) or <= 3 (thorough) each followed by all 40 letters as branches, i.e. every sequence of length <= 3 resp. <= 4; then 'trieR' = the same with a root node and 6 more letters (Set/Ensure/Delete on / and /c) to prefix length 1; then random cases: prefixes of length 3..6 with all 40 branches (root node in 1/3), and sequences of 5..30 operations (also on /, extra paths, Get; root node in 1/2) followed by a Get sweep of all 85 paths of depth <= 3 over {a,b,x,y}; every operation is followed by GetFsNode of 12 paths, a dump of the whole FsNode structure (hook VerifDump: placeholders, any depth, link consistency) and, for a Move, the moved node's name/parent fields; each case runs three times (opaque fs.Node values, real *filesys.Dir values, *File-with-entry/*Dir mix) and the runs must coincide, a deviating run is emitted as an extra case; ghost-move steps (finding 0) are counted by the harness from the dumps; non-trivial = some lookup returned a node; distinct = canonical prefix + branch count"
	k := int(out.Seed % 1000)
	offset := k * *shardSize
	maxPrefix := 2
	if out.Tier == "thorough" {
		maxPrefix = 3
	}
	E := 0
	{
		c := 1
		for l := 0; l <= maxPrefix; l++ {
			E += c
			c *= len(alphabet)
		}
	}
	root := hx.NewRng(out.Seed)
	sw := sweep()
	aR := alphabetR()
	ER := 1 + len(aR)
	for i := 0; i < out.N; i++ {
		r := root.Fork()
		g := offset + i
		switch {
		case g == 0:
			// known finding 0, shortest form: Set /a/x; Move /a/x /b leaves the placeholder /a; Move /a /b wipes /b
			emit(out, "witness", -1, []op{{kind: opSet, p: "/a/x"}, {kind: opMove, p: "/a/x", q: "/b"}},
				[]op{{kind: opMove, p: "/a", q: "/b"}}, nil)
		case g == 1:
			// the same through a delete: Set /a/x; Delete /a/x leaves the placeholder /a; Set /b; Move /a /b wipes /b;
			// the sequence goes on after the ghost move (checked against the restarted flat reference)
			emit(out, "witness", -1, []op{{kind: opSet, p: "/a/x"}, {kind: opDelete, p: "/a/x"}, {kind: opSet, p: "/b"},
				{kind: opMove, p: "/a", q: "/b"}, {kind: opSet, p: "/b/x"}, {kind: opMove, p: "/b", q: "/a/x/y"}, {kind: opDelete, p: "/a/x"}},
				alphabet, sw)
		case g <= E+1:
			emit(out, "trie", -1, triePrefix(alphabet, g-2), alphabet, nil)
		case g <= E+1+ER:
			emit(out, "trieR", 50, triePrefix(aR, g-E-2), aR, nil)
		case g%2 == 1:
			n := r.Range(3, 6)
			p := make([]op, n)
			for j := range p {
				p[j] = alphabet[r.Intn(len(alphabet))]
			}
			rootId := int64(-1)
			if r.Chance(1, 3) {
				rootId = 50
			}
			emit(out, "randtrie", rootId, p, alphabet, nil)
		default:
			n := r.Range(5, 30)
			p := make([]op, n)
			for j := range p {
				p[j] = randOp(r)
			}
			rootId := int64(-1)
			if r.Chance(1, 2) {
				rootId = 50
			}
			emit(out, "long", rootId, p, nil, sw)
		}
	}
	out.Write()
}
