// C39 harness: operation sequences on the real filesys.FsCache (via the
// verif-tagged constructor), every universe path looked up after every
// operation, node identities compared as small integer ids.
//
// Case layout (global index g = shardIndex*shardSize + i, so the exhaustive part
// is the same for every seed and is split over the shards):
//
//	g = 0                 witness of known finding 0 (ghost move)
//	1 <= g <= E           "trie" cases: the (g-1)-th operation prefix in
//	                      length-lexicographic order over the 40-letter alphabet,
//	                      followed by ALL 40 alphabet operations as branches
//	                      (quick: prefixes of length <= 2, i.e. every sequence of
//	                      length <= 3; thorough: length <= 3, every sequence <= 4)
//	g > E                 random: odd -> random prefix of length 3..6 with all 40
//	                      branches; even -> random sequence of 5..30 operations
//	                      (also on "/", on extra paths, and Get) followed by a
//	                      Get sweep over every path of depth <= 3.
package main

import (
	"context"
	"flag"
	"fmt"
	"strings"

	"github.com/chrislusf/seaweedfs/weed/filesys"
	"github.com/chrislusf/seaweedfs/weed/util"
	"github.com/seaweedfs/fuse"
	"github.com/seaweedfs/fuse/fs"
	"verifharness/hx"
)

// idNode is the harness's own fs.Node: Move's type switches ignore it.
type idNode struct{ id uint64 }

func (n *idNode) Attr(ctx context.Context, a *fuse.Attr) error { return nil }

type opKind int

const (
	opSet opKind = iota
	opEnsure
	opGet
	opDelete
	opMove
)

type op struct {
	kind     opKind
	p, q     string // q: Move target
	id       uint64 // Set / Ensure fresh id (assigned by position)
	position int
}

var u5 = []string{"/a", "/b", "/a/x", "/a/x/y", "/b/x"}

// paths looked up after every operation
var lookupU = []string{"/", "/a", "/b", "/a/x", "/a/x/y", "/b/x", "/a/y", "/b/y", "/b/x/y", "/a/x/x", "/a/x/x/y", "/b/x/x"}

var alphabet []op

func init() {
	for _, p := range u5 {
		alphabet = append(alphabet, op{kind: opSet, p: p})
	}
	for _, p := range u5 {
		alphabet = append(alphabet, op{kind: opEnsure, p: p})
	}
	for _, p := range u5 {
		alphabet = append(alphabet, op{kind: opDelete, p: p})
	}
	for _, p := range u5 {
		for _, q := range u5 {
			alphabet = append(alphabet, op{kind: opMove, p: p, q: q})
		}
	}
}

// path constants defined in coq/check/C39.v (parsing string literals is slow)
var pathConst = map[string]string{"/": "pR", "/a": "pA", "/b": "pB", "/c": "pC", "/a/x": "pAX", "/a/x/y": "pAXY",
	"/b/x": "pBX", "/a/y": "pAY", "/b/y": "pBY", "/b/x/y": "pBXY", "/a/x/x": "pAXX", "/a/x/x/y": "pAXXY", "/b/x/x": "pBXX"}

// vcode prints a lookup result / node id as a constructor of C39.v (o = nil, iK = id K).
func vcode(ok bool, id uint64) string {
	if !ok {
		return "o"
	}
	if (id < 1 || id > 31) && id != 50 {
		panic(fmt.Sprintf("node id %d has no code", id))
	}
	return fmt.Sprintf("i%d", id)
}

func coqPath(p string) string {
	if c, ok := pathConst[p]; ok {
		return c
	}
	parts := util.FullPath(p).Split()
	xs := make([]string, len(parts))
	for i, s := range parts {
		xs[i] = hx.Str(s)
	}
	return "[" + strings.Join(xs, "; ") + "]"
}

func (o op) coq() string {
	switch o.kind {
	case opSet:
		return fmt.Sprintf("(St %s %s)", coqPath(o.p), vcode(true, o.id))
	case opEnsure:
		return fmt.Sprintf("(En %s %s)", coqPath(o.p), vcode(true, o.id))
	case opGet:
		return fmt.Sprintf("(Get %s)", coqPath(o.p))
	case opDelete:
		return fmt.Sprintf("(Delete %s)", coqPath(o.p))
	default:
		return fmt.Sprintf("(Move %s %s)", coqPath(o.p), coqPath(o.q))
	}
}

func (o op) canon() string {
	switch o.kind {
	case opSet:
		return "S" + o.p
	case opEnsure:
		return "E" + o.p
	case opGet:
		return "G" + o.p
	case opDelete:
		return "D" + o.p
	default:
		return "M" + o.p + ">" + o.q
	}
}

// ---- driving the real cache ----

type world struct {
	c     *filesys.FsCache
	useFs bool // real *filesys.Dir nodes instead of idNode
	ids   map[fs.Node]uint64
}

func (w *world) mk(id uint64) fs.Node {
	var n fs.Node
	if w.useFs {
		n = filesys.VerifNewDir(id)
	} else {
		n = &idNode{id}
	}
	w.ids[n] = id
	return n
}

func newWorld(useFs bool, root int64) *world {
	w := &world{useFs: useFs, ids: map[fs.Node]uint64{}}
	if root >= 0 {
		w.c = filesys.VerifNewFsCache(w.mk(uint64(root)))
	} else {
		w.c = filesys.VerifNewFsCache(nil)
	}
	return w
}

func (w *world) optId(n fs.Node) string {
	if n == nil {
		return "o"
	}
	id, ok := w.ids[n]
	if !ok {
		panic("cache returned a node the harness never inserted")
	}
	return vcode(true, id)
}

// apply runs one operation and returns the Coq obs record.
func (w *world) apply(o op) (obs string, sawNode bool) {
	ret, flagv := "o", false
	switch o.kind {
	case opSet:
		w.c.SetFsNode(util.FullPath(o.p), w.mk(o.id))
	case opEnsure:
		n := w.c.EnsureFsNode(util.FullPath(o.p), func() fs.Node {
			flagv = true
			return w.mk(o.id)
		})
		ret = w.optId(n)
	case opGet:
		ret = w.optId(w.c.GetFsNode(util.FullPath(o.p)))
	case opDelete:
		w.c.DeleteFsNode(util.FullPath(o.p))
	case opMove:
		flagv = w.c.Move(util.FullPath(o.p), util.FullPath(o.q)) != nil
	}
	all := make([]string, len(lookupU))
	for i, p := range lookupU {
		all[i] = w.optId(w.c.GetFsNode(util.FullPath(p)))
		if all[i] != "o" {
			sawNode = true
		}
	}
	// R ret flag c1..c12 (coq/check/C39.v); the 12 positions are univ12 = lookupU
	return fmt.Sprintf("(R %s %s %s)", ret, hx.Bool(flagv), strings.Join(all, " ")), sawNode
}

func number(prefix []op, branches []op) ([]op, []op) {
	p := make([]op, len(prefix))
	for i, o := range prefix {
		o.id = uint64(i + 1)
		p[i] = o
	}
	b := make([]op, len(branches))
	for i, o := range branches {
		o.id = uint64(len(prefix) + 1)
		b[i] = o
	}
	return p, b
}

// runCase replays prefix (+ each branch on a fresh replay) in one node mode.
func runCase(useFs bool, root int64, prefix, branches []op, final []string) (pobs, bobs, fobs []string, nontrivial bool) {
	w := newWorld(useFs, root)
	for _, o := range prefix {
		s, saw := w.apply(o)
		pobs = append(pobs, s)
		nontrivial = nontrivial || saw
	}
	for _, p := range final {
		fobs = append(fobs, w.optId(w.c.GetFsNode(util.FullPath(p))))
	}
	for _, b := range branches {
		w2 := newWorld(useFs, root)
		for _, o := range prefix {
			w2.apply(o)
		}
		s, saw := w2.apply(b)
		bobs = append(bobs, s)
		nontrivial = nontrivial || saw
	}
	return
}

func emit(out *hx.Out, kind string, root int64, prefix, branches []op, final []string) {
	prefix, branches = number(prefix, branches)
	p1, b1, f1, nt := runCase(false, root, prefix, branches, final)
	p2, b2, f2, _ := runCase(true, root, prefix, branches, final)
	if strings.Join(p1, "|") != strings.Join(p2, "|") || strings.Join(b1, "|") != strings.Join(b2, "|") || strings.Join(f1, "|") != strings.Join(f2, "|") {
		// real *Dir nodes behave differently from opaque nodes: let Coq see the *Dir run
		p1, b1, f1 = p2, b2, f2
		out.Count("dirmode-differs", 1)
	}
	ops := make([]string, len(prefix))
	canon := make([]string, len(prefix))
	for i, o := range prefix {
		ops[i] = o.coq()
		canon[i] = o.canon()
		out.Count("op:"+[]string{"set", "ensure", "get", "delete", "move"}[o.kind], 1)
	}
	br := make([]string, len(branches))
	for i, o := range branches {
		br[i] = hx.Pair(o.coq(), b1[i])
	}
	rootS := "None"
	if root >= 0 {
		rootS = hx.OptN(true, uint64(root))
	}
	fin := "[]"
	if len(final) > 0 {
		fin = "(F " + hx.List(f1) + ")" // F pairs the values with sweep85 (same order as sweep())
	}
	term := fmt.Sprintf("{| root := %s; univ := univ12; ops := %s; impl := %s; branches := %s; final := %s |}",
		rootS, hx.List(ops), hx.List(p1), hx.List(br), fin)
	out.Count("sequences", maxInt(1, len(branches)))
	out.Count(fmt.Sprintf("prefixlen:%02d", len(prefix)), 1)
	out.Add(term, fmt.Sprintf("%s|r%d|%s|b%d", kind, root, strings.Join(canon, ";"), len(branches)), nt, kind)
}

func maxInt(a, b int) int {
	if a > b {
		return a
	}
	return b
}

// the idx-th prefix in length-lexicographic order
func triePrefix(idx int) []op {
	a := len(alphabet)
	l, count := 0, 1
	for idx >= count {
		idx -= count
		count *= a
		l++
	}
	p := make([]op, l)
	for i := l - 1; i >= 0; i-- {
		p[i] = alphabet[idx%a]
		idx /= a
	}
	return p
}

var extraPaths = []string{"/", "/a/y", "/b/y", "/b/x/y", "/a/x/x", "/c"}

func randPath(r *hx.Rng) string {
	if r.Chance(1, 6) {
		return r.PickStr(extraPaths)
	}
	return r.PickStr(u5)
}

func randMovePath(r *hx.Rng) string {
	for {
		p := randPath(r)
		if p != "/" {
			return p
		}
	}
}

func randOp(r *hx.Rng) op {
	switch k := r.Intn(10); {
	case k < 3:
		return op{kind: opSet, p: randPath(r)}
	case k < 4:
		return op{kind: opEnsure, p: randPath(r)}
	case k < 5:
		return op{kind: opGet, p: randPath(r)}
	case k < 7:
		return op{kind: opDelete, p: randPath(r)}
	default:
		return op{kind: opMove, p: randMovePath(r), q: randMovePath(r)}
	}
}

func sweep() []string {
	names := []string{"a", "b", "x", "y"}
	var res []string
	var rec func(prefix string, d int)
	rec = func(prefix string, d int) {
		if d == 0 {
			return
		}
		for _, n := range names {
			p := prefix + "/" + n
			res = append(res, p)
			rec(p, d-1)
		}
	}
	res = append(res, "/")
	rec("", 3)
	return res
}

func main() {
	shardSize := flag.Int("shard", 250, "cases per shard (must equal checks/C39.json \"shard\")")
	out := hx.Flags("C39", 500)
	out.Rule = "global index g = (seed mod 1000)*shard + i: g=0 the ghost-move witness; then bounded-exhaustive 'trie' cases = every operation prefix (alphabet: Set/Ensure/Delete on 5 paths /a,/b,/a/x,/a/x/y,/b/x and Move over all 25 pairs = 40 letters) of length <= 2 (quick) or <= 3 (thorough) each followed by all 40 letters as branches, i.e. every sequence of length <= 3 resp. <= 4; then random cases: prefixes of length 3..6 with all 40 branches, and sequences of 5..30 operations (also on /, extra paths, Get) followed by a Get sweep of all 85 paths of depth <= 3 over {a,b,x,y}; every operation is followed by GetFsNode of 12 paths; each case runs twice (opaque fs.Node values and real *filesys.Dir values); non-trivial = some lookup returned a node; distinct = canonical prefix + branch count"
	k := int(out.Seed % 1000)
	offset := k * *shardSize
	maxPrefix := 2
	if out.Tier == "thorough" {
		maxPrefix = 3
	}
	E := 0
	{
		c := 1
		for l := 0; l <= maxPrefix; l++ {
			E += c
			c *= len(alphabet)
		}
	}
	root := hx.NewRng(out.Seed)
	sw := sweep()
	for i := 0; i < out.N; i++ {
		r := root.Fork()
		g := offset + i
		switch {
		case g == 0:
			// known finding 0: Set /a/x; Delete /a/x leaves the placeholder /a; Set /b; Move /a /b wipes /b
			emit(out, "witness", -1, []op{{kind: opSet, p: "/a/x"}, {kind: opDelete, p: "/a/x"}, {kind: opSet, p: "/b"}},
				[]op{{kind: opMove, p: "/a", q: "/b"}}, nil)
		case g <= E:
			emit(out, "trie", -1, triePrefix(g-1), alphabet, nil)
		case g%2 == 1:
			n := r.Range(3, 6)
			p := make([]op, n)
			for j := range p {
				p[j] = alphabet[r.Intn(len(alphabet))]
			}
			emit(out, "randtrie", -1, p, alphabet, nil)
		default:
			n := r.Range(5, 30)
			p := make([]op, n)
			for j := range p {
				p[j] = randOp(r)
			}
			rootId := int64(-1)
			if r.Chance(1, 2) {
				rootId = 50
			}
			emit(out, "long", rootId, p, nil, sw)
		}
	}
	out.Write()
}
