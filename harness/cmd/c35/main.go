// C35 harness: histories of location updates and lookups on a real
// wdclient.MasterClient (embedded vidMap).
//
//	direct mode  updates are single addLocation / deleteLocation calls (verif hook)
//	stream mode  updates are VolumeLocation messages sent over a real in-process
//	             gRPC KeepConnected stream and processed by the real
//	             tryAllMasters/tryConnectToMaster loop, with leader hints and
//	             disconnects; a sentinel message on volume 9 is used to wait until
//	             the client has processed everything sent before it
//
// Readers call LookupVolumeServerUrl / LookupFileId / GetVidLocations, and take
// slices with GetLocations that they HOLD across later updates and read again.
package main

import (
	"errors"
	"fmt"
	"net"
	"strconv"
	"strings"
	"time"

	"github.com/chrislusf/seaweedfs/weed/pb/master_pb"
	"github.com/chrislusf/seaweedfs/weed/wdclient"
	"google.golang.org/grpc"
	"verifharness/hx"
)

// ---------- universe ----------

var urls = []string{"u1:8080", "u2:8080", "u3:8080", "u4:8080"}
var dcs = []string{"", "dc1", "dc2"}

func mkLoc(u, d int) wdclient.Location {
	return wdclient.Location{Url: urls[u], PublicUrl: "pub-" + urls[u] + "-" + dcs[d], DataCenter: dcs[d]}
}

func coqD(d string) string {
	for i, x := range dcs {
		if x == d {
			return fmt.Sprintf("Dc%d", i)
		}
	}
	panic("unknown data center " + d)
}

// coqLoc prints a location as K Ux Dcy when it is one of the universe, else in full.
func coqLoc(l wdclient.Location) string {
	for u := range urls {
		for d := range dcs {
			if mkLoc(u, d) == l {
				return fmt.Sprintf("L%d%d", u+1, d) // = K U(u+1) Dc(d) in coq/check/C35.v
			}
		}
	}
	return fmt.Sprintf("{| url := %s; public_url := %s; dc := %s |}", hx.Str(l.Url), hx.Str(l.PublicUrl), hx.Str(l.DataCenter))
}

func coqLocs(ls []wdclient.Location) string {
	xs := make([]string, len(ls))
	for i, l := range ls {
		xs[i] = coqLoc(l)
	}
	return hx.List(xs)
}

// coqVid prints a volume id; 1,2,3,9 have one-token names in coq/check/C35.v.
func coqVid(v uint32) string {
	switch v {
	case 1, 2, 3, 9:
		return fmt.Sprintf("v%d", v)
	}
	return hx.N(uint64(v))
}

func coqCap(c int) string {
	switch c {
	case 1, 2, 4, 8:
		return fmt.Sprintf("c%d", c)
	}
	return hx.Nat(c)
}

func coqVids(vs []uint32) string {
	xs := make([]string, len(vs))
	for i, v := range vs {
		xs[i] = coqVid(v)
	}
	return hx.List(xs)
}

// ---------- in-process master ----------

type scriptItem struct {
	msg   *master_pb.VolumeLocation // nil: end the stream (disconnect)
	leads bool                      // msg carries a leader hint: stop serving this stream afterwards
}

type master struct {
	master_pb.UnimplementedSeaweedServer
	script chan scriptItem
	addr   string // host:port such that port+10000 is the gRPC port
}

func (s *master) KeepConnected(stream master_pb.Seaweed_KeepConnectedServer) error {
	if _, err := stream.Recv(); err != nil {
		return err
	}
	for {
		select {
		case it := <-s.script:
			if it.msg == nil {
				return nil
			}
			if err := stream.Send(it.msg); err != nil {
				return err
			}
			if it.leads {
				// the client hangs up and dials the hinted leader (this server again)
				<-stream.Context().Done()
				return nil
			}
		case <-stream.Context().Done():
			return nil
		}
	}
}

var theMaster *master

func startMaster() *master {
	if theMaster != nil {
		return theMaster
	}
	lis, err := net.Listen("tcp", "127.0.0.1:0")
	hx.Must(err)
	port := lis.Addr().(*net.TCPAddr).Port
	if port <= 10000 {
		panic("ephemeral port too small for the +10000 gRPC convention")
	}
	m := &master{script: make(chan scriptItem), addr: fmt.Sprintf("127.0.0.1:%d", port-10000)}
	g := grpc.NewServer()
	master_pb.RegisterSeaweedServer(g, m)
	go g.Serve(lis)
	theMaster = m
	return m
}

// ---------- one case ----------

type runner struct {
	mc     *wdclient.MasterClient
	stream bool
	ms     *master
	done   chan bool
	live   bool // a tryAllMasters round is running
	sync   int  // number of sentinel messages sent

	ops, obs, canon []string
	snaps           [][]wdclient.Location
	lastSt          [3]string
	nontrivial      bool
	out             *hx.Out
}

func newRunner(out *hx.Out, dc string, stream bool) *runner {
	r := &runner{stream: stream, out: out, done: make(chan bool, 1), lastSt: [3]string{"NF", "NF", "NF"}}
	var masters []string
	if stream {
		r.ms = startMaster()
		masters = []string{r.ms.addr}
	}
	r.mc = wdclient.NewMasterClient(grpc.WithInsecure(), "verif", "localhost", 0, dc, masters)
	return r
}

func (r *runner) connect() {
	if r.live {
		return
	}
	r.live = true
	go func() { r.mc.VerifTryAllMasters(); r.done <- true }()
}

func (r *runner) vst(v uint32) string {
	ls, found := r.mc.GetLocations(v)
	if !found {
		return "NF"
	}
	if len(ls) > 0 {
		r.nontrivial = true
	}
	return fmt.Sprintf("(Fd %s %s)", coqLocs(ls), coqCap(cap(ls)))
}

// state prints the OSt observation; a volume whose observation is textually the
// same as in the previous OSt is abbreviated to Same.
func (r *runner) state() string {
	var xs [3]string
	for i := range xs {
		s := r.vst(uint32(i + 1))
		if r.lastSt[i] == s {
			xs[i] = "Same"
		} else {
			xs[i] = s
		}
		r.lastSt[i] = s
	}
	return fmt.Sprintf("(OSt %s %s %s %s)", xs[0], xs[1], xs[2], coqD(r.mc.VerifDataCenter()))
}

func (r *runner) push(op, obs, canon string) {
	r.ops = append(r.ops, op)
	r.obs = append(r.obs, obs)
	r.canon = append(r.canon, canon)
}

// direct update
func (r *runner) ev(add bool, v uint32, l wdclient.Location) {
	if add {
		r.mc.VerifAddLocation(v, l)
		r.push(fmt.Sprintf("(A %s %s)", coqVid(v), coqLoc(l)), r.state(), fmt.Sprintf("A%d%s/%s", v, l.Url, l.DataCenter))
		r.out.Count("op:add", 1)
	} else {
		r.mc.VerifDeleteLocation(v, l)
		r.push(fmt.Sprintf("(Dl %s %s)", coqVid(v), coqLoc(l)), r.state(), fmt.Sprintf("D%d%s", v, l.Url))
		r.out.Count("op:delete", 1)
	}
}

const sentinelVid = 9

// msg sends one message over the stream and then a sentinel message, and waits
// until the client has processed the sentinel.
func (r *runner) msg(leader bool, l wdclient.Location, nw, dl []uint32) {
	r.connect()
	m := &master_pb.VolumeLocation{Url: l.Url, PublicUrl: l.PublicUrl, DataCenter: l.DataCenter, NewVids: nw, DeletedVids: dl}
	if leader {
		m.Leader = r.ms.addr
	}
	r.ms.script <- scriptItem{msg: m, leads: leader}
	r.push(fmt.Sprintf("(CMsg (G %s %s %s %s))", hx.Bool(leader), coqLoc(l), coqVids(nw), coqVids(dl)), "ONone",
		fmt.Sprintf("M%v%s/%s+%v-%v", leader, l.Url, l.DataCenter, nw, dl))
	r.out.Count("op:msg", 1)
	if leader {
		r.out.Count("op:msg-leader-hint", 1)
	}
	r.sentinel()
}

func (r *runner) sentinelLen() int {
	ls, _ := r.mc.GetLocations(sentinelVid)
	return len(ls)
}

func (r *runner) sentinel() {
	l := mkLoc(3, 0)
	want := 0
	var nw, dl []uint32
	if r.sentinelLen() == 0 {
		nw, want = []uint32{sentinelVid}, 1
	} else {
		dl = []uint32{sentinelVid}
	}
	m := &master_pb.VolumeLocation{Url: l.Url, PublicUrl: l.PublicUrl, DataCenter: l.DataCenter, NewVids: nw, DeletedVids: dl}
	r.ms.script <- scriptItem{msg: m}
	deadline := time.Now().Add(20 * time.Second)
	for r.sentinelLen() != want {
		if time.Now().After(deadline) {
			panic("the client did not process the sentinel message")
		}
		time.Sleep(50 * time.Microsecond)
	}
	r.push(fmt.Sprintf("(CMsg (G false %s %s %s))", coqLoc(l), coqVids(nw), coqVids(dl)), r.state(), "sync")
}

func (r *runner) disconnect() {
	r.connect()
	r.ms.script <- scriptItem{}
	select {
	case <-r.done:
	case <-time.After(20 * time.Second):
		panic("tryAllMasters did not return after the stream ended")
	}
	r.live = false
	r.push("CDisc", r.state(), "X")
	r.out.Count("op:disconnect", 1)
}

func (r *runner) finish() {
	if r.live {
		r.ms.script <- scriptItem{}
		<-r.done
		r.live = false
	}
}

func errClass(err error) string {
	var ne *strconv.NumError
	switch {
	case errors.As(err, &ne), strings.HasPrefix(err.Error(), "Unknown volume id"):
		return "(Err ErrParse)"
	case strings.HasPrefix(err.Error(), "Invalid fileId"):
		return "(Err ErrInvalidFileId)"
	case strings.Contains(err.Error(), "not found"):
		return "(Err ErrNotFound)"
	}
	panic("unclassified error: " + err.Error())
}

func coqStrs(xs []string) string {
	ys := make([]string, len(xs))
	for i, x := range xs {
		ys[i] = hx.Str(x)
	}
	return hx.List(ys)
}

func (r *runner) lookupUrl(s string) {
	us, err := r.mc.LookupVolumeServerUrl(s)
	o := ""
	if err != nil {
		o = "(OUrls " + errClass(err) + ")"
		r.out.Count("lookup:error", 1)
	} else {
		o = "(OUrls (Ok " + coqStrs(us) + "))"
		r.out.Count(fmt.Sprintf("lookup:urls=%d", len(us)), 1)
	}
	r.push("(CLookupUrl "+hx.Str(s)+")", o, "L"+s)
}

func (r *runner) lookupFid(s string) {
	us, err := r.mc.LookupFileId(s)
	o := ""
	if err != nil {
		o = "(OUrls " + errClass(err) + ")"
		r.out.Count("lookupfid:error", 1)
	} else {
		o = "(OUrls (Ok " + coqStrs(us) + "))"
		r.out.Count("lookupfid:ok", 1)
	}
	r.push("(CLookupFid "+hx.Str(s)+")", o, "F"+s)
}

func (r *runner) getVidLocs(s string) {
	ls, err := r.mc.GetVidLocations(s)
	o := ""
	if err != nil {
		o = "(OLocs " + errClass(err) + ")"
	} else {
		o = "(OLocs (Ok " + coqLocs(ls) + "))"
	}
	r.out.Count("op:getvidlocs", 1)
	r.push("(CGetVidLocs "+hx.Str(s)+")", o, "V"+s)
}

func (r *runner) snap(v uint32) {
	ls, found := r.mc.GetLocations(v)
	if found {
		r.snaps = append(r.snaps, ls) // the slice itself, NOT a copy
	}
	r.out.Count("op:snapshot", 1)
	r.push("(CSnap "+coqVid(v)+")", "(OSnap "+r.vst(v)+")", fmt.Sprintf("S%d", v))
}

func (r *runner) reread(k int) {
	r.out.Count("op:reread", 1)
	r.push("(CReread "+hx.Nat(k)+")", "(ORead "+coqLocs(r.snaps[k])+")", fmt.Sprintf("R%d", k))
}

func (r *runner) emit(dc, kind string) {
	r.finish()
	term := fmt.Sprintf("{| client_dc := %s; ops := %s; impl := %s |}", coqD(dc), hx.List(r.ops), hx.List(r.obs))
	r.out.Add(term, kind+"|"+dc+"|"+strings.Join(r.canon, ";"), r.nontrivial, kind)
}

// ---------- generators ----------

var vidStrings = []string{"1", "2", "3"}
var oddVidStrings = []string{"", "x", "+2", "-1", " 1", "1 ", "01", "7", "4294967297", "4294967298", "4294967299",
	"99999999999999999999", "9223372036854775808", "-9223372036854775808", "1_0", "0x1", "-", "+"}
var oddFids = []string{"3", "3,ab,cd", ",x", "x,y", "4294967299,aa", "2,", ""}

func genVidString(r *hx.Rng) string {
	if r.Chance(1, 6) {
		return r.PickStr(oddVidStrings)
	}
	return r.PickStr(vidStrings)
}

func genLoc(r *hx.Rng) wdclient.Location {
	d := 1 + r.Intn(2)
	if r.Chance(1, 12) {
		d = 0
	}
	return mkLoc(r.Intn(4), d)
}

func genVids(r *hx.Rng, max int) []uint32 {
	n := r.Intn(max + 1)
	vs := make([]uint32, n)
	for i := range vs {
		vs[i] = uint32(1 + r.Intn(3))
	}
	return vs
}

func reader(rn *runner, r *hx.Rng) {
	switch k := r.Intn(10); {
	case k < 3:
		rn.lookupUrl(genVidString(r))
	case k < 4:
		if r.Chance(1, 4) {
			rn.lookupFid(r.PickStr(oddFids))
		} else {
			rn.lookupFid(r.PickStr(vidStrings) + ",01637037d6")
		}
	case k < 5:
		rn.getVidLocs(genVidString(r))
	case k < 7 || len(rn.snaps) == 0:
		rn.snap(uint32(1 + r.Intn(3)))
	default:
		rn.reread(r.Intn(len(rn.snaps)))
	}
}

func main() {
	out := hx.Flags("C35", 400)
	out.Rule = "cases 0-2: regression cases = the former witnesses of the three repaired defects (slice held across a delete, data center after a reconnect, volume-id string outside uint32); then random histories of 5..30 operations over volumes {1,2,3} x urls {u1..u4} x data centers {dc1,dc2,(empty)}: direct mode = addLocation/deleteLocation calls (45% adds, 25% deletes biased to present urls) mixed with readers (LookupVolumeServerUrl/LookupFileId/GetVidLocations with 1 in 6 malformed or out-of-range id strings, GetLocations slices that are kept, re-reads of kept slices); every 8th case stream mode = VolumeLocation messages (0-3 new and 0-2 deleted vids, 1 in 10 with a leader hint) over a real gRPC KeepConnected stream, 1 in 8 steps a disconnect; after every update GetLocations of volumes 1,2,3 (content and capacity) and DataCenter are recorded; non-trivial = some volume had a location; distinct = canonical op list"
	root := hx.NewRng(out.Seed)
	A, B, C := mkLoc(0, 1), mkLoc(1, 2), mkLoc(2, 1)
	for i := 0; i < out.N; i++ {
		r := root.Fork()
		switch {
		case i == 0:
			// repaired (fix-c35-delete-copies): the held slice used to show u3 twice and lose u1
			rn := newRunner(out, "dc1", false)
			rn.ev(true, 1, A)
			rn.ev(true, 1, B)
			rn.ev(true, 1, C)
			rn.snap(1)
			rn.ev(false, 1, A)
			rn.reread(0)
			rn.emit("dc1", "witness-alias")
		case i == 1:
			// repaired (fix-c35-reconnect-dc): after a lost connection the client's data center used to be forgotten
			rn := newRunner(out, "dc1", true)
			rn.msg(false, B, []uint32{1}, nil)
			rn.lookupUrl("1")
			rn.disconnect()
			rn.msg(false, B, []uint32{1}, nil)
			rn.msg(false, A, []uint32{1}, nil)
			rn.lookupUrl("1")
			rn.emit("dc1", "witness-reconnect")
		case i == 2:
			// repaired (fix-c35-vid-parse): "4294967297" used to be answered with volume 1
			rn := newRunner(out, "dc1", false)
			rn.ev(true, 1, A)
			rn.lookupUrl("4294967297")
			rn.lookupUrl("1")
			rn.emit("dc1", "witness-wrap")
		case i%8 == 7:
			dc := []string{"dc1", "dc1", "dc2", ""}[r.Intn(4)]
			rn := newRunner(out, dc, true)
			n := r.Range(3, 10)
			for j := 0; j < n; j++ {
				switch k := r.Intn(16); {
				case k < 2:
					rn.disconnect()
				case k < 10:
					rn.msg(r.Chance(1, 10), genLoc(r), genVids(r, 3), genVids(r, 2))
				default:
					reader(rn, r)
				}
			}
			rn.lookupUrl(r.PickStr(vidStrings))
			rn.emit(dc, "stream")
		default:
			dc := []string{"dc1", "dc1", "dc2", ""}[r.Intn(4)]
			rn := newRunner(out, dc, false)
			n := r.Range(5, 30)
			type pres struct {
				v uint32
				u int
			}
			var present []pres
			for j := 0; j < n; j++ {
				switch k := r.Intn(20); {
				case k < 9:
					l := genLoc(r)
					v := uint32(1 + r.Intn(3))
					rn.ev(true, v, l)
					for u := range urls {
						if urls[u] == l.Url {
							present = append(present, pres{v, u})
						}
					}
				case k < 14:
					if len(present) > 0 && r.Chance(4, 5) {
						p := present[r.Intn(len(present))]
						rn.ev(false, p.v, mkLoc(p.u, r.Intn(3)))
					} else {
						rn.ev(false, uint32(1+r.Intn(3)), genLoc(r))
					}
				default:
					reader(rn, r)
				}
			}
			rn.emit(dc, "direct")
		}
	}
	out.Write()
}
