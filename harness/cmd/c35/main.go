// C35 harness: histories of location updates and lookups on a real
// wdclient.MasterClient (embedded vidMap).
//
//	direct mode  updates are single addLocation / deleteLocation calls (verif hook);
//	             a reset is one real tryAllMasters round over masters that cannot be
//	             reached (connection refused / unparsable address)
//	stream mode  updates are VolumeLocation messages sent over a real in-process
//	             gRPC KeepConnected stream and processed by the real
//	             tryAllMasters/tryConnectToMaster loop, with leader hints,
//	             disconnects and unreachable masters before/after the real one; a
//	             sentinel message on volume 9 is used to wait until the client has
//	             processed everything sent before it
//
// Readers call LookupVolumeServerUrl / LookupFileId / GetVidLocations, and take
// slices with GetLocations that they HOLD across later updates and read again.
//
// Concurrent cases (both modes) additionally run reader GOROUTINES while the
// updates are applied.  The writer counts update events: `started` is raised
// before an update is handed to the client, `done` after it is known to be
// applied.  A reader loads lo := done before its call and hi := started after it;
// the call took the read lock after j updates for some lo <= j <= hi, and the Coq
// side (window_ok) demands that its answer is the answer of one such j.
package main

import (
	"errors"
	"fmt"
	"net"
	"strconv"
	"strings"
	"sync"
	"sync/atomic"
	"time"

	"github.com/chrislusf/seaweedfs/weed/pb/master_pb"
	"github.com/chrislusf/seaweedfs/weed/wdclient"
	"google.golang.org/grpc"
	"verifharness/hx"
)

// ---------- universe ----------

var urls = []string{"u1:8080", "u2:8080", "u3:8080", "u4:8080", "u5:8080", "u6:8080"}
var dcs = []string{"", "dc1", "dc2"}

// masters that cannot be reached: connection refused (gRPC port 10001 / 10002 are
// outside the ephemeral range the in-process master listens in) and an address
// pb.ParseServerToGrpcAddress rejects
var badMasters = []string{"127.0.0.1:1", "nomaster", "127.0.0.1:2"}

func mkLoc(u, d int) wdclient.Location {
	return wdclient.Location{Url: urls[u], PublicUrl: "pub-" + urls[u] + "-" + dcs[d], DataCenter: dcs[d]}
}

func coqD(d string) string {
	for i, x := range dcs {
		if x == d {
			return fmt.Sprintf("Dc%d", i)
		}
	}
	panic("unknown data center " + d)
}

// coqLoc prints a location as LuD (= K Uu DcD in coq/check/C35.v) when it is one
// of the universe, else in full (a torn or foreign record).
func coqLoc(l wdclient.Location) string {
	for u := range urls {
		for d := range dcs {
			if mkLoc(u, d) == l {
				return fmt.Sprintf("L%d%d", u+1, d)
			}
		}
	}
	return fmt.Sprintf("{| url := %s; public_url := %s; dc := %s |}", hx.Str(l.Url), hx.Str(l.PublicUrl), hx.Str(l.DataCenter))
}

func coqLocs(ls []wdclient.Location) string {
	xs := make([]string, len(ls))
	for i, l := range ls {
		xs[i] = coqLoc(l)
	}
	return hx.List(xs)
}

// coqVid prints a volume id; 1,2,3,9 have one-token names in coq/check/C35.v.
func coqVid(v uint32) string {
	switch v {
	case 1, 2, 3, 9:
		return fmt.Sprintf("v%d", v)
	}
	return hx.N(uint64(v))
}

func coqCap(c int) string {
	switch c {
	case 1, 2, 4, 8:
		return fmt.Sprintf("c%d", c)
	}
	return hx.Nat(c)
}

func coqVids(vs []uint32) string {
	xs := make([]string, len(vs))
	for i, v := range vs {
		xs[i] = coqVid(v)
	}
	return hx.List(xs)
}

// ---------- in-process master ----------

type scriptItem struct {
	msg   *master_pb.VolumeLocation // nil: end the stream (disconnect)
	leads bool                      // msg carries a leader hint: stop serving this stream afterwards
}

type master struct {
	master_pb.UnimplementedSeaweedServer
	script chan scriptItem
	addr   string // host:port such that port+10000 is the gRPC port
}

func (s *master) KeepConnected(stream master_pb.Seaweed_KeepConnectedServer) error {
	if _, err := stream.Recv(); err != nil {
		return err
	}
	for {
		select {
		case it := <-s.script:
			if it.msg == nil {
				return nil
			}
			if err := stream.Send(it.msg); err != nil {
				return err
			}
			if it.leads {
				// the client hangs up and dials the hinted leader (this server again)
				<-stream.Context().Done()
				return nil
			}
		case <-stream.Context().Done():
			return nil
		}
	}
}

var theMaster *master

func startMaster() *master {
	if theMaster != nil {
		return theMaster
	}
	lis, err := net.Listen("tcp", "127.0.0.1:0")
	hx.Must(err)
	port := lis.Addr().(*net.TCPAddr).Port
	if port <= 10000 {
		panic("ephemeral port too small for the +10000 gRPC convention")
	}
	m := &master{script: make(chan scriptItem), addr: fmt.Sprintf("127.0.0.1:%d", port-10000)}
	g := grpc.NewServer()
	master_pb.RegisterSeaweedServer(g, m)
	go g.Serve(lis)
	theMaster = m
	return m
}

// ---------- one case ----------

type snapRec struct {
	v    uint32
	ls   []wdclient.Location // the slice itself, NOT a copy
	text string              // what it showed when it was taken
}

type runner struct {
	mc     *wdclient.MasterClient
	stream bool
	ms     *master
	nb, na int // unreachable masters before / after the real one (stream), or nb unreachable masters (direct)
	done   chan bool
	live   bool // a tryAllMasters round is running
	sync   int  // number of sentinel messages sent

	ops, obs, canon []string
	snaps           []snapRec
	lastSt          [3]string
	nontrivial      bool
	out             *hx.Out

	// update-event counters read by the concurrent readers
	evStarted, evDone int64
	stop              int32
	wg                sync.WaitGroup
	mu                sync.Mutex
	conc              []string
	reads, overlap    int64
}

// newRunner: bad = indices into badMasters placed before the real master (stream
// mode; `after` more behind it) or forming the whole master list (direct mode).
func newRunner(out *hx.Out, dc string, stream bool, before, after int) *runner {
	r := &runner{stream: stream, out: out, done: make(chan bool, 1), lastSt: [3]string{"NF", "NF", "NF"}, nb: before, na: after}
	var masters []string
	for i := 0; i < before; i++ {
		masters = append(masters, badMasters[i%len(badMasters)])
	}
	if stream {
		r.ms = startMaster()
		masters = append(masters, r.ms.addr)
		for i := 0; i < after; i++ {
			masters = append(masters, badMasters[(before+i)%len(badMasters)])
		}
	}
	out.Count(fmt.Sprintf("masters=%d", len(masters)), 1)
	r.mc = wdclient.NewMasterClient(grpc.WithInsecure(), "verif", "localhost", 0, dc, masters)
	return r
}

// begin: n update events are about to be handed to the client
func (r *runner) begin(n int) { atomic.AddInt64(&r.evStarted, int64(n)) }

// end: everything begun so far is known to be applied
func (r *runner) end() { atomic.StoreInt64(&r.evDone, atomic.LoadInt64(&r.evStarted)) }

func (r *runner) connect() {
	if r.live {
		return
	}
	r.live = true
	// every unreachable master in front of the real one costs one reset
	r.begin(r.nb)
	for i := 0; i < r.nb; i++ {
		r.push("CDisc", "ONone", "x")
		r.out.Count("op:reset-unreachable-master", 1)
	}
	go func() { r.mc.VerifTryAllMasters(); r.done <- true }()
}

func vstOf(ls []wdclient.Location, found bool) string {
	if !found {
		return "NF"
	}
	return fmt.Sprintf("(Fd %s %s)", coqLocs(ls), coqCap(cap(ls)))
}

func (r *runner) vst(v uint32) string {
	ls, found := r.mc.GetLocations(v)
	if found && len(ls) > 0 {
		r.nontrivial = true
	}
	return vstOf(ls, found)
}

// state prints the OSt observation; a volume whose observation is textually the
// same as in the previous OSt is abbreviated to Same.
func (r *runner) state() string {
	var xs [3]string
	for i := range xs {
		s := r.vst(uint32(i + 1))
		if r.lastSt[i] == s {
			xs[i] = "Same"
		} else {
			xs[i] = s
		}
		r.lastSt[i] = s
	}
	return fmt.Sprintf("(OSt %s %s %s %s)", xs[0], xs[1], xs[2], coqD(r.mc.VerifDataCenter()))
}

func (r *runner) push(op, obs, canon string) {
	r.ops = append(r.ops, op)
	r.obs = append(r.obs, obs)
	r.canon = append(r.canon, canon)
}

// direct update
func (r *runner) ev(add bool, v uint32, l wdclient.Location) {
	r.begin(1)
	if add {
		r.mc.VerifAddLocation(v, l)
		r.end()
		r.push(fmt.Sprintf("(A %s %s)", coqVid(v), coqLoc(l)), r.state(), fmt.Sprintf("A%d%s/%s", v, l.Url, l.DataCenter))
		r.out.Count("op:add", 1)
	} else {
		r.mc.VerifDeleteLocation(v, l)
		r.end()
		r.push(fmt.Sprintf("(Dl %s %s)", coqVid(v), coqLoc(l)), r.state(), fmt.Sprintf("D%d%s", v, l.Url))
		r.out.Count("op:delete", 1)
	}
}

// direct reset: one real tryAllMasters round over nb unreachable masters, i.e. nb resets
func (r *runner) reset() {
	if r.stream || r.nb == 0 {
		panic("reset() needs a direct runner with unreachable masters")
	}
	r.begin(r.nb)
	r.mc.VerifTryAllMasters()
	r.end()
	for i := 1; i < r.nb; i++ {
		r.push("CDisc", "ONone", "x")
	}
	r.push("CDisc", r.state(), "X")
	r.out.Count("op:reset-direct", 1)
}

const sentinelVid = 9

func evCount(leader bool, nw, dl []uint32) int {
	if leader {
		return 0
	}
	return len(nw) + len(dl)
}

// send hands one message to the stream without waiting for it to be processed
func (r *runner) send(leader bool, l wdclient.Location, nw, dl []uint32) {
	r.connect()
	m := &master_pb.VolumeLocation{Url: l.Url, PublicUrl: l.PublicUrl, DataCenter: l.DataCenter, NewVids: nw, DeletedVids: dl}
	if leader {
		m.Leader = r.ms.addr
	}
	r.begin(evCount(leader, nw, dl))
	r.ms.script <- scriptItem{msg: m, leads: leader}
	r.push(fmt.Sprintf("(CMsg (G %s %s %s %s))", hx.Bool(leader), coqLoc(l), coqVids(nw), coqVids(dl)), "ONone",
		fmt.Sprintf("M%v%s/%s+%v-%v", leader, l.Url, l.DataCenter, nw, dl))
	r.out.Count("op:msg", 1)
	if leader {
		r.out.Count("op:msg-leader-hint", 1)
	}
}

// msg sends one message over the stream and then a sentinel message, and waits
// until the client has processed the sentinel.
func (r *runner) msg(leader bool, l wdclient.Location, nw, dl []uint32) {
	r.send(leader, l, nw, dl)
	r.sentinel()
}

func (r *runner) sentinelLen() int {
	ls, _ := r.mc.GetLocations(sentinelVid)
	return len(ls)
}

func (r *runner) sentinel() {
	l := mkLoc(3, 0)
	want := 0
	var nw, dl []uint32
	if r.sentinelLen() == 0 {
		nw, want = []uint32{sentinelVid}, 1
	} else {
		dl = []uint32{sentinelVid}
	}
	m := &master_pb.VolumeLocation{Url: l.Url, PublicUrl: l.PublicUrl, DataCenter: l.DataCenter, NewVids: nw, DeletedVids: dl}
	r.begin(1)
	r.ms.script <- scriptItem{msg: m}
	deadline := time.Now().Add(20 * time.Second)
	for r.sentinelLen() != want {
		if time.Now().After(deadline) {
			panic("the client did not process the sentinel message")
		}
		time.Sleep(50 * time.Microsecond)
	}
	r.end()
	r.push(fmt.Sprintf("(CMsg (G false %s %s %s))", coqLoc(l), coqVids(nw), coqVids(dl)), r.state(), "sync")
}

// disconnect ends the stream: one reset, plus one for every unreachable master
// behind the real one
func (r *runner) disconnect() {
	r.connect()
	r.begin(1 + r.na)
	r.ms.script <- scriptItem{}
	select {
	case <-r.done:
	case <-time.After(20 * time.Second):
		panic("tryAllMasters did not return after the stream ended")
	}
	r.end()
	r.live = false
	for i := 0; i < r.na; i++ {
		r.push("CDisc", "ONone", "x")
		r.out.Count("op:reset-unreachable-master", 1)
	}
	r.push("CDisc", r.state(), "X")
	r.out.Count("op:disconnect", 1)
}

// leaderThenDisconnect: a leader hint followed DIRECTLY by the end of the stream to
// the hinted leader (no message in between)
func (r *runner) leaderThenDisconnect(l wdclient.Location, nw, dl []uint32) {
	r.send(true, l, nw, dl)
	r.out.Count("op:leader-hint-then-disconnect", 1)
	r.disconnect()
}

func (r *runner) finish() {
	r.stopReaders()
	if r.live {
		r.ms.script <- scriptItem{}
		<-r.done
		r.live = false
	}
}

func errClass(err error) string {
	var ne *strconv.NumError
	switch {
	case errors.As(err, &ne), strings.HasPrefix(err.Error(), "Unknown volume id"):
		return "(Err ErrParse)"
	case strings.HasPrefix(err.Error(), "Invalid fileId"):
		return "(Err ErrInvalidFileId)"
	case strings.Contains(err.Error(), "not found"):
		return "(Err ErrNotFound)"
	}
	panic("unclassified error: " + err.Error())
}

func coqStrs(xs []string) string {
	ys := make([]string, len(xs))
	for i, x := range xs {
		ys[i] = hx.Str(x)
	}
	return hx.List(ys)
}

func urlsRes(us []string, err error) string {
	if err != nil {
		return errClass(err)
	}
	return "(Ok " + coqStrs(us) + ")"
}

func locsRes(ls []wdclient.Location, err error) string {
	if err != nil {
		return errClass(err)
	}
	return "(Ok " + coqLocs(ls) + ")"
}

func (r *runner) lookupUrl(s string) {
	us, err := r.mc.LookupVolumeServerUrl(s)
	if err != nil {
		r.out.Count("lookup:error", 1)
	} else {
		r.out.Count(fmt.Sprintf("lookup:urls=%d", len(us)), 1)
	}
	r.push("(CLookupUrl "+hx.Str(s)+")", "(OUrls "+urlsRes(us, err)+")", "L"+s)
}

func (r *runner) lookupFid(s string) {
	us, err := r.mc.LookupFileId(s)
	if err != nil {
		r.out.Count("lookupfid:error", 1)
	} else {
		r.out.Count("lookupfid:ok", 1)
	}
	r.push("(CLookupFid "+hx.Str(s)+")", "(OUrls "+urlsRes(us, err)+")", "F"+s)
}

func (r *runner) getVidLocs(s string) {
	ls, err := r.mc.GetVidLocations(s)
	r.out.Count("op:getvidlocs", 1)
	r.push("(CGetVidLocs "+hx.Str(s)+")", "(OLocs "+locsRes(ls, err)+")", "V"+s)
}

func (r *runner) snap(v uint32) {
	ls, found := r.mc.GetLocations(v)
	if found {
		r.snaps = append(r.snaps, snapRec{v, ls, coqLocs(ls)})
		if len(ls) > 0 {
			r.nontrivial = true
		}
	}
	r.out.Count("op:snapshot", 1)
	r.out.Count(fmt.Sprintf("snapshot:len=%d,cap=%d", len(ls), cap(ls)), 1)
	r.push("(CSnap "+coqVid(v)+")", "(OSnap "+vstOf(ls, found)+")", fmt.Sprintf("S%d", v))
}

func (r *runner) reread(k int) {
	r.out.Count("op:reread", 1)
	now := coqLocs(r.snaps[k].ls)
	// is the held slice stale, i.e. different from what the cache shows now?
	cur, found := r.mc.GetLocations(r.snaps[k].v)
	if !found || coqLocs(cur) != now {
		r.out.Count("reread:stale", 1)
	}
	r.push("(CReread "+hx.Nat(k)+")", "(ORead "+now+")", fmt.Sprintf("R%d", k))
}

// ---------- concurrent readers ----------

const maxPerWindow = 1 // recorded answers per reader and value of lo (3x as many when the call overlapped an update)
const maxHeld = 6      // recorded held-slice checks per reader

func (r *runner) record(lo, hi int64, q string) {
	r.mu.Lock()
	r.conc = append(r.conc, fmt.Sprintf("(RO %d %d %s)", lo, hi, q))
	r.mu.Unlock()
	if hi > lo {
		atomic.AddInt64(&r.overlap, 1)
	}
}

// startReaders starts n goroutines that query the cache until stopReaders.
// Reader g asks one kind of question (g mod 3) about the given volume-id strings.
func (r *runner) startReaders(n int, rng *hx.Rng, vids []uint32) {
	for g := 0; g < n; g++ {
		kind := g % 3
		my := rng.Fork()
		r.wg.Add(1)
		go func() {
			defer r.wg.Done()
			lastLo, inWindow, lastQ := int64(-1), 0, ""
			type held struct {
				ls   []wdclient.Location
				text string
			}
			var keep *held
			heldChecks := 0
			for atomic.LoadInt32(&r.stop) == 0 {
				v := vids[my.Intn(len(vids))]
				s := strconv.FormatUint(uint64(v), 10)
				// the window is read tightly around the call; printing comes after it
				var lo, hi int64
				q := ""
				switch kind {
				case 0:
					lo = atomic.LoadInt64(&r.evDone)
					ls, found := r.mc.GetLocations(v)
					hi = atomic.LoadInt64(&r.evStarted)
					q = "(QGet " + coqVid(v) + " " + vstOf(ls, found) + ")"
					if found && keep == nil && my.Chance(1, 4) {
						keep = &held{ls, coqLocs(ls)} // hold the slice itself
					}
				case 1:
					lo = atomic.LoadInt64(&r.evDone)
					us, err := r.mc.LookupVolumeServerUrl(s)
					hi = atomic.LoadInt64(&r.evStarted)
					q = "(QUrl " + hx.Str(s) + " " + urlsRes(us, err) + ")"
				default:
					lo = atomic.LoadInt64(&r.evDone)
					ls, err := r.mc.GetVidLocations(s)
					hi = atomic.LoadInt64(&r.evStarted)
					q = "(QLocs " + hx.Str(s) + " " + locsRes(ls, err) + ")"
				}
				atomic.AddInt64(&r.reads, 1)
				if lo != lastLo {
					lastLo, inWindow, lastQ = lo, 0, ""
					// a slice held since an earlier window must still show what it showed
					if keep != nil && heldChecks < maxHeld {
						r.record(lo, hi, "(QHeld "+keep.text+" "+coqLocs(keep.ls)+")")
						heldChecks++
						keep = nil
					}
				}
				// an answer that overlaps an update is always worth keeping
				if q != lastQ && (inWindow < maxPerWindow || (hi > lo && inWindow < 3*maxPerWindow)) {
					r.record(lo, hi, q)
					inWindow++
					lastQ = q
				}
			}
		}()
	}
}

func (r *runner) stopReaders() {
	atomic.StoreInt32(&r.stop, 1)
	r.wg.Wait()
}

// pause lets the readers run between two updates
func pause(rng *hx.Rng) {
	switch rng.Intn(4) {
	case 0:
	case 1:
		time.Sleep(time.Duration(rng.Range(1, 30)) * time.Microsecond)
	default:
		t := time.Now().Add(time.Duration(rng.Range(1, 20)) * time.Microsecond)
		for time.Now().Before(t) {
		}
	}
}

func (r *runner) emit(dc, kind string) {
	r.finish()
	if len(r.conc) > 0 {
		r.out.Count("conc:answers-recorded", len(r.conc))
		r.out.Count("conc:answers-overlapping-an-update", int(r.overlap))
		r.out.Count("conc:reads", int(r.reads))
	}
	term := fmt.Sprintf("{| client_dc := %s; ops := %s; impl := %s; conc := %s |}", coqD(dc), hx.List(r.ops), hx.List(r.obs), hx.List(r.conc))
	r.out.Add(term, kind+"|"+dc+"|"+strings.Join(r.canon, ";"), r.nontrivial, kind)
}

// ---------- generators ----------

var vidStrings = []string{"1", "2", "3"}
var oddVidStrings = []string{"", "x", "+2", "-1", " 1", "1 ", "01", "7", "0", "00", "4294967295", "4294967296", "4294967297", "4294967298", "4294967299",
	"99999999999999999999", "9223372036854775808", "-9223372036854775808", "1_0", "0x1", "-", "+"}
var oddFids = []string{"3", "3,ab,cd", ",x", "x,y", "4294967299,aa", "2,", ""}

// universe of one case: the first nu urls and the volumes 1..nv
type uni struct{ nu, nv int }

func genUni(r *hx.Rng) uni {
	return uni{nu: []int{2, 3, 4, 4, 6, 6}[r.Intn(6)], nv: []int{1, 2, 3, 3}[r.Intn(4)]}
}

func (u uni) vid(r *hx.Rng) uint32 { return uint32(1 + r.Intn(u.nv)) }

func (u uni) vids() []uint32 {
	vs := make([]uint32, u.nv)
	for i := range vs {
		vs[i] = uint32(i + 1)
	}
	return vs
}

func genVidString(r *hx.Rng) string {
	if r.Chance(1, 6) {
		return r.PickStr(oddVidStrings)
	}
	return r.PickStr(vidStrings)
}

func (u uni) loc(r *hx.Rng) wdclient.Location {
	d := 1 + r.Intn(2)
	if r.Chance(1, 12) {
		d = 0
	}
	return mkLoc(r.Intn(u.nu), d)
}

func (u uni) genVids(r *hx.Rng, max int) []uint32 {
	n := r.Intn(max + 1)
	vs := make([]uint32, n)
	for i := range vs {
		vs[i] = u.vid(r)
	}
	return vs
}

func reader(rn *runner, r *hx.Rng, u uni) {
	switch k := r.Intn(10); {
	case k < 3:
		rn.lookupUrl(genVidString(r))
	case k < 4:
		if r.Chance(1, 4) {
			rn.lookupFid(r.PickStr(oddFids))
		} else {
			rn.lookupFid(r.PickStr(vidStrings) + ",01637037d6")
		}
	case k < 5:
		rn.getVidLocs(genVidString(r))
	case k < 7 || len(rn.snaps) == 0:
		if r.Chance(1, 8) {
			rn.snap(uint32(1 + r.Intn(3)))
		} else {
			rn.snap(u.vid(r))
		}
	default:
		rn.reread(r.Intn(len(rn.snaps)))
	}
}

type pres struct {
	v uint32
	u int
}

// directUpdate performs one random direct update (add / delete biased to present
// urls / reset)
func directUpdate(rn *runner, r *hx.Rng, u uni, present *[]pres) {
	switch k := r.Intn(15); {
	case k < 9:
		l := u.loc(r)
		v := u.vid(r)
		rn.ev(true, v, l)
		for i := range urls {
			if urls[i] == l.Url {
				*present = append(*present, pres{v, i})
			}
		}
	case k < 14:
		if len(*present) > 0 && r.Chance(4, 5) {
			p := (*present)[r.Intn(len(*present))]
			rn.ev(false, p.v, mkLoc(p.u, r.Intn(3)))
		} else {
			rn.ev(false, u.vid(r), u.loc(r))
		}
	default:
		rn.reset()
		*present = nil
	}
}

const nDeterministic = 9

func main() {
	out := hx.Flags("C35", 400)
	out.Rule = "cases 0-8 are fixed: 0-2 regression cases = the former witnesses of the first three repaired defects (slice held across a delete, data center after a reconnect, volume-id string outside uint32); 3 the last location removed (must be not-found, then re-added with a fresh array); 4 growth to 6 locations with held slices re-read across in-place appends, reallocation and delete/re-add (capacities 1,2,4,3,6,5,10); 5 boundary volume ids 0 and 4294967295 and the strings 0, 00, 4294967295, 4294967296; 6 direct resets by a real tryAllMasters round over two unreachable masters with a slice held across them; 7 stream with an unreachable master before and after the real one, a direct add dropped by the first reset, a leader hint followed directly by a disconnect; 8 concurrent: 3 reader goroutines during 40 fixed updates incl. resets. Then random histories over volumes {1..nv} (nv in 1..3) x the first nu urls (nu in 2,3,4,6) x data centers {dc1,dc2,(empty)}: direct mode = 5..30 operations, addLocation/deleteLocation calls (45% adds, 25% deletes biased to present urls, 5% resets = real tryAllMasters rounds over 1-2 unreachable masters) mixed with readers (LookupVolumeServerUrl/LookupFileId/GetVidLocations with 1 in 6 malformed or out-of-range id strings, GetLocations slices that are kept, re-reads of kept slices); every 8th case stream mode = VolumeLocation messages (0-3 new and 0-2 deleted vids, 1 in 10 with a leader hint) over a real gRPC KeepConnected stream, 1 in 8 steps a disconnect, 1 in 16 a leader hint followed directly by a disconnect, 0-1 unreachable masters before/after the real one; every 8th case concurrent direct and every 16th concurrent stream: 2-4 reader goroutines (GetLocations / LookupVolumeServerUrl / GetVidLocations, held slices) run during 15-40 updates, each recorded answer carries its window [lo,hi] of update indices; after every update GetLocations of volumes 1,2,3 (content and capacity) and DataCenter are recorded; non-trivial = some volume had a location; distinct = canonical op list"
	root := hx.NewRng(out.Seed)
	A, B, C := mkLoc(0, 1), mkLoc(1, 2), mkLoc(2, 1)
	for i := 0; i < out.N; i++ {
		r := root.Fork()
		switch {
		case i == 0:
			// repaired (fix-c35-delete-copies): the held slice used to show u3 twice and lose u1
			rn := newRunner(out, "dc1", false, 0, 0)
			rn.ev(true, 1, A)
			rn.ev(true, 1, B)
			rn.ev(true, 1, C)
			rn.snap(1)
			rn.ev(false, 1, A)
			rn.reread(0)
			rn.emit("dc1", "witness-alias")
		case i == 1:
			// repaired (fix-c35-reconnect-dc): after a lost connection the client's data center used to be forgotten
			rn := newRunner(out, "dc1", true, 0, 0)
			rn.msg(false, B, []uint32{1}, nil)
			rn.lookupUrl("1")
			rn.disconnect()
			rn.msg(false, B, []uint32{1}, nil)
			rn.msg(false, A, []uint32{1}, nil)
			rn.lookupUrl("1")
			rn.emit("dc1", "witness-reconnect")
		case i == 2:
			// repaired (fix-c35-vid-parse): "4294967297" used to be answered with volume 1
			rn := newRunner(out, "dc1", false, 0, 0)
			rn.ev(true, 1, A)
			rn.lookupUrl("4294967297")
			rn.lookupUrl("1")
			rn.emit("dc1", "witness-wrap")
		case i == 3:
			// repaired (fix-c35-delete-last-entry): the volume used to stay "found" with no locations
			rn := newRunner(out, "dc1", false, 0, 0)
			rn.ev(true, 1, A)
			rn.snap(1)
			rn.ev(false, 1, A)
			rn.lookupUrl("1")
			rn.lookupFid("1,01637037d6")
			rn.getVidLocs("1")
			rn.snap(1)
			rn.reread(0)
			rn.ev(true, 1, B)
			rn.lookupUrl("1")
			rn.ev(true, 2, A)
			rn.ev(true, 2, B)
			rn.ev(false, 2, A)
			rn.ev(false, 2, B)
			rn.getVidLocs("2")
			rn.reread(0)
			rn.emit("dc1", "witness-last-location")
		case i == 4:
			// capacities: 1,2,4 by doubling; delete -> exactly len-1; 3 -> 6; 5 -> 10
			rn := newRunner(out, "dc2", false, 0, 0)
			rn.ev(true, 1, mkLoc(0, 1))
			rn.ev(true, 1, mkLoc(1, 2))
			rn.ev(true, 1, mkLoc(2, 1))
			rn.snap(1) // len 3 cap 4
			rn.ev(true, 1, mkLoc(3, 2))
			rn.reread(0) // in-place append behind the held cells
			rn.snap(1)
			rn.ev(false, 1, mkLoc(1, 0)) // fresh array len 3 cap 3
			rn.ev(true, 1, mkLoc(1, 1))  // cap 6, u2 now with dc1
			rn.reread(0)
			rn.reread(1)
			rn.snap(1)
			rn.ev(true, 1, mkLoc(4, 2))
			rn.ev(true, 1, mkLoc(5, 2)) // len 6 cap 6
			rn.lookupUrl("1")
			rn.snap(1)
			rn.ev(false, 1, mkLoc(0, 0)) // len 5 cap 5
			rn.ev(true, 1, mkLoc(0, 2))  // len 6 cap 10
			rn.lookupUrl("1")
			rn.reread(2)
			rn.reread(3)
			rn.ev(true, 1, mkLoc(0, 1)) // duplicate url: ignored
			rn.emit("dc2", "caps")
		case i == 5:
			// boundary volume ids
			rn := newRunner(out, "dc1", false, 0, 0)
			rn.ev(true, 4294967295, A)
			rn.ev(true, 0, B)
			rn.lookupUrl("4294967295")
			rn.lookupUrl("4294967296")
			rn.lookupUrl("0")
			rn.lookupUrl("00")
			rn.getVidLocs("4294967295")
			rn.getVidLocs("4294967296")
			rn.lookupFid("4294967295,01637037d6")
			rn.lookupFid("0,01637037d6")
			rn.ev(false, 4294967295, A)
			rn.lookupUrl("4294967295")
			rn.ev(false, 0, A)
			rn.lookupUrl("0")
			rn.emit("dc1", "boundary-vids")
		case i == 6:
			// a slice held across resets; lookups after a reset without re-add
			rn := newRunner(out, "dc1", false, 2, 0)
			rn.ev(true, 1, B)
			rn.ev(true, 1, A)
			rn.ev(true, 2, C)
			rn.snap(1)
			rn.lookupUrl("1")
			rn.reset()
			rn.reread(0)
			rn.lookupUrl("1")
			rn.getVidLocs("2")
			rn.snap(1)
			rn.ev(true, 1, C)
			rn.ev(true, 1, A)
			rn.lookupUrl("1")
			rn.reread(0)
			rn.reset()
			rn.reset()
			rn.reread(0)
			rn.emit("dc1", "direct-reset")
		case i == 7:
			// [unreachable, real, unreachable]; a direct add is dropped by the first reset
			rn := newRunner(out, "dc2", true, 1, 1)
			rn.ev(true, 1, A)
			rn.snap(1)
			rn.msg(false, B, []uint32{2, 1}, nil)
			rn.reread(0)
			rn.lookupUrl("1")
			rn.msg(false, C, []uint32{1, 2}, []uint32{2})
			rn.leaderThenDisconnect(A, []uint32{3}, nil)
			rn.lookupUrl("1")
			rn.msg(false, A, []uint32{3}, nil)
			rn.msg(true, B, []uint32{3}, []uint32{3})
			rn.lookupUrl("3")
			rn.disconnect()
			rn.emit("dc2", "multi-master")
		case i == 8:
			rn := newRunner(out, "dc1", false, 1, 0)
			rn.startReaders(3, r, []uint32{1, 2})
			for j := 0; j < 40; j++ {
				v := uint32(1 + j%2)
				switch {
				case j%13 == 12:
					rn.reset()
				case j%5 == 3:
					rn.ev(false, v, mkLoc((j/2)%4, 0))
				default:
					rn.ev(true, v, mkLoc((j/3)%6, 1+j%2))
				}
				pause(r)
			}
			rn.emit("dc1", "concurrent-fixed")
		case i%8 == 7:
			// stream mode, every second one with concurrent readers
			dc := []string{"dc1", "dc1", "dc2", ""}[r.Intn(4)]
			u := genUni(r)
			rn := newRunner(out, dc, true, r.Intn(2), r.Intn(2))
			concurrent := i%16 == 15
			n := r.Range(3, 10)
			if concurrent {
				rn.startReaders(r.Range(2, 4), r, u.vids())
				n = r.Range(6, 14)
			}
			for j := 0; j < n; j++ {
				switch k := r.Intn(16); {
				case k < 2:
					rn.disconnect()
				case k < 3:
					rn.leaderThenDisconnect(u.loc(r), u.genVids(r, 2), u.genVids(r, 1))
				case k < 10 || concurrent:
					rn.msg(r.Chance(1, 10), u.loc(r), u.genVids(r, 3), u.genVids(r, 2))
				default:
					reader(rn, r, u)
				}
			}
			rn.lookupUrl(r.PickStr(vidStrings))
			if concurrent {
				rn.emit(dc, "stream-concurrent")
			} else {
				rn.emit(dc, "stream")
			}
		case i%8 == 3:
			// direct mode with concurrent readers
			dc := []string{"dc1", "dc1", "dc2", ""}[r.Intn(4)]
			u := genUni(r)
			rn := newRunner(out, dc, false, r.Range(1, 2), 0)
			rn.startReaders(r.Range(2, 4), r, u.vids())
			n := r.Range(15, 40)
			var present []pres
			for j := 0; j < n; j++ {
				directUpdate(rn, r, u, &present)
				pause(r)
			}
			rn.emit(dc, "direct-concurrent")
		default:
			dc := []string{"dc1", "dc1", "dc2", ""}[r.Intn(4)]
			u := genUni(r)
			rn := newRunner(out, dc, false, r.Range(1, 2), 0)
			n := r.Range(5, 30)
			var present []pres
			for j := 0; j < n; j++ {
				if r.Intn(20) < 14 {
					directUpdate(rn, r, u, &present)
				} else {
					reader(rn, r, u)
				}
			}
			rn.emit(dc, "direct")
		}
	}
	out.Write()
}
