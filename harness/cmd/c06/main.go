// C06 harness: the real generateEcFiles / LocateData / ToShardIdAndOffset /
// generateMissingEcFiles (and the WriteDatFile loop) with scaled-down block sizes.
//
// One case = one .dat (content = LCG(seed), regenerated on the Coq side, not shipped),
// its 14 shard files, a list of reads through the intervals computed from
// 10 x shardSize (the production arithmetic of LocateEcShardNeedle) and from the
// true size, the decoded .dat, and a list of rebuilds after deleting shard files.
package main

import (
	"bytes"
	"fmt"
	"io/ioutil"
	"os"
	"path/filepath"
	"strconv"
	"strings"

	"github.com/klauspost/reedsolomon"

	ec "github.com/chrislusf/seaweedfs/weed/storage/erasure_coding"
	"github.com/chrislusf/seaweedfs/weed/storage/types"
	"verifharness/hx"
)

const rebuildBuf = ec.ErasureCodingSmallBlockSize // buffer size hard-wired in rebuildEcFiles

// ---- content generator, mirrored by lcg_bytes in coq/model/EC.v ----
func lcgBytes(n int, seed uint64) []byte {
	b := make([]byte, n)
	x := seed
	for i := range b {
		x = (x*1103515245 + 12345) % 2147483648
		b[i] = byte((x / 65536) % 256)
	}
	return b
}

type params struct {
	L, S int64
	buf  int
}

func coqInterval(iv ec.Interval) string {
	return fmt.Sprintf("(mkI %s %s %s %s %s)", hx.Z(int64(iv.BlockIndex)), hx.Z(iv.InnerBlockOffset), hx.Z(int64(iv.Size)),
		hx.Bool(iv.IsLargeBlock), hx.Z(int64(iv.LargeBlockRowsCount)))
}

func coqIntervals(ivs []ec.Interval) string {
	xs := make([]string, len(ivs))
	for i, iv := range ivs {
		xs[i] = coqInterval(iv)
	}
	return hx.List(xs)
}

// byteList prints a byte slice as a Coq `list byte` of the named constants b0..b255
// (coq/check/C06Bytes.v): identifiers parse several times faster than numerals.
func byteList(b []byte) string {
	var sb strings.Builder
	sb.WriteString("([")
	for i, c := range b {
		if i > 0 {
			sb.WriteString("; ")
		}
		sb.WriteString("b")
		sb.WriteString(strconv.Itoa(int(c)))
	}
	sb.WriteString("] : list N)")
	return sb.String()
}

func optBytes(b []byte, ok bool) string {
	if !ok {
		return "None"
	}
	return hx.Some(byteList(b))
}

// readThrough mimics readEcShardIntervals/readOneEcShardInterval for local shards:
// ToShardIdAndOffset then shard.ReadAt (= os.File.ReadAt) of interval.Size bytes.
func readThrough(p params, files []*os.File, ivs []ec.Interval) ([]byte, bool) {
	var data []byte
	for _, iv := range ivs {
		shardId, off := iv.ToShardIdAndOffset(p.L, p.S)
		d := make([]byte, iv.Size)
		if int(shardId) >= len(files) || off < 0 {
			return nil, false
		}
		if _, err := files[shardId].ReadAt(d, off); err != nil {
			return nil, false
		}
		data = append(data, d...)
	}
	if data == nil {
		data = []byte{}
	}
	return data, true
}

// ---- the WriteDatFile transcription must be the real text modulo its two constants ----
func funcBody(src, name string) string {
	i := strings.Index(src, "\nfunc "+name+"(")
	if i < 0 {
		return "?missing " + name
	}
	rest := src[i+1:]
	j := strings.Index(rest, "\n}\n")
	if j < 0 {
		return "?unterminated " + name
	}
	body := rest[:j]
	k := strings.Index(body, "\n") // drop the signature line
	return body[k+1:]
}

func transcriptionInSync() bool {
	dir := filepath.Dir(ec.VerifSourceFile())
	real, err1 := ioutil.ReadFile(filepath.Join(dir, "ec_decoder.go"))
	mine, err2 := ioutil.ReadFile(filepath.Join(dir, "export_verif.go"))
	if err1 != nil || err2 != nil {
		return false
	}
	a := funcBody(string(real), "WriteDatFile")
	a = strings.ReplaceAll(a, "ErasureCodingLargeBlockSize", "largeBlockSize")
	a = strings.ReplaceAll(a, "ErasureCodingSmallBlockSize", "smallBlockSize")
	b := funcBody(string(mine), "VerifWriteDatFileSized")
	if a != b || strings.HasPrefix(a, "?") {
		return false
	}
	// rebuildEcFiles against its transcription with the buffer size as a parameter
	realEnc, err3 := ioutil.ReadFile(filepath.Join(dir, "ec_encoder.go"))
	mine2, err4 := ioutil.ReadFile(filepath.Join(dir, "rebuild_verif.go"))
	if err3 != nil || err4 != nil {
		return false
	}
	c := funcBody(string(realEnc), "rebuildEcFiles")
	c = strings.ReplaceAll(c, "ErasureCodingSmallBlockSize", "bufferSize")
	d := funcBody(string(mine2), "VerifRebuildEcFilesSized")
	return c == d && !strings.HasPrefix(c, "?")
}

// the real WriteEcFiles + WriteDatFile (production constants) on a small volume,
// next to the transcription with the same constants
func realDecoderAgrees(dir string, seed uint64) bool {
	base := filepath.Join(dir, "real")
	dat := lcgBytes(2500+int(seed%1000), seed)
	hx.Must(ioutil.WriteFile(base+".dat", dat, 0o644))
	if err := ec.WriteEcFiles(base); err != nil {
		return false
	}
	ok := true
	os.Remove(base + ".dat")
	if err := ec.WriteDatFile(base, int64(len(dat))); err != nil {
		ok = false
	}
	got, _ := ioutil.ReadFile(base + ".dat")
	ok = ok && bytes.Equal(got, dat)
	os.Remove(base + ".dat")
	if err := ec.VerifWriteDatFileSized(base, int64(len(dat)), ec.ErasureCodingLargeBlockSize, ec.ErasureCodingSmallBlockSize); err != nil {
		ok = false
	}
	got2, _ := ioutil.ReadFile(base + ".dat")
	ok = ok && bytes.Equal(got2, got)
	os.Remove(base + ".dat")
	for i := 0; i < ec.TotalShardsCount; i++ {
		os.Remove(base + ec.ToExt(i))
	}
	return ok
}

// every byte column of the parity shards is the library's encoding of the same
// column of the data shards (the "column by column" reading of the RS oracle)
func columnwise(shards [][]byte) bool {
	enc, err := reedsolomon.New(ec.DataShardsCount, ec.ParityShardsCount)
	hx.Must(err)
	n := len(shards[0])
	for t := 0; t < n; t++ {
		col := make([][]byte, ec.TotalShardsCount)
		for i := range col {
			col[i] = make([]byte, 1)
			if i < ec.DataShardsCount {
				col[i][0] = shards[i][t]
			}
		}
		hx.Must(enc.Encode(col))
		for i := ec.DataShardsCount; i < ec.TotalShardsCount; i++ {
			if col[i][0] != shards[i][t] {
				return false
			}
		}
	}
	return true
}

// all subsets of {0..13} with at most 4 elements, in a fixed order (1471 of them)
func allSubsets() [][]int {
	var out [][]int
	var rec func(start int, cur []int)
	rec = func(start int, cur []int) {
		out = append(out, append([]int{}, cur...))
		if len(cur) == 4 {
			return
		}
		for i := start; i < ec.TotalShardsCount; i++ {
			rec(i+1, append(cur, i))
		}
	}
	rec(0, nil)
	return out
}

type sizeSpec struct {
	p params
	D int
}

// every (params, datSize) with 0..3 large rows +- 2 small rows (+-3 bytes)
func allSizes(ps []params) []sizeSpec {
	var out []sizeSpec
	for _, p := range ps {
		seen := map[int]bool{}
		for k := 0; k <= 3; k++ {
			c := k * int(p.L) * 10
			w := 2*int(p.S)*10 + 3
			for d := c - w; d <= c+w; d++ {
				if d >= 0 && !seen[d] {
					seen[d] = true
					out = append(out, sizeSpec{p, d})
				}
			}
		}
	}
	return out
}

type readSpec struct{ off, size int }

func genReads(r *hx.Rng, p params, D int, n int) []readSpec {
	var out []readSpec
	add := func(off, size int) {
		if off < 0 {
			off = 0
		}
		if off > D {
			off = D
		}
		if size < 0 {
			size = 0
		}
		if off+size > D {
			size = D - off
		}
		out = append(out, readSpec{off, size})
	}
	if D == 0 {
		add(0, 0)
		return out
	}
	add(0, 1)
	add(D-1, 1)
	add(r.Intn(D), 0)
	lrow, srow := int(p.L)*10, int(p.S)*10
	nl := (D - 1) / lrow // large rows written by the encoder
	// reads that straddle the structural boundaries
	bounds := []int{nl * lrow, nl*lrow + srow, nl * lrow / 2, D - srow, D - int(p.S), nl*lrow - int(p.L), nl*lrow + int(p.S), int(p.L), lrow}
	for _, b := range bounds {
		if b <= 0 || b >= D {
			continue
		}
		add(b-r.Range(0, 12), r.Range(1, 30))
		if r.Chance(1, 3) {
			add(b, r.Range(1, int(p.S)+2))
		}
	}
	// the tail and the head
	add(D-r.Range(1, 25), 25)
	add(0, r.Range(1, 2*int(p.S)+5))
	// grid offset, assorted sizes
	sizes := []int{1, int(p.S) - 1, int(p.S), int(p.S) + 1, int(p.L) - 1, int(p.L), int(p.L) + 1, 2*int(p.S) + 3, srow + 7}
	for len(out) < n-2 {
		off := r.Intn(D)
		if r.Chance(1, 2) {
			off = off / int(p.S) * int(p.S) // block aligned
		}
		add(off, r.PickInt(sizes))
	}
	// one long read: across the large/small switch when there is one
	if nl > 0 {
		o := nl*lrow - r.Range(1, int(p.L)+5)
		add(o, r.Range(int(p.L), int(p.L)+srow))
	} else {
		add(r.Intn(D), r.Range(1, 120))
	}
	if D <= 450 {
		add(0, D)
	}
	return out
}

type builder struct {
	out      *hx.Out
	dir      string
	allSub   [][]int
	wdSync   bool
	caseSeq  int
	thorough bool
	// extra observations attached to the next case runCase emits
	pendingBig        []string
	pendingEcRead     []string
	pendingVol        string
	pendingNontrivial bool
	pendingCanon      []string
}

// ---- closed-form content for the production-size run, mirrored by mix_byte in coq/model/EC.v ----
func mixByte(seed, p uint64) byte {
	x := ((p+seed)*1103515245 + 12345) % 2147483648
	y := (x*x/256 + x + p/4096) % 2147483648
	return byte((y / 4096) % 256)
}

// bigRebuild: the REAL WriteEcFiles and RebuildEcFiles (production block sizes, 256 KiB
// encode buffer, 1 MiB rebuild buffer) on a .dat of 10..40 MiB, so that the shard files
// are 2..4 MiB and rebuildEcFiles makes several passes.  The shard files are sampled.
func (b *builder) bigRebuild(r *hx.Rng, lost []int) {
	b.caseSeq++
	cdir := filepath.Join(b.dir, fmt.Sprintf("big%d", b.caseSeq))
	hx.Must(os.MkdirAll(cdir, 0o755))
	defer os.RemoveAll(cdir)
	base := filepath.Join(cdir, "1")
	const MiB = 1 << 20
	seed := r.Next() % 2147483648
	var D int
	switch r.Intn(4) {
	case 0:
		D = r.Range(2, 4) * 10 * MiB // exactly on a small row
	case 1:
		D = r.Range(1, 3)*10*MiB + r.Range(1, 9) // just behind a small row
	default:
		D = 10*MiB + 1 + r.Intn(30*MiB)
	}
	dat := make([]byte, D)
	for i := range dat {
		dat[i] = mixByte(seed, uint64(i))
	}
	hx.Must(ioutil.WriteFile(base+".dat", dat, 0o644))
	dat = nil
	genErr := ec.WriteEcFiles(base)
	os.Remove(base + ".dat")
	orig := make([][]byte, ec.TotalShardsCount)
	lens := make([]int64, ec.TotalShardsCount)
	for i := range orig {
		var err error
		orig[i], err = ioutil.ReadFile(base + ec.ToExt(i))
		hx.Must(err)
		lens[i] = int64(len(orig[i]))
	}
	slen := len(orig[0])
	// sampled offsets: around every multiple of the rebuild buffer, the two ends, random ones
	offSet := map[int]bool{}
	var offs []int
	add := func(o int) {
		if o >= 0 && o < slen && !offSet[o] {
			offSet[o] = true
			offs = append(offs, o)
		}
	}
	add(0)
	add(1)
	add(slen - 1)
	for k := 1; k*int(rebuildBuf) <= slen; k++ {
		for _, d := range []int{-2, -1, 0, 1, 2, 256*1024 - 1, 256 * 1024, 777777} {
			add(k*int(rebuildBuf) + d)
		}
	}
	for len(offs) < 90 && slen > 0 {
		add(r.Intn(slen))
	}
	sample := func(f []byte) string {
		bs := make([]byte, 0, len(offs))
		for _, o := range offs {
			if o < len(f) {
				bs = append(bs, f[o])
			}
		}
		return byteList(bs)
	}
	present := make([]bool, ec.TotalShardsCount)
	for i := range present {
		present[i] = true
	}
	for _, i := range lost {
		present[i] = false
		os.Remove(base + ec.ToExt(i))
	}
	gen, err := ec.RebuildEcFiles(base)
	var genZ []int64
	for _, g := range gen {
		genZ = append(genZ, int64(g))
	}
	rlens := make([]int64, ec.TotalShardsCount)
	var rebuilt []string
	var firstDiff []int64
	for i := 0; i < ec.TotalShardsCount; i++ {
		got, rerr := ioutil.ReadFile(base + ec.ToExt(i))
		if rerr != nil {
			rlens[i] = -1
			continue
		}
		rlens[i] = int64(len(got))
		if !present[i] {
			rebuilt = append(rebuilt, hx.Pair(hx.Z(int64(i)), sample(got)))
			fd := int64(-1)
			if len(got) != len(orig[i]) {
				fd = int64(min(len(got), len(orig[i])))
			}
			for t := 0; t < len(got) && t < len(orig[i]); t++ {
				if got[t] != orig[i][t] {
					fd = int64(t)
					break
				}
			}
			firstDiff = append(firstDiff, fd)
			if fd >= 0 && len(lost) <= 4 {
				b.out.Count("big-rebuild-WRONG", 1)
			}
		}
	}
	origS := make([]string, len(orig))
	for i := range orig {
		origS[i] = sample(orig[i])
	}
	pb := make([]string, len(present))
	for i, v := range present {
		pb[i] = hx.Bool(v)
	}
	offZ := make([]int64, len(offs))
	for i, o := range offs {
		offZ[i] = int64(o)
	}
	term := fmt.Sprintf("{| bg_large := %s; bg_small := %s; bg_rbuf := %s; bg_seed := %s; bg_dsize := %s; bg_gen_ok := %s; bg_lens := %s; bg_offsets := %s; bg_orig := %s; bg_present := %s; bg_ok := %s; bg_generated := %s; bg_rlens := %s; bg_rebuilt := %s; bg_first_diff := %s |}",
		hx.Z(ec.ErasureCodingLargeBlockSize), hx.Z(ec.ErasureCodingSmallBlockSize), hx.Z(rebuildBuf), hx.Z(int64(seed)), hx.Z(int64(D)), hx.Bool(genErr == nil),
		hx.ZList(lens), hx.ZList(offZ), hx.List(origS), hx.List(pb), hx.Bool(err == nil), hx.ZList(genZ), hx.ZList(rlens), hx.List(rebuilt), hx.ZList(firstDiff))
	b.pendingBig = append(b.pendingBig, term)
	b.pendingNontrivial = true
	b.pendingCanon = append(b.pendingCanon, fmt.Sprintf("big D%d seed%d lost%v", D, seed, lost))
	b.out.Count(fmt.Sprintf("big-rebuild-passes:%d", slen/int(rebuildBuf)), 1)
	b.out.Count(fmt.Sprintf("big-rebuild-lost:%d", len(lost)), 1)
}

// rebuild buffer sizes for the transcription of rebuildEcFiles: several passes over a
// shard of slen bytes (B | slen), exactly one pass + the empty read (B = slen), one short
// pass (B > slen), and sizes that do not divide slen (the "ec shard size expected" error
// once a later pass reads fewer bytes); 0 = the real generateMissingEcFiles (1 MiB buffer)
func pickRebuildBuf(r *hx.Rng, p params, slen int) int {
	cands := []int{0, int(p.S), 2 * int(p.S), slen, slen + 3, 7, 1, 5}
	if slen >= 4 && slen%2 == 0 {
		cands = append(cands, slen/2)
	}
	if slen > 3 {
		cands = append(cands, (slen+1)/2)
	}
	c := cands[r.Intn(len(cands))]
	if c < 0 {
		c = 0
	}
	return c
}

func (b *builder) runCase(r *hx.Rng, p params, D int, kind string, nReads int, subsets [][]int, decode bool) {
	b.caseSeq++
	cdir := filepath.Join(b.dir, fmt.Sprintf("c%d", b.caseSeq))
	hx.Must(os.MkdirAll(cdir, 0o755))
	defer os.RemoveAll(cdir)
	base := filepath.Join(cdir, "1")
	seed := r.Next() % 2147483648
	dat := lcgBytes(D, seed)
	hx.Must(ioutil.WriteFile(base+".dat", dat, 0o644))

	genErr := ec.VerifGenerateEcFiles(base, p.buf, p.L, p.S)
	shards := make([][]byte, ec.TotalShardsCount)
	lens := make([]int64, ec.TotalShardsCount)
	files := make([]*os.File, ec.TotalShardsCount)
	for i := range shards {
		var err error
		shards[i], err = ioutil.ReadFile(base + ec.ToExt(i))
		hx.Must(err)
		lens[i] = int64(len(shards[i]))
		files[i], err = os.Open(base + ec.ToExt(i))
		hx.Must(err)
	}
	defer func() {
		for _, f := range files {
			f.Close()
		}
	}()
	colwise := true
	sameLen := true
	for i := range shards {
		if len(shards[i]) != len(shards[0]) {
			sameLen = false
		}
	}
	if sameLen {
		colwise = columnwise(shards)
	} else {
		colwise = false
	}
	dataShards := make([]string, ec.DataShardsCount)
	for i := 0; i < ec.DataShardsCount; i++ {
		dataShards[i] = byteList(shards[i])
	}
	parityShards := make([]string, ec.ParityShardsCount)
	for i := 0; i < ec.ParityShardsCount; i++ {
		parityShards[i] = byteList(shards[ec.DataShardsCount+i])
	}

	// ---- reads ----
	var reads []string
	var canon []string
	shardSize := lens[0]
	for _, rs := range genReads(r, p, D, nReads) {
		if nReads == 0 {
			break
		}
		off, size := int64(rs.off), types.Size(rs.size)
		bi, isL, inner := ec.VerifLocateOffset(p.L, p.S, ec.DataShardsCount*shardSize, off)
		ivProd := ec.LocateData(p.L, p.S, ec.DataShardsCount*shardSize, off, size)
		ivTrue := ec.LocateData(p.L, p.S, int64(D), off, size)
		bp, okp := readThrough(p, files, ivProd)
		bt, okt := readThrough(p, files, ivTrue)
		// the true-size read is shipped only when its intervals differ from the production ones
		// (the Coq side accepts the marker only if the two shipped interval lists are equal)
		trueRes := "(Bytes " + optBytes(bt, okt) + ")"
		if coqIntervals(ivProd) == coqIntervals(ivTrue) && okp == okt && bytes.Equal(bp, bt) {
			trueRes = "SameAsProd"
		} else {
			b.out.Count("true-size-read-differs", 1)
		}
		reads = append(reads, fmt.Sprintf("{| r_off := %s; r_size := %s; r_loc := (%s, %s, %s); r_ivs_prod := %s; r_ivs_true := %s; r_bytes_prod := %s; r_bytes_true := %s |}",
			hx.Z(off), hx.Z(int64(size)), hx.Z(int64(bi)), hx.Bool(isL), hx.Z(inner), coqIntervals(ivProd), coqIntervals(ivTrue), optBytes(bp, okp), trueRes))
		canon = append(canon, fmt.Sprintf("r%d+%d", rs.off, rs.size))
		b.out.Count("reads", 1)
		b.out.Count(fmt.Sprintf("read-intervals:%d", min(len(ivProd), 4)), 1)
		if !okp || !bytes.Equal(bp, dat[rs.off:rs.off+rs.size]) {
			b.out.Count("read-prod-WRONG", 1)
		}
	}

	// ---- decode ----
	decoded := "None"
	if decode {
		ddir := filepath.Join(cdir, "dec")
		hx.Must(os.MkdirAll(ddir, 0o755))
		dbase := filepath.Join(ddir, "1")
		for i := 0; i < ec.DataShardsCount; i++ {
			hx.Must(ioutil.WriteFile(dbase+ec.ToExt(i), shards[i], 0o644))
		}
		if err := ec.VerifWriteDatFileSized(dbase, int64(D), p.L, p.S); err == nil {
			got, err := ioutil.ReadFile(dbase + ".dat")
			hx.Must(err)
			decoded = hx.Some(byteList(got))
			if !bytes.Equal(got, dat) {
				b.out.Count("decode-WRONG", 1)
			}
		} else {
			b.out.Count("decode-error", 1)
		}
		b.out.Count("decodes", 1)
	}

	// ---- rebuilds ----
	var rebuilds []string
	for si, lost := range subsets {
		rdir := filepath.Join(cdir, fmt.Sprintf("rb%d", si))
		hx.Must(os.MkdirAll(rdir, 0o755))
		rbase := filepath.Join(rdir, "1")
		present := make([]bool, ec.TotalShardsCount)
		for i := range present {
			present[i] = true
		}
		for _, i := range lost {
			present[i] = false
		}
		for i := 0; i < ec.TotalShardsCount; i++ {
			if present[i] {
				hx.Must(ioutil.WriteFile(rbase+ec.ToExt(i), shards[i], 0o644))
			}
		}
		// the first subset of a case runs the real function, the others mostly the transcription
		rbuf := 0
		if si > 0 || r.Chance(1, 2) {
			rbuf = pickRebuildBuf(r, p, int(shardSize))
		}
		var gen []uint32
		var err error
		if rbuf == 0 {
			gen, err = ec.VerifGenerateMissingEcFiles(rbase, p.buf, p.L, p.S)
		} else {
			gen, err = ec.VerifGenerateMissingEcFilesSized(rbase, rbuf)
		}
		usedBuf := int64(rbuf)
		if rbuf == 0 {
			usedBuf = rebuildBuf
		}
		passes := "1"
		switch {
		case int64(shardSize) > usedBuf && int64(shardSize)%usedBuf == 0:
			passes = "many"
		case int64(shardSize) > usedBuf:
			passes = "many-uneven(error)"
		case int64(shardSize) == usedBuf:
			passes = "1+empty"
		}
		b.out.Count("rebuild-passes:"+passes, 1)
		var genZ []int64
		for _, g := range gen {
			genZ = append(genZ, int64(g))
		}
		rlens := make([]int64, ec.TotalShardsCount)
		var rdata []string
		bufOK := int64(shardSize)%usedBuf == 0 || int64(shardSize) < usedBuf
		for i := 0; i < ec.TotalShardsCount; i++ {
			got, rerr := ioutil.ReadFile(rbase + ec.ToExt(i))
			if rerr != nil {
				rlens[i] = -1
				continue
			}
			rlens[i] = int64(len(got))
			if !present[i] {
				rdata = append(rdata, hx.Pair(hx.Z(int64(i)), byteList(got)))
				if !bytes.Equal(got, shards[i]) && len(lost) <= 4 && bufOK {
					b.out.Count("rebuild-WRONG", 1)
				}
			}
		}
		pb := make([]string, len(present))
		for i, v := range present {
			pb[i] = hx.Bool(v)
		}
		rebuilds = append(rebuilds, fmt.Sprintf("{| rb_present := %s; rb_ok := %s; rb_generated := %s; rb_lens := %s; rb_data := %s; rb_buf := %s |}",
			hx.List(pb), hx.Bool(err == nil), hx.ZList(genZ), hx.ZList(rlens), hx.List(rdata), hx.Z(usedBuf)))
		canon = append(canon, fmt.Sprintf("l%vb%d", lost, rbuf))
		b.out.Count(fmt.Sprintf("rebuild-lost:%d", len(lost)), 1)
		os.RemoveAll(rdir)
	}

	volTerm := "None"
	if b.pendingVol != "" {
		volTerm = hx.Some(b.pendingVol)
	}
	extraNontrivial := b.pendingNontrivial
	b.pendingNontrivial = false
	term := fmt.Sprintf("{| c_large := %s; c_small := %s; c_buf := %s; c_rbuf := %s; c_seed := %s; c_dsize := %s; c_gen_ok := %s; c_shard_lens := %s; c_data_shards := %s; c_parity_shards := %s; c_colwise := %s; c_wd_sync := %s; c_decode_run := %s; c_decoded := %s; c_reads := %s; c_rebuilds := %s; c_big := %s; c_ecreads := %s; c_vol := %s |}",
		hx.Z(p.L), hx.Z(p.S), hx.Z(int64(p.buf)), hx.Z(rebuildBuf), hx.Z(int64(seed)), hx.Z(int64(D)), hx.Bool(genErr == nil),
		hx.ZList(lens), hx.List(dataShards), hx.List(parityShards), hx.Bool(colwise), hx.Bool(b.wdSync), hx.Bool(decode), decoded, hx.List(reads), hx.List(rebuilds), hx.List(b.pendingBig), hx.List(b.pendingEcRead), volTerm)
	canon = append(canon, b.pendingCanon...)
	b.pendingBig, b.pendingEcRead, b.pendingVol, b.pendingCanon = nil, nil, "", nil
	lrow := int(p.L) * 10
	rel := "mid"
	switch m := D % lrow; {
	case D == 0:
		rel = "empty"
	case m == 0:
		rel = "on-large-row"
	case m <= 2*int(p.S)*10 || lrow-m <= 2*int(p.S)*10:
		rel = "near-large-row"
	}
	b.out.Count("size:"+rel, 1)
	b.out.Count(fmt.Sprintf("large-rows:%d", func() int {
		if D == 0 {
			return 0
		}
		return (D - 1) / lrow
	}()), 1)
	b.out.Count(fmt.Sprintf("L=%d,S=%d,buf=%d", p.L, p.S, p.buf), 1)
	b.out.Add(term, fmt.Sprintf("L%d S%d b%d D%d seed%d %s", p.L, p.S, p.buf, D, seed, strings.Join(canon, ",")), (D > 0 && (len(reads) > 0 || len(rebuilds) > 0)) || extraNontrivial, kind)
}

// volCase: a decode + mount observation (vol.go) carried by an empty EC layout case
func (b *builder) volCase(r *hx.Rng, e extraCase) {
	b.pendingVol = e.term
	b.pendingCanon = append(b.pendingCanon, e.canon)
	b.pendingNontrivial = e.nontrivial
	b.out.Count("vol:"+e.kind, 1)
	b.runCase(r, params{40, 10, 10}, 0, e.kind, 0, nil, false)
}

func min(a, b int) int {
	if a < b {
		return a
	}
	return b
}

func main() {
	out := hx.Flags("C06", 120)
	out.Rule = "dat = LCG(seed) bytes; block sizes (large,small,buffer) in {(40,10,10),(100,10,10)} plus a few (20,10,5),(60,20,10); datSize: every size within 2 small rows (+-3 bytes) of 0..3 large rows (thorough: swept systematically, quick: sampled, boundaries first); per layout case ~22 reads (offset,size; read through the production intervals AND the true-size intervals): first/last byte, empty, straddling every row/block boundary, block-aligned grid x sizes {1,S-1,S,S+1,L-1,L,L+1,..}, one long read across the large/small switch, the whole file when small; decode of every layout case; rebuild cases: subsets of <=4 lost shards (thorough: all 1471 swept, quick: all singles + sampled), a few 5-subsets (error path), each rebuild either the real generateMissingEcFiles (1 MiB buffer: one short pass) or its transcription with a buffer from {S,2S,len,len/2,len+3,7,5,1} (several passes, the empty final read, the uneven-size error); big-rebuild cases: the real WriteEcFiles+RebuildEcFiles with production constants on a 10..40 MiB .dat = mix_byte(seed) (2..4 passes), shard files sampled at ~90 offsets around every MiB boundary; decode+mount cases (vol.go): a real volume with 3..10 writes/overwrites/deletes over keys 1..4, encoded with block sizes 40/10, decoded as ec.decode does (real FindDatFileSize / WriteIdxFileFromEcIndex), mounted and read back, the witnesses of findings 0,1,2 fixed in shard 2; ec-read cases (ecread.go): a real volume of 1..3 MiB with needles placed across the MiB block boundaries, real WriteEcFiles, the 14 shards mounted in a Store, every key through EcVolume.LocateEcShardNeedle and Store.ReadEcShardNeedle; first cases of shard 0 are the fixed pre-repair witnesses (995-byte dat L=100: LocateData(100,10,1000,0,8); datSize = k*10*large). non-trivial = non-empty dat with at least one read or rebuild; distinct = (params, datSize, seed, reads, lost sets)"
	root := hx.NewRng(out.Seed)
	dir, err := ioutil.TempDir("", "c06")
	hx.Must(err)
	defer os.RemoveAll(dir)
	b := &builder{out: out, dir: dir, allSub: allSubsets(), thorough: out.Tier == "thorough"}
	b.wdSync = transcriptionInSync() && realDecoderAgrees(dir, out.Seed)

	std := []params{{40, 10, 10}, {100, 10, 10}}
	extra := []params{{20, 10, 5}, {60, 20, 10}}
	sizes := allSizes(std)
	shardNo := int(out.Seed % 1000)

	// fixed witnesses of the two pre-repair defects (independent of the seed)
	fixed := []sizeSpec{
		{params{100, 10, 10}, 995},  // shard size 100: old LocateData/locateOffset took the small rows for a large row
		{params{100, 10, 10}, 1000}, // exactly one large row worth of data, written as small rows; old WriteDatFile (>=) copied a "large block"
		{params{40, 10, 10}, 800},   // two large rows worth: one large row + 4 small rows
		{params{40, 10, 10}, 790},
		{params{40, 10, 10}, 0},
		{params{40, 10, 10}, 1},
	}
	singles := [][]int{}
	for i := 0; i < ec.TotalShardsCount; i++ {
		singles = append(singles, []int{i})
	}

	if shardNo != 0 {
		// the fixed cases are emitted once per check run (bin/check seeds its shards seed*1000+k)
		fixed = nil
	}
	var volWit []extraCase
	for i := 0; i < out.N; i++ {
		r := root.Fork()
		if i < len(fixed) {
			b.runCase(r, fixed[i].p, fixed[i].D, "witness", 26, [][]int{{0, 3, 10, 13}}, true)
			continue
		}
		if shardNo == 0 && i == len(fixed) {
			b.runCase(r, params{40, 10, 10}, 437, "rebuild", 0, append(singles, []int{}), false)
			continue
		}
		// The deterministic extra cases are spread over the first shards of a check run
		// (bin/check seeds its shards seed*1000+k, so shardNo = k):
		//   shard 1: two production-size rebuilds (several passes of the 1 MiB rebuild buffer):
		//            one lost data shard + one lost parity shard; four lost shards
		//   shard 2: the decode + mount witnesses of findings 0, 1, 2 and a clean one (vol.go)
		//   shard 3: the production EC read entry points on a real volume (ecread.go)
		// and every shard has random decode + mount cases; the later shards sometimes one more
		// production-size rebuild / EC read (thorough: always).
		if (shardNo == 1 && i <= 1) || (shardNo > 3 && i == 0 && (b.thorough || r.Chance(1, 4))) {
			lost := []int{r.Intn(10), 10 + r.Intn(4)}
			if i == 1 {
				lost = b.allSub[r.Intn(len(b.allSub))]
				for len(lost) < 4 {
					lost = b.allSub[r.Intn(len(b.allSub))]
				}
			}
			b.bigRebuild(r, lost)
			b.runCase(r, params{40, 10, 10}, 0, "big-rebuild", 0, nil, false)
			continue
		}
		if shardNo == 2 && i < 4 {
			if volWit == nil {
				volWit = volWitnesses(filepath.Join(dir, "volw"))
			}
			b.volCase(r, volWit[i])
			continue
		}
		if (shardNo == 3 && i == 0) || (shardNo > 3 && i == 1 && (b.thorough || r.Chance(1, 4))) {
			b.ecRead(r)
			b.runCase(r, params{40, 10, 10}, 0, "ec-read", 0, nil, false)
			continue
		}
		if i == 5 || (i == 8 && shardNo%2 == 1) {
			b.caseSeq++
			b.volCase(r, volRandom(r, filepath.Join(dir, fmt.Sprintf("vol%d", b.caseSeq))))
			continue
		}
		// choose the size
		var sp sizeSpec
		switch {
		case b.thorough && i%2 == 0:
			sp = sizes[(shardNo*out.N/2+i/2)%len(sizes)]
		case r.Chance(1, 12):
			p := extra[r.Intn(len(extra))]
			es := allSizes([]params{p})
			sp = es[r.Intn(len(es))]
		case r.Chance(1, 2):
			// on or next to a multiple of the small row
			p := std[r.Intn(len(std))]
			k := r.Range(0, 3)
			d := k*int(p.L)*10 + r.Range(-2, 2)*int(p.S)*10 + r.Range(-1, 1)
			if d < 0 {
				d = 0
			}
			sp = sizeSpec{p, d}
		default:
			sp = sizes[r.Intn(len(sizes))]
		}
		if i%4 == 3 {
			// rebuild case
			var subs [][]int
			nsub := 10
			if !b.thorough {
				nsub = 7
			}
			if b.thorough {
				start := (shardNo*out.N/4 + i/4) * nsub
				for j := 0; j < nsub; j++ {
					subs = append(subs, b.allSub[(start+j)%len(b.allSub)])
				}
			} else {
				for j := 0; j < nsub; j++ {
					subs = append(subs, b.allSub[r.Intn(len(b.allSub))])
				}
			}
			if r.Chance(1, 4) {
				// too many lost: the error path
				five := []int{}
				for len(five) < 5 {
					x := r.Intn(ec.TotalShardsCount)
					dup := false
					for _, y := range five {
						dup = dup || x == y
					}
					if !dup {
						five = append(five, x)
					}
				}
				subs = append(subs, five)
			}
			// keep rebuild cases small: at most one large row of L=40 or the L=100 sizes below 1300
			if sp.D > 1300 {
				sp.D = sp.D % 1300
			}
			b.runCase(r, sp.p, sp.D, "rebuild", 4, subs, false)
		} else {
			b.runCase(r, sp.p, sp.D, "layout", 22, nil, true)
		}
	}
	out.Write()
}
