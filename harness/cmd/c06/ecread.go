// C06, the production entry points of the EC read path (audit item 2): a real volume
// (storage.Store) gets a few needles, some of them placed across the 1 MiB small-block
// boundaries, is erasure coded with the REAL WriteEcFiles / WriteSortedFileFromIdx
// (production block sizes), the .dat/.idx are removed, a new Store loads the 14 local
// shards, and every key is located with EcVolume.LocateEcShardNeedle and read with
// Store.ReadEcShardNeedle (readEcShardIntervals -> readOneEcShardInterval -> shard.ReadAt).
package main

import (
	"fmt"
	"os"
	"path/filepath"
	"time"

	"github.com/chrislusf/seaweedfs/weed/storage"
	ec "github.com/chrislusf/seaweedfs/weed/storage/erasure_coding"
	"github.com/chrislusf/seaweedfs/weed/storage/needle"
	"github.com/chrislusf/seaweedfs/weed/storage/types"
	"github.com/chrislusf/seaweedfs/weed/util"
	"verifharness/hx"
)

const erCookie = 0x1234

func erNewStore(dir string) *storage.Store {
	s := storage.NewStore(nil, 0, "localhost", "localhost", []string{dir}, []int{10},
		[]util.MinFreeSpace{{Type: util.AsPercent, Percent: 0}}, "", storage.NeedleMapInMemory, []types.DiskType{types.HardDriveType})
	go func() {
		for range s.NewVolumesChan {
		}
	}()
	go func() {
		for range s.DeletedVolumesChan {
		}
	}()
	go func() {
		for range s.NewEcShardsChan {
		}
	}()
	go func() {
		for range s.DeletedEcShardsChan {
		}
	}()
	return s
}

// data of a needle: length n, content a function of (tag, position)
func erData(tag uint64, n int) []byte {
	b := make([]byte, n)
	for i := range b {
		b[i] = mixByte(tag, uint64(i))
	}
	return b
}

// what is shipped of a payload: its length and (at most) its first and last 24 bytes
func erSample(d []byte) (int64, string) {
	if len(d) <= 48 {
		return int64(len(d)), byteList(d)
	}
	s := append(append([]byte{}, d[:24]...), d[len(d)-24:]...)
	return int64(len(d)), byteList(s)
}

func erEqual(a, b []byte) bool {
	if len(a) != len(b) {
		return false
	}
	for i := range a {
		if a[i] != b[i] {
			return false
		}
	}
	return true
}

// read classes: 0 ok, 1 not readable (deleted / not found / any error)
func (b *builder) ecRead(r *hx.Rng) {
	b.caseSeq++
	cdir := filepath.Join(b.dir, fmt.Sprintf("er%d", b.caseSeq))
	hx.Must(os.MkdirAll(cdir, 0o755))
	defer os.RemoveAll(cdir)
	const MiB = 1 << 20
	nKeys := 8
	s := erNewStore(cdir)
	hx.Must(s.AddVolume(1, "", storage.NeedleMapInMemory, "000", "", 0, 0, types.HardDriveType))
	datLen := func() int64 {
		st, err := os.Stat(filepath.Join(cdir, "1.dat"))
		hx.Must(err)
		return st.Size()
	}
	tag := uint64(0)
	write := func(id uint64, n int) {
		tag++
		nd := &needle.Needle{Id: types.NeedleId(id), Cookie: erCookie, Data: erData(r.Next()%1000000+tag, n)}
		nd.Checksum = needle.NewCRC(nd.Data)
		_, err := s.WriteVolumeNeedle(1, nd, false)
		hx.Must(err)
	}
	del := func(id uint64) {
		nd := &needle.Needle{Id: types.NeedleId(id), Cookie: erCookie}
		_, err := s.DeleteVolumeNeedle(1, nd)
		hx.Must(err)
	}
	// a few small needles, then for every small-block boundary k MiB (k = 1..nb) a filler that
	// ends shortly before it and a needle that straddles it; overwrites and deletes in between
	nb := r.Range(1, 3)
	write(1, r.Range(1, 60))
	write(2, r.Range(1, 3000))
	straddlers := 0
	for k := 1; k <= nb; k++ {
		gap := int64(k)*MiB - datLen()
		fill := int(gap) - 64 - r.Range(0, 40)
		if fill > 0 {
			write(uint64(2+k), fill) // keys 3..5: the fillers (about 1 MiB each)
		}
		before := datLen()
		write(uint64(5+k), r.Range(60, 400)) // keys 6..8
		if before < int64(k)*MiB && datLen() > int64(k)*MiB {
			straddlers++
		}
	}
	if r.Chance(1, 2) {
		write(1, r.Range(1, 200)) // overwrite of the smallest key: its record is now the last one
	}
	if r.Chance(1, 2) {
		del(2)
	}
	if r.Chance(1, 3) {
		write(6, r.Range(1, 100))
	}
	b.out.Count(fmt.Sprintf("ecread-straddling-needles:%d", straddlers), 1)
	// twin reads
	type res struct {
		class int64
		data  []byte
	}
	twin := make([]res, nKeys+1)
	for id := 1; id <= nKeys; id++ {
		nd := &needle.Needle{Id: types.NeedleId(id), Cookie: erCookie}
		_, err := s.ReadVolumeNeedle(1, nd, nil)
		if err != nil {
			twin[id] = res{1, nil}
		} else {
			twin[id] = res{0, append([]byte{}, nd.Data...)}
		}
	}
	s.Close()
	base := filepath.Join(cdir, "1")
	datSize := datLen()
	genErr := ec.WriteEcFiles(base)
	idxErr := ec.WriteSortedFileFromIdx(base, ".ecx")
	os.Remove(base + ".dat")
	os.Remove(base + ".idx")
	lens := make([]int64, ec.TotalShardsCount)
	for i := range lens {
		st, err := os.Stat(base + ec.ToExt(i))
		hx.Must(err)
		lens[i] = st.Size()
	}

	s2 := erNewStore(cdir)
	ev, found := s2.FindEcVolume(1)
	var reads []string
	if found {
		// all 14 shards are local: no master lookup (cachedLookupEcShardLocations: "still fresh")
		ev.ShardLocationsRefreshTime = time.Now()
		for id := 1; id <= nKeys; id++ {
			off, size, ivs, lerr := ev.LocateEcShardNeedle(types.NeedleId(id), ev.Version)
			nd := &needle.Needle{Id: types.NeedleId(id), Cookie: erCookie}
			_, rerr := s2.ReadEcShardNeedle(1, nd)
			class := int64(0)
			if rerr != nil {
				class = 1
			}
			n1, d1 := erSample(nd.Data)
			n2, d2 := erSample(twin[id].data)
			same := class == twin[id].class && (class != 0 || erEqual(nd.Data, twin[id].data))
			if !same {
				b.out.Count("ecread-WRONG", 1)
			}
			reads = append(reads, fmt.Sprintf("{| e_key := %s; e_found := %s; e_off := %s; e_size := %s; e_ivs := %s; e_res := %s; e_len := %s; e_data := %s; e_twin_res := %s; e_twin_len := %s; e_twin_data := %s; e_whole_equal := %s |}",
				hx.Z(int64(id)), hx.Bool(lerr == nil), hx.Z(off.ToActualOffset()), hx.Z(int64(size)), coqIntervals(ivs), hx.Z(class), hx.Z(n1), d1,
				hx.Z(twin[id].class), hx.Z(n2), d2, hx.Bool(erEqual(nd.Data, twin[id].data))))
			b.out.Count(fmt.Sprintf("ecread-intervals:%d", min(len(ivs), 3)), 1)
		}
		s2.Close()
	}
	term := fmt.Sprintf("{| er_large := %s; er_small := %s; er_dat_size := %s; er_gen_ok := %s; er_lens := %s; er_mounted := %s; er_reads := %s |}",
		hx.Z(ec.ErasureCodingLargeBlockSize), hx.Z(ec.ErasureCodingSmallBlockSize), hx.Z(datSize), hx.Bool(genErr == nil && idxErr == nil), hx.ZList(lens), hx.Bool(found), hx.List(reads))
	b.pendingEcRead = append(b.pendingEcRead, term)
	b.pendingNontrivial = b.pendingNontrivial || found
	b.pendingCanon = append(b.pendingCanon, fmt.Sprintf("ecread D%d nb%d", datSize, nb))
}
