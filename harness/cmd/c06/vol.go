// C06, decode + mount (audit item 1): a real volume (storage.Store, NeedleMapInMemory) gets a
// small history of writes and deletes, is erasure coded (the encoder with scaled block sizes
// 40/10 through the verif hook, the real WriteSortedFileFromIdx), decoded as ec.decode does
// (real FindDatFileSize, the WriteDatFile transcription with the same sizes, real
// WriteIdxFileFromEcIndex) and mounted by a new Store; every key is read before the encoding
// and after the mount.
package main

import (
	"bytes"
	"fmt"
	"io/ioutil"
	"os"
	"path/filepath"
	"strings"

	"github.com/chrislusf/seaweedfs/weed/storage"
	ec "github.com/chrislusf/seaweedfs/weed/storage/erasure_coding"
	"github.com/chrislusf/seaweedfs/weed/storage/needle"
	"github.com/chrislusf/seaweedfs/weed/storage/types"
	"github.com/chrislusf/seaweedfs/weed/util"
	"verifharness/hx"
)

type extraCase struct {
	term, canon, kind string
	nontrivial        bool
}

const (
	volLarge  = 40
	volSmall  = 10
	volBuf    = 10
	volCookie = 7
)

var volKeys = []uint64{1, 2, 3, 4}

type volOp struct {
	del  bool
	key  uint64
	data []byte
}

func volPat(tag, n int) []byte {
	b := make([]byte, n)
	for i := range b {
		b[i] = byte((tag*131 + i*7 + 1) % 256)
	}
	return b
}

func volNewStore(dir string) *storage.Store {
	s := storage.NewStore(nil, 0, "localhost", "localhost", []string{dir}, []int{10},
		[]util.MinFreeSpace{{Type: util.AsPercent, Percent: 0}}, "", storage.NeedleMapInMemory, []types.DiskType{types.HardDriveType})
	go func() {
		for range s.NewVolumesChan {
		}
	}()
	go func() {
		for range s.DeletedVolumesChan {
		}
	}()
	go func() {
		for range s.NewEcShardsChan {
		}
	}()
	go func() {
		for range s.DeletedEcShardsChan {
		}
	}()
	return s
}

func volErrClass(err error) string {
	switch {
	case err == nil:
		return "ENone"
	case err == storage.ErrorNotFound:
		return "ENotFound"
	case err == storage.ErrorDeleted:
		return "EDeleted"
	case strings.Contains(err.Error(), "mismatching cookie"):
		return "ECookie"
	case strings.Contains(err.Error(), "is read only"):
		return "EReadOnly"
	}
	return "EOther"
}

// one read as a Coq term of type vrd; live = a non-empty blob came back
func volRead(s *storage.Store, id uint64) (term string, live bool) {
	n := &needle.Needle{Id: types.NeedleId(id)}
	count, err := s.ReadVolumeNeedle(1, n, nil)
	if err != nil {
		return fmt.Sprintf("vno %s %s", volErrClass(err), hx.Z(int64(count))), false
	}
	if len(n.Name) != 0 || len(n.Mime) != 0 || n.LastModified != 0 || (n.Ttl != nil && (n.Ttl.Count != 0 || n.Ttl.Unit != 0)) {
		panic("c06 vol: a field the harness never writes came back")
	}
	return fmt.Sprintf("vok %s %d %d %s %d", hx.Z(int64(count)), uint32(n.Cookie), int32(n.Size), hx.Bytes(n.Data), n.Flags), len(n.Data) > 0
}

func volReadAll(s *storage.Store) (terms []string, anyLive bool) {
	for _, k := range volKeys {
		t, l := volRead(s, k)
		terms = append(terms, t)
		anyLive = anyLive || l
	}
	return
}

func fileSize(p string) uint64 {
	st, err := os.Stat(p)
	if err != nil {
		return 0
	}
	return uint64(st.Size())
}

// the production-constant path: real WriteEcFiles + WriteSortedFileFromIdx + FindDatFileSize +
// WriteDatFile on a copy of the volume files; returns the decoded .dat
func volProdDecode(dir string, dat, idx []byte) []byte {
	hx.Must(os.MkdirAll(dir, 0o755))
	base := filepath.Join(dir, "1")
	hx.Must(ioutil.WriteFile(base+".dat", dat, 0o644))
	hx.Must(ioutil.WriteFile(base+".idx", idx, 0o644))
	hx.Must(ec.WriteEcFiles(base))
	hx.Must(ec.WriteSortedFileFromIdx(base, ".ecx"))
	os.Remove(base + ".dat")
	os.Remove(base + ".idx")
	sz, err := ec.FindDatFileSize(base, base)
	hx.Must(err)
	hx.Must(ec.WriteDatFile(base, sz))
	got, err := ioutil.ReadFile(base + ".dat")
	hx.Must(err)
	hx.Must(os.RemoveAll(dir))
	return got
}

// volRun executes one history and returns the case.
func volRun(dir string, kind string, ops []volOp, prodToo bool) extraCase {
	hx.Must(os.MkdirAll(dir, 0o755))
	s := volNewStore(dir)
	hx.Must(s.AddVolume(1, "", storage.NeedleMapInMemory, "000", "", 0, 0, types.HardDriveType))
	var evs, canon []string
	for i, o := range ops {
		if o.del {
			n := &needle.Needle{Id: types.NeedleId(o.key), Cookie: volCookie}
			_, err := s.DeleteVolumeNeedle(1, n)
			hx.Must(err)
			evs = append(evs, fmt.Sprintf("vD %d %d %d", i+1, o.key, volCookie))
			canon = append(canon, fmt.Sprintf("D%d", o.key))
		} else {
			n := &needle.Needle{Id: types.NeedleId(o.key), Cookie: volCookie, Data: o.data}
			n.Ttl = needle.EMPTY_TTL
			n.Checksum = needle.NewCRC(n.Data)
			_, err := s.WriteVolumeNeedle(1, n, false)
			hx.Must(err)
			evs = append(evs, fmt.Sprintf("vW %d %d %d %s", i+1, o.key, volCookie, hx.Bytes(o.data)))
			canon = append(canon, fmt.Sprintf("W%d.%d.%x", o.key, len(o.data), o.data[0]))
		}
	}
	before, anyLive := volReadAll(s)
	s.Close()

	base := filepath.Join(dir, "1")
	orig, err := ioutil.ReadFile(base + ".dat")
	hx.Must(err)
	idxBytes, err := ioutil.ReadFile(base + ".idx")
	hx.Must(err)

	// ec.encode (scaled block sizes), then what VolumeEcShardsToVolume does
	hx.Must(ec.VerifGenerateEcFiles(base, volBuf, volLarge, volSmall))
	hx.Must(ec.WriteSortedFileFromIdx(base, ".ecx"))
	os.Remove(base + ".dat")
	os.Remove(base + ".idx")
	os.Remove(base + ".vif")
	datSize, err := ec.FindDatFileSize(base, base)
	hx.Must(err)
	hx.Must(ec.VerifWriteDatFileSized(base, datSize, volLarge, volSmall))
	hx.Must(ec.WriteIdxFileFromEcIndex(base))
	for i := 0; i < ec.TotalShardsCount; i++ {
		os.Remove(base + ec.ToExt(i))
	}
	os.Remove(base + ".ecx")
	os.Remove(base + ".ecj")
	decoded, err := ioutil.ReadFile(base + ".dat")
	hx.Must(err)

	if prodToo {
		got := volProdDecode(dir+"-prod", orig, idxBytes)
		if !bytes.Equal(got, decoded) {
			panic("c06 vol: the production-constant decode differs from the scaled one")
		}
	}

	// mount
	s2 := volNewStore(dir)
	loaded := s2.GetVolume(1) != nil
	endAfter := fileSize(base + ".dat")
	var after []string
	if loaded {
		after, _ = volReadAll(s2)
	} else {
		for range volKeys {
			after = append(after, "vno EOther 0")
		}
	}
	s2.Close()
	hx.Must(os.RemoveAll(dir))

	term := fmt.Sprintf("{| vo_L := %d; vo_S := %d; vo_buf := %d; vo_hist := %s; vo_keys := %s; vo_orig := %s; vo_dsz := %d; vo_dec := %s; vo_loaded := %s; vo_end := %d; vo_before := %s; vo_after := %s |}",
		volLarge, volSmall, volBuf, hx.List(evs), hx.NList(volKeys), byteList(orig), datSize, byteList(decoded),
		hx.Bool(loaded), endAfter, hx.List(before), hx.List(after))
	return extraCase{term: term, canon: "vol:" + strings.Join(canon, ";"), kind: kind, nontrivial: anyLive}
}

func vw(key uint64, data []byte) volOp { return volOp{key: key, data: data} }
func vd(key uint64) volOp              { return volOp{del: true, key: key} }

// volWitnesses: the fixed witnesses of findings 0, 1, 2 and one clean case (seed independent).
func volWitnesses(dir string) []extraCase {
	return []extraCase{
		// 0: the key-sorted .idx makes the mount truncate the .dat (audit item 1)
		volRun(filepath.Join(dir, "vw0"), "vol-witness-sorted-idx", []volOp{vw(1, []byte("aaa")), vw(2, []byte("bbb")), vw(1, []byte("cccc"))}, true),
		// 1: nothing live: FindDatFileSize = 0, no super block, not mountable
		volRun(filepath.Join(dir, "vw1"), "vol-witness-no-live", []volOp{vw(1, []byte("aaa")), vd(1)}, false),
		// 2: the live part ends in an earlier large row than the encoded .dat
		volRun(filepath.Join(dir, "vw2"), "vol-witness-fewer-rows", []volOp{vw(1, volPat(1, 300)), vw(2, volPat(2, 70)), vd(2)}, false),
		// clean: the largest key is overwritten last
		volRun(filepath.Join(dir, "vw3"), "vol-clean", []volOp{vw(1, []byte("aaa")), vw(2, []byte("bbb")), vd(1), vw(2, []byte("cccc"))}, false),
	}
}

// volRandom: 3..10 operations over keys 1..4 (writes of 1..60 bytes of distinct content,
// overwrites, deletes, keys in any order); a third of the cases end with a rewrite of the
// largest live key (then finding 0 cannot trigger), the others are free: about half of all
// cases fall under finding 0.
func volRandom(r *hx.Rng, dir string) extraCase {
	n := r.Range(3, 10)
	var ops []volOp
	written := map[uint64]bool{}
	for i := 0; i < n; i++ {
		k := volKeys[r.Intn(len(volKeys))]
		if written[k] && r.Chance(1, 4) {
			ops = append(ops, vd(k))
			continue
		}
		ops = append(ops, vw(k, volPat(i*17+r.Intn(1000), r.Range(1, 60))))
		written[k] = true
	}
	if r.Chance(1, 3) {
		// rewrite the largest key that is still live, last
		live := map[uint64]bool{}
		for _, o := range ops {
			live[o.key] = !o.del
		}
		for k := uint64(4); k >= 1; k-- {
			if live[k] {
				ops = append(ops, vw(k, volPat(999+int(k), r.Range(1, 60))))
				break
			}
		}
	}
	return volRun(filepath.Join(dir, fmt.Sprintf("vr%d", r.Next()%1000000007)), "vol-random", ops, false)
}
