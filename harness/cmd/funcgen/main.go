// funcgen: prints coq/gen/Funcs.v — Gallina definitions translated from the Go source
// text of a list of small pure functions of the CURRENT tree ($VERIF_REPO, default
// /repo).  Translator tie for function bodies (DESIGN.md section 3.1); the theorems
// in coq/props/FuncsTie.v state that every generated definition equals the
// hand-written model function.  Built with -tags verif like constgen; imports the
// repo packages only to EVALUATE package constants (consts.go).
//
//	funcgen [--tags "t1 t2"] [--only Name,Name] [--list]
//
// Fail closed: a construct outside the subset, an unknown identifier/type, a missing
// function => message "funcgen: <function>: <file:line:col>: <reason>" and exit 1.
package main

import (
	"flag"
	"fmt"
	"os"
	"sort"
	"strings"
)

// spec lists the functions to translate, in emission order.
type spec struct {
	dir  string // package directory relative to the repo root
	name string // "Func" or "Type.Method"
	coq  string // Coq name ("" = name with . replaced by _)
}

var specs = []spec{
	{"weed/storage/needle", "PaddingLength", ""},
	{"weed/storage/needle", "NeedleBodyLength", ""},
	{"weed/storage/needle", "GetActualSize", ""},
	{"weed/storage/types", "Size.IsDeleted", ""},
	{"weed/storage/types", "Size.IsValid", ""},
	{"weed/storage/erasure_coding", "locateOffsetWithinBlocks", ""},
	{"weed/storage/erasure_coding", "locateOffset", ""},
	{"weed/storage/erasure_coding", "Interval.ToShardIdAndOffset", ""},
	{"weed/storage/erasure_coding", "LocateData", ""},
	{"weed/storage/needle", "TTL.Minutes", ""},
	{"weed/storage/needle", "TTL.ToUint32", ""},
	{"weed/storage/needle", "toStoredByte", ""},
	{"weed/storage/needle", "SecondsToTTL", ""},
	{"weed/storage/super_block", "ReplicaPlacement.Byte", ""},
	{"weed/storage/super_block", "ReplicaPlacement.GetCopyCount", ""},
	{"weed/storage/needle", "CRC.Value", ""},
	{"weed/topology", "DiskUsageCounts.FreeSpace", ""},
	{"weed/operation", "StorageOption.TtlString", ""},
	{"weed/storage/types", "ToOffset", ""},
	{"weed/storage/types", "Offset.ToActualOffset", ""},
	{"weed/storage/types", "Offset.IsZero", ""},
	{"weed/storage/types", "BytesToOffset", ""},
	{"weed/storage/erasure_coding", "ShardBits.AddShardId", ""},
	{"weed/storage/erasure_coding", "ShardBits.RemoveShardId", ""},
	{"weed/storage/erasure_coding", "ShardBits.HasShardId", ""},
	{"weed/storage/erasure_coding", "ShardBits.Minus", ""},
	{"weed/storage/erasure_coding", "ShardBits.Plus", ""},
	{"weed/storage/erasure_coding", "ShardBits.ShardIdCount", ""},
	{"weed/storage/erasure_coding", "ShardBits.ShardIds", ""},
	{"weed/util", "BytesToUint64", ""},
	{"weed/util", "BytesToUint32", ""},
	{"weed/util", "BytesToUint16", ""},
	{"weed/storage/types", "BytesToSize", ""},
	{"weed/storage/types", "BytesToNeedleId", ""},
	{"weed/storage/types", "BytesToCookie", ""},
}

// specs5: the offset-width dependent functions, translated a second time from the files selected by
// the build tag 5BytesOffset (binary built with -tags "verif 5BytesOffset"; output gen/Funcs5.v)
var specs5 = []spec{
	{"weed/storage/types", "ToOffset", ""},
	{"weed/storage/types", "Offset.ToActualOffset", ""},
	{"weed/storage/types", "Offset.IsZero", ""},
	{"weed/storage/types", "BytesToOffset", ""},
}

// widthConsts: constants that depend on the offset width, printed into both files
var widthConsts = []string{"types.OffsetSize", "types.NeedleMapEntrySize", "types.MaxPossibleVolumeSize"}

// lits lists the anonymous literals to extract (lits.go), in emission order.
var lits = []litSpec{
	{dir: "weed/storage", fn: "CheckAndFixVolumeDataIntegrity", coq: "CheckAndFix_window", pattern: "i <= _"},
	{dir: "weed/storage/needle_map", fn: "CompactSection.Set", coq: "CompactSection_Set_lookback", pattern: "lookBackIndex := cs.counter - _"},
	{dir: "weed/storage/needle_map", coq: "needle_map_batch", pattern: "batch"},
	{dir: "weed/storage/erasure_coding", fn: "WriteEcFiles", coq: "WriteEcFiles_bufferSize", pattern: "generateEcFiles(baseFileName, _, __, __)"},
	{dir: "weed/storage/erasure_coding", fn: "RebuildEcFiles", coq: "RebuildEcFiles_bufferSize", pattern: "generateMissingEcFiles(baseFileName, _, __, __)"},
	{dir: "weed/storage", fn: "Volume.startWorker", coq: "startWorker_maxBytes", pattern: "currentBytesToWrite >= _"},
	{dir: "weed/storage", fn: "Volume.startWorker", coq: "startWorker_maxRequests", pattern: "len(currentRequests) >= _"},
	{dir: "weed/storage", fn: "NewVolume", coq: "NewVolume_chanCapacity", pattern: "make(chan *needle.AsyncRequest, _)"},
	{dir: "weed/storage/super_block", fn: "SuperBlock.Bytes", coq: "SuperBlock_Bytes_extraMax", pattern: "extraSize > _"},
	{dir: "weed/server", fn: "FilerServer.moveFolderSubEntries", coq: "moveFolderSubEntries_pageSize", pattern: "fs.filer.ListDirectoryEntries(__, __, __, __, _, __, __, __)"},
	{dir: "weed/util/log_buffer", coq: "log_buffer_BufferSize", pattern: "BufferSize"},
	{dir: "weed/util/log_buffer", coq: "log_buffer_PreviousBufferCount", pattern: "PreviousBufferCount"},
	{dir: "weed/util/log_buffer", fn: "NewLogBuffer", coq: "NewLogBuffer_flushChanCapacity", pattern: "make(chan *dataToFlush, _)"},
	{dir: "weed/topology", fn: "Topology.batchVacuumVolumeCheck", coq: "batchVacuumVolumeCheck_cmp", pattern: "resp.GarbageRatio == garbageThreshold", kind: "op"},
	{dir: "weed/topology", fn: "Topology.batchVacuumVolumeCheck", coq: "batchVacuumVolumeCheck_timeoutDivisor", pattern: "t.volumeSizeLimit/1024/1024/_ + 1"},
	{dir: "weed/topology", fn: "Topology.batchVacuumVolumeCompact", coq: "batchVacuumVolumeCompact_timeoutFactor", pattern: "_ * time.Minute * __"},
	{dir: "weed/topology", fn: "NodeImpl.CollectDeadNodeAndFullVolumes", coq: "CollectFull_cmp", pattern: "v.Size == volumeSizeLimit", kind: "op"},
	{dir: "weed/topology", fn: "NodeImpl.CollectDeadNodeAndFullVolumes", coq: "CollectCrowded_cmp", pattern: "float64(v.Size) == float64(volumeSizeLimit)*growThreshold", kind: "op"},
	{dir: "weed/topology", fn: "VolumeLayout.isOversized", coq: "isOversized_cmp", pattern: "uint64(v.Size) == vl.volumeSizeLimit", kind: "op"},
	{dir: "weed/filer", fn: "ViewFromVisibleIntervals", coq: "ViewFromVisibleIntervals_toEnd", pattern: "size == _"},
	{dir: "weed/filer", fn: "ViewFromChunks", coq: "ViewFromChunks_stop", pattern: "stop = _"},
	{dir: "weed/s3api", fn: "S3ApiServer.genUploadsFolder", coq: "genUploadsFolder_format", pattern: "fmt.Sprintf(_, __, __)", kind: "string"},
	{dir: "weed/command", fn: "S3Options.startS3Server", coq: "startS3Server_bucketsPath", pattern: "filerBucketsPath := _", kind: "string"},
	{dir: "weed/storage/needle", fn: "ParseNeedleIdCookie", coq: "ParseNeedleIdCookie_minLen", pattern: "len(key_hash_string) <= _"},
	{dir: "weed/storage/needle", fn: "ParseNeedleIdCookie", coq: "ParseNeedleIdCookie_maxLen", pattern: "len(key_hash_string) > _"},
	{dir: "weed/storage/needle", fn: "ParseNeedleIdCookie", coq: "ParseNeedleIdCookie_cookieLen", pattern: "len(key_hash_string) - _"},
}

const header = `(* GENERATED by harness/cmd/funcgen from the Go source text of the tree on every run. Do not edit.
   Integers are Z; after every operation that can leave the range of the static Go type the
   result is wrapped (GoInt.wrap_s / wrap_u); / and %% are Z.quot / Z.rem; a division by a
   non-constant divisor, a loop (fuel) or a call of such a function makes the result an option
   (None = run-time panic or fuel exhausted).  Value-preserving conversions (every value of the
   source type is a value of the target type) are the identity.  Pointer parameters p are a pair
   (p_nil : bool) (p : Record); dereferencing nil is not modelled.  Strings exist only as ""
   = (0,0) and fmt.Sprintf("%%d<c>", e) = (e, code of c).  Slices are lists: b[i], b[lo:hi] out of
   range are panics (None), len is the list length, append adds one element.
   Last sections: constants that depend on the offset width, and the anonymous literals selected
   by structural patterns (lits.go; a pattern must match exactly once, else funcgen fails). *)
From Coq Require Import ZArith List Bool String.
From SW Require Import base.GoInt.
Local Open Scope Z_scope.
Local Open Scope bool_scope.
`

func main() {
	tags := flag.String("tags", "", "extra build tags (space separated) selecting the source files to read")
	only := flag.String("only", "", "comma separated subset of the function list")
	list := flag.Bool("list", false, "print the function list and exit")
	probe := flag.String("probe", "", "package directory: try every function of it and report which are inside the subset (no output file)")
	flag.Parse()
	repo := os.Getenv("VERIF_REPO")
	if repo == "" {
		repo = "/repo"
	}
	if *list {
		for _, s := range specs {
			fmt.Printf("%s %s\n", s.dir, s.name)
		}
		return
	}
	tagList := append(strings.Fields(*tags), builtTags...)
	if *probe != "" {
		l := newLoader(repo, tagList)
		p, err := l.load(*probe)
		if err != nil {
			fmt.Fprintln(os.Stderr, err)
			os.Exit(1)
		}
		keys := []string{}
		for k := range p.funcs {
			keys = append(keys, k)
		}
		sort.Strings(keys)
		for _, k := range keys {
			t := &tr{l: l, consts: constTable(), done: map[string]*fnOut{}, busy: map[string]bool{}, coqUsed: map[string]string{}, structs: map[string]*structInfo{}}
			if err := one(t, spec{*probe, k, ""}); err != nil {
				fmt.Printf("--   %s: %v\n", k, err)
			} else {
				fmt.Printf("OK   %s\n", k)
			}
		}
		return
	}
	l := newLoader(repo, tagList)
	t := &tr{l: l, consts: constTable(), done: map[string]*fnOut{}, busy: map[string]bool{}, coqUsed: map[string]string{}, structs: map[string]*structInfo{}}
	want := map[string]bool{}
	for _, n := range strings.Split(*only, ",") {
		if n != "" {
			want[n] = true
		}
	}
	five := false
	for _, tg := range tagList {
		if tg == "5BytesOffset" {
			five = true
		}
	}
	useSpecs := specs
	if five {
		useSpecs = specs5
	}
	for _, s := range useSpecs {
		if len(want) > 0 && !want[s.name] {
			continue
		}
		if err := one(t, s); err != nil {
			fmt.Fprintf(os.Stderr, "funcgen: %s.%s: %v\n", s.dir, s.name, err)
			os.Exit(1)
		}
	}
	litDefs := []string{}
	if len(want) == 0 {
		litDefs = append(litDefs, "\n(* ---------- constants that depend on the offset width (evaluated by importing the packages) ---------- *)\n")
		for _, n := range widthConsts {
			cv, ok := t.consts[n]
			if !ok {
				fmt.Fprintf(os.Stderr, "funcgen: constant %s is not in the constant table\n", n)
				os.Exit(1)
			}
			litDefs = append(litDefs, fmt.Sprintf("Definition Const_%s : Z := %s.", n[strings.Index(n, ".")+1:], zlit(cv.val)))
		}
	}
	if len(want) == 0 && !five {
		litDefs = append(litDefs, "\n(* ---------- anonymous literals and unexported constants (harness/cmd/funcgen/lits.go) ---------- *)\n")
		for _, ls := range lits {
			d, err := t.lit(ls)
			if err != nil {
				fmt.Fprintf(os.Stderr, "funcgen: literal %s (%s %s): %v\n", ls.coq, ls.dir, ls.fn, err)
				os.Exit(1)
			}
			litDefs = append(litDefs, d)
		}
	}
	fmt.Printf(header)
	fmt.Printf("(* source files read with build tags: %q *)\n\n", strings.Join(tagList, " "))
	for _, r := range t.recs {
		fmt.Println(r)
	}
	for _, d := range t.defs {
		fmt.Println(d)
	}
	fmt.Printf("(* translated: %s *)\n", strings.Join(t.names, " "))
	for _, d := range litDefs {
		fmt.Println(d)
	}
}

func one(t *tr, s spec) (err error) {
	defer func() {
		if r := recover(); r != nil {
			if f, ok := r.(failure); ok {
				err = fmt.Errorf("%s: %s", t.l.pos(f.pos), f.msg)
				return
			}
			panic(r)
		}
	}()
	p, e := t.l.load(s.dir)
	if e != nil {
		return e
	}
	fi, ok := p.funcs[s.name]
	if !ok {
		return fmt.Errorf("function not found in %s (removed or renamed?)", s.dir)
	}
	t.translate(fi, s.coq)
	return nil
}
