package main

// Anonymous-literal ties ("lits"): constants that exist only as literals inside Go
// function bodies (constgen cannot import them).  ONE selection scheme: a Go
// expression/assignment PATTERN matched structurally (go/ast) against every node of
// the named function's body:
//
//	_    the hole: matches any expression and captures it (exactly one per pattern)
//	__   wildcard: matches any expression or type, not captured
//	everything else must match node for node (identifiers, selectors, operators,
//	literals, call shapes); parentheses are ignored on both sides.
//
// The pattern must match exactly `count` nodes of the body (default 1; `index` picks
// one when count > 1); otherwise funcgen fails closed.  The captured expression must
// be a compile-time constant: it is folded exactly (literals, the constant table of
// consts.go, + - * / % << >> & | ^, conversions) or, for kind "string", be a string
// literal.  Kind "op": the pattern is a comparison whose OPERATOR is the hole
// (written with any comparison operator); the emitted value is the operator's code
// (0 ==, 1 !=, 2 <, 3 <=, 4 >, 5 >=).  fn == "": a package-level constant by name,
// evaluated from the source text of its declaration (unexported constants included).

import (
	"fmt"
	"go/ast"
	"go/parser"
	"go/token"
	"strconv"
	"strings"
)

type litSpec struct {
	dir     string
	fn      string // "" = package-level const `pattern`
	coq     string // Coq name (without the Lit_ prefix)
	pattern string
	kind    string // "int" (default), "string", "op"
	count   int    // expected number of matching nodes (0 = 1)
	index   int    // which match (source order), 0-based
}

var opCodes = map[token.Token]int{token.EQL: 0, token.NEQ: 1, token.LSS: 2, token.LEQ: 3, token.GTR: 4, token.GEQ: 5}

type matcher struct {
	captured ast.Expr
	opHole   bool
	op       token.Token
}

func stripParens(e ast.Expr) ast.Expr {
	for {
		p, ok := e.(*ast.ParenExpr)
		if !ok {
			return e
		}
		e = p.X
	}
}

func (m *matcher) exprs(ps, ns []ast.Expr) bool {
	if len(ps) != len(ns) {
		return false
	}
	for i := range ps {
		if !m.expr(ps[i], ns[i], false) {
			return false
		}
	}
	return true
}

func (m *matcher) expr(p, n ast.Expr, root bool) bool {
	if p == nil || n == nil {
		return p == nil && n == nil
	}
	p, n = stripParens(p), stripParens(n)
	if id, ok := p.(*ast.Ident); ok {
		if id.Name == "__" {
			return true
		}
		if id.Name == "_" {
			m.captured = n
			return true
		}
	}
	switch x := p.(type) {
	case *ast.Ident:
		y, ok := n.(*ast.Ident)
		return ok && x.Name == y.Name
	case *ast.BasicLit:
		y, ok := n.(*ast.BasicLit)
		return ok && x.Kind == y.Kind && x.Value == y.Value
	case *ast.SelectorExpr:
		y, ok := n.(*ast.SelectorExpr)
		return ok && x.Sel.Name == y.Sel.Name && m.expr(x.X, y.X, false)
	case *ast.BinaryExpr:
		y, ok := n.(*ast.BinaryExpr)
		if !ok {
			return false
		}
		if root && m.opHole {
			if _, isCmp := opCodes[y.Op]; !isCmp {
				return false
			}
			m.op = y.Op
		} else if x.Op != y.Op {
			return false
		}
		return m.expr(x.X, y.X, false) && m.expr(x.Y, y.Y, false)
	case *ast.UnaryExpr:
		y, ok := n.(*ast.UnaryExpr)
		return ok && x.Op == y.Op && m.expr(x.X, y.X, false)
	case *ast.StarExpr:
		y, ok := n.(*ast.StarExpr)
		return ok && m.expr(x.X, y.X, false)
	case *ast.CallExpr:
		y, ok := n.(*ast.CallExpr)
		return ok && m.expr(x.Fun, y.Fun, false) && m.exprs(x.Args, y.Args)
	case *ast.IndexExpr:
		y, ok := n.(*ast.IndexExpr)
		return ok && m.expr(x.X, y.X, false) && m.expr(x.Index, y.Index, false)
	case *ast.ChanType:
		y, ok := n.(*ast.ChanType)
		return ok && x.Dir == y.Dir && m.expr(x.Value, y.Value, false)
	case *ast.ArrayType:
		y, ok := n.(*ast.ArrayType)
		return ok && m.expr(x.Len, y.Len, false) && m.expr(x.Elt, y.Elt, false)
	}
	return false
}

func (m *matcher) stmt(p ast.Stmt, n ast.Node) bool {
	switch x := p.(type) {
	case *ast.ExprStmt:
		y, ok := n.(ast.Expr)
		return ok && m.expr(x.X, y, true)
	case *ast.AssignStmt:
		y, ok := n.(*ast.AssignStmt)
		return ok && x.Tok == y.Tok && m.exprs(x.Lhs, y.Lhs) && m.exprs(x.Rhs, y.Rhs)
	}
	return false
}

func coqString(s string) (string, bool) {
	for _, r := range s {
		if r < 32 || r > 126 {
			return "", false
		}
	}
	return "\"" + strings.ReplaceAll(s, "\"", "\"\"") + "\"%string", true
}

// lit evaluates one literal spec and returns its Coq definition.
func (t *tr) lit(s litSpec) (out string, err error) {
	defer func() {
		if r := recover(); r != nil {
			if f, ok := r.(failure); ok {
				err = fmt.Errorf("%s: %s", t.l.pos(f.pos), f.msg)
				return
			}
			panic(r)
		}
	}()
	p, e := t.l.load(s.dir)
	if e != nil {
		return "", e
	}
	name := "Lit_" + s.coq
	if s.fn == "" {
		cd, ok := p.consts[s.pattern]
		if !ok {
			return "", fmt.Errorf("package-level constant %s not found in %s", s.pattern, s.dir)
		}
		c := &fnCtx{t: t, fi: &funcInfo{file: cd.file, pkg: p}}
		v := c.expr(cd.value, &env{})
		if v.C == nil {
			return "", fmt.Errorf("%s: constant %s is not an integer constant expression of the subset", t.l.pos(cd.value.Pos()), s.pattern)
		}
		if cd.typ != nil {
			v = c.convert(v, c.typeOf(cd.typ), cd.value.Pos())
		}
		return fmt.Sprintf("(* %s: const %s *)\nDefinition %s : Z := %s.\n", t.l.pos(cd.value.Pos()), s.pattern, name, v.S), nil
	}
	fi, ok := p.funcs[s.fn]
	if !ok {
		return "", fmt.Errorf("function %s not found in %s (removed or renamed?)", s.fn, s.dir)
	}
	if fi.decl.Body == nil {
		return "", fmt.Errorf("function %s has no body", s.fn)
	}
	pf, perr := parser.ParseFile(token.NewFileSet(), "pattern.go", "package p\nfunc _() {\n"+s.pattern+"\n}\n", 0)
	if perr != nil {
		return "", fmt.Errorf("pattern %q does not parse: %v", s.pattern, perr)
	}
	body := pf.Decls[0].(*ast.FuncDecl).Body.List
	if len(body) != 1 {
		return "", fmt.Errorf("pattern %q must be one expression or assignment", s.pattern)
	}
	type hit struct {
		m   matcher
		pos token.Pos
	}
	var hits []hit
	ast.Inspect(fi.decl.Body, func(n ast.Node) bool {
		if n == nil {
			return true
		}
		if _, isParen := n.(*ast.ParenExpr); isParen {
			return true // the node inside is visited as well; do not count it twice
		}
		m := matcher{opHole: s.kind == "op"}
		if m.stmt(body[0], n) {
			hits = append(hits, hit{m, n.Pos()})
		}
		return true
	})
	want := s.count
	if want == 0 {
		want = 1
	}
	if len(hits) != want {
		where := []string{}
		for _, h := range hits {
			where = append(where, t.l.pos(h.pos))
		}
		return "", fmt.Errorf("%s: pattern `%s` matches %d places in %s, %d expected %v", t.l.pos(fi.decl.Pos()), s.pattern, len(hits), s.fn, want, where)
	}
	h := hits[s.index]
	// keep the pattern harmless inside a Coq comment
	shown := strings.NewReplacer("(*", "( *", "*)", "* )", "\"", "'").Replace(s.pattern)
	head := fmt.Sprintf("(* %s: func %s, pattern `%s` (match %d of %d) *)\n", t.l.pos(h.pos), s.fn, shown, s.index+1, want)
	switch s.kind {
	case "op":
		return head + fmt.Sprintf("Definition %s : Z := %d. (* operator %s; 0 ==, 1 !=, 2 <, 3 <=, 4 >, 5 >= *)\n", name, opCodes[h.m.op], h.m.op), nil
	case "string":
		bl, ok := stripParens(h.m.captured).(*ast.BasicLit)
		if h.m.captured == nil || !ok || bl.Kind != token.STRING {
			return "", fmt.Errorf("%s: pattern `%s`: the hole is not a string literal", t.l.pos(h.pos), s.pattern)
		}
		str, uerr := strconv.Unquote(bl.Value)
		if uerr != nil {
			return "", uerr
		}
		cs, ok := coqString(str)
		if !ok {
			return "", fmt.Errorf("%s: string literal %s is not printable ASCII", t.l.pos(h.pos), bl.Value)
		}
		return head + fmt.Sprintf("Definition %s : string := %s.\n", name, cs), nil
	}
	if h.m.captured == nil {
		return "", fmt.Errorf("pattern `%s` has no hole `_`", s.pattern)
	}
	c := &fnCtx{t: t, fi: fi}
	v := c.expr(h.m.captured, &env{})
	if v.C == nil {
		return "", fmt.Errorf("%s: pattern `%s`: the hole `%s` is not a constant expression", t.l.pos(h.pos), s.pattern, exprStr(h.m.captured))
	}
	return head + fmt.Sprintf("Definition %s : Z := %s.\n", name, v.S), nil
}
