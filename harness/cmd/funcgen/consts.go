package main

// Package constants, EVALUATED by importing the packages of the current tree (the
// binary is rebuilt against $VERIF_REPO on every run).  Whether a constant is typed
// comes from reflection: a constant whose dynamic type is plain `int` is treated as
// an untyped integer constant (for a program that compiles the two read the same).

import (
	"math"
	"math/big"
	"reflect"

	"github.com/chrislusf/seaweedfs/weed/storage/erasure_coding"
	"github.com/chrislusf/seaweedfs/weed/storage/needle"
	"github.com/chrislusf/seaweedfs/weed/storage/types"
)

func constTable() map[string]constVal {
	m := map[string]constVal{}
	k := func(name string, v interface{}) {
		rv := reflect.ValueOf(v)
		rt := rv.Type()
		var cv constVal
		switch rt.Kind() {
		case reflect.Int, reflect.Int8, reflect.Int16, reflect.Int32, reflect.Int64:
			cv.val = big.NewInt(rv.Int())
			cv.ty = &Ty{K: kInt, Bits: rt.Bits(), Signed: true}
		case reflect.Uint, reflect.Uint8, reflect.Uint16, reflect.Uint32, reflect.Uint64:
			cv.val = new(big.Int).SetUint64(rv.Uint())
			cv.ty = &Ty{K: kInt, Bits: rt.Bits()}
		case reflect.Bool:
			cv.val = big.NewInt(0)
			if rv.Bool() {
				cv.val = big.NewInt(1)
			}
			cv.ty = tyBool
		default:
			panic("funcgen: constant " + name + " of unsupported kind " + rt.Kind().String())
		}
		if rt.Kind() == reflect.Int && rt.PkgPath() == "" {
			cv.ty = nil // untyped
		} else if rt.PkgPath() != "" {
			cv.ty.Named = rt.Name()
		}
		cv.isSet = true
		m[name] = cv
	}
	k("types.SizeSize", types.SizeSize)
	k("types.NeedleHeaderSize", types.NeedleHeaderSize)
	k("types.NeedleMapEntrySize", types.NeedleMapEntrySize)
	k("types.TimestampSize", types.TimestampSize)
	k("types.NeedlePaddingSize", types.NeedlePaddingSize)
	k("types.TombstoneFileSize", types.TombstoneFileSize)
	k("types.CookieSize", types.CookieSize)
	k("types.NeedleIdSize", types.NeedleIdSize)
	k("types.OffsetSize", types.OffsetSize)
	k("types.MaxPossibleVolumeSize", types.MaxPossibleVolumeSize)
	k("needle.NeedleChecksumSize", needle.NeedleChecksumSize)
	k("needle.Version1", needle.Version1)
	k("needle.Version2", needle.Version2)
	k("needle.Version3", needle.Version3)
	k("needle.CurrentVersion", needle.CurrentVersion)
	k("needle.Empty", needle.Empty)
	k("needle.Minute", needle.Minute)
	k("needle.Hour", needle.Hour)
	k("needle.Day", needle.Day)
	k("needle.Week", needle.Week)
	k("needle.Month", needle.Month)
	k("needle.Year", needle.Year)
	k("erasure_coding.DataShardsCount", erasure_coding.DataShardsCount)
	k("erasure_coding.ParityShardsCount", erasure_coding.ParityShardsCount)
	k("erasure_coding.TotalShardsCount", erasure_coding.TotalShardsCount)
	k("erasure_coding.ErasureCodingLargeBlockSize", erasure_coding.ErasureCodingLargeBlockSize)
	k("erasure_coding.ErasureCodingSmallBlockSize", erasure_coding.ErasureCodingSmallBlockSize)
	k("math.MaxInt64", int64(math.MaxInt64))
	k("math.MaxInt32", int32(math.MaxInt32))
	k("math.MaxUint32", uint32(math.MaxUint32))
	return m
}
