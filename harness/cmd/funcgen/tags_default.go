//go:build !5BytesOffset
// +build !5BytesOffset

package main

// builtTags: the tags this binary was built with that select source files of the tree
var builtTags = []string{}
