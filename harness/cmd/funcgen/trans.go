package main

// Go -> Gallina translation of a small pure subset (see the header printed into
// gen/Funcs.v).  Everything outside the subset is a hard failure (fail closed).

import (
	"crypto/sha256"
	"fmt"
	"go/ast"
	"go/token"
	"math/big"
	"strconv"
	"strings"
)

// ---------- types ----------

type kind int

const (
	kInt kind = iota
	kBool
	kUntyped // untyped integer constant
	kStruct
	kPtr // pointer to struct
	kList
	kTuple
	kStr // string produced only by "" or fmt.Sprintf("%d<c>", e): a pair (number, character code), (0,0) = ""
)

type Ty struct {
	K      kind
	Bits   int
	Signed bool
	Named  string   // declared type name (method lookup only)
	NPkg   *pkgInfo // package of the declared type
	S      *structInfo
	Elem   *Ty
	Tup    []*Ty
}

type field struct {
	name string
	ty   *Ty // nil: field of a type outside the subset (not part of the Record)
}

type structInfo struct {
	coq    string
	goName string
	pkg    *pkgInfo
	fields []field // supported fields only are emitted
}

var (
	tyBool    = &Ty{K: kBool}
	tyUntyped = &Ty{K: kUntyped}
	tyInt     = &Ty{K: kInt, Bits: 64, Signed: true}
	tyStr     = &Ty{K: kStr}
)

var basicTypes = map[string]*Ty{
	"int": tyInt, "int64": {K: kInt, Bits: 64, Signed: true}, "int32": {K: kInt, Bits: 32, Signed: true},
	"int16": {K: kInt, Bits: 16, Signed: true}, "int8": {K: kInt, Bits: 8, Signed: true},
	"uint": {K: kInt, Bits: 64}, "uint64": {K: kInt, Bits: 64}, "uint32": {K: kInt, Bits: 32},
	"uint16": {K: kInt, Bits: 16}, "uint8": {K: kInt, Bits: 8}, "byte": {K: kInt, Bits: 8},
	"rune": {K: kInt, Bits: 32, Signed: true}, "bool": tyBool, "string": tyStr,
}

func (t *Ty) minmax() (*big.Int, *big.Int) {
	one := big.NewInt(1)
	if t.Signed {
		hi := new(big.Int).Lsh(one, uint(t.Bits-1))
		return new(big.Int).Neg(hi), new(big.Int).Sub(hi, one)
	}
	hi := new(big.Int).Lsh(one, uint(t.Bits))
	return big.NewInt(0), new(big.Int).Sub(hi, one)
}

func (t *Ty) fits(n *big.Int) bool {
	lo, hi := t.minmax()
	return n.Cmp(lo) >= 0 && n.Cmp(hi) <= 0
}

func sameInt(a, b *Ty) bool {
	return a.K == kInt && b.K == kInt && a.Bits == b.Bits && a.Signed == b.Signed
}

func sameTy(a, b *Ty) bool {
	if a.K != b.K {
		return false
	}
	switch a.K {
	case kInt:
		return sameInt(a, b)
	case kStruct:
		return a.S == b.S
	case kPtr, kList:
		return sameTy(a.Elem, b.Elem)
	case kTuple:
		if len(a.Tup) != len(b.Tup) {
			return false
		}
		for i := range a.Tup {
			if !sameTy(a.Tup[i], b.Tup[i]) {
				return false
			}
		}
	}
	return true
}

func (t *Ty) goStr() string {
	switch t.K {
	case kInt:
		s := "uint"
		if t.Signed {
			s = "int"
		}
		if t.Named != "" {
			return t.Named + "=" + s + strconv.Itoa(t.Bits)
		}
		return s + strconv.Itoa(t.Bits)
	case kBool:
		return "bool"
	case kUntyped:
		return "untyped constant"
	case kStruct:
		return "struct " + t.S.goName
	case kPtr:
		return "pointer to " + t.Elem.goStr()
	case kList:
		return "[]" + t.Elem.goStr()
	case kStr:
		return "string"
	}
	return "tuple"
}

func coqTy(t *Ty) string {
	switch t.K {
	case kInt:
		return "Z"
	case kBool:
		return "bool"
	case kStruct:
		return t.S.coq
	case kPtr:
		return t.Elem.S.coq
	case kList:
		return "(list " + coqTy(t.Elem) + ")"
	case kStr:
		return "(Z * Z)"
	case kTuple:
		p := []string{}
		for _, x := range t.Tup {
			p = append(p, coqTy(x))
		}
		return "(" + strings.Join(p, " * ") + ")"
	}
	panic("coqTy")
}

// ---------- values ----------

type effect struct {
	guard string // boolean that must hold (else run-time panic), or
	pat   string // match <call> with Some <pat> => … | None => None end
	call  string
}

type Val struct {
	S   string
	T   *Ty
	C   *big.Int // integer constant value
	B   *bool    // boolean constant value
	E   []effect
	Nil string // pointers: Coq boolean "is nil"
}

type failure struct {
	pos token.Pos
	msg string
}
type needPartial struct{}
type needFuel struct{}
type joinAbort struct{}

func zlit(n *big.Int) string {
	if n.Sign() < 0 {
		return "(" + n.String() + ")"
	}
	return n.String()
}

func wrapS(t *Ty, s string) string {
	if t.Signed {
		return fmt.Sprintf("(wrap_s %d %s)", t.Bits, s)
	}
	return fmt.Sprintf("(wrap_u %d %s)", t.Bits, s)
}

var coqReserved = map[string]bool{"as": true, "at": true, "cofix": true, "else": true, "end": true, "exists": true, "exists2": true,
	"fix": true, "for": true, "forall": true, "fun": true, "if": true, "IF": true, "in": true, "let": true, "match": true, "mod": true,
	"Prop": true, "return": true, "Set": true, "then": true, "Type": true, "using": true, "where": true, "with": true, "SProp": true,
	"fuel": true, "wrap_s": true, "wrap_u": true, "Some": true, "None": true, "negb": true, "true": true, "false": true, "Z": true,
	"bool": true, "nat": true, "list": true, "nil": true, "cons": true, "S": true, "O": true, "fst": true, "snd": true, "option": true,
	"andb": true, "orb": true, "app": true}

func coqName(s string) string {
	if coqReserved[s] || strings.HasPrefix(s, "t__") {
		return s + "_"
	}
	return s
}

// ---------- translator ----------

type constVal struct {
	val   *big.Int
	ty    *Ty // nil: untyped
	isSet bool
}

type fnOut struct {
	coq     string
	params  []*Ty
	res     *Ty
	partial bool
	fuel    bool
}

type tr struct {
	l       *loader
	consts  map[string]constVal // "<pkgname>.<Name>"
	done    map[string]*fnOut   // "<dir>:<Key>"
	busy    map[string]bool
	coqUsed map[string]string
	structs map[string]*structInfo
	recs    []string // Record definitions, emission order
	defs    []string // function definitions, emission order
	names   []string // Coq names of the translated functions, emission order
}

type varInfo struct {
	name  string
	ty    *Ty
	depth int
}

type env struct {
	vars  []varInfo
	depth int
}

func (e *env) lookup(n string) *varInfo {
	for i := len(e.vars) - 1; i >= 0; i-- {
		if e.vars[i].name == n {
			return &e.vars[i]
		}
	}
	return nil
}
func (e *env) push() *env { return &env{vars: e.vars[:len(e.vars):len(e.vars)], depth: e.depth + 1} }
func (e *env) add(n string, t *Ty) *env {
	v := append(e.vars[:len(e.vars):len(e.vars)], varInfo{n, t, e.depth})
	return &env{vars: v, depth: e.depth}
}

type kont func(e *env) string

type fnCtx struct {
	t       *tr
	fi      *funcInfo
	coq     string
	partial bool
	fuel    bool
	res     *Ty
	named   []string
	inLoop  bool
	brk     kont
	cont    kont
	aux     []string
	nloops  int
	inJoin  int
	tmp     int
	// type for an untyped constant that is the left operand of a non-constant shift
	shiftHint *Ty
}

// isUntypedShift: (possibly parenthesised) `<integer literal> << e` or `>> e`
func isUntypedShift(e ast.Expr) bool {
	for {
		p, ok := e.(*ast.ParenExpr)
		if !ok {
			break
		}
		e = p.X
	}
	b, ok := e.(*ast.BinaryExpr)
	if !ok || (b.Op != token.SHL && b.Op != token.SHR) {
		return false
	}
	_, lit := b.X.(*ast.BasicLit)
	return lit
}

func (c *fnCtx) fail(p token.Pos, f string, a ...interface{}) {
	panic(failure{p, fmt.Sprintf(f, a...)})
}

// ----- type resolution -----

func (c *fnCtx) resolveNamed(pkg *pkgInfo, name string, pos token.Pos) *Ty {
	ts, ok := pkg.types[name]
	if !ok {
		return nil
	}
	switch u := ts.Type.(type) {
	case *ast.StructType:
		return &Ty{K: kStruct, S: c.t.structOf(c, pkg, name, u)}
	default:
		// a declared non-struct type: resolve its underlying type inside its own file
		sub := &fnCtx{t: c.t, fi: &funcInfo{file: pkg.tfile[name], pkg: pkg}}
		under := sub.typeOf(ts.Type)
		if under.K != kInt && under.K != kBool {
			c.fail(pos, "type %s.%s has underlying type %s (outside the subset)", pkg.name, name, under.goStr())
		}
		cp := *under
		cp.Named, cp.NPkg = name, pkg
		return &cp
	}
}

func (c *fnCtx) typeOf(e ast.Expr) *Ty {
	switch x := e.(type) {
	case *ast.Ident:
		if t := c.resolveNamed(c.fi.pkg, x.Name, x.Pos()); t != nil {
			return t
		}
		for _, d := range c.fi.file.dots {
			p, err := c.t.l.load(d)
			if err != nil {
				c.fail(x.Pos(), "%v", err)
			}
			if t := c.resolveNamed(p, x.Name, x.Pos()); t != nil {
				return t
			}
		}
		if t, ok := basicTypes[x.Name]; ok {
			return t
		}
		c.fail(x.Pos(), "unknown type %s", x.Name)
	case *ast.SelectorExpr:
		if id, ok := x.X.(*ast.Ident); ok {
			if path, ok := c.fi.file.imports[id.Name]; ok && strings.HasPrefix(path, modulePrefix) {
				p, err := c.t.l.load(path)
				if err != nil {
					c.fail(x.Pos(), "%v", err)
				}
				if t := c.resolveNamed(p, x.Sel.Name, x.Pos()); t != nil {
					return t
				}
			}
		}
		c.fail(x.Pos(), "unknown type %s", exprStr(e))
	case *ast.StarExpr:
		el := c.typeOf(x.X)
		if el.K != kStruct {
			c.fail(x.Pos(), "pointer to %s (only pointers to structs are in the subset)", el.goStr())
		}
		return &Ty{K: kPtr, Elem: el}
	case *ast.ArrayType:
		if x.Len != nil {
			c.fail(x.Pos(), "array types are outside the subset")
		}
		el := c.typeOf(x.Elt)
		if el.K != kInt && el.K != kBool && el.K != kStruct {
			c.fail(x.Pos(), "slice of %s is outside the subset", el.goStr())
		}
		return &Ty{K: kList, Elem: el}
	case *ast.ParenExpr:
		return c.typeOf(x.X)
	}
	c.fail(e.Pos(), "type expression %s is outside the subset", exprStr(e))
	return nil
}

// isType reports whether e denotes a type (for conversions T(x)).
func (c *fnCtx) isType(e ast.Expr, en *env) bool {
	switch x := e.(type) {
	case *ast.Ident:
		if en.lookup(x.Name) != nil {
			return false
		}
		if _, ok := c.fi.pkg.types[x.Name]; ok {
			return true
		}
		if _, ok := c.fi.pkg.funcs[x.Name]; ok {
			return false
		}
		for _, d := range c.fi.file.dots {
			if p, err := c.t.l.load(d); err == nil {
				if _, ok := p.types[x.Name]; ok {
					return true
				}
				if _, ok := p.funcs[x.Name]; ok {
					return false
				}
			}
		}
		_, ok := basicTypes[x.Name]
		return ok
	case *ast.SelectorExpr:
		if id, ok := x.X.(*ast.Ident); ok && en.lookup(id.Name) == nil {
			if path, ok := c.fi.file.imports[id.Name]; ok && strings.HasPrefix(path, modulePrefix) {
				if p, err := c.t.l.load(path); err == nil {
					_, ok := p.types[x.Sel.Name]
					return ok
				}
			}
		}
	case *ast.ParenExpr:
		return c.isType(x.X, en)
	case *ast.StarExpr, *ast.ArrayType:
		return true
	}
	return false
}

func (t *tr) structOf(c *fnCtx, pkg *pkgInfo, name string, st *ast.StructType) *structInfo {
	key := pkg.dir + "." + name
	if s, ok := t.structs[key]; ok {
		return s
	}
	s := &structInfo{coq: name, goName: pkg.name + "." + name, pkg: pkg}
	if prev, ok := t.coqUsed[s.coq]; ok && prev != key {
		s.coq = pkg.name + "_" + name
	}
	t.coqUsed[s.coq] = key
	t.structs[key] = s
	sub := &fnCtx{t: t, fi: &funcInfo{file: pkg.tfile[name], pkg: pkg}}
	for _, f := range st.Fields.List {
		var ft *Ty
		func() {
			defer func() {
				if r := recover(); r != nil {
					if _, ok := r.(failure); ok {
						ft = nil
						return
					}
					panic(r)
				}
			}()
			ft = sub.typeOf(f.Type)
		}()
		if len(f.Names) == 0 {
			// embedded struct: its (supported) fields are promoted
			if ft != nil && ft.K == kStruct {
				for _, ef := range ft.S.fields {
					s.fields = append(s.fields, ef)
				}
			}
			continue
		}
		if ft != nil && ft.K != kInt && ft.K != kBool {
			ft = nil
		}
		for _, n := range f.Names {
			s.fields = append(s.fields, field{n.Name, ft})
		}
	}
	var b strings.Builder
	fmt.Fprintf(&b, "(* %s: struct %s", t.l.pos(st.Pos()), s.goName)
	skipped := []string{}
	for _, f := range s.fields {
		if f.ty == nil {
			skipped = append(skipped, f.name)
		}
	}
	if len(skipped) > 0 {
		fmt.Fprintf(&b, "; fields outside the subset are left out: %s", strings.Join(skipped, ", "))
	}
	fmt.Fprintf(&b, " *)\nRecord %s := mk%s {", s.coq, s.coq)
	first := true
	for _, f := range s.fields {
		if f.ty == nil {
			continue
		}
		if !first {
			b.WriteString(";")
		}
		first = false
		fmt.Fprintf(&b, "\n  %s_%s : %s", s.coq, f.name, coqTy(f.ty))
	}
	b.WriteString(" }.\n")
	t.recs = append(t.recs, b.String())
	return s
}

func (s *structInfo) supported() []field {
	out := []field{}
	for _, f := range s.fields {
		if f.ty != nil {
			out = append(out, f)
		}
	}
	return out
}

func zeroOf(t *Ty) string {
	switch t.K {
	case kInt:
		return "0"
	case kBool:
		return "false"
	case kList:
		return "nil"
	case kStr:
		return "(0, 0)"
	case kStruct:
		p := []string{"mk" + t.S.coq}
		for _, f := range t.S.supported() {
			p = append(p, zeroOf(f.ty))
		}
		return "(" + strings.Join(p, " ") + ")"
	}
	panic("zeroOf")
}

func exprStr(e ast.Expr) string {
	switch x := e.(type) {
	case *ast.Ident:
		return x.Name
	case *ast.SelectorExpr:
		return exprStr(x.X) + "." + x.Sel.Name
	case *ast.StarExpr:
		return "*" + exprStr(x.X)
	case *ast.BasicLit:
		return x.Value
	case *ast.CallExpr:
		return exprStr(x.Fun) + "(…)"
	case *ast.ArrayType:
		return "[]" + exprStr(x.Elt)
	}
	return fmt.Sprintf("%T", e)
}

// ----- expressions -----

func cat(vs ...Val) []effect {
	var out []effect
	for _, v := range vs {
		out = append(out, v.E...)
	}
	return out
}

func constVal_(n *big.Int, t *Ty) Val { return Val{S: zlit(n), T: t, C: n} }
func boolVal(b bool) Val {
	s := "false"
	if b {
		s = "true"
	}
	return Val{S: s, T: tyBool, B: &b}
}

// conv converts an untyped constant to type t (no-op for typed values of the same type).
func (c *fnCtx) conv(v Val, t *Ty, pos token.Pos) Val {
	if v.T.K == kUntyped {
		if t.K != kInt {
			c.fail(pos, "integer constant %s used as %s", v.S, t.goStr())
		}
		if !t.fits(v.C) {
			c.fail(pos, "constant %s overflows %s", v.S, t.goStr())
		}
		v.T = t
		return v
	}
	if !sameTy(v.T, t) {
		c.fail(pos, "type mismatch: %s where %s is expected", v.T.goStr(), t.goStr())
	}
	return v
}

// materialise gives an untyped constant its default type int.
func (c *fnCtx) materialise(v Val, pos token.Pos) Val {
	if v.T.K == kUntyped {
		return c.conv(v, tyInt, pos)
	}
	return v
}

func (c *fnCtx) lookupConst(pkgname, name string) (Val, bool) {
	cv, ok := c.t.consts[pkgname+"."+name]
	if !ok {
		return Val{}, false
	}
	if cv.ty == nil {
		return constVal_(cv.val, tyUntyped), true
	}
	if cv.ty.K == kBool {
		return boolVal(cv.val.Sign() != 0), true
	}
	return constVal_(cv.val, cv.ty), true
}

func (c *fnCtx) expr(e ast.Expr, en *env) Val {
	switch x := e.(type) {
	case *ast.ParenExpr:
		return c.expr(x.X, en)
	case *ast.BasicLit:
		switch x.Kind {
		case token.INT:
			n, ok := new(big.Int).SetString(x.Value, 0)
			if !ok {
				c.fail(x.Pos(), "cannot read integer literal %s", x.Value)
			}
			return constVal_(n, tyUntyped)
		case token.CHAR:
			r, _, _, err := strconv.UnquoteChar(x.Value[1:len(x.Value)-1], '\'')
			if err != nil {
				c.fail(x.Pos(), "cannot read character literal %s", x.Value)
			}
			return constVal_(big.NewInt(int64(r)), tyUntyped)
		case token.STRING:
			s, err := strconv.Unquote(x.Value)
			if err != nil || s != "" {
				c.fail(x.Pos(), "string literal %s: only \"\" is in the subset", x.Value)
			}
			return Val{S: "(0, 0)", T: tyStr}
		}
		c.fail(x.Pos(), "literal %s is outside the subset", x.Value)
	case *ast.Ident:
		if v := en.lookup(x.Name); v != nil {
			r := Val{S: coqName(x.Name), T: v.ty}
			if v.ty.K == kPtr {
				r.Nil = coqName(x.Name) + "_nil"
			}
			return r
		}
		switch x.Name {
		case "true":
			return boolVal(true)
		case "false":
			return boolVal(false)
		}
		if v, ok := c.lookupConst(c.fi.pkg.name, x.Name); ok {
			return v
		}
		for _, d := range c.fi.file.dots {
			if v, ok := c.lookupConst(baseName(d), x.Name); ok {
				return v
			}
		}
		c.fail(x.Pos(), "unknown identifier %s (not a local, not in the constant table of funcgen)", x.Name)
	case *ast.SelectorExpr:
		if id, ok := x.X.(*ast.Ident); ok && en.lookup(id.Name) == nil {
			if path, ok := c.fi.file.imports[id.Name]; ok {
				if v, ok := c.lookupConst(baseName(path), x.Sel.Name); ok {
					return v
				}
				c.fail(x.Pos(), "unknown identifier %s.%s (not in the constant table of funcgen)", id.Name, x.Sel.Name)
			}
		}
		v := c.expr(x.X, en)
		st := v.T
		if st.K == kPtr {
			st = st.Elem
		}
		if st.K != kStruct {
			c.fail(x.Pos(), "field selection on %s", v.T.goStr())
		}
		for _, f := range st.S.fields {
			if f.name == x.Sel.Name {
				if f.ty == nil {
					c.fail(x.Pos(), "field %s.%s has a type outside the subset", st.S.goName, f.name)
				}
				return Val{S: fmt.Sprintf("(%s_%s %s)", st.S.coq, f.name, v.S), T: f.ty, E: v.E}
			}
		}
		c.fail(x.Pos(), "struct %s has no field %s", st.S.goName, x.Sel.Name)
	case *ast.StarExpr:
		v := c.expr(x.X, en)
		if v.T.K != kPtr {
			c.fail(x.Pos(), "dereference of %s", v.T.goStr())
		}
		return Val{S: v.S, T: v.T.Elem, E: v.E}
	case *ast.SliceExpr:
		// l[a:b] of a slice (two-index form); out of range panics (guard; the capacity is taken to be the length)
		l := c.expr(x.X, en)
		if l.T.K != kList || x.Slice3 {
			c.fail(x.Pos(), "slice expression on %s is outside the subset", l.T.goStr())
		}
		lo := Val{S: "0", T: tyInt, C: big.NewInt(0)}
		if x.Low != nil {
			lo = c.materialise(c.expr(x.Low, en), x.Low.Pos())
		}
		hi := Val{S: "(Z.of_nat (List.length " + l.S + "))", T: tyInt}
		if x.High != nil {
			hi = c.materialise(c.expr(x.High, en), x.High.Pos())
		}
		if lo.T.K != kInt || hi.T.K != kInt {
			c.fail(x.Pos(), "slice bounds of non-integer type")
		}
		eff := cat(l, lo, hi)
		eff = append(eff, effect{guard: "(((0 <=? " + lo.S + ") && (" + lo.S + " <=? " + hi.S + ")) && (" + hi.S + " <=? (Z.of_nat (List.length " + l.S + "))))"})
		return Val{S: "(List.firstn (Z.to_nat (" + hi.S + " - " + lo.S + ")) (List.skipn (Z.to_nat " + lo.S + ") " + l.S + "))", T: l.T, E: eff}
	case *ast.IndexExpr:
		// read of a slice element: out of range panics (guard); slices are lists
		l := c.expr(x.X, en)
		if l.T.K != kList {
			c.fail(x.Pos(), "index expression on %s is outside the subset", l.T.goStr())
		}
		i := c.materialise(c.expr(x.Index, en), x.Index.Pos())
		if i.T.K != kInt {
			c.fail(x.Index.Pos(), "index of type %s", i.T.goStr())
		}
		eff := cat(l, i)
		g := "(" + i.S + " <? (Z.of_nat (List.length " + l.S + ")))"
		if i.C == nil || i.C.Sign() < 0 {
			g = "((0 <=? " + i.S + ") && " + g + ")"
		}
		eff = append(eff, effect{guard: g})
		return Val{S: "(List.nth (Z.to_nat " + i.S + ") " + l.S + " " + zeroOf(l.T.Elem) + ")", T: l.T.Elem, E: eff}
	case *ast.UnaryExpr:
		return c.unary(x, en)
	case *ast.BinaryExpr:
		return c.binary(x, en)
	case *ast.CallExpr:
		return c.call(x, en)
	case *ast.CompositeLit:
		return c.complit(x, en)
	}
	c.fail(e.Pos(), "expression %s is outside the subset", exprStr(e))
	return Val{}
}

func baseName(path string) string {
	if i := strings.LastIndex(path, "/"); i >= 0 {
		return path[i+1:]
	}
	return path
}

func (c *fnCtx) unary(x *ast.UnaryExpr, en *env) Val {
	if x.Op == token.AND {
		if cl, ok := x.X.(*ast.CompositeLit); ok {
			v := c.complit(cl, en)
			return Val{S: v.S, T: &Ty{K: kPtr, Elem: v.T}, E: v.E, Nil: "false"}
		}
		c.fail(x.Pos(), "address-of is only supported on struct literals")
	}
	v := c.expr(x.X, en)
	switch x.Op {
	case token.NOT:
		if v.T.K != kBool {
			c.fail(x.Pos(), "! on %s", v.T.goStr())
		}
		if v.B != nil {
			return boolVal(!*v.B)
		}
		return Val{S: "(negb " + v.S + ")", T: tyBool, E: v.E}
	case token.ADD:
		return v
	case token.SUB:
		if v.C != nil {
			n := new(big.Int).Neg(v.C)
			if v.T.K == kInt && !v.T.fits(n) {
				c.fail(x.Pos(), "constant overflow")
			}
			return constVal_(n, v.T)
		}
		if v.T.K != kInt {
			c.fail(x.Pos(), "unary - on %s", v.T.goStr())
		}
		return Val{S: wrapS(v.T, "(- "+v.S+")"), T: v.T, E: v.E}
	case token.XOR:
		if v.T.K != kInt {
			c.fail(x.Pos(), "unary ^ on %s", v.T.goStr())
		}
		if v.T.Signed {
			return Val{S: "(Z.lnot " + v.S + ")", T: v.T, E: v.E}
		}
		return Val{S: wrapS(v.T, "(Z.lnot "+v.S+")"), T: v.T, E: v.E}
	}
	c.fail(x.Pos(), "unary operator %s is outside the subset", x.Op)
	return Val{}
}

func cmpStr(op token.Token, a, b string) string {
	switch op {
	case token.EQL:
		return "(" + a + " =? " + b + ")"
	case token.NEQ:
		return "(negb (" + a + " =? " + b + "))"
	case token.LSS:
		return "(" + a + " <? " + b + ")"
	case token.LEQ:
		return "(" + a + " <=? " + b + ")"
	case token.GTR:
		return "(" + a + " >? " + b + ")"
	case token.GEQ:
		return "(" + a + " >=? " + b + ")"
	}
	panic("cmpStr")
}

func (c *fnCtx) binary(x *ast.BinaryExpr, en *env) Val {
	pos := x.OpPos
	// nil comparisons of pointers
	if id, ok := x.Y.(*ast.Ident); ok && id.Name == "nil" && en.lookup("nil") == nil && (x.Op == token.EQL || x.Op == token.NEQ) {
		v := c.expr(x.X, en)
		if v.T.K != kPtr {
			c.fail(pos, "comparison of %s with nil is outside the subset", v.T.goStr())
		}
		if x.Op == token.EQL {
			return Val{S: v.Nil, T: tyBool, E: v.E}
		}
		return Val{S: "(negb " + v.Nil + ")", T: tyBool, E: v.E}
	}
	// `b | (1 << id)`: an untyped constant shifted by a non-constant count takes the type the
	// shift expression would have without the shift, here the type of the other operand
	var a, b Val
	if x.Op != token.SHL && x.Op != token.SHR && isUntypedShift(x.Y) && !isUntypedShift(x.X) {
		a = c.expr(x.X, en)
		save := c.shiftHint
		if a.T.K == kInt {
			c.shiftHint = a.T
		}
		b = c.expr(x.Y, en)
		c.shiftHint = save
	} else if x.Op != token.SHL && x.Op != token.SHR && isUntypedShift(x.X) && !isUntypedShift(x.Y) {
		b = c.expr(x.Y, en)
		save := c.shiftHint
		if b.T.K == kInt {
			c.shiftHint = b.T
		}
		a = c.expr(x.X, en)
		c.shiftHint = save
	} else {
		a = c.expr(x.X, en)
		b = c.expr(x.Y, en)
	}
	switch x.Op {
	case token.LAND, token.LOR:
		if a.T.K != kBool || b.T.K != kBool {
			c.fail(pos, "%s on non-boolean operands", x.Op)
		}
		eff := append([]effect{}, a.E...)
		for _, g := range b.E {
			if g.guard == "" {
				c.fail(pos, "call of a partial function in the right operand of %s is outside the subset", x.Op)
			}
			// the right operand is only evaluated when the left one does not decide
			if x.Op == token.LAND {
				eff = append(eff, effect{guard: "((negb " + a.S + ") || " + g.guard + ")"})
			} else {
				eff = append(eff, effect{guard: "(" + a.S + " || " + g.guard + ")"})
			}
		}
		if a.B != nil && b.B != nil {
			if x.Op == token.LAND {
				return boolVal(*a.B && *b.B)
			}
			return boolVal(*a.B || *b.B)
		}
		op := " && "
		if x.Op == token.LOR {
			op = " || "
		}
		return Val{S: "(" + a.S + op + b.S + ")", T: tyBool, E: eff}
	case token.SHL, token.SHR:
		return c.shift(x, a, b)
	}
	// operand typing
	if a.T.K == kBool && b.T.K == kBool && (x.Op == token.EQL || x.Op == token.NEQ) {
		s := "(Bool.eqb " + a.S + " " + b.S + ")"
		if x.Op == token.NEQ {
			s = "(negb " + s + ")"
		}
		return Val{S: s, T: tyBool, E: cat(a, b)}
	}
	var t *Ty
	switch {
	case a.T.K == kUntyped && b.T.K == kUntyped:
		t = tyUntyped
	case a.T.K == kUntyped && b.T.K == kInt:
		a = c.conv(a, b.T, pos)
		t = b.T
	case b.T.K == kUntyped && a.T.K == kInt:
		b = c.conv(b, a.T, pos)
		t = a.T
	case sameInt(a.T, b.T):
		t = a.T
		if t.Named == "" {
			t = b.T
		}
	default:
		c.fail(pos, "operator %s on %s and %s is outside the subset", x.Op, a.T.goStr(), b.T.goStr())
	}
	eff := cat(a, b)
	switch x.Op {
	case token.EQL, token.NEQ, token.LSS, token.LEQ, token.GTR, token.GEQ:
		if a.C != nil && b.C != nil {
			r := a.C.Cmp(b.C)
			return boolVal(map[token.Token]bool{token.EQL: r == 0, token.NEQ: r != 0, token.LSS: r < 0, token.LEQ: r <= 0, token.GTR: r > 0, token.GEQ: r >= 0}[x.Op])
		}
		return Val{S: cmpStr(x.Op, a.S, b.S), T: tyBool, E: eff}
	}
	// constant folding (exact; a typed constant must stay representable, as the Go compiler demands)
	if a.C != nil && b.C != nil {
		var n *big.Int
		switch x.Op {
		case token.ADD:
			n = new(big.Int).Add(a.C, b.C)
		case token.SUB:
			n = new(big.Int).Sub(a.C, b.C)
		case token.MUL:
			n = new(big.Int).Mul(a.C, b.C)
		case token.QUO, token.REM:
			if b.C.Sign() == 0 {
				c.fail(pos, "constant division by zero")
			}
			q, r := new(big.Int).QuoRem(a.C, b.C, new(big.Int))
			n = q
			if x.Op == token.REM {
				n = r
			}
		case token.AND:
			n = new(big.Int).And(a.C, b.C)
		case token.OR:
			n = new(big.Int).Or(a.C, b.C)
		case token.XOR:
			n = new(big.Int).Xor(a.C, b.C)
		case token.AND_NOT:
			n = new(big.Int).AndNot(a.C, b.C)
		default:
			c.fail(pos, "operator %s is outside the subset", x.Op)
		}
		if t.K == kInt && !t.fits(n) {
			c.fail(pos, "constant expression overflows %s", t.goStr())
		}
		return constVal_(n, t)
	}
	if t.K != kInt {
		c.fail(pos, "internal: non-constant untyped operands")
	}
	mk := func(s string, wrap bool) Val {
		if wrap {
			s = wrapS(t, s)
		}
		return Val{S: s, T: t, E: eff}
	}
	switch x.Op {
	case token.ADD:
		return mk("("+a.S+" + "+b.S+")", true)
	case token.SUB:
		return mk("("+a.S+" - "+b.S+")", true)
	case token.MUL:
		return mk("("+a.S+" * "+b.S+")", true)
	case token.QUO, token.REM:
		if b.C != nil && b.C.Sign() == 0 {
			c.fail(pos, "division by the constant zero")
		}
		if b.C == nil {
			eff = append(eff, effect{guard: "(negb (" + b.S + " =? 0))"})
		}
		if x.Op == token.REM {
			return mk("(Z.rem "+a.S+" "+b.S+")", false)
		}
		// the quotient leaves the type's range only for MinInt / -1
		needWrap := t.Signed && (b.C == nil || b.C.Cmp(big.NewInt(-1)) == 0)
		return mk("(Z.quot "+a.S+" "+b.S+")", needWrap)
	case token.AND:
		return mk("(Z.land "+a.S+" "+b.S+")", false)
	case token.OR:
		return mk("(Z.lor "+a.S+" "+b.S+")", false)
	case token.XOR:
		return mk("(Z.lxor "+a.S+" "+b.S+")", false)
	case token.AND_NOT:
		return mk("(Z.ldiff "+a.S+" "+b.S+")", false)
	}
	c.fail(pos, "operator %s is outside the subset", x.Op)
	return Val{}
}

func (c *fnCtx) shift(x *ast.BinaryExpr, a, b Val) Val {
	pos := x.OpPos
	if b.C != nil {
		if b.C.Sign() < 0 || b.C.Cmp(big.NewInt(4096)) > 0 {
			c.fail(pos, "shift count %s", b.S)
		}
	} else if b.T.K != kInt || b.T.Signed {
		c.fail(pos, "shift count of type %s (only constants and unsigned counts are in the subset)", b.T.goStr())
	}
	if a.C != nil && b.C != nil {
		var n *big.Int
		if x.Op == token.SHL {
			n = new(big.Int).Lsh(a.C, uint(b.C.Int64()))
		} else {
			n = new(big.Int).Rsh(a.C, uint(b.C.Int64()))
		}
		if a.T.K == kInt && !a.T.fits(n) {
			c.fail(pos, "constant shift overflows %s", a.T.goStr())
		}
		return constVal_(n, a.T)
	}
	if a.T.K == kUntyped {
		if c.shiftHint == nil {
			c.fail(pos, "untyped constant shifted by a non-constant count is outside the subset (no typed operand next to it)")
		}
		a = c.conv(a, c.shiftHint, pos)
	}
	if a.T.K != kInt {
		c.fail(pos, "shift of %s", a.T.goStr())
	}
	eff := cat(a, b)
	if x.Op == token.SHL {
		return Val{S: wrapS(a.T, "(Z.shiftl "+a.S+" "+b.S+")"), T: a.T, E: eff}
	}
	return Val{S: "(Z.shiftr " + a.S + " " + b.S + ")", T: a.T, E: eff}
}

// convert implements T(x) for integer types.
func (c *fnCtx) convert(v Val, t *Ty, pos token.Pos) Val {
	if t.K == kBool && v.T.K == kBool {
		return v
	}
	if t.K != kInt {
		c.fail(pos, "conversion to %s is outside the subset", t.goStr())
	}
	if v.C != nil {
		if !t.fits(v.C) {
			// a constant conversion that overflows does not compile in Go
			c.fail(pos, "constant %s overflows %s", v.S, t.goStr())
		}
		return constVal_(v.C, t)
	}
	if v.T.K != kInt {
		c.fail(pos, "conversion of %s to %s is outside the subset", v.T.goStr(), t.goStr())
	}
	lo, hi := v.T.minmax()
	if t.fits(lo) && t.fits(hi) {
		// value preserving: every value of the source type is a value of the target type
		return Val{S: v.S, T: t, E: v.E}
	}
	return Val{S: wrapS(t, v.S), T: t, E: v.E}
}

func (c *fnCtx) complit(x *ast.CompositeLit, en *env) Val {
	if x.Type == nil {
		c.fail(x.Pos(), "composite literal without a type")
	}
	t := c.typeOf(x.Type)
	if t.K != kStruct {
		c.fail(x.Pos(), "composite literal of %s is outside the subset", t.goStr())
	}
	vals := map[string]Val{}
	var eff []effect
	for i, el := range x.Elts {
		kv, ok := el.(*ast.KeyValueExpr)
		var name string
		var ve ast.Expr
		if ok {
			id, ok2 := kv.Key.(*ast.Ident)
			if !ok2 {
				c.fail(el.Pos(), "composite literal key")
			}
			name, ve = id.Name, kv.Value
		} else {
			if i >= len(t.S.fields) {
				c.fail(el.Pos(), "too many values in struct literal")
			}
			name, ve = t.S.fields[i].name, el
		}
		// an embedded struct given as a nested literal: its fields are the promoted fields
		if ts, isEmb := c.embedded(t.S, name); isEmb {
			cl, isLit := ve.(*ast.CompositeLit)
			if !isLit {
				c.fail(el.Pos(), "embedded struct %s must be given as a literal", name)
			}
			sub := c.complit(cl, en)
			_ = ts
			eff = append(eff, sub.E...)
			// sub.S = (mkX a b c): re-read its parts through the projections
			for _, f := range sub.T.S.supported() {
				vals[f.name] = Val{S: fmt.Sprintf("(%s_%s %s)", sub.T.S.coq, f.name, sub.S), T: f.ty}
			}
			continue
		}
		var ft *Ty
		found := false
		for _, f := range t.S.fields {
			if f.name == name {
				ft, found = f.ty, true
			}
		}
		if !found {
			c.fail(el.Pos(), "struct %s has no field %s", t.S.goName, name)
		}
		if ft == nil {
			c.fail(el.Pos(), "field %s.%s has a type outside the subset", t.S.goName, name)
		}
		v := c.expr(ve, en)
		v = c.conv(v, ft, el.Pos())
		eff = append(eff, v.E...)
		vals[name] = v
	}
	p := []string{"mk" + t.S.coq}
	for _, f := range t.S.supported() {
		if v, ok := vals[f.name]; ok {
			p = append(p, v.S)
		} else {
			p = append(p, zeroOf(f.ty))
		}
	}
	return Val{S: "(" + strings.Join(p, " ") + ")", T: t, E: eff}
}

// embedded reports whether name is an embedded struct field of s.
func (c *fnCtx) embedded(s *structInfo, name string) (*ast.TypeSpec, bool) {
	ts := s.pkg.types[lastName(s.goName)]
	if ts == nil {
		return nil, false
	}
	st, ok := ts.Type.(*ast.StructType)
	if !ok {
		return nil, false
	}
	for _, f := range st.Fields.List {
		if len(f.Names) == 0 && recvTypeName(f.Type) == name {
			if e, ok := s.pkg.types[name]; ok {
				if _, isStruct := e.Type.(*ast.StructType); isStruct {
					return e, true
				}
			}
		}
	}
	return nil, false
}

func lastName(s string) string {
	if i := strings.LastIndex(s, "."); i >= 0 {
		return s[i+1:]
	}
	return s
}

func (c *fnCtx) call(x *ast.CallExpr, en *env) Val {
	// conversion
	if len(x.Args) == 1 && c.isType(x.Fun, en) {
		t := c.typeOf(x.Fun)
		v := c.expr(x.Args[0], en)
		return c.convert(v, t, x.Pos())
	}
	var target *funcInfo
	var recv *Val
	switch f := x.Fun.(type) {
	case *ast.Ident:
		if f.Name == "len" && en.lookup("len") == nil {
			if len(x.Args) != 1 {
				c.fail(x.Pos(), "len with %d arguments", len(x.Args))
			}
			l := c.expr(x.Args[0], en)
			if l.T.K != kList {
				c.fail(x.Pos(), "len of %s is outside the subset", l.T.goStr())
			}
			return Val{S: "(Z.of_nat (List.length " + l.S + "))", T: tyInt, E: l.E}
		}
		if f.Name == "append" && en.lookup("append") == nil {
			if len(x.Args) != 2 || x.Ellipsis.IsValid() {
				c.fail(x.Pos(), "append with other than one appended element is outside the subset")
			}
			l := c.expr(x.Args[0], en)
			if l.T.K != kList {
				c.fail(x.Pos(), "append to %s", l.T.goStr())
			}
			v := c.conv(c.expr(x.Args[1], en), l.T.Elem, x.Args[1].Pos())
			return Val{S: "(" + l.S + " ++ (cons " + v.S + " nil))", T: l.T, E: cat(l, v)}
		}
		if fi, ok := c.fi.pkg.funcs[f.Name]; ok {
			target = fi
		} else {
			for _, d := range c.fi.file.dots {
				if p, err := c.t.l.load(d); err == nil {
					if fi, ok := p.funcs[f.Name]; ok {
						target = fi
					}
				}
			}
		}
		if target == nil {
			c.fail(x.Pos(), "call of unknown function %s", f.Name)
		}
	case *ast.SelectorExpr:
		if id, ok := f.X.(*ast.Ident); ok && en.lookup(id.Name) == nil {
			path, ok := c.fi.file.imports[id.Name]
			if !ok {
				c.fail(x.Pos(), "call of %s: unknown package or variable %s", exprStr(x.Fun), id.Name)
			}
			if path == "fmt" && f.Sel.Name == "Sprintf" {
				return c.sprintf(x, en)
			}
			if !strings.HasPrefix(path, modulePrefix) {
				c.fail(x.Pos(), "call of %s.%s (package outside the tree) is outside the subset", id.Name, f.Sel.Name)
			}
			p, err := c.t.l.load(path)
			if err != nil {
				c.fail(x.Pos(), "%v", err)
			}
			target = p.funcs[f.Sel.Name]
			if target == nil {
				c.fail(x.Pos(), "call of unknown function %s.%s", id.Name, f.Sel.Name)
			}
		} else {
			rv := c.expr(f.X, en)
			recv = &rv
			var tn string
			var tp *pkgInfo
			switch rv.T.K {
			case kStruct:
				tn, tp = lastName(rv.T.S.goName), rv.T.S.pkg
			case kPtr:
				tn, tp = lastName(rv.T.Elem.S.goName), rv.T.Elem.S.pkg
			case kInt, kBool:
				tn, tp = rv.T.Named, rv.T.NPkg
			}
			if tn == "" || tp == nil {
				c.fail(x.Pos(), "method call on %s is outside the subset", rv.T.goStr())
			}
			target = tp.funcs[tn+"."+f.Sel.Name]
			if target == nil {
				c.fail(x.Pos(), "unknown method %s.%s", tn, f.Sel.Name)
			}
		}
	default:
		c.fail(x.Pos(), "call of %s is outside the subset", exprStr(x.Fun))
	}
	out := c.t.translate(target, "")
	args := []Val{}
	if recv != nil {
		args = append(args, *recv)
	}
	for _, a := range x.Args {
		args = append(args, c.expr(a, en))
	}
	if len(args) != len(out.params) {
		c.fail(x.Pos(), "call of %s with %d arguments, %d expected", out.coq, len(args), len(out.params))
	}
	var eff []effect
	s := out.coq
	if out.fuel {
		if !c.fuel {
			panic(needFuel{})
		}
		s += " fuel"
	}
	for i, a := range args {
		pt := out.params[i]
		// receivers: a value may be used where a pointer is expected and vice versa (auto address/deref)
		if recv != nil && i == 0 {
			if pt.K == kPtr && a.T.K == kStruct {
				a = Val{S: a.S, T: pt, E: a.E, Nil: "false"}
			} else if pt.K == kStruct && a.T.K == kPtr {
				a = Val{S: a.S, T: pt, E: a.E}
			}
		}
		a = c.conv(a, pt, x.Pos())
		eff = append(eff, a.E...)
		if pt.K == kPtr {
			s += " " + a.Nil
		}
		s += " " + a.S
	}
	if out.partial {
		c.tmp++
		tmp := fmt.Sprintf("t__%d", c.tmp)
		eff = append(eff, effect{pat: tmp, call: "(" + s + ")"})
		return Val{S: tmp, T: out.res, E: eff}
	}
	return Val{S: "(" + s + ")", T: out.res, E: eff}
}

// fmt.Sprintf("%d<c>", e) with a one-character suffix: the pair (e, code of c)
func (c *fnCtx) sprintf(x *ast.CallExpr, en *env) Val {
	if len(x.Args) != 2 {
		c.fail(x.Pos(), "fmt.Sprintf: only the form Sprintf(\"%%d<c>\", e) is in the subset")
	}
	lit, ok := x.Args[0].(*ast.BasicLit)
	if !ok || lit.Kind != token.STRING {
		c.fail(x.Pos(), "fmt.Sprintf: format must be a literal")
	}
	f, err := strconv.Unquote(lit.Value)
	if err != nil || len(f) != 3 || f[0] != '%' || f[1] != 'd' || f[2] == '%' || f[2] >= 128 || f[2] == 0 {
		c.fail(x.Pos(), "fmt.Sprintf: only the format \"%%d<c>\" is in the subset, got %s", lit.Value)
	}
	v := c.materialise(c.expr(x.Args[1], en), x.Pos())
	if v.T.K != kInt {
		c.fail(x.Pos(), "fmt.Sprintf: %%d of %s", v.T.goStr())
	}
	return Val{S: fmt.Sprintf("(%s, %d)", v.S, f[2]), T: tyStr, E: v.E}
}

// ----- statements -----

// effects wraps body into the run-time checks / partial calls of the evaluated expressions.
func (c *fnCtx) effects(eff []effect, body string) string {
	if len(eff) == 0 {
		return body
	}
	if c.inJoin > 0 {
		panic(joinAbort{})
	}
	if !c.partial {
		panic(needPartial{})
	}
	for i := len(eff) - 1; i >= 0; i-- {
		if eff[i].guard != "" {
			body = "if " + eff[i].guard + " then\n" + body + "\nelse None"
		} else {
			body = "match " + eff[i].call + " with\n| Some " + eff[i].pat + " =>\n" + body + "\n| None => None end"
		}
	}
	return "(" + body + ")"
}

func (c *fnCtx) ret(s string) string {
	if c.partial {
		return "Some " + s
	}
	return s
}

func tupleOf(p []string) string {
	if len(p) == 1 {
		return p[0]
	}
	return "(" + strings.Join(p, ", ") + ")"
}

func (c *fnCtx) stmts(list []ast.Stmt, en *env, k kont) string {
	if len(list) == 0 {
		return k(en)
	}
	return c.stmt(list[0], en, func(e2 *env) string { return c.stmts(list[1:], e2, k) })
}

func (c *fnCtx) block(b *ast.BlockStmt, en *env, k kont) string {
	return c.stmts(b.List, en.push(), func(_ *env) string { return k(en) })
}

func (c *fnCtx) declare(en *env, name string, t *Ty, pos token.Pos) *env {
	if name == "_" {
		return en
	}
	if v := en.lookup(name); v != nil {
		c.fail(pos, "declaration of %s shadows or repeats a variable of the same function (outside the subset)", name)
	}
	if t.K == kPtr || t.K == kTuple || t.K == kUntyped {
		c.fail(pos, "local variable %s of type %s is outside the subset", name, t.goStr())
	}
	return en.add(name, t)
}

// setField rebuilds the record held in variable v with field f replaced.
func (c *fnCtx) setField(v *varInfo, fname string, val string, pos token.Pos) string {
	if v.ty.K != kStruct {
		c.fail(pos, "field assignment on %s", v.ty.goStr())
	}
	p := []string{"mk" + v.ty.S.coq}
	found := false
	for _, f := range v.ty.S.supported() {
		if f.name == fname {
			p = append(p, val)
			found = true
		} else {
			p = append(p, fmt.Sprintf("(%s_%s %s)", v.ty.S.coq, f.name, coqName(v.name)))
		}
	}
	if !found {
		c.fail(pos, "struct %s has no assignable field %s", v.ty.S.goName, fname)
	}
	return "(" + strings.Join(p, " ") + ")"
}

var assignOps = map[token.Token]token.Token{token.ADD_ASSIGN: token.ADD, token.SUB_ASSIGN: token.SUB, token.MUL_ASSIGN: token.MUL,
	token.QUO_ASSIGN: token.QUO, token.REM_ASSIGN: token.REM, token.AND_ASSIGN: token.AND, token.OR_ASSIGN: token.OR,
	token.XOR_ASSIGN: token.XOR, token.SHL_ASSIGN: token.SHL, token.SHR_ASSIGN: token.SHR, token.AND_NOT_ASSIGN: token.AND_NOT}

func (c *fnCtx) assign(s *ast.AssignStmt, en *env, k kont) string {
	if op, ok := assignOps[s.Tok]; ok {
		if len(s.Lhs) != 1 || len(s.Rhs) != 1 {
			c.fail(s.Pos(), "assignment form")
		}
		return c.assign(&ast.AssignStmt{Lhs: s.Lhs, TokPos: s.TokPos, Tok: token.ASSIGN,
			Rhs: []ast.Expr{&ast.BinaryExpr{X: s.Lhs[0], OpPos: s.TokPos, Op: op, Y: s.Rhs[0]}}}, en, k)
	}
	if s.Tok != token.ASSIGN && s.Tok != token.DEFINE {
		c.fail(s.Pos(), "assignment operator %s is outside the subset", s.Tok)
	}
	// right-hand sides
	var vals []Val
	var eff []effect
	if len(s.Rhs) == 1 && len(s.Lhs) > 1 {
		v := c.expr(s.Rhs[0], en)
		if v.T.K != kTuple || len(v.T.Tup) != len(s.Lhs) {
			c.fail(s.Pos(), "assignment of %s to %d variables", v.T.goStr(), len(s.Lhs))
		}
		eff = v.E
		// destructure first
		names := []string{}
		for i := range s.Lhs {
			names = append(names, fmt.Sprintf("t__%d_%d", c.tmp+1, i))
		}
		c.tmp++
		for i := range s.Lhs {
			vals = append(vals, Val{S: names[i], T: v.T.Tup[i]})
		}
		inner := c.assignTo(s, vals, en, k)
		return c.effects(eff, "let '"+tupleOf(names)+" := "+v.S+" in\n"+inner)
	}
	if len(s.Rhs) != len(s.Lhs) {
		c.fail(s.Pos(), "assignment count mismatch")
	}
	for _, r := range s.Rhs {
		v := c.expr(r, en)
		if v.T.K == kTuple {
			c.fail(r.Pos(), "multi-valued call in single-value context")
		}
		eff = append(eff, v.E...)
		vals = append(vals, v)
	}
	return c.effects(eff, c.assignTo(s, vals, en, k))
}

func (c *fnCtx) assignTo(s *ast.AssignStmt, vals []Val, en *env, k kont) string {
	en2 := en
	names := []string{}
	rhs := []string{}
	anyNew := false
	for i, l := range s.Lhs {
		switch x := l.(type) {
		case *ast.Ident:
			if x.Name == "_" {
				names = append(names, "_")
				rhs = append(rhs, vals[i].S)
				continue
			}
			v := en.lookup(x.Name)
			if s.Tok == token.DEFINE && (v == nil || v.depth != en.depth) {
				val := c.materialise(vals[i], x.Pos())
				if val.T.K == kBool || val.T.K == kInt || val.T.K == kStruct || val.T.K == kList || val.T.K == kStr {
					en2 = c.declare(en2, x.Name, val.T, x.Pos())
				} else {
					c.fail(x.Pos(), "local variable %s of type %s is outside the subset", x.Name, val.T.goStr())
				}
				anyNew = true
				names = append(names, coqName(x.Name))
				rhs = append(rhs, val.S)
				continue
			}
			if v == nil {
				c.fail(x.Pos(), "assignment to unknown variable %s", x.Name)
			}
			if v.ty.K == kPtr {
				c.fail(x.Pos(), "assignment to the pointer %s is outside the subset", x.Name)
			}
			val := c.conv(vals[i], v.ty, x.Pos())
			names = append(names, coqName(x.Name))
			rhs = append(rhs, val.S)
		case *ast.SelectorExpr:
			id, ok := x.X.(*ast.Ident)
			if !ok {
				c.fail(x.Pos(), "assignment target %s is outside the subset", exprStr(l))
			}
			v := en.lookup(id.Name)
			if v == nil || v.ty.K != kStruct {
				c.fail(x.Pos(), "assignment target %s is outside the subset (only fields of local struct values)", exprStr(l))
			}
			var ft *Ty
			for _, f := range v.ty.S.supported() {
				if f.name == x.Sel.Name {
					ft = f.ty
				}
			}
			if ft == nil {
				c.fail(x.Pos(), "struct %s has no assignable field %s", v.ty.S.goName, x.Sel.Name)
			}
			if len(s.Lhs) != 1 {
				c.fail(x.Pos(), "field assignment inside a tuple assignment is outside the subset")
			}
			val := c.conv(vals[i], ft, x.Pos())
			names = append(names, coqName(id.Name))
			rhs = append(rhs, c.setField(v, x.Sel.Name, val.S, x.Pos()))
		default:
			c.fail(l.Pos(), "assignment target %s is outside the subset", exprStr(l))
		}
	}
	if s.Tok == token.DEFINE && !anyNew {
		c.fail(s.Pos(), "no new variables on the left side of :=")
	}
	// Go evaluates all right-hand sides before assigning: bind them simultaneously
	if len(names) == 1 {
		return "let " + names[0] + " := " + rhs[0] + " in\n" + k(en2)
	}
	seen := map[string]bool{}
	for _, n := range names {
		if n != "_" && seen[n] {
			c.fail(s.Pos(), "variable %s assigned twice in one statement", n)
		}
		seen[n] = true
	}
	return "let '" + tupleOf(names) + " := " + tupleOf(rhs) + " in\n" + k(en2)
}

func hasJump(n ast.Node) bool {
	found := false
	ast.Inspect(n, func(x ast.Node) bool {
		switch x.(type) {
		case *ast.ReturnStmt, *ast.BranchStmt, *ast.ForStmt, *ast.RangeStmt, *ast.FuncLit:
			found = true
		}
		return !found
	})
	return found
}

// assignedOuter lists, in declaration order, the variables of en assigned somewhere in n.
func assignedOuter(n ast.Node, en *env) []string {
	set := map[string]bool{}
	root := func(e ast.Expr) {
		for {
			switch x := e.(type) {
			case *ast.Ident:
				set[x.Name] = true
				return
			case *ast.SelectorExpr:
				e = x.X
			case *ast.ParenExpr:
				e = x.X
			default:
				return
			}
		}
	}
	ast.Inspect(n, func(x ast.Node) bool {
		switch s := x.(type) {
		case *ast.AssignStmt:
			if s.Tok != token.DEFINE {
				for _, l := range s.Lhs {
					root(l)
				}
			}
		case *ast.IncDecStmt:
			root(s.X)
		}
		return true
	})
	out := []string{}
	for _, v := range en.vars {
		if set[v.name] {
			out = append(out, v.name)
		}
	}
	return out
}

func (c *fnCtx) ifStmt(s *ast.IfStmt, en *env, k kont) string {
	if s.Init != nil {
		inner := en.push()
		return c.stmt(s.Init, inner, func(e2 *env) string {
			cp := *s
			cp.Init = nil
			return c.ifStmt(&cp, e2, func(_ *env) string { return k(en) })
		})
	}
	cond := c.expr(s.Cond, en)
	if cond.T.K != kBool {
		c.fail(s.Cond.Pos(), "if condition of type %s", cond.T.goStr())
	}
	elseOf := func(kk kont) string {
		if s.Else == nil {
			return kk(en)
		}
		return c.stmt(s.Else, en, kk)
	}
	// join form: no branch leaves the statement; the assigned variables come back as a tuple
	if !hasJump(s.Body) && (s.Else == nil || !hasJump(s.Else)) {
		vars := assignedOuter(s, en)
		if len(vars) == 0 {
			return c.effects(cond.E, k(en))
		}
		names := []string{}
		for _, v := range vars {
			names = append(names, coqName(v))
		}
		tup := tupleOf(names)
		res, ok := func() (r string, ok bool) {
			saveJoin, saveTmp := c.inJoin, c.tmp
			defer func() {
				if x := recover(); x != nil {
					if _, is := x.(joinAbort); is && saveJoin == 0 {
						c.inJoin, c.tmp = saveJoin, saveTmp
						r, ok = "", false
						return
					}
					c.inJoin = saveJoin
					panic(x)
				}
			}()
			c.inJoin++
			kk := func(_ *env) string { return tup }
			th := c.block(s.Body, en, kk)
			el := elseOf(kk)
			c.inJoin--
			return "(if " + cond.S + " then\n" + th + "\nelse\n" + el + ")", true
		}()
		if ok {
			pat := tup
			if len(names) > 1 {
				pat = "'" + tup
			}
			return c.effects(cond.E, "let "+pat+" := "+res+" in\n"+k(en))
		}
	}
	th := c.block(s.Body, en, k)
	el := elseOf(k)
	return c.effects(cond.E, "(if "+cond.S+" then\n"+th+"\nelse\n"+el+")")
}

func (c *fnCtx) switchStmt(s *ast.SwitchStmt, en *env, k kont) string {
	if s.Init != nil {
		c.fail(s.Pos(), "switch with an init statement is outside the subset")
	}
	var def *ast.CaseClause
	var clauses []*ast.CaseClause
	for _, st := range s.Body.List {
		cc := st.(*ast.CaseClause)
		for _, b := range cc.Body {
			ast.Inspect(b, func(n ast.Node) bool {
				if br, ok := n.(*ast.BranchStmt); ok && (br.Tok == token.FALLTHROUGH || br.Tok == token.BREAK || br.Tok == token.GOTO) {
					c.fail(br.Pos(), "%s inside a switch is outside the subset", br.Tok)
				}
				return true
			})
		}
		if cc.List == nil {
			def = cc
		} else {
			clauses = append(clauses, cc)
		}
	}
	if s.Tag != nil {
		// the tag is evaluated once; our expressions have no side effects, so repeating it is sound,
		// but keep it a plain variable or field to keep the output small
		switch s.Tag.(type) {
		case *ast.Ident, *ast.SelectorExpr:
		default:
			c.fail(s.Tag.Pos(), "switch tag must be a variable or a field (outside the subset)")
		}
	}
	var build func(i int) ast.Stmt
	build = func(i int) ast.Stmt {
		if i == len(clauses) {
			if def == nil {
				return &ast.BlockStmt{Lbrace: s.Body.Rbrace}
			}
			return &ast.BlockStmt{Lbrace: def.Pos(), List: def.Body}
		}
		cc := clauses[i]
		var cond ast.Expr
		for _, e := range cc.List {
			var one ast.Expr = e
			if s.Tag != nil {
				one = &ast.BinaryExpr{X: s.Tag, OpPos: e.Pos(), Op: token.EQL, Y: e}
			}
			if cond == nil {
				cond = one
			} else {
				cond = &ast.BinaryExpr{X: cond, OpPos: e.Pos(), Op: token.LOR, Y: one}
			}
		}
		return &ast.IfStmt{If: cc.Pos(), Cond: cond, Body: &ast.BlockStmt{Lbrace: cc.Pos(), List: cc.Body}, Else: build(i + 1)}
	}
	return c.stmt(build(0), en, k)
}

func (c *fnCtx) forStmt(s *ast.ForStmt, en *env, k kont) string {
	if c.inLoop {
		c.fail(s.Pos(), "nested loops are outside the subset")
	}
	if c.inJoin > 0 {
		panic(joinAbort{})
	}
	if !c.partial {
		panic(needPartial{})
	}
	if !c.fuel {
		panic(needFuel{})
	}
	outer := en
	if s.Init != nil {
		inner := en.push()
		return c.stmt(s.Init, inner, func(e2 *env) string {
			cp := *s
			cp.Init = nil
			return c.forStmt(&cp, e2, func(_ *env) string { return k(outer) })
		})
	}
	c.nloops++
	name := fmt.Sprintf("%s_loop%d", c.coq, c.nloops)
	binders := []string{}
	callArgs := []string{}
	for _, v := range en.vars {
		if v.ty.K == kPtr {
			binders = append(binders, fmt.Sprintf("(%s_nil : bool)", coqName(v.name)))
			callArgs = append(callArgs, coqName(v.name)+"_nil")
		}
		binders = append(binders, fmt.Sprintf("(%s : %s)", coqName(v.name), coqTy(v.ty)))
		callArgs = append(callArgs, coqName(v.name))
	}
	callS := "(" + name + " fuel " + strings.Join(callArgs, " ") + ")"
	again := func(_ *env) string {
		if s.Post != nil {
			return c.stmt(s.Post, en, func(_ *env) string { return callS })
		}
		return callS
	}
	exit := func(_ *env) string { return k(en) }
	c.inLoop, c.brk, c.cont = true, exit, again
	var body string
	if s.Cond == nil {
		body = c.block(s.Body, en, again)
	} else {
		cond := c.expr(s.Cond, en)
		if cond.T.K != kBool {
			c.fail(s.Cond.Pos(), "loop condition of type %s", cond.T.goStr())
		}
		th := c.block(s.Body, en, again)
		c.inLoop = false
		el := k(en)
		body = c.effects(cond.E, "(if "+cond.S+" then\n"+th+"\nelse\n"+el+")")
	}
	c.inLoop, c.brk, c.cont = false, nil, nil
	def := fmt.Sprintf("Fixpoint %s (fuel : nat) %s {struct fuel} : option %s :=\nmatch fuel with\n| O => None\n| S fuel =>\n%s\nend.\n",
		name, strings.Join(binders, " "), coqTy(c.res), body)
	c.aux = append(c.aux, def)
	return callS
}

func (c *fnCtx) stmt(s ast.Stmt, en *env, k kont) string {
	switch x := s.(type) {
	case *ast.EmptyStmt:
		return k(en)
	case *ast.BlockStmt:
		return c.block(x, en, k)
	case *ast.AssignStmt:
		return c.assign(x, en, k)
	case *ast.IncDecStmt:
		op := token.ADD
		if x.Tok == token.DEC {
			op = token.SUB
		}
		return c.assign(&ast.AssignStmt{Lhs: []ast.Expr{x.X}, TokPos: x.TokPos, Tok: token.ASSIGN,
			Rhs: []ast.Expr{&ast.BinaryExpr{X: x.X, OpPos: x.TokPos, Op: op, Y: &ast.BasicLit{ValuePos: x.TokPos, Kind: token.INT, Value: "1"}}}}, en, k)
	case *ast.DeclStmt:
		gd, ok := x.Decl.(*ast.GenDecl)
		if !ok || gd.Tok != token.VAR {
			c.fail(x.Pos(), "local declaration other than var is outside the subset")
		}
		var lets []string
		var eff []effect
		en2 := en
		for _, sp := range gd.Specs {
			vs := sp.(*ast.ValueSpec)
			if len(vs.Values) != 0 && len(vs.Values) != len(vs.Names) {
				c.fail(vs.Pos(), "var declaration form")
			}
			for i, n := range vs.Names {
				var t *Ty
				if vs.Type != nil {
					t = c.typeOf(vs.Type)
				}
				var val string
				if len(vs.Values) > 0 {
					v := c.expr(vs.Values[i], en)
					if t != nil {
						v = c.conv(v, t, n.Pos())
					} else {
						v = c.materialise(v, n.Pos())
						t = v.T
					}
					eff = append(eff, v.E...)
					val = v.S
				} else {
					if t.K == kPtr {
						c.fail(n.Pos(), "local pointer variable is outside the subset")
					}
					val = zeroOf(t)
				}
				en2 = c.declare(en2, n.Name, t, n.Pos())
				lets = append(lets, "let "+coqName(n.Name)+" := "+val+" in\n")
			}
		}
		return c.effects(eff, strings.Join(lets, "")+k(en2))
	case *ast.IfStmt:
		return c.ifStmt(x, en, k)
	case *ast.SwitchStmt:
		return c.switchStmt(x, en, k)
	case *ast.ForStmt:
		return c.forStmt(x, en, k)
	case *ast.BranchStmt:
		if x.Label != nil || !c.inLoop {
			c.fail(x.Pos(), "%s here is outside the subset", x.Tok)
		}
		if x.Tok == token.BREAK {
			// leaving the loop: the rest of the function is not part of the loop any more
			brk := c.brk
			c.inLoop = false
			r := brk(en)
			c.inLoop = true
			return r
		}
		if x.Tok == token.CONTINUE {
			return c.cont(en)
		}
		c.fail(x.Pos(), "%s is outside the subset", x.Tok)
	case *ast.ReturnStmt:
		return c.returnStmt(x, en)
	case *ast.ExprStmt:
		// logging is not part of the function's result
		if call, ok := x.X.(*ast.CallExpr); ok {
			root := call.Fun
			for {
				switch y := root.(type) {
				case *ast.SelectorExpr:
					root = y.X
					continue
				case *ast.CallExpr:
					root = y.Fun
					continue
				}
				break
			}
			if id, ok := root.(*ast.Ident); ok && id.Name == "glog" && en.lookup("glog") == nil {
				fatal := false
				ast.Inspect(call.Fun, func(n ast.Node) bool {
					if sel, ok := n.(*ast.SelectorExpr); ok && (strings.HasPrefix(sel.Sel.Name, "Fatal") || strings.HasPrefix(sel.Sel.Name, "Exit")) {
						fatal = true
					}
					return true
				})
				if !fatal {
					return k(en)
				}
			}
		}
		c.fail(x.Pos(), "expression statement %s is outside the subset", exprStr(x.X))
	}
	c.fail(s.Pos(), "statement %T is outside the subset", s)
	return ""
}

func (c *fnCtx) returnStmt(x *ast.ReturnStmt, en *env) string {
	var want []*Ty
	if c.res.K == kTuple {
		want = c.res.Tup
	} else {
		want = []*Ty{c.res}
	}
	if len(x.Results) == 0 {
		if len(c.named) == 0 {
			c.fail(x.Pos(), "bare return without named results")
		}
		p := []string{}
		for _, n := range c.named {
			p = append(p, coqName(n))
		}
		return c.ret(tupleOf(p))
	}
	if len(x.Results) == 1 && len(want) > 1 {
		v := c.expr(x.Results[0], en)
		if !sameTy(v.T, c.res) {
			c.fail(x.Pos(), "return of %s where %s is expected", v.T.goStr(), c.res.goStr())
		}
		return c.effects(v.E, c.ret(v.S))
	}
	if len(x.Results) != len(want) {
		c.fail(x.Pos(), "return count mismatch")
	}
	p := []string{}
	var eff []effect
	for i, r := range x.Results {
		v := c.expr(r, en)
		// a pointer result: the struct itself (returning nil is outside the subset)
		if want[i].K == kStruct && v.T.K == kPtr && sameTy(v.T.Elem, want[i]) {
			if v.Nil != "false" {
				c.fail(r.Pos(), "returning a pointer that may be nil is outside the subset")
			}
			v.T = want[i]
		}
		v = c.conv(v, want[i], r.Pos())
		eff = append(eff, v.E...)
		p = append(p, v.S)
	}
	return c.effects(eff, c.ret(tupleOf(p)))
}

// ----- functions -----

func indent(s string) string {
	lines := strings.Split(s, "\n")
	depth := 1
	var b strings.Builder
	for _, ln := range lines {
		b.WriteString(strings.Repeat("  ", depth))
		b.WriteString(ln)
		b.WriteString("\n")
	}
	return strings.TrimRight(b.String(), "\n")
}

// translate emits (once) the definition of fi and returns its signature.
func (t *tr) translate(fi *funcInfo, coqWanted string) *fnOut {
	d := fi.decl
	key := d.Name.Name
	if d.Recv != nil && len(d.Recv.List) == 1 {
		key = recvTypeName(d.Recv.List[0].Type) + "." + key
	}
	full := fi.pkg.dir + ":" + key
	if o, ok := t.done[full]; ok {
		return o
	}
	if t.busy[full] {
		panic(failure{d.Pos(), "recursive function " + key + " is outside the subset"})
	}
	t.busy[full] = true
	defer delete(t.busy, full)
	coq := coqWanted
	if coq == "" {
		coq = strings.ReplaceAll(key, ".", "_")
	}
	if prev, ok := t.coqUsed[coq]; ok && prev != full {
		coq = fi.pkg.name + "_" + coq
	}
	t.coqUsed[coq] = full
	if d.Body == nil {
		panic(failure{d.Pos(), "function without a body"})
	}
	if d.Type.TypeParams != nil {
		panic(failure{d.Pos(), "generic function"})
	}
	var out *fnOut
	partial, fuel := false, false
	for pass := 0; ; pass++ {
		retry := false
		func() {
			defer func() {
				if r := recover(); r != nil {
					switch r.(type) {
					case needPartial:
						partial, retry = true, true
					case needFuel:
						partial, fuel, retry = true, true, true
					case joinAbort:
						panic(failure{d.Pos(), "internal: join abort escaped"})
					default:
						panic(r)
					}
				}
			}()
			out = t.translateOnce(fi, key, coq, partial, fuel)
		}()
		if !retry {
			break
		}
		if pass > 3 {
			panic(failure{d.Pos(), "internal: translation mode does not settle"})
		}
	}
	t.done[full] = out
	return out
}

func (t *tr) translateOnce(fi *funcInfo, key, coq string, partial, fuel bool) *fnOut {
	d := fi.decl
	c := &fnCtx{t: t, fi: fi, coq: coq, partial: partial, fuel: fuel}
	en := &env{}
	out := &fnOut{coq: coq, partial: partial, fuel: fuel}
	binders := []string{}
	addParam := func(name string, ty *Ty, pos token.Pos) {
		if name == "_" || name == "" {
			name = fmt.Sprintf("unused%d", len(out.params))
		}
		if ty.K != kInt && ty.K != kBool && ty.K != kStruct && ty.K != kPtr && ty.K != kList {
			c.fail(pos, "parameter %s of type %s is outside the subset", name, ty.goStr())
		}
		if en.lookup(name) != nil {
			c.fail(pos, "duplicate parameter %s", name)
		}
		en = en.add(name, ty)
		out.params = append(out.params, ty)
		if ty.K == kPtr {
			binders = append(binders, fmt.Sprintf("(%s_nil : bool)", coqName(name)))
		}
		binders = append(binders, fmt.Sprintf("(%s : %s)", coqName(name), coqTy(ty)))
	}
	if d.Recv != nil {
		r := d.Recv.List[0]
		n := ""
		if len(r.Names) == 1 {
			n = r.Names[0].Name
		}
		addParam(n, c.typeOf(r.Type), r.Pos())
	}
	for _, p := range d.Type.Params.List {
		ty := c.typeOf(p.Type)
		if len(p.Names) == 0 {
			addParam("", ty, p.Pos())
		}
		for _, n := range p.Names {
			addParam(n.Name, ty, n.Pos())
		}
	}
	if d.Type.Results == nil || len(d.Type.Results.List) == 0 {
		c.fail(d.Pos(), "function without a result")
	}
	var rts []*Ty
	var inits []string
	for _, r := range d.Type.Results.List {
		ty := c.typeOf(r.Type)
		if ty.K == kPtr {
			ty = ty.Elem // a returned pointer is the (non-nil) struct
			if len(r.Names) > 0 {
				c.fail(r.Pos(), "named pointer result is outside the subset")
			}
		}
		if len(r.Names) == 0 {
			rts = append(rts, ty)
		}
		for _, n := range r.Names {
			rts = append(rts, ty)
			if n.Name == "_" {
				c.fail(n.Pos(), "blank named result is outside the subset")
			}
			c.named = append(c.named, n.Name)
			en = c.declare(en, n.Name, ty, n.Pos())
			inits = append(inits, "let "+coqName(n.Name)+" := "+zeroOf(ty)+" in\n")
		}
	}
	if len(rts) == 1 {
		c.res = rts[0]
	} else {
		c.res = &Ty{K: kTuple, Tup: rts}
	}
	out.res = c.res
	body := c.stmts(d.Body.List, en.push(), func(e2 *env) string {
		if len(c.named) == 0 {
			c.fail(d.Body.Rbrace, "control reaches the end of the function without a return")
		}
		p := []string{}
		for _, n := range c.named {
			p = append(p, coqName(n))
		}
		return c.ret(tupleOf(p))
	})
	body = strings.Join(inits, "") + body
	src := fi.file.src[t.l.fset.Position(d.Pos()).Offset:t.l.fset.Position(d.End()).Offset]
	sum := sha256.Sum256(src)
	var b strings.Builder
	for _, a := range c.aux {
		fmt.Fprintf(&b, "(* loop of %s *)\n%s\n", key, a)
	}
	sig := []string{}
	for _, p := range out.params {
		sig = append(sig, p.goStr())
	}
	fmt.Fprintf(&b, "(* %s: func %s  source sha256 %x\n   Go signature: (%s) -> %s%s *)\n", t.l.pos(d.Pos()), key, sum[:8],
		strings.Join(sig, ", "), goResStr(c.res), map[bool]string{true: "; may panic / loop: result is an option", false: ""}[partial])
	rt := coqTy(c.res)
	if partial {
		rt = "option " + rt
	}
	fb := ""
	if fuel {
		fb = "(fuel : nat) "
	}
	fmt.Fprintf(&b, "Definition %s %s%s : %s :=\n%s.\n", coq, fb, strings.Join(binders, " "), rt, indent(body))
	t.defs = append(t.defs, b.String())
	t.names = append(t.names, coq)
	return out
}

func goResStr(t *Ty) string {
	if t.K == kTuple {
		p := []string{}
		for _, x := range t.Tup {
			p = append(p, x.goStr())
		}
		return "(" + strings.Join(p, ", ") + ")"
	}
	return t.goStr()
}
