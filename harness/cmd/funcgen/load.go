package main

// Source loading: parses the non-test Go files of one package directory of the
// tree under $VERIF_REPO that match the build constraints (go/build.MatchFile with
// the chosen tag set), and indexes type declarations, functions/methods and the
// import table of every file.

import (
	"fmt"
	"go/ast"
	"go/build"
	"go/parser"
	"go/token"
	"os"
	"path/filepath"
	"sort"
	"strings"
)

const modulePrefix = "github.com/chrislusf/seaweedfs/"

type fileInfo struct {
	path    string            // path relative to the repo root
	src     []byte            // file content
	imports map[string]string // local name -> import path
	dots    []string          // dot-imported paths
}

type funcInfo struct {
	decl *ast.FuncDecl
	file *fileInfo
	pkg  *pkgInfo
}

type pkgInfo struct {
	dir    string // relative to repo root, e.g. weed/storage/needle
	name   string // last path element
	types  map[string]*ast.TypeSpec
	tfile  map[string]*fileInfo
	funcs  map[string]*funcInfo // "Name" or "Recv.Name"
	consts map[string]*constDecl
}

type constDecl struct {
	value ast.Expr
	typ   ast.Expr
	file  *fileInfo
}

type loader struct {
	repo string
	tags []string
	fset *token.FileSet
	pkgs map[string]*pkgInfo
}

func newLoader(repo string, tags []string) *loader {
	return &loader{repo: repo, tags: tags, fset: token.NewFileSet(), pkgs: map[string]*pkgInfo{}}
}

func recvTypeName(e ast.Expr) string {
	switch x := e.(type) {
	case *ast.StarExpr:
		return recvTypeName(x.X)
	case *ast.Ident:
		return x.Name
	case *ast.ParenExpr:
		return recvTypeName(x.X)
	}
	return "?"
}

// load returns the package in directory dir (relative to the repo root).
func (l *loader) load(dir string) (*pkgInfo, error) {
	dir = strings.TrimPrefix(dir, modulePrefix)
	if p, ok := l.pkgs[dir]; ok {
		return p, nil
	}
	abs := filepath.Join(l.repo, dir)
	ents, err := os.ReadDir(abs)
	if err != nil {
		return nil, fmt.Errorf("package directory %s: %v", dir, err)
	}
	ctx := build.Default
	ctx.GOOS, ctx.GOARCH = "linux", "amd64"
	ctx.CgoEnabled = false
	ctx.BuildTags = l.tags
	p := &pkgInfo{dir: dir, name: filepath.Base(dir), types: map[string]*ast.TypeSpec{}, tfile: map[string]*fileInfo{}, funcs: map[string]*funcInfo{}, consts: map[string]*constDecl{}}
	names := []string{}
	for _, e := range ents {
		n := e.Name()
		if e.IsDir() || !strings.HasSuffix(n, ".go") || strings.HasSuffix(n, "_test.go") {
			continue
		}
		names = append(names, n)
	}
	sort.Strings(names)
	for _, n := range names {
		ok, err := ctx.MatchFile(abs, n)
		if err != nil {
			return nil, fmt.Errorf("%s/%s: %v", dir, n, err)
		}
		if !ok {
			continue
		}
		src, err := os.ReadFile(filepath.Join(abs, n))
		if err != nil {
			return nil, err
		}
		rel := filepath.Join(dir, n)
		f, err := parser.ParseFile(l.fset, rel, src, parser.ParseComments)
		if err != nil {
			return nil, fmt.Errorf("parse %s: %v", rel, err)
		}
		fi := &fileInfo{path: rel, src: src, imports: map[string]string{}}
		for _, im := range f.Imports {
			path := strings.Trim(im.Path.Value, "\"`")
			local := filepath.Base(path)
			if im.Name != nil {
				local = im.Name.Name
			}
			if local == "." {
				fi.dots = append(fi.dots, path)
			} else if local != "_" {
				fi.imports[local] = path
			}
		}
		for _, d := range f.Decls {
			switch x := d.(type) {
			case *ast.GenDecl:
				if x.Tok == token.CONST {
					for _, sp := range x.Specs {
						vs := sp.(*ast.ValueSpec)
						// only explicit `name = expr` forms (no iota / implicit repetition)
						if len(vs.Values) != len(vs.Names) {
							continue
						}
						for i, n := range vs.Names {
							p.consts[n.Name] = &constDecl{value: vs.Values[i], typ: vs.Type, file: fi}
						}
					}
				}
				if x.Tok == token.TYPE {
					for _, s := range x.Specs {
						ts := s.(*ast.TypeSpec)
						if _, dup := p.types[ts.Name.Name]; dup {
							return nil, fmt.Errorf("%s: type %s declared twice under the chosen build tags", rel, ts.Name.Name)
						}
						p.types[ts.Name.Name] = ts
						p.tfile[ts.Name.Name] = fi
					}
				}
			case *ast.FuncDecl:
				key := x.Name.Name
				if x.Recv != nil && len(x.Recv.List) == 1 {
					key = recvTypeName(x.Recv.List[0].Type) + "." + key
				}
				if key == "init" || key == "_" {
					continue
				}
				if _, dup := p.funcs[key]; dup {
					return nil, fmt.Errorf("%s: function %s declared twice under the chosen build tags", rel, key)
				}
				p.funcs[key] = &funcInfo{decl: x, file: fi, pkg: p}
			}
		}
	}
	l.pkgs[dir] = p
	return p, nil
}

func (l *loader) pos(p token.Pos) string {
	return l.fset.Position(p).String()
}
