//go:build 5BytesOffset
// +build 5BytesOffset

package main

var builtTags = []string{"5BytesOffset"}
