// C27 harness: full ListObjects V1/V2 pagination loops against the REAL S3 gateway
// router (s3api.S3ApiServer.registerRouter -> ListObjectsV1Handler /
// ListObjectsV2Handler -> listFilerEntries -> doListFilerEntries) talking gRPC to
// the real FilerServer.ListEntries over a real filer.Filer on leveldb2 (package
// s3env).  Bucket trees are subsets of a small universe; one case = one tree,
// one (prefix, delimiter, max-keys, allowEmptyFolder) and one continuation style.
package main

import (
	"encoding/xml"
	"fmt"
	"net/url"
	"sort"
	"strings"

	"verifharness/hx"
	"verifharness/s3env"
)

// ---------- universe ----------

// entries ending in "/" are (empty) directories
var universe = []string{"a", "b", "d/a", "d/b", "d/e/a", "d/e/b", "d/f", "da", ".uploads/x/0001.part", "e/"}

// names that extend the directory name "d" by a byte below '/' (filer order differs from
// key order there), an empty folder inside a non-empty one, a nested all-empty folder:
// each is added with probability 1/3
var universe2 = []string{"d-x", "d.x", "d!", "d/g/", "e/h/"}

var prefixes = []string{"", "d", "d/", "d/e", "da", "x"}
var oddPrefixes = []string{"d/e/", "d//", "/d/", ".uploads/", ".uploads/x/", "/", "d/../d/"}
var maxKeysChoices = []int{1, 2, 3, 4, 1000}

// the continuation-token style is what SDK paginators use: twice the weight
var styles = []string{"V2Token", "V2Token", "V1NextMarker", "V1LastKey", "V2StartAfter"}
var oddStarts = []string{"a", "b", "d", "d/", "d/a", "d/b", "d/e", "d/e/", "d/e/a", "da", "e", "zz", ".uploads/", ".uploads/x/", "x/y/z",
	"d-x", "d.x", "d!", "d-", "d-x/a", "d/g", "e/h", "/", "/a", "d//a", "//", "d//"}

// values sent in the parameters the handler must not read (marker on list-type=2 requests,
// continuation-token / start-after on V1 requests)
var strays = []string{"b", "d/b", "d/e/a", "da", "zz", "d.x"}

const pageCap = 14

// ---------- trees ----------

type node struct {
	name string
	dir  bool
	kids map[string]*node
}

func buildTree(items []string) *node {
	root := &node{dir: true, kids: map[string]*node{}}
	for _, it := range items {
		isDir := strings.HasSuffix(it, "/")
		segs := strings.Split(strings.TrimSuffix(it, "/"), "/")
		cur := root
		for i, s := range segs {
			last := i == len(segs)-1
			k, ok := cur.kids[s]
			if !ok {
				k = &node{name: s, dir: !last || isDir, kids: map[string]*node{}}
				cur.kids[s] = k
			}
			cur = k
		}
	}
	return root
}

func coqKids(n *node) string {
	names := make([]string, 0, len(n.kids))
	for k := range n.kids {
		names = append(names, k)
	}
	sort.Strings(names) // byte order, as leveldb
	xs := make([]string, len(names))
	for i, k := range names {
		c := n.kids[k]
		if c.dir {
			xs[i] = "D " + coqSeg(k) + " " + coqKids(c)
		} else {
			xs[i] = "F " + coqSeg(k)
		}
	}
	return hx.List(xs)
}

// buildItems is the closed item set of a tree (every directory as "path/").
func buildItems(items []string) []string {
	var out []string
	var walk func(n *node, pre string)
	walk = func(n *node, pre string) {
		for k, c := range n.kids {
			if c.dir {
				out = append(out, pre+k+"/")
				walk(c, pre+k+"/")
			} else {
				out = append(out, pre+k)
			}
		}
	}
	walk(buildTree(items), "")
	return out
}

// ---------- the world ----------

const bucketDir = s3env.BucketsPath + "/b"

type world struct {
	env *s3env.Env
}

func (w *world) build(items []string) {
	w.env.Wipe(s3env.BucketsPath)
	w.env.Mkdir(bucketDir)
	for _, it := range items {
		if strings.HasSuffix(it, "/") {
			w.env.Mkdir(bucketDir + "/" + strings.TrimSuffix(it, "/"))
		} else {
			w.env.PutFile(bucketDir+"/"+it, []byte("x"))
		}
	}
}

// current reads the bucket back from the raw store: the items (files, and every
// directory as "path/") that exist now.  A LIST request deletes folders.
func (w *world) current() []string {
	var items []string
	for _, n := range w.env.Snapshot(bucketDir) {
		rel := strings.TrimPrefix(n.Path, bucketDir+"/")
		if n.IsDir {
			rel += "/"
		}
		items = append(items, rel)
	}
	return items
}

// ---------- one page ----------

type listResult struct {
	XMLName               xml.Name `xml:"ListBucketResult"`
	IsTruncated           bool     `xml:"IsTruncated"`
	NextMarker            string   `xml:"NextMarker"`
	NextContinuationToken string   `xml:"NextContinuationToken"`
	Contents              []struct {
		Key string `xml:"Key"`
	} `xml:"Contents"`
	CommonPrefixes []struct {
		Prefix string `xml:"Prefix"`
	} `xml:"CommonPrefixes"`
}

type page struct {
	keys, cps []string
	trunc     bool
	next      string
}

type params struct {
	ae      bool
	prefix  string
	maxKeys int
	delim   bool
	style   string
	start   string // marker (V1) / start-after (V2) of the first request
	resend  bool   // V2Token: the original start-after goes with every token; V2StartAfter: the page's token goes with the moved start-after
	stray   string // sent in the parameters of the other API version ("" = not sent)
	fo      bool   // fetch-owner=true
	enc     bool   // encoding-type=url
}

// request is one GET /b?... (model/S3ListV2.v request)
type request struct {
	v2                        bool
	marker, token, startAfter string
}

func (p params) v2() bool { return p.style == "V2Token" || p.style == "V2StartAfter" }

func (p params) v1Request(marker string) request {
	return request{v2: false, marker: marker, token: p.stray, startAfter: p.stray}
}
func (p params) v2Request(token, startAfter string) request {
	return request{v2: true, marker: p.stray, token: token, startAfter: startAfter}
}
func (p params) firstRequest() request {
	if p.v2() {
		return p.v2Request("", p.start)
	}
	return p.v1Request(p.start)
}

// nextRequest is the client of model/S3ListV2.v next_request
func (p params) nextRequest(pg page) (request, bool) {
	switch p.style {
	case "V2Token":
		sa := ""
		if p.resend {
			sa = p.start
		}
		return p.v2Request(pg.next, sa), true
	case "V2StartAfter":
		k, ok := lastKey(pg)
		if !ok {
			return request{}, false
		}
		tok := ""
		if p.resend {
			tok = pg.next
		}
		return p.v2Request(tok, k), true
	case "V1NextMarker":
		return p.v1Request(pg.next), true
	default:
		k, ok := lastKey(pg)
		if !ok {
			return request{}, false
		}
		return p.v1Request(k), true
	}
}

func (w *world) page(p params, rq request) page {
	q := url.Values{}
	v2 := rq.v2
	if v2 {
		q.Set("list-type", "2")
	}
	if p.prefix != "" {
		q.Set("prefix", p.prefix)
	}
	if p.delim {
		q.Set("delimiter", "/")
	}
	q.Set("max-keys", fmt.Sprint(p.maxKeys))
	if rq.marker != "" {
		q.Set("marker", rq.marker)
	}
	if rq.token != "" {
		q.Set("continuation-token", rq.token)
	}
	if rq.startAfter != "" {
		q.Set("start-after", rq.startAfter)
	}
	if p.fo {
		q.Set("fetch-owner", "true")
	}
	if p.enc {
		q.Set("encoding-type", "url")
	}
	w.env.S3.VerifS3SetAllowEmptyFolder(p.ae)
	r := w.env.Do("GET", "/b?"+q.Encode(), nil, nil)
	if r.Status != 200 {
		panic(fmt.Sprintf("list %+v request %+v: status %d: %s", p, rq, r.Status, r.Body))
	}
	var lr listResult
	hx.Must(xml.Unmarshal(r.Body, &lr))
	pg := page{trunc: lr.IsTruncated}
	if v2 {
		pg.next = lr.NextContinuationToken
	} else {
		pg.next = lr.NextMarker
	}
	for _, c := range lr.Contents {
		pg.keys = append(pg.keys, c.Key)
	}
	for _, c := range lr.CommonPrefixes {
		pg.cps = append(pg.cps, c.Prefix)
	}
	return pg
}

// lastKey is the last item of the page in S3 (byte) order.
func lastKey(pg page) (string, bool) {
	k, c := "", ""
	if len(pg.keys) > 0 {
		k = pg.keys[len(pg.keys)-1]
	}
	if len(pg.cps) > 0 {
		c = pg.cps[len(pg.cps)-1]
	}
	if k == "" && c == "" {
		return "", false
	}
	if k < c {
		return c, true
	}
	return k, true
}

// paginate is the client: it continues as the style says until a page is not
// truncated (or it cannot continue, or pageCap pages were read).
func (w *world) paginate(p params) (pages []page) {
	rq := p.firstRequest()
	for len(pages) < pageCap {
		pg := w.page(p, rq)
		pages = append(pages, pg)
		if !pg.trunc {
			break
		}
		next, ok := p.nextRequest(pg)
		if !ok {
			return
		}
		rq = next
	}
	return
}

// Coq string literals are slow to parse, so known segment names are printed as the
// constants defined in check/C27.v and composite strings as J [segments].
var segIdent = map[string]string{"": "s_", "a": "sa", "b": "sb", "d": "sd", "da": "sda", "e": "se", "f": "sf",
	"x": "sx", "y": "sy", "z": "sz", "zz": "szz", ".uploads": "sup", "0001.part": "spart",
	"d-x": "sdm", "d.x": "sdp", "d!": "sdb", "g": "sg", "h": "sh"}

func coqSeg(s string) string {
	if id, ok := segIdent[s]; ok {
		return id
	}
	return hx.Str(s)
}

func coqStr(s string) string {
	if !strings.Contains(s, "/") {
		return coqSeg(s)
	}
	segs := strings.Split(s, "/")
	xs := make([]string, len(segs))
	for i, g := range segs {
		xs[i] = coqSeg(g)
	}
	return "(J " + hx.List(xs) + ")"
}

func strList(xs []string) string {
	ys := make([]string, len(xs))
	for i, x := range xs {
		ys[i] = coqStr(x)
	}
	return hx.List(ys)
}

func coqPage(pg page) string {
	return fmt.Sprintf("P %s %s %s %s", strList(pg.keys), strList(pg.cps), hx.Bool(pg.trunc), coqStr(pg.next))
}

// ---------- main ----------

func mkp(ae bool, prefix string, maxKeys int, delim bool, style, start string) params {
	return params{ae: ae, prefix: prefix, maxKeys: maxKeys, delim: delim, style: style, start: start}
}

type spec struct {
	items []string
	p     params
	kind  string
}

func main() {
	out := hx.Flags("C27", 400)
	out.Rule = "bucket trees = subsets of {a, b, d/a, d/b, d/e/a, d/e/b, d/f, da, .uploads/x/0001.part, e/ (empty dir)} (each 2/3) plus {d-x, d.x, d! (extend a directory name by a byte below '/'; each 1/2), d/g/ (empty folder in a non-empty one), e/h/ (each 1/3)}, created through filer.Filer.CreateEntry (inline content) over leveldb2; prefix in {\"\", d, d/, d/e, da, x} (1 in 12: an odd prefix such as d//, /d/, .uploads/), delimiter \"\" or /, max-keys in {1,2,3,4,1000}, allowEmptyFolder on/off; the client is request-level (model/S3ListV2.v): style in {V2 continuation-token (weight 2), V1 NextMarker, V1 last key as marker, V2 last key as start-after}; V2 requests carry list-type=2, fetch-owner=true 1 in 4, every request encoding-type=url 1 in 6, 1 case in 6 also sends a stray value in the parameters of the other API version (marker on V2, continuation-token+start-after on V1); the first request starts at a client-chosen marker (V1, 1 in 8) / start-after (V2, 1 in 2: two times in three a key or folder of this very bucket, then mostly with a prefix of that key, else one of 27 odd starts, among them d.x, d-x, d!, and markers with an empty segment); V2 clients resend 1 in 2: the continuation-token style resends the ORIGINAL start-after with every token (AWS SDK paginators), the start-after style sends the page's NextContinuationToken beside the moved start-after; every case is a FULL pagination loop (at most 14 pages) through the real S3 router (V1/V2 handler chosen by the router from list-type) and the real filer gRPC ListEntries; the bucket is NOT restored between pages (a delimiter listing deletes folders), the bucket tree after the last request is read back from the raw store and compared; the oracle judges the concatenated pages against the keys behind the first marker / start-after; the first 10 cases are the fixed witnesses of the known findings; non-trivial = some page holds a key; distinct = canonical input"
	env := s3env.New(s3env.Options{})
	defer env.Close()
	w := &world{env: env}
	root := hx.NewRng(out.Seed)

	witnesses := []spec{
		{[]string{"d/a", "d/b", "d/e/a"}, mkp(false, "d/", 1, false, "V1LastKey", ""), "witness-k0"},
		{[]string{".uploads/x/0001.part", "a", "b", "da"}, mkp(false, "", 2, false, "V2Token", ""), "witness-k1"},
		{[]string{"a", "d/a", "d/b", "da"}, mkp(false, "", 1, true, "V1LastKey", ""), "witness-k2"},
		{[]string{"d/e/a", "d/e/b", "d/f", "da"}, mkp(false, "", 1, false, "V2Token", ""), "witness-k3"},
		{[]string{".uploads/x/0001.part", "a"}, mkp(false, ".uploads/", 1000, false, "V2Token", ""), "witness-k4"},
		{[]string{"d/e/a", "da"}, mkp(false, "", 1000, false, "V2StartAfter", "d"), "witness-k5"},
		{[]string{"d/a", "d.x"}, mkp(false, "", 1000, false, "V2StartAfter", "d.x"), "witness-k6"},
		{[]string{"d/a", "d/b", "d.x"}, mkp(false, "", 1000, false, "V1NextMarker", "d/a"), "witness-k6"},
		{[]string{"a", "d/a", "d/e/a", "da"}, mkp(false, "", 1000, true, "V1NextMarker", "/"), "witness-k7"},
		{[]string{"a", "d/a", "d/e/a", "da"}, mkp(false, "d//", 1000, true, "V2Token", ""), "witness-k7"},
	}

	for i := 0; i < out.N; i++ {
		r := root.Fork()
		var s spec
		if i < len(witnesses) {
			s = witnesses[i]
		} else {
			// subset: each entry with probability 2/3, so that full-ish trees are common
			for _, u := range universe {
				if r.Chance(2, 3) {
					s.items = append(s.items, u)
				}
			}
			for _, u := range universe2 {
				// the three names that sort between "d" and "d/": each half of the time
				den := 3
				if !strings.Contains(u, "/") {
					den = 2
				}
				if r.Chance(1, den) {
					s.items = append(s.items, u)
				}
			}
			s.p.ae = r.Chance(1, 3)
			s.p.delim = r.Bool()
			s.p.maxKeys = r.PickInt(maxKeysChoices)
			s.p.style = r.PickStr(styles)
			v2 := s.p.v2()
			oddPrefix := r.Chance(1, 12)
			if oddPrefix {
				s.p.prefix = r.PickStr(oddPrefixes)
				s.kind = "odd-prefix"
			} else {
				s.p.prefix = r.PickStr(prefixes)
				s.kind = "loop"
			}
			// the first request may start anywhere: V1 marker, V2 start-after (also for a
			// client that then follows the continuation tokens).  V2 clients start after a
			// key more often (start-after is what list-type=2 adds), two times in three after
			// a key or folder of this very bucket, and then mostly with a prefix of that key
			startOdds := 8
			if v2 {
				startOdds = 2
			}
			if r.Chance(1, startOdds) {
				closed := buildItems(s.items)
				sort.Strings(closed)
				if v2 && len(closed) > 0 && r.Chance(2, 3) {
					s.p.start = closed[r.Intn(len(closed))]
					if !oddPrefix && r.Chance(3, 4) {
						var fit []string
						for _, pf := range prefixes {
							if strings.HasPrefix(s.p.start, pf) {
								fit = append(fit, pf)
							}
						}
						s.p.prefix = r.PickStr(fit)
					}
				} else {
					s.p.start = r.PickStr(oddStarts)
				}
				s.kind = "start"
			}
			if v2 {
				// SDK paginators resend the original start-after with every token
				s.p.resend = r.Bool()
				s.p.fo = r.Chance(1, 4)
			}
			s.p.enc = r.Chance(1, 6)
			if r.Chance(1, 6) {
				// parameters of the other API version
				s.p.stray = r.PickStr(strays)
			}
			if s.p.resend {
				s.kind += "+resend"
			}
		}
		w.build(s.items)
		pages := w.paginate(s.p)
		final := w.current()
		deleted := len(final) != len(buildItems(s.items))

		ps := make([]string, len(pages))
		nontrivial := false
		nkeys := 0
		for j, pg := range pages {
			ps[j] = coqPage(pg)
			if len(pg.keys) > 0 {
				nontrivial = true
			}
			nkeys += len(pg.keys)
		}
		term := fmt.Sprintf("{| c_ae := %s; c_tree := %s; c_prefix := %s; c_maxkeys := %s; c_delim := %s; c_style := %s; c_start := %s; c_resend := %s; c_stray := %s; c_fo := %s; c_enc := %s; c_cap := %s; c_pages := %s; c_final := %s |}",
			hx.Bool(s.p.ae), coqKids(buildTree(s.items)), coqStr(s.p.prefix), hx.Z(int64(s.p.maxKeys)), hx.Bool(s.p.delim), s.p.style, coqStr(s.p.start), hx.Bool(s.p.resend), coqStr(s.p.stray), hx.Bool(s.p.fo), hx.Bool(s.p.enc), hx.Nat(pageCap), hx.List(ps), coqKids(buildTree(final)))
		canon := fmt.Sprintf("%v|%+v", s.items, s.p)
		out.Add(term, canon, nontrivial, s.kind)
		out.Count("style:"+s.p.style, 1)
		if s.p.v2() {
			out.Count(fmt.Sprintf("v2:start-after=%v,resend=%v", s.p.start != "", s.p.resend), 1)
			if s.p.start != "" && s.p.resend && len(pages) > 1 {
				out.Count("v2:token+start-after-on-follow-up-page", len(pages)-1)
				for _, pg := range pages[:len(pages)-1] {
					if pg.next < s.p.start {
						out.Count("v2:token-sorts-below-resent-start-after", 1)
					}
				}
			}
		}
		if s.p.stray != "" {
			out.Count("stray-params", 1)
		}
		out.Count(fmt.Sprintf("maxkeys:%d", s.p.maxKeys), 1)
		out.Count("prefix:"+s.p.prefix, 1)
		out.Count(fmt.Sprintf("delim:%v", s.p.delim), 1)
		out.Count(fmt.Sprintf("pages:%d", len(pages)), 1)
		out.Count(fmt.Sprintf("tree-size:%d", len(s.items)), 1)
		if deleted {
			out.Count("list-deleted-folders", 1)
		}
		if len(pages) == pageCap && pages[len(pages)-1].trunc {
			out.Count("page-cap-hit", 1)
		}
	}
	out.Write()
}
