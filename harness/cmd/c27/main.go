package main

import (
	"fmt"
	"os"
	"strings"

	"verifharness/s3env"
)

func main() {
	e := s3env.New(s3env.Options{})
	defer e.Close()
	b := "/buckets/b"
	e.Mkdir(b)
	for _, f := range strings.Split(os.Args[1], ",") {
		if strings.HasSuffix(f, "/") {
			e.Mkdir(b + "/" + strings.TrimSuffix(f, "/"))
		} else {
			e.PutFile(b+"/"+f, []byte("x"))
		}
	}
	e.Mkdir("/buckets/other")
	e.PutFile("/buckets/other/obj", []byte("victim"))
	fmt.Print(e.SnapshotString("/buckets"))
	for _, t := range os.Args[2:] {
		e.Store.Take()
		m := "GET"
		if i := len(t); i > 0 && t[0] != '/' {
			for j := 0; j < len(t); j++ {
				if t[j] == ' ' {
					m, t = t[:j], t[j+1:]
					break
				}
			}
		}
		r := e.Do(m, t, nil, nil)
		fmt.Printf("== %s %s -> %d\n%s\n", m, t, r.Status, r.Body)
		for _, c := range e.Store.Take() {
			fmt.Printf("   %s %s\n", c.Op, c.Path)
		}
	}
}
