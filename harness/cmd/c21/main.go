// C21 harness: histories of link / unlink / write / rename / overwrite / delete over a few
// names and link ids on the real filer.Filer (leveldb2) behind the real gRPC handlers of
// FilerServer (the mount's Link / flush / setattr / unlink sequences are replayed through
// LookupDirectoryEntry, UpdateEntry, CreateEntry, DeleteEntry as weed/filesys issues them).
// After EVERY operation: error class, raw per-name blobs, raw KV records, FindEntry per name.
package main

import (
	"fmt"
	"strings"

	"verifharness/cmd/c20/fw"
	"verifharness/hx"
)

func ch(k uint64, i int) fw.Chunk { return fw.Chunk{Key: k, Off: int64(i) * 10, Size: 10, Mtime: int64(k)} }

func file(tag int, cs ...fw.Chunk) fw.Ent {
	return fw.Ent{Perm: 0644, Uid: uint32(tag), Mtime: int64(tag), Crtime: int64(tag), Chunks: cs}
}

type witness struct {
	name string
	ops  []fw.Op
}

var witnesses = []witness{
	// k=0: the renamed name is a detached copy: a write through the other name is not seen through it
	{"k0-rename-detaches", []fw.Op{
		{Kind: fw.OpCreate, Path: "/a", E: file(1, ch(1, 0), ch(2, 1))},
		{Kind: fw.OpLink, Path: "/a", Path2: "/b", NewId: 1},
		{Kind: fw.OpRename, Path: "/a", Path2: "/c"},
		{Kind: fw.OpWrite, Path: "/b", Chunks: []fw.Chunk{ch(5, 0)}, Mtime: 9, Via: true},
	}},
	// repaired (was k=1): a plain upload over a linked name now decrements the counter; the record goes with the last name
	{"fixed-overwrite-decrements-counter", []fw.Op{
		{Kind: fw.OpCreate, Path: "/a", E: file(1, ch(1, 0), ch(2, 1))},
		{Kind: fw.OpLink, Path: "/a", Path2: "/b", NewId: 1},
		{Kind: fw.OpCreate, Path: "/b", E: file(3, ch(7, 0))},
		{Kind: fw.OpUnlink, Path: "/a"},
	}},
	// repaired (was k=2): recursive delete without data deletion now decrements the counters of the removed names
	{"fixed-recursive-nodata", []fw.Op{
		{Kind: fw.OpCreate, Path: "/d/a", E: file(1, ch(1, 0), ch(2, 1))},
		{Kind: fw.OpLink, Path: "/d/a", Path2: "/b", NewId: 1},
		{Kind: fw.OpDelete, Path: "/d", Rec: true, Data: false},
		{Kind: fw.OpUnlink, Path: "/b"},
	}},
	// repaired (was k=1): a rename onto a linked name decrements its counter
	{"fixed-rename-onto-link", []fw.Op{
		{Kind: fw.OpCreate, Path: "/a", E: file(1, ch(1, 0))},
		{Kind: fw.OpLink, Path: "/a", Path2: "/b", NewId: 1},
		{Kind: fw.OpCreate, Path: "/c", E: file(2, ch(3, 0))},
		{Kind: fw.OpRename, Path: "/c", Path2: "/b"},
	}},
	// clean: two groups, writes through every name (flush and setattr), unlink down to zero
	{"ok-two-groups", []fw.Op{
		{Kind: fw.OpCreate, Path: "/a", E: file(1, ch(1, 0), ch(2, 1))},
		{Kind: fw.OpLink, Path: "/a", Path2: "/b", NewId: 1},
		{Kind: fw.OpLink, Path: "/b", Path2: "/d/a", NewId: 2},
		{Kind: fw.OpCreate, Path: "/c", E: file(2, ch(3, 0))},
		{Kind: fw.OpLink, Path: "/c", Path2: "/d/b", NewId: 2},
		{Kind: fw.OpWrite, Path: "/d/a", Chunks: []fw.Chunk{ch(1, 0), ch(4, 1)}, Mtime: 5, Via: true},
		{Kind: fw.OpWrite, Path: "/b", Chunks: []fw.Chunk{ch(1, 0), ch(4, 1)}, Mtime: 6, Via: false},
		{Kind: fw.OpAppend, Path: "/d/b", Chunks: []fw.Chunk{{Key: 6, Size: 5, Mtime: 6}}},
		{Kind: fw.OpUnlink, Path: "/a"},
		{Kind: fw.OpDelete, Path: "/d", Rec: true, Data: true},
		{Kind: fw.OpUnlink, Path: "/b"},
		{Kind: fw.OpUnlink, Path: "/c"},
	}},
}

var paths = []string{"/a", "/b", "/c", "/d", "/d/a", "/d/b"}

// create, update, append, delete, rename, link, write, unlink
var mix = fw.Mix{12, 6, 6, 8, 14, 24, 18, 12}

func main() {
	out := hx.Flags("C21", 300)
	w := fw.NewWorld()
	defer w.Close()
	out.Rule = "case = history from the empty filer; after every op: error class, raw per-name blobs, raw KV records, FindEntry per name. " +
		"The first cases of shard 0 are the fixed witness of the known finding k=0, the witnesses of the two repaired defects (overwrite of a linked name, recursive delete without data) and a clean two-group sequence; the others are random histories of 4..14 ops over the names " +
		"{/a,/b,/c,/d,/d/a,/d/b} and the link ids 1..6 (a fresh one per link group): create 12%, update 6%, append 6%, delete 8%, rename 14%, link 24%, write 18% (flush or setattr), unlink 12%; " +
		"names are picked among existing entries 45..92% of the time; no manifests; every 6th case breaks a client assumption in ~15% of its ops (raw link id, used link id, link onto an existing name) " +
		"and is judged on correspondence only. non-trivial = assumptions hold and a link record existed at some point; distinct = canonical op list"

	root := hx.NewRng(out.Seed)
	shard := int(out.Seed % 1000)
	for i := 0; i < out.N; i++ {
		r := root.Fork()
		w.Reset()
		var ops, impl, canon []string
		kind := "random"
		linked := false
		record := func(o fw.Op) fw.Obs {
			b := w.Step(o)
			if strings.HasPrefix(b.Class, "EOther") {
				panic("unclassified error on " + fw.CanonOp(o) + ": " + b.Class)
			}
			ops = append(ops, fw.CoqOp(o))
			impl = append(impl, fw.CoqObs(b))
			canon = append(canon, fw.CanonOp(o))
			out.Count("op:"+fw.OpNames[o.Kind], 1)
			out.Count("err:"+b.Class, 1)
			out.Count(fmt.Sprintf("records:%d", len(b.Kv)), 1)
			if len(b.Kv) > 0 {
				linked = true
			}
			return b
		}
		if shard == 0 && i < len(witnesses) {
			kind = "witness"
			for _, o := range witnesses[i].ops {
				record(o)
			}
		} else {
			g := fw.NewGen(w, r, paths)
			g.ManifestPct, g.RewrapPct = 0, 0
			if i%6 == 5 {
				g.MalformedPct = 15
				kind = "malformed"
			}
			n := r.Range(4, 14)
			// start with a create, so that there is something to link
			g.Last = record(g.Op(fw.Mix{1, 0, 0, 0, 0, 0, 0, 0}))
			for j := 1; j < n; j++ {
				g.Last = record(g.Op(mix))
			}
		}
		term := fmt.Sprintf("{| c_env := %s; ops := %s; impl := %s |}", w.CoqEnv(), hx.List(ops), hx.List(impl))
		out.Add(term, strings.Join(canon, ";"), linked, kind)
	}
	out.Write()
}
