package main

import (
	"context"
	"errors"
	"fmt"
	"os"
	"sort"
	"strings"
	"time"

	"github.com/chrislusf/seaweedfs/weed/filer"
	"github.com/chrislusf/seaweedfs/weed/filer/leveldb"
	leveldb2 "github.com/chrislusf/seaweedfs/weed/filer/leveldb2"
	leveldb3 "github.com/chrislusf/seaweedfs/weed/filer/leveldb3"
	"github.com/chrislusf/seaweedfs/weed/pb/filer_pb"
	weed_server "github.com/chrislusf/seaweedfs/weed/server"
	"github.com/chrislusf/seaweedfs/weed/util"
)

// ---------- a FilerStore that delegates to the real embedded store ----------
//
// It adds nothing to the behaviour except (1) remembering every path ever
// written, so that the whole store can be dumped (orphans included) although
// leveldb2/3 keys only hold a hash of the directory, and (2) a safety cap: an
// insert deeper than capDepth segments, or more than capWrites writes during one
// operation, fails with errCap, so that a runaway recursion cannot fill the disk.

var errCap = errors.New("verif-cap: runaway write refused by the harness store")

type capStore struct {
	filer.FilerStore
	seen     map[string]bool
	writes   int
	capDepth int
	capWrite int
	capHit   bool
}

func depthOf(p util.FullPath) int { return len(p.Split()) }

func (c *capStore) guard(e *filer.Entry) error {
	c.writes++
	if depthOf(e.FullPath) > c.capDepth || c.writes > c.capWrite {
		c.capHit = true
		return errCap
	}
	c.seen[string(e.FullPath)] = true
	return nil
}

func (c *capStore) InsertEntry(ctx context.Context, e *filer.Entry) error {
	if err := c.guard(e); err != nil {
		return err
	}
	return c.FilerStore.InsertEntry(ctx, e)
}

func (c *capStore) UpdateEntry(ctx context.Context, e *filer.Entry) error {
	if err := c.guard(e); err != nil {
		return err
	}
	return c.FilerStore.UpdateEntry(ctx, e)
}

// ---------- configuration stub for Initialize ----------

type dirConf struct{ dir string }

func (d dirConf) GetString(key string) string {
	if strings.HasSuffix(key, "dir") {
		return d.dir
	}
	return ""
}
func (d dirConf) GetBool(string) bool                { return false }
func (d dirConf) GetInt(string) int                  { return 0 }
func (d dirConf) GetStringSlice(string) []string     { return nil }
func (d dirConf) SetDefault(string, interface{})     {}

// ---------- the world: real store + real Filer + real FilerServer ----------

type world struct {
	dir   string
	raw   filer.FilerStore
	cap   *capStore
	f     *filer.Filer
	fs    *weed_server.FilerServer
	ctx   context.Context
}

func newWorld(kind string) *world {
	dir, err := os.MkdirTemp("", "c18-"+kind+"-")
	if err != nil {
		panic(err)
	}
	var raw filer.FilerStore
	switch kind {
	case "leveldb":
		raw = &leveldb.LevelDBStore{}
	case "leveldb2":
		raw = &leveldb2.LevelDB2Store{}
	case "leveldb3":
		raw = &leveldb3.LevelDB3Store{}
	default:
		panic("unknown store " + kind)
	}
	if err := raw.Initialize(dirConf{dir}, kind+"."); err != nil {
		panic(err)
	}
	w := &world{dir: dir, raw: raw, ctx: context.Background()}
	w.cap = &capStore{FilerStore: raw, seen: map[string]bool{}, capDepth: 120, capWrite: 4000}
	w.f = filer.NewFilerForVerif(w.cap, "/buckets")
	w.fs = weed_server.NewFilerServerForVerif(w.f)
	return w
}

func (w *world) close() {
	w.raw.Shutdown()
	os.RemoveAll(w.dir)
}

// reset removes every entry ever written (directly on the raw store).
func (w *world) reset() {
	for p := range w.cap.seen {
		if err := w.raw.DeleteEntry(w.ctx, util.FullPath(p)); err != nil {
			panic(err)
		}
	}
	w.cap.seen = map[string]bool{}
	w.cap.capHit = false
	w.f.VerifPendingChunkDeletions()
}

// ---------- projected entries ----------

type ent struct {
	dir    bool
	perm   uint32
	uid    uint32
	chunks []uint64 // chunk "ids": the needle key part of the file id  "1,<key hex>00000001"
	ext    []extKV  // Extended attributes, sorted by key
}

type extKV struct {
	k string
	v []byte
}

func fid(k uint64) string { return fmt.Sprintf("1,%x00000001", k) }

func (e ent) toEntry(p string) *filer.Entry {
	mode := os.FileMode(e.perm)
	if e.dir {
		mode |= os.ModeDir
	}
	t := time.Unix(1600000000, 0)
	en := &filer.Entry{FullPath: util.FullPath(p), Attr: filer.Attr{Mtime: t, Crtime: t, Mode: mode, Uid: e.uid, Gid: 7}}
	for i, k := range e.chunks {
		en.Chunks = append(en.Chunks, &filer_pb.FileChunk{FileId: fid(k), Offset: int64(i) * 10, Size: 10, Mtime: 1})
	}
	if len(e.ext) > 0 {
		en.Extended = map[string][]byte{}
		for _, kv := range e.ext {
			en.Extended[kv.k] = append([]byte{}, kv.v...)
		}
	}
	return en
}

func project(e *filer.Entry) ent {
	r := ent{dir: e.IsDirectory(), perm: uint32(e.Mode & os.ModePerm), uid: e.Uid}
	for _, c := range e.Chunks {
		var vid uint32
		var key uint64
		var cookie uint32
		s := c.GetFileIdString()
		if _, err := fmt.Sscanf(s, "%d,%x", &vid, &key); err != nil {
			panic("bad fid " + s)
		}
		_ = cookie
		r.chunks = append(r.chunks, key>>32)
	}
	for k, v := range e.Extended {
		r.ext = append(r.ext, extKV{k, append([]byte{}, v...)})
	}
	sort.Slice(r.ext, func(i, j int) bool { return r.ext[i].k < r.ext[j].k })
	return r
}

type dumpRow struct {
	path string
	e    ent
}

// dump reads every path ever written from the raw store, sorted by path.
func (w *world) dump() []dumpRow {
	paths := make([]string, 0, len(w.cap.seen))
	for p := range w.cap.seen {
		paths = append(paths, p)
	}
	sort.Strings(paths)
	var rows []dumpRow
	for _, p := range paths {
		e, err := w.raw.FindEntry(w.ctx, util.FullPath(p))
		if err == filer_pb.ErrNotFound {
			continue
		}
		if err != nil {
			panic(err)
		}
		rows = append(rows, dumpRow{p, project(e)})
	}
	return rows
}

// ---------- operations ----------

type opKind int

const (
	opCreate opKind = iota
	opUpdate
	opDelete
	opRename
)

type op struct {
	kind   opKind
	path   string // create/update/delete
	e      ent
	excl   bool
	rec    bool
	ign    bool
	oldDir string // rename
	oldNm  string
	newDir string
	newNm  string
}

// error classes (names of the Coq constructors of FilerNS.err)
func classify(err error, capHit bool) string {
	if capHit {
		return "OutOfFuel"
	}
	if err == nil {
		return "OK"
	}
	m := err.Error()
	switch {
	case strings.Contains(m, "verif-cap"):
		return "OutOfFuel"
	case strings.Contains(m, "subdirectory of itself"), strings.Contains(m, "invalid entry name"),
		strings.Contains(m, "can not move across collection"):
		return "EInvalid"
	case strings.Contains(m, filer.MsgFailDelNonEmptyFolder):
		return "ENotEmpty"
	case strings.Contains(m, "EEXIST"):
		return "EExist"
	case strings.Contains(m, "existing") && strings.Contains(m, "is a directory"):
		return "EIsDir"
	case strings.Contains(m, "existing") && strings.Contains(m, "is a file"):
		return "EIsFile"
	case strings.Contains(m, "is a file"):
		return "ENotDir"
	case strings.Contains(m, filer_pb.ErrNotFound.Error()):
		return "ENotFound"
	}
	return "EOther"
}

// apply runs one operation on the real code. Rename runs in a goroutine with a
// timeout; a timeout is reported as OutOfFuel (the world must then be discarded).
func (w *world) apply(o op) (class string, timedOut bool) {
	w.cap.writes = 0
	w.cap.capHit = false
	var err error
	switch o.kind {
	case opCreate:
		err = w.f.CreateEntry(w.ctx, o.e.toEntry(o.path), o.excl, false, nil)
	case opUpdate:
		// the real gRPC handler FilerServer.UpdateEntry: FindEntry, cleanupChunks, the EqualEntry
		// short-circuit, then Filer.UpdateEntry(found, new)
		en := o.e.toEntry(o.path)
		d, _ := dirName(o.path)
		_, err = w.fs.UpdateEntry(w.ctx, &filer_pb.UpdateEntryRequest{Directory: d, Entry: en.ToProtoEntry()})
	case opDelete:
		err = w.f.DeleteEntryMetaAndData(w.ctx, util.FullPath(o.path), o.rec, o.ign, false, false, nil)
	case opRename:
		done := make(chan error, 1)
		go func() {
			_, e := w.fs.AtomicRenameEntry(w.ctx, &filer_pb.AtomicRenameEntryRequest{
				OldDirectory: o.oldDir, OldName: o.oldNm, NewDirectory: o.newDir, NewName: o.newNm})
			done <- e
		}()
		select {
		case err = <-done:
		case <-time.After(20 * time.Second):
			return "OutOfFuel", true
		}
	}
	return classify(err, w.cap.capHit), false
}
