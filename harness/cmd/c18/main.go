// C18 harness: histories of create / update / delete / rename on the real
// filer.Filer + FilerServer.AtomicRenameEntry over a real embedded store
// (leveldb2 by default; leveldb, leveldb3 as variants).  After EVERY operation the
// whole store is dumped (path, isDir, perm, uid, chunk ids, extended attributes) with the
// error class.  Updates go through FilerServer.UpdateEntry, renames are given to
// AtomicRenameEntry as raw request strings (also unclean directories and names that are
// not plain entry names).
package main

import (
	"flag"
	"fmt"
	"strings"

	"verifharness/hx"
)

// ---------- Coq printers ----------

func coqName(n string) string {
	switch n {
	case "a":
		return "na"
	case "b":
		return "nb"
	}
	return hx.Str(n)
}

func splitPath(p string) []string {
	if p == "/" || p == "" {
		return nil
	}
	return strings.Split(strings.TrimPrefix(p, "/"), "/")
}

func coqPath(p string) string {
	segs := splitPath(p)
	xs := make([]string, len(segs))
	for i, s := range segs {
		xs[i] = coqName(s)
	}
	return "[" + strings.Join(xs, "; ") + "]"
}

func coqExt(x []extKV) string {
	xs := make([]string, len(x))
	for i, kv := range x {
		xs[i] = "(" + hx.Str(kv.k) + ", " + hx.Bytes(kv.v) + ")"
	}
	return "[" + strings.Join(xs, "; ") + "]"
}

func coqEnt(e ent) string {
	if len(e.ext) > 0 {
		if e.dir {
			return fmt.Sprintf("(DX %s %s %s)", hx.N(uint64(e.perm)), hx.N(uint64(e.uid)), coqExt(e.ext))
		}
		return fmt.Sprintf("(FX %s %s %s %s)", hx.N(uint64(e.perm)), hx.N(uint64(e.uid)), hx.NList(e.chunks), coqExt(e.ext))
	}
	if e.dir {
		return fmt.Sprintf("(D %s %s)", hx.N(uint64(e.perm)), hx.N(uint64(e.uid)))
	}
	return fmt.Sprintf("(F %s %s %s)", hx.N(uint64(e.perm)), hx.N(uint64(e.uid)), hx.NList(e.chunks))
}

func coqOp(o op) string {
	switch o.kind {
	case opCreate:
		return fmt.Sprintf("P (Create %s %s %s)", coqPath(o.path), coqEnt(o.e), hx.Bool(o.excl))
	case opUpdate:
		return fmt.Sprintf("P (Update %s %s)", coqPath(o.path), coqEnt(o.e))
	case opDelete:
		return fmt.Sprintf("P (Delete %s %s %s)", coqPath(o.path), hx.Bool(o.rec), hx.Bool(o.ign))
	}
	// the raw request strings: the model cleans the directories and checks the names itself
	return fmt.Sprintf("RR %s %s %s %s", hx.Str(o.oldDir), hx.Str(o.oldNm), hx.Str(o.newDir), hx.Str(o.newNm))
}

func canonOp(o op) string {
	switch o.kind {
	case opCreate:
		return fmt.Sprintf("C%s=%v/%o/%d/%v/%v/x%v", o.path, o.e.dir, o.e.perm, o.e.uid, o.e.chunks, o.e.ext, o.excl)
	case opUpdate:
		return fmt.Sprintf("U%s=%v/%o/%d/%v/%v", o.path, o.e.dir, o.e.perm, o.e.uid, o.e.chunks, o.e.ext)
	case opDelete:
		return fmt.Sprintf("D%s/r%v/i%v", o.path, o.rec, o.ign)
	}
	return fmt.Sprintf("R%s|%s>%s|%s", o.oldDir, o.oldNm, o.newDir, o.newNm)
}

func coqDump(rows []dumpRow) string {
	xs := make([]string, len(rows))
	for i, r := range rows {
		xs[i] = "(" + coqPath(r.path) + ", " + coqEnt(r.e) + ")"
	}
	return "[" + strings.Join(xs, "; ") + "]"
}

// ---------- op constructors ----------

func mkF(p string, tag int) op {
	perms := []uint32{0644, 0600, 0755, 0, 0444}
	e := ent{perm: perms[tag%len(perms)], uid: uint32(tag)}
	switch tag % 3 {
	case 0:
		e.chunks = []uint64{uint64(tag)}
	case 1:
		e.chunks = []uint64{uint64(tag), uint64(tag) + 100}
	}
	switch tag % 4 {
	case 1:
		e.ext = []extKV{{"k", []byte{byte(tag), 7}}}
	case 3:
		e.ext = []extKV{{"k", []byte{}}, {"k2", []byte{byte(tag)}}}
	}
	return op{kind: opCreate, path: p, e: e}
}
func mkD(p string, tag int) op {
	perms := []uint32{0755, 0700, 0, 0555}
	e := ent{dir: true, perm: perms[tag%len(perms)], uid: uint32(tag)}
	if tag%4 == 2 {
		e.ext = []extKV{{"d", []byte{byte(tag)}}}
	}
	return op{kind: opCreate, path: p, e: e}
}
func mkDel(p string, rec, ign bool) op { return op{kind: opDelete, path: p, rec: rec, ign: ign} }
func dirName(p string) (string, string) {
	i := strings.LastIndex(p, "/")
	if i == 0 {
		return "/", p[1:]
	}
	return p[:i], p[i+1:]
}
func mkRen(from, to string) op {
	od, on := dirName(from)
	nd, nn := dirName(to)
	return op{kind: opRename, oldDir: od, oldNm: on, newDir: nd, newNm: nn}
}

// all paths of depth 1..d over {a,b}
func universe(d int) []string { return universeOver(d, []string{"a", "b"}) }

// names of which one is a string prefix of the other: a regression of the own-subtree check
// from "oldPath + /" to a plain string prefix (or the reverse) is visible only on these
var prefixNames = []string{"a", "ab", "a."}

func universeOver(d int, names []string) []string {
	var out []string
	level := []string{""}
	for i := 0; i < d; i++ {
		var next []string
		for _, p := range level {
			for _, n := range names {
				next = append(next, p+"/"+n)
			}
		}
		out = append(out, next...)
		level = next
	}
	return out
}

// the operation universe over a set of paths (tags are filled in when the history is built)
func opUniverse(paths []string) []op {
	var ops []op
	for _, p := range paths {
		ops = append(ops, mkF(p, 0), mkD(p, 0), mkDel(p, true, false), mkDel(p, false, false))
	}
	for _, p := range paths {
		for _, q := range paths {
			ops = append(ops, mkRen(p, q))
		}
	}
	return ops
}

// start trees (built by creates)
var trees = [][]op{
	{},
	{mkF("/a/a/a", 1), mkF("/a/b", 2), mkD("/b/a", 3)},
	{mkF("/a", 1), mkD("/b/b", 2)},
	{mkF("/a/a", 1), mkF("/a/b", 2), mkF("/b/a", 3), mkD("/b/b", 4), mkF("/b/b/a", 5)},
	{mkF("/a/a/a/b", 1), mkF("/a/a/b", 2), mkD("/b", 3)},
}

// start trees over the prefix names {a, ab, a.}
var treesP = [][]op{
	{mkF("/a/ab", 1), mkD("/ab/a.", 2), mkF("/a./a", 3)},
	{mkF("/a/a/a", 1), mkD("/ab", 2), mkF("/a.", 3)},
}

// the start tree and the rename sources / targets of the bucket cases (CanRename / DetectBucket).
// A bucket directory /buckets/<b> itself is never deleted or moved: that would call the master.
var treeB = []op{mkF("/buckets/a/a", 1), mkD("/buckets/a/b", 2), mkF("/buckets/b/a", 3), mkF("/b/a", 4)}
var bucketSrc = []string{"/buckets/a/a", "/buckets/a/b", "/buckets/b/a", "/b/a", "/b"}
var bucketDst = []string{"/buckets/a/c", "/buckets/b/c", "/buckets/b/a", "/buckets/c", "/c", "/b/c", "/buckets/a/b/c", "/buckets/c/d"}

// witnesses of known finding 0 (a directory renamed onto a non-empty directory)
var witnesses = [][]op{
	// target is an ancestor of the source: returns OK, /a/a/b (uid 1) and the directory /a/a are lost
	{mkF("/a/a/a/b", 1), mkF("/a/a/b", 2), mkRen("/a/a", "/a")},
	// type conflict half-way: returns an error, but /a/a is already moved and /b overwritten
	{mkF("/a/a", 1), mkF("/a/b", 2), mkF("/b/a", 3), mkD("/b/b", 4), mkRen("/a", "/b")},
	// target is an ancestor of the source: fails with ENotEmpty and /a/b/a, a directory before, is now the file
	{mkD("/a/b/a", 1), mkF("/a/b/b/a", 2), mkRen("/a/b", "/a")},
	// the repaired defect: a directory renamed into itself / into a descendant is refused
	{mkF("/a/b", 1), mkRen("/a", "/a/b"), mkRen("/a", "/a/a"), mkRen("/a", "/a/b/a")},
	// a benign merge (inside the wide, outside the narrow trigger): the source laid over the target
	{mkF("/a/a", 1), mkF("/a/b/a", 2), mkF("/b/a", 3), mkF("/b/b/b", 4), mkD("/b/c", 5), mkRen("/a", "/b")},
}

func rawRen(od, on, nd, nn string) op {
	return op{kind: opRename, oldDir: od, oldNm: on, newDir: nd, newNm: nn}
}

// raw rename requests on the tree {/a/x}: the requests the audit ran on the code before the
// repair of AtomicRenameEntry, and their relatives (each is one case: tree, request, request again)
var rawRequests = []op{
	rawRen("/", "a", "/", "a/b"), rawRen("/", "a", "//a", "b"), rawRen("/", "a", "/a/../a", "b"),
	rawRen("/a", "", "/a/x2", "y"), rawRen("/", "a", "/a/", "b"), rawRen("/", "a", "/./a", "b"),
	rawRen("/", "a", "a", "b"), rawRen("/", "a", "/b/../a/x/..", "c"), rawRen("//", "a", "/", "b"),
	rawRen("/a/", "x", "/a/./", "y"), rawRen("/a", "x/..", "/", "z"), rawRen("/a", "..", "/", "z"),
	rawRen("/a", ".", "/", "z"), rawRen("/", "a", "/", "."), rawRen("/", "a", "/", ".."),
	rawRen("/", "a", "/b", "../c"), rawRen("/", "a", "", "b"), rawRen("", "a", "/c/", "d"),
	rawRen("/..", "a", "/../c/d/..", "a"), rawRen("/", "a", "/ab", "x"), rawRen("/", "a", "/a.", "x"),
	rawRen("a/", "x", "a", "x"), rawRen("/", "/a", "/", "b"), rawRen("/", "a/", "/", "b"),
}

func retag(seq []op) []op {
	out := make([]op, len(seq))
	for i, o := range seq {
		if (o.kind == opCreate || o.kind == opUpdate) && o.e.uid == 0 {
			if o.e.dir {
				o = func() op { x := mkD(o.path, 10+i); x.kind = o.kind; x.excl = o.excl; return x }()
			} else {
				o = func() op { x := mkF(o.path, 10+i); x.kind = o.kind; x.excl = o.excl; return x }()
			}
		}
		out[i] = o
	}
	return out
}

// ---------- random histories ----------

var allNames = []string{"a", "b", "a", "b", "ab", "a."}

func pickPath(r *hx.Rng, existing []string, depth int) string {
	if len(existing) > 0 && r.Chance(7, 10) {
		p := r.PickStr(existing)
		if r.Chance(1, 4) && len(splitPath(p)) < 4 {
			p = p + "/" + r.PickStr(allNames)
		}
		return p
	}
	if r.Chance(1, 4) {
		return r.PickStr(universeOver(2, prefixNames))
	}
	u := universe(depth)
	return r.PickStr(u)
}

// a different spelling of a directory (most of them clean to the same path)
func mangleDir(r *hx.Rng, d string) string {
	switch r.Intn(9) {
	case 0:
		return "/" + d
	case 1:
		return d + "/"
	case 2:
		return strings.Replace(d, "/", "/./", 1)
	case 3:
		return d + "/b/.."
	case 4:
		return strings.TrimPrefix(d, "/")
	case 5:
		return "/.." + d
	case 6:
		return d + "/."
	case 7:
		return d + "/.." // a different directory
	default:
		return strings.Replace(d, "/", "//", -1)
	}
}

// mostly not a plain entry name
func mangleName(r *hx.Rng, n string) string {
	switch r.Intn(8) {
	case 0:
		return ""
	case 1:
		return "."
	case 2:
		return ".."
	case 3:
		return n + "/b"
	case 4:
		return "/" + n
	case 5:
		return n + "/"
	case 6:
		return "../" + n
	default:
		return n + "." // plain
	}
}

func randomOp(r *hx.Rng, existing []string, j int) op {
	switch k := r.Intn(100); {
	case k < 24:
		o := mkF(pickPath(r, existing, 3), 10+j)
		o.excl = r.Chance(1, 5)
		return o
	case k < 38:
		o := mkD(pickPath(r, existing, 3), 10+j)
		o.excl = r.Chance(1, 5)
		return o
	case k < 46:
		var o op
		if r.Bool() {
			o = mkF(pickPath(r, existing, 3), 10+j)
		} else {
			o = mkD(pickPath(r, existing, 3), 10+j)
		}
		o.kind = opUpdate
		return o
	case k < 63:
		return mkDel(pickPath(r, existing, 3), r.Bool(), r.Chance(1, 3))
	case k < 66:
		// root operations
		switch r.Intn(3) {
		case 0:
			return mkDel("/", r.Bool(), false)
		case 1:
			return mkD("/", 10+j)
		default:
			o := mkD("/", 10+j)
			o.kind = opUpdate
			return o
		}
	default:
		from := pickPath(r, existing, 3)
		var to string
		switch r.Intn(5) {
		case 0:
			to = pickPath(r, existing, 3)
		case 1:
			to = r.PickStr(universe(3))
		case 2: // into an existing directory-ish path
			to = pickPath(r, existing, 2) + "/" + r.PickStr(allNames)
		case 3: // a sibling whose name extends / shortens the source's name
			if r.Bool() {
				to = from + r.PickStr([]string{"b", "."})
			} else {
				to = from + r.PickStr([]string{"b", "."}) + "/" + r.PickStr(allNames)
			}
		default: // ancestor / descendant of the source
			segs := splitPath(from)
			if r.Bool() && len(segs) > 1 {
				to = "/" + strings.Join(segs[:r.Range(1, len(segs)-1)], "/")
			} else {
				to = from + "/" + r.PickStr(allNames)
			}
		}
		o := mkRen(from, to)
		if r.Chance(1, 6) { // the malformed stream
			if r.Chance(7, 10) {
				if r.Bool() {
					o.oldDir = mangleDir(r, o.oldDir)
				}
				if r.Bool() {
					o.newDir = mangleDir(r, o.newDir)
				}
			}
			if r.Chance(4, 10) {
				if r.Bool() {
					o.oldNm = mangleName(r, o.oldNm)
				} else {
					o.newNm = mangleName(r, o.newNm)
				}
			}
		}
		return o
	}
}

// what a rename meets, read off the previous dump (clean requests only), for the distribution
func renameBucket(o op, rows []dumpRow, class string) string {
	clean := func(d string) bool { return d == "/" || (strings.HasPrefix(d, "/") && !strings.HasSuffix(d, "/") && !strings.Contains(d, "//") && !strings.Contains(d, "/.")) }
	plain := func(n string) bool { return n != "" && n != "." && n != ".." && !strings.Contains(n, "/") }
	if !clean(o.oldDir) || !clean(o.newDir) || !plain(o.oldNm) || !plain(o.newNm) {
		return "rename:malformed:" + class
	}
	join := func(d, n string) string {
		if d == "/" {
			return "/" + n
		}
		return d + "/" + n
	}
	src, dst := join(o.oldDir, o.oldNm), join(o.newDir, o.newNm)
	var srcRow, dstRow *dumpRow
	srcKids, dstKids := 0, 0
	for i := range rows {
		switch {
		case rows[i].path == src:
			srcRow = &rows[i]
		case strings.HasPrefix(rows[i].path, src+"/"):
			srcKids++
		}
		switch {
		case rows[i].path == dst:
			dstRow = &rows[i]
		case strings.HasPrefix(rows[i].path, dst+"/"):
			dstKids++
		}
	}
	what := "file"
	switch {
	case srcRow == nil:
		what = "missing"
	case srcRow.e.dir && srcKids > 0:
		what = "dir-with-children"
	case srcRow.e.dir:
		what = "empty-dir"
	}
	onto := "free"
	switch {
	case src == dst:
		onto = "itself"
	case dstRow != nil && dstRow.e.dir && dstKids > 0:
		onto = "nonempty-dir"
	case dstRow != nil && dstRow.e.dir:
		onto = "empty-dir"
	case dstRow != nil:
		onto = "file"
	}
	return "rename:" + what + "->" + onto + ":" + class
}

func main() {
	storeKind := flag.String("store", "leveldb2", "leveldb|leveldb2|leveldb3")
	per := flag.Int("per", 250, "cases per shard (to place this shard in the exhaustive enumeration)")
	slice := flag.Int("slice", 0, "if > 0: this run takes the witnesses, then this many cases spread evenly over the enumeration (offset by the seed), then random cases")
	out := hx.Flags("C18", 300)
	w := newWorld(*storeKind)
	defer w.close()

	u3 := opUniverse(universe(3)) // 14 paths: 56 + 196 ops
	u2 := opUniverse(universe(2)) // 6 paths: 24 + 36 ops
	u1 := opUniverse([]string{"/a", "/b", "/a/a", "/a/b"})
	uP := opUniverse(universeOver(2, prefixNames)) // 12 paths: 48 + 144 ops

	// the deterministic enumeration E (independent of the seed): witnesses, raw requests, bucket renames,
	// every single op on every start tree; thorough adds every pair (u2) on every tree and every triple (u1)
	// on the empty tree
	type gen func() ([]op, string)
	var E []gen
	for _, wseq := range witnesses {
		wseq := wseq
		E = append(E, func() ([]op, string) { return wseq, "witness" })
	}
	nW := len(E)
	for _, q := range rawRequests {
		q := q
		E = append(E, func() ([]op, string) { return []op{mkF("/a/x", 1), q, q}, "rawreq" })
	}
	for _, from := range bucketSrc {
		for _, to := range bucketDst {
			from, to := from, to
			E = append(E, func() ([]op, string) { return append(append([]op{}, treeB...), mkRen(from, to)), "bucket" })
		}
	}
	for _, t := range treesP {
		for _, o := range uP {
			t, o := t, o
			E = append(E, func() ([]op, string) { return append(append([]op{}, t...), o), "exh1p" })
		}
	}
	for _, t := range trees {
		for _, o := range u3 {
			t, o := t, o
			E = append(E, func() ([]op, string) { return append(append([]op{}, t...), o), "exh1" })
		}
	}
	if out.Tier == "thorough" {
		for _, t := range trees {
			for _, o1 := range u2 {
				for _, o2 := range u2 {
					t, o1, o2 := t, o1, o2
					E = append(E, func() ([]op, string) { return append(append([]op{}, t...), o1, o2), "exh2" })
				}
			}
		}
		for _, o1 := range u1 {
			for _, o2 := range u1 {
				for _, o3 := range u1 {
					o1, o2, o3 := o1, o2, o3
					E = append(E, func() ([]op, string) { return []op{o1, o2, o3}, "exh3" })
				}
			}
		}
	}
	out.Extra["enumeration_size"] = len(E)
	out.Rule = "case = history from the empty namespace, store dumped after every op; renames are raw AtomicRenameEntry requests. Global case index g = (seed mod 1000)*per + i. " +
		"g < |E|: deterministic enumeration E = 5 witnesses, 24 raw requests (unclean directories, names with '/', '', '.', '..'), 40 renames in and out of /buckets/<b>, " +
		"every single op over the 12 paths of depth<=2 over {a,ab,a.} after 2 start trees, then every single op (create file/dir, delete rec/non-rec, rename p->q over the 14 paths of depth<=3 over {a,b}) after each of 5 start trees; " +
		"thorough adds every pair over the 6 paths of depth<=2 after each tree and every triple over {/a,/b,/a/a,/a/b} from empty. " +
		"--slice n (the leveldb and leveldb3 variants): the witnesses, then n cases spread evenly over E, then random cases. " +
		"g >= |E|: 2 of 5 cases a random pair/triple/quadruple from those universes after a random tree, 3 of 5 a random history of 5..25 ops " +
		"(create 38%, update 8%, delete 17%, root ops 3%, rename 34%, one rename in 6 with mangled directories/names; 70% of paths picked among existing entries; names a,b,ab,a.). " +
		"non-trivial = some op succeeded and the final store is not empty; distinct = canonical op list"

	root := hx.NewRng(out.Seed)
	shard := int(out.Seed % 1000)
	for i := 0; i < out.N; i++ {
		r := root.Fork()
		g := shard*(*per) + i
		if *slice > 0 {
			switch {
			case i < nW:
				g = i
			case i < nW+*slice:
				stride := (len(E) - nW) / *slice
				if stride < 1 {
					stride = 1
				}
				g = nW + ((i-nW)*stride+int(out.Seed%uint64(stride)))%(len(E)-nW)
			default:
				g = len(E) + i
			}
		}
		var seq []op
		var kind string
		random := false
		switch {
		case g < len(E):
			seq, kind = E[g]()
		case (g-len(E))%5 < 2:
			t := trees[r.Intn(len(trees))]
			seq = append([]op{}, t...)
			k := r.Range(2, 4)
			uu := u2
			if k == 2 && r.Bool() {
				uu = u3
			}
			if r.Chance(1, 5) {
				t = treesP[r.Intn(len(treesP))]
				seq = append([]op{}, t...)
				uu = uP
			}
			for j := 0; j < k; j++ {
				seq = append(seq, uu[r.Intn(len(uu))])
			}
			kind = fmt.Sprintf("rand%d", k)
		default:
			random = true
			kind = "randlong"
		}
		w.reset()
		var ops, impl, canon []string
		nontrivial := false
		var rows []dumpRow
		runOp := func(o op) {
			class, timedOut := w.apply(o)
			if timedOut {
				panic("rename did not finish within 20 s: " + canonOp(o))
			}
			if class == "EOther" {
				panic("unclassified error on " + canonOp(o))
			}
			if o.kind == opRename {
				out.Count(renameBucket(o, rows, class), 1)
			}
			rows = w.dump()
			ops = append(ops, coqOp(o))
			impl = append(impl, "("+coqDump(rows)+", "+class+")")
			canon = append(canon, canonOp(o))
			out.Count("err:"+class, 1)
			out.Count([]string{"op:create", "op:update", "op:delete", "op:rename"}[o.kind], 1)
			if class == "OK" {
				nontrivial = true
			}
		}
		if random {
			n := r.Range(5, 25)
			for j := 0; j < n; j++ {
				existing := make([]string, 0, len(rows))
				for _, row := range rows {
					if row.path != "/" {
						existing = append(existing, row.path)
					}
				}
				runOp(randomOp(r, existing, j))
			}
		} else {
			for _, o := range retag(seq) {
				runOp(o)
			}
		}
		out.Count(fmt.Sprintf("final-entries:%02d", min(len(rows), 20)), 1)
		term := fmt.Sprintf("{| ops := %s; impl := %s |}", hx.List(ops), hx.List(impl))
		out.Add(term, strings.Join(canon, ";"), nontrivial && len(rows) > 0, kind)
	}
	out.Write()
}

func min(a, b int) int {
	if a < b {
		return a
	}
	return b
}
