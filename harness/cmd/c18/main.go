// C18 harness: histories of create / update / delete / rename on the real
// filer.Filer + FilerServer.AtomicRenameEntry over a real embedded store
// (leveldb2 by default; leveldb, leveldb3 as variants).  After EVERY operation the
// whole store is dumped (path, isDir, perm, uid, chunk ids) with the error class.
package main

import (
	"flag"
	"fmt"
	"strings"

	"verifharness/hx"
)

// ---------- Coq printers ----------

func coqName(n string) string {
	switch n {
	case "a":
		return "na"
	case "b":
		return "nb"
	}
	return hx.Str(n)
}

func splitPath(p string) []string {
	if p == "/" || p == "" {
		return nil
	}
	return strings.Split(strings.TrimPrefix(p, "/"), "/")
}

func coqPath(p string) string {
	segs := splitPath(p)
	xs := make([]string, len(segs))
	for i, s := range segs {
		xs[i] = coqName(s)
	}
	return "[" + strings.Join(xs, "; ") + "]"
}

func coqEnt(e ent) string {
	if e.dir {
		return fmt.Sprintf("(D %s %s)", hx.N(uint64(e.perm)), hx.N(uint64(e.uid)))
	}
	return fmt.Sprintf("(F %s %s %s)", hx.N(uint64(e.perm)), hx.N(uint64(e.uid)), hx.NList(e.chunks))
}

func coqOp(o op) string {
	switch o.kind {
	case opCreate:
		return fmt.Sprintf("Create %s %s %s", coqPath(o.path), coqEnt(o.e), hx.Bool(o.excl))
	case opUpdate:
		return fmt.Sprintf("Update %s %s", coqPath(o.path), coqEnt(o.e))
	case opDelete:
		return fmt.Sprintf("Delete %s %s %s", coqPath(o.path), hx.Bool(o.rec), hx.Bool(o.ign))
	}
	return fmt.Sprintf("Rename %s %s %s %s", coqPath(o.oldDir), coqName(o.oldNm), coqPath(o.newDir), coqName(o.newNm))
}

func canonOp(o op) string {
	switch o.kind {
	case opCreate:
		return fmt.Sprintf("C%s=%v/%o/%d/%v/x%v", o.path, o.e.dir, o.e.perm, o.e.uid, o.e.chunks, o.excl)
	case opUpdate:
		return fmt.Sprintf("U%s=%v/%o/%d/%v", o.path, o.e.dir, o.e.perm, o.e.uid, o.e.chunks)
	case opDelete:
		return fmt.Sprintf("D%s/r%v/i%v", o.path, o.rec, o.ign)
	}
	return fmt.Sprintf("R%s|%s>%s|%s", o.oldDir, o.oldNm, o.newDir, o.newNm)
}

func coqDump(rows []dumpRow) string {
	xs := make([]string, len(rows))
	for i, r := range rows {
		xs[i] = "(" + coqPath(r.path) + ", " + coqEnt(r.e) + ")"
	}
	return "[" + strings.Join(xs, "; ") + "]"
}

// ---------- op constructors ----------

func mkF(p string, tag int) op {
	perms := []uint32{0644, 0600, 0755, 0, 0444}
	e := ent{perm: perms[tag%len(perms)], uid: uint32(tag)}
	switch tag % 3 {
	case 0:
		e.chunks = []uint64{uint64(tag)}
	case 1:
		e.chunks = []uint64{uint64(tag), uint64(tag) + 100}
	}
	return op{kind: opCreate, path: p, e: e}
}
func mkD(p string, tag int) op {
	perms := []uint32{0755, 0700, 0, 0555}
	return op{kind: opCreate, path: p, e: ent{dir: true, perm: perms[tag%len(perms)], uid: uint32(tag)}}
}
func mkDel(p string, rec, ign bool) op { return op{kind: opDelete, path: p, rec: rec, ign: ign} }
func dirName(p string) (string, string) {
	i := strings.LastIndex(p, "/")
	if i == 0 {
		return "/", p[1:]
	}
	return p[:i], p[i+1:]
}
func mkRen(from, to string) op {
	od, on := dirName(from)
	nd, nn := dirName(to)
	return op{kind: opRename, oldDir: od, oldNm: on, newDir: nd, newNm: nn}
}

// all paths of depth 1..d over {a,b}
func universe(d int) []string {
	var out []string
	level := []string{""}
	for i := 0; i < d; i++ {
		var next []string
		for _, p := range level {
			for _, n := range []string{"a", "b"} {
				next = append(next, p+"/"+n)
			}
		}
		out = append(out, next...)
		level = next
	}
	return out
}

// the operation universe over a set of paths (tags are filled in when the history is built)
func opUniverse(paths []string) []op {
	var ops []op
	for _, p := range paths {
		ops = append(ops, mkF(p, 0), mkD(p, 0), mkDel(p, true, false), mkDel(p, false, false))
	}
	for _, p := range paths {
		for _, q := range paths {
			ops = append(ops, mkRen(p, q))
		}
	}
	return ops
}

// start trees (built by creates)
var trees = [][]op{
	{},
	{mkF("/a/a/a", 1), mkF("/a/b", 2), mkD("/b/a", 3)},
	{mkF("/a", 1), mkD("/b/b", 2)},
	{mkF("/a/a", 1), mkF("/a/b", 2), mkF("/b/a", 3), mkD("/b/b", 4), mkF("/b/b/a", 5)},
	{mkF("/a/a/a/b", 1), mkF("/a/a/b", 2), mkD("/b", 3)},
}

// witnesses of known finding 0 (a directory renamed onto a non-empty directory)
var witnesses = [][]op{
	// target is an ancestor of the source: returns OK, /a/a/b (uid 1) and the directory /a/a are lost
	{mkF("/a/a/a/b", 1), mkF("/a/a/b", 2), mkRen("/a/a", "/a")},
	// type conflict half-way: returns an error, but /a/a is already moved and /b overwritten
	{mkF("/a/a", 1), mkF("/a/b", 2), mkF("/b/a", 3), mkD("/b/b", 4), mkRen("/a", "/b")},
	// the repaired defect: a directory renamed into itself / into a descendant is refused
	{mkF("/a/b", 1), mkRen("/a", "/a/b"), mkRen("/a", "/a/a"), mkRen("/a", "/a/b/a")},
}

func retag(seq []op) []op {
	out := make([]op, len(seq))
	for i, o := range seq {
		if (o.kind == opCreate || o.kind == opUpdate) && o.e.uid == 0 {
			if o.e.dir {
				o = func() op { x := mkD(o.path, 10+i); x.kind = o.kind; x.excl = o.excl; return x }()
			} else {
				o = func() op { x := mkF(o.path, 10+i); x.kind = o.kind; x.excl = o.excl; return x }()
			}
		}
		out[i] = o
	}
	return out
}

// ---------- random histories ----------

func pickPath(r *hx.Rng, existing []string, depth int) string {
	if len(existing) > 0 && r.Chance(7, 10) {
		p := r.PickStr(existing)
		if r.Chance(1, 4) && len(splitPath(p)) < 4 {
			p = p + "/" + r.PickStr([]string{"a", "b"})
		}
		return p
	}
	u := universe(depth)
	return r.PickStr(u)
}

func randomOp(r *hx.Rng, existing []string, j int) op {
	switch k := r.Intn(100); {
	case k < 24:
		o := mkF(pickPath(r, existing, 3), 10+j)
		o.excl = r.Chance(1, 5)
		return o
	case k < 38:
		o := mkD(pickPath(r, existing, 3), 10+j)
		o.excl = r.Chance(1, 5)
		return o
	case k < 46:
		var o op
		if r.Bool() {
			o = mkF(pickPath(r, existing, 3), 10+j)
		} else {
			o = mkD(pickPath(r, existing, 3), 10+j)
		}
		o.kind = opUpdate
		return o
	case k < 63:
		return mkDel(pickPath(r, existing, 3), r.Bool(), r.Chance(1, 3))
	case k < 66:
		// root operations
		switch r.Intn(3) {
		case 0:
			return mkDel("/", r.Bool(), false)
		case 1:
			return mkD("/", 10+j)
		default:
			o := mkD("/", 10+j)
			o.kind = opUpdate
			return o
		}
	default:
		from := pickPath(r, existing, 3)
		var to string
		switch r.Intn(4) {
		case 0:
			to = pickPath(r, existing, 3)
		case 1:
			to = r.PickStr(universe(3))
		case 2: // into an existing directory-ish path
			to = pickPath(r, existing, 2) + "/" + r.PickStr([]string{"a", "b"})
		default: // ancestor / descendant of the source
			segs := splitPath(from)
			if r.Bool() && len(segs) > 1 {
				to = "/" + strings.Join(segs[:r.Range(1, len(segs)-1)], "/")
			} else {
				to = from + "/" + r.PickStr([]string{"a", "b"})
			}
		}
		return mkRen(from, to)
	}
}

func main() {
	storeKind := flag.String("store", "leveldb2", "leveldb|leveldb2|leveldb3")
	per := flag.Int("per", 250, "cases per shard (to place this shard in the exhaustive enumeration)")
	goffset := flag.Int("goffset", 0, "added to the global case index (a large value skips the enumeration: random cases only)")
	out := hx.Flags("C18", 300)
	w := newWorld(*storeKind)
	defer w.close()

	u3 := opUniverse(universe(3)) // 14 paths: 56 + 196 ops
	u2 := opUniverse(universe(2)) // 6 paths: 24 + 36 ops
	u1 := opUniverse([]string{"/a", "/b", "/a/a", "/a/b"})

	// the deterministic enumeration E (independent of the seed): witnesses, every single op on every
	// start tree; thorough adds every pair (u2) on every tree and every triple (u1) on the empty tree
	type gen func() ([]op, string)
	var E []gen
	for _, wseq := range witnesses {
		wseq := wseq
		E = append(E, func() ([]op, string) { return wseq, "witness" })
	}
	for _, t := range trees {
		for _, o := range u3 {
			t, o := t, o
			E = append(E, func() ([]op, string) { return append(append([]op{}, t...), o), "exh1" })
		}
	}
	if out.Tier == "thorough" {
		for _, t := range trees {
			for _, o1 := range u2 {
				for _, o2 := range u2 {
					t, o1, o2 := t, o1, o2
					E = append(E, func() ([]op, string) { return append(append([]op{}, t...), o1, o2), "exh2" })
				}
			}
		}
		for _, o1 := range u1 {
			for _, o2 := range u1 {
				for _, o3 := range u1 {
					o1, o2, o3 := o1, o2, o3
					E = append(E, func() ([]op, string) { return []op{o1, o2, o3}, "exh3" })
				}
			}
		}
	}
	out.Extra["enumeration_size"] = len(E)
	out.Rule = "case = history from the empty namespace, store dumped after every op. Global case index g = (seed mod 1000)*per + i. " +
		"g < |E|: deterministic enumeration E = 3 witnesses, then every single op (create file/dir, delete rec/non-rec, rename p->q over the 14 paths of depth<=3 over {a,b}) after each of 5 start trees; " +
		"thorough adds every pair over the 6 paths of depth<=2 after each tree and every triple over {/a,/b,/a/a,/a/b} from empty. " +
		"g >= |E|: 2 of 5 cases a random pair/triple/quadruple from those universes after a random tree, 3 of 5 a random history of 5..25 ops " +
		"(create 38%, update 8%, delete 17%, root ops 3%, rename 34%; 70% of paths picked among existing entries). " +
		"non-trivial = some op succeeded and the final store is not empty; distinct = canonical op list"

	root := hx.NewRng(out.Seed)
	shard := int(out.Seed % 1000)
	for i := 0; i < out.N; i++ {
		r := root.Fork()
		g := *goffset + shard*(*per) + i
		var seq []op
		var kind string
		random := false
		switch {
		case g < len(E):
			seq, kind = E[g]()
		case (g-len(E))%5 < 2:
			t := trees[r.Intn(len(trees))]
			seq = append([]op{}, t...)
			k := r.Range(2, 4)
			uu := u2
			if k == 2 && r.Bool() {
				uu = u3
			}
			for j := 0; j < k; j++ {
				seq = append(seq, uu[r.Intn(len(uu))])
			}
			kind = fmt.Sprintf("rand%d", k)
		default:
			random = true
			kind = "randlong"
		}
		w.reset()
		var ops, impl, canon []string
		nontrivial := false
		runOp := func(o op) []dumpRow {
			class, timedOut := w.apply(o)
			if timedOut {
				panic("rename did not finish within 20 s: " + canonOp(o))
			}
			if class == "EOther" {
				panic("unclassified error on " + canonOp(o))
			}
			rows := w.dump()
			ops = append(ops, coqOp(o))
			impl = append(impl, "("+coqDump(rows)+", "+class+")")
			canon = append(canon, canonOp(o))
			out.Count("err:"+class, 1)
			out.Count([]string{"op:create", "op:update", "op:delete", "op:rename"}[o.kind], 1)
			if class == "OK" {
				nontrivial = true
			}
			return rows
		}
		var rows []dumpRow
		if random {
			n := r.Range(5, 25)
			for j := 0; j < n; j++ {
				existing := make([]string, 0, len(rows))
				for _, row := range rows {
					if row.path != "/" {
						existing = append(existing, row.path)
					}
				}
				rows = runOp(randomOp(r, existing, j))
			}
		} else {
			for _, o := range retag(seq) {
				rows = runOp(o)
			}
		}
		out.Count(fmt.Sprintf("final-entries:%02d", min(len(rows), 20)), 1)
		term := fmt.Sprintf("{| ops := %s; impl := %s |}", hx.List(ops), hx.List(impl))
		out.Add(term, strings.Join(canon, ";"), nontrivial && len(rows) > 0, kind)
	}
	out.Write()
}

func min(a, b int) int {
	if a < b {
		return a
	}
	return b
}
