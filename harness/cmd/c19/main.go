// C19 harness: directory listings on the real Filer (ListDirectoryEntries,
// StreamListDirectoryEntries) over leveldb, leveldb2, leveldb3 and over a
// reference in-memory store that forces FilerStoreWrapper.prefixFilterEntries.
package main

import (
	"context"
	"errors"
	"fmt"
	"math/big"
	"path/filepath"
	"sort"
	"strings"

	"github.com/chrislusf/seaweedfs/weed/filer"
	"github.com/chrislusf/seaweedfs/weed/util"
	"verifharness/hx"
)

type ent struct {
	name    string
	expired bool
}

// the directory under test rotates over these; the request path may carry a trailing slash
var testDirs = []string{"/d", "/buckets/b", "/buckets/b/x"}

var theDir = "/d" // directory under test of the current case (store side)
var reqDir = "/d" // path handed to the Filer (theDir or theDir + "/")

// patterns whose split is compared with the model in every case (meta characters '[' and '\\' included)
var splitProbes = []string{"a[bc]", "a\\*b", "[a]b", "ab", "a*b?", "ab?[c]", "\\a", ""}

var stopAnswers = [][]bool{{false}, {true, false}, {true, false, false, false, false, false, false}}
var stopLimits = []int64{2, 4}
var grpcReqs = [][2]int64{{3, 2}, {5, 2}, {4, 3}}

var universe = []string{"a", "a b", "ab", "abc", "b", "b0", "ba", "c"} // byte order
var extraStarts = []string{"", "aa", "zz"}
var prefixes = []string{"", "a", "ab", "b", "x"}
var patterns = []string{"", "*", "a*", "*b", "a?", "ab", "?b*"}
var excludes = []string{"", "a*"}
var gridLimits = []int64{0, 1, 2, 3, 4, 1000}
var pageLimits = []int64{1, 2, 3}

const maxPages = 40

type obs struct {
	names []string
	more  bool
	last  string
	err   int
	after []string
}

func errClass(err error) int {
	if err == nil {
		return 0
	}
	if errors.Is(err, errBudget) {
		return 1
	}
	return 2
}

func strList(xs []string) string {
	ys := make([]string, len(xs))
	for i, x := range xs {
		ys[i] = hx.Str(x)
	}
	return hx.List(ys)
}

// ---------- compact coding of answers (see check/C19.v) ----------

// position of a name in the directory, 1-based; 0 for "", 15 for a foreign name
func nameIdx(dir []ent, n string) int64 {
	if n == "" {
		return 0
	}
	for i, e := range dir {
		if e.name == n {
			return int64(i + 1)
		}
	}
	return 15
}

func codeNames(dir []ent, names []string) string {
	v := new(big.Int)
	for _, n := range names {
		v.Mul(v, big.NewInt(16))
		v.Add(v, big.NewInt(nameIdx(dir, n)))
	}
	return v.String()
}

func codeSet(dir []ent, names []string) string {
	var m uint64
	for _, n := range names {
		i := nameIdx(dir, n)
		if i == 15 || i == 0 {
			m |= 1 << 15
		} else {
			m |= 1 << uint(i-1)
		}
	}
	return fmt.Sprint(m)
}

func b2n(b bool) int {
	if b {
		return 1
	}
	return 0
}

func rcode(dir []ent, l, s obs) string {
	return fmt.Sprintf("R %s %d %d %s %s %d %d %s", codeNames(dir, l.names), b2n(l.more), l.err, codeSet(dir, l.after),
		codeNames(dir, s.names), nameIdx(dir, s.last), s.err, codeSet(dir, s.after))
}

// the directory under test plus neighbours that must never leak into its listings
func (w *world) populate(dir []ent) {
	for _, e := range dir {
		w.put(theDir, e.name, e.expired, false)
	}
	for _, n := range []string{"a", "ab", "b", "zz"} {
		w.put("/c", n, false, false)
		for _, td := range testDirs {
			w.put(td+"2", n, false, false)
			w.put(td+"-x", n, false, false)
			w.put(td+"/sub", n, false, false)
			w.put(td+"\x01", n, false, false)
		}
	}
	w.put("/", "d", false, true)
	w.put("/", "d2", false, true)
}

// restore re-inserts the expired children a previous listing deleted
func (w *world) restore(dir []ent, after []string) {
	if len(after) == len(dir) {
		return
	}
	have := map[string]bool{}
	for _, n := range after {
		have[n] = true
	}
	for _, e := range dir {
		if !have[e.name] {
			w.put(theDir, e.name, e.expired, false)
		}
	}
}

func (w *world) list(dir []ent, start string, incl bool, limit int64, prefix, pat, excl string) obs {
	w.resetBudget()
	es, more, err := w.f.ListDirectoryEntries(context.Background(), util.FullPath(reqDir), start, incl, limit, prefix, pat, excl)
	o := obs{more: more, err: errClass(err)}
	for _, e := range es {
		o.names = append(o.names, e.Name())
	}
	o.after = w.rawNames(theDir)
	w.restore(dir, o.after)
	return o
}

func (w *world) stream(dir []ent, start string, incl bool, limit int64, prefix, pat, excl string) obs {
	w.resetBudget()
	var o obs
	last, err := w.f.StreamListDirectoryEntries(context.Background(), util.FullPath(reqDir), start, incl, limit, prefix, pat, excl, func(e *filer.Entry) bool {
		o.names = append(o.names, e.Name())
		return true
	})
	o.last, o.err = last, errClass(err)
	o.after = w.rawNames(theDir)
	w.restore(dir, o.after)
	return o
}

// client of ListDirectoryEntries: follow the last entry's name while hasMore
func (w *world) paginateList(dir []ent, limit int64, prefix, pat, excl string) (pages [][]string, ok bool) {
	defer func() { w.restore(dir, w.rawNames(theDir)) }()
	start := ""
	for n := 0; ; n++ {
		if n >= maxPages {
			return nil, false
		}
		w.resetBudget()
		es, more, err := w.f.ListDirectoryEntries(context.Background(), util.FullPath(reqDir), start, false, limit, prefix, pat, excl)
		if err != nil {
			return nil, false
		}
		names := []string{}
		for _, e := range es {
			names = append(names, e.Name())
		}
		pages = append(pages, names)
		if more && len(names) > 0 {
			start = names[len(names)-1]
		} else {
			return pages, true
		}
	}
}

// the loop of FilerServer.ListEntries: follow StreamListDirectoryEntries' lastFileName
func (w *world) paginateStream(dir []ent, limit int64, prefix string) (pages [][]string, ok bool) {
	defer func() { w.restore(dir, w.rawNames(theDir)) }()
	start, incl := "", false
	for n := 0; ; n++ {
		if n >= maxPages {
			return nil, false
		}
		w.resetBudget()
		names := []string{}
		last, err := w.f.StreamListDirectoryEntries(context.Background(), util.FullPath(reqDir), start, incl, limit, prefix, "", "", func(e *filer.Entry) bool {
			names = append(names, e.Name())
			return true
		})
		if err != nil {
			return nil, false
		}
		if len(names) == 0 {
			return pages, true
		}
		pages = append(pages, names)
		start, incl = last, false
	}
}

// StreamListDirectoryEntries with a callback that answers from ans (true once exhausted)
func (w *world) streamStop(dir []ent, start string, incl bool, limit int64, prefix, pat, excl string, ans []bool) obs {
	w.resetBudget()
	var o obs
	i := 0
	last, err := w.f.StreamListDirectoryEntries(context.Background(), util.FullPath(reqDir), start, incl, limit, prefix, pat, excl, func(e *filer.Entry) bool {
		o.names = append(o.names, e.Name())
		a := true
		if i < len(ans) {
			a = ans[i]
		}
		i++
		return a
	})
	o.last, o.err = last, errClass(err)
	o.after = w.rawNames(theDir)
	w.restore(dir, o.after)
	return o
}

// the loop and the callback of FilerServer.ListEntries (weed/server/filer_grpc_server.go:42-84),
// with the page size as a parameter (the server uses min(PaginationSize, limit))
func (w *world) grpcList(dir []ent, limit int, pag int64, prefix string) (pages [][]string, ok bool) {
	defer func() { w.restore(dir, w.rawNames(theDir)) }()
	lastFileName, includeLastFile := "", false
	for n := 0; limit > 0; n++ {
		if n >= maxPages {
			return nil, false
		}
		w.resetBudget()
		var names []string
		var err error
		lastFileName, err = w.f.StreamListDirectoryEntries(context.Background(), util.FullPath(reqDir), lastFileName, includeLastFile, pag, prefix, "", "", func(e *filer.Entry) bool {
			names = append(names, e.Name())
			limit--
			if limit == 0 {
				return false
			}
			return true
		})
		if err != nil {
			return nil, false
		}
		if len(names) == 0 {
			return pages, true
		}
		pages = append(pages, names)
		includeLastFile = false
	}
	if pages == nil {
		pages = [][]string{}
	}
	return pages, true
}

func coqPages(dir []ent, pages [][]string, ok bool) string {
	if !ok {
		return "None"
	}
	xs := make([]string, len(pages))
	for i, p := range pages {
		xs[i] = codeNames(dir, p)
	}
	return hx.Some("(" + hx.List(xs) + "%N)")
}

type spec struct {
	kind              int
	dir               []ent
	prefix, pat, excl string
	starts            []string
	limits            []int64
	pageLimits        []int64
	label             string
	tdir              int  // index into testDirs
	slash             bool // request path with a trailing slash
	stops             []stopReq
	grpcs             [][2]int64
}

type stopReq struct {
	start string
	incl  bool
	limit int64
	ans   []bool
}

func runCase(out *hx.Out, worlds []*world, sp spec) {
	w := worlds[sp.kind]
	theDir = testDirs[sp.tdir]
	reqDir = theDir
	if sp.slash {
		reqDir += "/"
	}
	// fresh directory
	for _, n := range w.rawNames(theDir) {
		w.del(theDir, n)
	}
	for _, e := range sp.dir {
		w.put(theDir, e.name, e.expired, false)
	}
	var res []string
	nontrivial := false
	for _, st := range sp.starts {
		for _, incl := range []bool{false, true} {
			for _, lim := range sp.limits {
				l := w.list(sp.dir, st, incl, lim, sp.prefix, sp.pat, sp.excl)
				s := w.stream(sp.dir, st, incl, lim, sp.prefix, sp.pat, sp.excl)
				res = append(res, rcode(sp.dir, l, s))
				if l.err == 0 && len(l.names) > 0 {
					nontrivial = true
				}
				out.Count(fmt.Sprintf("err:%d", l.err), 1)
				out.Count(fmt.Sprintf("page-len:%d", len(l.names)), 1)
				out.Count("requests", 2)
			}
		}
	}
	var pgs []string
	for _, lim := range sp.pageLimits {
		pl, okl := w.paginateList(sp.dir, lim, sp.prefix, sp.pat, sp.excl)
		ps, oks := w.paginateStream(sp.dir, lim, sp.prefix)
		pgs = append(pgs, fmt.Sprintf("(Build_pg %d %s %s)", lim, coqPages(sp.dir, pl, okl), coqPages(sp.dir, ps, oks)))
		out.Count("paginations", 2)
		out.Count(fmt.Sprintf("pages:%d", len(pl)), 1)
	}
	var stops []string
	for _, q := range sp.stops {
		o := w.streamStop(sp.dir, q.start, q.incl, q.limit, sp.prefix, sp.pat, sp.excl, q.ans)
		as := make([]string, len(q.ans))
		for i, a := range q.ans {
			as[i] = hx.Bool(a)
		}
		stops = append(stops, fmt.Sprintf("(Build_stopreq %s %s %d %s %s%%N %d%%N %d%%N %s%%N)", hx.Str(q.start), hx.Bool(q.incl), q.limit, hx.List(as),
			codeNames(sp.dir, o.names), nameIdx(sp.dir, o.last), o.err, codeSet(sp.dir, o.after)))
		out.Count("stop-requests", 1)
		out.Count(fmt.Sprintf("stop-emitted:%d", len(o.names)), 1)
	}
	var grpcs []string
	for _, g := range sp.grpcs {
		pg, ok := w.grpcList(sp.dir, int(g[0]), g[1], sp.prefix)
		grpcs = append(grpcs, fmt.Sprintf("(Build_grpcreq %d %d %s)", g[0], g[1], coqPages(sp.dir, pg, ok)))
		tot := 0
		for _, x := range pg {
			tot += len(x)
		}
		if int64(tot) > g[0] {
			out.Count("grpc-over-limit", 1)
		}
		out.Count("grpc-requests", 1)
	}
	var splits []string
	for _, sp0 := range splitProbes {
		a, b := filer.VerifSplitPattern(sp0)
		splits = append(splits, fmt.Sprintf("(%s, (%s, %s))", hx.Str(sp0), hx.Str(a), hx.Str(b)))
	}
	// oracle table for filepath.Match and splitPattern
	pp, rest := filer.VerifSplitPattern(sp.pat)
	effPrefix := sp.prefix
	if pp != "" {
		effPrefix = pp
	}
	var globs []string
	seen := map[string]bool{}
	addGlob := func(p, n string) {
		if p == "" || seen[p+"\x00"+n] {
			return
		}
		seen[p+"\x00"+n] = true
		m, err := filepath.Match(p, n)
		if err != nil {
			panic(err)
		}
		globs = append(globs, fmt.Sprintf("(%s, %s, %s)", hx.Str(p), hx.Str(n), hx.Bool(m)))
	}
	for _, e := range sp.dir {
		addGlob(sp.pat, e.name)
		addGlob(sp.excl, e.name)
		if strings.HasPrefix(e.name, effPrefix) {
			addGlob(rest, e.name[len(effPrefix):])
		}
	}
	var dirT, canonDir []string
	for _, e := range sp.dir {
		dirT = append(dirT, hx.Pair(hx.Str(e.name), hx.Bool(e.expired)))
		c := e.name
		if e.expired {
			c += "!"
		}
		canonDir = append(canonDir, c)
	}
	kindT := "Lvl"
	if sp.kind == kGeneric {
		kindT = "Gen"
	}
	lims := make([]string, len(sp.limits))
	for i, l := range sp.limits {
		lims[i] = fmt.Sprint(l)
	}
	term := fmt.Sprintf("{| kind := %s; dir := %s; prefix := %s; pat := %s; excl := %s; split := (%s, %s); globs := %s; starts := %s; limits := %s%%nat; res := %s%%N; pages := %s; stops := %s; grpcs := %s; splits := %s |}",
		kindT, hx.List(dirT), hx.Str(sp.prefix), hx.Str(sp.pat), hx.Str(sp.excl), hx.Str(pp), hx.Str(rest),
		hx.List(globs), strList(sp.starts), hx.List(lims), hx.List(res), hx.List(pgs), hx.List(stops), hx.List(grpcs), hx.List(splits))
	canon := fmt.Sprintf("%s|%s|%v|%s|p=%s|pat=%s|x=%s|%v|%v|%v", kindNames[sp.kind], reqDir, len(sp.stops), strings.Join(canonDir, ","), sp.prefix, sp.pat, sp.excl, sp.starts, sp.limits, sp.pageLimits)
	out.Add(term, canon, nontrivial, sp.label)
	out.Count("store:"+kindNames[sp.kind], 1)
	out.Count("path:"+reqDir, 1)
	out.Count(fmt.Sprintf("dir-size:%d", len(sp.dir)), 1)
	nexp := 0
	for _, e := range sp.dir {
		if e.expired {
			nexp++
		}
	}
	out.Count(fmt.Sprintf("expired:%d", nexp), 1)
	out.Count("prefix:"+sp.prefix, 1)
	out.Count("pattern:"+sp.pat, 1)
	out.Count("exclude:"+sp.excl, 1)
}

func live(ns ...string) (r []ent) {
	for _, n := range ns {
		r = append(r, ent{n, false})
	}
	return
}

// first cases of every run: the witness of the remaining finding (prefix and pattern
// together), then the witnesses of the repaired defects, which must now satisfy the property
func witnesses() []spec {
	one := func(kind int, dir []ent, start string, limit int64, prefix, pat, excl, label string) spec {
		return spec{kind: kind, dir: dir, prefix: prefix, pat: pat, excl: excl, starts: []string{start}, limits: []int64{limit}, label: label}
	}
	ws := []spec{
		one(kLevelDB, live("a", "ab", "b"), "", 10, "b", "a*", "", "witness-0-prefix-and-pattern"),
		one(kGeneric, live("a", "ab", "b"), "", 10, "a", "?b", "", "witness-0-prefix-and-pattern"),
		one(kLevelDB, live("a", "ab", "b"), "", 10, "", "ab", "", "repaired-nowild"),
		one(kLevelDB, live("ab", "abc", "bb"), "", 10, "", "?b*", "", "repaired-qprefix"),
		one(kLevelDB, live("a", "b"), "a", 10, "b", "", "", "repaired-start-below-prefix"),
		one(kLevelDB2, live("a", "b"), "a", 10, "b", "", "", "repaired-start-below-prefix"),
		one(kLevelDB3, live("a", "b"), "a", 10, "b", "", "", "repaired-start-below-prefix"),
		one(kGeneric, live("a", "b", "c", "d"), "", 0, "d", "", "", "repaired-generic-hang"),
		one(kGeneric, []ent{{"a", false}, {"b", true}, {"b0", true}, {"ba", false}, {"bb", false}}, "", 3, "b", "", "", "repaired-generic-dup"),
		one(kLevelDB, []ent{{"a", false}, {"b", false}, {"c", true}}, "", 2, "", "*a", "", "repaired-restart"),
	}
	exp4 := []ent{{"a", true}, {"b", false}, {"c", false}, {"d", false}}
	for _, k := range []int{kLevelDB, kLevelDB2, kLevelDB3, kGeneric} {
		// callback answers false on its first call: both refill loops used to call it again
		// (former finding 1, repaired: must be verdict 0 now)
		ws = append(ws, spec{kind: k, dir: exp4, label: "repaired-stop-expired-refill", stops: []stopReq{{"", false, 3, []bool{false}}}})
		ws = append(ws, spec{kind: k, dir: live("a", "b", "c", "d"), excl: "a", label: "repaired-stop-missed-refill", stops: []stopReq{{"", false, 2, []bool{false}}}})
	}
	// gRPC loop: limit 3, page size 2, an expired entry on the last page: 4 entries used to be sent
	// (former finding 1, repaired: a,b,d)
	for _, k := range []int{kLevelDB, kGeneric} {
		ws = append(ws, spec{kind: k, dir: []ent{{"a", false}, {"b", false}, {"c", true}, {"d", false}, {"e", false}, {"f", false}}, label: "repaired-grpc-over-limit", grpcs: [][2]int64{{3, 2}}})
	}
	g := spec{kind: kLevelDB, dir: []ent{{"a", false}, {"b", true}}, starts: []string{""}, limits: []int64{3}, pageLimits: []int64{3}, label: "repaired-stream-lastname"}
	ws = append(ws, g)
	return ws
}

type triple struct{ prefix, pat, excl string }

func allTriples() (all, clean []triple) {
	for _, p := range prefixes {
		for _, pt := range patterns {
			for _, x := range excludes {
				t := triple{p, pt, x}
				all = append(all, t)
				if p == "" || pt == "" {
					clean = append(clean, t)
				}
			}
		}
	}
	return
}

func main() {
	out := hx.Flags("C19", 120)
	out.Rule = "case = store (leveldb/leveldb2/leveldb3/generic in turn) x directory (random subset of {a,'a b',ab,abc,b,b0,ba,c}, each child expired with prob 0, 1/4 or 1/2; neighbours /c /d-x /d2 /d/sub always present) x (prefix,pattern,exclude): odd cases walk ALL 70 triples of {'',a,ab,b,x}x{'',*,a*,*b,a?,ab,?b*}x{'',a*} (stride 17 from a seed-chosen offset, continued across the shards of one run), even cases draw a triple outside the static trigger sets; inside a case EVERY start in names+{'',aa,zz} x inclusive x limit in {0..4,1000} goes through ListDirectoryEntries and StreamListDirectoryEntries (directory restored before each call), plus pagination with page sizes 1..3 in both client styles, StreamListDirectoryEntries with callbacks that answer false (3 answer lists x limits 2,4) and the gRPC ListEntries loop (limit,page) in {(3,2),(5,2),(4,3)}; first cases of shard 0 = the witness of the known finding (prefix and pattern together) and the witnesses of the repaired defects (incl. the stopped-callback / gRPC-over-limit ones); non-trivial = some call returned entries without error; distinct = store+directory+triple"
	sort.Strings(universe)
	worlds := make([]*world, nKinds)
	for k := range worlds {
		worlds[k] = openWorld(k)
		worlds[k].populate(nil)
		defer worlds[k].close()
	}
	root := hx.NewRng(out.Seed)
	all, clean := allTriples()
	starts := append(append([]string{}, extraStarts...), universe...)
	// bin/check runs shard k of a run with seed S as a separate process with --seed S*1000+k:
	// the witnesses go into shard 0 only, and the walk over the triples continues across shards
	shard := int(out.Seed % 1000)
	ws := witnesses()
	if shard != 0 && out.Seed >= 1000 {
		ws = nil
	}
	offset := hx.NewRng(out.Seed / 1000).Intn(len(all))
	for i := 0; out.Len() < out.N; i++ {
		if i < len(ws) {
			runCase(out, worlds, ws[i])
			continue
		}
		r := root.Fork()
		j := i - len(ws)
		if out.Seed >= 1000 {
			j += shard * out.N
		}
		// store, directory and slash vary independently of the parity that selects the triple walk
		sp := spec{kind: (j / 2) % nKinds, starts: starts, limits: gridLimits, pageLimits: pageLimits, label: "grid",
			tdir: (j / 8) % len(testDirs), slash: (j/24)%2 == 1, grpcs: grpcReqs}
		for _, lim := range stopLimits {
			for _, a := range stopAnswers {
				sp.stops = append(sp.stops, stopReq{"", false, lim, a})
			}
		}
		var t triple
		if j%2 == 1 {
			t = all[(offset+(j/2)*17)%len(all)] // 17 is coprime to 70: every 70 odd cases visit every triple
		} else {
			t = clean[r.Intn(len(clean))]
			sp.label = "grid-clean"
		}
		sp.prefix, sp.pat, sp.excl = t.prefix, t.pat, t.excl
		expNum := []int{0, 0, 1, 2}[r.Intn(4)] // probability of "expired" in quarters
		incNum := []int{1, 2, 3, 3, 4}[r.Intn(5)]
		for _, n := range universe {
			if r.Intn(4) < incNum {
				sp.dir = append(sp.dir, ent{n, r.Intn(4) < expNum})
			}
		}
		runCase(out, worlds, sp)
	}
	out.Write()
}
