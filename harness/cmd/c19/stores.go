package main

import (
	"context"
	"errors"
	"os"
	"sort"
	"sync"
	"time"

	"github.com/chrislusf/seaweedfs/weed/filer"
	"github.com/chrislusf/seaweedfs/weed/filer/leveldb"
	leveldb2 "github.com/chrislusf/seaweedfs/weed/filer/leveldb2"
	leveldb3 "github.com/chrislusf/seaweedfs/weed/filer/leveldb3"
	"github.com/chrislusf/seaweedfs/weed/pb/filer_pb"
	"github.com/chrislusf/seaweedfs/weed/util"
)

// ---------- reference in-memory FilerStore without native prefix listing ----------
//
// ListDirectoryEntries: snapshot of the directory's names in byte order, those
// > start (>= when inclusive), at most limit, each handed to the callback.
// ListDirectoryPrefixedEntries: ErrUnsupportedListDirectoryPrefixed, which makes
// FilerStoreWrapper take its generic prefixFilterEntries path.
//
// Every list call is counted; beyond `budget` calls inside one Filer call the
// store returns errBudget: that is how the harness observes a listing that would
// otherwise never terminate.

var errBudget = errors.New("verif: store call budget exceeded (listing does not terminate)")

type memStore struct {
	mu     sync.Mutex
	dirs   map[string]map[string]*filer.Entry
	kv     map[string][]byte
	calls  int
	budget int
}

func newMemStore() *memStore {
	return &memStore{dirs: map[string]map[string]*filer.Entry{}, kv: map[string][]byte{}, budget: 400}
}

func (s *memStore) GetName() string                                      { return "verifmem" }
func (s *memStore) Initialize(c util.Configuration, prefix string) error { return nil }
func (s *memStore) InsertEntry(ctx context.Context, e *filer.Entry) error {
	s.mu.Lock()
	defer s.mu.Unlock()
	dir, name := e.FullPath.DirAndName()
	if s.dirs[dir] == nil {
		s.dirs[dir] = map[string]*filer.Entry{}
	}
	c := *e
	s.dirs[dir][name] = &c
	return nil
}
func (s *memStore) UpdateEntry(ctx context.Context, e *filer.Entry) error {
	return s.InsertEntry(ctx, e)
}
func (s *memStore) FindEntry(ctx context.Context, fp util.FullPath) (*filer.Entry, error) {
	s.mu.Lock()
	defer s.mu.Unlock()
	dir, name := fp.DirAndName()
	if e, ok := s.dirs[dir][name]; ok {
		c := *e
		return &c, nil
	}
	return nil, filer_pb.ErrNotFound
}
func (s *memStore) DeleteEntry(ctx context.Context, fp util.FullPath) error {
	s.mu.Lock()
	defer s.mu.Unlock()
	dir, name := fp.DirAndName()
	delete(s.dirs[dir], name)
	return nil
}
func (s *memStore) DeleteFolderChildren(ctx context.Context, fp util.FullPath) error {
	s.mu.Lock()
	defer s.mu.Unlock()
	delete(s.dirs, string(fp))
	return nil
}
func (s *memStore) ListDirectoryEntries(ctx context.Context, dirPath util.FullPath, startFileName string, includeStartFile bool, limit int64, eachEntryFunc filer.ListEachEntryFunc) (lastFileName string, err error) {
	s.mu.Lock()
	s.calls++
	if s.calls > s.budget {
		s.mu.Unlock()
		return "", errBudget
	}
	var names []string
	for n := range s.dirs[string(dirPath)] {
		if n > startFileName || (includeStartFile && n == startFileName) {
			names = append(names, n)
		}
	}
	sort.Strings(names)
	var batch []*filer.Entry
	for _, n := range names {
		if int64(len(batch)) >= limit {
			break
		}
		c := *s.dirs[string(dirPath)][n]
		batch = append(batch, &c)
	}
	s.mu.Unlock()
	for _, e := range batch {
		lastFileName = e.Name()
		if !eachEntryFunc(e) {
			break
		}
	}
	return lastFileName, nil
}
func (s *memStore) ListDirectoryPrefixedEntries(ctx context.Context, dirPath util.FullPath, startFileName string, includeStartFile bool, limit int64, prefix string, eachEntryFunc filer.ListEachEntryFunc) (string, error) {
	return "", filer.ErrUnsupportedListDirectoryPrefixed
}
func (s *memStore) BeginTransaction(ctx context.Context) (context.Context, error) { return ctx, nil }
func (s *memStore) CommitTransaction(ctx context.Context) error                   { return nil }
func (s *memStore) RollbackTransaction(ctx context.Context) error                 { return nil }
func (s *memStore) KvPut(ctx context.Context, key []byte, value []byte) error {
	s.kv[string(key)] = value
	return nil
}
func (s *memStore) KvGet(ctx context.Context, key []byte) ([]byte, error) {
	if v, ok := s.kv[string(key)]; ok {
		return v, nil
	}
	return nil, filer.ErrKvNotFound
}
func (s *memStore) KvDelete(ctx context.Context, key []byte) error {
	delete(s.kv, string(key))
	return nil
}
func (s *memStore) Shutdown() {}

// ---------- configuration for the leveldb stores ----------

type dirConf struct{ dir string }

func (c dirConf) GetString(key string) string          { return c.dir }
func (c dirConf) GetBool(key string) bool              { return false }
func (c dirConf) GetInt(key string) int                { return 0 }
func (c dirConf) GetStringSlice(key string) []string   { return nil }
func (c dirConf) SetDefault(key string, v interface{}) {}

// store kinds; 0..2 share one model (the leveldb start/prefix rule), 3 is the generic path
const (
	kLevelDB = iota
	kLevelDB2
	kLevelDB3
	kGeneric
	nKinds
)

var kindNames = []string{"leveldb", "leveldb2", "leveldb3", "generic"}

type world struct {
	kind  int
	f     *filer.Filer
	store filer.FilerStore
	mem   *memStore
	tmp   string
}

func openWorld(kind int) *world {
	w := &world{kind: kind}
	if kind != kGeneric {
		d, err := os.MkdirTemp("", "c19-"+kindNames[kind]+"-")
		if err != nil {
			panic(err)
		}
		w.tmp = d
	}
	switch kind {
	case kLevelDB:
		w.store = &leveldb.LevelDBStore{}
	case kLevelDB2:
		w.store = &leveldb2.LevelDB2Store{}
	case kLevelDB3:
		w.store = &leveldb3.LevelDB3Store{}
	case kGeneric:
		w.mem = newMemStore()
		w.store = w.mem
	}
	if err := w.store.Initialize(dirConf{w.tmp}, ""); err != nil {
		panic(err)
	}
	w.f = filer.NewVerifListingFiler(w.store)
	return w
}

func (w *world) close() {
	w.store.Shutdown()
	if w.tmp != "" {
		os.RemoveAll(w.tmp)
	}
}

var pastTime = time.Unix(1500000000, 0) // 2017: any positive TTL counted from here has expired

// put writes one child directly through the store wrapper (no parent creation, no notification).
func (w *world) put(dir, name string, expired bool, isDir bool) {
	e := &filer.Entry{FullPath: util.NewFullPath(dir, name)}
	e.Attr.Mode = 0644
	if isDir {
		e.Attr.Mode = os.ModeDir | 0755
	}
	e.Attr.Mtime = pastTime
	e.Attr.Crtime = pastTime
	if expired {
		e.Attr.TtlSec = 60
	}
	if err := w.f.Store.InsertEntry(context.Background(), e); err != nil {
		panic(err)
	}
}

func (w *world) del(dir, name string) {
	if err := w.f.Store.DeleteEntry(context.Background(), util.NewFullPath(dir, name)); err != nil {
		panic(err)
	}
}

// rawNames lists a directory straight from the store (no expiry handling): the state projection.
func (w *world) rawNames(dir string) (names []string) {
	if w.mem != nil {
		w.mem.mu.Lock()
		for n := range w.mem.dirs[dir] {
			names = append(names, n)
		}
		w.mem.mu.Unlock()
		sort.Strings(names)
		return
	}
	_, err := w.store.ListDirectoryEntries(context.Background(), util.FullPath(dir), "", true, 1<<20, func(e *filer.Entry) bool {
		names = append(names, e.Name())
		return true
	})
	if err != nil {
		panic(err)
	}
	return
}

func (w *world) resetBudget() {
	if w.mem != nil {
		w.mem.mu.Lock()
		w.mem.calls = 0
		w.mem.mu.Unlock()
	}
}
