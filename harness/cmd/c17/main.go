// C17 harness: a file as the last-writer-wins overlay of its chunks.
//
// Runs the REAL filer.NonOverlappingVisibleIntervals, filer.ViewFromChunks,
// filer.ChunkReadAt.ReadAt (pre-dirtied buffers), filer.CompactFileChunks and
// doMaybeManifestize+mergeIntoManifest (small merge factors, through the verif
// hook) on generated chunk lists.  Chunk and manifest contents are served by an
// in-process httptest server (and, for half of the cases, by a chunk cache).
package main

import (
	"bytes"
	"errors"
	"flag"
	"fmt"
	"io"
	"math"
	"net/http"
	"net/http/httptest"
	"runtime"
	"sort"
	"strconv"
	"strings"
	"sync"
	"time"

	"github.com/golang/protobuf/proto"

	"github.com/chrislusf/seaweedfs/weed/filer"
	"github.com/chrislusf/seaweedfs/weed/pb/filer_pb"
	"github.com/chrislusf/seaweedfs/weed/storage/needle"
	"github.com/chrislusf/seaweedfs/weed/wdclient"
	"verifharness/hx"
)

// ---------- generator-side chunk tree ----------

type gchunk struct {
	key      uint64
	off      int64
	size     uint64
	mtime    int64
	children []*gchunk // non-nil: a manifest chunk
	manifest bool
}

const cookie = 0x01020304

func fidOf(key uint64) string { return needle.NewFileId(1, key, cookie).String() }

func keyOf(fileId string) uint64 {
	f, err := needle.ParseFileIdFromString(fileId)
	hx.Must(err)
	return uint64(f.Key)
}

func (g *gchunk) pb() *filer_pb.FileChunk {
	return &filer_pb.FileChunk{FileId: fidOf(g.key), Offset: g.off, Size: g.size, Mtime: g.mtime, IsChunkManifest: g.manifest}
}

func pbs(gs []*gchunk) []*filer_pb.FileChunk {
	out := make([]*filer_pb.FileChunk, len(gs))
	for i, g := range gs {
		out[i] = g.pb()
	}
	return out
}

// ---------- in-process "volume server" ----------

type world struct {
	mu      sync.RWMutex
	blobs   map[string][]byte // fileId -> stored bytes (chunk data or serialized manifest)
	missing map[string]bool   // lookup fails for these
	// fetch oracle of the CURRENT ReadAt call of a read sequence: file id -> failLookup / failHTTP / failShort
	failKind map[string]int
	srv     *httptest.Server
	cached  bool // chunk cache answers GetChunk
	slices  bool // chunk cache answers GetChunkSlice (with exactly the asked slice when it lies inside the blob)
	mc      *wdclient.MasterClient
}

func newWorld() *world {
	w := &world{blobs: map[string][]byte{}, missing: map[string]bool{}, failKind: map[string]int{}}
	w.srv = httptest.NewServer(http.HandlerFunc(func(rw http.ResponseWriter, r *http.Request) {
		id := strings.TrimPrefix(r.URL.Path, "/")
		w.mu.RLock()
		b, ok := w.blobs[id]
		w.mu.RUnlock()
		w.mu.RLock()
		fk := w.failKind[id]
		w.mu.RUnlock()
		if !ok || fk == failHTTP || (fk == failShort && len(b) == 0) {
			http.Error(rw, "not found", 404) // 4xx: not retried by retriedFetchChunkData (5xx is: 13 s of sleeps)
			return
		}
		if fk == failShort { // fewer bytes than the declared Content-Length: the client sees an unexpected EOF
			rw.Header().Set("Content-Length", strconv.Itoa(len(b)))
			rw.WriteHeader(200)
			rw.Write(b[:len(b)/2])
			return
		}
		// like a volume server: whole blob, or the byte range asked for by a Range header
		http.ServeContent(rw, r, "", time.Time{}, bytes.NewReader(b))
	}))
	// a master client whose vid map already knows volume 1 (ReadAll, NewChunkStreamReaderFromFiler)
	w.mc = wdclient.NewMasterClient(nil, "verif", "", 0, "", nil)
	w.mc.VerifAddLocation(1, wdclient.Location{Url: strings.TrimPrefix(w.srv.URL, "http://"), PublicUrl: strings.TrimPrefix(w.srv.URL, "http://")})
	return w
}

func (w *world) reset() {
	w.mu.Lock()
	w.blobs = map[string][]byte{}
	w.missing = map[string]bool{}
	w.failKind = map[string]int{}
	w.mu.Unlock()
}

const (
	failLookup = 1 // the volume lookup returns an error
	failHTTP   = 2 // the volume server answers 404
	failShort  = 3 // the volume server sends half of the declared body
)

// install the fetch oracle of the next ReadAt call
func (w *world) script(f map[string]int) {
	w.mu.Lock()
	w.failKind = f
	w.mu.Unlock()
}

// the chunk cache of a read sequence: keeps what SetChunk gives it (memo) or nothing; answers
// GetChunkSlice (slices) from the chunks it held when the running ReadAt call began: whether a chunk
// brought in by the running call (or its prefetch goroutine) is already there is a race in ChunkReadAt,
// and a cache may always answer nil
type seqCache struct {
	mu           sync.Mutex
	memo, slices bool
	held         map[string][]byte
	snap         map[string]bool
}

func (c *seqCache) beginCall() {
	c.mu.Lock()
	defer c.mu.Unlock()
	c.snap = map[string]bool{}
	for k := range c.held {
		c.snap[k] = true
	}
}

func (c *seqCache) GetChunk(fileId string, minSize uint64) []byte {
	c.mu.Lock()
	defer c.mu.Unlock()
	return c.held[fileId]
}
func (c *seqCache) GetChunkSlice(fileId string, offset, length uint64) []byte {
	c.mu.Lock()
	defer c.mu.Unlock()
	b, ok := c.held[fileId]
	if !c.slices || !ok || !c.snap[fileId] || offset+length > uint64(len(b)) {
		return nil
	}
	return b[offset : offset+length]
}
func (c *seqCache) SetChunk(fileId string, data []byte) {
	c.mu.Lock()
	defer c.mu.Unlock()
	if c.memo {
		c.held[fileId] = data
	}
}

// wait until no prefetch goroutine of a ChunkReadAt (go c.readOneWholeChunk(next)) is alive: a prefetch
// runs under the fetch oracle of the call that started it, and a later call must not join its flight
var stackBuf = make([]byte, 1<<20)
func quiesce() {
	buf := stackBuf
	for i := 0; ; i++ {
		n := runtime.Stack(buf, true)
		if n == len(buf) {
			panic("goroutine dump does not fit")
		}
		if !bytes.Contains(buf[:n], []byte("created by github.com/chrislusf/seaweedfs/weed/filer.(*ChunkReadAt).readFromWholeChunkData")) {
			return
		}
		if i > 20000 {
			panic("prefetch goroutines do not finish")
		}
		if i < 50 {
			runtime.Gosched()
		} else {
			time.Sleep(200 * time.Microsecond)
		}
	}
}

func (w *world) put(id string, b []byte) {
	w.mu.Lock()
	w.blobs[id] = b
	w.mu.Unlock()
}

func (w *world) lookup(fileId string) ([]string, error) {
	w.mu.RLock()
	miss := w.missing[fileId] || w.failKind[fileId] == failLookup
	w.mu.RUnlock()
	if miss {
		return nil, errors.New("volume not found")
	}
	return []string{w.srv.URL + "/" + fileId}, nil
}

// wdclient.HasLookupFileIdFunction (what StreamContent asks of a master client)
func (w *world) GetLookupFileIdFunction() wdclient.LookupFileIdFunctionType { return w.lookup }

// chunk_cache.ChunkCache
func (w *world) GetChunk(fileId string, minSize uint64) []byte {
	if !w.cached {
		return nil
	}
	w.mu.RLock()
	defer w.mu.RUnlock()
	return w.blobs[fileId]
}
func (w *world) GetChunkSlice(fileId string, offset, length uint64) []byte {
	if !w.slices {
		return nil
	}
	w.mu.RLock()
	defer w.mu.RUnlock()
	b := w.blobs[fileId]
	if offset+length > uint64(len(b)) {
		return nil
	}
	sliceHits++
	return b[offset : offset+length]
}

var sliceHits int

func (w *world) SetChunk(fileId string, data []byte)                       {}

// store the tree's manifests (serialized exactly like mergeIntoManifest does) and data
func (w *world) install(gs []*gchunk, data map[uint64][]byte, missing map[uint64]bool) {
	for _, g := range gs {
		if g.manifest {
			if missing[g.key] {
				w.mu.Lock()
				w.missing[fidOf(g.key)] = true
				w.mu.Unlock()
			} else {
				kids := pbs(g.children)
				filer_pb.BeforeEntrySerialization(kids)
				b, err := proto.Marshal(&filer_pb.FileChunkManifest{Chunks: kids})
				hx.Must(err)
				w.put(fidOf(g.key), b)
			}
			w.install(g.children, data, missing)
		} else {
			w.put(fidOf(g.key), data[g.key])
		}
	}
}

// ---------- Coq printing ----------

// Numerals and the [a;b] list notation are slow to elaborate in coqc (about 0.6 ms
// per literal): small numbers are printed as the identifiers n0..n255 defined in
// check/C17.v, lists as explicit cons cells, pairs as (pair a b).
func n(v uint64) string {
	if v < 256 {
		return "n" + strconv.FormatUint(v, 10)
	}
	return strconv.FormatUint(v, 10) + "%N"
}
func ni(v int64) string {
	if v < 0 {
		panic("negative value")
	}
	return n(uint64(v))
}
func lst(items []string) string {
	var sb strings.Builder
	for _, it := range items {
		sb.WriteString("(cons (")
		sb.WriteString(it)
		sb.WriteString(") ")
	}
	sb.WriteString("nil")
	for range items {
		sb.WriteString(")")
	}
	return sb.String()
}
func nl(xs []byte) string {
	var sb strings.Builder
	for _, b := range xs {
		sb.WriteString("(cons n")
		sb.WriteString(strconv.Itoa(int(b)))
		sb.WriteString(" ")
	}
	sb.WriteString("nil")
	for range xs {
		sb.WriteString(")")
	}
	return sb.String()
}
func pair(a, b string) string { return "pair " + a + " (" + b + ")" }

func coqChunkPb(c *filer_pb.FileChunk) string {
	return fmt.Sprintf("Chunk %s %s %s %s %s", n(keyOf(c.GetFileIdString())), ni(c.Offset), n(c.Size), ni(c.Mtime), hx.Bool(c.IsChunkManifest))
}
func coqChunksPb(cs []*filer_pb.FileChunk) string {
	ss := make([]string, len(cs))
	for i, c := range cs {
		ss[i] = coqChunkPb(c)
	}
	return lst(ss)
}
func coqVis(vs []filer.VerifVisible) string {
	ss := make([]string, len(vs))
	for i, v := range vs {
		ss[i] = fmt.Sprintf("Visible %s %s %s %s %s %s", ni(v.Start), ni(v.Stop), ni(v.Mtime), n(keyOf(v.FileId)), ni(v.ChunkOffset), n(v.ChunkSize))
	}
	return lst(ss)
}
func coqViews(vs []*filer.ChunkView) string {
	ss := make([]string, len(vs))
	for i, v := range vs {
		ss[i] = fmt.Sprintf("View %s %s %s %s %s", n(keyOf(v.FileId)), ni(v.Offset), n(v.Size), ni(v.LogicOffset), n(v.ChunkSize))
	}
	return lst(ss)
}

// manifests of the tree as an mstore, leaves as k_flat
func collect(gs []*gchunk, missing map[uint64]bool, ms *[]string, flat *[]string, depth int, maxDepth *int) {
	if depth > *maxDepth {
		*maxDepth = depth
	}
	for _, g := range gs {
		if g.manifest {
			if !missing[g.key] {
				*ms = append(*ms, pair(n(g.key), coqChunksPb(pbs(g.children))))
			}
			collect(g.children, missing, ms, flat, depth+1, maxDepth)
		} else {
			*flat = append(*flat, coqChunkPb(g.pb()))
		}
	}
}

type window struct {
	off, size int64
	fill      byte
}

// ---------- one case ----------

type spec struct {
	kind     string
	top      []*gchunk
	data     map[uint64][]byte
	missing  map[uint64]bool
	fileSize int64
	windows  []window
	factor   int
	next     uint64
	mt       int64
	slack    int
	cached   bool
	slices   bool
	xwindows []window   // windows whose offset+size exceeds MaxInt64 (views and streams only)
	csrOps   [][]csrOp  // ChunkStreamReader call sequences
	seqs     []readSeq  // ReadAt call sequences on ONE ChunkReadAt each, with a fetch oracle per call
}

// one ReadAt call of a sequence
type seqOp struct {
	closeFirst bool           // Close() before the call
	fail       map[uint64]int // file key -> failLookup / failHTTP / failShort during this call
	off, size  int64
	fill       byte
}
type readSeq struct {
	memo, slices bool
	ops          []seqOp
}

func leavesOf(gs []*gchunk, acc []*gchunk) []*gchunk {
	for _, g := range gs {
		if g.manifest {
			acc = leavesOf(g.children, acc)
		} else {
			acc = append(acc, g)
		}
	}
	return acc
}

// a call sequence: windows around the chunks, about half of the calls with 1-2 failing chunk fetches,
// a failed call is usually retried at once with the same window and no failure
func genSeq(s *spec, r *hx.Rng) readSeq {
	leaves := leavesOf(s.top, nil)
	q := readSeq{memo: r.Bool(), slices: r.Bool()}
	k := r.Range(3, 6)
	for i := 0; i < k; i++ {
		var op seqOp
		if i > 0 && len(q.ops[i-1].fail) > 0 && r.Chance(2, 3) {
			p := q.ops[i-1]
			op = seqOp{off: p.off, size: p.size, fill: p.fill}
		} else {
			l := leaves[r.Intn(len(leaves))]
			switch r.Intn(4) {
			case 0:
				op.off, op.size = 0, s.fileSize+int64(r.Intn(2))
			case 1:
				op.off = int64(r.Intn(int(s.fileSize) + 2))
				op.size = int64(r.Intn(int(s.fileSize-op.off) + 4))
			default:
				op.off, op.size = l.off, int64(l.size)
				if op.off > 0 && r.Chance(1, 4) {
					op.off--
				}
				if r.Chance(1, 3) {
					op.size += int64(r.Intn(4))
				} else if op.size > 1 && r.Chance(1, 4) {
					op.size--
				}
			}
			if op.size < 0 {
				op.size = 0
			}
			op.fill = byte(r.PickInt([]int{0xEE, 0, 0xFF, 7}))
			if r.Chance(1, 2) {
				op.fail = map[uint64]int{}
				if r.Chance(1, 2) {
					op.fail[l.key] = r.Range(failLookup, failShort)
				} else {
					op.fail[leaves[r.Intn(len(leaves))].key] = r.Range(failLookup, failShort)
				}
				if r.Chance(1, 4) {
					op.fail[leaves[r.Intn(len(leaves))].key] = r.Range(failLookup, failShort)
				}
			}
		}
		op.closeFirst = i > 0 && r.Chance(1, 10)
		q.ops = append(q.ops, op)
	}
	return q
}

// run one call sequence on a fresh ChunkReadAt over the views of the whole file
func runSeq(w *world, full []*filer.ChunkView, fileSize int64, q readSeq, out *hx.Out) string {
	cache := &seqCache{memo: q.memo, slices: q.slices, held: map[string][]byte{}}
	reader := filer.NewChunkReaderAtFromClient(w.lookup, full, cache, fileSize)
	quiesce()
	var opS, obS []string
	for i, op := range q.ops {
		if op.closeFirst {
			reader.Close()
		}
		fk := map[string]int{}
		var keys []uint64
		for k, kind := range op.fail {
			fk[fidOf(k)] = kind
			keys = append(keys, k)
			out.Count(fmt.Sprintf("seq:fail-kind-%d", kind), 1)
		}
		sort.Slice(keys, func(a, b int) bool { return keys[a] < keys[b] })
		ks := make([]string, len(keys))
		for j, k := range keys {
			ks[j] = n(k)
		}
		w.script(fk)
		cache.beginCall()
		buf := make([]byte, op.size)
		for j := range buf {
			buf[j] = op.fill
		}
		got, class, eof := 0, 0, false
		func() {
			defer func() {
				if recover() != nil {
					class = 2
				}
			}()
			var rerr error
			got, rerr = reader.ReadAt(buf, op.off)
			if rerr == io.EOF {
				eof = true
			} else if rerr != nil {
				class = 1
			}
		}()
		quiesce()
		w.script(map[string]int{})
		opS = append(opS, fmt.Sprintf("SqOp %s (%s) %s %s %s", hx.Bool(op.closeFirst), lst(ks), ni(op.off), ni(op.size), n(uint64(op.fill))))
		obS = append(obS, fmt.Sprintf("SqObs (%s) %s %s %s", nl(buf), n(uint64(got)), hx.Bool(eof), n(uint64(class))))
		out.Count("seq:call", 1)
		switch class {
		case 1:
			out.Count("seq:call-error", 1)
		case 2:
			out.Count("seq:call-panic", 1)
		default:
			if i > 0 && len(op.fail) == 0 && len(q.ops[i-1].fail) > 0 {
				out.Count("seq:call-after-failing-call-ok", 1)
			}
		}
	}
	reader.Close()
	return fmt.Sprintf("Sq %s %s (%s) (%s)", hx.Bool(q.memo), hx.Bool(q.slices), lst(opS), lst(obS))
}

type csrOp struct {
	read   bool
	n      int   // Read: len(p)
	off    int64 // Seek
	whence int
}

func zs(v int64) string {
	if v < 0 {
		return fmt.Sprintf("(%d)%%Z", v)
	}
	return fmt.Sprintf("%d%%Z", v)
}

// run one call sequence on a fresh ChunkStreamReader; stops at the first panic
func runCsr(w *world, chunks []*filer_pb.FileChunk, ops []csrOp) (string, string) {
	rd := filer.NewChunkStreamReaderFromFiler(w.mc, chunks)
	var opS, obS []string
	for _, op := range ops {
		if op.read {
			opS = append(opS, fmt.Sprintf("OpRead %d", op.n))
		} else {
			opS = append(opS, fmt.Sprintf("OpSeek %s %s", zs(op.off), n(uint64(op.whence))))
		}
	}
	for _, op := range ops {
		panicked := false
		func() {
			defer func() {
				if recover() != nil {
					panicked = true
				}
			}()
			if op.read {
				buf := make([]byte, op.n)
				got, err := rd.Read(buf)
				if err != nil && err != io.EOF {
					panic(fmt.Sprintf("unexpected Read error: %v", err))
				}
				obS = append(obS, fmt.Sprintf("ObsRead (%s) %s", nl(buf[:got]), hx.Bool(err == io.EOF)))
			} else {
				pos, err := rd.Seek(op.off, op.whence)
				if err != nil && err != io.ErrUnexpectedEOF {
					panic(fmt.Sprintf("unexpected Seek error: %v", err))
				}
				obS = append(obS, fmt.Sprintf("ObsSeek %s %s", zs(pos), hx.Bool(err != nil)))
			}
		}()
		if panicked {
			obS = append(obS, "ObsPanic")
			break
		}
	}
	return lst(opS), lst(obS)
}

func totalSize(gs []*gchunk) int64 {
	var t int64
	for _, g := range gs {
		if e := g.off + int64(g.size); e > t {
			t = e
		}
	}
	return t
}

func runCase(w *world, s *spec, out *hx.Out) {
	w.reset()
	w.cached = s.cached
	w.slices = s.slices
	w.install(s.top, s.data, s.missing)

	var ms, flat []string
	depth := 0
	collect(s.top, s.missing, &ms, &flat, 1, &depth)
	var store []string
	keys := make([]uint64, 0, len(s.data))
	for k := range s.data {
		keys = append(keys, k)
	}
	sort.Slice(keys, func(i, j int) bool { return keys[i] < keys[j] })
	for _, k := range keys {
		store = append(store, pair(n(k), nl(s.data[k])))
	}

	vis, err := filer.NonOverlappingVisibleIntervals(w.lookup, pbs(s.top), 0, math.MaxInt64)
	ivis := filer.VerifVisibles(vis)
	var views, reads, streams, xviews, csrs, seqs []string
	compacted, garbage, manChunks, manSaved, manVis := "nil", "nil", "nil", "nil", "nil"
	readall, callKeep, callGarb := "nil", "nil", "nil"
	if err == nil {
		full := filer.ViewFromChunks(w.lookup, pbs(s.top), 0, math.MaxInt64)
		reader := filer.NewChunkReaderAtFromClient(w.lookup, full, w, s.fileSize)
		for _, win := range s.windows {
			vs := filer.ViewFromChunks(w.lookup, pbs(s.top), win.off, win.size)
			views = append(views, fmt.Sprintf("W %s %s (%s)", ni(win.off), ni(win.size), coqViews(vs)))
			buf := make([]byte, win.size)
			for i := range buf {
				buf[i] = win.fill
			}
			got, rerr := reader.ReadAt(buf, win.off)
			eof := false
			if rerr == io.EOF {
				eof = true
			} else if rerr != nil {
				panic(fmt.Sprintf("unexpected ReadAt error: %v", rerr))
			}
			reads = append(reads, fmt.Sprintf("R %s %s %s (%s) %s %s", ni(win.off), ni(win.size), n(uint64(win.fill)), nl(buf), n(uint64(got)), hx.Bool(eof)))
			out.Count("read", 1)
			if got < len(buf) {
				out.Count("read:short", 1)
			}
		}
		reader.Close()
		for _, q := range s.seqs {
			seqs = append(seqs, runSeq(w, full, s.fileSize, q, out))
			out.Count("seq", 1)
		}

		// StreamContent (the HTTP GET path) on the same windows, and once "to the end"
		swins := append([]window{}, s.windows...)
		swins = append(swins, window{0, math.MaxInt64, 0})
		swins = append(swins, s.xwindows...)
		for _, win := range s.xwindows {
			vs := filer.ViewFromChunks(w.lookup, pbs(s.top), win.off, win.size)
			xviews = append(xviews, fmt.Sprintf("W %s %s (%s)", ni(win.off), ni(win.size), coqViews(vs)))
			out.Count("xview", 1)
		}
		for _, win := range swins {
			var sb bytes.Buffer
			if serr := filer.StreamContent(w, &sb, pbs(s.top), win.off, win.size); serr != nil {
				panic(fmt.Sprintf("unexpected StreamContent error: %v", serr))
			}
			streams = append(streams, fmt.Sprintf("St %s %s (%s)", ni(win.off), ni(win.size), nl(sb.Bytes())))
			out.Count("stream", 1)
		}

		// ReadAll and ChunkStreamReader through a real master client with a pre-filled vid map
		all, aerr := filer.ReadAll(w.mc, pbs(s.top))
		if aerr != nil {
			panic(fmt.Sprintf("unexpected ReadAll error: %v", aerr))
		}
		readall = nl(all)
		for _, ops := range s.csrOps {
			a, b := runCsr(w, pbs(s.top), ops)
			csrs = append(csrs, fmt.Sprintf("Cs (%s) (%s)", a, b))
			out.Count("csr", 1)
			if strings.Contains(b, "ObsPanic") {
				out.Count("csr:panic", 1)
			}
		}
		ck, cg := filer.CompactFileChunks(w.lookup, pbs(s.top))
		callKeep, callGarb = coqChunksPb(ck), coqChunksPb(cg)

		_, nonManifest := filer.SeparateManifestChunks(pbs(s.top))
		keep, garb := filer.CompactFileChunks(w.lookup, nonManifest)
		compacted, garbage = coqChunksPb(keep), coqChunksPb(garb)
		out.Count("compact:garbage", len(garb))

		// manifestize with the real mergeIntoManifest; saveFunc = counter + in-process store
		next := s.next
		var saved []string
		save := func(r io.Reader, name string, offset int64) (*filer_pb.FileChunk, string, string, error) {
			b, e := io.ReadAll(r)
			if e != nil {
				return nil, "", "", e
			}
			m := &filer_pb.FileChunkManifest{}
			hx.Must(proto.Unmarshal(b, m))
			filer_pb.AfterEntryDeserialization(m.Chunks)
			saved = append(saved, pair(n(next), coqChunksPb(m.Chunks)))
			id := fidOf(next)
			next++
			w.put(id, b)
			return &filer_pb.FileChunk{FileId: id, Offset: offset, Size: uint64(len(b)), Mtime: s.mt}, "", "", nil
		}
		mc, merr := filer.VerifMaybeManifestize(save, pbs(s.top), s.factor)
		hx.Must(merr)
		manChunks = coqChunksPb(mc)
		manSaved = lst(saved)
		out.Count("manifestize:new", len(saved))
		mvis, mverr := filer.NonOverlappingVisibleIntervals(w.lookup, mc, 0, math.MaxInt64)
		hx.Must(mverr)
		manVis = coqVis(filer.VerifVisibles(mvis))
	} else {
		out.Count("resolve-error", 1)
	}

	topS := coqChunksPb(pbs(s.top))
	term := fmt.Sprintf("{| k_ms := %s; k_chunks := %s; k_flat := %s; k_fuel := %d; k_store := %s; k_file_size := %s; "+
		"k_factor := %d; k_next := %s; k_mt := %s; i_vis := %s; i_err := %s; i_views := %s; i_reads := %s; i_streams := %s; "+
		"i_xviews := %s; i_readall := %s; i_csr := %s; i_seqs := %s; i_call_keep := %s; i_call_garb := %s; "+
		"i_compacted := %s; i_garbage := %s; i_man_chunks := %s; i_man_saved := %s; i_man_vis := %s |}",
		lst(ms), topS, lst(flat), depth+s.slack, lst(store), ni(s.fileSize),
		s.factor, n(s.next), ni(s.mt), coqVis(ivis), hx.Bool(err != nil), lst(views), lst(reads), lst(streams),
		lst(xviews), readall, lst(csrs), lst(seqs), callKeep, callGarb,
		compacted, garbage, manChunks, manSaved, manVis)
	ws := make([]string, len(s.windows))
	for i, win := range s.windows {
		ws[i] = fmt.Sprintf("%d+%d/%d", win.off, win.size, win.fill)
	}
	canon := fmt.Sprintf("%s|ms=%s|fs=%d|k=%d|w=%s|miss=%d|csr=%v|xw=%v|seq=%v", topS, strings.Join(ms, ";"), s.fileSize, s.factor, strings.Join(ws, ","), len(s.missing), s.csrOps, s.xwindows, s.seqs)
	out.Count(fmt.Sprintf("leaves:%02d", len(flat)), 1)
	out.Count(fmt.Sprintf("depth:%d", depth), 1)
	out.Count(fmt.Sprintf("visibles:%02d", len(ivis)), 1)
	out.Add(term, canon, err == nil && len(ivis) > 1, s.kind)
}

// ---------- generators ----------

func dataFor(r *hx.Rng, gs []*gchunk, data map[uint64][]byte) {
	for _, g := range gs {
		if g.manifest {
			dataFor(r, g.children, data)
		} else if _, ok := data[g.key]; !ok {
			data[g.key] = r.Bytes(int(g.size))
		}
	}
}

func allWindows(fs int64, r *hx.Rng) []window {
	var ws []window
	fills := []byte{0xEE, 0x00, 0xFF, 0x01}
	for off := int64(0); off <= fs+1; off++ {
		for size := int64(0); off+size <= fs+2; size++ {
			ws = append(ws, window{off, size, fills[r.Intn(len(fills))]})
		}
	}
	return ws
}

func someWindows(fs int64, r *hx.Rng, k int, edges []int64) []window {
	ws := []window{{0, fs + 2, 0xEE}}
	for i := 0; i < k; i++ {
		var off int64
		if len(edges) > 0 && r.Chance(1, 2) {
			off = edges[r.Intn(len(edges))]
			if off > 0 && r.Chance(1, 3) {
				off--
			}
		} else {
			off = int64(r.Intn(int(fs) + 2))
		}
		size := int64(r.Intn(int(fs-off)+4) + 0)
		if size < 0 {
			size = 0
		}
		if r.Chance(1, 4) && len(edges) > 0 {
			e := edges[r.Intn(len(edges))]
			if e > off {
				size = e - off
			}
		}
		ws = append(ws, window{off, size, byte(r.PickInt([]int{0xEE, 0, 0xFF, 7}))})
	}
	return ws
}

// windows that end beyond MaxInt64 (the int64 sum wraps) and ChunkStreamReader call sequences
func extras(s *spec, r *hx.Rng, total int64) {
	o1 := int64(r.Range(1, int(total)+2))
	o2 := int64(r.Range(1, int(total)+1))
	s.xwindows = []window{{o1, math.MaxInt64, 0}, {o2, math.MaxInt64 - o2 + 1, 0}, {o1, math.MaxInt64 - int64(r.Intn(int(o1))), 0}}
	// reader A: Reads only, to the end
	var a []csrOp
	for left := total + 3; left > 0; {
		k := r.PickInt([]int{0, 1, 1, 2, 3, 5, 8, int(total) + 2})
		a = append(a, csrOp{read: true, n: k})
		if k == 0 {
			left--
		}
		left -= int64(k)
	}
	// reader B: Seeks (mostly SeekStart strictly inside the content) mixed with Reads
	var b []csrOp
	for i, k := 0, r.Range(2, 6); i < k; i++ {
		if r.Chance(1, 2) {
			b = append(b, csrOp{read: true, n: r.Intn(6)})
			continue
		}
		switch c := r.Intn(12); {
		case c < 8 && total > 0:
			b = append(b, csrOp{off: int64(r.Intn(int(total))), whence: io.SeekStart})
		case c == 8:
			b = append(b, csrOp{off: total + int64(r.Intn(2)), whence: io.SeekStart})
		case c == 9 && total > 0:
			b = append(b, csrOp{off: -int64(r.Range(1, int(total))), whence: io.SeekEnd})
		default:
			b = append(b, csrOp{off: int64(r.Intn(3)), whence: io.SeekCurrent})
		}
	}
	b = append(b, csrOp{read: true, n: r.Range(1, 4)})
	s.csrOps = [][]csrOp{a, b}
	s.slices = r.Bool()
	s.seqs = []readSeq{genSeq(s, r)}
}

// decode exhaustive case g of "m chunks over offsets 0..no-1, sizes 1..ns": chunk i (in mtime order) = digit i
func exhaustive(g int, m, no, ns int, r *hx.Rng, all bool, kind string, ties bool) *spec {
	per := no * ns
	gs := make([]*gchunk, m)
	for i := 0; i < m; i++ {
		d := g % per
		g /= per
		gs[i] = &gchunk{key: uint64(i + 1), off: int64(d / ns), size: uint64(d%ns + 1), mtime: int64(i + 1)}
	}
	if ties {
		// mtimes 1,1,2,2,..: equal mtimes are ordered by the file key; keys are a seed-chosen permutation
		keys := make([]uint64, m)
		for i := range keys {
			keys[i] = uint64(i + 1)
		}
		for i := m - 1; i > 0; i-- {
			j := r.Intn(i + 1)
			keys[i], keys[j] = keys[j], keys[i]
		}
		for i := 0; i < m; i++ {
			gs[i].key, gs[i].mtime = keys[i], int64(i/2+1)
		}
	}
	// list order: a seed-chosen permutation (the sort makes it irrelevant for the overlay)
	for i := m - 1; i > 0; i-- {
		j := r.Intn(i + 1)
		gs[i], gs[j] = gs[j], gs[i]
	}
	s := &spec{kind: kind, top: gs, data: map[uint64][]byte{}, missing: map[uint64]bool{}}
	dataFor(r, gs, s.data)
	s.fileSize = totalSize(gs) + int64(r.PickInt([]int{0, 0, 1, 2}))
	var edges []int64
	for _, c := range gs {
		edges = append(edges, c.off, c.off+int64(c.size))
	}
	if all {
		s.windows = allWindows(s.fileSize, r)
	} else {
		s.windows = someWindows(s.fileSize, r, 5, edges)
	}
	s.factor = r.Range(1, 3)
	s.next = 100
	s.mt = int64(r.Intn(5))
	s.cached = r.Bool()
	extras(s, r, totalSize(gs))
	return s
}

func ipow(a, b int) int {
	x := 1
	for i := 0; i < b; i++ {
		x *= a
	}
	return x
}

func randomCase(r *hx.Rng) *spec {
	nleaf := r.Range(1, 12)
	if r.Chance(1, 6) {
		nleaf = r.Range(1, 4)
	}
	maxOff := 40
	if r.Chance(1, 3) {
		maxOff = 12
	}
	leaves := make([]*gchunk, nleaf)
	// mtimes: a permutation, or values from a small set (ties broken by the distinct keys)
	mt := make([]int64, nleaf)
	for i := range mt {
		mt[i] = int64(i + 1)
	}
	for i := nleaf - 1; i > 0; i-- {
		j := r.Intn(i + 1)
		mt[i], mt[j] = mt[j], mt[i]
	}
	ties := r.Chance(1, 4)
	keys := make([]uint64, nleaf)
	for i := range keys {
		keys[i] = uint64(i + 1)
	}
	for i := nleaf - 1; i > 0; i-- {
		j := r.Intn(i + 1)
		keys[i], keys[j] = keys[j], keys[i]
	}
	for i := 0; i < nleaf; i++ {
		var size uint64
		switch k := r.Intn(20); {
		case k == 0:
			size = 0
		case k < 13:
			size = uint64(r.Range(1, 6))
		case k < 18:
			size = uint64(r.Range(5, 14))
		default:
			size = uint64(r.Range(15, 30))
		}
		m := mt[i]
		if ties {
			m = int64(r.Range(1, 3))
		}
		leaves[i] = &gchunk{key: keys[i], off: int64(r.Intn(maxOff + 1)), size: size, mtime: m}
	}
	// sometimes the same file id is referenced twice (different offset and mtime)
	if nleaf >= 2 && !ties && r.Chance(1, 10) {
		a, b := leaves[0], leaves[1]
		b.key, b.size = a.key, a.size
	}
	s := &spec{kind: "random", data: map[uint64][]byte{}, missing: map[uint64]bool{}}
	// wrap groups of nodes into manifests (hull of the children, like mergeIntoManifest), up to 2 levels
	nodes := leaves
	nextKey := uint64(50)
	levels := 0
	if r.Chance(1, 2) {
		levels = r.Range(1, 2)
	}
	for l := 0; l < levels; l++ {
		var outNodes []*gchunk
		i := 0
		for i < len(nodes) {
			if r.Chance(1, 2) && len(nodes)-i >= 1 {
				k := r.Range(1, 4)
				if i+k > len(nodes) {
					k = len(nodes) - i
				}
				kids := nodes[i : i+k]
				mn, mx := int64(math.MaxInt64), int64(math.MinInt64)
				for _, c := range kids {
					if c.off < mn {
						mn = c.off
					}
					if c.off+int64(c.size) > mx {
						mx = c.off + int64(c.size)
					}
				}
				if r.Chance(1, 4) { // a manifest range wider than the hull of its children
					if d := int64(r.Intn(4)); d <= mn {
						mn -= d
					}
					mx += int64(r.Intn(4))
				}
				outNodes = append(outNodes, &gchunk{key: nextKey, off: mn, size: uint64(mx - mn), mtime: int64(r.Intn(4)), manifest: true, children: append([]*gchunk{}, kids...)})
				nextKey++
				i += k
			} else {
				outNodes = append(outNodes, nodes[i])
				i++
			}
		}
		nodes = outNodes
	}
	for i := len(nodes) - 1; i > 0; i-- {
		j := r.Intn(i + 1)
		nodes[i], nodes[j] = nodes[j], nodes[i]
	}
	s.top = nodes
	dataFor(r, nodes, s.data)
	s.fileSize = totalSize(nodes) + int64(r.PickInt([]int{0, 0, 0, 1, 5}))
	var edges []int64
	for _, c := range leaves {
		edges = append(edges, c.off, c.off+int64(c.size))
	}
	s.windows = someWindows(s.fileSize, r, 5, edges)
	s.factor = r.Range(1, 4)
	s.next = 100
	s.mt = int64(r.Intn(5))
	s.slack = r.Intn(2)
	s.cached = r.Bool()
	extras(s, r, totalSize(leaves))
	// fault injection: one manifest cannot be fetched -> the resolve error must be reported
	if levels > 0 && r.Chance(1, 12) {
		var mans []*gchunk
		var walk func(gs []*gchunk)
		walk = func(gs []*gchunk) {
			for _, g := range gs {
				if g.manifest {
					mans = append(mans, g)
					walk(g.children)
				}
			}
		}
		walk(nodes)
		if len(mans) > 0 {
			s.missing[mans[r.Intn(len(mans))].key] = true
			s.kind = "random-missing-manifest"
		}
	}
	return s
}

// fixed regression cases (independent of the seed)
func fixedCase(i int, r *hx.Rng) *spec {
	mk := func(key uint64, off int64, size uint64, mtime int64) *gchunk {
		return &gchunk{key: key, off: off, size: size, mtime: mtime}
	}
	s := &spec{kind: "fixed", data: map[uint64][]byte{}, missing: map[uint64]bool{}, factor: 2, next: 100, mt: 3}
	switch i {
	case 0: // holes between chunks and at the tail, dirty buffer (the ReadAt repair)
		s.top = []*gchunk{mk(1, 0, 2, 1), mk(2, 5, 2, 2)}
		s.fileSize = 9
		// {0,7}: the StreamContent witness (hole in the middle); {3,6}: hole at both ends; {2,3}: only a hole
		s.windows = []window{{0, 7, 0xEE}, {0, 12, 0xEE}, {1, 5, 0xEE}, {3, 6, 0xEE}, {2, 3, 0xEE}, {7, 2, 0xEE}, {8, 4, 0xEE}, {9, 3, 0xEE}, {3, 0, 0xEE}}
		s.csrOps = [][]csrOp{{{read: true, n: 7}}, {{off: 5, whence: io.SeekStart}, {read: true, n: 2}}}
		s.xwindows = []window{{3, math.MaxInt64, 0}, {6, math.MaxInt64 - 3, 0}}
		// one chunk was read, the fetch of the other fails (each failure kind once), the call is retried
		s.seqs = []readSeq{
			{ops: []seqOp{{off: 5, size: 2, fill: 0xEE}, {off: 0, size: 2, fill: 0xEE, fail: map[uint64]int{1: failLookup}}, {off: 0, size: 2, fill: 0xEE},
				{off: 0, size: 9, fill: 0xEE, fail: map[uint64]int{2: failHTTP}}, {off: 0, size: 9, fill: 0xEE},
				{closeFirst: true, off: 4, size: 4, fill: 7, fail: map[uint64]int{2: failShort}}, {off: 4, size: 4, fill: 7}}},
			{memo: true, slices: true, ops: []seqOp{{off: 0, size: 4, fill: 0xEE, fail: map[uint64]int{1: failLookup}}, {off: 0, size: 4, fill: 0xEE},
				{off: 0, size: 10, fill: 0xEE, fail: map[uint64]int{1: failHTTP, 2: failShort}}, {off: 1, size: 6, fill: 0, fail: map[uint64]int{2: failHTTP}}, {off: 1, size: 6, fill: 0}}},
			{memo: true, ops: []seqOp{{off: 0, size: 1, fill: 1}, {off: 5, size: 2, fill: 1, fail: map[uint64]int{2: failLookup}}, {off: 5, size: 2, fill: 1, fail: map[uint64]int{1: failLookup}}}},
		}
	case 1: // finding 1: Seek to the end of a file without holes, then Read
		s.top = []*gchunk{mk(1, 0, 2, 1), mk(2, 2, 2, 2)}
		s.fileSize = 4
		s.windows = allWindows(4, r)
		s.csrOps = [][]csrOp{{{off: 4, whence: io.SeekStart}, {read: true, n: 2}}, {{read: true, n: 3}, {off: 1, whence: io.SeekStart}, {read: true, n: 5}}}
	case 2: // finding 2: CompactFileChunks on a list that holds a manifest chunk
		s.top = []*gchunk{{key: 60, off: 0, size: 4, mtime: 0, manifest: true, children: []*gchunk{mk(1, 0, 4, 1)}}}
		s.fileSize = 4
		s.windows = allWindows(4, r)
		s.csrOps = [][]csrOp{{{read: true, n: 9}}}
	case 3: // a newer chunk in the middle of an older one, then a cover of everything by the oldest mtime
		s.top = []*gchunk{mk(3, 0, 10, 2), mk(1, 3, 4, 5), mk(2, 0, 12, 1), mk(4, 2, 2, 7)}
		s.fileSize = 12
		s.windows = allWindows(12, r)
	default: // nested manifests
		a, b, c, d := mk(1, 0, 4, 4), mk(2, 2, 4, 3), mk(3, 5, 3, 2), mk(4, 1, 2, 1)
		inner := &gchunk{key: 60, off: 2, size: 6, mtime: 0, manifest: true, children: []*gchunk{b, c}}
		outer := &gchunk{key: 61, off: 1, size: 7, mtime: 0, manifest: true, children: []*gchunk{inner, d}}
		s.top = []*gchunk{outer, a}
		s.fileSize = 9
		s.windows = allWindows(9, r)
	}
	dataFor(r, s.top, s.data)
	if i >= 3 {
		extras(s, r, s.fileSize)
	}
	return s
}

const nFixed = 5

func main() {
	per := flag.Int("per", 250, "cases per shard (must equal the shard size of checks/C17.json): shard k enumerates exhaustive cases k*per..")
	out := hx.Flags("C17", 250)
	shard := int(out.Seed % 1000)
	e1, e2 := 32, 32*32
	var e3, e4 int
	var e3o, e3s, e4o, e4s int
	if out.Tier == "thorough" {
		e3o, e3s, e4o, e4s = 8, 4, 4, 3
	} else {
		e3o, e3s, e4o, e4s = 4, 3, 3, 2
	}
	e3, e4 = ipow(e3o*e3s, 3), ipow(e4o*e4s, 4)
	out.Rule = fmt.Sprintf("shard k (seed mod 1000) emits cases k*per.. of the enumeration: %d fixed cases (0,1,2 = the witnesses of known findings 0,1,2); ALL lists of 1 and 2 chunks over offsets 0..7 x sizes 1..4 (mtime order = enumeration order, list order permuted by the seed), with EVERY window (off,len) up to fileSize+2 for views and reads (quick tier: every window for the 1-chunk lists and for the third of the 2-chunk lists selected by the base seed, the full window and 5 seed-chosen windows for the others); ALL lists of 3 chunks over offsets 0..%d x sizes 1..%d and of 4 chunks over offsets 0..%d x sizes 1..%d with the full window and 5 seed-chosen windows; then random trees: <=12 leaf chunks over offsets 0..40, sizes 0..30, mtimes a permutation or ties with distinct keys, occasionally one file id used twice, up to 2 levels of manifests (hull ranges), shuffled, 1/12 of the manifest cases with an unfetchable manifest; every case: visibles, views, ReadAt into a pre-dirtied buffer, StreamContent on the same windows and once with size MaxInt64, 3 view+stream windows whose offset+size exceeds MaxInt64, ReadAll and two ChunkStreamReader call sequences (Reads to the end; Seeks mixed with Reads) through a real MasterClient with a pre-filled vid map, the chunk cache answering GetChunk / GetChunkSlice in half of the cases each, CompactFileChunks on the whole list and on the non-manifest chunks, a third of the 3-chunk and a quarter of the 4-chunk lists with mtime ties (1,1,2,..) and permuted keys, a quarter of the random manifests with a range wider than the hull, doMaybeManifestize with factor 1..4 and re-resolution; one ReadAt CALL SEQUENCE (3-6 calls; fixed case 0: three scripted sequences) on ONE ChunkReadAt with its own chunk cache (keeps SetChunk'ed chunks or nothing; answers GetChunkSlice from the chunks held at call start or never) and a fetch oracle per call: about half of the calls have 1-2 chunks whose fetch fails (volume lookup error / HTTP 404 / half of the declared body), a failed call is retried at once with the same window in 2/3 of the cases, Close() before a tenth of the calls; panics are caught and reported; prefetch goroutines are awaited after every call. non-trivial = no resolve error and >= 2 visible intervals; distinct = canonical input (chunks, manifests, file size, factor, windows)",
		nFixed, e3o-1, e3s, e4o-1, e4s)
	w := newWorld()
	defer w.srv.Close()
	root := hx.NewRng(out.Seed)
	for i := 0; i < out.N; i++ {
		r := root.Fork()
		if out.Only >= 0 && i != out.Only {
			// keep the stream aligned but skip the work
			out.Add("(* skipped *)", "", false, "skipped")
			continue
		}
		g := shard**per + i
		var s *spec
		switch {
		case shard == 999:
			s = randomCase(r)
		case g < nFixed:
			s = fixedCase(g, r)
		case g < nFixed+e1:
			s = exhaustive(g-nFixed, 1, 8, 4, r, true, "exh1", false)
		case g < nFixed+e1+e2:
			// every window for all 2-chunk lists (thorough) or for the third of them selected by the base seed (quick)
			j := g - nFixed - e1
			allw := out.Tier == "thorough" || uint64(j%3) == (out.Seed/1000)%3
			s = exhaustive(j, 2, 8, 4, r, allw, "exh2", false)
		case g < nFixed+e1+e2+e3:
			// a seed-rotated third of the 3-chunk lists gets mtimes 1,1,2 with permuted keys (the FileKey tie-break)
			j := g - nFixed - e1 - e2
			if uint64(j%3) == (out.Seed/1000+1)%3 {
				s = exhaustive(j, 3, e3o, e3s, r, false, "exh3-ties", true)
			} else {
				s = exhaustive(j, 3, e3o, e3s, r, false, "exh3", false)
			}
		case g < nFixed+e1+e2+e3+e4:
			s = exhaustive(g-nFixed-e1-e2-e3, 4, e4o, e4s, r, false, "exh4", (g+int(out.Seed/1000))%4 == 0)
		default:
			s = randomCase(r)
		}
		runCase(w, s, out)
	}
	out.Count("chunk-slice-hits", sliceHits)
	out.Extra["exhaustive_total"] = nFixed + e1 + e2 + e3 + e4
	out.Write()
}
