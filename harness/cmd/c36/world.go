// A real in-process filer (filer.Filer over an embedded leveldb store +
// FilerServer gRPC handlers called directly) whose change events are captured
// from notification.Queue: the events and their queue keys are the ones the
// filer really emits (weed/filer/filer_notify.go, filer_delete_entry.go,
// filer_grpc_server_rename.go), not re-implemented by the harness.
package main

import (
	"context"
	"os"
	"strings"
	"time"

	"github.com/golang/protobuf/proto"

	"github.com/chrislusf/seaweedfs/weed/filer"
	"github.com/chrislusf/seaweedfs/weed/filer/leveldb"
	"github.com/chrislusf/seaweedfs/weed/notification"
	"github.com/chrislusf/seaweedfs/weed/pb/filer_pb"
	weed_server "github.com/chrislusf/seaweedfs/weed/server"
	"github.com/chrislusf/seaweedfs/weed/util"
	"verifharness/hx"
)

type queued struct {
	key string
	msg *filer_pb.EventNotification
}

type recQueue struct{ got []queued }

func (q *recQueue) GetName() string                                                  { return "verif-c36" }
func (q *recQueue) Initialize(configuration util.Configuration, prefix string) error { return nil }
func (q *recQueue) SendMessage(key string, message proto.Message) error {
	q.got = append(q.got, queued{key, proto.Clone(message).(*filer_pb.EventNotification)})
	return nil
}

type dirConf struct{ dir string }

func (d dirConf) GetString(key string) string {
	if strings.HasSuffix(key, "dir") {
		return d.dir
	}
	return ""
}
func (d dirConf) GetBool(string) bool            { return false }
func (d dirConf) GetInt(string) int              { return 0 }
func (d dirConf) GetStringSlice(string) []string { return nil }
func (d dirConf) SetDefault(string, interface{}) {}

const worldSig = 5 // the signature of the in-process filer

type world struct {
	dir string
	raw *leveldb.LevelDBStore
	f   *filer.Filer
	fs  *weed_server.FilerServer
	q   *recQueue
	ctx context.Context
	ver int // content version counter
}

func newWorld() *world {
	dir, err := os.MkdirTemp("", "c36-filer-")
	hx.Must(err)
	raw := &leveldb.LevelDBStore{}
	hx.Must(raw.Initialize(dirConf{dir}, "leveldb."))
	w := &world{dir: dir, raw: raw, ctx: context.Background(), q: &recQueue{}}
	w.f = filer.NewFilerForVerif(raw, "/buckets")
	w.f.Signature = worldSig
	w.fs = weed_server.NewFilerServerForVerif(w.f)
	notification.Queue = w.q
	return w
}

func (w *world) close() {
	notification.Queue = nil
	w.raw.Shutdown()
	os.RemoveAll(w.dir)
}

// take returns the events queued since the last call
func (w *world) take() []queued {
	g := w.q.got
	w.q.got = nil
	return g
}

func (w *world) exists(p string) (found, isDir bool) {
	e, err := w.f.FindEntry(w.ctx, util.FullPath(p))
	if err != nil {
		return false, false
	}
	return true, e.IsDirectory()
}

func (w *world) create(p string, isDir bool, mtime int64, sigs []int32) error {
	mode := os.FileMode(0644)
	if isDir {
		mode = os.ModeDir | 0755
	}
	t := time.Unix(mtime, 0)
	en := &filer.Entry{FullPath: util.FullPath(p), Attr: filer.Attr{Mtime: t, Crtime: t, Mode: mode}}
	if !isDir {
		w.ver++
		en.Chunks = chunksOf(w.ver)
	}
	return w.f.CreateEntry(w.ctx, en, false, false, sigs)
}

// update goes through the real gRPC handler FilerServer.UpdateEntry
func (w *world) update(p string, mtime int64, sigs []int32) error {
	d, n := util.FullPath(p).DirAndName()
	t := time.Unix(mtime, 0)
	en := &filer.Entry{FullPath: util.FullPath(p), Attr: filer.Attr{Mtime: t, Crtime: t, Mode: 0600}}
	w.ver++
	en.Chunks = chunksOf(w.ver)
	pe := en.ToProtoEntry()
	pe.Name = n
	_, err := w.fs.UpdateEntry(w.ctx, &filer_pb.UpdateEntryRequest{Directory: d, Entry: pe, Signatures: sigs})
	return err
}

// remove goes through the real gRPC handler FilerServer.DeleteEntry (IsDeleteData off: there is no master to delete chunks at)
func (w *world) remove(p string, recursive bool, fromOther bool, sigs []int32) string {
	d, n := util.FullPath(p).DirAndName()
	resp, err := w.fs.DeleteEntry(w.ctx, &filer_pb.DeleteEntryRequest{Directory: d, Name: n, IsDeleteData: false, IsRecursive: recursive, IsFromOtherCluster: fromOther, Signatures: sigs})
	hx.Must(err)
	return resp.Error
}

func (w *world) rename(from, to string, sigs []int32) error {
	fd, fn := util.FullPath(from).DirAndName()
	td, tn := util.FullPath(to).DirAndName()
	done := make(chan error, 1)
	go func() {
		_, e := w.fs.AtomicRenameEntry(w.ctx, &filer_pb.AtomicRenameEntryRequest{OldDirectory: fd, OldName: fn, NewDirectory: td, NewName: tn, Signatures: sigs})
		done <- e
	}()
	select {
	case err := <-done:
		return err
	case <-time.After(20 * time.Second):
		panic("c36: AtomicRenameEntry did not return")
	}
}

// evOf turns a queued message into the response a subscriber receives:
// Filer.logMetaEvent files it under the directory of the queue key
func evOf(q queued) *ev {
	d, _ := util.FullPath(q.key).DirAndName()
	return &ev{dir: d, old: q.msg.OldEntry, new: q.msg.NewEntry, newParent: q.msg.NewParentPath,
		delChunks: q.msg.DeleteChunks, fromOther: q.msg.IsFromOtherCluster, sigs: q.msg.Signatures, realKey: q.key}
}
