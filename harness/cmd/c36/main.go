// C36 harness: change events through the real Replicator.Replicate and
// genProcessFunction (recording sink), through the real filer.sync loop with a
// FilerSink against in-process gRPC filers, and through genProcessFunction into
// a real LocalSink in a scratch directory.
package main

import (
	"bytes"
	"context"
	"fmt"
	"net"
	"net/http"
	"os"
	"path/filepath"
	"sort"
	"strings"
	"sync"
	"time"

	"google.golang.org/grpc"

	"github.com/chrislusf/seaweedfs/weed/command"
	"github.com/chrislusf/seaweedfs/weed/pb/filer_pb"
	"github.com/chrislusf/seaweedfs/weed/replication"
	"github.com/chrislusf/seaweedfs/weed/replication/sink/localsink"
	"github.com/chrislusf/seaweedfs/weed/replication/source"
	"github.com/chrislusf/seaweedfs/weed/util"
	"verifharness/hx"
)

// ---------- recording sink ----------

type recSink struct {
	name   string
	dir    string
	inc    bool
	found  bool
	want   []int32 // message.Signatures of the event being processed
	ops    []string
	sigsOK bool
}

func sameSigs(a, b []int32) bool {
	if len(a) != len(b) {
		return false
	}
	for i := range a {
		if a[i] != b[i] {
			return false
		}
	}
	return true
}

func (r *recSink) GetName() string                                                  { return r.name }
func (r *recSink) Initialize(configuration util.Configuration, prefix string) error { return nil }
func (r *recSink) DeleteEntry(key string, isDirectory, deleteIncludeChunks bool, signatures []int32) error {
	r.sigsOK = r.sigsOK && sameSigs(signatures, r.want)
	r.ops = append(r.ops, fmt.Sprintf("Delete %s %s %s", hx.Str(key), hx.Bool(isDirectory), hx.Bool(deleteIncludeChunks)))
	return nil
}
func (r *recSink) CreateEntry(key string, entry *filer_pb.Entry, signatures []int32) error {
	r.sigsOK = r.sigsOK && sameSigs(signatures, r.want)
	r.ops = append(r.ops, fmt.Sprintf("Create %s %s", hx.Str(key), coqEntry(entry)))
	return nil
}
func (r *recSink) UpdateEntry(key string, oldEntry *filer_pb.Entry, newParentPath string, newEntry *filer_pb.Entry, deleteIncludeChunks bool, signatures []int32) (bool, error) {
	r.sigsOK = r.sigsOK && sameSigs(signatures, r.want)
	r.ops = append(r.ops, fmt.Sprintf("Update %s %s %s %s", hx.Str(key), hx.Str(newParentPath), coqEntry(newEntry), hx.Bool(deleteIncludeChunks)))
	return r.found, nil
}
func (r *recSink) GetSinkToDirectory() string           { return r.dir }
func (r *recSink) SetSourceFiler(s *source.FilerSource) {}
func (r *recSink) IsIncremental() bool                  { return r.inc }

type mapCfg map[string]string

func (c mapCfg) GetString(k string) string          { return c[k] }
func (c mapCfg) GetBool(k string) bool              { return c[k] == "true" }
func (c mapCfg) GetInt(k string) int                { return 0 }
func (c mapCfg) GetStringSlice(k string) []string   { return nil }
func (c mapCfg) SetDefault(k string, v interface{}) {}

// ---------- events ----------

type ev struct {
	dir       string
	old, new  *filer_pb.Entry
	newParent string
	delChunks bool
	fromOther bool
	sigs      []int32
	realKey   string // the queue key the real filer used (events captured from a real filer)
}

func dateOf(e *filer_pb.Entry) string {
	return time.Unix(e.Attributes.Mtime, 0).Format("2006-01-02")
}

func coqEntry(e *filer_pb.Entry) string {
	return fmt.Sprintf("{| e_name := %s; e_isdir := %s; e_date := %s; e_data := %s |}", hx.Str(e.Name), hx.Bool(e.IsDirectory), hx.Str(dateOf(e)), hx.Bytes(dataOf(e)))
}

// ---------- file content: chunks served by an in-process blob server ----------

var (
	blobMu   sync.Mutex
	blobs    = map[string][]byte{} // file id -> bytes
	blobAddr string
)

// chunksOf returns the (contiguous, non-overlapping) chunks of content version v
// and registers their bytes with the blob server.
func chunksOf(v int) []*filer_pb.FileChunk {
	blobMu.Lock()
	defer blobMu.Unlock()
	var cs []*filer_pb.FileChunk
	off := int64(0)
	for i := 0; i < 1+v%2; i++ {
		n := 2 + (v+i)%3
		b := make([]byte, n)
		for j := range b {
			b[j] = byte((7*v + 3*i + j) % 251)
		}
		fid := fmt.Sprintf("3,%02x%08x", 1+2*v+i, 0x11223344)
		blobs[fid] = b
		cs = append(cs, &filer_pb.FileChunk{FileId: fid, Offset: off, Size: uint64(n), Mtime: int64(i + 1)})
		off += int64(n)
	}
	return cs
}

// dataOf is the content an entry's chunks describe (offset order)
func dataOf(e *filer_pb.Entry) []byte {
	blobMu.Lock()
	defer blobMu.Unlock()
	cs := append([]*filer_pb.FileChunk(nil), e.Chunks...)
	sort.Slice(cs, func(i, j int) bool { return cs[i].Offset < cs[j].Offset })
	var out []byte
	for _, c := range cs {
		out = append(out, blobs[c.GetFileIdString()]...)
	}
	return out
}

func startBlobServer() {
	if blobAddr != "" {
		return
	}
	l, err := net.Listen("tcp", "127.0.0.1:0")
	hx.Must(err)
	blobAddr = l.Addr().String()
	go http.Serve(l, http.HandlerFunc(func(w http.ResponseWriter, r *http.Request) {
		blobMu.Lock()
		b, ok := blobs[strings.TrimPrefix(r.URL.Path, "/")]
		blobMu.Unlock()
		if !ok {
			http.NotFound(w, r)
			return
		}
		http.ServeContent(w, r, "", time.Time{}, bytes.NewReader(b))
	}))
}

func fileEntry(name string, mtime int64, v int) *filer_pb.Entry {
	e := entry(name, false, mtime)
	e.Chunks = chunksOf(v)
	return e
}

func coqOptEntry(e *filer_pb.Entry) string {
	if e == nil {
		return "None"
	}
	return hx.Some(coqEntry(e))
}

func (e *ev) coq() string {
	sigs := make([]string, len(e.sigs))
	for i, s := range e.sigs {
		sigs[i] = hx.Z(int64(s))
	}
	return fmt.Sprintf("{| ev_dir := %s; ev_old := %s; ev_new := %s; ev_new_parent := %s; ev_delete_chunks := %s; ev_from_other := %s; ev_sigs := %s |}",
		hx.Str(e.dir), coqOptEntry(e.old), coqOptEntry(e.new), hx.Str(e.newParent), hx.Bool(e.delChunks), hx.Bool(e.fromOther), hx.List(sigs))
}

func (e *ev) canon() string {
	n := func(x *filer_pb.Entry) string {
		if x == nil {
			return "-"
		}
		return fmt.Sprintf("%s:%v:%s", x.Name, x.IsDirectory, dateOf(x))
	}
	return fmt.Sprintf("%s|%s|%s|%s|%v|%v|%v", e.dir, n(e.old), n(e.new), e.newParent, e.delChunks, e.fromOther, e.sigs)
}

func (e *ev) message() *filer_pb.EventNotification {
	return &filer_pb.EventNotification{OldEntry: e.old, NewEntry: e.new, DeleteChunks: e.delChunks,
		NewParentPath: e.newParent, IsFromOtherCluster: e.fromOther, Signatures: e.sigs}
}

func (e *ev) resp() *filer_pb.SubscribeMetadataResponse {
	return &filer_pb.SubscribeMetadataResponse{Directory: e.dir, EventNotification: e.message(), TsNs: 1}
}

// the key under which weed/filer/filer_notify.go queues the event
func (e *ev) key() string {
	if e.realKey != "" {
		return e.realKey
	}
	if e.old != nil {
		return string(util.FullPath(e.dir).Child(e.old.Name))
	}
	if e.new != nil {
		return string(util.FullPath(e.newParent).Child(e.new.Name))
	}
	return e.dir
}

func (e *ev) kind() string {
	switch {
	case e.old == nil && e.new == nil:
		return "none"
	case e.old == nil:
		return "create"
	case e.new == nil:
		return "delete"
	case e.dir == e.newParent && e.old.Name == e.new.Name:
		return "update"
	default:
		return "rename"
	}
}

func entry(name string, isDir bool, mtime int64) *filer_pb.Entry {
	return &filer_pb.Entry{Name: name, IsDirectory: isDir, Attributes: &filer_pb.FuseAttributes{Mtime: mtime, FileMode: 0644}}
}

var (
	dirs    = []string{"/", "/data", "/data/a", "/data/a/b", "/data2", "/data2/a", "/dat", "/other", "/other/data", "/other/data/a"}
	names   = []string{"a", "b", "x", "data", "data2", "dat", "a b"}
	srcs    = []string{"/data", "/data/", "/", "/data/a", "/data/a/", "/data", "/data/", "/", "/data/a", "/data/a/", "/data//", "data"}
	tgts    = []string{"/backup", "/", "/data", "/t/u"}
	mtimes  = []int64{0, 86400 * 400, 1614816000}
	sigPool = []int32{0, 3, 7, 9}
)

// half of the directories lie in /data so that most events touch the watched subtree
func pickDir(r *hx.Rng) string {
	if r.Bool() {
		return r.PickStr(dirs[1:4])
	}
	return r.PickStr(dirs)
}

func genEvent(r *hx.Rng) *ev {
	e := &ev{dir: pickDir(r), delChunks: r.Bool(), fromOther: r.Chance(1, 5)}
	for _, s := range sigPool {
		if r.Chance(1, 3) {
			e.sigs = append(e.sigs, s)
		}
	}
	name := r.PickStr(names)
	isDir := r.Chance(1, 4)
	mt := mtimes[r.Intn(len(mtimes))]
	switch k := r.Intn(20); {
	case k < 7: // create
		e.new = entry(name, isDir, mt)
		e.newParent = e.dir
	case k < 11: // delete
		e.old = entry(name, isDir, mt)
	case k < 14: // update in place
		e.old = entry(name, isDir, mt)
		e.new = entry(name, isDir, mtimes[r.Intn(len(mtimes))])
		e.newParent = e.dir
	case k < 19: // rename
		e.old = entry(name, isDir, mt)
		n2 := name
		if r.Bool() {
			n2 = r.PickStr(names)
		}
		e.new = entry(n2, isDir, mt)
		e.newParent = pickDir(r)
	default: // neither entry
	}
	// a small malformed stream: directory with a trailing slash
	if r.Chance(1, 40) && e.dir != "/" {
		e.dir += "/"
		if e.old == nil && e.new != nil {
			e.newParent = e.dir
		}
	}
	return e
}

type conf struct {
	src, tgt string
	inc      bool
	filer    bool
	sig      int32
}

func (c conf) coq() string {
	return fmt.Sprintf("{| src := %s; tgt := %s; incremental := %s; sink_is_filer := %s; target_sig := %s |}",
		hx.Str(c.src), hx.Str(c.tgt), hx.Bool(c.inc), hx.Bool(c.filer), hx.Z(int64(c.sig)))
}

func genConf(r *hx.Rng) conf {
	return conf{src: r.PickStr(srcs), tgt: r.PickStr(tgts), inc: r.Chance(1, 5), filer: r.Chance(1, 3), sig: sigPool[r.Intn(len(sigPool))]}
}

// ---------- one event, recording sink ----------

func runRec(out *hx.Out, via string, c conf, e *ev, found bool, kindPrefix string) {
	name := "rec"
	if c.filer {
		name = "filer"
	}
	s := &recSink{name: name, dir: c.tgt, inc: c.inc, found: found, want: e.sigs, sigsOK: true}
	panicked := false
	var second *ev // the response object as genProcessFunction left it, processed once more
	var secondOps []string
	secondPanicked := false
	func() {
		defer func() {
			if p := recover(); p != nil {
				panicked = true
			}
		}()
		switch via {
		case "ViaReplicate":
			rp := replication.NewReplicator(mapCfg{"source.filer.directory": c.src, "source.filer.grpcAddress": "localhost:18888"}, "source.filer.", s)
			hx.Must(rp.Replicate(context.Background(), e.key(), e.message()))
		case "ViaSync":
			f := command.VerifC36GenProcessFunction(c.src, c.tgt, s, false)
			resp := e.resp()
			hx.Must(f(resp))
			if m := resp.EventNotification; m.NewParentPath != e.newParent {
				// genProcessFunction rewrote NewParentPath in the shared response: run the SAME object again
				cp := *e
				cp.newParent = m.NewParentPath
				cp.realKey = ""
				second = &cp
				first := s.ops
				s.ops = nil
				func() {
					defer func() {
						if p := recover(); p != nil {
							secondPanicked = true
						}
					}()
					hx.Must(f(resp))
				}()
				secondOps = s.ops
				s.ops = first
			}
		}
	}()
	emit := func(e *ev, ops []string, panicked bool, kind string) {
		term := fmt.Sprintf("CRec {| rc_via := %s; rc_cfg := %s; rc_key := %s; rc_ev := %s; rc_found := %s; rc_real := %s; rc_ops := %s; rc_panic := %s; rc_sigs_ok := %s |}",
			via, c.coq(), hx.Str(e.key()), e.coq(), hx.Bool(found), hx.Bool(e.realKey != ""), hx.List(ops), hx.Bool(panicked), hx.Bool(s.sigsOK))
		out.Add(term, fmt.Sprintf("%s|%v|%v|%s", via, c, found, e.canon()), len(ops) > 0, kind)
		out.Count("event:"+e.kind(), 1)
		out.Count(fmt.Sprintf("ops:%d", len(ops)), 1)
		out.Count("src:"+c.src, 1)
		if panicked {
			out.Count("panic", 1)
		}
	}
	emit(e, s.ops, panicked, kindPrefix+via)
	if second != nil {
		emit(second, secondOps, secondPanicked, kindPrefix+"second-pass")
	}
}

// ---------- in-process gRPC filers ----------

type fakeFiler struct {
	filer_pb.UnimplementedSeaweedFilerServer
	mu     sync.Mutex
	sig    int32
	events []*filer_pb.SubscribeMetadataResponse
	ops    []string
	found  bool      // LookupDirectoryEntry answers with an existing entry
	sigs   [][]int32 // Signatures of every mutating RPC
	flags  []bool    // IsFromOtherCluster of every create / update RPC
}

func (f *fakeFiler) GetFilerConfiguration(ctx context.Context, req *filer_pb.GetFilerConfigurationRequest) (*filer_pb.GetFilerConfigurationResponse, error) {
	f.mu.Lock()
	defer f.mu.Unlock()
	return &filer_pb.GetFilerConfigurationResponse{Signature: f.sig}, nil
}
func (f *fakeFiler) LookupVolume(ctx context.Context, req *filer_pb.LookupVolumeRequest) (*filer_pb.LookupVolumeResponse, error) {
	resp := &filer_pb.LookupVolumeResponse{LocationsMap: map[string]*filer_pb.Locations{}}
	for _, vid := range req.VolumeIds {
		resp.LocationsMap[vid] = &filer_pb.Locations{Locations: []*filer_pb.Location{{Url: blobAddr, PublicUrl: blobAddr}}}
	}
	return resp, nil
}
func (f *fakeFiler) KvGet(ctx context.Context, req *filer_pb.KvGetRequest) (*filer_pb.KvGetResponse, error) {
	return &filer_pb.KvGetResponse{}, nil
}
func (f *fakeFiler) KvPut(ctx context.Context, req *filer_pb.KvPutRequest) (*filer_pb.KvPutResponse, error) {
	return &filer_pb.KvPutResponse{}, nil
}
func (f *fakeFiler) SubscribeMetadata(req *filer_pb.SubscribeMetadataRequest, stream filer_pb.SeaweedFiler_SubscribeMetadataServer) error {
	f.mu.Lock()
	evs := f.events
	f.mu.Unlock()
	for _, e := range evs {
		if err := stream.Send(e); err != nil {
			return err
		}
	}
	return nil
}
func (f *fakeFiler) LookupDirectoryEntry(ctx context.Context, req *filer_pb.LookupDirectoryEntryRequest) (*filer_pb.LookupDirectoryEntryResponse, error) {
	f.mu.Lock()
	defer f.mu.Unlock()
	if f.found {
		// an older entry of the same name, without chunks
		return &filer_pb.LookupDirectoryEntryResponse{Entry: &filer_pb.Entry{Name: req.Name, Attributes: &filer_pb.FuseAttributes{Mtime: 0, FileMode: 0644}}}, nil
	}
	return nil, filer_pb.ErrNotFound
}
func (f *fakeFiler) CreateEntry(ctx context.Context, req *filer_pb.CreateEntryRequest) (*filer_pb.CreateEntryResponse, error) {
	f.mu.Lock()
	defer f.mu.Unlock()
	key := string(util.NewFullPath(req.Directory, req.Entry.Name))
	f.sigs = append(f.sigs, req.Signatures)
	f.flags = append(f.flags, req.IsFromOtherCluster)
	f.ops = append(f.ops, fmt.Sprintf("Create %s {| e_name := %s; e_isdir := %s; e_date := %s; e_data := [] |}", hx.Str(key), hx.Str(req.Entry.Name), hx.Bool(req.Entry.IsDirectory), hx.Str("")))
	return &filer_pb.CreateEntryResponse{}, nil
}
func (f *fakeFiler) UpdateEntry(ctx context.Context, req *filer_pb.UpdateEntryRequest) (*filer_pb.UpdateEntryResponse, error) {
	f.mu.Lock()
	defer f.mu.Unlock()
	key := string(util.NewFullPath(req.Directory, req.Entry.Name))
	f.sigs = append(f.sigs, req.Signatures)
	f.flags = append(f.flags, req.IsFromOtherCluster)
	f.ops = append(f.ops, fmt.Sprintf("Update %s %s {| e_name := %s; e_isdir := %s; e_date := %s; e_data := [] |} false", hx.Str(key), hx.Str(req.Directory), hx.Str(req.Entry.Name), hx.Bool(req.Entry.IsDirectory), hx.Str("")))
	return &filer_pb.UpdateEntryResponse{}, nil
}
func (f *fakeFiler) DeleteEntry(ctx context.Context, req *filer_pb.DeleteEntryRequest) (*filer_pb.DeleteEntryResponse, error) {
	f.mu.Lock()
	defer f.mu.Unlock()
	key := string(util.NewFullPath(req.Directory, req.Name))
	f.sigs = append(f.sigs, req.Signatures)
	f.ops = append(f.ops, fmt.Sprintf("Delete %s false %s", hx.Str(key), hx.Bool(req.IsDeleteData)))
	return &filer_pb.DeleteEntryResponse{}, nil
}

type grpcPair struct {
	src, tgt         *fakeFiler
	srcAddr, tgtAddr string
}

var lastGrpcAddr string // the listening address of the last served fake filer

func serve(f *fakeFiler) string {
	for {
		l, err := net.Listen("tcp", "127.0.0.1:0")
		hx.Must(err)
		port := l.Addr().(*net.TCPAddr).Port
		if port <= 10000 {
			l.Close()
			continue
		}
		s := grpc.NewServer()
		filer_pb.RegisterSeaweedFilerServer(s, f)
		go s.Serve(l)
		lastGrpcAddr = fmt.Sprintf("127.0.0.1:%d", port)
		return fmt.Sprintf("127.0.0.1:%d", port-10000)
	}
}

func newGrpcPair() *grpcPair {
	p := &grpcPair{src: &fakeFiler{sig: 3}, tgt: &fakeFiler{}}
	p.srcAddr = serve(p.src)
	p.tgtAddr = serve(p.tgt)
	return p
}

func runGrpc(out *hx.Out, p *grpcPair, c conf, e *ev, found bool) {
	p.src.mu.Lock()
	p.src.events = []*filer_pb.SubscribeMetadataResponse{e.resp()}
	p.src.mu.Unlock()
	p.tgt.mu.Lock()
	p.tgt.sig = c.sig
	p.tgt.ops = nil
	p.tgt.sigs = nil
	p.tgt.flags = nil
	p.tgt.found = found
	p.tgt.mu.Unlock()
	panicked := false
	func() {
		defer func() {
			if x := recover(); x != nil {
				panicked = true
			}
		}()
		// errors of the sink calls end the loop; the calls made so far are what is compared
		_ = command.VerifC36DoSubscribe(grpc.WithInsecure(), p.srcAddr, c.src, p.tgtAddr, c.tgt)
	}()
	p.tgt.mu.Lock()
	ops := append([]string(nil), p.tgt.ops...)
	// every mutating RPC carries the event's signatures unchanged and is marked as replicated
	sigsOK := true
	for _, sg := range p.tgt.sigs {
		sigsOK = sigsOK && sameSigs(sg, e.sigs)
	}
	for _, fl := range p.tgt.flags {
		sigsOK = sigsOK && fl
	}
	p.tgt.mu.Unlock()
	c.inc = false
	c.filer = true
	term := fmt.Sprintf("CRec {| rc_via := ViaGrpc; rc_cfg := %s; rc_key := %s; rc_ev := %s; rc_found := %s; rc_real := false; rc_ops := %s; rc_panic := %s; rc_sigs_ok := %s |}",
		c.coq(), hx.Str(e.key()), e.coq(), hx.Bool(found), hx.List(ops), hx.Bool(panicked), hx.Bool(sigsOK))
	if found {
		out.Count("grpc:target-has-entry", 1)
	}
	out.Add(term, fmt.Sprintf("grpc|%v|%v|%s", c, found, e.canon()), len(ops) > 0, "ViaGrpc")
	out.Count("event:"+e.kind(), 1)
	out.Count(fmt.Sprintf("ops:%d", len(ops)), 1)
	carries := false
	for _, s := range e.sigs {
		if s == c.sig && c.sig != 0 {
			carries = true
		}
	}
	if carries {
		out.Count("grpc:carries-target-signature", 1)
	}
}

// ---------- LocalSink in a scratch directory ----------

type srcFS map[string]bool // path -> is directory

func parentOf(p string) string {
	d := filepath.Dir(p)
	return d
}

func (fs srcFS) hasChildren(p string) bool {
	for q := range fs {
		if strings.HasPrefix(q, strings.TrimSuffix(p, "/")+"/") && q != p {
			return true
		}
	}
	return false
}

func (fs srcFS) sorted(pred func(p string, d bool) bool) []string {
	var l []string
	for p, d := range fs {
		if pred(p, d) {
			l = append(l, p)
		}
	}
	sort.Strings(l)
	return l
}

var lnames = []string{"a", "b", "f", "g", "data", "1.part"}

// genLocalHistory simulates a source filer namespace and returns the events of
// a valid history; renames (one event each) are produced with probability renamePct/100.
var out0 *hx.Out
var invalidPct = 6

func genLocalHistory(r *hx.Rng, n int, renamePct int) []*ev {
	fs := srcFS{"/": true, "/data": true, "/data/a": true, "/data2": true, "/other": true, "/data/.uploads": true}
	var evs []*ev
	ver := map[string]int{} // path -> content version
	nextVer := r.Intn(4)
	split := func(p string) (string, string) { return filepath.Dir(p), filepath.Base(p) }
	for len(evs) < n {
		dirsNow := fs.sorted(func(p string, d bool) bool { return d })
		// directories below /data count three times
		for _, p := range fs.sorted(func(p string, d bool) bool { return d && (strings.HasPrefix(p, "/data/") || p == "/data") }) {
			dirsNow = append(dirsNow, p, p)
		}
		filesNow := fs.sorted(func(p string, d bool) bool { return !d })
		k := r.Intn(100)
		switch {
		case k < renamePct && len(filesNow) > 0:
			from := r.PickStr(filesNow)
			to := string(util.FullPath(r.PickStr(dirsNow)).Child(r.PickStr(lnames)))
			if _, ok := fs[to]; ok {
				continue
			}
			fd, fn := split(from)
			td, tn := split(to)
			delete(fs, from)
			fs[to] = false
			ver[to] = ver[from]
			evs = append(evs, &ev{dir: fd, old: fileEntry(fn, 1614816000, ver[from]), new: fileEntry(tn, 1614816000, ver[to]), newParent: td, delChunks: r.Bool()})
		case k < renamePct+35:
			p := string(util.FullPath(r.PickStr(dirsNow)).Child(r.PickStr(lnames)))
			if _, ok := fs[p]; ok {
				continue
			}
			fs[p] = false
			d, nm := split(p)
			nextVer++
			ver[p] = nextVer
			evs = append(evs, &ev{dir: d, new: fileEntry(nm, 1614816000, ver[p]), newParent: d})
		case k < renamePct+50:
			p := string(util.FullPath(r.PickStr(dirsNow)).Child(r.PickStr(lnames)))
			if _, ok := fs[p]; ok {
				continue
			}
			fs[p] = true
			d, nm := split(p)
			evs = append(evs, &ev{dir: d, new: entry(nm, true, 1614816000), newParent: d})
		case k < renamePct+65 && len(filesNow) > 0:
			p := r.PickStr(filesNow)
			d, nm := split(p)
			old := fileEntry(nm, 1614816000, ver[p])
			nextVer += 1 + r.Intn(2) // the new content may be shorter than the old one (O_TRUNC)
			ver[p] = nextVer
			evs = append(evs, &ev{dir: d, old: old, new: fileEntry(nm, 1614816001, ver[p]), newParent: d, delChunks: true})
		case k < renamePct+85 && len(filesNow) > 0:
			p := r.PickStr(filesNow)
			delete(fs, p)
			d, nm := split(p)
			evs = append(evs, &ev{dir: d, old: fileEntry(nm, 1614816000, ver[p]), delChunks: true})
		case k >= 94 && invalidPct > 0:
			// an event no valid namespace history contains: a file created below a file, a file
			// created where a directory is, a directory deleted where a file is
			if len(filesNow) == 0 {
				continue
			}
			switch r.Intn(3) {
			case 0:
				evs = append(evs, &ev{dir: r.PickStr(filesNow), new: entry("f", false, 1614816000)})
				evs[len(evs)-1].newParent = evs[len(evs)-1].dir
			case 1:
				d, _ := split(r.PickStr(filesNow))
				if d == "/" {
					continue
				}
				dd, nm := split(d)
				evs = append(evs, &ev{dir: dd, new: entry(nm, false, 1614816000), newParent: dd})
			default:
				d, nm := split(r.PickStr(filesNow))
				evs = append(evs, &ev{dir: d, old: entry(nm, true, 1614816000), delChunks: true})
				// the source namespace is unchanged; the backup loses the file
			}
			out0.Count("local-invalid-event", 1)
		default:
			cands := fs.sorted(func(p string, d bool) bool { return d && p != "/" && !fs.hasChildren(p) })
			if len(cands) == 0 {
				continue
			}
			p := r.PickStr(cands)
			delete(fs, p)
			d, nm := split(p)
			evs = append(evs, &ev{dir: d, old: entry(nm, true, 1614816000), delChunks: true})
		}
	}
	return evs
}

var localSrc *source.FilerSource

func runLocal(out *hx.Out, c conf, evs []*ev, kind string) {
	root, err := os.MkdirTemp("", "c36-local-")
	hx.Must(err)
	defer os.RemoveAll(root)
	root, err = filepath.EvalSymlinks(root)
	hx.Must(err)
	ls := &localsink.LocalSink{}
	hx.Must(ls.Initialize(mapCfg{"directory": root + c.tgt, "is_incremental": "false"}, ""))
	startBlobServer()
	if localSrc == nil {
		serve(&fakeFiler{})
		localSrc = &source.FilerSource{}
		hx.Must(localSrc.DoInitialize("", lastGrpcAddr, "/", false))
	}
	ls.SetSourceFiler(localSrc)
	f := command.VerifC36GenProcessFunction(c.src, ls.GetSinkToDirectory(), ls, false)
	var errs, coqEvs, canon []string
	for _, e := range evs {
		err := f(e.resp())
		errs = append(errs, hx.Bool(err != nil))
		coqEvs = append(coqEvs, e.coq())
		canon = append(canon, e.canon())
		out.Count("local-event:"+e.kind(), 1)
		if err != nil {
			out.Count("local-event-error", 1)
		}
	}
	var tree, data []string
	hx.Must(filepath.Walk(root, func(p string, info os.FileInfo, err error) error {
		if err != nil {
			return err
		}
		if p == root {
			return nil
		}
		tree = append(tree, hx.Pair(hx.Str(filepath.ToSlash(strings.TrimPrefix(p, root))), hx.Bool(info.IsDir())))
		if !info.IsDir() {
			b, err := os.ReadFile(p)
			hx.Must(err)
			data = append(data, hx.Pair(hx.Str(filepath.ToSlash(strings.TrimPrefix(p, root))), hx.Bytes(b)))
			if len(b) > 0 {
				out.Count("local-file-with-content", 1)
			}
		}
		return nil
	}))
	c.inc = false
	term := fmt.Sprintf("CLocal {| lc_cfg := %s; lc_evs := %s; lc_tree := %s; lc_data := %s; lc_errs := %s |}",
		c.coq(), hx.List(coqEvs), hx.List(tree), hx.List(data), hx.List(errs))
	out.Add(term, fmt.Sprintf("local|%v|%s", c, strings.Join(canon, ";")), len(tree) > 0, kind)
	out.Count(fmt.Sprintf("local-tree-size:%d", len(tree)/4*4), 1)
}

func main() {
	out := hx.Flags("C36", 600)
	out.Rule = "single events (create 35%, delete 20%, in-place update 15%, rename 25%, neither entry 5%; 1/40 with a trailing-slash directory) over directories {/,/data,/data/a,/data/a/b,/data2,/data2/a,/dat,/other,/other/data,/other/data/a} x names {a,b,x,data,data2,dat,'a b'}, source dir in {/data,/data/,/,/data/a,/data/a/} (5/6) or {/data//,data} (1/6), target in {/backup,/,/data,/t/u}, incremental 1/5, random UpdateEntry answer, signatures from {0,3,7,9}: 40% through genProcessFunction (a rewritten response object is processed a second time: kind second-pass) and 30% through Replicator.Replicate with a recording sink, 10% through the real filer.sync loop + FilerSink against in-process gRPC filers (target answers lookups with not-found or an existing entry, 1/2 each; Signatures/IsFromOtherCluster of every RPC compared), 10% synthetic valid histories (6-14 events, 8% renames, files with 1-2 chunks of content, multipart keys under /data/.uploads, 6% invalid events: file below a file, file at a directory, directory delete at a file) of a simulated source namespace through genProcessFunction into a real LocalSink (final tree, file bytes and per-event errors compared), 10% histories of 5-12 operations (create, mkdir, update, delete, recursive delete, rename of files and directories, with signatures) on a REAL in-process filer whose captured events go into the LocalSink (kind real-local), as single events with the real queue key through Replicate/genProcessFunction (real-*), and per operation into the emitted-label check (kind emit); the first cases are the fixed witnesses of the known findings 0 (Replicate) and 1 (recursive delete with signature 7) and of the repaired defects (sibling prefix, move into the subtree, LocalSink move, second pass); non-trivial = at least one sink call / non-empty clash-free tree / operation with >= 2 events; distinct = canonical configuration + event(s)"
	root := hx.NewRng(out.Seed)
	out0 = out
	var pair *grpcPair

	// ----- fixed cases, independent of the seed -----
	base := conf{src: "/data", tgt: "/backup", sig: 7}
	x := func() *filer_pb.Entry { return entry("x", false, 1614816000) }
	fixed := 0
	// repaired: rename into the watched subtree, genProcessFunction (was dropped by the early Directory test)
	runRec(out, "ViaSync", base, &ev{dir: "/other", old: x(), new: x(), newParent: "/data"}, true, "fixed-")
	// the response object is rewritten in place (NewParentPath mapped): the same object processed twice
	runRec(out, "ViaSync", base, &ev{dir: "/data/a", old: x(), new: entry("y", false, 1614816000), newParent: "/data/b", delChunks: true}, false, "fixed-")
	// finding 0: in-place update through Replicate hands NewParentPath over unmapped
	runRec(out, "ViaReplicate", base, &ev{dir: "/data", old: x(), new: x(), newParent: "/data"}, true, "fixed-")
	// repaired: rename inside the subtree into a LocalSink (UpdateEntry used to rewrite the old key)
	runLocal(out, conf{src: "/data", tgt: "/t"}, []*ev{
		{dir: "/data", new: entry("a", false, 1614816000), newParent: "/data"},
		{dir: "/data", old: entry("a", false, 1614816000), new: entry("b", false, 1614816000), newParent: "/data", delChunks: true}}, "fixed-local")
	// the repaired defect: siblings whose name starts with the source directory's name
	for _, via := range []string{"ViaSync", "ViaReplicate"} {
		runRec(out, via, base, &ev{dir: "/data2", new: x(), newParent: "/data2"}, true, "fixed-")
		runRec(out, via, base, &ev{dir: "/data2/a", old: x()}, true, "fixed-")
		runRec(out, via, base, &ev{dir: "/data", old: x(), new: x(), newParent: "/data2"}, false, "fixed-")
		runRec(out, via, conf{src: "/data/", tgt: "/backup", sig: 7}, &ev{dir: "/data", new: x(), newParent: "/data"}, true, "fixed-")
		runRec(out, via, conf{src: "/data/a", tgt: "/backup", sig: 7}, &ev{dir: "/data/a", old: entry("b", true, 0), new: entry("a", true, 0), newParent: "/data"}, true, "fixed-")
	}
	// finding 1: the events of a recursive directory delete that carried signature 7 (two-way sync:
	// the delete came from the filer with signature 7) -- only the directory's own event keeps it
	{
		w := newWorld()
		hx.Must(w.create("/data/a/f", false, 1614816000, nil))
		hx.Must(w.create("/data/a/b/g", false, 1614816000, nil))
		w.take()
		m := &emitted{opKind: "EDelete", top: "/data/a", sigs: []int32{7}, fromOther: true}
		if e := w.remove("/data/a", true, true, m.sigs); e != "" {
			panic(e)
		}
		m.evs = w.take()
		w.close()
		out.Add(m.coq(), "emit-fixed-recursive-delete", true, "fixed-emit")
		// the child event through the real filer.sync filter towards the filer with signature 7
		for _, q := range m.evs {
			if q.key == "/data/a/f" {
				if pair == nil {
					pair = newGrpcPair()
				}
				runGrpc(out, pair, conf{src: "/data", tgt: "/data", sig: 7, filer: true}, evOf(q), false)
			}
		}
	}
	fixed = out.Len()

	for i := fixed; out.Len() < out.N; i++ {
		r := root.Fork()
		switch k := i % 10; {
		case k == 9:
			runReal(out, r, "real-local")
		case k < 4:
			runRec(out, "ViaSync", genConf(r), genEvent(r), r.Bool(), "")
		case k < 7:
			runRec(out, "ViaReplicate", genConf(r), genEvent(r), r.Bool(), "")
		case k < 8:
			if pair == nil {
				pair = newGrpcPair()
			}
			c := genConf(r)
			e := genEvent(r)
			if r.Chance(1, 3) && c.sig != 0 {
				e.sigs = append(e.sigs, c.sig)
			}
			runGrpc(out, pair, c, e, r.Bool())
		default:
			c := conf{src: r.PickStr([]string{"/data", "/data/", "/", "/data/a"}), tgt: r.PickStr([]string{"/t", "/t/u"})}
			runLocal(out, c, genLocalHistory(r, r.Range(6, 14), 8), "local")
		}
	}
	out.Write()
}
