// Histories on a real in-process filer: the captured events go through
// genProcessFunction into a real LocalSink (whole history), single events go
// through Replicator.Replicate / genProcessFunction with the queue key the
// filer really used, and every operation's emitted events are checked for the
// signatures / IsFromOtherCluster flag the operation carried.
package main

import (
	"fmt"
	"strings"

	"verifharness/hx"
)

var realDirs = []string{"/data", "/data/a", "/data/a/b", "/data2", "/other", "/data", "/data/a"}

func pickSigs(r *hx.Rng) []int32 {
	var s []int32
	if r.Bool() {
		for _, x := range []int32{3, 7, 9, worldSig} {
			if r.Chance(1, 3) {
				s = append(s, x)
			}
		}
	}
	return s
}

type emitted struct {
	opKind          string // ECreate EUpdate EDelete ERename
	top, top2       string
	sigs            []int32
	fromOther       bool
	evs             []queued
	failed          bool
}

func (m *emitted) coq() string {
	var l []string
	for _, q := range m.evs {
		isDir := false
		if q.msg.OldEntry != nil {
			isDir = q.msg.OldEntry.IsDirectory
		} else if q.msg.NewEntry != nil {
			isDir = q.msg.NewEntry.IsDirectory
		}
		sg := make([]string, len(q.msg.Signatures))
		for i, x := range q.msg.Signatures {
			sg[i] = hx.Z(int64(x))
		}
		l = append(l, fmt.Sprintf("{| m_key := %s; m_isdir := %s; m_has_old := %s; m_has_new := %s; m_sigs := %s; m_from_other := %s |}",
			hx.Str(q.key), hx.Bool(isDir), hx.Bool(q.msg.OldEntry != nil), hx.Bool(q.msg.NewEntry != nil), hx.List(sg), hx.Bool(q.msg.IsFromOtherCluster)))
	}
	sg := make([]string, len(m.sigs))
	for i, x := range m.sigs {
		sg[i] = hx.Z(int64(x))
	}
	return fmt.Sprintf("CEmit {| em_self := %s; em_kind := %s; em_top := %s; em_top2 := %s; em_sigs := %s; em_from_other := %s; em_evs := %s |}",
		hx.Z(worldSig), m.opKind, hx.Str(m.top), hx.Str(m.top2), hx.List(sg), hx.Bool(m.fromOther), hx.List(l))
}

// realHistory runs n operations on a fresh real filer and returns the
// operations with the events each one emitted.
func realHistory(r *hx.Rng, n int) []*emitted {
	w := newWorld()
	defer w.close()
	var ops []*emitted
	known := map[string]bool{} // paths the harness created (candidates for later ops)
	pick := func(pred func(p string, isDir bool) bool) string {
		var l []string
		for p := range known {
			if f, d := w.exists(p); f && pred(p, d) {
				l = append(l, p)
			}
		}
		if len(l) == 0 {
			return ""
		}
		sortStrings(l)
		return r.PickStr(l)
	}
	for tries := 0; len(ops) < n && tries < 10*n; tries++ {
		m := &emitted{sigs: pickSigs(r)}
		var err error
		errStr := ""
		switch k := r.Intn(100); {
		case k < 30: // create a file (missing parents are created by the filer)
			m.opKind, m.top = "ECreate", r.PickStr(realDirs)+"/"+r.PickStr(lnames)
			if f, _ := w.exists(m.top); f {
				continue
			}
			err = w.create(m.top, false, 1614816000, m.sigs)
			known[m.top] = true
		case k < 40: // mkdir
			m.opKind, m.top = "ECreate", r.PickStr(realDirs)+"/"+r.PickStr(lnames)
			if f, _ := w.exists(m.top); f {
				continue
			}
			err = w.create(m.top, true, 1614816000, m.sigs)
			known[m.top] = true
		case k < 50: // update a file in place
			m.opKind, m.top = "EUpdate", pick(func(p string, d bool) bool { return !d })
			if m.top == "" {
				continue
			}
			err = w.update(m.top, 1614816000+int64(len(ops))+1, m.sigs)
		case k < 62: // delete a file
			m.opKind, m.top = "EDelete", pick(func(p string, d bool) bool { return !d })
			if m.top == "" {
				continue
			}
			m.fromOther = r.Chance(1, 3)
			errStr = w.remove(m.top, false, m.fromOther, m.sigs)
		case k < 75: // delete a directory with everything below it
			cands := []string{"/data/a", "/data/a/b", "/data2", "/other", "/data"}
			for p := range known {
				cands = append(cands, p)
			}
			sortStrings(cands)
			m.opKind, m.top = "EDelete", r.PickStr(cands)
			if f, d := w.exists(m.top); !f || !d {
				continue
			}
			m.fromOther = r.Chance(1, 3)
			errStr = w.remove(m.top, true, m.fromOther, m.sigs)
		default: // rename a file or a directory
			cands := []string{"/data/a", "/data/a/b", "/data2", "/other"}
			for p := range known {
				cands = append(cands, p)
			}
			sortStrings(cands)
			m.opKind, m.top = "ERename", r.PickStr(cands)
			m.top2 = r.PickStr(realDirs) + "/" + r.PickStr(lnames)
			if f, _ := w.exists(m.top); !f {
				continue
			}
			if f, _ := w.exists(m.top2); f || m.top2 == m.top || strings.HasPrefix(m.top2, m.top+"/") {
				continue
			}
			err = w.rename(m.top, m.top2, m.sigs)
			known[m.top2] = true
		}
		m.failed = err != nil || errStr != ""
		m.evs = w.take()
		ops = append(ops, m)
	}
	return ops
}

func sortStrings(l []string) {
	for i := 1; i < len(l); i++ {
		for j := i; j > 0 && l[j] < l[j-1]; j-- {
			l[j], l[j-1] = l[j-1], l[j]
		}
	}
}

func runReal(out *hx.Out, r *hx.Rng, kind string) {
	ops := realHistory(r, r.Range(5, 12))
	var evs []*ev
	for _, m := range ops {
		out.Count("real-op:"+m.opKind, 1)
		if m.failed {
			out.Count("real-op-failed", 1)
		}
		out.Count(fmt.Sprintf("real-op-events:%d", min(len(m.evs), 6)), 1)
		for _, q := range m.evs {
			evs = append(evs, evOf(q))
		}
	}
	c := conf{src: r.PickStr([]string{"/data", "/data/", "/", "/data/a"}), tgt: r.PickStr([]string{"/t", "/t/u"})}
	runLocal(out, c, evs, kind)
	// every operation: the labels of the events it emitted
	for _, m := range ops {
		if len(m.evs) > 0 && out.Len() < out.N {
			multi := len(m.evs) > 1
			out.Add(m.coq(), fmt.Sprintf("emit|%s|%s|%s|%v|%v|%d", m.opKind, m.top, m.top2, m.sigs, m.fromOther, len(m.evs)), multi, "emit")
		}
	}
	// a few single events with the real queue key
	for i := 0; i < 3 && len(evs) > 0 && out.Len() < out.N; i++ {
		e := evs[r.Intn(len(evs))]
		gc := genConf(r)
		if r.Bool() {
			runRec(out, "ViaReplicate", gc, e, r.Bool(), "real-")
		} else {
			runRec(out, "ViaSync", gc, e, r.Bool(), "real-")
		}
	}
}

func min(a, b int) int {
	if a < b {
		return a
	}
	return b
}
