// C33 harness.
//
// CU cases: the real operation.UploadData against an in-process volume server
// (httptest server in front of the real VolumeServer.PostHandler /
// GetOrHeadHandler on a real storage.Store in a temp dir: real
// needle.CreateNeedleFromRequest / ParseUpload, real needle storage, real read
// handler with its range processing), then a raw GET (Accept-Encoding: gzip, body
// as sent) and the real util.ReadUrlAsStream, full and ranged, under recover.
// CD cases: a malformed stream into util.DecompressData / MaybeDecompressData
// under recover.
//
// The oracle tables of a case (gzip, gunzip, DetectContentType, AES-GCM seal/open)
// are filled by calling the Go standard library directly.
package main

import (
	"bytes"
	"compress/flate"
	"compress/gzip"
	"crypto/aes"
	"crypto/cipher"
	"encoding/hex"
	"fmt"
	"io/ioutil"
	"net/http"
	"net/http/httptest"
	"os"
	"strings"

	"github.com/chrislusf/seaweedfs/weed/operation"
	weed_server "github.com/chrislusf/seaweedfs/weed/server"
	"github.com/chrislusf/seaweedfs/weed/storage"
	"github.com/chrislusf/seaweedfs/weed/storage/types"
	"github.com/chrislusf/seaweedfs/weed/util"
	"verifharness/hx"
)

// ---- Coq printing of byte strings ----

// period finds the smallest p in {1,2,3,4,8} such that b is p-periodic.
func period(b []byte) int {
	for _, p := range []int{1, 2, 3, 4, 8} {
		ok := len(b) >= 4*p
		for i := p; ok && i < len(b); i++ {
			if b[i] != b[i-p] {
				ok = false
			}
		}
		if ok {
			return p
		}
	}
	return 0
}

func hb(b []byte) string {
	if len(b) == 0 {
		return "[]"
	}
	return "(hb " + hx.Str(hex.EncodeToString(b)) + ")"
}

// coqB prints bytes; long periodic tails are printed as repetitions.
func coqB(b []byte) string {
	if len(b) <= 600 {
		return hb(b)
	}
	// literal head, periodic rest
	for _, head := range []int{0, 128} {
		if head > len(b) {
			continue
		}
		rest := b[head:]
		if p := period(rest); p > 0 {
			k := len(rest) / p
			tail := rest[k*p:]
			return fmt.Sprintf("(%s ++ rep %s %d ++ %s)%%list", hb(b[:head]), hb(rest[:p]), k, hb(tail))
		}
	}
	return hb(b)
}

// ---- oracles from the standard library ----

func stdGzip(b []byte) []byte {
	var buf bytes.Buffer
	w, _ := gzip.NewWriterLevel(&buf, flate.BestSpeed)
	w.Write(b)
	w.Close()
	return buf.Bytes()
}

type gzRes struct {
	kind int // 0 ok, 1 body error, 2 header error
	out  []byte
}

func stdGunzip(b []byte) gzRes {
	r, err := gzip.NewReader(bytes.NewReader(b))
	if err != nil {
		return gzRes{kind: 2}
	}
	out, err := ioutil.ReadAll(r)
	if err != nil {
		return gzRes{kind: 1, out: out}
	}
	return gzRes{kind: 0, out: out}
}

func (g gzRes) coq() string {
	switch g.kind {
	case 0:
		return "(GzOk " + coqB(g.out) + ")"
	case 1:
		return "(GzBodyErr " + coqB(g.out) + ")"
	}
	return "GzHdrErr"
}

func gcmOf(key []byte) cipher.AEAD {
	c, err := aes.NewCipher(key)
	hx.Must(err)
	g, err := cipher.NewGCM(c)
	hx.Must(err)
	return g
}

type fres struct {
	kind int // 0 ok, 1 err, 2 panic
	b    []byte
}

func (f fres) coq() string {
	switch f.kind {
	case 0:
		return "(FOk " + coqB(f.b) + ")"
	case 1:
		return "FErr"
	}
	return "FPanic"
}

func fetch(url string, key []byte, gz, full bool, off int64, size int) (f fres) {
	defer func() {
		if r := recover(); r != nil {
			f = fres{kind: 2}
		}
	}()
	var buf bytes.Buffer
	_, err := util.ReadUrlAsStream(url, key, gz, full, off, size, func(d []byte) { buf.Write(d) })
	if err != nil {
		return fres{kind: 1}
	}
	return fres{kind: 0, b: buf.Bytes()}
}

// ---- generators ----

var names = []string{"a.txt", "b.jpg", "c.zip", "d.pdf", "e.wav", ".txt", ".svg", ".zip", ".jpg", ".wav", ".go", ".json",
	"dir/.txt", "dir/.png", "", "noext", "x.bin", "up/"}
var mimes = []string{"", "", "", "text/plain", "text/html; charset=utf-8", "image/png", "image/svg+xml", "application/json",
	"application/xml", "application/zstd", "application/javascript", "application/vnd.rar", "audio/wav", "audio/x-wav",
	"audio/mpeg", "application/octet-stream", "video/mp4", "application/x-foo"}

var words = []string{"hello ", "world ", "seaweed ", "fs ", "volume ", "needle ", "\n", "0123456789 "}

func genText(r *hx.Rng, n int) []byte {
	var sb strings.Builder
	for sb.Len() < n {
		sb.WriteString(r.PickStr(words))
	}
	return []byte(sb.String()[:n])
}

// data kinds: text, random, gzip-looking junk, real gzip, empty, big periodic, big with random head
func genData(r *hx.Rng) ([]byte, string) {
	switch k := r.Intn(20); {
	case k < 6:
		return genText(r, r.Range(1, 160)), "text"
	case k < 10:
		return r.Bytes(r.Range(1, 120)), "random"
	case k < 13:
		return append([]byte{0x1f, 0x8b}, r.Bytes(r.Range(0, 40))...), "gzip-looking"
	case k < 15:
		return stdGzip(genText(r, r.Range(0, 80))), "real-gzip"
	case k < 17:
		return []byte{}, "empty"
	case k < 18:
		return r.Bytes(1), "one-byte"
	case k < 19:
		return bytes.Repeat([]byte{byte(r.Intn(256)), 1, 2, byte(r.Intn(256))}, r.Range(4090, 4200)), "big-periodic" // around 16*1024
	default:
		return append(r.Bytes(128), bytes.Repeat([]byte{7, byte(r.Intn(256))}, r.Range(8120, 8300))...), "big-random-head"
	}
}

func genMalformed(r *hx.Rng) ([]byte, string) {
	good := stdGzip(genText(r, r.Range(0, 60)))
	switch r.Intn(12) {
	case 0:
		return []byte{0x1f, 0x8b}, "magic-only"
	case 1:
		return append([]byte{0x1f, 0x8b}, r.Bytes(r.Range(1, 30))...), "magic+random"
	case 2:
		return good[:r.Range(2, len(good)-1)], "truncated"
	case 3:
		b := append([]byte{}, good...)
		b[len(b)-r.Range(1, 8)] ^= 0x55 // CRC or length
		return b, "bad-trailer"
	case 4:
		return append(append([]byte{}, good...), r.Bytes(r.Range(1, 8))...), "trailing-garbage"
	case 5:
		return append(append([]byte{}, good...), stdGzip(genText(r, 10))...), "two-members"
	case 6:
		return good, "valid"
	case 7:
		b := append([]byte{}, good...)
		b[2] = byte(r.Intn(256)) // compression method
		return b, "bad-method"
	case 8:
		b := append([]byte{}, good...)
		b[3] = byte(r.Intn(256)) // flags: FEXTRA / FNAME / FCOMMENT / FHCRC
		return b, "odd-flags"
	case 9:
		return r.Bytes(r.Range(0, 20)), "random"
	case 10:
		b := append([]byte{}, good...)
		if len(b) > 14 {
			b[r.Range(10, len(b)-9)] ^= byte(r.Range(1, 255)) // deflate stream
		}
		return b, "bad-deflate"
	default:
		return []byte{0x1f}, "one-byte"
	}
}

func main() {
	out := hx.Flags("C33", 100)
	out.Rule = "3/4 CU cases: data (text / random / 1f8b-prefixed junk / real gzip / empty / 1 byte / about 16 KiB (both sides of the 16*1024 probe threshold) periodic with or without a random 128-byte head) x file name (extensions of every IsCompressableFileType branch, names that ARE an extension, with directory, empty) x mime (each branch, empty = sniffed) x cipher on/off x isInputCompressed (1/8; always set for real gzip half of the time), uploaded with operation.UploadData to an in-process volume server, read raw and through ReadUrlAsStream full and ranged (ranges in, at and beyond the end, size 0); 1/4 CD cases: malformed gzip streams (magic only, truncated, bad method/flags/trailer/deflate, trailing garbage, two members) into DecompressData/MaybeDecompressData; the first two cases are the witnesses of the two repaired nil-reader defects (isInputCompressed junk with the gzip magic, whose full fetch used to panic in ReadUrlAsStream, and DecompressData({1f 8b})); non-trivial = full fetch returned at least one byte (CU) / input has the gzip magic (CD); distinct = canonical input"
	root := hx.NewRng(out.Seed)
	dir, err := ioutil.TempDir("", "c33")
	hx.Must(err)
	defer os.RemoveAll(dir)
	s := storage.NewStore(nil, 0, "localhost", "localhost", []string{dir}, []int{100}, []util.MinFreeSpace{{Type: util.AsPercent, Percent: 0}}, "", storage.NeedleMapInMemory, []types.DiskType{types.HardDriveType})
	go func() {
		for range s.NewVolumesChan {
		}
	}()
	hx.Must(s.AddVolume(3, "", storage.NeedleMapInMemory, "000", "", 0, 0, types.HardDriveType))
	vs := weed_server.NewVerifVolumeServer(s, 1<<28)
	srv := httptest.NewServer(http.HandlerFunc(func(w http.ResponseWriter, r *http.Request) {
		switch r.Method {
		case "GET", "HEAD":
			vs.GetOrHeadHandler(w, r)
		case "POST", "PUT":
			vs.PostHandler(w, r)
		}
	}))
	defer srv.Close()
	rawClient := &http.Client{Transport: &http.Transport{DisableCompression: true}}

	for i := 0; i < out.N; i++ {
		r := root.Fork()
		isCD := i == 1 || (i > 1 && r.Chance(1, 4))
		if isCD {
			in, kind := genMalformed(r)
			if i == 1 {
				in, kind = []byte{0x1f, 0x8b}, "magic-only"
			}
			dec, may := "DPanic", "MPanic"
			func() {
				defer func() { recover() }()
				o, e := util.DecompressData(in)
				if e == nil {
					dec = "(DOk " + coqB(o) + ")"
				} else {
					dec = fmt.Sprintf("(DErr %s %s)", coqB(o), hx.Bool(e == util.UnsupportedCompression))
				}
			}()
			func() {
				defer func() { recover() }()
				may = "(MVal " + coqB(util.MaybeDecompressData(in)) + ")"
			}()
			term := fmt.Sprintf("(CD {| dc_input := %s; dc_gunzip := %s; di_decompress := %s; di_maybe := %s |})",
				coqB(in), stdGunzip(in).coq(), dec, may)
			out.Add(term, "D:"+hex.EncodeToString(in), util.IsGzippedContent(in), "decompress")
			out.Count("malformed:"+kind, 1)
			if dec == "DPanic" || may == "MPanic" {
				out.Count("decompress:panic", 1)
			}
			continue
		}
		data, dkind := genData(r)
		name, mime := r.PickStr(names), r.PickStr(mimes)
		ciph := r.Chance(1, 3)
		ic := r.Chance(1, 8)
		if dkind == "real-gzip" {
			ic = r.Chance(1, 2)
		}
		if len(data) > 1000 {
			ciph = false // the sealed bytes of a large input have no short Coq term
		}
		if i == 0 { // witness of the repaired http_util.go nil gzip reader: must be an error now, not a panic
			data, dkind, name, mime, ciph, ic = []byte{0x1f, 0x8b, 0, 1, 2, 3, 4, 5, 6, 7, 8, 9}, "gzip-looking", "junk", "", false, true
		}
		url := fmt.Sprintf("%s/3,%x%08x", srv.URL, i+1, uint32(r.Next()))
		var res *operation.UploadResult
		upPanic := false
		func() {
			defer func() {
				if rec := recover(); rec != nil {
					upPanic = true
				}
			}()
			res, err = operation.UploadData(url, name, ciph, data, ic, mime, nil, "")
		}()
		if upPanic || err != nil || res == nil {
			panic(fmt.Sprintf("upload failed: panic=%v err=%v (the model has no such outcome)", upPanic, err))
		}
		// raw GET: what the server sends to a client that accepts gzip
		req, _ := http.NewRequest("GET", url, nil)
		req.Header.Set("Accept-Encoding", "gzip")
		resp, err := rawClient.Do(req)
		hx.Must(err)
		raw, err := ioutil.ReadAll(resp.Body)
		hx.Must(err)
		resp.Body.Close()
		rawCE := resp.Header.Get("Content-Encoding") == "gzip"

		// oracle tables
		var tGzip, tGunzip, tDetect, tSeal, tOpen []string
		cands := [][]byte{}
		if ic {
			cands = append(cands, data)
		}
		if !ic && mime == "" {
			tDetect = append(tDetect, hx.Pair(coqB(data), hx.Str(http.DetectContentType(data))))
		}
		if !ic {
			if !ciph {
				g := stdGzip(data)
				tGzip = append(tGzip, hx.Pair(coqB(data), coqB(g)))
				cands = append(cands, g)
			}
			if len(data) > 16*1024 {
				tGzip = append(tGzip, hx.Pair(coqB(data[:128]), coqB(stdGzip(data[:128]))))
			}
		}
		for _, c := range cands {
			if util.IsGzippedContent(c) {
				tGunzip = append(tGunzip, hx.Pair(coqB(c), stdGunzip(c).coq()))
			}
		}
		key, nonce := []byte{}, []byte{}
		if len(res.CipherKey) > 0 {
			key = res.CipherKey
			if len(raw) >= 12 {
				nonce = raw[:12]
				g := gcmOf(key)
				clears := [][]byte{data}
				if ic && util.IsGzippedContent(data) {
					clears = append(clears, stdGunzip(data).out) // nil on a header error, partial on a body error
				}
				for _, c := range clears {
					tSeal = append(tSeal, hx.Pair(fmt.Sprintf("(%s, %s, %s)", coqB(key), coqB(nonce), coqB(c)), coqB(g.Seal(nil, nonce, c, nil))))
				}
				opened := "None"
				if p, oerr := g.Open(nil, nonce, raw[12:], nil); oerr == nil {
					opened = hx.Some(coqB(p))
				}
				tOpen = append(tOpen, hx.Pair(fmt.Sprintf("(%s, %s, %s)", coqB(key), coqB(nonce), coqB(raw[12:])), opened))
			}
		}
		// fetches
		full := fetch(url, res.CipherKey, res.Gzip > 0, true, 0, int(res.Size))
		clearLen := int(res.Size)
		var off int64
		var size int
		switch k := r.Intn(10); {
		case k < 5 && clearLen > 0:
			off = int64(r.Intn(clearLen))
			size = r.Range(1, clearLen-int(off))
		case k < 6:
			off, size = int64(r.Intn(clearLen+1)), 0
		case k < 7:
			off, size = int64(clearLen), r.Range(1, 5)
		case k < 8:
			off, size = int64(clearLen+r.Range(1, 3)), r.Range(1, 5)
		case k < 9 && clearLen > 0:
			off = int64(r.Intn(clearLen))
			size = clearLen - int(off) + r.Range(1, 9) // runs past the end
		default:
			off, size = 0, clearLen
		}
		ranged := fetch(url, res.CipherKey, res.Gzip > 0, false, off, size)

		resMime := ""
		if ciph {
			resMime = res.Mime
		}
		uin := fmt.Sprintf("{| u_name := %s; u_cipher := %s; u_data := %s; u_ic := %s; u_mime := %s; u_key := %s; u_nonce := %s |}",
			hx.Str(name), hx.Bool(ciph), coqB(data), hx.Bool(ic), hx.Str(mime), coqB(key), coqB(nonce))
		tab := fmt.Sprintf("{| t_gzip := %s; t_gunzip := %s; t_detect := %s; t_seal := %s; t_open := %s |}",
			hx.List(tGzip), hx.List(tGunzip), hx.List(tDetect), hx.List(tSeal), hx.List(tOpen))
		term := fmt.Sprintf("(CU {| uc_in := %s; uc_tab := %s; uc_off := %s; uc_size := %s; ui_size := %s; ui_gzip := %s; ui_has_key := %s; ui_mime := %s; ui_raw_status := %s; ui_raw_ce := %s; ui_raw_body := %s; ui_full := %s; ui_ranged := %s |})",
			uin, tab, hx.N(uint64(off)), hx.N(uint64(size)), hx.N(uint64(res.Size)), hx.Bool(res.Gzip > 0),
			hx.Bool(len(res.CipherKey) > 0), hx.Str(resMime), hx.N(uint64(resp.StatusCode)), hx.Bool(rawCE), coqB(raw),
			full.coq(), ranged.coq())
		canon := fmt.Sprintf("U:%s|%s|%v|%v|%x|%d+%d", name, mime, ciph, ic, data, off, size)
		if len(canon) > 400 {
			canon = canon[:400] + fmt.Sprintf("...%d", len(data))
		}
		out.Add(term, canon, full.kind == 0 && len(full.b) > 0, "upload")
		out.Count("data:"+dkind, 1)
		out.Count(fmt.Sprintf("cipher:%v", ciph), 1)
		out.Count(fmt.Sprintf("inputCompressed:%v", ic), 1)
		out.Count(fmt.Sprintf("result.gzip:%v", res.Gzip > 0), 1)
		out.Count(fmt.Sprintf("full:%d", full.kind), 1)
		out.Count(fmt.Sprintf("ranged:%d", ranged.kind), 1)
		if mime == "" {
			out.Count("mime:sniffed", 1)
		}
	}
	out.Write()
}
