// C33 harness.
//
// CU cases: the real operation.UploadData against an in-process volume server
// (httptest server in front of the real VolumeServer.PostHandler /
// GetOrHeadHandler on a real storage.Store in a temp dir: real
// needle.CreateNeedleFromRequest / ParseUpload, real needle storage, real read
// handler with its range processing), then a raw GET (Accept-Encoding: gzip, body
// as sent) and the three real readers of util/http_util.go, each full and ranged,
// under recover: ReadUrlAsStream (result, bytes handed to fn, retryable; also with
// the isContentGzipped argument negated and with a full-chunk fetch at an arbitrary
// (offset, size)), ReadUrl (into a buffer shorter / equal / longer than the data)
// and ReadUrlAsReaderCloser + ReadAll.
// CD cases: a malformed stream into util.DecompressData / MaybeDecompressData
// under recover.
//
// Variants: "" small uploads; "big" uploads around the 16 KiB probe threshold;
// "decompress" CD cases only.
//
// The oracle tables of a case (gzip, gunzip, DetectContentType, AES-GCM seal/open)
// are filled by calling the Go standard library directly.
package main

import (
	"bytes"
	"compress/flate"
	"compress/gzip"
	"crypto/aes"
	"crypto/cipher"
	"encoding/hex"
	"fmt"
	"io/ioutil"
	"net/http"
	"net/http/httptest"
	"os"
	"path/filepath"
	"strings"

	"github.com/chrislusf/seaweedfs/weed/operation"
	weed_server "github.com/chrislusf/seaweedfs/weed/server"
	"github.com/chrislusf/seaweedfs/weed/storage"
	"github.com/chrislusf/seaweedfs/weed/storage/types"
	"github.com/chrislusf/seaweedfs/weed/util"
	"verifharness/hx"
)

// ---- Coq printing of byte strings ----

// period finds the smallest p in {1,2,3,4,8} such that b is p-periodic.
func period(b []byte) int {
	for _, p := range []int{1, 2, 3, 4, 8} {
		ok := len(b) >= 4*p
		for i := p; ok && i < len(b); i++ {
			if b[i] != b[i-p] {
				ok = false
			}
		}
		if ok {
			return p
		}
	}
	return 0
}

func hb(b []byte) string {
	if len(b) == 0 {
		return "[]"
	}
	return "(hb " + hx.Str(hex.EncodeToString(b)) + ")"
}

// coqB prints bytes; long periodic tails are printed as repetitions.
func coqB(b []byte) string {
	if len(b) <= 600 {
		return hb(b)
	}
	// literal head, periodic rest
	for _, head := range []int{0, 128} {
		if head > len(b) {
			continue
		}
		rest := b[head:]
		if p := period(rest); p > 0 {
			k := len(rest) / p
			tail := rest[k*p:]
			return fmt.Sprintf("(%s ++ rep %s %d ++ %s)%%list", hb(b[:head]), hb(rest[:p]), k, hb(tail))
		}
	}
	return hb(b)
}

// ---- oracles from the standard library ----

func stdGzip(b []byte) []byte {
	var buf bytes.Buffer
	w, _ := gzip.NewWriterLevel(&buf, flate.BestSpeed)
	w.Write(b)
	w.Close()
	return buf.Bytes()
}

type gzRes struct {
	kind int // 0 ok, 1 body error, 2 header error
	out  []byte
}

func stdGunzip(b []byte) gzRes {
	r, err := gzip.NewReader(bytes.NewReader(b))
	if err != nil {
		return gzRes{kind: 2}
	}
	out, err := ioutil.ReadAll(r)
	if err != nil {
		return gzRes{kind: 1, out: out}
	}
	return gzRes{kind: 0, out: out}
}

func (g gzRes) coq() string {
	switch g.kind {
	case 0:
		return "(GzOk " + coqB(g.out) + ")"
	case 1:
		return "(GzBodyErr " + coqB(g.out) + ")"
	}
	return "GzHdrErr"
}

func gcmOf(key []byte) cipher.AEAD {
	c, err := aes.NewCipher(key)
	hx.Must(err)
	g, err := cipher.NewGCM(c)
	hx.Must(err)
	return g
}

type fres struct {
	kind int // 0 ok, 1 err, 2 panic
	b    []byte
}

func (f fres) coq() string {
	switch f.kind {
	case 0:
		return "(FOk " + coqB(f.b) + ")"
	case 1:
		return "FErr"
	}
	return "FPanic"
}


// ---- the three readers, under recover ----

type streamRes struct {
	f      fres
	handed []byte
	retry  bool
}

func fetchStream(url string, key []byte, gz, full bool, off int64, size int) (s streamRes) {
	var buf bytes.Buffer
	defer func() {
		if r := recover(); r != nil {
			s = streamRes{f: fres{kind: 2}, handed: buf.Bytes()}
		}
	}()
	retry, err := util.ReadUrlAsStream(url, key, gz, full, off, size, func(d []byte) { buf.Write(d) })
	if err != nil {
		return streamRes{f: fres{kind: 1}, handed: buf.Bytes(), retry: retry}
	}
	return streamRes{f: fres{kind: 0, b: buf.Bytes()}, handed: buf.Bytes(), retry: retry}
}

func fetchUrl(url string, key []byte, gz, full bool, off int64, size int, buflen int) (f fres) {
	defer func() {
		if r := recover(); r != nil {
			f = fres{kind: 2}
		}
	}()
	buf := make([]byte, buflen)
	n, err := util.ReadUrl(url, key, gz, full, off, size, buf)
	if err != nil {
		return fres{kind: 1}
	}
	return fres{kind: 0, b: buf[:n]}
}

func fetchCloser(url string, rangeHeader string) (f fres) {
	defer func() {
		if r := recover(); r != nil {
			f = fres{kind: 2}
		}
	}()
	rc, err := util.ReadUrlAsReaderCloser(url, rangeHeader)
	if err != nil {
		return fres{kind: 1}
	}
	defer rc.Close()
	b, err := ioutil.ReadAll(rc)
	if err != nil {
		return fres{kind: 1}
	}
	return fres{kind: 0, b: b}
}

// ---- generators ----

// every extension of IsCompressableFileType as a base name (doUploadData passes
// filepath.Base(filename) as `ext`), ordinary names, names with a directory, empty
var extNames = []string{".svg", ".bmp", ".wav", ".zip", ".rar", ".gz", ".bz2", ".xz", ".zst", ".br", ".pdf", ".txt", ".html",
	".htm", ".css", ".js", ".json", ".php", ".java", ".go", ".rb", ".c", ".cpp", ".h", ".hpp", ".png", ".jpg", ".jpeg"}
var plainNames = []string{"a.txt", "b.jpg", "c.zip", "d.pdf", "e.wav", "dir/.txt", "dir/.png", "dir/.gz", "", "noext", "x.bin", "up/", ".SVG", "..c"}
var unsureNames = []string{"", "noext", "x.bin", "up/"}
var mimes = []string{"", "", "", "", "text/plain", "text/html; charset=utf-8", "text/css", "image/png", "image/jpeg", "image/svg+xml",
	"application/json", "application/xml", "application/zstd", "application/javascript", "application/vnd.rar", "audio/wav",
	"audio/x-wav", "audio/wave", "audio/x-pn-wav", "audio/mpeg", "audio/", "application/octet-stream", "video/mp4", "application/x-foo"}

var words = []string{"hello ", "world ", "seaweed ", "fs ", "volume ", "needle ", "\n", "0123456789 "}

func genText(r *hx.Rng, n int) []byte {
	var sb strings.Builder
	for sb.Len() < n {
		sb.WriteString(r.PickStr(words))
	}
	return []byte(sb.String()[:n])
}

// small data kinds: text, random, gzip-looking junk, real gzip, damaged gzip, empty, one byte
func genData(r *hx.Rng) ([]byte, string) {
	switch k := r.Intn(20); {
	case k < 6:
		return genText(r, r.Range(1, 160)), "text"
	case k < 9:
		return r.Bytes(r.Range(1, 120)), "random"
	case k < 11:
		return append([]byte{0x1f, 0x8b}, r.Bytes(r.Range(0, 40))...), "gzip-looking"
	case k < 12:
		return append([]byte{0x1f, 0x8b, 8}, r.Bytes(r.Range(0, 40))...), "gzip-looking-deflate"
	case k < 14:
		return stdGzip(genText(r, r.Range(0, 80))), "real-gzip"
	case k < 17:
		b, kind := genMalformed(r)
		return b, "damaged-gzip:" + kind
	case k < 19:
		return []byte{}, "empty"
	default:
		return r.Bytes(1), "one-byte"
	}
}

// about 16 KiB: 4-periodic (compressible probe) or with a random 128-byte head
// (incompressible probe), lengths on both sides of 16*1024 and exactly at it
func genBig(r *hx.Rng) ([]byte, string) {
	n := r.Range(16360, 16800)
	if r.Chance(1, 3) {
		n = 16383 + r.Intn(4)
	}
	if r.Chance(1, 2) {
		b := bytes.Repeat([]byte{byte(r.Intn(256)), 1, 2, byte(r.Intn(256))}, n/4+1)
		return b[:n], "big-periodic"
	}
	b := append(r.Bytes(128), bytes.Repeat([]byte{7, byte(r.Intn(256))}, n/2)...)
	return b[:n], "big-random-head"
}

func genMalformed(r *hx.Rng) ([]byte, string) {
	good := stdGzip(genText(r, r.Range(0, 60)))
	switch r.Intn(14) {
	case 0:
		return []byte{0x1f, 0x8b}, "magic-only"
	case 1:
		return append([]byte{0x1f, 0x8b}, r.Bytes(r.Range(1, 30))...), "magic+random"
	case 2:
		return good[:r.Range(2, len(good)-1)], "truncated"
	case 3:
		b := append([]byte{}, good...)
		b[len(b)-r.Range(1, 8)] ^= 0x55 // CRC or length
		return b, "bad-trailer"
	case 4:
		return append(append([]byte{}, good...), r.Bytes(r.Range(1, 8))...), "trailing-garbage"
	case 5:
		return append(append([]byte{}, good...), stdGzip(genText(r, 10))...), "two-members"
	case 6:
		return good, "valid"
	case 7:
		b := append([]byte{}, good...)
		b[2] = byte(r.Intn(256)) // compression method
		return b, "bad-method"
	case 8:
		b := append([]byte{}, good...)
		b[3] = byte(r.Intn(256)) // flags: FEXTRA / FNAME / FCOMMENT / FHCRC
		return b, "odd-flags"
	case 9:
		return r.Bytes(r.Range(0, 20)), "random"
	case 10:
		b := append([]byte{}, good...)
		if len(b) > 20 {
			b[r.Range(10, len(b)-9)] ^= byte(r.Range(1, 255)) // deflate stream
		}
		return b, "bad-deflate"
	case 11:
		// a header with FEXTRA/FNAME/FCOMMENT/FHCRC fields, cut somewhere
		var buf bytes.Buffer
		w, _ := gzip.NewWriterLevel(&buf, flate.BestSpeed)
		w.Name, w.Comment, w.Extra = "n"+string(genText(r, 3)), "c", r.Bytes(r.Intn(6))
		w.Write(genText(r, r.Range(0, 30)))
		w.Close()
		b := buf.Bytes()
		if r.Chance(1, 2) {
			b = b[:r.Range(3, len(b))]
		}
		return b, "header-fields"
	case 12:
		return append([]byte{0x1f, 0x8b, 8, byte(r.Intn(32))}, r.Bytes(r.Range(0, 24))...), "magic+deflate+random"
	default:
		return []byte{0x1f}, "one-byte"
	}
}

type upSpec struct {
	data             []byte
	dkind            string
	name, mime       string
	ciph, ic         bool
	off, size, bufln int // -1: choose from the seed
}

func main() {
	out := hx.Flags("C33", 100)
	out.Rule = "variant \"\": CU cases, data (text / random / 1f8b-prefixed junk / real gzip / damaged gzip (truncated, bad trailer/method/flags/deflate, trailing garbage, two members, header fields) / empty / 1 byte) x file name (every extension of IsCompressableFileType as a base name, ordinary names, with directory, empty) x mime (each branch, empty = sniffed) x cipher on/off x isInputCompressed (1/8; 1/2 for gzip-like data), uploaded with operation.UploadData to an in-process volume server, read raw and through ReadUrlAsStream (full at (0,size) and at a random (offset,size), ranged; with the gzip flag as recorded and negated; bytes handed to fn kept on error), ReadUrl (buffer shorter/equal/longer) and ReadUrlAsReaderCloser (ranges in, at and beyond the end, size 0); variant big: the same around 16 KiB (16383..16386 and 16360..16800, 4-periodic or random 128-byte head, 2/3 with empty mime and a name without a known extension so that the 128-byte probe decides); variant decompress: CD cases, malformed gzip streams into DecompressData/MaybeDecompressData; shard 0 starts with the witnesses (known finding 0: isInputCompressed junk with the gzip magic, plain and encrypted - the plain one is also the witness of the repaired nil gzip reader in http_util.go; DecompressData({1f 8b}); lengths 16384 / 16385); non-trivial = full fetch returned at least one byte (CU) / input has the gzip magic (CD); distinct = canonical input"
	root := hx.NewRng(out.Seed)
	shard0 := out.Seed%1000 == 0 // bin/check: shard k of a variant runs with seed*1000+k

	if out.Variant == "decompress" {
		for i := 0; i < out.N; i++ {
			r := root.Fork()
			in, kind := genMalformed(r)
			if i == 0 && shard0 {
				in, kind = []byte{0x1f, 0x8b}, "magic-only"
			}
			caseDecompress(out, in, kind)
		}
		out.Write()
		return
	}

	dir, err := ioutil.TempDir("", "c33")
	hx.Must(err)
	defer os.RemoveAll(dir)
	s := storage.NewStore(nil, 0, "localhost", "localhost", []string{dir}, []int{100}, []util.MinFreeSpace{{Type: util.AsPercent, Percent: 0}}, "", storage.NeedleMapInMemory, []types.DiskType{types.HardDriveType})
	go func() {
		for range s.NewVolumesChan {
		}
	}()
	hx.Must(s.AddVolume(3, "", storage.NeedleMapInMemory, "000", "", 0, 0, types.HardDriveType))
	vs := weed_server.NewVerifVolumeServer(s, 1<<28)
	srv := httptest.NewServer(http.HandlerFunc(func(w http.ResponseWriter, r *http.Request) {
		switch r.Method {
		case "GET", "HEAD":
			vs.GetOrHeadHandler(w, r)
		case "POST", "PUT":
			vs.PostHandler(w, r)
		}
	}))
	defer srv.Close()
	rawClient := &http.Client{Transport: &http.Transport{DisableCompression: true}}

	junk := []byte{0x1f, 0x8b, 0, 1, 2, 3, 4, 5, 6, 7, 8, 9}
	periodic := func(n int) []byte { return bytes.Repeat([]byte{9, 1, 2, 200}, n/4+1)[:n] }
	var witnesses []upSpec
	if shard0 && out.Variant == "" {
		trunc := stdGzip([]byte("hello hello hello hello hello"))
		witnesses = []upSpec{
			{data: junk, dkind: "gzip-looking", name: "junk", ic: true, off: 0, size: 5, bufln: 12},
			{data: junk, dkind: "gzip-looking", name: "junk", ic: true, ciph: true, off: 0, size: 5, bufln: 12},
			{data: trunc[:len(trunc)-10], dkind: "damaged-gzip:truncated", name: "t.gz", ic: true, off: 2, size: 5, bufln: 4},
			{data: trunc[:len(trunc)-10], dkind: "damaged-gzip:truncated", name: "t.gz", ic: true, ciph: true, off: 2, size: 5, bufln: 40},
		}
	}
	if shard0 && out.Variant == "big" {
		witnesses = []upSpec{
			{data: periodic(16384), dkind: "big-periodic", name: "noext", off: 16380, size: 4, bufln: 4},
			{data: periodic(16385), dkind: "big-periodic", name: "noext", off: 16380, size: 5, bufln: 9},
			{data: append(hx.NewRng(5).Bytes(128), periodic(16385-128)...), dkind: "big-random-head", name: "", off: 100, size: 60, bufln: 60},
			{data: periodic(16390), dkind: "big-periodic", name: "x.bin", ic: true, off: 1, size: 16384, bufln: 3},
		}
	}

	for i := 0; i < out.N; i++ {
		r := root.Fork()
		var sp upSpec
		if i < len(witnesses) {
			sp = witnesses[i]
		} else {
			sp = upSpec{off: -1}
			if out.Variant == "big" {
				sp.data, sp.dkind = genBig(r)
				sp.name, sp.mime = r.PickStr(plainNames), r.PickStr(mimes)
				if r.Chance(2, 3) { // let the 128-byte probe decide
					sp.name, sp.mime = r.PickStr(unsureNames), ""
				}
				sp.ciph = false // the sealed bytes of a large input have no short Coq term (a 32 KiB string literal overflows coqc's stack)
				sp.ic = r.Chance(1, 8)
			} else {
				sp.data, sp.dkind = genData(r)
				sp.name = r.PickStr(plainNames)
				if r.Chance(1, 2) {
					sp.name = r.PickStr(extNames)
				}
				sp.mime = r.PickStr(mimes)
				sp.ciph = r.Chance(1, 3)
				sp.ic = r.Chance(1, 8)
				if util.IsGzippedContent(sp.data) {
					sp.ic = r.Chance(1, 2)
				}
			}
		}
		caseUpload(out, r, srv.URL, rawClient, i, sp)
	}
	out.Write()
}

func caseDecompress(out *hx.Out, in []byte, kind string) {
	dec, may := "DPanic", "MPanic"
	func() {
		defer func() { recover() }()
		o, e := util.DecompressData(in)
		if e == nil {
			dec = "(DOk " + coqB(o) + ")"
		} else {
			dec = fmt.Sprintf("(DErr %s %s)", coqB(o), hx.Bool(e == util.UnsupportedCompression))
		}
	}()
	func() {
		defer func() { recover() }()
		may = "(MVal " + coqB(util.MaybeDecompressData(in)) + ")"
	}()
	g := stdGunzip(in)
	term := fmt.Sprintf("(CD {| dc_input := %s; dc_gunzip := %s; di_decompress := %s; di_maybe := %s |})",
		coqB(in), g.coq(), dec, may)
	out.Add(term, "D:"+hex.EncodeToString(in), util.IsGzippedContent(in), "decompress")
	out.Count("malformed:"+kind, 1)
	if util.IsGzippedContent(in) {
		out.Count(fmt.Sprintf("gunzip-outcome:%d", g.kind), 1)
	}
	if dec == "DPanic" || may == "MPanic" {
		out.Count("decompress:panic", 1)
	}
}

func caseUpload(out *hx.Out, r *hx.Rng, base string, rawClient *http.Client, i int, sp upSpec) {
	data, name, mime, ciph, ic := sp.data, sp.name, sp.mime, sp.ciph, sp.ic
	url := fmt.Sprintf("%s/3,%x%08x", base, i+1, uint32(r.Next()))
	var res *operation.UploadResult
	var err error
	upPanic := false
	func() {
		defer func() {
			if rec := recover(); rec != nil {
				upPanic = true
			}
		}()
		res, err = operation.UploadData(url, name, ciph, data, ic, mime, nil, "")
	}()
	if upPanic || err != nil || res == nil {
		panic(fmt.Sprintf("upload failed: panic=%v err=%v (the model has no such outcome)", upPanic, err))
	}
	// raw GET: what the server sends to a client that accepts gzip
	req, _ := http.NewRequest("GET", url, nil)
	req.Header.Set("Accept-Encoding", "gzip")
	resp, err := rawClient.Do(req)
	hx.Must(err)
	raw, err := ioutil.ReadAll(resp.Body)
	hx.Must(err)
	resp.Body.Close()
	rawCE := resp.Header.Get("Content-Encoding") == "gzip"

	// oracle tables: the standard library on every byte string the model can ask about
	var tGzip, tGunzip, tDetect, tSeal, tOpen []string
	if !ic && mime == "" {
		tDetect = append(tDetect, hx.Pair(coqB(data), hx.Str(http.DetectContentType(data))))
	}
	gunzipCands := [][]byte{data}
	if !ic {
		if !ciph {
			g := stdGzip(data)
			tGzip = append(tGzip, hx.Pair(coqB(data), coqB(g)))
			gunzipCands = append(gunzipCands, g)
		}
		if len(data) > 16*1024 {
			tGzip = append(tGzip, hx.Pair(coqB(data[:128]), coqB(stdGzip(data[:128]))))
		}
	}
	if util.IsGzippedContent(data) {
		gunzipCands = append(gunzipCands, stdGunzip(data).out) // what an encrypted upload seals when ic is set
	}
	seen := map[string]bool{}
	for _, c := range gunzipCands {
		if util.IsGzippedContent(c) && !seen[string(c)] {
			seen[string(c)] = true
			tGunzip = append(tGunzip, hx.Pair(coqB(c), stdGunzip(c).coq()))
		}
	}
	key, nonce := []byte{}, []byte{}
	if len(res.CipherKey) > 0 {
		key = res.CipherKey
		if len(raw) >= 12 {
			nonce = raw[:12]
			g := gcmOf(key)
			clears := [][]byte{data}
			if ic && util.IsGzippedContent(data) {
				clears = append(clears, stdGunzip(data).out) // nil on a header error, partial on a body error
			}
			for _, c := range clears {
				tSeal = append(tSeal, hx.Pair(fmt.Sprintf("(%s, %s, %s)", coqB(key), coqB(nonce), coqB(c)), coqB(g.Seal(nil, nonce, c, nil))))
			}
			opened := "None"
			if p, oerr := g.Open(nil, nonce, raw[12:], nil); oerr == nil {
				opened = hx.Some(coqB(p))
			}
			tOpen = append(tOpen, hx.Pair(fmt.Sprintf("(%s, %s, %s)", coqB(key), coqB(nonce), coqB(raw[12:])), opened))
		}
	}

	// the request
	clearLen := int(res.Size)
	off, size, bufLen := sp.off, sp.size, sp.bufln
	if off < 0 {
		switch k := r.Intn(10); {
		case k < 5 && clearLen > 0:
			off = r.Intn(clearLen)
			size = r.Range(1, clearLen-off)
		case k < 6:
			off, size = r.Intn(clearLen+1), 0
		case k < 7:
			off, size = clearLen, r.Range(1, 5)
		case k < 8:
			off, size = clearLen+r.Range(1, 3), r.Range(1, 5)
		case k < 9 && clearLen > 0:
			off = r.Intn(clearLen)
			size = clearLen - off + r.Range(1, 9) // runs past the end
		default:
			off, size = 0, clearLen
		}
		ref := size
		if r.Chance(1, 2) {
			ref = clearLen
		}
		switch r.Intn(4) {
		case 0:
			bufLen = r.Intn(ref + 1)
		case 1:
			bufLen = ref + r.Range(1, 9)
		default:
			bufLen = ref
		}
	}
	gz := res.Gzip > 0
	rangeHeader := fmt.Sprintf("bytes=%d-%d", off, off+size-1)
	full := fetchStream(url, res.CipherKey, gz, true, 0, clearLen)
	fullAt := fetchStream(url, res.CipherKey, gz, true, int64(off), size)
	ranged := fetchStream(url, res.CipherKey, gz, false, int64(off), size)
	flipFullAt := fetchStream(url, res.CipherKey, !gz, true, int64(off), size)
	flipRanged := fetchStream(url, res.CipherKey, !gz, false, int64(off), size)
	urlFull := fetchUrl(url, res.CipherKey, gz, true, 0, clearLen, bufLen)
	urlRanged := fetchUrl(url, res.CipherKey, gz, false, int64(off), size, bufLen)
	rcFull := fetchCloser(url, "")
	rcRanged := fetchCloser(url, rangeHeader)
	retry := full.retry || fullAt.retry || ranged.retry || flipFullAt.retry || flipRanged.retry

	resMime := ""
	if ciph {
		resMime = res.Mime
	}
	uin := fmt.Sprintf("{| u_name := %s; u_cipher := %s; u_data := %s; u_ic := %s; u_mime := %s; u_key := %s; u_nonce := %s |}",
		hx.Str(name), hx.Bool(ciph), coqB(data), hx.Bool(ic), hx.Str(mime), coqB(key), coqB(nonce))
	tab := fmt.Sprintf("{| t_gzip := %s; t_gunzip := %s; t_detect := %s; t_seal := %s; t_open := %s |}",
		hx.List(tGzip), hx.List(tGunzip), hx.List(tDetect), hx.List(tSeal), hx.List(tOpen))
	term := fmt.Sprintf("(CU {| uc_in := %s; uc_tab := %s; uc_off := %s; uc_size := %s; uc_buf := %s; ui_size := %s; ui_gzip := %s; ui_has_key := %s; ui_mime := %s; ui_raw_status := %s; ui_raw_ce := %s; ui_raw_body := %s; ui_full := %s; ui_full_at := %s; ui_ranged := %s; ui_handed_full := %s; ui_handed_ranged := %s; ui_retry := %s; ui_flip_full_at := %s; ui_flip_ranged := %s; ui_url_full := %s; ui_url_ranged := %s; ui_rc_full := %s; ui_rc_ranged := %s |})",
		uin, tab, hx.N(uint64(off)), hx.N(uint64(size)), hx.N(uint64(bufLen)), hx.N(uint64(res.Size)), hx.Bool(gz),
		hx.Bool(len(res.CipherKey) > 0), hx.Str(resMime), hx.N(uint64(resp.StatusCode)), hx.Bool(rawCE), coqB(raw),
		full.f.coq(), fullAt.f.coq(), ranged.f.coq(), coqB(full.handed), coqB(ranged.handed), hx.Bool(retry),
		flipFullAt.f.coq(), flipRanged.f.coq(), urlFull.coq(), urlRanged.coq(), rcFull.coq(), rcRanged.coq())
	canon := fmt.Sprintf("U:%s|%s|%v|%v|%x|%d+%d|%d", name, mime, ciph, ic, data, off, size, bufLen)
	if len(canon) > 400 {
		canon = canon[:400] + fmt.Sprintf("...%d|%d+%d|%d", len(data), off, size, bufLen)
	}
	out.Add(term, canon, full.f.kind == 0 && len(full.f.b) > 0, "upload")
	dk := sp.dkind
	if j := strings.Index(dk, ":"); j > 0 {
		out.Count("data:"+dk[:j], 1)
	}
	out.Count("data:"+dk, 1)
	out.Count(fmt.Sprintf("cipher:%v", ciph), 1)
	out.Count(fmt.Sprintf("inputCompressed:%v", ic), 1)
	out.Count(fmt.Sprintf("result.gzip:%v", gz), 1)
	out.Count(fmt.Sprintf("full:%d", full.f.kind), 1)
	out.Count(fmt.Sprintf("fullAt:%d", fullAt.f.kind), 1)
	out.Count(fmt.Sprintf("ranged:%d", ranged.f.kind), 1)
	out.Count(fmt.Sprintf("readUrl.full:%d", urlFull.kind), 1)
	out.Count(fmt.Sprintf("readCloser.full:%d", rcFull.kind), 1)
	if ciph {
		out.Count(fmt.Sprintf("cipher.flipGzipFlag.full:%d", flipFullAt.f.kind), 1)
	}
	if len(full.handed) > 0 && full.f.kind == 1 {
		out.Count("handed-bytes-before-error", 1)
	}
	if ic && util.IsGzippedContent(data) {
		out.Count(fmt.Sprintf("ic+magic:gunzip-outcome:%d", stdGunzip(data).kind), 1)
	}
	if !ic && mime == "" {
		out.Count("mime:sniffed", 1)
		if len(data) > 16*1024 && http.DetectContentType(data) == "application/octet-stream" {
			if sure := knownExt(name); !sure {
				out.Count(fmt.Sprintf("probe128:reached(gzip=%v)", gz), 1)
			}
		}
	}
	if len(data) == 16384 || len(data) == 16385 {
		out.Count(fmt.Sprintf("len:%d", len(data)), 1)
	}
}

// knownExt: does IsCompressableFileType decide on the base name alone (mime "")?
func knownExt(name string) bool {
	_, sure := util.IsCompressableFileType(filepath.Base(name), "")
	return sure
}
