// C15 harness: the real planners of volume.balance, volumeServer.evacuate and
// volume.fix.replication (dry-run, through the verif hook weed/shell/verif_c15.go)
// on random topology snapshots; the printed plan is parsed strictly.
package main

import (
	"fmt"
	"regexp"
	"sort"
	"strconv"
	"strings"

	"github.com/chrislusf/seaweedfs/weed/pb/master_pb"
	"github.com/chrislusf/seaweedfs/weed/shell"
	"verifharness/hx"
)

const sizeLimit = 1000

// ---------- snapshot description ----------
type Vol struct {
	Id    uint32
	Coll  string
	Rp    uint32
	Size  uint64
	Ro    bool
	Dt    string
	Mtime int64
	Crev  uint32
}
type Disk struct {
	Type string
	Max  uint64
	Vols []Vol
}
type Node struct {
	Dc, Rack, Num int // rack number local to the dc, node number global (1-based)
	Disks         []*Disk
}
type Snap struct{ Nodes []*Node }

func dcName(i int) string   { return fmt.Sprintf("dc%d", i) }
func rackName(i int) string { return fmt.Sprintf("r%d", i) }
func nodeName(i int) string { return fmt.Sprintf("n%d", i) }
func nodeNum(s string) uint64 {
	if !strings.HasPrefix(s, "n") {
		panic("bad node name " + s)
	}
	v, err := strconv.ParseUint(s[1:], 10, 32)
	hx.Must(err)
	return v
}
func nameNum(s, prefix string) int {
	if !strings.HasPrefix(s, prefix) {
		panic("bad name " + s)
	}
	v, err := strconv.Atoi(s[len(prefix):])
	hx.Must(err)
	return v
}
func collNum(s string) uint64 {
	switch s {
	case "":
		return 0
	case "c1":
		return 1
	case "c2":
		return 2
	}
	panic("bad collection " + s)
}
func dtNum(s string) uint64 {
	switch s {
	case "":
		return 0
	case "ssd":
		return 1
	}
	panic("bad disk type " + s)
}

func (n *Node) disk(dt string) *Disk {
	for _, d := range n.Disks {
		if d.Type == dt {
			return d
		}
	}
	return nil
}

func (s *Snap) topo() *master_pb.TopologyInfo {
	t := &master_pb.TopologyInfo{Id: "topo"}
	var curDc *master_pb.DataCenterInfo
	var curRack *master_pb.RackInfo
	lastDc, lastRack := -1, -1
	for _, n := range s.Nodes {
		if n.Dc != lastDc {
			curDc = &master_pb.DataCenterInfo{Id: dcName(n.Dc)}
			t.DataCenterInfos = append(t.DataCenterInfos, curDc)
			lastDc, lastRack = n.Dc, -1
		}
		if n.Rack != lastRack {
			curRack = &master_pb.RackInfo{Id: rackName(n.Rack)}
			curDc.RackInfos = append(curDc.RackInfos, curRack)
			lastRack = n.Rack
		}
		dn := &master_pb.DataNodeInfo{Id: nodeName(n.Num), DiskInfos: map[string]*master_pb.DiskInfo{}}
		for _, d := range n.Disks {
			di := &master_pb.DiskInfo{Type: d.Type, MaxVolumeCount: d.Max, VolumeCount: uint64(len(d.Vols))}
			if d.Max >= uint64(len(d.Vols)) {
				di.FreeVolumeCount = d.Max - uint64(len(d.Vols))
			}
			for _, v := range d.Vols {
				di.VolumeInfos = append(di.VolumeInfos, &master_pb.VolumeInformationMessage{
					Id: v.Id, Collection: v.Coll, ReplicaPlacement: v.Rp, Size: v.Size, ReadOnly: v.Ro,
					DiskType: v.Dt, ModifiedAtSecond: v.Mtime, CompactRevision: v.Crev})
			}
			dn.DiskInfos[d.Type] = di
		}
		curRack.DataNodeInfos = append(curRack.DataNodeInfos, dn)
	}
	return t
}

func coqLoc(dc, rack, num int) string {
	return fmt.Sprintf("{| l_dc := %s; l_rack := %s; l_node := %s |}", hx.N(uint64(dc)), hx.N(uint64(rack)), hx.N(uint64(num)))
}

func (s *Snap) coq() string {
	var nodes []string
	for _, n := range s.Nodes {
		var disks []string
		for _, d := range n.Disks {
			var vols []string
			for _, v := range d.Vols {
				vols = append(vols, fmt.Sprintf("{| v_id := %s; v_coll := %s; v_rp := %s; v_size := %s; v_ro := %s; v_dt := %s; v_mtime := %s; v_crev := %s |}",
					hx.N(uint64(v.Id)), hx.N(collNum(v.Coll)), hx.N(uint64(v.Rp)), hx.N(v.Size), hx.Bool(v.Ro), hx.N(dtNum(v.Dt)), hx.N(uint64(v.Mtime)), hx.N(uint64(v.Crev))))
			}
			disks = append(disks, fmt.Sprintf("{| d_type := %s; d_max := %s; d_count := %s; d_vols := %s |}",
				hx.N(dtNum(d.Type)), hx.Z(int64(d.Max)), hx.Z(int64(len(d.Vols))), hx.List(vols)))
		}
		nodes = append(nodes, fmt.Sprintf("{| n_loc := %s; n_disks := %s |}", coqLoc(n.Dc, n.Rack, n.Num), hx.List(disks)))
	}
	return hx.List(nodes)
}

func (s *Snap) canon() string {
	var sb strings.Builder
	for _, n := range s.Nodes {
		fmt.Fprintf(&sb, "%d/%d/%d:", n.Dc, n.Rack, n.Num)
		for _, d := range n.Disks {
			fmt.Fprintf(&sb, "[%s %d", d.Type, d.Max)
			for _, v := range d.Vols {
				fmt.Fprintf(&sb, " %d.%s.%d.%d.%v.%d.%d", v.Id, v.Coll, v.Rp, v.Size, v.Ro, v.Mtime, v.Crev)
			}
			sb.WriteString("]")
		}
		sb.WriteString(";")
	}
	return sb.String()
}

// ---------- plan parsing (strict) ----------
var (
	reMove    = regexp.MustCompile(`^  moving ([a-z]*) volume (?:([a-z0-9]+)_)?([0-9]+) (n[0-9]+) => (n[0-9]+)$`)
	reSkip    = regexp.MustCompile(`^skipping non moveable volume ([0-9]+) replication:([0-9]{3})$`)
	reOver    = regexp.MustCompile(`^volume ([0-9]+) replication ([0-9]{3}), but over replicated \+([0-9]+)$`)
	reDelete  = regexp.MustCompile(`^deleting volume ([0-9]+) from (n[0-9]+) \.\.\.$`)
	reCopy    = regexp.MustCompile(`^replicating volume ([0-9]+) ([0-9]{3}) from (n[0-9]+) to dataNode (n[0-9]+) \.\.\.$`)
	reNoPlace = regexp.MustCompile(`^failed to place volume ([0-9]+) replica as ([0-9]{3}), existing:\+?([0-9]+)$`)
	reFailErr = regexp.MustCompile(`^failed to move volume ([0-9]+) from (n[0-9]+)$`)
)

func lines(text string) []string {
	if text == "" {
		return nil
	}
	if !strings.HasSuffix(text, "\n") {
		panic(fmt.Sprintf("plan text does not end with a newline: %q", text))
	}
	return strings.Split(strings.TrimSuffix(text, "\n"), "\n")
}

func u(s string) uint64 {
	v, err := strconv.ParseUint(s, 10, 32)
	hx.Must(err)
	return v
}

func okPlan(p shell.VerifC15Plan, what string) {
	if p.Panic != "" {
		panic(what + ": planner panicked: " + p.Panic)
	}
}

// ---------- the three runs ----------
func runBalance(s *Snap, colls []string) (string, bool, int) {
	p, locations := shell.VerifC15BalanceLocations(s.topo(), sizeLimit, colls, "")
	okPlan(p, "balance")
	if p.Err != "" {
		panic("balance: unexpected error " + p.Err)
	}
	var steps []string
	for _, l := range lines(p.Text) {
		m := reMove.FindStringSubmatch(l)
		if m == nil {
			panic(fmt.Sprintf("balance: unknown plan line %q", l))
		}
		steps = append(steps, fmt.Sprintf("Move %s %s %s %s", hx.N(u(m[3])), hx.N(dtNum(m[1])), hx.N(nodeNum(m[4])), hx.N(nodeNum(m[5]))))
	}
	var cs []string
	for _, c := range colls {
		if c == "ALL_COLLECTIONS" {
			cs = append(cs, "None")
		} else {
			cs = append(cs, hx.Some(hx.N(collNum(c))))
		}
	}
	var dts []string
	for _, d := range p.DiskTypes {
		dts = append(dts, hx.N(dtNum(d)))
	}
	vids := []int{}
	for vid := range p.Replicas {
		vids = append(vids, int(vid))
	}
	sort.Ints(vids)
	var obs []string
	for _, vid := range vids {
		// the planner's bookkeeping: data center, rack and server of every replica
		ls := []string{}
		for _, l := range locations[uint32(vid)] {
			ls = append(ls, coqLoc(nameNum(l.Dc, "dc"), nameNum(l.Rack, "r"), int(nodeNum(l.Node))))
		}
		obs = append(obs, hx.Pair(hx.N(uint64(vid)), hx.List(ls)))
	}
	return fmt.Sprintf("RBalance %s %s %s %s %s", hx.N(sizeLimit), hx.List(cs), hx.List(dts), hx.List(steps), hx.List(obs)), len(steps) > 0, len(steps)
}

func runEvac(s *Snap, node int, skip bool) (string, bool, int) {
	p := shell.VerifC15Evacuate(s.topo(), nodeName(node), skip)
	okPlan(p, "evacuate")
	var evs []string
	moves := 0
	for _, l := range lines(p.Text) {
		if m := reMove.FindStringSubmatch(l); m != nil {
			if nodeNum(m[4]) != uint64(node) {
				panic("evacuate: move from another node: " + l)
			}
			evs = append(evs, fmt.Sprintf("EMove %s %s %s", hx.N(u(m[3])), hx.N(dtNum(m[1])), hx.N(nodeNum(m[5]))))
			moves++
		} else if m := reSkip.FindStringSubmatch(l); m != nil {
			evs = append(evs, "ESkip "+hx.N(u(m[1])))
		} else {
			panic(fmt.Sprintf("evacuate: unknown plan line %q", l))
		}
	}
	if p.Err != "" {
		m := reFailErr.FindStringSubmatch(p.Err)
		if m == nil || nodeNum(m[2]) != uint64(node) {
			panic("evacuate: unexpected error " + p.Err)
		}
		evs = append(evs, "EFail "+hx.N(u(m[1])))
	}
	return fmt.Sprintf("REvac %s %s %s", hx.N(uint64(node)), hx.Bool(skip), hx.List(evs)), moves > 0, moves
}

func runFix(s *Snap, retry int) (string, bool, int) {
	p := shell.VerifC15FixReplication(s.topo(), retry)
	okPlan(p, "fix.replication")
	if p.Err != "" {
		panic("fix.replication: unexpected error " + p.Err)
	}
	var evs []string
	acts := 0
	for _, l := range lines(p.Text) {
		if m := reOver.FindStringSubmatch(l); m != nil {
			evs = append(evs, "FOver "+hx.N(u(m[1])))
		} else if m := reDelete.FindStringSubmatch(l); m != nil {
			evs = append(evs, fmt.Sprintf("FDelete %s %s", hx.N(u(m[1])), hx.N(nodeNum(m[2]))))
			acts++
		} else if m := reCopy.FindStringSubmatch(l); m != nil {
			evs = append(evs, fmt.Sprintf("FCopy %s %s %s", hx.N(u(m[1])), hx.N(nodeNum(m[3])), hx.N(nodeNum(m[4]))))
			acts++
		} else if m := reNoPlace.FindStringSubmatch(l); m != nil {
			evs = append(evs, "FNoPlace "+hx.N(u(m[1])))
		} else {
			panic(fmt.Sprintf("fix.replication: unknown plan line %q", l))
		}
	}
	return fmt.Sprintf("RFix %s %s", hx.Nat(retry), hx.List(evs)), acts > 0, acts
}

// ---------- generators ----------
var rpChoices = []uint32{0, 1, 10, 100, 11, 110, 200, 2}

func rpDigits(b uint32) (x, y, z int) { return int(b / 100), int(b / 10 % 10), int(b % 10) }

// dense: few servers, many volumes, placement biased to the first servers (so that
// the balancer has something to do and servers fill up)
func genSnap(r *hx.Rng, dense bool) *Snap {
	s := &Snap{}
	ndc := r.Range(2, 3)
	hiR, hiN := 3, 3
	if dense {
		ndc, hiR, hiN = r.Range(1, 2), 2, 2
	}
	twoDts := r.Chance(1, 2)
	num := 0
	for d := 1; d <= ndc; d++ {
		nr := r.Range(1, hiR)
		for k := 1; k <= nr; k++ {
			nn := r.Range(1, hiN)
			for j := 0; j < nn; j++ {
				num++
				n := &Node{Dc: d, Rack: k, Num: num}
				if !twoDts {
					n.Disks = []*Disk{{Type: "", Max: uint64(r.Range(2, 8))}}
				} else {
					hasH, hasS := r.Chance(3, 4), r.Chance(3, 4)
					if !hasH && !hasS {
						hasH = true
					}
					if hasH {
						n.Disks = append(n.Disks, &Disk{Type: "", Max: uint64(r.Range(2, 8))})
					}
					if hasS {
						n.Disks = append(n.Disks, &Disk{Type: "ssd", Max: uint64(r.Range(2, 8))})
					}
				}
				s.Nodes = append(s.Nodes, n)
			}
		}
	}
	colls := []string{"c1"}
	switch r.Intn(3) {
	case 0:
		colls = []string{"", "c1"}
	case 1:
		colls = []string{"c1", "c2"}
	}
	nvol := r.Range(3, 10)
	if dense {
		nvol = r.Range(5, 3*len(s.Nodes)+4)
	}
	skew := dense && r.Chance(1, 2)
	for id := 1; id <= nvol; id++ {
		v := Vol{Id: uint32(id), Coll: r.PickStr(colls), Rp: rpChoices[r.Intn(len(rpChoices))]}
		if skew && r.Chance(3, 5) {
			v.Rp = 0
		}
		if r.Chance(1, 25) {
			v.Rp = 120
		}
		if twoDts && r.Chance(1, 2) {
			v.Dt = "ssd"
		}
		v.Size = uint64(r.PickInt([]int{0, 10, 10, 20, 300, 300, 999, 1000, 1200}))
		v.Ro = r.Chance(1, 5)
		v.Mtime = int64(r.Range(1, 4))
		v.Crev = uint32(r.Range(0, 1))
		// candidate nodes: have the disk type
		var cand []*Node
		for _, n := range s.Nodes {
			if n.disk(v.Dt) != nil {
				cand = append(cand, n)
			}
		}
		x, y, z := rpDigits(v.Rp)
		var chosen []*Node
		has := func(n *Node) bool {
			for _, c := range chosen {
				if c == n {
					return true
				}
			}
			return false
		}
		pick := func(f func(n *Node) bool) *Node {
			var ok []*Node
			for _, n := range cand {
				if !has(n) && f(n) {
					ok = append(ok, n)
				}
			}
			if len(ok) == 0 {
				return nil
			}
			if skew && r.Chance(3, 4) {
				return ok[0]
			}
			if dense && r.Chance(2, 3) {
				return ok[r.Intn((len(ok)+1)/2)]
			}
			return ok[r.Intn(len(ok))]
		}
		mode := r.Intn(10) // 0-4 valid, 5-6 under, 7 over, 8-9 misplaced
		if mode >= 8 {
			for i := 0; i < x+y+z+1; i++ {
				if n := pick(func(*Node) bool { return true }); n != nil {
					chosen = append(chosen, n)
				}
			}
		} else {
			// constructive valid layout (as far as the topology allows)
			first := pick(func(*Node) bool { return true })
			if first != nil {
				chosen = append(chosen, first)
				for i := 0; i < z; i++ {
					if n := pick(func(n *Node) bool { return n.Dc == first.Dc && n.Rack == first.Rack }); n != nil {
						chosen = append(chosen, n)
					}
				}
				usedRacks := map[int]bool{first.Rack: true}
				for i := 0; i < y; i++ {
					if n := pick(func(n *Node) bool { return n.Dc == first.Dc && !usedRacks[n.Rack] }); n != nil {
						chosen = append(chosen, n)
						usedRacks[n.Rack] = true
					}
				}
				usedDcs := map[int]bool{first.Dc: true}
				for i := 0; i < x; i++ {
					if n := pick(func(n *Node) bool { return !usedDcs[n.Dc] }); n != nil {
						chosen = append(chosen, n)
						usedDcs[n.Dc] = true
					}
				}
			}
			if mode == 5 || mode == 6 {
				drop := 1
				if len(chosen) > 2 && r.Chance(1, 3) {
					drop = 2
				}
				for i := 0; i < drop && len(chosen) > 1; i++ {
					k := r.Intn(len(chosen))
					chosen = append(chosen[:k], chosen[k+1:]...)
				}
			}
			if mode == 7 {
				if n := pick(func(*Node) bool { return true }); n != nil {
					chosen = append(chosen, n)
				}
			}
		}
		perReplicaState := r.Chance(1, 6)
		for _, n := range chosen {
			d := n.disk(v.Dt)
			if uint64(len(d.Vols)) >= d.Max {
				continue // full: this replica is missing
			}
			w := v
			if perReplicaState {
				w.Ro = r.Chance(1, 2)
				w.Mtime = int64(r.Range(1, 4))
				w.Size = uint64(r.PickInt([]int{10, 20, 300, 999}))
			}
			d.Vols = append(d.Vols, w)
		}
	}
	return s
}

// genSpreadSnap: replicated volumes spread over FULL source servers on several racks / data
// centers, empty servers concentrated on one rack: the balancer has to move several
// replicas of the same volume in one run, so every later move is decided on the
// bookkeeping left by the earlier ones.
func genSpreadSnap(r *hx.Rng) *Snap {
	s := &Snap{}
	ndc := r.Range(1, 2)
	num := 0
	var sources []*Node
	for d := 1; d <= ndc; d++ {
		nr := r.Range(2, 3)
		if ndc == 2 {
			nr = r.Range(1, 2)
		}
		for k := 1; k <= nr; k++ {
			nn := 1
			if r.Chance(1, 4) {
				nn = 2
			}
			for j := 0; j < nn; j++ {
				num++
				n := &Node{Dc: d, Rack: k, Num: num, Disks: []*Disk{{Type: ""}}}
				s.Nodes = append(s.Nodes, n)
				sources = append(sources, n)
			}
		}
	}
	// the empty servers: one more rack of a random data center (or, sometimes, a new data center)
	edc := r.Range(1, ndc)
	erack := 4
	if r.Chance(1, 5) {
		edc, erack = ndc+1, 1
	}
	nempty := r.Range(2, 3)
	var empties []*Node
	for j := 0; j < nempty; j++ {
		num++
		empties = append(empties, &Node{Dc: edc, Rack: erack, Num: num, Disks: []*Disk{{Type: "", Max: uint64(r.Range(3, 6))}}})
	}
	// keep eachDataNode order: nodes grouped by dc, then rack
	s.Nodes = append(s.Nodes, empties...)
	sort.SliceStable(s.Nodes, func(i, j int) bool {
		if s.Nodes[i].Dc != s.Nodes[j].Dc {
			return s.Nodes[i].Dc < s.Nodes[j].Dc
		}
		return s.Nodes[i].Rack < s.Nodes[j].Rack
	})
	// replicated volumes (small: tried first by the writable pass), valid layouts on the sources
	var rps []uint32
	if ndc == 1 {
		rps = []uint32{10, 10, 20, 11}
	} else {
		rps = []uint32{100, 100, 110, 10}
	}
	nrep := r.Range(1, 2)
	id := uint32(0)
	for i := 0; i < nrep; i++ {
		id++
		v := Vol{Id: id, Rp: rps[r.Intn(len(rps))], Size: uint64(10 * (i + 1)), Mtime: 1}
		x, y, z := rpDigits(v.Rp)
		var chosen []*Node
		has := func(n *Node) bool {
			for _, c := range chosen {
				if c == n {
					return true
				}
			}
			return false
		}
		pick := func(f func(n *Node) bool) *Node {
			var ok []*Node
			for _, n := range sources {
				if !has(n) && f(n) {
					ok = append(ok, n)
				}
			}
			if len(ok) == 0 {
				return nil
			}
			return ok[r.Intn(len(ok))]
		}
		first := pick(func(*Node) bool { return true })
		chosen = append(chosen, first)
		for k := 0; k < z; k++ {
			if n := pick(func(n *Node) bool { return n.Dc == first.Dc && n.Rack == first.Rack }); n != nil {
				chosen = append(chosen, n)
			}
		}
		usedRacks := map[int]bool{first.Rack: true}
		for k := 0; k < y; k++ {
			if n := pick(func(n *Node) bool { return n.Dc == first.Dc && !usedRacks[n.Rack] }); n != nil {
				chosen = append(chosen, n)
				usedRacks[n.Rack] = true
			}
		}
		usedDcs := map[int]bool{first.Dc: true}
		for k := 0; k < x; k++ {
			if n := pick(func(n *Node) bool { return !usedDcs[n.Dc] }); n != nil {
				chosen = append(chosen, n)
				usedDcs[n.Dc] = true
			}
		}
		for _, n := range chosen {
			n.Disks[0].Vols = append(n.Disks[0].Vols, v)
		}
	}
	// fillers (larger, replication 000) so that every source server is full
	for _, n := range sources {
		want := r.Range(2, 3)
		for len(n.Disks[0].Vols) < want {
			id++
			n.Disks[0].Vols = append(n.Disks[0].Vols, Vol{Id: id, Size: uint64(r.PickInt([]int{300, 500, 999})), Mtime: 1})
		}
		n.Disks[0].Max = uint64(len(n.Disks[0].Vols))
		if r.Chance(1, 4) {
			n.Disks[0].Max++
		}
	}
	return s
}

// a small universe of locations for the function-level cases
func genLoc(r *hx.Rng) (shell.VerifC15Loc, string) {
	dc, rack := r.Range(1, 3), r.Range(1, 3)
	node := (dc-1)*9 + (rack-1)*3 + r.Range(1, 3)
	return shell.VerifC15Loc{Dc: dcName(dc), Rack: rackName(rack), Node: nodeName(node)}, coqLoc(dc, rack, node)
}

func mkCase(s *Snap, run string) string {
	return fmt.Sprintf("{| c_snap := %s; c_run := %s |}", s.coq(), run)
}

func vol(id uint32, rp uint32, size uint64) Vol { return Vol{Id: id, Rp: rp, Size: size, Mtime: 1} }

func witnesses(out *hx.Out) {
	mk := func(dc, rack, num int, max uint64, vs ...Vol) *Node {
		return &Node{Dc: dc, Rack: rack, Num: num, Disks: []*Disk{{Type: "", Max: max, Vols: vs}}}
	}
	ro := func(v Vol) Vol { v.Ro = true; return v }
	// k=0: balance moves a writable volume to a server whose two slots hold read-only volumes
	s := &Snap{Nodes: []*Node{mk(1, 1, 1, 2, vol(1, 0, 10), vol(2, 0, 20)), mk(1, 1, 2, 2, ro(vol(3, 0, 10)), ro(vol(4, 0, 10)))}}
	t, nt, _ := runBalance(s, []string{"ALL_COLLECTIONS"})
	out.Add(mkCase(s, t), "w0|"+s.canon(), nt, "witness")
	// k=1: evacuate moves to a full server
	s = &Snap{Nodes: []*Node{mk(1, 1, 1, 2, vol(1, 0, 10)), mk(1, 1, 2, 1, vol(3, 0, 10))}}
	t, nt, _ = runEvac(s, 1, true)
	out.Add(mkCase(s, t), "w1|"+s.canon(), nt, "witness")
	// repaired (was finding 2), now code 0: two volumes to repair, one free slot on n2
	s = &Snap{Nodes: []*Node{mk(1, 1, 1, 4, vol(1, 1, 10), vol(2, 1, 10)), mk(1, 1, 2, 3, vol(3, 0, 10), vol(4, 0, 10))}}
	t, nt, _ = runFix(s, 0)
	out.Add(mkCase(s, t), "w2|"+s.canon(), nt, "witness")
	// repaired (was finding 3), now code 0: -retry 1 used to repeat the successful repair
	s = &Snap{Nodes: []*Node{mk(1, 1, 1, 4, vol(1, 1, 10)), mk(1, 1, 2, 4), mk(1, 1, 3, 4)}}
	t, nt, _ = runFix(s, 1)
	out.Add(mkCase(s, t), "w3|"+s.canon(), nt, "witness")
	// repaired (was finding 4), now code 0: a 000 volume with a writable copy on n1 and a read-only copy on n2
	s = &Snap{Nodes: []*Node{mk(1, 1, 1, 4, vol(1, 0, 10), vol(2, 0, 10)), mk(1, 1, 2, 4, ro(vol(1, 0, 10)))}}
	t, nt, _ = runBalance(s, []string{"ALL_COLLECTIONS"})
	out.Add(mkCase(s, t), "w4|"+s.canon(), nt, "witness")
	// k=2: replication 120 laid out 3 racks + 1; evacuating n3 makes it 2 + 2
	s = &Snap{Nodes: []*Node{mk(1, 1, 1, 4, vol(1, 120, 10)), mk(1, 2, 2, 4, vol(1, 120, 10)), mk(1, 3, 3, 4, vol(1, 120, 10)),
		mk(2, 1, 4, 4, vol(1, 120, 10)), mk(2, 2, 5, 4)}}
	t, nt, _ = runEvac(s, 3, true)
	out.Add(mkCase(s, t), "w5|"+s.canon(), nt, "witness")
}

func main() {
	out := hx.Flags("C15", 300)
	out.Rule = "random snapshots (2-3 DCs x 1-3 racks x 1-3 servers, 1-2 disk types, 2-8 slots per disk, 3-10 volumes, replication in {000,001,010,100,011,110,200,002,120}, replica sets valid/under/over/misplaced, per-replica read-only/size, 1-2 collections) plus a 'spread' family for balance (replicated 010/020/011/100/110 volumes on FULL servers of several racks/data centers, empty servers on one rack: several replicas of one volume move in one run); fed to the real balance (ALL/EACH/one collection; the planner's final replica bookkeeping incl. data center and rack is compared with the model's), evacuate (random server, skipNonMoveable on/off) and fix.replication (-retry 0..2) planners in dry-run; plus direct isGoodMove/satisfyReplicaPlacement/NewReplicaPlacementFromByte calls over a 27-server universe; the first 6 cases are the witnesses of the three known findings (cases 0, 1, 5) and of the three repaired defects (cases 2, 3, 4, now ok); non-trivial = the plan has at least one step (function cases: result true); distinct = canonical snapshot + run parameters"
	witnesses(out)
	// consecutive seeds of hx.NewRng give shifted copies of one stream: mix the seed first
	root := hx.NewRng(hx.NewRng(out.Seed).Next())
	for out.Len() < out.N {
		r := root.Fork()
		k := r.Intn(20)
		switch {
		case k < 8:
			s := genSnap(r, r.Chance(3, 4))
			spread := r.Chance(1, 3)
			if spread {
				s = genSpreadSnap(r)
				out.Count("balance:spread", 1)
			}
			var colls []string
			mode := r.Intn(3)
			if spread {
				mode = r.Intn(2)
			}
			switch mode {
			case 0:
				colls = []string{"ALL_COLLECTIONS"}
			case 1: // EACH_COLLECTION: the collection names present, sorted
				seen := map[string]bool{}
				for _, n := range s.Nodes {
					for _, d := range n.Disks {
						for _, v := range d.Vols {
							seen[v.Coll] = true
						}
					}
				}
				for c := range seen {
					colls = append(colls, c)
				}
				sort.Strings(colls)
			default:
				colls = []string{r.PickStr([]string{"", "c1", "c2"})}
			}
			t, nt, n := runBalance(s, colls)
			out.Count("balance:moves", n)
			out.Count(fmt.Sprintf("balance:mode%d", mode), 1)
			out.Add(mkCase(s, t), "B|"+strings.Join(colls, ",")+"|"+s.canon(), nt, "balance")
		case k < 13:
			s := genSnap(r, r.Chance(1, 2))
			node := s.Nodes[r.Intn(len(s.Nodes))].Num
			skip := r.Chance(2, 3)
			t, nt, n := runEvac(s, node, skip)
			out.Count("evacuate:moves", n)
			out.Add(mkCase(s, t), fmt.Sprintf("E|%d|%v|%s", node, skip, s.canon()), nt, "evacuate")
		case k < 18:
			s := genSnap(r, r.Chance(1, 3))
			retry := r.PickInt([]int{0, 0, 0, 1, 2})
			t, nt, n := runFix(s, retry)
			out.Count("fix:actions", n)
			out.Count(fmt.Sprintf("fix:retry%d", retry), 1)
			out.Add(mkCase(s, t), fmt.Sprintf("F|%d|%s", retry, s.canon()), nt, "fix")
		default:
			b := byte(r.PickInt([]int{0, 1, 2, 10, 11, 20, 100, 101, 110, 111, 120, 200, 210, 220, 30, 130, 255, 3}))
			nrep := r.Range(0, 5)
			var reps []shell.VerifC15Loc
			var creps []string
			for i := 0; i < nrep; i++ {
				l, c := genLoc(r)
				dup := false
				for _, e := range reps {
					if e.Node == l.Node {
						dup = true
					}
				}
				if dup {
					continue
				}
				reps = append(reps, l)
				creps = append(creps, c)
			}
			tgt, ctgt := genLoc(r)
			empty := &Snap{}
			switch r.Intn(5) {
			case 0:
				x, y, z, c := shell.VerifC15Placement(b)
				out.Add(mkCase(empty, fmt.Sprintf("RPlacement %s %s %s %s %s", hx.N(uint64(b)), hx.Nat(x), hx.Nat(y), hx.Nat(z), hx.Nat(c))),
					fmt.Sprintf("P|%d", b), true, "fn-placement")
			case 1, 2:
				if len(reps) == 0 {
					l, c := genLoc(r)
					reps, creps = append(reps, l), append(creps, c)
				}
				si := r.Intn(len(reps))
				got := shell.VerifC15IsGoodMove(b, reps, reps[si], tgt)
				out.Add(mkCase(empty, fmt.Sprintf("RGoodMove %s %s %s %s %s", hx.N(uint64(b)), hx.List(creps), creps[si], ctgt, hx.Bool(got))),
					fmt.Sprintf("G|%d|%v|%d|%v", b, reps, si, tgt), got, "fn-goodmove")
			default:
				got := shell.VerifC15Satisfy(b, reps, tgt)
				out.Add(mkCase(empty, fmt.Sprintf("RSatisfy %s %s %s %s", hx.N(uint64(b)), hx.List(creps), ctgt, hx.Bool(got))),
					fmt.Sprintf("S|%d|%v|%v", b, reps, tgt), got, "fn-satisfy")
			}
		}
	}
	out.Write()
}
