// C15 harness: the real planners of volume.balance, volumeServer.evacuate and
// volume.fix.replication (dry-run, through the verif hook weed/shell/verif_c15.go)
// on random topology snapshots; the printed plan is parsed strictly.
package main

import (
	"fmt"
	"regexp"
	"sort"
	"strconv"
	"strings"

	"github.com/chrislusf/seaweedfs/weed/pb/master_pb"
	"github.com/chrislusf/seaweedfs/weed/shell"
	"verifharness/hx"
)

const sizeLimit = 1000

// ---------- snapshot description ----------
type Vol struct {
	Id    uint32
	Coll  string
	Rp    uint32
	Size  uint64
	Ro    bool
	Dt    string
	Mtime int64
	Crev  uint32
}
type Disk struct {
	Type  string
	Max   uint64
	Extra uint64 // VolumeCount = len(Vols) + Extra (slots the master counts but the snapshot does not list)
	Vols  []Vol
}

func (d *Disk) count() uint64 { return uint64(len(d.Vols)) + d.Extra }

type Node struct {
	Dc, Rack, Num int // rack number local to the dc, node number global (1-based)
	Disks         []*Disk
}
type Snap struct{ Nodes []*Node }

func dcName(i int) string   { return fmt.Sprintf("dc%d", i) }
func rackName(i int) string { return fmt.Sprintf("r%d", i) }
func nodeName(i int) string { return fmt.Sprintf("n%d", i) }
func nodeNum(s string) uint64 {
	if !strings.HasPrefix(s, "n") {
		panic("bad node name " + s)
	}
	v, err := strconv.ParseUint(s[1:], 10, 32)
	hx.Must(err)
	return v
}
func nameNum(s, prefix string) int {
	if !strings.HasPrefix(s, prefix) {
		panic("bad name " + s)
	}
	v, err := strconv.Atoi(s[len(prefix):])
	hx.Must(err)
	return v
}
func collNum(s string) uint64 {
	switch s {
	case "":
		return 0
	case "c1":
		return 1
	case "c2":
		return 2
	}
	panic("bad collection " + s)
}
func dtNum(s string) uint64 {
	switch s {
	case "":
		return 0
	case "ssd":
		return 1
	case "nvme":
		return 2
	}
	panic("bad disk type " + s)
}

func (n *Node) disk(dt string) *Disk {
	for _, d := range n.Disks {
		if d.Type == dt {
			return d
		}
	}
	return nil
}

func (s *Snap) topo() *master_pb.TopologyInfo {
	t := &master_pb.TopologyInfo{Id: "topo"}
	var curDc *master_pb.DataCenterInfo
	var curRack *master_pb.RackInfo
	lastDc, lastRack := -1, -1
	for _, n := range s.Nodes {
		if n.Dc != lastDc {
			curDc = &master_pb.DataCenterInfo{Id: dcName(n.Dc)}
			t.DataCenterInfos = append(t.DataCenterInfos, curDc)
			lastDc, lastRack = n.Dc, -1
		}
		if n.Rack != lastRack {
			curRack = &master_pb.RackInfo{Id: rackName(n.Rack)}
			curDc.RackInfos = append(curDc.RackInfos, curRack)
			lastRack = n.Rack
		}
		dn := &master_pb.DataNodeInfo{Id: nodeName(n.Num), DiskInfos: map[string]*master_pb.DiskInfo{}}
		for _, d := range n.Disks {
			di := &master_pb.DiskInfo{Type: d.Type, MaxVolumeCount: d.Max, VolumeCount: d.count()}
			if d.Max >= d.count() {
				di.FreeVolumeCount = d.Max - d.count()
			}
			for _, v := range d.Vols {
				di.VolumeInfos = append(di.VolumeInfos, &master_pb.VolumeInformationMessage{
					Id: v.Id, Collection: v.Coll, ReplicaPlacement: v.Rp, Size: v.Size, ReadOnly: v.Ro,
					DiskType: v.Dt, ModifiedAtSecond: v.Mtime, CompactRevision: v.Crev})
			}
			dn.DiskInfos[d.Type] = di
		}
		curRack.DataNodeInfos = append(curRack.DataNodeInfos, dn)
	}
	return t
}

func coqLoc(dc, rack, num int) string {
	return fmt.Sprintf("{| l_dc := %s; l_rack := %s; l_node := %s |}", hx.N(uint64(dc)), hx.N(uint64(rack)), hx.N(uint64(num)))
}

func (s *Snap) coq() string {
	var nodes []string
	for _, n := range s.Nodes {
		var disks []string
		for _, d := range n.Disks {
			var vols []string
			for _, v := range d.Vols {
				vols = append(vols, fmt.Sprintf("{| v_id := %s; v_coll := %s; v_rp := %s; v_size := %s; v_ro := %s; v_dt := %s; v_mtime := %s; v_crev := %s |}",
					hx.N(uint64(v.Id)), hx.N(collNum(v.Coll)), hx.N(uint64(v.Rp)), hx.N(v.Size), hx.Bool(v.Ro), hx.N(dtNum(v.Dt)), hx.N(uint64(v.Mtime)), hx.N(uint64(v.Crev))))
			}
			disks = append(disks, fmt.Sprintf("{| d_type := %s; d_max := %s; d_count := %s; d_vols := %s |}",
				hx.N(dtNum(d.Type)), hx.Z(int64(d.Max)), hx.Z(int64(d.count())), hx.List(vols)))
		}
		nodes = append(nodes, fmt.Sprintf("{| n_loc := %s; n_disks := %s |}", coqLoc(n.Dc, n.Rack, n.Num), hx.List(disks)))
	}
	return hx.List(nodes)
}

func (s *Snap) canon() string {
	var sb strings.Builder
	for _, n := range s.Nodes {
		fmt.Fprintf(&sb, "%d/%d/%d:", n.Dc, n.Rack, n.Num)
		for _, d := range n.Disks {
			fmt.Fprintf(&sb, "[%s %d+%d", d.Type, d.Max, d.Extra)
			for _, v := range d.Vols {
				fmt.Fprintf(&sb, " %d.%s.%d.%d.%v.%s.%d.%d", v.Id, v.Coll, v.Rp, v.Size, v.Ro, v.Dt, v.Mtime, v.Crev)
			}
			sb.WriteString("]")
		}
		sb.WriteString(";")
	}
	return sb.String()
}

// ---------- plan parsing (strict) ----------
var (
	reMove     = regexp.MustCompile(`^  moving ([a-z]*) volume (?:([a-z0-9]+)_)?([0-9]+) (n[0-9]+) => (n[0-9]+)$`)
	reSkip     = regexp.MustCompile(`^skipping non moveable volume ([0-9]+) replication:([0-9]{3})$`)
	reOver     = regexp.MustCompile(`^volume ([0-9]+) replication ([0-9]{3}), but over replicated \+([0-9]+)$`)
	reDelete   = regexp.MustCompile(`^deleting volume ([0-9]+) from (n[0-9]+) \.\.\.$`)
	reCopy     = regexp.MustCompile(`^replicating volume ([0-9]+) ([0-9]{3}) from (n[0-9]+) to dataNode (n[0-9]+) \.\.\.$`)
	reNoPlace  = regexp.MustCompile(`^failed to place volume ([0-9]+) replica as ([0-9]{3}), existing:\+?([0-9]+)$`)
	reFailErr  = regexp.MustCompile(`^failed to move volume ([0-9]+) from (n[0-9]+)$`)
	reNotFound = regexp.MustCompile(`^(n[0-9]+) is not found in this cluster$`)
)

func lines(text string) []string {
	if text == "" {
		return nil
	}
	if !strings.HasSuffix(text, "\n") {
		panic(fmt.Sprintf("plan text does not end with a newline: %q", text))
	}
	return strings.Split(strings.TrimSuffix(text, "\n"), "\n")
}

func u(s string) uint64 {
	v, err := strconv.ParseUint(s, 10, 32)
	hx.Must(err)
	return v
}

// number of moves of the last balance / evacuate run whose target was full (see fullTargets)
var lastFullTargets int

func okPlan(p shell.VerifC15Plan, what string) {
	if p.Panic != "" {
		panic(what + ": planner panicked: " + p.Panic)
	}
}

// fullTargets replays the moves (disk type, target) of a plan on the true occupancy of the
// snapshot and counts those whose target had no free slot of that disk type at that moment
// (statistics for the evidence only; the verdict is computed in Coq).
type mv struct {
	dt       string
	from, to int
}

func fullTargets(s *Snap, moves []mv) int {
	occ := map[int]map[string]int{}
	max := map[int]map[string]int{}
	for _, n := range s.Nodes {
		occ[n.Num], max[n.Num] = map[string]int{}, map[string]int{}
		for _, d := range n.Disks {
			max[n.Num][d.Type] = int(d.Max)
			for _, v := range d.Vols {
				occ[n.Num][v.Dt]++
			}
		}
	}
	full := 0
	for _, m := range moves {
		if occ[m.to] == nil {
			continue
		}
		if occ[m.to][m.dt] >= max[m.to][m.dt] {
			full++
		}
		occ[m.to][m.dt]++
		occ[m.from][m.dt]--
	}
	return full
}

// ---------- the three runs ----------
func runBalance(s *Snap, colls []string) (string, bool, int) {
	p, locations := shell.VerifC15BalanceLocations(s.topo(), sizeLimit, colls, "")
	okPlan(p, "balance")
	if p.Err != "" {
		panic("balance: unexpected error " + p.Err)
	}
	var steps []string
	var moves []mv
	defer func() { lastFullTargets = fullTargets(s, moves) }()
	for _, l := range lines(p.Text) {
		m := reMove.FindStringSubmatch(l)
		if m == nil {
			panic(fmt.Sprintf("balance: unknown plan line %q", l))
		}
		moves = append(moves, mv{m[1], int(nodeNum(m[4])), int(nodeNum(m[5]))})
		steps = append(steps, fmt.Sprintf("Move %s %s %s %s", hx.N(u(m[3])), hx.N(dtNum(m[1])), hx.N(nodeNum(m[4])), hx.N(nodeNum(m[5]))))
	}
	var cs []string
	for _, c := range colls {
		if c == "ALL_COLLECTIONS" {
			cs = append(cs, "None")
		} else {
			cs = append(cs, hx.Some(hx.N(collNum(c))))
		}
	}
	var dts []string
	for _, d := range p.DiskTypes {
		dts = append(dts, hx.N(dtNum(d)))
	}
	vids := []int{}
	for vid := range p.Replicas {
		vids = append(vids, int(vid))
	}
	sort.Ints(vids)
	var obs []string
	for _, vid := range vids {
		// the planner's bookkeeping: data center, rack and server of every replica
		ls := []string{}
		for _, l := range locations[uint32(vid)] {
			ls = append(ls, coqLoc(nameNum(l.Dc, "dc"), nameNum(l.Rack, "r"), int(nodeNum(l.Node))))
		}
		obs = append(obs, hx.Pair(hx.N(uint64(vid)), hx.List(ls)))
	}
	return fmt.Sprintf("RBalance %s %s %s %s %s", hx.N(sizeLimit), hx.List(cs), hx.List(dts), hx.List(steps), hx.List(obs)), len(steps) > 0, len(steps)
}

func runEvac(s *Snap, node int, skip bool) (string, bool, int) {
	p := shell.VerifC15Evacuate(s.topo(), nodeName(node), skip)
	okPlan(p, "evacuate")
	var evs []string
	moves := 0
	var mvs []mv
	defer func() { lastFullTargets = fullTargets(s, mvs) }()
	for _, l := range lines(p.Text) {
		if m := reMove.FindStringSubmatch(l); m != nil {
			if nodeNum(m[4]) != uint64(node) {
				panic("evacuate: move from another node: " + l)
			}
			mvs = append(mvs, mv{m[1], node, int(nodeNum(m[5]))})
			evs = append(evs, fmt.Sprintf("EMove %s %s %s", hx.N(u(m[3])), hx.N(dtNum(m[1])), hx.N(nodeNum(m[5]))))
			moves++
		} else if m := reSkip.FindStringSubmatch(l); m != nil {
			evs = append(evs, "ESkip "+hx.N(u(m[1])))
		} else {
			panic(fmt.Sprintf("evacuate: unknown plan line %q", l))
		}
	}
	notFound := false
	if p.Err != "" {
		if m := reNotFound.FindStringSubmatch(p.Err); m != nil && nodeNum(m[1]) == uint64(node) {
			notFound = true
		} else {
			m := reFailErr.FindStringSubmatch(p.Err)
			if m == nil || nodeNum(m[2]) != uint64(node) {
				panic("evacuate: unexpected error " + p.Err)
			}
			evs = append(evs, "EFail "+hx.N(u(m[1])))
		}
	}
	return fmt.Sprintf("REvac %s %s %s %s", hx.N(uint64(node)), hx.Bool(skip), hx.Bool(notFound), hx.List(evs)), moves > 0, moves
}

func runFix(s *Snap, retry int) (string, bool, int) {
	topo := s.topo()
	p := shell.VerifC15FixReplication(topo, retry)
	okPlan(p, "fix.replication")
	if p.Err != "" {
		panic("fix.replication: unexpected error " + p.Err)
	}
	var evs []string
	acts := 0
	for _, l := range lines(p.Text) {
		if m := reOver.FindStringSubmatch(l); m != nil {
			evs = append(evs, "FOver "+hx.N(u(m[1])))
		} else if m := reDelete.FindStringSubmatch(l); m != nil {
			evs = append(evs, fmt.Sprintf("FDelete %s %s", hx.N(u(m[1])), hx.N(nodeNum(m[2]))))
			acts++
		} else if m := reCopy.FindStringSubmatch(l); m != nil {
			evs = append(evs, fmt.Sprintf("FCopy %s %s %s", hx.N(u(m[1])), hx.N(nodeNum(m[3])), hx.N(nodeNum(m[4]))))
			acts++
		} else if m := reNoPlace.FindStringSubmatch(l); m != nil {
			evs = append(evs, "FNoPlace "+hx.N(u(m[1])))
		} else {
			panic(fmt.Sprintf("fix.replication: unknown plan line %q", l))
		}
	}
	// final state: VolumeCount of every disk (the planner counts its planned copies there) and
	// the replica bookkeeping (server ids per volume, in bookkeeping order)
	var counts []string
	for _, dc := range topo.DataCenterInfos {
		for _, rk := range dc.RackInfos {
			for _, dn := range rk.DataNodeInfos {
				var dts []string
				for dt := range dn.DiskInfos {
					dts = append(dts, dt)
				}
				sort.Strings(dts)
				for _, dt := range dts {
					counts = append(counts, fmt.Sprintf("(%s, %s, %s)", hx.N(nodeNum(dn.Id)), hx.N(dtNum(dt)), hx.Z(int64(dn.DiskInfos[dt].VolumeCount))))
				}
			}
		}
	}
	vids := []int{}
	for vid := range p.Replicas {
		vids = append(vids, int(vid))
	}
	sort.Ints(vids)
	var reps []string
	for _, vid := range vids {
		var ns []uint64
		for _, n := range p.Replicas[uint32(vid)] {
			ns = append(ns, nodeNum(n))
		}
		reps = append(reps, hx.Pair(hx.N(uint64(vid)), hx.NList(ns)))
	}
	return fmt.Sprintf("RFix %s %s %s %s", hx.Nat(retry), hx.List(evs), hx.List(counts), hx.List(reps)), acts > 0, acts
}

// ---------- the EC half of volumeServer.evacuate ----------
type EcVol struct {
	Id   uint32
	Bits uint32
}
type EcNode struct {
	Num         int
	Max, Active uint64
	Vols        []EcVol
}

var (
	reEcMove  = regexp.MustCompile(`^moving ec volume ([0-9]+)\.([0-9]+) (n[0-9]+) => (n[0-9]+)$`)
	reEcStuck = regexp.MustCompile(`^failed to move away ec volume ([0-9]+) from (n[0-9]+)$`)
)

func shardIds(bits uint32) (ids []uint64) {
	for i := 0; i < 14; i++ {
		if bits&(1<<uint(i)) != 0 {
			ids = append(ids, uint64(i))
		}
	}
	return
}

func runEvacEc(nodes []*EcNode, node int, skip bool) (string, string, bool, int) {
	topo := &master_pb.TopologyInfo{Id: "topo"}
	rack := &master_pb.RackInfo{Id: "r1"}
	topo.DataCenterInfos = []*master_pb.DataCenterInfo{{Id: "dc1", RackInfos: []*master_pb.RackInfo{rack}}}
	var canon strings.Builder
	for _, n := range nodes {
		di := &master_pb.DiskInfo{Type: "", MaxVolumeCount: n.Max, ActiveVolumeCount: n.Active}
		fmt.Fprintf(&canon, "%d:%d/%d", n.Num, n.Max, n.Active)
		for _, v := range n.Vols {
			di.EcShardInfos = append(di.EcShardInfos, &master_pb.VolumeEcShardInformationMessage{Id: v.Id, EcIndexBits: v.Bits})
			fmt.Fprintf(&canon, " %d.%x", v.Id, v.Bits)
		}
		canon.WriteString(";")
		rack.DataNodeInfos = append(rack.DataNodeInfos, &master_pb.DataNodeInfo{Id: nodeName(n.Num), DiskInfos: map[string]*master_pb.DiskInfo{"": di}})
	}
	p, free := shell.VerifC15EvacuateEc(topo, nodeName(node), skip)
	okPlan(p, "evacuate (ec)")
	var evs []string
	moves := 0
	for _, l := range lines(p.Text) {
		if m := reEcMove.FindStringSubmatch(l); m != nil {
			if nodeNum(m[3]) != uint64(node) {
				panic("evacuate (ec): move from another node: " + l)
			}
			evs = append(evs, fmt.Sprintf("EcMove %s %s %s", hx.N(u(m[1])), hx.N(u(m[2])), hx.N(nodeNum(m[4]))))
			moves++
		} else if m := reEcStuck.FindStringSubmatch(l); m != nil {
			evs = append(evs, "EcStuck "+hx.N(u(m[1])))
		} else {
			panic(fmt.Sprintf("evacuate (ec): unknown plan line %q", l))
		}
	}
	notFound := false
	if p.Err != "" {
		e := strings.TrimSuffix(p.Err, "\n")
		if m := reNotFound.FindStringSubmatch(e); m != nil && nodeNum(m[1]) == uint64(node) {
			notFound = true
		} else if m := reEcStuck.FindStringSubmatch(e); m != nil && nodeNum(m[2]) == uint64(node) {
			evs = append(evs, "EcFail "+hx.N(u(m[1])))
		} else {
			panic("evacuate (ec): unexpected error " + p.Err)
		}
	}
	// the model's servers: free EC slots as the real collectEcVolumeServersByDc computed them,
	// beside the raw MaxVolumeCount / ActiveVolumeCount they must follow from
	var es, raw []string
	for _, n := range nodes {
		var vs []string
		for _, v := range n.Vols {
			vs = append(vs, hx.Pair(hx.N(uint64(v.Id)), hx.NList(shardIds(v.Bits))))
		}
		f, ok := free[nodeName(n.Num)]
		if !ok {
			panic("evacuate (ec): no free slot count for " + nodeName(n.Num))
		}
		es = append(es, fmt.Sprintf("{| e_id := %s; e_free := %s; e_vols := %s |}", hx.N(uint64(n.Num)), hx.Z(int64(f)), hx.List(vs)))
		raw = append(raw, fmt.Sprintf("(%s, %s, %s)", hx.N(uint64(n.Num)), hx.Z(int64(n.Max)), hx.Z(int64(n.Active))))
	}
	return fmt.Sprintf("REvacEc %s %s %s %s %s %s", hx.List(es), hx.List(raw), hx.N(uint64(node)), hx.Bool(skip), hx.Bool(notFound), hx.List(evs)),
		canon.String(), moves > 0, moves
}

// EC volumes 1..3, each shard id on at most one server; few volume slots so that free EC slots run out
func genEcNodes(r *hx.Rng) []*EcNode {
	nn := r.PickInt([]int{1, 2, 2, 3, 3, 3, 4, 5})
	var nodes []*EcNode
	for i := 1; i <= nn; i++ {
		n := &EcNode{Num: i, Max: uint64(r.Range(1, 3))}
		n.Active = uint64(r.Range(0, int(n.Max)))
		if r.Chance(1, 12) {
			n.Active = n.Max + 1 // more volumes than MaxVolumeCount (the limit was lowered)
		}
		nodes = append(nodes, n)
	}
	nvol := r.Range(1, 3)
	for id := 1; id <= nvol; id++ {
		bits := make([]uint32, nn)
		for sh := 0; sh < 14; sh++ {
			if r.Chance(2, 3) {
				k := r.Intn(nn)
				if r.Chance(1, 2) {
					k = r.Intn((nn + 1) / 2) // skewed: the first servers hold more
				}
				bits[k] |= 1 << uint(sh)
			}
		}
		for i, n := range nodes {
			if bits[i] != 0 || r.Chance(1, 25) { // rarely an entry without any shard
				n.Vols = append(n.Vols, EcVol{Id: uint32(id), Bits: bits[i]})
			}
		}
	}
	return nodes
}

// ---------- generators ----------
var rpChoices = []uint32{0, 1, 10, 100, 11, 110, 200, 2}

// rarer settings: z = 2 together with x or y, three levels at once
var rpRare = []uint32{20, 101, 12, 102, 111, 21, 201}

var dtNames = []string{"", "ssd", "nvme"}

func rpDigits(b uint32) (x, y, z int) { return int(b / 100), int(b / 10 % 10), int(b % 10) }

// dense: few servers, many volumes, placement biased to the first servers (so that
// the balancer has something to do and servers fill up)
func genSnap(r *hx.Rng, dense bool) *Snap {
	s := &Snap{}
	ndc := r.Range(2, 3)
	hiR, hiN := 3, 3
	if dense {
		ndc, hiR, hiN = r.Range(1, 2), 2, 2
	}
	nDts := r.PickInt([]int{1, 1, 2, 2, 2, 3})
	twoDts := nDts > 1
	num := 0
	for d := 1; d <= ndc; d++ {
		nr := r.Range(1, hiR)
		for k := 1; k <= nr; k++ {
			nn := r.Range(1, hiN)
			for j := 0; j < nn; j++ {
				num++
				n := &Node{Dc: d, Rack: k, Num: num}
				for t := 0; t < nDts; t++ {
					if nDts == 1 || r.Chance(3, 4) {
						n.Disks = append(n.Disks, &Disk{Type: dtNames[t], Max: uint64(r.Range(2, 8))})
					}
				}
				if len(n.Disks) == 0 {
					n.Disks = []*Disk{{Type: "", Max: uint64(r.Range(2, 8))}}
				}
				for _, d := range n.Disks {
					// slots the master counts although the snapshot lists no volume for them
					if r.Chance(1, 8) {
						d.Extra = uint64(r.Range(1, 2))
					}
				}
				s.Nodes = append(s.Nodes, n)
			}
		}
	}
	colls := []string{"c1"}
	switch r.Intn(3) {
	case 0:
		colls = []string{"", "c1"}
	case 1:
		colls = []string{"c1", "c2"}
	}
	nvol := r.Range(3, 10)
	if dense {
		nvol = r.Range(5, 3*len(s.Nodes)+4)
	}
	skew := dense && r.Chance(1, 2)
	for id := 1; id <= nvol; id++ {
		v := Vol{Id: uint32(id), Coll: r.PickStr(colls), Rp: rpChoices[r.Intn(len(rpChoices))]}
		if skew && r.Chance(3, 5) {
			v.Rp = 0
		}
		if r.Chance(1, 8) {
			v.Rp = rpRare[r.Intn(len(rpRare))]
		}
		if r.Chance(1, 25) {
			v.Rp = 120
		}
		if twoDts && r.Chance(1, 2) {
			v.Dt = dtNames[r.Range(1, nDts-1)]
		}
		v.Size = uint64(r.PickInt([]int{0, 10, 10, 20, 300, 300, 999, 1000, 1200}))
		v.Ro = r.Chance(1, 5)
		v.Mtime = int64(r.Range(1, 4))
		v.Crev = uint32(r.Range(0, 1))
		// candidate nodes: have the disk type
		var cand []*Node
		for _, n := range s.Nodes {
			if n.disk(v.Dt) != nil {
				cand = append(cand, n)
			}
		}
		x, y, z := rpDigits(v.Rp)
		var chosen []*Node
		has := func(n *Node) bool {
			for _, c := range chosen {
				if c == n {
					return true
				}
			}
			return false
		}
		pick := func(f func(n *Node) bool) *Node {
			var ok []*Node
			for _, n := range cand {
				if !has(n) && f(n) {
					ok = append(ok, n)
				}
			}
			if len(ok) == 0 {
				return nil
			}
			if skew && r.Chance(3, 4) {
				return ok[0]
			}
			if dense && r.Chance(2, 3) {
				return ok[r.Intn((len(ok)+1)/2)]
			}
			return ok[r.Intn(len(ok))]
		}
		mode := r.Intn(10) // 0-4 valid, 5-6 under, 7 over, 8-9 misplaced
		if mode >= 8 {
			for i := 0; i < x+y+z+1; i++ {
				if n := pick(func(*Node) bool { return true }); n != nil {
					chosen = append(chosen, n)
				}
			}
		} else {
			// constructive valid layout (as far as the topology allows)
			first := pick(func(*Node) bool { return true })
			if first != nil {
				chosen = append(chosen, first)
				for i := 0; i < z; i++ {
					if n := pick(func(n *Node) bool { return n.Dc == first.Dc && n.Rack == first.Rack }); n != nil {
						chosen = append(chosen, n)
					}
				}
				usedRacks := map[int]bool{first.Rack: true}
				for i := 0; i < y; i++ {
					if n := pick(func(n *Node) bool { return n.Dc == first.Dc && !usedRacks[n.Rack] }); n != nil {
						chosen = append(chosen, n)
						usedRacks[n.Rack] = true
					}
				}
				usedDcs := map[int]bool{first.Dc: true}
				for i := 0; i < x; i++ {
					if n := pick(func(n *Node) bool { return !usedDcs[n.Dc] }); n != nil {
						chosen = append(chosen, n)
						usedDcs[n.Dc] = true
					}
				}
			}
			if mode == 5 || mode == 6 {
				drop := 1
				if len(chosen) > 2 && r.Chance(1, 3) {
					drop = 2
				}
				for i := 0; i < drop && len(chosen) > 1; i++ {
					k := r.Intn(len(chosen))
					chosen = append(chosen[:k], chosen[k+1:]...)
				}
			}
			if mode == 7 {
				if n := pick(func(*Node) bool { return true }); n != nil {
					chosen = append(chosen, n)
				}
			}
		}
		perReplicaState := r.Chance(1, 6)
		// replicas that disagree about the volume itself (replication setting, collection, disk type)
		perReplicaKind := r.Chance(1, 10)
		for _, n := range chosen {
			w := v
			if perReplicaState {
				w.Ro = r.Chance(1, 2)
				w.Mtime = int64(r.Range(1, 4))
				w.Size = uint64(r.PickInt([]int{10, 20, 300, 999}))
			}
			if perReplicaKind {
				if r.Chance(1, 2) {
					w.Rp = rpChoices[r.Intn(len(rpChoices))]
				}
				if r.Chance(1, 3) {
					w.Coll = r.PickStr(colls)
				}
				if r.Chance(1, 3) {
					w.Dt = n.Disks[r.Intn(len(n.Disks))].Type
				}
			}
			d := n.disk(w.Dt)
			if d.count() >= d.Max {
				continue // full: this replica is missing
			}
			d.Vols = append(d.Vols, w)
		}
	}
	// a MaxVolumeCount below the number of volumes (the limit was lowered after the disk filled up)
	for _, n := range s.Nodes {
		for _, d := range n.Disks {
			if len(d.Vols) >= 2 && r.Chance(1, 10) {
				d.Max = uint64(len(d.Vols) - r.Range(1, len(d.Vols)-1))
			}
		}
	}
	return s
}

// genCrowdedSnap: the servers the balancer would like to fill are full of volumes OUTSIDE the
// selection (read-only, or of another collection), the source servers hold small writable
// volumes of collection c1 (finding 0: those slots are not counted).
func genCrowdedSnap(r *hx.Rng) (*Snap, []string) {
	s := &Snap{}
	nsrc, ntgt := r.Range(1, 2), r.Range(1, 3)
	num := 0
	id := uint32(0)
	otherColl := r.Chance(1, 2) // targets full of another collection instead of read-only volumes
	for i := 0; i < nsrc+ntgt; i++ {
		num++
		n := &Node{Dc: 1, Rack: 1 + i%2, Num: num, Disks: []*Disk{{Type: "", Max: uint64(r.Range(2, 5))}}}
		d := n.Disks[0]
		if i < nsrc {
			k := r.Range(2, int(d.Max))
			for j := 0; j < k; j++ {
				id++
				d.Vols = append(d.Vols, Vol{Id: id, Coll: "c1", Size: uint64(r.PickInt([]int{10, 20, 300})), Mtime: 1})
			}
		} else {
			k := int(d.Max) - r.PickInt([]int{0, 0, 0, 1})
			for j := 0; j < k; j++ {
				id++
				v := Vol{Id: id, Coll: "c1", Size: uint64(r.PickInt([]int{10, 999, 1200})), Ro: true, Mtime: 1}
				if otherColl {
					v = Vol{Id: id, Coll: "c2", Size: 10, Mtime: 1}
				}
				d.Vols = append(d.Vols, v)
			}
		}
		s.Nodes = append(s.Nodes, n)
	}
	sort.SliceStable(s.Nodes, func(i, j int) bool { return s.Nodes[i].Rack < s.Nodes[j].Rack })
	if otherColl {
		return s, []string{"c1"}
	}
	return s, []string{"ALL_COLLECTIONS"}
}

// genSpreadSnap: replicated volumes spread over FULL source servers on several racks / data
// centers, empty servers concentrated on one rack: the balancer has to move several
// replicas of the same volume in one run, so every later move is decided on the
// bookkeeping left by the earlier ones.
func genSpreadSnap(r *hx.Rng) *Snap {
	s := &Snap{}
	ndc := r.Range(1, 2)
	num := 0
	var sources []*Node
	for d := 1; d <= ndc; d++ {
		nr := r.Range(2, 3)
		if ndc == 2 {
			nr = r.Range(1, 2)
		}
		for k := 1; k <= nr; k++ {
			nn := 1
			if r.Chance(1, 4) {
				nn = 2
			}
			for j := 0; j < nn; j++ {
				num++
				n := &Node{Dc: d, Rack: k, Num: num, Disks: []*Disk{{Type: ""}}}
				s.Nodes = append(s.Nodes, n)
				sources = append(sources, n)
			}
		}
	}
	// the empty servers: new racks of the existing data centers or a new data center.  Two times
	// out of three every empty server gets its own rack (several replicas of one volume can move
	// in one run, each later move decided on the bookkeeping left by the earlier ones), otherwise
	// they share one rack (the second replica of a 0y0 volume must then be refused).
	nempty := r.Range(2, 3)
	ownRack := r.Chance(2, 3)
	edc := r.Range(1, ndc)
	newDc := r.Chance(1, 5)
	var empties []*Node
	for j := 0; j < nempty; j++ {
		num++
		dc, rack := edc, 4
		if ownRack {
			rack = 4 + j
			if r.Chance(1, 3) {
				dc = r.Range(1, ndc)
			}
		}
		if newDc && (j == 0 || !ownRack || r.Chance(1, 2)) {
			dc = ndc + 1
			if ownRack {
				rack = 1 + j
			} else {
				rack = 1
			}
		}
		empties = append(empties, &Node{Dc: dc, Rack: rack, Num: num, Disks: []*Disk{{Type: "", Max: uint64(r.Range(3, 6))}}})
	}
	// keep eachDataNode order: nodes grouped by dc, then rack
	s.Nodes = append(s.Nodes, empties...)
	sort.SliceStable(s.Nodes, func(i, j int) bool {
		if s.Nodes[i].Dc != s.Nodes[j].Dc {
			return s.Nodes[i].Dc < s.Nodes[j].Dc
		}
		return s.Nodes[i].Rack < s.Nodes[j].Rack
	})
	// replicated volumes (small: tried first by the writable pass), valid layouts on the sources
	var rps []uint32
	if ndc == 1 {
		rps = []uint32{10, 10, 20, 11}
	} else {
		rps = []uint32{100, 100, 110, 10}
	}
	nrep := r.Range(1, 3)
	id := uint32(0)
	for i := 0; i < nrep; i++ {
		id++
		v := Vol{Id: id, Rp: rps[r.Intn(len(rps))], Size: uint64(10 * (i + 1)), Mtime: 1}
		x, y, z := rpDigits(v.Rp)
		var chosen []*Node
		has := func(n *Node) bool {
			for _, c := range chosen {
				if c == n {
					return true
				}
			}
			return false
		}
		pick := func(f func(n *Node) bool) *Node {
			var ok []*Node
			for _, n := range sources {
				if !has(n) && f(n) {
					ok = append(ok, n)
				}
			}
			if len(ok) == 0 {
				return nil
			}
			return ok[r.Intn(len(ok))]
		}
		first := pick(func(*Node) bool { return true })
		chosen = append(chosen, first)
		for k := 0; k < z; k++ {
			if n := pick(func(n *Node) bool { return n.Dc == first.Dc && n.Rack == first.Rack }); n != nil {
				chosen = append(chosen, n)
			}
		}
		usedRacks := map[int]bool{first.Rack: true}
		for k := 0; k < y; k++ {
			if n := pick(func(n *Node) bool { return n.Dc == first.Dc && !usedRacks[n.Rack] }); n != nil {
				chosen = append(chosen, n)
				usedRacks[n.Rack] = true
			}
		}
		usedDcs := map[int]bool{first.Dc: true}
		for k := 0; k < x; k++ {
			if n := pick(func(n *Node) bool { return !usedDcs[n.Dc] }); n != nil {
				chosen = append(chosen, n)
				usedDcs[n.Dc] = true
			}
		}
		for _, n := range chosen {
			n.Disks[0].Vols = append(n.Disks[0].Vols, v)
		}
	}
	// fillers (larger, replication 000) so that every source server is full
	for _, n := range sources {
		want := r.Range(2, 3)
		for len(n.Disks[0].Vols) < want {
			id++
			n.Disks[0].Vols = append(n.Disks[0].Vols, Vol{Id: id, Size: uint64(r.PickInt([]int{300, 500, 999})), Mtime: 1})
		}
		n.Disks[0].Max = uint64(len(n.Disks[0].Vols))
		if r.Chance(1, 4) {
			n.Disks[0].Max++
		}
	}
	return s
}

// a small universe of locations for the function-level cases
func genLoc(r *hx.Rng) (shell.VerifC15Loc, string) {
	dc, rack := r.Range(1, 3), r.Range(1, 3)
	node := (dc-1)*9 + (rack-1)*3 + r.Range(1, 3)
	return shell.VerifC15Loc{Dc: dcName(dc), Rack: rackName(rack), Node: nodeName(node)}, coqLoc(dc, rack, node)
}

func mkCase(s *Snap, run string) string {
	return fmt.Sprintf("{| c_snap := %s; c_run := %s |}", s.coq(), run)
}

func vol(id uint32, rp uint32, size uint64) Vol { return Vol{Id: id, Rp: rp, Size: size, Mtime: 1} }

func witnesses(out *hx.Out) {
	mk := func(dc, rack, num int, max uint64, vs ...Vol) *Node {
		return &Node{Dc: dc, Rack: rack, Num: num, Disks: []*Disk{{Type: "", Max: max, Vols: vs}}}
	}
	ro := func(v Vol) Vol { v.Ro = true; return v }
	// k=0: balance moves a writable volume to a server whose two slots hold read-only volumes
	s := &Snap{Nodes: []*Node{mk(1, 1, 1, 2, vol(1, 0, 10), vol(2, 0, 20)), mk(1, 1, 2, 2, ro(vol(3, 0, 10)), ro(vol(4, 0, 10)))}}
	t, nt, _ := runBalance(s, []string{"ALL_COLLECTIONS"})
	out.Add(mkCase(s, t), "w0|"+s.canon(), nt, "witness")
	// k=1: evacuate moves to a full server
	s = &Snap{Nodes: []*Node{mk(1, 1, 1, 2, vol(1, 0, 10)), mk(1, 1, 2, 1, vol(3, 0, 10))}}
	t, nt, _ = runEvac(s, 1, true)
	out.Add(mkCase(s, t), "w1|"+s.canon(), nt, "witness")
	// repaired (was finding 2), now code 0: two volumes to repair, one free slot on n2
	s = &Snap{Nodes: []*Node{mk(1, 1, 1, 4, vol(1, 1, 10), vol(2, 1, 10)), mk(1, 1, 2, 3, vol(3, 0, 10), vol(4, 0, 10))}}
	t, nt, _ = runFix(s, 0)
	out.Add(mkCase(s, t), "w2|"+s.canon(), nt, "witness")
	// repaired (was finding 3), now code 0: -retry 1 used to repeat the successful repair
	s = &Snap{Nodes: []*Node{mk(1, 1, 1, 4, vol(1, 1, 10)), mk(1, 1, 2, 4), mk(1, 1, 3, 4)}}
	t, nt, _ = runFix(s, 1)
	out.Add(mkCase(s, t), "w3|"+s.canon(), nt, "witness")
	// repaired (was finding 4), now code 0: a 000 volume with a writable copy on n1 and a read-only copy on n2
	s = &Snap{Nodes: []*Node{mk(1, 1, 1, 4, vol(1, 0, 10), vol(2, 0, 10)), mk(1, 1, 2, 4, ro(vol(1, 0, 10)))}}
	t, nt, _ = runBalance(s, []string{"ALL_COLLECTIONS"})
	out.Add(mkCase(s, t), "w4|"+s.canon(), nt, "witness")
	// k=2: replication 120 laid out 3 racks + 1; evacuating n3 makes it 2 + 2
	s = &Snap{Nodes: []*Node{mk(1, 1, 1, 4, vol(1, 120, 10)), mk(1, 2, 2, 4, vol(1, 120, 10)), mk(1, 3, 3, 4, vol(1, 120, 10)),
		mk(2, 1, 4, 4, vol(1, 120, 10)), mk(2, 2, 5, 4)}}
	t, nt, _ = runEvac(s, 3, true)
	out.Add(mkCase(s, t), "w5|"+s.canon(), nt, "witness")
	// k=3: over-replicated 010 volume on n1 (r1), n2 (r1), n3 (r2); n3 is the oldest copy and is purged,
	// the two copies left share rack r1 although {n1, n3} and {n2, n3} were valid layouts
	mt := func(v Vol, m int64) Vol { v.Mtime = m; return v }
	s = &Snap{Nodes: []*Node{mk(1, 1, 1, 4, mt(vol(1, 10, 10), 2)), mk(1, 1, 2, 4, mt(vol(1, 10, 10), 2)), mk(1, 2, 3, 4, mt(vol(1, 10, 10), 1))}}
	t, nt, _ = runFix(s, 0)
	out.Add(mkCase(s, t), "w6|"+s.canon(), nt, "witness")
	// one volume moved twice in one run: 010 volume 1 on the full servers n1 (r1), n2 (r2); n3 (r3), n4 (r4) empty
	s = &Snap{Nodes: []*Node{mk(1, 1, 1, 2, vol(1, 10, 10), vol(11, 0, 500)), mk(1, 2, 2, 2, vol(1, 10, 10), vol(21, 0, 500)),
		mk(1, 3, 3, 4), mk(1, 4, 4, 4)}}
	t, nt, n := runBalance(s, []string{"ALL_COLLECTIONS"})
	if n != 2 || maxMovesOfOneVolume(t) != 2 {
		// not fatal for the check (the case is judged in Coq), but the witness no longer shows two moves of one volume
		out.Count("witness:two-moves-lost", 1)
	}
	out.Add(mkCase(s, t), "w7|"+s.canon(), nt, "witness")
	// the same with n3 and n4 on ONE rack: the second copy of volume 1 must stay, a 000 volume goes instead
	s = &Snap{Nodes: []*Node{mk(1, 1, 1, 2, vol(1, 10, 10), vol(11, 0, 500)), mk(1, 2, 2, 2, vol(1, 10, 10), vol(21, 0, 500)),
		mk(1, 3, 3, 4), mk(1, 3, 4, 4)}}
	t, nt, _ = runBalance(s, []string{"ALL_COLLECTIONS"})
	out.Add(mkCase(s, t), "w8|"+s.canon(), nt, "witness")
	// k=4: evacuating n1 sends all three shards of EC volume 7 to n2 (fewest shards of volume 7),
	// which has no free EC slot (its one volume slot is in use); n3 has 18 free slots
	t, c, nt, _ := runEvacEc([]*EcNode{{Num: 1, Max: 1, Vols: []EcVol{{7, 0b111}}}, {Num: 2, Max: 1, Active: 1}, {Num: 3, Max: 2, Vols: []EcVol{{7, 0b11000}}}}, 1, true)
	out.Add(mkCase(&Snap{}, t), "w9|"+c, nt, "witness")
}

// movesOfOneVolume: the largest number of moves of one volume id in a balance plan term
var reMoveTerm = regexp.MustCompile(`Move ([0-9]+)%N`)

func maxMovesOfOneVolume(term string) int {
	cnt := map[string]int{}
	best := 0
	for _, m := range reMoveTerm.FindAllStringSubmatch(term, -1) {
		cnt[m[1]]++
		if cnt[m[1]] > best {
			best = cnt[m[1]]
		}
	}
	return best
}

// a valid layout for replication b inside the 27-server universe of the function-level cases
// (3 data centers x 3 racks x 3 servers); nil when b asks for more than the universe has
func genValidReps(r *hx.Rng, b uint32) ([]shell.VerifC15Loc, []string) {
	x, y, z := rpDigits(b)
	if x > 2 || y > 2 || z > 2 {
		return nil, nil
	}
	var reps []shell.VerifC15Loc
	var creps []string
	add := func(dc, rack, k int) {
		node := (dc-1)*9 + (rack-1)*3 + k
		reps = append(reps, shell.VerifC15Loc{Dc: dcName(dc), Rack: rackName(rack), Node: nodeName(node)})
		creps = append(creps, coqLoc(dc, rack, node))
	}
	dcs := []int{1, 2, 3}
	racks := []int{1, 2, 3}
	for i := 2; i > 0; i-- {
		j := r.Intn(i + 1)
		dcs[i], dcs[j] = dcs[j], dcs[i]
		j = r.Intn(i + 1)
		racks[i], racks[j] = racks[j], racks[i]
	}
	for k := 1; k <= z+1; k++ {
		add(dcs[0], racks[0], k)
	}
	for i := 1; i <= y; i++ {
		add(dcs[0], racks[i], r.Range(1, 3))
	}
	for i := 1; i <= x; i++ {
		add(dcs[i], r.Range(1, 3), r.Range(1, 3))
	}
	return reps, creps
}

func main() {
	out := hx.Flags("C15", 300)
	out.Rule = "random snapshots (2-3 DCs x 1-3 racks x 1-3 servers, 1-3 disk types, 2-8 slots per disk, VolumeCount sometimes above the listed volumes, MaxVolumeCount sometimes below them, 3-10 volumes, replication in {000,001,010,100,011,110,200,002} + rarer {020,101,012,102,111,021,201,120}, replica sets valid/under/over/misplaced, per-replica read-only/size/mtime, sometimes per-replica replication/collection/disk type, 1-2 collections) plus two balance families: 'spread' (replicated 010/020/011/100/110 volumes on FULL servers of several racks/data centers, 2-3 empty servers on their own racks (2/3) or on one rack (1/3), sometimes in a new data center: several replicas of one volume move in one run / the second move must be refused) and 'crowded' (target servers full of read-only or other-collection volumes: finding 0); fed to the real balance (ALL/EACH/one collection; the planner's final replica bookkeeping incl. data center and rack is compared with the model's), evacuate (random server, 1/15 a server not in the cluster, skipNonMoveable on/off) and fix.replication (-retry 0..2; VolumeCount of every disk and the replica lists afterwards are compared) planners in dry-run; plus direct isGoodMove/satisfyReplicaPlacement/NewReplicaPlacementFromByte calls over a 27-server universe (half of them starting from a valid layout); plus the EC half of evacuate (1-5 servers on one rack, 1-3 volume slots, EC volumes 1..3 with each shard id on at most one server, rarely an entry without shards or ActiveVolumeCount above MaxVolumeCount; free EC slots as the real collectEcVolumeServersByDc computes them); the first 10 cases are deterministic: witnesses of the five known findings (cases 0, 1, 5, 6, 9), of the three repaired defects (cases 2, 3, 4, now ok), one volume moved twice in one run (case 7) and the refused second move (case 8); non-trivial = the plan has at least one step (function cases: result true); distinct = canonical snapshot + run parameters"
	witnesses(out)
	// consecutive seeds of hx.NewRng give shifted copies of one stream: mix the seed first
	root := hx.NewRng(hx.NewRng(out.Seed).Next())
	for out.Len() < out.N {
		r := root.Fork()
		k := r.Intn(20)
		switch {
		case k < 7:
			s := genSnap(r, r.Chance(3, 4))
			fam := r.Intn(12) // 0-3 spread, 4-5 crowded, else general
			spread := fam < 4
			if spread {
				s = genSpreadSnap(r)
				out.Count("balance:spread", 1)
			}
			var colls []string
			mode := r.Intn(3)
			if spread {
				mode = r.Intn(2)
			}
			if fam == 4 || fam == 5 {
				s, colls = genCrowdedSnap(r)
				out.Count("balance:crowded", 1)
				mode = 3
			}
			switch mode {
			case 3:
			case 0:
				colls = []string{"ALL_COLLECTIONS"}
			case 1: // EACH_COLLECTION: the collection names present, sorted
				seen := map[string]bool{}
				for _, n := range s.Nodes {
					for _, d := range n.Disks {
						for _, v := range d.Vols {
							seen[v.Coll] = true
						}
					}
				}
				for c := range seen {
					colls = append(colls, c)
				}
				sort.Strings(colls)
			default:
				colls = []string{r.PickStr([]string{"", "c1", "c2"})}
			}
			t, nt, n := runBalance(s, colls)
			out.Count("balance:moves", n)
			out.Count(fmt.Sprintf("balance:mode%d", mode), 1)
			if m := maxMovesOfOneVolume(t); m >= 2 {
				out.Count("balance:runs-moving-one-volume-twice", 1)
				if spread {
					out.Count("balance:spread-runs-moving-one-volume-twice", 1)
				}
			}
			out.Count("balance:moves-to-a-full-server", lastFullTargets)
			if nt && lastFullTargets == 0 {
				out.Count("balance:runs-with-moves-all-to-free-slots", 1)
			} else if nt {
				out.Count("balance:runs-with-a-move-to-a-full-server", 1)
			}
			out.Add(mkCase(s, t), "B|"+strings.Join(colls, ",")+"|"+s.canon(), nt, "balance")
		case k == 7:
			nodes := genEcNodes(r)
			node := nodes[r.Intn(len(nodes))].Num
			if r.Chance(1, 15) {
				node = len(nodes) + r.Range(1, 3)
				out.Count("evacuate-ec:unknown-server", 1)
			}
			skip := r.Chance(2, 3)
			t, c, nt, n := runEvacEc(nodes, node, skip)
			out.Count("evacuate-ec:shard-moves", n)
			out.Add(mkCase(&Snap{}, t), fmt.Sprintf("EC|%d|%v|%s", node, skip, c), nt, "evacuate-ec")
		case k < 11:
			s := genSnap(r, r.Chance(1, 2))
			node := s.Nodes[r.Intn(len(s.Nodes))].Num
			if r.Chance(1, 15) {
				node = len(s.Nodes) + r.Range(1, 5) // not a server of this cluster
				out.Count("evacuate:unknown-server", 1)
			}
			skip := r.Chance(2, 3)
			t, nt, n := runEvac(s, node, skip)
			out.Count("evacuate:moves", n)
			out.Count("evacuate:moves-to-a-full-server", lastFullTargets)
			if nt && lastFullTargets == 0 {
				out.Count("evacuate:runs-with-moves-all-to-free-slots", 1)
			} else if nt {
				out.Count("evacuate:runs-with-a-move-to-a-full-server", 1)
			}
			out.Add(mkCase(s, t), fmt.Sprintf("E|%d|%v|%s", node, skip, s.canon()), nt, "evacuate")
		case k < 15:
			s := genSnap(r, r.Chance(1, 3))
			retry := r.PickInt([]int{0, 0, 0, 1, 2})
			t, nt, n := runFix(s, retry)
			out.Count("fix:actions", n)
			out.Count(fmt.Sprintf("fix:retry%d", retry), 1)
			out.Add(mkCase(s, t), fmt.Sprintf("F|%d|%s", retry, s.canon()), nt, "fix")
		default:
			b := byte(r.PickInt([]int{0, 1, 2, 10, 11, 20, 100, 101, 110, 111, 120, 200, 210, 220, 30, 130, 255, 3}))
			nrep := r.Range(0, 5)
			var reps []shell.VerifC15Loc
			var creps []string
			for i := 0; i < nrep; i++ {
				l, c := genLoc(r)
				dup := false
				for _, e := range reps {
					if e.Node == l.Node {
						dup = true
					}
				}
				if dup {
					continue
				}
				reps = append(reps, l)
				creps = append(creps, c)
			}
			tgt, ctgt := genLoc(r)
			// half of the time start from a VALID layout for b, so that isGoodMove / satisfy say yes
			// and the placement oracle has something to check
			if r.Chance(1, 2) {
				if vr, vc := genValidReps(r, uint32(b)); vr != nil {
					reps, creps = vr, vc
					if r.Chance(1, 3) && len(reps) > 1 { // one copy missing
						k := r.Intn(len(reps))
						reps = append(append([]shell.VerifC15Loc{}, reps[:k]...), reps[k+1:]...)
						creps = append(append([]string{}, creps[:k]...), creps[k+1:]...)
					}
					out.Count("fn:valid-start", 1)
				}
			}
			empty := &Snap{}
			switch r.Intn(5) {
			case 0:
				x, y, z, c := shell.VerifC15Placement(b)
				out.Add(mkCase(empty, fmt.Sprintf("RPlacement %s %s %s %s %s", hx.N(uint64(b)), hx.Nat(x), hx.Nat(y), hx.Nat(z), hx.Nat(c))),
					fmt.Sprintf("P|%d", b), true, "fn-placement")
			case 1, 2:
				if len(reps) == 0 {
					l, c := genLoc(r)
					reps, creps = append(reps, l), append(creps, c)
				}
				si := r.Intn(len(reps))
				got := shell.VerifC15IsGoodMove(b, reps, reps[si], tgt)
				out.Add(mkCase(empty, fmt.Sprintf("RGoodMove %s %s %s %s %s", hx.N(uint64(b)), hx.List(creps), creps[si], ctgt, hx.Bool(got))),
					fmt.Sprintf("G|%d|%v|%d|%v", b, reps, si, tgt), got, "fn-goodmove")
			default:
				got := shell.VerifC15Satisfy(b, reps, tgt)
				out.Add(mkCase(empty, fmt.Sprintf("RSatisfy %s %s %s %s", hx.N(uint64(b)), hx.List(creps), ctgt, hx.Bool(got))),
					fmt.Sprintf("S|%d|%v|%v", b, reps, tgt), got, "fn-satisfy")
			}
		}
	}
	out.Write()
}
