package main

// Concurrent volume growth: several goroutines run the REAL
// VolumeGrowth.GrowByCountAndType / findAndGrow / Topology.NextVolumeId / grow
// against one real Topology.  The raft server is a fake whose Do() parks every
// MaxVolumeIdCommand until the harness scheduler releases it (so the window
// between NextVolumeId's read of the max volume id and the application of the
// command is as wide as the scheduler wants); the volume servers are in-process
// gRPC endpoints that record every AllocateVolume request.
//
// The scheduler acts only at QUIESCENT points: every live grow goroutine is
// either parked in the fake Do(), or blocked on a mutex (runtime goroutine
// state "sync.Mutex.Lock" - that is how a goroutine waiting for
// VolumeGrowth.accessLock looks), or finished.  What it records is a schedule
// of model/SeqGrow.v steps together with what the implementation showed at each
// step: the proposal (actor, volume id) of every Do(), the volume id that the
// first AllocateVolume request after a released Do() carries (the id handed
// out), heartbeats; at the end every AllocateVolume request, the max volume id
// and the counters returned by GrowByCountAndType.

import (
	"context"
	"errors"
	"net"
	"runtime"
	"sort"
	"strconv"
	"strings"
	"sync"
	"time"

	"github.com/chrislusf/raft"
	"github.com/chrislusf/seaweedfs/weed/pb/master_pb"
	"github.com/chrislusf/seaweedfs/weed/pb/volume_server_pb"
	"github.com/chrislusf/seaweedfs/weed/sequence"
	"github.com/chrislusf/seaweedfs/weed/storage/needle"
	"github.com/chrislusf/seaweedfs/weed/storage/super_block"
	"github.com/chrislusf/seaweedfs/weed/storage/types"
	"github.com/chrislusf/seaweedfs/weed/topology"
	"google.golang.org/grpc"
	"verifharness/hx"
)

// ---------- goroutine identities and states ----------

func curGid() uint64 {
	var b [64]byte
	n := runtime.Stack(b[:], false)
	s := strings.TrimPrefix(string(b[:n]), "goroutine ")
	id, err := strconv.ParseUint(s[:strings.IndexByte(s, ' ')], 10, 64)
	hx.Must(err)
	return id
}

// goroutine id -> wait state ("running", "sync.Mutex.Lock", "chan receive", ...)
func goroutineStates() map[uint64]string {
	buf := make([]byte, 1<<20)
	n := runtime.Stack(buf, true)
	st := map[uint64]string{}
	for _, line := range strings.Split(string(buf[:n]), "\n") {
		if !strings.HasPrefix(line, "goroutine ") {
			continue
		}
		rest := line[len("goroutine "):]
		sp := strings.IndexByte(rest, ' ')
		lb, rb := strings.IndexByte(rest, '['), strings.LastIndexByte(rest, ']')
		if sp < 0 || lb < 0 || rb < lb {
			continue
		}
		id, err := strconv.ParseUint(rest[:sp], 10, 64)
		if err != nil {
			continue
		}
		state := rest[lb+1 : rb]
		if c := strings.IndexByte(state, ','); c >= 0 {
			state = state[:c]
		}
		st[id] = state
	}
	return st
}

func mutexBlocked(state string) bool {
	return strings.HasPrefix(state, "sync.Mutex.Lock") || strings.HasPrefix(state, "sync.RWMutex") || strings.HasPrefix(state, "semacquire")
}

// ---------- fake volume servers (one process-wide pair of gRPC listeners) ----------

type growAlloc struct {
	actor int
	vid   uint32
}

type fakeVolumeServers struct {
	volume_server_pb.UnimplementedVolumeServerServer
	ports []int // http ports of the data nodes (gRPC listener port - 10000)

	mu       sync.Mutex
	allocs   []growAlloc
	failNext map[int]bool
	notify   map[int]chan uint32
}

func (s *fakeVolumeServers) AllocateVolume(ctx context.Context, req *volume_server_pb.AllocateVolumeRequest) (*volume_server_pb.AllocateVolumeResponse, error) {
	a, err := strconv.Atoi(strings.TrimPrefix(req.Collection, "g"))
	if err != nil {
		a = -1
	}
	s.mu.Lock()
	s.allocs = append(s.allocs, growAlloc{a, req.VolumeId})
	fail := s.failNext[a]
	delete(s.failNext, a)
	ch := s.notify[a]
	s.mu.Unlock()
	if ch != nil {
		select {
		case ch <- req.VolumeId:
		default:
		}
	}
	if fail {
		return nil, errors.New("no space left")
	}
	return &volume_server_pb.AllocateVolumeResponse{}, nil
}

func (s *fakeVolumeServers) reset(nact int) {
	s.mu.Lock()
	s.allocs = nil
	s.failNext = map[int]bool{}
	s.notify = map[int]chan uint32{}
	for a := 0; a < nact; a++ {
		s.notify[a] = make(chan uint32, 64)
	}
	s.mu.Unlock()
}

var (
	fvsOnce sync.Once
	fvs     *fakeVolumeServers
)

func volumeServers() *fakeVolumeServers {
	fvsOnce.Do(func() {
		fvs = &fakeVolumeServers{}
		for len(fvs.ports) < 2 {
			lis, err := net.Listen("tcp", "127.0.0.1:0")
			hx.Must(err)
			p := lis.Addr().(*net.TCPAddr).Port
			if p <= 10000 { // the master dials <http port>+10000
				lis.Close()
				continue
			}
			gs := grpc.NewServer()
			volume_server_pb.RegisterVolumeServerServer(gs, fvs)
			go gs.Serve(lis)
			fvs.ports = append(fvs.ports, p-10000)
		}
	})
	return fvs
}

// ---------- fake raft server: every Do() parks until the scheduler releases it ----------

const (
	geReg = iota
	gePark
	geDone
)

const (
	resOk = iota
	resRaftErr
	resAllocErr
)

type growEvent struct {
	kind  int
	actor int
	gid   uint64
	vid   uint32
	reply chan int
	cnt   int
}

type growRaft struct {
	raft.Server // nil: only the methods below are used
	topo        *topology.Topology
	ev          chan growEvent
	mu          sync.Mutex
	actors      map[uint64]int
}

func (f *growRaft) Context() interface{} { return f.topo }
func (f *growRaft) Name() string         { return "fake" }
func (f *growRaft) Leader() string       { return "fake" }
func (f *growRaft) Do(command raft.Command) (interface{}, error) {
	f.mu.Lock()
	a, ok := f.actors[curGid()]
	f.mu.Unlock()
	if !ok {
		a = -1
	}
	vid := uint32(0)
	if c, ok := command.(*topology.MaxVolumeIdCommand); ok {
		vid = uint32(c.MaxVolumeId)
	}
	reply := make(chan int)
	f.ev <- growEvent{kind: gePark, actor: a, vid: vid, reply: reply}
	if r := <-reply; r == resRaftErr {
		return nil, raft.NotLeaderError
	}
	// the raft library applies a committed command through this (deprecated) interface
	return command.(interface {
		Apply(raft.Server) (interface{}, error)
	}).Apply(f)
}

// ---------- one case ----------

type growReq struct {
	n       int
	started bool
	locked  bool // its first proposal has been seen: accessLock.Lock() has returned
	live    bool
	gid     uint64
	parked  *growEvent
	cnt     int
}

type growSched struct {
	topo     *topology.Topology
	fr       *growRaft
	vs       *fakeVolumeServers
	reqs     []*growReq
	steps    []string
	obs      []string
	canon    []string
	timeouts int
	grants   int
}

func (g *growSched) record(step, obs, canon string) {
	g.steps = append(g.steps, step)
	g.obs = append(g.obs, obs)
	g.canon = append(g.canon, canon)
}

func (g *growSched) handle(e growEvent) {
	switch e.kind {
	case gePark:
		if e.actor < 0 {
			panic("raft Do from an unknown goroutine")
		}
		rq := g.reqs[e.actor]
		if !rq.locked {
			rq.locked = true
			g.record("GLock "+hx.Nat(e.actor), "None", "L"+strconv.Itoa(e.actor))
		}
		ev := e
		rq.parked = &ev
		g.record("GRead "+hx.Nat(e.actor), "(Some (EProp "+hx.Nat(e.actor)+" "+hx.N(uint64(e.vid))+"))", "R"+strconv.Itoa(e.actor))
	case geDone:
		rq := g.reqs[e.actor]
		rq.live = false
		rq.cnt = e.cnt
	}
}

func (g *growSched) drain() bool {
	got := false
	for {
		select {
		case e := <-g.fr.ev:
			g.handle(e)
			got = true
		default:
			return got
		}
	}
}

// wait until every live request is parked in Do(), blocked on a mutex, or done
func (g *growSched) waitQuiescent() {
	deadline := time.Now().Add(10 * time.Second)
	for spins := 0; ; spins++ {
		g.drain()
		nlive, nparked, others := 0, 0, []uint64{}
		for _, rq := range g.reqs {
			if !rq.live {
				continue
			}
			nlive++
			if rq.parked != nil {
				nparked++
			} else {
				others = append(others, rq.gid)
			}
		}
		if nlive == 0 {
			return
		}
		if nparked > 0 {
			quiet := true
			if len(others) > 0 {
				st := goroutineStates()
				for _, gid := range others {
					if !mutexBlocked(st[gid]) {
						quiet = false
					}
				}
			}
			if quiet && !g.drain() {
				return
			}
		}
		if time.Now().After(deadline) {
			g.timeouts++
			return
		}
		if spins < 20 {
			runtime.Gosched()
		} else {
			time.Sleep(20 * time.Microsecond)
		}
	}
}

func (g *growSched) start(a int, copies int) {
	rq := g.reqs[a]
	rq.started, rq.live = true, true
	g.record("GStart "+hx.Nat(a)+" "+hx.N(uint64(rq.n)), "None", "S"+strconv.Itoa(a)+"x"+strconv.Itoa(rq.n))
	rp, err := super_block.NewReplicaPlacementFromString([]string{"", "000", "001"}[copies])
	hx.Must(err)
	opt := &topology.VolumeGrowOption{Collection: "g" + strconv.Itoa(a), ReplicaPlacement: rp, Ttl: needle.EMPTY_TTL, DiskType: types.HardDriveType}
	vg := growVG
	reg := make(chan uint64)
	n, topo, fr := rq.n, g.topo, g.fr
	go func() {
		gid := curGid()
		fr.mu.Lock()
		fr.actors[gid] = a
		fr.mu.Unlock()
		reg <- gid
		cnt, _ := vg.GrowByCountAndType(grpc.WithInsecure(), n, opt, topo)
		fr.ev <- growEvent{kind: geDone, actor: a, cnt: cnt}
	}()
	rq.gid = <-reg
}

var growVG *topology.VolumeGrowth

func (g *growSched) heartbeat(dn *topology.DataNode, v uint32) {
	g.topo.IncrementalSyncDataNodeRegistration([]*master_pb.VolumeShortInformationMessage{{Id: v, Collection: "", ReplicaPlacement: 0, Version: uint32(needle.CurrentVersion), Ttl: 0}}, nil, dn)
	g.record("GHb "+hx.N(uint64(v)), "(Some (ESeen "+hx.N(uint64(v))+"))", "H"+strconv.Itoa(int(v)))
}

func (g *growSched) release(a int, res int) {
	rq := g.reqs[a]
	p := rq.parked
	rq.parked = nil
	ch := g.vs.notify[a]
	for len(ch) > 0 { // AllocateVolume requests of earlier iterations (second copies)
		<-ch
	}
	if res == resAllocErr {
		g.vs.mu.Lock()
		g.vs.failNext[a] = true
		g.vs.mu.Unlock()
	}
	p.reply <- res
	name := []string{"GOk", "GRaftErr", "GAllocErr"}[res]
	obs := "None"
	if res != resRaftErr {
		// the volume id handed out: what the first AllocateVolume request of this iteration carries
		select {
		case vid := <-ch:
			obs = "(Some (EGrant " + hx.Nat(a) + " " + hx.N(uint64(vid)) + "))"
			g.grants++
		case <-time.After(10 * time.Second):
			g.timeouts++
		}
	}
	g.record("GApply "+hx.Nat(a)+" "+name, obs, "A"+strconv.Itoa(a)+name)
}

// fixed: the two-requests-of-two scenario of seeded/C13-c (three existing volumes)
func genGrow(r *hx.Rng, out *hx.Out, fixed bool) *caseOut {
	vs := volumeServers()
	if growVG == nil {
		growVG = topology.NewDefaultVolumeGrowth()
	}
	nact, copies := r.Range(2, 4), r.PickInt([]int{1, 1, 2})
	if fixed {
		nact, copies = 2, 1
	}
	vs.reset(nact)
	topo := topology.NewTopology("weedfs", sequence.NewMemorySequencer(), 32*1024, 5, false)
	rack := topo.GetOrCreateDataCenter("dc1").GetOrCreateRack("rack1")
	var dns []*topology.DataNode
	for _, p := range vs.ports {
		dns = append(dns, rack.GetOrCreateDataNode("127.0.0.1", p, "127.0.0.1", map[string]uint32{"": 1000}))
	}
	fr := &growRaft{topo: topo, ev: make(chan growEvent, 256), actors: map[uint64]int{}}
	topo.RaftServer = fr
	g := &growSched{topo: topo, fr: fr, vs: vs}
	for a := 0; a < nact; a++ {
		n := r.PickInt([]int{1, 2, 2, 3})
		if fixed {
			n = 2
		}
		g.reqs = append(g.reqs, &growReq{n: n})
	}
	// volumes known before any growth
	initial := []uint32{1, 2, 3}
	if !fixed {
		initial = nil
		for j, k := 0, r.Range(0, 3); j < k; j++ {
			initial = append(initial, uint32(r.Range(1, 9)))
		}
	}
	for _, v := range initial {
		g.heartbeat(dns[0], v)
	}
	next, hbs := 0, 0
	for {
		g.waitQuiescent()
		if g.timeouts > 0 {
			break
		}
		var parked []int
		nlive := 0
		for a, rq := range g.reqs {
			if rq.live {
				nlive++
				if rq.parked != nil {
					parked = append(parked, a)
				}
			}
		}
		if nlive == 0 && next == nact {
			break
		}
		switch {
		case next < nact && (len(parked) == 0 || fixed || r.Chance(1, 2)):
			k := r.Range(1, nact-next)
			if fixed {
				k = nact
			}
			for j := 0; j < k; j++ {
				g.start(next, copies)
				next++
			}
			out.Count("grow:start", k)
		case len(parked) == 0:
			panic("grow: live requests, none of them parked, all blocked on a mutex")
		case !fixed && hbs < 3 && r.Chance(1, 7):
			v := uint32(topo.GetMaxVolumeId()) + uint32(r.Range(0, 3))
			if r.Bool() {
				v = uint32(r.Range(1, 12))
			}
			g.heartbeat(dns[r.Intn(len(dns))], v)
			hbs++
			out.Count("grow:heartbeat", 1)
		default:
			a := parked[r.Intn(len(parked))]
			res := resOk
			if !fixed {
				switch x := r.Intn(12); {
				case x < 1:
					res = resRaftErr
				case x < 2:
					res = resAllocErr
				}
			}
			g.release(a, res)
			out.Count("grow:apply-"+[]string{"ok", "rafterr", "allocerr"}[res], 1)
		}
	}
	c := &caseOut{kind: "grow", canon: g.canon, nrets: g.grants}
	if fixed {
		c.kind = "grow-two-by-two"
	}
	if g.timeouts > 0 {
		// no quiescent point within 10 s: let everything run to the end, the case will not correspond
		c.kind += "-timeout"
		out.Count("grow:timeout", 1)
		stop := time.Now().Add(20 * time.Second)
		for time.Now().Before(stop) {
			alive := false
			for _, rq := range g.reqs {
				if rq.live {
					alive = true
					if rq.parked != nil {
						rq.parked.reply <- resRaftErr
						rq.parked = nil
					}
				}
			}
			if !alive {
				break
			}
			g.drain()
			time.Sleep(time.Millisecond)
		}
	}
	vs.mu.Lock()
	allocs := append([]growAlloc(nil), vs.allocs...)
	vs.mu.Unlock()
	sort.SliceStable(allocs, func(i, j int) bool {
		if allocs[i].vid != allocs[j].vid {
			return allocs[i].vid < allocs[j].vid
		}
		return allocs[i].actor < allocs[j].actor
	})
	var al []string
	for _, x := range allocs {
		if x.actor < 0 {
			x.actor = 99
		}
		al = append(al, hx.Pair(hx.Nat(x.actor), hx.N(uint64(x.vid))))
	}
	c.inp = "(IGrow " + hx.Nat(nact) + " " + hx.Nat(copies) + " " + hx.List(g.steps) + ")"
	c.gout = g.obs
	c.gal = al
	c.fin = []uint64{uint64(topo.GetMaxVolumeId())}
	for _, rq := range g.reqs {
		c.fin = append(c.fin, uint64(rq.cnt))
	}
	out.Count("grow:requests", nact)
	return c
}
