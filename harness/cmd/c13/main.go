// C13 harness: the real sequencers (memory, etcd over an in-memory KeysAPI fake
// whose every call is gated by the harness scheduler, snowflake) and the real
// Topology.NextVolumeId / PickForWrite over a fake raft server.
package main

import (
	"flag"
	"fmt"
	"hash/fnv"
	"io"
	"os"
	"path/filepath"
	"sort"
	"strconv"
	"strings"
	"sync"

	"github.com/chrislusf/raft"
	"github.com/chrislusf/seaweedfs/weed/pb/master_pb"
	"github.com/chrislusf/seaweedfs/weed/sequence"
	weed_server "github.com/chrislusf/seaweedfs/weed/server"
	"github.com/chrislusf/seaweedfs/weed/storage/needle"
	"github.com/chrislusf/seaweedfs/weed/storage/super_block"
	"github.com/chrislusf/seaweedfs/weed/storage/types"
	"github.com/chrislusf/seaweedfs/weed/topology"
	"google.golang.org/grpc"
	"verifharness/hx"
)

// ---------- Coq printing ----------

func evRet(m int, s, c uint64) string {
	return "(Some (Ret " + hx.Nat(m) + " " + hx.N(s) + " " + hx.N(c) + "))"
}
func evMax(m int, k uint64) string {
	return "(Some (Max " + hx.Nat(m) + " " + hx.N(k) + "))"
}

type caseOut struct {
	inp   string
	outs  []string
	fin   []uint64
	canon []string
	nrets int
	kind  string
	gout  []string // concurrent growth: what the implementation showed at every step
	gal   []string // concurrent growth: the AllocateVolume requests (request, volume id)
}

func (c *caseOut) term() string {
	return fmt.Sprintf("{| inp := %s; out := %s; fin := %s; gout := %s; gal := %s |}", c.inp, hx.List(c.outs), hx.NList(c.fin), hx.List(c.gout), hx.List(c.gal))
}

// ---------- topology helpers ----------

func newTopo(seq sequence.Sequencer) (*topology.Topology, *topology.DataNode) {
	topo := topology.NewTopology("weedfs", seq, 32*1024, 5, false)
	dc := topo.GetOrCreateDataCenter("dc1")
	rack := dc.GetOrCreateRack("rack1")
	dn := rack.GetOrCreateDataNode("127.0.0.1", 34534, "127.0.0.1", map[string]uint32{"": 1000})
	return topo, dn
}

func growOption() *topology.VolumeGrowOption {
	rp, err := super_block.NewReplicaPlacementFromString("000")
	hx.Must(err)
	return &topology.VolumeGrowOption{Collection: "", ReplicaPlacement: rp, Ttl: needle.EMPTY_TTL, DiskType: types.HardDriveType}
}

// ---------- the real MasterServer.SendHeartbeat over an in-memory stream ----------

type hbStream struct {
	grpc.ServerStream // nil: SendHeartbeat only uses Send and Recv
	in                chan *master_pb.Heartbeat
	atSend            chan *master_pb.HeartbeatResponse
	cont              chan struct{}
}

func (s *hbStream) Send(r *master_pb.HeartbeatResponse) error {
	s.atSend <- r // parks here until the harness has looked at the master's state
	<-s.cont
	return nil
}
func (s *hbStream) Recv() (*master_pb.Heartbeat, error) {
	hb, ok := <-s.in
	if !ok {
		return nil, io.EOF
	}
	return hb, nil
}

type hbDriver struct {
	st    *hbStream
	done  chan error
	first bool
}

func newHbDriver(topo *topology.Topology) *hbDriver {
	topo.RaftServer = &fakeRaft{topo: topo, parked: make(chan chan bool)} // Topo.Leader() at the end of every heartbeat
	ms := weed_server.VerifC13NewMasterServer(topo, 32)
	d := &hbDriver{st: &hbStream{in: make(chan *master_pb.Heartbeat), atSend: make(chan *master_pb.HeartbeatResponse), cont: make(chan struct{})},
		done: make(chan error, 1), first: true}
	go func() { d.done <- ms.SendHeartbeat(d.st) }()
	return d
}

// one heartbeat with MaxFileKey = k; the first one also carries volume 1.
// atFirstSend is called while SendHeartbeat is parked in its first Send (the
// volume size limit answer), which the code issues after Sequence.SetMax and
// before the volumes of the heartbeat are registered.
func (d *hbDriver) beat(k uint64, atFirstSend func()) {
	hb := &master_pb.Heartbeat{Ip: "127.0.0.1", Port: 34534, PublicUrl: "127.0.0.1", MaxFileKey: k, MaxVolumeCounts: map[string]uint32{"": 1000}}
	if d.first {
		hb.Volumes = []*master_pb.VolumeInformationMessage{{Id: 1, Size: 100, Collection: "", ReplicaPlacement: 0, Version: uint32(needle.CurrentVersion), Ttl: 0}}
	}
	d.st.in <- hb
	if d.first {
		r := <-d.st.atSend
		if r.VolumeSizeLimit != 32*1024*1024 {
			panic("first heartbeat answer is not the volume size limit")
		}
		atFirstSend()
		d.st.cont <- struct{}{}
		d.first = false
	}
	r := <-d.st.atSend
	if r.Leader != "fake" {
		panic("heartbeat answer without the leader")
	}
	d.st.cont <- struct{}{}
}

func (d *hbDriver) close() {
	close(d.st.in)
	<-d.done
}

// ---------- 1. memory sequencer ----------

const maxU64 = ^uint64(0)

func genMem(r *hx.Rng, out *hx.Out, viaAssign bool, boundary bool) *caseOut {
	seq := sequence.NewMemorySequencer()
	var topo *topology.Topology
	var opt *topology.VolumeGrowOption
	var hb *hbDriver
	// observed while the first heartbeat is between Sequence.SetMax and the
	// registration of its volumes: the counter, and whether volume 1 is known
	firstCounter, firstRegistered := uint64(0), uint64(0)
	if viaAssign {
		topo = topology.NewTopology("weedfs", seq, 32*1024, 5, false)
		hb = newHbDriver(topo)
		defer hb.close()
		opt = growOption()
	}
	c := &caseOut{kind: "mem"}
	if viaAssign {
		c.kind = "mem-assign"
	}
	if boundary {
		c.kind += "-wrap"
	}
	var ops []string
	n := r.Range(3, 30)
	for j := 0; j < n; j++ {
		cur := seq.VerifCounter()
		if j > 0 && r.Chance(2, 3) { // the first step is a SetMax (with assign: the heartbeat that registers volume 1)
			var count uint64
			switch k := r.Intn(12); {
			case k < 5:
				count = 1
			case k < 8:
				count = uint64(r.Range(2, 5))
			case k < 9:
				count = 0
			case k < 10:
				count = 1000
			default:
				count = uint64(r.Range(6, 40))
			}
			if boundary && r.Chance(1, 4) {
				count = r.PickU64([]uint64{maxU64, maxU64 - cur, maxU64 - cur + 1, 1 << 63})
			}
			var got uint64
			if viaAssign {
				if count == 0 {
					count = 1 // dirAssignHandler / Assign: a zero count becomes 1
				}
				fid, cnt, _, err := topo.PickForWrite(count, opt)
				hx.Must(err)
				if cnt != count || !strings.HasPrefix(fid, "1,") {
					panic("PickForWrite changed the count or the volume")
				}
				if f, err := needle.ParseFileIdFromString(fid); err == nil {
					got = uint64(f.Key)
				} else {
					// key 0 (only after a uint64 wrap): formatNeedleIdCookie strips all
					// eight zero key bytes and the fid no longer parses; the key part
					// is what precedes the 8 hex digits of the cookie
					keyHex := fid[2 : len(fid)-8]
					if keyHex != "" {
						panic("unparseable fid with a non-empty key: " + fid)
					}
					got = 0
				}
			} else {
				got = seq.NextFileId(count)
			}
			ops = append(ops, "MNext "+hx.N(count))
			c.outs = append(c.outs, evRet(0, got, count))
			c.canon = append(c.canon, "N"+strconv.FormatUint(count, 10))
			if count > 0 {
				c.nrets++
			}
			out.Count("mem:next", 1)
		} else {
			var k uint64
			switch x := r.Intn(8); {
			case x < 1:
				k = 0
			case x < 2:
				k = cur - 1
			case x < 3:
				k = cur
			case x < 5:
				k = cur + uint64(r.Range(1, 20))
			case x < 6:
				k = cur + 100000
			default:
				k = uint64(r.Intn(int(cur%1000) + 5))
			}
			if boundary && r.Chance(1, 3) {
				k = r.PickU64([]uint64{maxU64, maxU64 - 1, maxU64 - 5, 1 << 63})
			}
			if viaAssign {
				hb.beat(k, func() {
					firstCounter = seq.VerifCounter()
					if len(topo.Lookup("", needle.VolumeId(1))) > 0 {
						firstRegistered = 1
					}
				})
			} else {
				seq.SetMax(k)
			}
			if j == 0 && !viaAssign {
				firstCounter = seq.VerifCounter()
			}
			ops = append(ops, "MSetMax "+hx.N(k))
			c.outs = append(c.outs, evMax(0, k))
			c.canon = append(c.canon, "M"+strconv.FormatUint(k, 10))
			out.Count("mem:setmax", 1)
		}
	}
	c.inp = "(IMem " + hx.List(ops) + ")"
	c.fin = []uint64{seq.VerifCounter(), firstCounter, firstRegistered}
	return c
}

// leader change: master 0 (old leader) runs ops1; master 1 starts with a fresh
// sequencer, its first step is the heartbeat SetMax(k), then it runs ops2.
// k is a key "written on the volume server": any key handed out by master 0
// (the largest one = every assigned key was written).
func genMemFailover(r *hx.Rng, out *hx.Out, witness bool) *caseOut {
	c := &caseOut{kind: "mem-failover"}
	old, neu := sequence.NewMemorySequencer(), sequence.NewMemorySequencer()
	var ops1, ops2 []string
	hi := uint64(0)
	n1, n2 := r.Range(1, 8), r.Range(1, 8)
	if witness {
		c.kind = "mem-failover-witness"
		n1, n2 = 1, 1
	}
	for j := 0; j < n1; j++ {
		if witness || r.Chance(3, 4) {
			count := uint64(r.PickInt([]int{1, 1, 2, 3, 5, 40, 0}))
			if witness {
				count = 5
			}
			got := old.NextFileId(count)
			if count > 0 {
				hi = got + count - 1
				c.nrets++
			}
			ops1 = append(ops1, "MNext "+hx.N(count))
			c.outs = append(c.outs, evRet(0, got, count))
			c.canon = append(c.canon, "N"+strconv.FormatUint(count, 10))
		} else {
			k := uint64(r.Intn(int(hi) + 20))
			old.SetMax(k)
			ops1 = append(ops1, "MSetMax "+hx.N(k))
			c.outs = append(c.outs, evMax(0, k))
			c.canon = append(c.canon, "M"+strconv.FormatUint(k, 10))
		}
	}
	k := hi
	switch {
	case witness:
		k = 2
	case hi > 0 && r.Chance(1, 2):
		k = uint64(r.Intn(int(hi))) + 1 // some assigned keys are not written yet
	case r.Chance(1, 4):
		k = hi + uint64(r.Range(0, 9))
	}
	neu.SetMax(k)
	c.outs = append(c.outs, evMax(1, k))
	c.canon = append(c.canon, "F"+strconv.FormatUint(k, 10))
	for j := 0; j < n2; j++ {
		count := uint64(r.PickInt([]int{1, 1, 2, 3, 7, 0}))
		if witness {
			count = 1
		}
		got := neu.NextFileId(count)
		if count > 0 {
			c.nrets++
		}
		ops2 = append(ops2, "MNext "+hx.N(count))
		c.outs = append(c.outs, evRet(1, got, count))
		c.canon = append(c.canon, "N"+strconv.FormatUint(count, 10))
	}
	out.Count("mem:failover", 1)
	c.inp = "(IMemFo " + hx.List(ops1) + " " + hx.N(k) + " " + hx.List(ops2) + ")"
	c.fin = []uint64{old.VerifCounter(), neu.VerifCounter()}
	return c
}

// ---------- 2. etcd sequencer ----------

const (
	opNext = iota
	opSetMax
	opBoot
)

type opResult struct {
	val uint64
	seq *sequence.EtcdSequencer
	err error
}

type emaster struct {
	idx        int
	dir        string
	fk         *fakeKeys
	seq        *sequence.EtcdSequencer
	lastCur    uint64
	lastMax    uint64
	busy       bool
	opKind     int
	parkedKind int
	arg        uint64
	done       chan opResult
}

type ecluster struct {
	st    *store
	ms    []*emaster
	steps []string
	outs  []string
	canon []string
	nrets int
}

func newCluster(n int) *ecluster {
	cl := &ecluster{st: &store{}}
	base, err := os.MkdirTemp("", "c13etcd")
	hx.Must(err)
	for i := 0; i < n; i++ {
		d := filepath.Join(base, "m"+strconv.Itoa(i))
		hx.Must(os.MkdirAll(d, 0o755))
		cl.ms = append(cl.ms, &emaster{idx: i, dir: d})
	}
	return cl
}

func (m *emaster) refresh() {
	if m.seq != nil {
		m.lastCur, m.lastMax = m.seq.VerifState()
	}
}

// wait until the running operation of m parks at a KeysAPI call or finishes
func (cl *ecluster) wait(m *emaster) string {
	select {
	case kind := <-m.fk.parked:
		m.busy, m.parkedKind = true, kind
		return "None"
	case r := <-m.done:
		m.busy = false
		switch m.opKind {
		case opNext:
			m.refresh()
			if m.arg > 0 {
				cl.nrets++
			}
			return evRet(m.idx, r.val, m.arg)
		case opSetMax:
			m.refresh()
			return evMax(m.idx, m.arg)
		default:
			if r.err == nil {
				m.seq = r.seq
				m.refresh()
			}
			return "None"
		}
	}
}

func (cl *ecluster) record(i int, act, canon, o string) {
	cl.steps = append(cl.steps, "("+hx.Nat(i)+", "+act+")")
	cl.outs = append(cl.outs, o)
	cl.canon = append(cl.canon, strconv.Itoa(i)+canon)
}

// abandon the running operation (the master process dies)
func (cl *ecluster) kill(m *emaster) {
	if m.busy {
		m.fk.resume <- dDead
		<-m.done
		m.busy = false
	}
	if m.seq != nil {
		m.refresh()
		m.seq.VerifClose()
		m.seq = nil
	}
}

func (cl *ecluster) boot(i int) {
	m := cl.ms[i]
	cl.kill(m)
	m.fk = newFakeKeys(cl.st, true)
	m.done = make(chan opResult, 1)
	m.opKind = opBoot
	fk, dir, done := m.fk, m.dir, m.done
	go func() {
		s, err := sequence.NewEtcdSequencerWithKeysAPI(fk, dir)
		done <- opResult{seq: s, err: err}
	}()
	cl.record(i, "ABoot", "B", cl.wait(m))
}

func (cl *ecluster) next(i int, count uint64) {
	m := cl.ms[i]
	if !cl.settle(i) {
		return // the call is dropped from the schedule
	}
	m.opKind, m.arg = opNext, count
	m.done = make(chan opResult, 1)
	seq, done := m.seq, m.done
	go func() { done <- opResult{val: seq.NextFileId(count)} }()
	cl.record(i, "ANext "+hx.N(count), "N"+strconv.FormatUint(count, 10), cl.wait(m))
}

func (cl *ecluster) setmax(i int, k uint64) {
	m := cl.ms[i]
	if !cl.settle(i) {
		return // the call is dropped from the schedule
	}
	m.opKind, m.arg = opSetMax, k
	m.done = make(chan opResult, 1)
	seq, done := m.seq, m.done
	go func() { seq.SetMax(k); done <- opResult{} }()
	cl.record(i, "ASetMax "+hx.N(k), "M"+strconv.FormatUint(k, 10), cl.wait(m))
}

// a fixed witness schedule may find the master still inside a KeysAPI call when
// the tree under test behaves differently: finish that call first (the ticks are
// recorded as steps), and boot a master that has no sequencer
func (cl *ecluster) settle(i int) bool {
	for n := 0; cl.ms[i].busy && n < 50; n++ {
		cl.tick(i, dOk)
	}
	return !cl.ms[i].busy && cl.ms[i].seq != nil
}

func (cl *ecluster) tick(i int, d directive) {
	m := cl.ms[i]
	m.fk.resume <- d
	name := []string{"Ok", "Err", "ErrAfter"}[d]
	cl.record(i, "ATick "+name, "T"+name, cl.wait(m))
}

func (cl *ecluster) storeVal() (uint64, bool) {
	cl.st.mu.Lock()
	defer cl.st.mu.Unlock()
	if !cl.st.present {
		return 0, false
	}
	v, err := strconv.ParseUint(cl.st.val, 10, 64)
	hx.Must(err)
	return v, true
}

func readSeqFile(dir string) uint64 {
	b, err := os.ReadFile(filepath.Join(dir, sequence.SequencerFileName))
	if err != nil {
		return 1 // openSequenceFile would create it with 1
	}
	parts := strings.Split(string(b), ":")
	v, err := strconv.ParseUint(parts[0], 10, 64)
	hx.Must(err)
	return v
}

func (cl *ecluster) finish(kind string) *caseOut {
	c := &caseOut{kind: kind, outs: cl.outs, canon: cl.canon, nrets: cl.nrets}
	c.inp = "(IEtcd " + hx.Nat(len(cl.ms)) + " " + hx.List(cl.steps) + ")"
	if v, ok := cl.storeVal(); ok {
		c.fin = append(c.fin, 1, v) // the etcd key exists, its value
	} else {
		c.fin = append(c.fin, 0, 0)
	}
	for _, m := range cl.ms {
		m.refresh()
		code := uint64(0)
		switch {
		case m.busy && m.opKind == opNext:
			code = map[int]uint64{callGet: 2, callSet: 3}[m.parkedKind]
		case m.busy && m.opKind == opBoot:
			code = map[int]uint64{callGet: 4, callCreate: 5, callSet: 6}[m.parkedKind]
		case m.busy && m.opKind == opSetMax:
			code = map[int]uint64{callGet: 7, callCreate: 8, callSet: 9}[m.parkedKind]
		case m.seq == nil:
			code = 1
		}
		c.fin = append(c.fin, m.lastCur, m.lastMax, readSeqFile(m.dir), code)
	}
	for _, m := range cl.ms {
		cl.kill(m)
	}
	return c
}

var etcdCounts = []uint64{1, 1, 1, 2, 3, 7, 100, 250, 498, 499, 500, 501, 700, 0}

// counts near 2^64 (the count of an assign request is an unchecked uint64)
func bigCount(r *hx.Rng, cur uint64) uint64 {
	return r.PickU64([]uint64{maxU64, maxU64 - 1, maxU64 - cur, maxU64 - cur + 1, -cur, 1 << 63, (1 << 63) + 1,
		maxU64 - 499, maxU64 - 500, maxU64 - 501, maxU64 - 998, maxU64 - 1000 - cur})
}

// mode 0: no SetMax, no faults; 1: SetMax, no faults; 2: everything; 3: as 1 plus counts near 2^64
func genEtcd(r *hx.Rng, out *hx.Out, mode int) *caseOut {
	wrap := mode == 3
	if wrap {
		mode = 1
	}
	n := r.PickInt([]int{1, 2, 2, 2, 3})
	cl := newCluster(n)
	nsteps := r.Range(12, 70)
	for s := 0; s < nsteps; s++ {
		i := r.Intn(n)
		m := cl.ms[i]
		switch {
		case m.busy:
			if mode == 2 && r.Chance(1, 30) {
				cl.boot(i)
				out.Count("etcd:crash-midop", 1)
				break
			}
			d := dOk
			if mode == 2 {
				switch x := r.Intn(20); {
				case x < 2:
					d = dErr
				case x < 3:
					d = dErrAfter
				}
			}
			cl.tick(i, d)
			out.Count("etcd:tick-"+[]string{"ok", "err", "errafter"}[d], 1)
		case m.seq == nil:
			cl.boot(i)
			out.Count("etcd:boot", 1)
		default:
			x := r.Intn(100)
			switch {
			case x < 62 || (mode == 0 && x < 94):
				count := r.PickU64(etcdCounts)
				if wrap && r.Chance(1, 6) {
					cur, _ := m.seq.VerifState()
					count = bigCount(r, cur)
					out.Count("etcd:next-huge", 1)
				}
				cl.next(i, count)
				out.Count("etcd:next", 1)
			case x < 94:
				cur, max := m.seq.VerifState()
				sv, _ := cl.storeVal()
				k := r.PickU64([]uint64{0, cur - 1, cur, cur + 3, max - 1, max, max + 1, max + 7, sv - 1, sv, sv + 1, sv + 250, 1000000})
				if int64(k) < 0 {
					k = 0
				}
				cl.setmax(i, k)
				out.Count("etcd:setmax", 1)
			default:
				cl.boot(i)
				out.Count("etcd:restart", 1)
			}
		}
	}
	if wrap {
		return cl.finish("etcd-wrap")
	}
	return cl.finish("etcd-mode" + strconv.Itoa(mode))
}

// the witnesses of findings 0 and 2 (the schedules of proof/SeqProofs.v)
func (cl *ecluster) bootFully(i int) {
	cl.boot(i)
	for cl.ms[i].busy {
		cl.tick(i, dOk)
	}
}
func (cl *ecluster) run(i int) {
	for cl.ms[i].busy {
		cl.tick(i, dOk)
	}
}

func witSetMax() *caseOut {
	cl := newCluster(1)
	cl.bootFully(0)
	cl.setmax(0, 1000)
	cl.run(0)
	cl.next(0, 1)
	cl.run(0)
	return cl.finish("etcd-witness-setmax")
}
func witSetMaxIgnored() *caseOut {
	cl := newCluster(1)
	cl.bootFully(0)
	cl.next(0, 1)
	cl.run(0)
	cl.setmax(0, 300)
	cl.next(0, 1)
	return cl.finish("etcd-witness-setmax-ignored")
}
func witErr() *caseOut {
	cl := newCluster(1)
	cl.bootFully(0)
	cl.next(0, 2)
	cl.tick(0, dErr)
	cl.next(0, 2)
	cl.tick(0, dErr)
	return cl.finish("etcd-witness-error")
}

// finding 3: NextFileId(1)=1, NextFileId(2^64-1)=2, NextFileId(1)=1 (proof/SeqProofs.v wit_wrap)
func witWrap() *caseOut {
	cl := newCluster(1)
	cl.bootFully(0)
	cl.next(0, 1)
	cl.run(0)
	cl.next(0, maxU64)
	cl.next(0, 1)
	return cl.finish("etcd-witness-wrap")
}

// finding 3, second form: count = 2^64-500 makes reqSteps 0: key 0 without any etcd call
func witWrapZeroSteps() *caseOut {
	cl := newCluster(1)
	cl.bootFully(0)
	cl.next(0, maxU64-499)
	cl.next(0, 3)
	cl.run(0)
	return cl.finish("etcd-witness-wrap-zero-steps")
}

// ---------- 3. snowflake ----------

func nodeID(s string) uint64 {
	h := fnv.New32a()
	h.Write([]byte(s))
	return uint64(h.Sum32() & 0x3ff)
}

type sfCall struct {
	node  int
	count uint64
	id    uint64
}

func sfCase(kind string, names []string, calls []sfCall) *caseOut {
	c := &caseOut{kind: kind}
	var nids []uint64
	for _, s := range names {
		nids = append(nids, nodeID(s))
	}
	var cs []string
	for _, k := range calls {
		cs = append(cs, "("+hx.Nat(k.node)+", "+hx.N(k.count)+")")
		c.outs = append(c.outs, evRet(k.node, k.id, k.count))
		c.canon = append(c.canon, strconv.Itoa(k.node)+":"+strconv.FormatUint(k.count, 10))
		if k.count > 0 {
			c.nrets++
		}
	}
	c.inp = "(ISnow " + hx.NList(nids) + " " + hx.List(cs) + ")"
	return c
}

// the first address 10.0.a.b:9333 (other than `like`) with the same 10-bit node id
func collidingName(like string) string {
	for a := 0; a < 256; a++ {
		for b := 1; b < 255; b++ {
			s := fmt.Sprintf("10.0.%d.%d:9333", a, b)
			if s != like && nodeID(s) == nodeID(like) {
				return s
			}
		}
	}
	panic("no colliding address")
}

// mode 0: one node, count<=1; 1: two nodes; 2: one node, count>1; 3: two nodes
// whose addresses have the same 10-bit hash (finding 5); 4: three nodes, two of them colliding
func genSnow(r *hx.Rng, out *hx.Out, mode int) *caseOut {
	// two node names with different 10-bit hashes
	names := []string{"10.0.0.1:9333", "10.0.0.2:9333"}
	nn := 1
	if mode == 1 {
		nn = 2
	}
	if mode == 3 {
		names = []string{"10.0.0.1:9333", collidingName("10.0.0.1:9333")}
		nn = 2
	}
	if mode == 4 {
		names = []string{"10.0.0.1:9333", "10.0.0.2:9333", collidingName("10.0.0.1:9333")}
		nn = 3
	}
	var seqs []*sequence.SnowflakeSequencer
	for i := 0; i < nn; i++ {
		s, err := sequence.NewSnowflakeSequencer(names[i])
		hx.Must(err)
		seqs = append(seqs, s)
	}
	n := r.Range(10, 120)
	plan := make([]sfCall, n)
	for j := range plan {
		plan[j].node = r.Intn(nn)
		switch mode {
		case 3, 4: // alternate strictly: equal ids need the same millisecond and step
			plan[j].node = j % nn
			plan[j].count = 1
		case 2:
			plan[j].count = uint64(r.PickInt([]int{1, 2, 3, 3, 5, 4096}))
		default:
			plan[j].count = uint64(r.PickInt([]int{1, 1, 1, 1, 0}))
		}
	}
	for j := range plan { // back to back: many calls share a millisecond
		plan[j].id = seqs[plan[j].node].NextFileId(plan[j].count)
		seqs[plan[j].node].SetMax(plan[j].id + 1000) // a no-op for this sequencer
	}
	out.Count("snow:calls", n)
	return sfCase("snow-mode"+strconv.Itoa(mode), names[:nn], plan)
}

// 64 back-to-back NextFileId(3): finding 1
func witSnow() *caseOut {
	s, err := sequence.NewSnowflakeSequencer("10.0.0.1:9333")
	hx.Must(err)
	calls := make([]sfCall, 64)
	for j := range calls {
		calls[j] = sfCall{0, 3, s.NextFileId(3)}
	}
	return sfCase("snow-witness-count", []string{"10.0.0.1:9333"}, calls)
}

// finding 5: two masters whose addresses hash to the same 10-bit node id
func witSnowCollision() *caseOut {
	names := []string{"10.0.0.1:9333", collidingName("10.0.0.1:9333")}
	var seqs []*sequence.SnowflakeSequencer
	for _, nm := range names {
		s, err := sequence.NewSnowflakeSequencer(nm)
		hx.Must(err)
		seqs = append(seqs, s)
	}
	calls := make([]sfCall, 64)
	for j := range calls {
		calls[j] = sfCall{j % 2, 1, seqs[j%2].NextFileId(1)}
	}
	return sfCase("snow-witness-collision", names, calls)
}

// a long burst: try to observe the 12-bit step roll-over inside one millisecond
func snowRollover(out *hx.Out) *caseOut {
	s, err := sequence.NewSnowflakeSequencer("10.0.0.1:9333")
	hx.Must(err)
	const burst = 60000
	ids := make([]uint64, burst)
	for j := range ids {
		ids[j] = s.NextFileId(1)
	}
	// find an id with step 4095 that is not the last; emit its whole millisecond + 8
	lo, hi := 0, 40
	for j := 0; j+1 < burst; j++ {
		if ids[j]&0xfff == 0xfff && j >= 4095 {
			lo, hi = j-4095, j+9
			if hi > burst {
				hi = burst
			}
			out.Count("snow:rollover-observed", 1)
			break
		}
	}
	for ids[lo]&0xfff != 0 && lo < hi-1 { // start at a fresh millisecond (step 0)
		lo++
	}
	kind := "snow-burst"
	if hi-lo > 4096 {
		kind = "snow-rollover"
	}
	// compact form (big decimal literals are slow to parse in Coq): the first id
	// and the successive differences; check/C13.v rebuilds the ids
	var deltas []uint64
	for j := lo + 1; j < hi; j++ {
		deltas = append(deltas, ids[j]-ids[j-1])
	}
	c := &caseOut{kind: kind, nrets: hi - lo, canon: []string{kind}}
	c.inp = "(ISnowBurst " + hx.N(nodeID("10.0.0.1:9333")) + " " + hx.N(ids[lo]) + " " + hx.NList(deltas) + ")"
	return c
}

// ---------- 4. volume ids ----------

type fakeRaft struct {
	raft.Server // nil: only the methods below are used by NextVolumeId / Apply
	topo        *topology.Topology
	parked      chan chan bool
}

func (f *fakeRaft) Context() interface{} { return f.topo }
func (f *fakeRaft) Name() string         { return "fake" }
func (f *fakeRaft) Leader() string       { return "fake" }
func (f *fakeRaft) Do(command raft.Command) (interface{}, error) {
	ch := make(chan bool)
	f.parked <- ch
	if ok := <-ch; !ok {
		return nil, raft.NotLeaderError
	}
	// the raft library applies a committed command through this (deprecated) interface
	return command.(interface {
		Apply(raft.Server) (interface{}, error)
	}).Apply(f)
}

type vres struct {
	vid uint32
	err error
}

func genVol(r *hx.Rng, out *hx.Out, locked bool, boundary bool) *caseOut {
	topo, dn := newTopo(sequence.NewMemorySequencer())
	fr := &fakeRaft{topo: topo, parked: make(chan chan bool)}
	topo.RaftServer = fr
	c := &caseOut{kind: "vol"}
	if !locked {
		c.kind = "vol-unlocked"
	}
	if boundary {
		c.kind += "-wrap"
	}
	pend := map[int]chan bool{}
	done := map[int]chan vres{}
	var steps []string
	nact := 3
	n := r.Range(6, 40)
	for j := 0; j < n; j++ {
		x := r.Intn(10)
		var inflight []int
		for a := range pend {
			inflight = append(inflight, a)
		}
		sort.Ints(inflight)
		switch {
		case x < 3: // heartbeat registering a volume
			v := uint32(r.Range(1, 14))
			if r.Chance(1, 6) {
				v = uint32(topo.GetMaxVolumeId()) + uint32(r.Range(1, 3))
			}
			if boundary && r.Chance(1, 3) {
				v = uint32(r.PickU64([]uint64{4294967295, 4294967294, 4294967290}))
			}
			topo.IncrementalSyncDataNodeRegistration([]*master_pb.VolumeShortInformationMessage{{Id: v, Collection: "", ReplicaPlacement: 0, Version: uint32(needle.CurrentVersion), Ttl: 0}}, nil, dn)
			steps = append(steps, "VHb "+hx.N(uint64(v)))
			c.outs = append(c.outs, "None")
			c.canon = append(c.canon, "H"+strconv.Itoa(int(v)))
			out.Count("vol:heartbeat", 1)
		case len(inflight) > 0 && (x < 7 || locked):
			a := inflight[r.Intn(len(inflight))]
			ok := !r.Chance(1, 6)
			pend[a] <- ok
			res := <-done[a]
			delete(pend, a)
			steps = append(steps, "VApply "+hx.Nat(a)+" "+hx.Bool(ok))
			if res.err == nil {
				c.outs = append(c.outs, evRet(a, uint64(res.vid), 1))
				c.nrets++
			} else {
				c.outs = append(c.outs, "None")
			}
			c.canon = append(c.canon, "A"+strconv.Itoa(a)+hx.Bool(ok))
			out.Count("vol:apply", 1)
		default:
			a := r.Intn(nact)
			if _, busy := pend[a]; busy {
				j--
				continue
			}
			d := make(chan vres, 1)
			done[a] = d
			go func() {
				vid, err := topo.NextVolumeId()
				d <- vres{uint32(vid), err}
			}()
			pend[a] = <-fr.parked
			steps = append(steps, "VRead "+hx.Nat(a))
			c.outs = append(c.outs, "None")
			c.canon = append(c.canon, "R"+strconv.Itoa(a))
			out.Count("vol:read", 1)
		}
	}
	c.inp = "(IVol " + hx.List(steps) + ")"
	c.fin = []uint64{uint64(topo.GetMaxVolumeId())}
	for a, ch := range pend { // let the parked goroutines go
		ch <- false
		<-done[a]
	}
	return c
}

// ---------- 5. goroutine stress (thorough tier; supporting evidence) ----------

type rng struct {
	m int
	s uint64
	c uint64
}

func stressCase(kind int, rs []rng, fin []uint64) *caseOut {
	sort.Slice(rs, func(i, j int) bool {
		if rs[i].s != rs[j].s {
			return rs[i].s < rs[j].s
		}
		return rs[i].c < rs[j].c
	})
	c := &caseOut{kind: "stress-" + []string{"mem", "mem-setmax", "etcd", "vol"}[kind], fin: fin}
	total := uint64(0)
	for _, x := range rs {
		c.outs = append(c.outs, evRet(x.m, x.s, x.c))
		total += x.c
		if x.c > 0 {
			c.nrets++
		}
	}
	c.inp = "(IStress " + hx.N(uint64(kind)) + " " + hx.N(total) + ")"
	return c
}

// a raft server that applies at once; like the raft library it applies one command at a time
type directRaft struct {
	raft.Server
	topo *topology.Topology
	mu   sync.Mutex
}

func (f *directRaft) Context() interface{} { return f.topo }
func (f *directRaft) Name() string         { return "fake" }
func (f *directRaft) Do(command raft.Command) (interface{}, error) {
	f.mu.Lock()
	defer f.mu.Unlock()
	return command.(interface {
		Apply(raft.Server) (interface{}, error)
	}).Apply(f)
}

// volume ids: ONE grower (the growth lock is an assumption) calls NextVolumeId
// while two volume servers' heartbeat streams register volumes concurrently
func genStressVol(r *hx.Rng, out *hx.Out) *caseOut {
	topo := topology.NewTopology("weedfs", sequence.NewMemorySequencer(), 32*1024, 5, false)
	topo.RaftServer = &directRaft{topo: topo}
	rack := topo.GetOrCreateDataCenter("dc1").GetOrCreateRack("rack1")
	per := r.Range(10, 40)
	var wg sync.WaitGroup
	for t := 0; t < 1; t++ { // one stream: two would also race on the disk usage counters, which is not this property
		dn := rack.GetOrCreateDataNode("127.0.0.1", 34534+t, "127.0.0.1", map[string]uint32{"": 100000})
		vids := make([]uint32, per)
		for j := range vids {
			vids[j] = uint32(r.Range(1, 60))
		}
		wg.Add(1)
		go func() {
			defer wg.Done()
			for _, v := range vids {
				topo.IncrementalSyncDataNodeRegistration([]*master_pb.VolumeShortInformationMessage{{Id: v, Collection: "", ReplicaPlacement: 0, Version: uint32(needle.CurrentVersion), Ttl: 0}}, nil, dn)
			}
		}()
	}
	var rs []rng
	wg.Add(1)
	go func() {
		defer wg.Done()
		for j := 0; j < per; j++ {
			vid, err := topo.NextVolumeId()
			hx.Must(err)
			rs = append(rs, rng{0, uint64(vid), 1})
		}
	}()
	wg.Wait()
	c := stressCase(3, rs, nil)
	c.canon = []string{fmt.Sprintf("stress3-%d-%d", per, r.Next())}
	out.Count("stress:vol-calls", 3*per)
	return c
}

func genStress(r *hx.Rng, out *hx.Out, kind int) *caseOut {
	if kind == 3 {
		return genStressVol(r, out)
	}
	g, per := r.Range(2, 6), r.Range(10, 40)
	var mu sync.Mutex
	var rs []rng
	var wg sync.WaitGroup
	var seqs []sequence.Sequencer
	var clu *ecluster
	if kind == 2 {
		clu = newCluster(2)
		for _, m := range clu.ms {
			s, err := sequence.NewEtcdSequencerWithKeysAPI(newFakeKeys(clu.st, false), m.dir)
			hx.Must(err)
			m.seq = s
			seqs = append(seqs, s)
		}
	} else {
		seqs = append(seqs, sequence.NewMemorySequencer())
	}
	for t := 0; t < g; t++ {
		counts := make([]uint64, per)
		for j := range counts {
			counts[j] = uint64(r.PickInt([]int{1, 1, 2, 3, 7, 0, 200, 501}))
		}
		mi := t % len(seqs)
		wg.Add(1)
		go func() {
			defer wg.Done()
			local := make([]rng, 0, per)
			for _, cnt := range counts {
				local = append(local, rng{mi, seqs[mi].NextFileId(cnt), cnt})
			}
			mu.Lock()
			rs = append(rs, local...)
			mu.Unlock()
		}()
	}
	if kind == 1 {
		ks := make([]uint64, per)
		for j := range ks {
			ks[j] = uint64(r.Range(1, 4000))
		}
		wg.Add(1)
		go func() {
			defer wg.Done()
			for _, k := range ks {
				seqs[0].SetMax(k)
			}
		}()
	}
	wg.Wait()
	var fin []uint64
	if kind == 0 {
		fin = []uint64{seqs[0].(*sequence.MemorySequencer).VerifCounter()}
	}
	c := stressCase(kind, rs, fin)
	c.canon = []string{fmt.Sprintf("stress%d-%d-%d-%d", kind, g, per, r.Next())}
	out.Count("stress:calls", g*per)
	if clu != nil {
		for _, m := range clu.ms {
			clu.kill(m)
		}
	}
	return c
}

// ---------- main ----------

func main() {
	out := hx.Flags("C13", 300)
	flag.Set("logtostderr", "true")
	out.Rule = "cases 0-9 are fixed (case 9: two concurrent GrowByCountAndType(2) requests on a topology with volumes 1-3, the real VolumeGrowth / Topology.NextVolumeId over a fake raft server whose Do() parks until the scheduler releases it and in-process AllocateVolume gRPC endpoints): the etcd SetMax witnesses (finding 0, two forms), 64 back-to-back snowflake NextFileId(3) (finding 1), the etcd error witness (finding 2), a 60000-call snowflake burst (12-bit roll-over window when observed), the etcd uint64 wrap witnesses (finding 3: count 2^64-1; count 2^64-500), the memory leader-change witness (finding 4), two snowflake nodes with colliding address hashes (finding 5); then by case number mod 20: memory sequencer op lists (direct; through Topology.PickForWrite with every SetMax delivered by the real MasterServer.SendHeartbeat over an in-memory stream, observing the counter between SetMax and the volume registration; near 2^64; leader change to a fresh sequencer whose first heartbeat reports a written key), etcd with counts near 2^64, 1-3 etcd sequencers on one fake store with every KeysAPI call scheduled separately (modes: plain / SetMax / SetMax+faults+restarts), snowflake bursts on 1-2 nodes (count<=1 / count>1), Topology.NextVolumeId over a fake raft with heartbeats (locked / unlocked / near 2^32), 2-4 concurrent goroutines running the real VolumeGrowth.GrowByCountAndType (1-3 volumes each, 1 or 2 copies, raft errors, AllocateVolume failures, heartbeats; the scheduler acts when every grow goroutine is parked in the fake raft Do(), blocked on a mutex or done, and records every raft proposal, every volume id sent to a volume server, the returned counters); thorough tier adds goroutine stress on the memory and etcd sequencers; non-trivial = at least two non-empty ranges (ids) handed out; distinct = canonical step list"
	root := hx.NewRng(out.Seed)
	for i := 0; i < out.N; i++ {
		r := root.Fork()
		var c *caseOut
		switch {
		case i == 0:
			c = witSetMax()
		case i == 1:
			c = witSetMaxIgnored()
		case i == 2:
			c = witSnow()
		case i == 3:
			c = witErr()
		case i == 4:
			c = snowRollover(out)
		case i == 5:
			c = witWrap()
		case i == 6:
			c = witWrapZeroSteps()
		case i == 7:
			c = genMemFailover(r, out, true)
		case i == 8:
			c = witSnowCollision()
		case i == 9:
			c = genGrow(r, out, true)
		case out.Variant == "race" && i%3 == 2: // race detector stage: real goroutines
			c = genStress(r, out, (i/3)%4)
		case out.Variant == "race" && i%3 == 1: // concurrent GrowByCountAndType requests
			c = genGrow(r, out, false)
		case out.Tier == "thorough" && i%10 == 9:
			c = genStress(r, out, (i/10)%3)
		default:
			switch k := i % 20; {
			case k < 1:
				c = genMem(r, out, false, false)
			case k < 2:
				c = genMemFailover(r, out, false)
			case k < 4:
				c = genMem(r, out, true, false)
			case k < 5:
				c = genMem(r, out, (i/20)%2 == 0, true)
			case k < 7:
				c = genEtcd(r, out, 0)
			case k < 9:
				c = genEtcd(r, out, 1)
			case k < 10:
				c = genEtcd(r, out, 3)
			case k < 13:
				c = genEtcd(r, out, 2)
			case k < 14:
				c = genSnow(r, out, 0)
			case k < 15:
				c = genSnow(r, out, []int{1, 3, 1, 4}[(i/20)%4])
			case k < 16:
				c = genSnow(r, out, 2)
			case k < 17:
				c = genVol(r, out, true, false)
			case k < 18:
				c = genGrow(r, out, false)
			case k < 19:
				c = genVol(r, out, false, false)
			default:
				c = genVol(r, out, r.Bool(), true)
			}
		}
		out.Add(c.term(), c.kind+"|"+strings.Join(c.canon, ";"), c.nrets >= 2, c.kind)
	}
	out.Write()
}
