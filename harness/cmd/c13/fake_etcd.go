package main

// In-memory fake of the etcd v2 client.KeysAPI restricted to what
// weed/sequence/etcd_sequencer.go uses: Get, Set with PrevValue (compare and
// swap), Create.  One `store` is shared by several `fakeKeys` handles (one per
// master).  A handle may be *gated*: every API call then parks until the harness
// scheduler releases it with a directive, so that the calls of several masters
// are interleaved deterministically at API-call granularity.

import (
	"context"
	"errors"
	"sync"

	"go.etcd.io/etcd/client"
)

type store struct {
	mu      sync.Mutex
	present bool
	val     string
}

type directive int

const (
	dOk       directive = iota // perform the call
	dErr                       // return a transport error, call not applied
	dErrAfter                  // apply the call, then return a transport error (lost acknowledgement)
	dDead                      // the master was killed: every further call fails at once
)

const (
	callGet    = 0
	callSet    = 1
	callCreate = 2
)

type fakeKeys struct {
	st     *store
	gated  bool
	parked chan int       // call kind, sent when a call parks
	resume chan directive // directive for the parked call
	dead   bool
}

var errTransport = errors.New("fake etcd: injected transport error")

func newFakeKeys(st *store, gated bool) *fakeKeys {
	return &fakeKeys{st: st, gated: gated, parked: make(chan int), resume: make(chan directive)}
}

func (f *fakeKeys) gate(kind int) directive {
	if f.dead {
		return dDead
	}
	if !f.gated {
		return dOk
	}
	f.parked <- kind
	d := <-f.resume
	if d == dDead {
		f.dead = true
	}
	return d
}

func (f *fakeKeys) Get(ctx context.Context, key string, opts *client.GetOptions) (*client.Response, error) {
	d := f.gate(callGet)
	if d != dOk {
		return nil, errTransport
	}
	f.st.mu.Lock()
	defer f.st.mu.Unlock()
	if !f.st.present {
		return nil, client.Error{Code: client.ErrorCodeKeyNotFound, Message: "Key not found", Cause: key}
	}
	return &client.Response{Action: "get", Node: &client.Node{Key: key, Value: f.st.val}}, nil
}

func (f *fakeKeys) Set(ctx context.Context, key, value string, opts *client.SetOptions) (*client.Response, error) {
	d := f.gate(callSet)
	if d == dErr || d == dDead {
		return nil, errTransport
	}
	f.st.mu.Lock()
	defer f.st.mu.Unlock()
	var err error
	if opts != nil && opts.PrevValue != "" {
		if !f.st.present {
			err = client.Error{Code: client.ErrorCodeKeyNotFound, Message: "Key not found", Cause: key}
		} else if f.st.val != opts.PrevValue {
			err = client.Error{Code: client.ErrorCodeTestFailed, Message: "Compare failed", Cause: "[" + opts.PrevValue + " != " + f.st.val + "]"}
		}
	}
	if err == nil {
		f.st.present, f.st.val = true, value
	}
	if d == dErrAfter {
		return nil, errTransport
	}
	if err != nil {
		return nil, err
	}
	return &client.Response{Action: "compareAndSwap", Node: &client.Node{Key: key, Value: value}}, nil
}

func (f *fakeKeys) Create(ctx context.Context, key, value string) (*client.Response, error) {
	d := f.gate(callCreate)
	if d == dErr || d == dDead {
		return nil, errTransport
	}
	f.st.mu.Lock()
	defer f.st.mu.Unlock()
	var err error
	if f.st.present {
		err = client.Error{Code: client.ErrorCodeNodeExist, Message: "Key already exists", Cause: key}
	} else {
		f.st.present, f.st.val = true, value
	}
	if d == dErrAfter {
		return nil, errTransport
	}
	if err != nil {
		return nil, err
	}
	return &client.Response{Action: "create", Node: &client.Node{Key: key, Value: value}}, nil
}

func (f *fakeKeys) Delete(ctx context.Context, key string, opts *client.DeleteOptions) (*client.Response, error) {
	panic("fake etcd: Delete not used by the sequencer")
}
func (f *fakeKeys) CreateInOrder(ctx context.Context, dir, value string, opts *client.CreateInOrderOptions) (*client.Response, error) {
	panic("fake etcd: CreateInOrder not used by the sequencer")
}
func (f *fakeKeys) Update(ctx context.Context, key, value string) (*client.Response, error) {
	panic("fake etcd: Update not used by the sequencer")
}
func (f *fakeKeys) Watcher(key string, opts *client.WatcherOptions) client.Watcher {
	panic("fake etcd: Watcher not used by the sequencer")
}
