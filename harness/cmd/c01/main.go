// C01 harness: histories of write / overwrite / delete / read / mark-read-only on a
// real storage.Store volume (NeedleMapInMemory) in a temp dir.  Three layers are
// driven on the same volume: the storage API (Store.WriteVolumeNeedle,
// ReadVolumeNeedle, DeleteVolumeNeedle, MarkVolumeReadonly), the real HTTP handlers
// (PostHandler, GetOrHeadHandler with GET/HEAD in every request form, DeleteHandler)
// and the gRPC method BatchDelete of a VolumeServer built over that Store by the
// verif hook NewVerifVolumeServer.  Time is a logical clock: when it jumps, the
// AppendAtNs stamps of all stored records are moved back by the same amount, so the
// TTL test of readNeedle (which reads the wall clock) sees the jump.
package main

import (
	"bytes"
	"context"
	"encoding/json"
	"flag"
	"fmt"
	"mime"
	"mime/multipart"
	"net/http"
	"net/http/httptest"
	"net/textproto"
	"os"
	"runtime"
	"strconv"
	"strings"
	"time"

	"github.com/chrislusf/seaweedfs/weed/pb/volume_server_pb"
	weed_server "github.com/chrislusf/seaweedfs/weed/server"
	"github.com/chrislusf/seaweedfs/weed/storage"
	"github.com/chrislusf/seaweedfs/weed/storage/idx"
	"github.com/chrislusf/seaweedfs/weed/storage/needle"
	"github.com/chrislusf/seaweedfs/weed/storage/types"
	"github.com/chrislusf/seaweedfs/weed/util"
	"github.com/chrislusf/seaweedfs/weed/util/fla9"
	"verifharness/hx"
)

// ---------- model-side values ----------

type nd struct {
	id      uint64
	cookie  uint32
	data    []byte
	flags   byte
	name    []byte
	mime    []byte
	pairs   []byte
	lastmod uint64
	tc, tu  byte
}

type up struct {
	id     uint64
	cookie uint32
	data   []byte
	name   string
	ctype  string
	pairs  map[string]string // keys without the Seaweed- prefix
	ts     uint64
	ttl    string
	tc, tu byte
	gz     bool
	fsync  bool // ?fsync=true (not part of the model: Store.WriteVolumeNeedle only batches while stopping)
}

func pat(tag, n int) []byte {
	b := make([]byte, n)
	for i := range b {
		b[i] = byte((tag*131 + i*7 + i/256) % 256)
	}
	return b
}

// gzip streams the harness stores, with what util.DecompressData makes of them (the
// model's decompression oracle, emitted with every case that uses one)
var (
	gzPlain = map[string][]byte{}
	gzOrder []string
)

func noteGz(z []byte) []byte {
	if _, ok := gzPlain[string(z)]; !ok {
		p, _ := util.DecompressData(z) // on a broken stream: whatever came out before the error
		gzPlain[string(z)] = p
		gzOrder = append(gzOrder, string(z))
	}
	return z
}

func gz(b []byte) []byte {
	z, err := util.GzipData(b)
	hx.Must(err)
	return noteGz(z)
}

// dataTerm prints a payload: as `pat tag len` when it is one of the generated patterns.
func dataTerm(b []byte) string {
	if len(b) > 12 {
		if nm, ok := dictName[string(b)]; ok {
			return nm
		}
		for tag := 0; tag < 256; tag++ {
			if b[0] == byte(tag*131%256) && bytes.Equal(b, pat(tag, len(b))) {
				nm := fmt.Sprintf("d%d", len(dictLets))
				dictName[string(b)] = nm
				dictLets = append(dictLets, fmt.Sprintf("let %s := pat %d %d in ", nm, tag, len(b)))
				return nm
			}
		}
	}
	return bytesTerm(b)
}

// Byte strings of 3 bytes or more are bound once per case (`let dK := ... in`) and
// referred to by name: Coq elaborates every occurrence of a literal node by node.
var (
	dictName = map[string]string{}
	dictLets []string
)

func dictReset() {
	dictName, dictLets = map[string]string{}, nil
	gzPlain, gzOrder = map[string][]byte{}, nil
}

func bytesTerm(b []byte) string {
	if len(b) < 3 {
		return literal(b)
	}
	if nm, ok := dictName[string(b)]; ok {
		return nm
	}
	nm := fmt.Sprintf("d%d", len(dictLets))
	dictName[string(b)] = nm
	dictLets = append(dictLets, fmt.Sprintf("let %s := %s in ", nm, literal(b)))
	return nm
}

// literal prints a byte string; runs of 32 or more equal bytes become `rep b n`
func literal(b []byte) string {
	if len(b) > 40 {
		for i := 0; i < len(b); {
			j := i
			for j < len(b) && b[j] == b[i] {
				j++
			}
			if j-i >= 32 {
				parts := []string{}
				if i > 0 {
					parts = append(parts, literal(b[:i]))
				}
				parts = append(parts, fmt.Sprintf("(rep %d %d)", b[i], j-i))
				if j < len(b) {
					parts = append(parts, literal(b[j:]))
				}
				t := parts[len(parts)-1]
				for k := len(parts) - 2; k >= 0; k-- {
					t = "(cat " + parts[k] + " " + t + ")"
				}
				return t
			}
			i = j
		}
	}
	if len(b) >= 25 {
		same := true
		for _, c := range b {
			if c != b[0] {
				same = false
				break
			}
		}
		if same {
			return fmt.Sprintf("(rep %d %d)", b[0], len(b))
		}
	}
	if len(b) >= 3 {
		printable := true
		for _, c := range b {
			if c < 0x20 || c > 0x7e {
				printable = false
				break
			}
		}
		if printable {
			return `(str "` + strings.ReplaceAll(string(b), `"`, `""`) + `")`
		}
		if len(b) >= 6 {
			return fmt.Sprintf(`(hex "%x")`, b)
		}
	}
	xs := make([]string, len(b))
	for i, c := range b {
		xs[i] = strconv.Itoa(int(c))
	}
	return "[" + strings.Join(xs, ";") + "]"
}

func u(v uint64) string { return strconv.FormatUint(v, 10) }

func (n nd) term() string {
	return fmt.Sprintf("(mkn %s %s %s %d %s %s %s %s %d %d)", u(n.id), u(uint64(n.cookie)), dataTerm(n.data), n.flags,
		bytesTerm(n.name), bytesTerm(n.mime), bytesTerm(n.pairs), u(n.lastmod), n.tc, n.tu)
}

func pairsJSON(m map[string]string) []byte {
	if len(m) == 0 {
		return nil
	}
	b, err := json.Marshal(m)
	hx.Must(err)
	return b
}

func (p up) term() string {
	return fmt.Sprintf("(mku %s %s %s %s %s %s %s %d %d %s)", u(p.id), u(uint64(p.cookie)), dataTerm(p.data),
		bytesTerm([]byte(p.name)), bytesTerm([]byte(p.ctype)), bytesTerm(pairsJSON(p.pairs)), u(p.ts), p.tc, p.tu, hx.Bool(p.gz))
}

func viewTerm(cookie uint32, size int32, data []byte, flags byte, name, mime, pairs []byte, lastmod uint64, tc, tu byte) string {
	if size == 0 && len(data) == 0 && flags == 0 && len(name) == 0 && len(mime) == 0 && len(pairs) == 0 && lastmod == 0 && tc == 0 && tu == 0 {
		return fmt.Sprintf("(bv %d)", cookie)
	}
	return fmt.Sprintf("(mkv %s %d %s %d %s %s %s %s %d %d)", u(uint64(cookie)), size, dataTerm(data), flags,
		bytesTerm(name), bytesTerm(mime), bytesTerm(pairs), u(lastmod), tc, tu)
}

func zterm(v int64) string {
	if v < 0 {
		return "(" + strconv.FormatInt(v, 10) + ")%Z"
	}
	return strconv.FormatInt(v, 10) + "%Z"
}

func errClass(err error) string {
	if err == nil {
		return "ENone"
	}
	return errClassMsg(err.Error(), err)
}

func errClassMsg(msg string, err error) string {
	switch {
	case err == storage.ErrorNotFound:
		return "ENotFound"
	case err == storage.ErrorDeleted:
		return "EDeleted"
	case strings.Contains(msg, "mismatching cookie"):
		return "ECookie"
	case strings.Contains(msg, "is read only"):
		return "EReadOnly"
	}
	return "EOther"
}

// ---------- a response writer that records exactly what the handler set ----------

type rw struct {
	h    http.Header
	code int
	body bytes.Buffer
}

func newRW() *rw                          { return &rw{h: http.Header{}} }
func (r *rw) Header() http.Header         { return r.h }
func (r *rw) WriteHeader(c int)           { r.setCode(c) }
func (r *rw) Write(b []byte) (int, error) { r.setCode(200); return r.body.Write(b) }
func (r *rw) setCode(c int) {
	if r.code == 0 {
		r.code = c
	}
}
func (r *rw) status() int {
	if r.code == 0 {
		return 200
	}
	return r.code
}

var months = map[string]time.Month{"Jan": 1, "Feb": 2, "Mar": 3, "Apr": 4, "May": 5, "Jun": 6, "Jul": 7, "Aug": 8, "Sep": 9, "Oct": 10, "Nov": 11, "Dec": 12}

// parseHTTPDate reads "Mon, 02 Jan 2006 15:04:05 GMT" with a year of any length.
func parseHTTPDate(s string) uint64 {
	f := strings.Fields(s)
	if len(f) != 6 {
		panic("unexpected Last-Modified: " + s)
	}
	day, _ := strconv.Atoi(f[1])
	year, _ := strconv.Atoi(f[3])
	var hh, mm, ss int
	fmt.Sscanf(f[4], "%d:%d:%d", &hh, &mm, &ss)
	return uint64(time.Date(year, months[f[2]], day, hh, mm, ss, 0, time.UTC).Unix())
}

// ---------- one volume under test ----------

type env struct {
	s   *storage.Store
	vs  *weed_server.VolumeServer
	vid needle.VolumeId
	out *hx.Out
	// per case
	evs, impl, canon []string
	served           bool
	nops             int
	clock            uint64 // logical clock, ns
}

func (e *env) emit(op, out, canon string) {
	e.nops++
	e.clock++ // one tick (ns) per operation
	e.evs = append(e.evs, fmt.Sprintf("(%d, %s)", e.clock, op))
	e.impl = append(e.impl, out)
	e.canon = append(e.canon, canon)
}

// advance moves the logical clock forward by whole minutes; on the real volume every stored
// record gets that much older (AppendAtNs is outside the CRC).
func (e *env) advance(minutes uint64) {
	delta := minutes * 60 * 1000000000
	v := e.s.GetVolume(e.vid)
	end, _, err := v.DataBackend.GetStat()
	hx.Must(err)
	off := int64(v.SuperBlock.BlockSize())
	b := make([]byte, types.TimestampSize)
	for off < end {
		n, _, _, err := needle.ReadNeedleHeader(v.DataBackend, v.Version(), off)
		hx.Must(err)
		tsOff := off + int64(types.NeedleHeaderSize) + int64(n.Size) + int64(needle.NeedleChecksumSize)
		_, err = v.DataBackend.ReadAt(b, tsOff)
		hx.Must(err)
		util.Uint64toBytes(b, util.BytesToUint64(b)-delta)
		_, err = v.DataBackend.WriteAt(b, tsOff)
		hx.Must(err)
		off += needle.GetActualSize(n.Size, v.Version())
	}
	if off != end {
		panic("record walk does not end at the end of the .dat file")
	}
	e.clock += delta
	e.canon = append(e.canon, fmt.Sprintf("T+%dm", minutes))
	e.out.Count("clock-jump", 1)
}

func (e *env) write(n nd) {
	x := &needle.Needle{Id: types.NeedleId(n.id), Cookie: types.Cookie(n.cookie), Flags: n.flags, LastModified: n.lastmod}
	x.Data = append([]byte{}, n.data...)
	x.Name = append([]byte(nil), n.name...)
	x.Mime = append([]byte(nil), n.mime...)
	x.Pairs = append([]byte(nil), n.pairs...)
	x.PairsSize = uint16(len(n.pairs))
	if n.tc != 0 || n.tu != 0 {
		x.Ttl = &needle.TTL{Count: n.tc, Unit: n.tu}
	} else if x.HasTtl() {
		x.Ttl = needle.EMPTY_TTL // prepareWriteBuffer skips the TTL bytes of a nil Ttl although Size counts them
	}
	x.Checksum = needle.NewCRC(x.Data)
	unchanged, err := e.s.WriteVolumeNeedle(e.vid, x, false)
	size := x.Size
	e.emit("Wr "+n.term(), fmt.Sprintf("oW %s %s %d", errClass(err), hx.Bool(unchanged), size),
		fmt.Sprintf("W%d.%x.%d.%x.f%x.%d:%.20s.%d:%.20s.%d:%.20s.%d.%d.%d", n.id, n.cookie, len(n.data), needle.NewCRC(n.data).Value(), n.flags,
			len(n.name), n.name, len(n.mime), n.mime, len(n.pairs), n.pairs, n.lastmod, n.tc, n.tu))
	e.out.Count("op:write", 1)
	e.out.Count("write:"+errClass(err)+map[bool]string{true: "-unchanged", false: ""}[unchanged], 1)
	e.out.Count(fmt.Sprintf("size:%d", len(n.data)), 1)
}

func fidPath(vid needle.VolumeId, id uint64, cookie uint32) string {
	return fmt.Sprintf("/%d,%x%08x", vid, id, cookie)
}

func (e *env) post(p up) {
	var b bytes.Buffer
	mw := multipart.NewWriter(&b)
	h := make(textproto.MIMEHeader)
	h.Set("Content-Disposition", fmt.Sprintf(`form-data; name="file"; filename="%s"`, p.name))
	if p.ctype != "" {
		h.Set("Content-Type", p.ctype)
	}
	if p.gz {
		h.Set("Content-Encoding", "gzip")
	}
	pw, err := mw.CreatePart(h)
	hx.Must(err)
	pw.Write(p.data)
	hx.Must(mw.Close())
	q := "ts=" + u(p.ts)
	if p.ttl != "" {
		q += "&ttl=" + p.ttl
	}
	if p.fsync {
		q += "&fsync=true"
	}
	req := httptest.NewRequest("POST", fidPath(e.vid, p.id, p.cookie)+"?"+q, &b)
	req.Header.Set("Content-Type", mw.FormDataContentType())
	for k, v := range p.pairs {
		req.Header.Set(needle.PairNamePrefix+k, v)
	}
	w := newRW()
	e.vs.PostHandler(w, req)
	cls := "ENone"
	if w.status() >= 300 {
		var m map[string]interface{}
		json.Unmarshal(w.body.Bytes(), &m)
		msg, _ := m["error"].(string)
		cls = errClassMsg(msg, nil)
	}
	pl := 0
	for _, v := range p.pairs {
		pl += len(v)
	}
	e.emit("Po "+p.term(), fmt.Sprintf("oP %d %s", w.status(), cls),
		fmt.Sprintf("P%d.%x.%d.%x.%d:%.20s.%d:%.20s.%d/%d.%d.%s.%v.%v", p.id, p.cookie, len(p.data), needle.NewCRC(p.data).Value(),
			len(p.name), p.name, len(p.ctype), p.ctype, len(p.pairs), pl, p.ts, p.ttl, p.gz, p.fsync))
	e.out.Count("op:post", 1)
	e.out.Count(fmt.Sprintf("post:%d", w.status()), 1)
	e.out.Count(fmt.Sprintf("size:%d", len(p.data)), 1)
}

var pairKeys = []string{"K1", "K2"}

// what a GET/HEAD answered: the hview term and Content-Length
func (e *env) readResponse(w *rw) (string, uint64) {
	name := ""
	if cd := w.h.Get("Content-Disposition"); cd != "" {
		const pre = `inline; filename="`
		if !strings.HasPrefix(cd, pre) || !strings.HasSuffix(cd, `"`) {
			panic("unexpected Content-Disposition " + cd)
		}
		name = cd[len(pre) : len(cd)-1]
	}
	var lastmod uint64
	if lm := w.h.Get("Last-Modified"); lm != "" {
		lastmod = parseHTTPDate(lm)
	}
	pm := map[string]string{}
	for _, k := range pairKeys {
		if v, ok := w.h[k]; ok && len(v) > 0 {
			pm[k] = v[0]
		}
	}
	body := w.body.Bytes()
	var clen uint64
	if cl := w.h.Get("Content-Length"); cl != "" {
		clen, _ = strconv.ParseUint(cl, 10, 64)
	}
	if w.status() == 200 && (len(body) > 0 || clen > 0) {
		e.served = true
	}
	ctype, isGz := w.h.Get("Content-Type"), w.h.Get("Content-Encoding") == "gzip"
	if w.status() == 404 && len(body) == 0 && name == "" && ctype == "" && len(pm) == 0 && lastmod == 0 && !isGz && clen == 0 {
		return "", 0
	}
	return fmt.Sprintf("(mkh %s %s %s %s %s %s)", dataTerm(body), bytesTerm([]byte(name)),
		bytesTerm([]byte(ctype)), bytesTerm(pairsJSON(pm)), u(lastmod), hx.Bool(isGz)), clen
}

// the plain GET of the first round: /vid,fid with Accept-Encoding: gzip
func (e *env) get(id uint64, cookie uint32, rd bool) {
	url := fidPath(e.vid, id, cookie)
	if rd {
		url += "?readDeleted=true"
	}
	req := httptest.NewRequest("GET", url, nil)
	req.Header.Set("Accept-Encoding", "gzip")
	w := newRW()
	e.vs.GetOrHeadHandler(w, req)
	hv, _ := e.readResponse(w)
	obs := fmt.Sprintf("oG %d %s", w.status(), hv)
	if hv == "" {
		obs = "g404"
	}
	e.emit(fmt.Sprintf("Ge %d %d %s", id, cookie, hx.Bool(rd)), obs, fmt.Sprintf("G%d.%x.%v", id, cookie, rd))
	e.out.Count("op:get", 1)
	e.out.Count(fmt.Sprintf("get:%d", w.status()), 1)
}

// GET / HEAD in any request form.  form: 0 /vid,fid  1 /vid,fid.ext  2 /vid/fid  3 /vid/fid.ext
// 4 /vid/fid/urlName
func (e *env) getx(id uint64, cookie uint32, rd, acceptGz, head bool, form int, urlName string) {
	fid := fmt.Sprintf("%x%08x", id, cookie)
	var url string
	modelName := ""
	switch form {
	case 0:
		url = fmt.Sprintf("/%d,%s", e.vid, fid)
	case 1:
		url = fmt.Sprintf("/%d,%s.zz9", e.vid, fid)
	case 2:
		url = fmt.Sprintf("/%d/%s", e.vid, fid)
	case 3:
		url = fmt.Sprintf("/%d/%s.css", e.vid, fid)
	default:
		url = fmt.Sprintf("/%d/%s/%s", e.vid, fid, urlName)
		modelName = urlName
	}
	if rd {
		url += "?readDeleted=true"
	}
	method := "GET"
	if head {
		method = "HEAD"
	}
	req := httptest.NewRequest(method, url, nil)
	if acceptGz {
		req.Header.Set("Accept-Encoding", "gzip")
	}
	w := newRW()
	e.vs.GetOrHeadHandler(w, req)
	hv, clen := e.readResponse(w)
	obs := fmt.Sprintf("XOGet %d %s %d", w.status(), hv, clen)
	if hv == "" {
		obs = "x404"
	}
	e.emit(fmt.Sprintf("Gx %d %d %s %s %s %s", id, cookie, hx.Bool(rd), hx.Bool(acceptGz), hx.Bool(head), bytesTerm([]byte(modelName))), obs,
		fmt.Sprintf("GX%d.%x.%v.%v.%v.%d.%s", id, cookie, rd, acceptGz, head, form, urlName))
	e.out.Count("op:getx", 1)
	e.out.Count(fmt.Sprintf("getx:%d", w.status()), 1)
	e.out.Count(fmt.Sprintf("getx-form:%d", form), 1)
	if head {
		e.out.Count("getx:head", 1)
	}
	if !acceptGz {
		e.out.Count("getx:no-accept-encoding", 1)
	}
}

// HTTP DELETE; variant 1 adds ?ts=, variant 2 ?type=replicate (neither is visible to reads)
func (e *env) del(id uint64, cookie uint32, variant int) {
	url := fidPath(e.vid, id, cookie)
	switch variant {
	case 1:
		url += "?ts=77"
	case 2:
		url += "?type=replicate"
	}
	req := httptest.NewRequest("DELETE", url, nil)
	w := newRW()
	e.vs.DeleteHandler(w, req)
	var m map[string]interface{}
	json.Unmarshal(w.body.Bytes(), &m)
	size := uint64(0)
	if f, ok := m["size"].(float64); ok {
		size = uint64(f)
	}
	e.emit(fmt.Sprintf("De %d %d", id, cookie), fmt.Sprintf("oD %d %d", w.status(), size), fmt.Sprintf("D%d.%x.%d", id, cookie, variant))
	e.out.Count("op:del", 1)
	e.out.Count(fmt.Sprintf("del:%d", w.status()), 1)
}

type fidc struct {
	id     uint64
	cookie uint32
}

// gRPC BatchDelete, called as the generated server stub would call it
func (e *env) batch(fids []fidc, skip bool) {
	req := &volume_server_pb.BatchDeleteRequest{SkipCookieCheck: skip}
	var ts, cs []string
	for _, f := range fids {
		req.FileIds = append(req.FileIds, fmt.Sprintf("%d,%x%08x", e.vid, f.id, f.cookie))
		ts = append(ts, fmt.Sprintf("(%d, %d)", f.id, f.cookie))
		cs = append(cs, fmt.Sprintf("%d.%x", f.id, f.cookie))
	}
	resp, err := e.vs.BatchDelete(context.Background(), req)
	hx.Must(err)
	var rs []string
	for _, r := range resp.Results {
		rs = append(rs, fmt.Sprintf("(%d, %d)", r.Status, r.Size))
		e.out.Count(fmt.Sprintf("batch:%d", r.Status), 1)
	}
	e.emit(fmt.Sprintf("Bd [%s] %s", strings.Join(ts, "; "), hx.Bool(skip)), fmt.Sprintf("XOBatch [%s]", strings.Join(rs, "; ")),
		fmt.Sprintf("B%v[%s]", skip, strings.Join(cs, ",")))
	e.out.Count("op:batchdelete", 1)
	if skip {
		e.out.Count("batch:skip-cookie-check", 1)
	}
}

func (e *env) rawRead(id uint64, cookie uint32, rd bool, nilOpt bool) {
	n := &needle.Needle{Id: types.NeedleId(id), Cookie: types.Cookie(cookie)}
	var opt *storage.ReadOption
	if rd || !nilOpt {
		opt = &storage.ReadOption{ReadDeleted: rd}
	}
	count, err := e.s.ReadVolumeNeedle(e.vid, n, opt)
	// the needle as the call left it, on every path (an expired needle has been filled in)
	var tc, tu byte
	if n.Ttl != nil {
		tc, tu = n.Ttl.Count, n.Ttl.Unit
	}
	v := viewTerm(uint32(n.Cookie), int32(n.Size), n.Data, n.Flags, n.Name, n.Mime, n.Pairs, n.LastModified, tc, tu)
	if err == nil && len(n.Data) > 0 {
		e.served = true
	}
	e.emit(fmt.Sprintf("Rr %d %d %s", id, cookie, hx.Bool(rd)), fmt.Sprintf("oR %s %s %s", errClass(err), zterm(int64(count)), v),
		fmt.Sprintf("R%d.%x.%v", id, cookie, rd))
	e.out.Count("op:rawread", 1)
	e.out.Count("rawread:"+errClass(err), 1)
	if err == storage.ErrorNotFound && n.Size != 0 {
		e.out.Count("rawread:expired", 1)
	}
}

func (e *env) rawDelete(id uint64, cookie uint32) {
	n := &needle.Needle{Id: types.NeedleId(id), Cookie: types.Cookie(cookie)}
	size, err := e.s.DeleteVolumeNeedle(e.vid, n)
	e.emit(fmt.Sprintf("Rd %d %d", id, cookie), fmt.Sprintf("oX %s %s", errClass(err), zterm(int64(size))), fmt.Sprintf("X%d.%x", id, cookie))
	e.out.Count("op:rawdelete", 1)
	e.out.Count("rawdelete:"+errClass(err), 1)
}

func (e *env) setNWOD(b bool) {
	if b {
		hx.Must(e.s.MarkVolumeReadonly(e.vid))
	} else {
		hx.Must(e.s.MarkVolumeWritable(e.vid))
	}
	e.emit("Ro "+hx.Bool(b), "oU", "RO"+hx.Bool(b))
	e.out.Count("op:mark-readonly", 1)
}

func (e *env) setNWCD(b bool) {
	e.s.GetVolume(e.vid).VerifSetNoWriteCanDelete(b)
	e.emit("Rc "+hx.Bool(b), "oU", "RC"+hx.Bool(b))
	e.out.Count("op:mark-nowrite-candelete", 1)
}

func (e *env) begin(caseNo int) {
	e.vid = needle.VolumeId(caseNo + 1)
	hx.Must(e.s.AddVolume(e.vid, "", storage.NeedleMapInMemory, "000", "", 0, 0, types.HardDriveType))
	e.evs, e.impl, e.canon, e.served, e.nops, e.clock = nil, nil, nil, false, 0, 0
	dictReset()
}

func (e *env) end(keys []uint64, kind string, t0 time.Time) {
	v := e.s.GetVolume(e.vid)
	datSize, _, _ := v.FileStat()
	var fin []string
	for _, k := range keys {
		off, size, ok := v.VerifNeedleMapEntry(k)
		if ok {
			fin = append(fin, fmt.Sprintf("(%d, Some (%d, %s))", k, off, zterm(int64(size))))
		} else {
			fin = append(fin, fmt.Sprintf("(%d, None)", k))
		}
	}
	// the .idx file as it is on disk
	raw, err := os.ReadFile(v.FileName(".idx"))
	hx.Must(err)
	if len(raw)%types.NeedleMapEntrySize != 0 {
		panic("ragged .idx file")
	}
	var ix []string
	for i := 0; i+types.NeedleMapEntrySize <= len(raw); i += types.NeedleMapEntrySize {
		key, off, size := idx.IdxFileEntry(raw[i : i+types.NeedleMapEntrySize])
		ix = append(ix, fmt.Sprintf("(%d, %d, %s)", uint64(key), off.ToActualOffset(), zterm(int64(size))))
	}
	e.out.Count("idx-entries", len(ix))
	if time.Since(t0) > 20*time.Second {
		panic("case took longer than 20 s: clock jumps and TTLs are whole minutes, the real time a case takes must stay far below one")
	}
	var tab []string
	for _, z := range gzOrder {
		tab = append(tab, fmt.Sprintf("(%s, %s)", dataTerm([]byte(z)), dataTerm(gzPlain[z])))
	}
	term := fmt.Sprintf("(%s{| evs := [%s]; impl := [%s]; gz_tab := [%s]; fin_dat := %d; fin_nm := [%s]; fin_idx := [%s] |})%%N",
		strings.Join(dictLets, ""), strings.Join(e.evs, "; "), strings.Join(e.impl, "; "), strings.Join(tab, "; "), datSize,
		strings.Join(fin, "; "), strings.Join(ix, "; "))
	e.out.Add(term, strings.Join(e.canon, ";"), e.served, kind)
	e.out.Count("ops", e.nops)
	// The volume is left open (2 descriptors) and removed with the temp dir at exit:
	// closing it costs three fsyncs per case.
}

// ---------- generators ----------

var (
	keys    = []uint64{1, 2, 3, 7}
	cookies = []uint32{0x11, 0x2222, 0xfffffffe}
	sizes   = []int{0, 1, 7, 8, 9, 255, 256, 4096}
	names   = []string{"", "a", "n1", "name-xyz", strings.Repeat("q", 255), "a.css", "B.PDF", "x.zz9", ".css", strings.Repeat("r", 128), strings.Repeat("s", 127)}
	// through PostHandler only: too long for CreateNeedleFromRequest to keep
	longName  = strings.Repeat("q", 256)
	longCtype = "text/" + strings.Repeat("m", 295)
	mimes     = []string{"", "text/x-a", "image/x-b", "application/octet-stream", "application/octet-stream;x=1", strings.Repeat("m", 255), "text/css; charset=utf-8"}
	ctypes    = []string{"", "text/x-a", "image/x-b", "application/octet-stream", "text/css; charset=utf-8", "application/pdf"}
	urlNames  = []string{"u.css", "v.zz9", "w", "z.pdf"}
	lastmods  = []uint64{0, 1, 12345, 4294967295, 1099511627775}
	tss       = []uint64{1, 12345, 4294967295}
	ttls      = [][2]byte{{0, 0}, {3, 1}, {0, 1}, {5, 2}, {7, 0}, {255, 6}, {1, 1}}
	ttlStrs   = []string{"", "3m", "0m", "5h", "2d", "1m"}
	ttlOf     = map[string][2]byte{"": {0, 0}, "3m": {3, 1}, "0m": {0, 1}, "5h": {5, 2}, "2d": {2, 3}, "1m": {1, 1}}
	jumps     = []uint64{1, 1, 2, 3, 299, 300}
	pairSets  = []map[string]string{nil, {"K1": "v1"}, {"K1": "v1", "K2": "w"}, {"K2": "zz"}}
	// json.Marshal gives 65536 bytes: one more than CreateNeedleFromRequest keeps
	hugePairs = map[string]string{"K1": strings.Repeat("v", 65536-9)}
	brokenGz  = []byte{31, 139, 8, 0, 1, 2, 3, 4, 5, 6, 7}
)

// the model's mime_by_ext table against the real mime package
func checkMimeTable() {
	want := map[string]string{".css": "text/css; charset=utf-8", ".pdf": "application/pdf", ".CSS": "text/css; charset=utf-8", ".PDF": "application/pdf", ".zz9": ""}
	for ext, m := range want {
		if got := mime.TypeByExtension(ext); got != m {
			panic(fmt.Sprintf("mime.TypeByExtension(%q) = %q here; the model (mime_by_ext) says %q", ext, got, m))
		}
	}
}

type gen struct {
	r        *hx.Rng
	dirty    map[uint64]bool // keys that may be written with an empty payload / a metadata-only change
	empty    bool
	meta     bool
	tag      int
	assigned map[uint64]uint32
	written  []nd // needles written through Write/Post (as the model sees them)
	uploads  []up
}

func (g *gen) cookieFor(id uint64) uint32 {
	if c, ok := g.assigned[id]; ok && g.r.Chance(4, 5) {
		return c
	}
	c := cookies[g.r.Intn(len(cookies))]
	if _, ok := g.assigned[id]; !ok {
		g.assigned[id] = c
	}
	return c
}

func (g *gen) payload(id uint64, compressed bool) []byte {
	size := sizes[g.r.Intn(len(sizes))]
	if size == 4096 && g.r.Chance(2, 3) {
		size = sizes[g.r.Intn(len(sizes)-1)] // the 4 KiB payload is the expensive one for the model side
	}
	if size == 0 && !(g.empty && g.dirty[id]) {
		size = 1 + g.r.Intn(12)
	}
	if size == 0 {
		return nil
	}
	g.tag = (g.tag + 1) % 256
	if compressed && g.r.Bool() {
		if g.r.Chance(1, 6) {
			return noteGz(append([]byte{}, brokenGz...))
		}
		return gz(pat(g.tag, 1+g.r.Intn(20)))
	}
	return pat(g.tag, size)
}

func expirable(n nd) bool {
	if n.flags&0x10 == 0 || n.flags&0x08 == 0 {
		return false
	}
	return (&needle.TTL{Count: n.tc, Unit: n.tu}).Minutes() != 0
}

func (g *gen) needle() nd {
	// a duplicate of an earlier write: same id, cookie, bytes
	if len(g.written) > 0 && g.r.Chance(1, 4) {
		n := g.written[g.r.Intn(len(g.written))]
		if g.meta && g.dirty[n.id] {
			switch g.r.Intn(5) {
			case 0:
				n.name = []byte(g.r.PickStr(names))
				n.flags |= 0x02
			case 1:
				n.mime = []byte(g.r.PickStr(mimes))
				n.flags |= 0x04
			case 2:
				n.lastmod = g.r.PickU64(lastmods)
				n.flags |= 0x08
			case 3:
				n.flags ^= 0x01
			}
			return n
		}
		if !expirable(n) {
			return n
		}
	}
	id := keys[g.r.Intn(len(keys))]
	n := nd{id: id, cookie: g.cookieFor(id)}
	for _, bit := range []byte{0x01, 0x02, 0x04, 0x08, 0x10, 0x20} {
		if g.r.Chance(3, 5) {
			n.flags |= bit
		}
	}
	n.data = g.payload(id, n.flags&0x01 != 0)
	if n.flags&0x02 != 0 || g.r.Chance(1, 4) {
		n.name = []byte(g.r.PickStr(names))
	}
	if n.flags&0x04 != 0 || g.r.Chance(1, 4) {
		n.mime = []byte(g.r.PickStr(mimes))
	} else if g.r.Chance(1, 12) {
		n.mime = bytes.Repeat([]byte("m"), 256+44*g.r.Intn(2)) // no FlagHasMime: never written
	}
	if n.flags&0x20 != 0 || g.r.Chance(1, 4) {
		n.pairs = pairsJSON(pairSets[g.r.Intn(len(pairSets))])
	} else if g.r.Chance(1, 40) {
		n.pairs = bytes.Repeat([]byte("p"), 65536) // no FlagHasPairs: never written
	}
	if n.flags&0x08 != 0 || g.r.Chance(1, 4) {
		n.lastmod = g.r.PickU64(lastmods)
	}
	if n.flags&0x10 != 0 || g.r.Chance(1, 4) {
		t := ttls[g.r.Intn(len(ttls))]
		n.tc, n.tu = t[0], t[1]
	}
	return n
}

func (g *gen) upload() up {
	if len(g.uploads) > 0 && g.r.Chance(1, 4) {
		p := g.uploads[g.r.Intn(len(g.uploads))]
		if g.meta && g.dirty[p.id] {
			switch g.r.Intn(4) {
			case 0:
				p.name = g.r.PickStr(names)
			case 1:
				p.ctype = g.r.PickStr(ctypes)
			case 2:
				p.ts = g.r.PickU64(tss)
			}
			return p
		}
		if p.ttl == "" || p.ttl == "0m" {
			return p
		}
	}
	id := keys[g.r.Intn(len(keys))]
	p := up{id: id, cookie: g.cookieFor(id)}
	p.gz = g.r.Chance(1, 4)
	if p.gz {
		g.tag = (g.tag + 1) % 256
		if g.r.Chance(1, 8) {
			p.data = noteGz(append([]byte{}, brokenGz...))
		} else {
			p.data = gz(pat(g.tag, 1+g.r.Intn(20)))
		}
	} else {
		p.data = g.payload(id, false)
	}
	p.name = g.r.PickStr(names)
	p.ctype = g.r.PickStr(ctypes)
	p.pairs = pairSets[g.r.Intn(len(pairSets))]
	switch g.r.Intn(40) {
	case 0:
		p.name = longName
	case 1:
		p.ctype = longCtype
	case 2:
		p.pairs = hugePairs
	}
	p.ts = g.r.PickU64(tss)
	p.ttl = g.r.PickStr(ttlStrs)
	t := ttlOf[p.ttl]
	p.tc, p.tu = t[0], t[1]
	p.fsync = g.r.Chance(1, 6)
	return p
}

// the needle CreateNeedleFromRequest builds (only used to remember what was uploaded so
// that Write can later duplicate it; the Coq model derives it on its own)
func needleOfUpload(p up) nd {
	n := nd{id: p.id, cookie: p.cookie, data: p.data, lastmod: p.ts, tc: p.tc, tu: p.tu}
	n.flags = 0x08
	if len(p.name) < 256 {
		n.name = []byte(p.name)
		n.flags |= 0x02
	}
	mtype := ""
	if i := strings.LastIndex(p.name, "."); i > 0 {
		mtype = mime.TypeByExtension(strings.ToLower(p.name[i:]))
	}
	mt := ""
	if p.ctype != "" && p.ctype != "application/octet-stream" && p.ctype != mtype {
		mt = p.ctype
	}
	if len(mt) < 256 {
		n.mime = []byte(mt)
		n.flags |= 0x04
	}
	if pj := pairsJSON(p.pairs); len(pj) > 0 && len(pj) < 65536 {
		n.pairs = pj
		n.flags |= 0x20
	}
	if p.gz {
		n.flags |= 0x01
	}
	if p.ttl != "" {
		n.flags |= 0x10
	}
	return n
}

func (g *gen) getx(e *env, id uint64) {
	r := g.r
	form := r.Intn(5)
	name := ""
	if form == 4 {
		name = r.PickStr(urlNames)
	}
	e.getx(id, g.cookieFor(id), r.Chance(1, 10), r.Chance(1, 2), r.Chance(1, 3), form, name)
}

func randomCase(e *env, r *hx.Rng) string {
	g := &gen{r: r, assigned: map[uint64]uint32{}, dirty: map[uint64]bool{}}
	kind := "clean"
	switch k := r.Intn(20); {
	case k < 5:
		g.empty = true
		kind = "with-empty"
	case k < 9:
		g.meta = true
		kind = "with-meta-dup"
	case k < 10:
		g.empty, g.meta = true, true
		kind = "with-empty+meta-dup"
	}
	if g.empty || g.meta {
		// the findings are confined to some keys; the others have to answer per specification
		for len(g.dirty) == 0 {
			for _, k := range keys {
				if r.Chance(1, 3) {
					g.dirty[k] = true
				}
			}
		}
		kind += fmt.Sprintf("-on-%d-keys", len(g.dirty))
	}
	nops := r.Range(4, 30)
	for j := 0; j < nops; j++ {
		id := keys[r.Intn(len(keys))]
		switch k := r.Intn(100); {
		case k < 20:
			n := g.needle()
			e.write(n)
			g.written = append(g.written, n)
		case k < 33:
			p := g.upload()
			e.post(p)
			g.uploads = append(g.uploads, p)
			g.written = append(g.written, needleOfUpload(p))
		case k < 45:
			e.get(id, g.cookieFor(id), r.Chance(1, 8))
		case k < 57:
			g.getx(e, id)
		case k < 66:
			e.del(id, g.cookieFor(id), r.Intn(3))
		case k < 76:
			e.rawRead(id, g.cookieFor(id), r.Chance(1, 8), r.Bool())
		case k < 82:
			e.rawDelete(id, g.cookieFor(id))
		case k < 88:
			var fids []fidc
			for n := r.Range(1, 3); n > 0; n-- {
				bid := keys[r.Intn(len(keys))]
				fids = append(fids, fidc{bid, g.cookieFor(bid)})
			}
			e.batch(fids, r.Chance(1, 4))
		case k < 93:
			e.advance(jumps[r.Intn(len(jumps))])
		case k < 98:
			e.setNWOD(r.Chance(1, 2))
		default:
			e.setNWCD(r.Chance(1, 2))
		}
	}
	// final sweep: what every key reads as, through both layers
	for _, id := range keys {
		c := g.cookieFor(id)
		e.get(id, c, false)
		e.rawRead(id, c, false, true)
	}
	return kind
}

// witnesses of the known findings, emitted first on every run
func witnessEmpty(e *env) {
	e.write(nd{id: 1, cookie: 0xa, flags: 0x02, name: []byte("nm")})
	e.get(1, 0xb, false)
	e.del(1, 0xa, 0)
	e.get(1, 0xa, false)
}

func witnessUnchanged(e *env) {
	e.post(up{id: 4, cookie: 0xc, data: []byte("hello"), name: "n1", ctype: "text/x-a", ts: 12345})
	e.post(up{id: 4, cookie: 0xc, data: []byte("hello"), name: "n2", ctype: "text/x-b", ts: 12346})
	e.get(4, 0xc, false)
}

// the history of c01_example_per_key: key 1 under finding 0, key 2 untouched until a BatchDelete
// names both
func witnessPerKey(e *env) {
	e.write(nd{id: 1, cookie: 10, flags: 0x02, name: []byte("nm")})
	e.write(nd{id: 2, cookie: 20, data: []byte{1, 2, 3}, flags: 14, name: []byte("a.css"), lastmod: 100})
	e.get(1, 11, false)
	e.getx(2, 20, false, false, true, 0, "")
	e.write(nd{id: 2, cookie: 20, data: []byte{4, 5}, flags: 14, name: []byte("n2"), mime: []byte("t/b"), lastmod: 200})
	e.del(2, 21, 0)
	e.batch([]fidc{{2, 21}, {2, 20}}, false)
	e.batch([]fidc{{1, 11}, {2, 20}}, false)
	e.get(2, 20, false)
}

// TTL expiry, executed: a 3-minute blob is readable after 2 minutes and gone after 3 through every
// entry point; nothing can delete it then; an overwrite brings the id back
func witnessExpiry(e *env) {
	e.post(up{id: 3, cookie: 0x33, data: []byte("short-lived"), name: "t.css", ts: 500, ttl: "3m", tc: 3, tu: 1})
	e.advance(2)
	e.rawRead(3, 0x33, false, true)
	e.get(3, 0x33, false)
	e.advance(1)
	e.rawRead(3, 0x33, false, true)
	e.rawRead(3, 0x33, true, false)
	e.get(3, 0x33, false)
	e.getx(3, 0x33, false, false, true, 4, "u.css")
	e.del(3, 0x33, 0)
	e.batch([]fidc{{3, 0x33}}, false)
	e.post(up{id: 3, cookie: 0x33, data: []byte("again"), name: "t.css", ts: 501})
	e.get(3, 0x33, false)
	e.batch([]fidc{{3, 0x34}}, true)
	e.get(3, 0x33, false)
}

// bounded-exhaustive: every sequence of [length] operations from a 12-symbol alphabet over
// 2 keys x 2 cookies, each followed by a GET of the fids of the keys it names; a full sweep of
// both layers at the end.
var exKeys = []uint64{1, 2}
var exCookies = []uint32{0x11, 0x2222}

const exSymbols = 12

func exhaustiveCase(e *env, index, length int) {
	ro := false
	for pos := 0; pos < length; pos++ {
		sym := index % exSymbols
		index /= exSymbols
		tag := pos / 2 // positions 0,1 carry the same bytes (unchanged path), 2,3 other bytes (overwrite)
		upl := func(id uint64, cookie uint32) up {
			return up{id: id, cookie: cookie, data: pat(tag+1, 3), name: fmt.Sprintf("n%d", tag), ctype: "text/x-a", ts: uint64(100 + tag)}
		}
		touched := []uint64{1}
		switch sym {
		case 0:
			e.post(upl(1, exCookies[0]))
		case 1:
			e.post(upl(1, exCookies[1]))
		case 2:
			e.post(upl(2, exCookies[0]))
			touched = []uint64{2}
		case 3:
			e.del(1, exCookies[0], 0)
		case 4:
			e.del(1, exCookies[1], 0)
		case 5:
			e.del(2, exCookies[0], 0)
			touched = []uint64{2}
		case 6: // empty payload (finding 0)
			p := upl(1, exCookies[0])
			p.data = nil
			e.post(p)
		case 7: // Store.DeleteVolumeNeedle: no cookie check
			e.rawDelete(1, exCookies[1])
		case 8: // read-only toggle
			ro = !ro
			e.setNWOD(ro)
			touched = nil
		case 9: // Store.WriteVolumeNeedle: the bytes of this position under another name (finding 1 after a Post)
			e.write(nd{id: 1, cookie: exCookies[0], data: pat(tag+1, 3), flags: 0x0e, name: []byte("w"), mime: []byte("text/x-a"), lastmod: uint64(100 + tag)})
		case 10: // BatchDelete: a foreign cookie for key 1 ends the batch before key 2
			e.batch([]fidc{{1, exCookies[1]}, {2, exCookies[0]}}, false)
			touched = []uint64{1, 2}
		case 11: // the other cookie through the storage API (rejected while the id is known)
			e.write(nd{id: 2, cookie: exCookies[1], data: pat(tag+1, 3), flags: 0x0a, name: []byte("v"), lastmod: 7})
			touched = []uint64{2}
		}
		for _, k := range touched {
			for _, c := range exCookies {
				e.get(k, c, false)
			}
		}
	}
	for _, k := range exKeys {
		for _, c := range exCookies {
			e.get(k, c, false)
		}
		e.rawRead(k, exCookies[0], false, true)
	}
}

func main() {
	mode := flag.String("mode", "random", "random|exhaustive")
	out := hx.Flags("C01", 200)
	runtime.GOMAXPROCS(2) // the histories are sequential; shards run as parallel processes
	// glog registers its flags with the repo's own flag package
	hx.Must(fla9.Set("alsologtostderr", "false"))
	hx.Must(fla9.Set("stderrthreshold", "FATAL"))
	checkMimeTable()
	dir, err := os.MkdirTemp("", "c01-vol")
	hx.Must(err)
	defer os.RemoveAll(dir)
	s := storage.NewStore(nil, 0, "localhost", "localhost", []string{dir}, []int{1 << 20},
		[]util.MinFreeSpace{{Type: util.AsPercent, Percent: 0}}, "", storage.NeedleMapInMemory, []types.DiskType{types.HardDriveType})
	go func() {
		for range s.NewVolumesChan {
		}
	}()
	go func() {
		for range s.DeletedVolumesChan {
		}
	}()
	e := &env{s: s, vs: weed_server.NewVerifVolumeServer(s, 256<<20), out: out}

	if *mode == "probe-long-mime" {
		// Not part of the check: shows what Store.WriteVolumeNeedle does with a needle outside
		// wf_needle (a 300-byte mime under FlagHasMime), the precondition of the C01 model.
		e.begin(0)
		x := &needle.Needle{Id: 1, Cookie: 0x11, Flags: 0x04, Data: []byte("abc"), Mime: bytes.Repeat([]byte("m"), 300)}
		x.Checksum = needle.NewCRC(x.Data)
		_, werr := s.WriteVolumeNeedle(e.vid, x, false)
		datSize, _, _ := s.GetVolume(e.vid).FileStat()
		rd := &needle.Needle{Id: 1, Cookie: 0x11}
		cnt, rerr := s.ReadVolumeNeedle(e.vid, rd, nil)
		fmt.Fprintf(os.Stderr, "write err=%v Size=%d MimeSize=%d dat=%d (superblock 8 + GetActualSize(Size) %d); read count=%d err=%v\n",
			werr, x.Size, x.MimeSize, datSize, needle.GetActualSize(x.Size, needle.Version3), cnt, rerr)
		return
	}

	if *mode == "exhaustive" {
		length := 3
		if out.Tier == "thorough" {
			length = 4
		}
		total := 1
		for i := 0; i < length; i++ {
			total *= exSymbols
		}
		out.Rule = fmt.Sprintf("bounded-exhaustive: all %d sequences of %d operations from a 12-symbol alphabet over 2 keys x 2 cookies (upload k1/cookie A, k1/B, k2/A; DELETE k1/A, k1/B, k2/A; empty upload; Store.DeleteVolumeNeedle; read-only toggle; Store.WriteVolumeNeedle with the same bytes and another name; BatchDelete [k1/B, k2/A]; Store.WriteVolumeNeedle k2/B), each operation followed by a GET of the named keys with both cookies, a sweep of all fids through GET and ReadVolumeNeedle at the end; indices beyond the total are sequences of length+1 sampled by index stride; shard k covers indices [k*n, (k+1)*n); non-trivial = some GET served a non-empty body; distinct = canonical op list", total, length)
		shard := int(out.Seed % 1000)
		seedBase := int(out.Seed / 1000)
		for i := 0; i < out.N; i++ {
			t0 := time.Now()
			e.begin(i)
			ix := shard*out.N + i
			if ix < total {
				exhaustiveCase(e, ix, length)
			} else {
				// a seed-dependent sample of the next length
				big := total * exSymbols
				exhaustiveCase(e, ((ix-total)*7919+seedBase*104729)%big, length+1)
			}
			e.end(exKeys, "exhaustive", t0)
		}
		out.Write()
		return
	}

	out.Rule = "cases 0..3 = witnesses (finding 0, finding 1, per-key confinement, TTL expiry); then random histories (4..30 ops + a final GET/read sweep) of Write (Store.WriteVolumeNeedle, random flag sets), Post, Get, GET/HEAD in 5 URL forms with and without Accept-Encoding, Del (HTTP, also with ts= / type=replicate), BatchDelete (1..3 fids, with and without SkipCookieCheck), RawRead, RawDelete, mark-read-only, clock jumps of 1..300 minutes, over 4 keys x 3 cookies, payload sizes {0,1,7,8,9,255,256,4096} + gzip streams (also a broken one), names/mimes/pairs/last-modified/ttl from small universes incl. 127/128/255-byte names, names with known/unknown extensions, 256-byte names, 300-byte content types and 64 KiB pairs through Post; 1/4 of writes repeat an earlier (id,cookie,bytes): exactly in 'clean' cases, with changed metadata on the chosen keys in 'with-meta-dup' cases; empty payloads only on the chosen keys of 'with-empty' cases; non-trivial = some read/GET served a non-empty payload; distinct = canonical op list"
	root := hx.NewRng(out.Seed)
	for i := 0; i < out.N; i++ {
		r := root.Fork()
		t0 := time.Now()
		e.begin(i)
		kind := ""
		switch i {
		case 0:
			witnessEmpty(e)
			kind = "witness-empty-blob"
		case 1:
			witnessUnchanged(e)
			kind = "witness-unchanged-drops-metadata"
		case 2:
			witnessPerKey(e)
			kind = "witness-per-key"
		case 3:
			witnessExpiry(e)
			kind = "witness-ttl-expiry"
		default:
			kind = randomCase(e, r)
		}
		e.end(keys, kind, t0)
	}
	out.Write()
}
