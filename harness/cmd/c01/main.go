// C01 harness: histories of write / overwrite / delete / read / mark-read-only on a
// real storage.Store volume (NeedleMapInMemory) in a temp dir.  Two layers are
// driven on the same volume: the storage API (Store.WriteVolumeNeedle,
// ReadVolumeNeedle, DeleteVolumeNeedle, MarkVolumeReadonly) and the real HTTP
// handlers (PostHandler, GetOrHeadHandler, DeleteHandler) of a VolumeServer built
// over that Store by the verif hook NewVerifVolumeServer.
package main

import (
	"bytes"
	"encoding/json"
	"flag"
	"fmt"
	"mime/multipart"
	"net/http"
	"net/http/httptest"
	"net/textproto"
	"os"
	"runtime"
	"strconv"
	"strings"
	"time"

	weed_server "github.com/chrislusf/seaweedfs/weed/server"
	"github.com/chrislusf/seaweedfs/weed/storage"
	"github.com/chrislusf/seaweedfs/weed/storage/needle"
	"github.com/chrislusf/seaweedfs/weed/storage/types"
	"github.com/chrislusf/seaweedfs/weed/util"
	"github.com/chrislusf/seaweedfs/weed/util/fla9"
	"verifharness/hx"
)

// ---------- model-side values ----------

type nd struct {
	id      uint64
	cookie  uint32
	data    []byte
	flags   byte
	name    []byte
	mime    []byte
	pairs   []byte
	lastmod uint64
	tc, tu  byte
}

type up struct {
	id     uint64
	cookie uint32
	data   []byte
	name   string
	ctype  string
	pairs  map[string]string // keys without the Seaweed- prefix
	ts     uint64
	ttl    string
	tc, tu byte
	gz     bool
}

func pat(tag, n int) []byte {
	b := make([]byte, n)
	for i := range b {
		b[i] = byte((tag*131 + i*7 + i/256) % 256)
	}
	return b
}

func gz(b []byte) []byte {
	z, err := util.GzipData(b)
	hx.Must(err)
	return z
}

// dataTerm prints a payload: as `pat tag len` when it is one of the generated patterns.
func dataTerm(b []byte) string {
	if len(b) > 12 {
		if nm, ok := dictName[string(b)]; ok {
			return nm
		}
		for tag := 0; tag < 256; tag++ {
			if b[0] == byte(tag*131%256) && bytes.Equal(b, pat(tag, len(b))) {
				nm := fmt.Sprintf("d%d", len(dictLets))
				dictName[string(b)] = nm
				dictLets = append(dictLets, fmt.Sprintf("let %s := pat %d %d in ", nm, tag, len(b)))
				return nm
			}
		}
	}
	return bytesTerm(b)
}

// Byte strings of 3 bytes or more are bound once per case (`let dK := ... in`) and
// referred to by name: Coq elaborates every occurrence of a literal node by node.
var (
	dictName = map[string]string{}
	dictLets []string
)

func dictReset() { dictName, dictLets = map[string]string{}, nil }

func bytesTerm(b []byte) string {
	if len(b) < 3 {
		return literal(b)
	}
	if nm, ok := dictName[string(b)]; ok {
		return nm
	}
	nm := fmt.Sprintf("d%d", len(dictLets))
	dictName[string(b)] = nm
	dictLets = append(dictLets, fmt.Sprintf("let %s := %s in ", nm, literal(b)))
	return nm
}

func literal(b []byte) string {
	if len(b) > 24 {
		same := true
		for _, c := range b {
			if c != b[0] {
				same = false
				break
			}
		}
		if same {
			return fmt.Sprintf("(rep %d %d)", b[0], len(b))
		}
	}
	if len(b) >= 3 {
		printable := true
		for _, c := range b {
			if c < 0x20 || c > 0x7e {
				printable = false
				break
			}
		}
		if printable {
			return `(str "` + strings.ReplaceAll(string(b), `"`, `""`) + `")`
		}
		if len(b) >= 6 {
			return fmt.Sprintf(`(hex "%x")`, b)
		}
	}
	xs := make([]string, len(b))
	for i, c := range b {
		xs[i] = strconv.Itoa(int(c))
	}
	return "[" + strings.Join(xs, ";") + "]"
}

func u(v uint64) string { return strconv.FormatUint(v, 10) }

func (n nd) term() string {
	return fmt.Sprintf("(mkn %s %s %s %d %s %s %s %s %d %d)", u(n.id), u(uint64(n.cookie)), dataTerm(n.data), n.flags,
		bytesTerm(n.name), bytesTerm(n.mime), bytesTerm(n.pairs), u(n.lastmod), n.tc, n.tu)
}

func pairsJSON(m map[string]string) []byte {
	if len(m) == 0 {
		return nil
	}
	b, err := json.Marshal(m)
	hx.Must(err)
	return b
}

func (p up) term() string {
	return fmt.Sprintf("(mku %s %s %s %s %s %s %s %d %d %s)", u(p.id), u(uint64(p.cookie)), dataTerm(p.data),
		bytesTerm([]byte(p.name)), bytesTerm([]byte(p.ctype)), bytesTerm(pairsJSON(p.pairs)), u(p.ts), p.tc, p.tu, hx.Bool(p.gz))
}

func viewTerm(cookie uint32, size int32, data []byte, flags byte, name, mime, pairs []byte, lastmod uint64, tc, tu byte) string {
	return fmt.Sprintf("(mkv %s %d %s %d %s %s %s %s %d %d)", u(uint64(cookie)), size, dataTerm(data), flags,
		bytesTerm(name), bytesTerm(mime), bytesTerm(pairs), u(lastmod), tc, tu)
}

func blankView(cookie uint32) string {
	return fmt.Sprintf("(bv %d)", cookie)
}

func zterm(v int64) string {
	if v < 0 {
		return "(" + strconv.FormatInt(v, 10) + ")%Z"
	}
	return strconv.FormatInt(v, 10) + "%Z"
}

func errClass(err error) string {
	if err == nil {
		return "ENone"
	}
	return errClassMsg(err.Error(), err)
}

func errClassMsg(msg string, err error) string {
	switch {
	case err == storage.ErrorNotFound:
		return "ENotFound"
	case err == storage.ErrorDeleted:
		return "EDeleted"
	case strings.Contains(msg, "mismatching cookie"):
		return "ECookie"
	case strings.Contains(msg, "is read only"):
		return "EReadOnly"
	}
	return "EOther"
}

// ---------- a response writer that records exactly what the handler set ----------

type rw struct {
	h    http.Header
	code int
	body bytes.Buffer
}

func newRW() *rw                          { return &rw{h: http.Header{}} }
func (r *rw) Header() http.Header         { return r.h }
func (r *rw) WriteHeader(c int)           { r.setCode(c) }
func (r *rw) Write(b []byte) (int, error) { r.setCode(200); return r.body.Write(b) }
func (r *rw) setCode(c int) {
	if r.code == 0 {
		r.code = c
	}
}
func (r *rw) status() int {
	if r.code == 0 {
		return 200
	}
	return r.code
}

var months = map[string]time.Month{"Jan": 1, "Feb": 2, "Mar": 3, "Apr": 4, "May": 5, "Jun": 6, "Jul": 7, "Aug": 8, "Sep": 9, "Oct": 10, "Nov": 11, "Dec": 12}

// parseHTTPDate reads "Mon, 02 Jan 2006 15:04:05 GMT" with a year of any length.
func parseHTTPDate(s string) uint64 {
	f := strings.Fields(s)
	if len(f) != 6 {
		panic("unexpected Last-Modified: " + s)
	}
	day, _ := strconv.Atoi(f[1])
	year, _ := strconv.Atoi(f[3])
	var hh, mm, ss int
	fmt.Sscanf(f[4], "%d:%d:%d", &hh, &mm, &ss)
	return uint64(time.Date(year, months[f[2]], day, hh, mm, ss, 0, time.UTC).Unix())
}

// ---------- one volume under test ----------

type env struct {
	s   *storage.Store
	vs  *weed_server.VolumeServer
	vid needle.VolumeId
	out *hx.Out
	// per case
	evs, impl, canon []string
	served           bool
	nops             int
}

func (e *env) emit(op, out, canon string) {
	e.nops++
	e.evs = append(e.evs, fmt.Sprintf("(%d, %s)", e.nops, op)) // logical clock: one tick (ns) per operation
	e.impl = append(e.impl, out)
	e.canon = append(e.canon, canon)
}

func (e *env) write(n nd) {
	x := &needle.Needle{Id: types.NeedleId(n.id), Cookie: types.Cookie(n.cookie), Flags: n.flags, LastModified: n.lastmod}
	x.Data = append([]byte{}, n.data...)
	x.Name = append([]byte(nil), n.name...)
	x.Mime = append([]byte(nil), n.mime...)
	x.Pairs = append([]byte(nil), n.pairs...)
	x.PairsSize = uint16(len(n.pairs))
	if n.tc != 0 || n.tu != 0 {
		x.Ttl = &needle.TTL{Count: n.tc, Unit: n.tu}
	} else if x.HasTtl() {
		x.Ttl = needle.EMPTY_TTL // prepareWriteBuffer skips the TTL bytes of a nil Ttl although Size counts them
	}
	x.Checksum = needle.NewCRC(x.Data)
	unchanged, err := e.s.WriteVolumeNeedle(e.vid, x, false)
	size := x.Size
	e.emit("Write "+n.term(), fmt.Sprintf("OWrite %s %s %d", errClass(err), hx.Bool(unchanged), size),
		fmt.Sprintf("W%d.%x.%d.%x.f%x.%s.%s.%s.%d.%d.%d", n.id, n.cookie, len(n.data), needle.NewCRC(n.data).Value(), n.flags, n.name, n.mime, n.pairs, n.lastmod, n.tc, n.tu))
	e.out.Count("op:write", 1)
	e.out.Count("write:"+errClass(err)+map[bool]string{true: "-unchanged", false: ""}[unchanged], 1)
	e.out.Count(fmt.Sprintf("size:%d", len(n.data)), 1)
}

func fidPath(vid needle.VolumeId, id uint64, cookie uint32) string {
	return fmt.Sprintf("/%d,%x%08x", vid, id, cookie)
}

func (e *env) post(p up) {
	var b bytes.Buffer
	mw := multipart.NewWriter(&b)
	h := make(textproto.MIMEHeader)
	h.Set("Content-Disposition", fmt.Sprintf(`form-data; name="file"; filename="%s"`, p.name))
	if p.ctype != "" {
		h.Set("Content-Type", p.ctype)
	}
	if p.gz {
		h.Set("Content-Encoding", "gzip")
	}
	pw, err := mw.CreatePart(h)
	hx.Must(err)
	pw.Write(p.data)
	hx.Must(mw.Close())
	q := "ts=" + u(p.ts)
	if p.ttl != "" {
		q += "&ttl=" + p.ttl
	}
	req := httptest.NewRequest("POST", fidPath(e.vid, p.id, p.cookie)+"?"+q, &b)
	req.Header.Set("Content-Type", mw.FormDataContentType())
	for k, v := range p.pairs {
		req.Header.Set(needle.PairNamePrefix+k, v)
	}
	w := newRW()
	e.vs.PostHandler(w, req)
	cls := "ENone"
	if w.status() >= 300 {
		var m map[string]interface{}
		json.Unmarshal(w.body.Bytes(), &m)
		msg, _ := m["error"].(string)
		cls = errClassMsg(msg, nil)
	}
	e.emit("Post "+p.term(), fmt.Sprintf("OPost %d %s", w.status(), cls),
		fmt.Sprintf("P%d.%x.%d.%x.%s.%s.%v.%d.%s.%v", p.id, p.cookie, len(p.data), needle.NewCRC(p.data).Value(), p.name, p.ctype, p.pairs, p.ts, p.ttl, p.gz))
	e.out.Count("op:post", 1)
	e.out.Count(fmt.Sprintf("post:%d", w.status()), 1)
	e.out.Count(fmt.Sprintf("size:%d", len(p.data)), 1)
}

var pairKeys = []string{"K1", "K2"}

func (e *env) get(id uint64, cookie uint32, rd bool) {
	url := fidPath(e.vid, id, cookie)
	if rd {
		url += "?readDeleted=true"
	}
	req := httptest.NewRequest("GET", url, nil)
	req.Header.Set("Accept-Encoding", "gzip")
	w := newRW()
	e.vs.GetOrHeadHandler(w, req)
	name := ""
	if cd := w.h.Get("Content-Disposition"); cd != "" {
		const pre = `inline; filename="`
		if !strings.HasPrefix(cd, pre) || !strings.HasSuffix(cd, `"`) {
			panic("unexpected Content-Disposition " + cd)
		}
		name = cd[len(pre) : len(cd)-1]
	}
	var lastmod uint64
	if lm := w.h.Get("Last-Modified"); lm != "" {
		lastmod = parseHTTPDate(lm)
	}
	pm := map[string]string{}
	for _, k := range pairKeys {
		if v, ok := w.h[k]; ok && len(v) > 0 {
			pm[k] = v[0]
		}
	}
	body := w.body.Bytes()
	if w.status() == 200 && len(body) > 0 {
		e.served = true
	}
	ctype, isGz := w.h.Get("Content-Type"), w.h.Get("Content-Encoding") == "gzip"
	obs := fmt.Sprintf("OGet %d (mkh %s %s %s %s %s %s)", w.status(), dataTerm(body), bytesTerm([]byte(name)),
		bytesTerm([]byte(ctype)), bytesTerm(pairsJSON(pm)), u(lastmod), hx.Bool(isGz))
	if w.status() == 404 && len(body) == 0 && name == "" && ctype == "" && len(pm) == 0 && lastmod == 0 && !isGz {
		obs = "g404"
	}
	e.emit(fmt.Sprintf("Get %d %d %s", id, cookie, hx.Bool(rd)), obs, fmt.Sprintf("G%d.%x.%v", id, cookie, rd))
	e.out.Count("op:get", 1)
	e.out.Count(fmt.Sprintf("get:%d", w.status()), 1)
}

func (e *env) del(id uint64, cookie uint32) {
	req := httptest.NewRequest("DELETE", fidPath(e.vid, id, cookie), nil)
	w := newRW()
	e.vs.DeleteHandler(w, req)
	var m map[string]interface{}
	json.Unmarshal(w.body.Bytes(), &m)
	size := uint64(0)
	if f, ok := m["size"].(float64); ok {
		size = uint64(f)
	}
	e.emit(fmt.Sprintf("Del %d %d", id, cookie), fmt.Sprintf("ODel %d %d", w.status(), size), fmt.Sprintf("D%d.%x", id, cookie))
	e.out.Count("op:del", 1)
	e.out.Count(fmt.Sprintf("del:%d", w.status()), 1)
}

func (e *env) rawRead(id uint64, cookie uint32, rd bool, nilOpt bool) {
	n := &needle.Needle{Id: types.NeedleId(id), Cookie: types.Cookie(cookie)}
	var opt *storage.ReadOption
	if rd || !nilOpt {
		opt = &storage.ReadOption{ReadDeleted: rd}
	}
	count, err := e.s.ReadVolumeNeedle(e.vid, n, opt)
	v := blankView(cookie)
	if err == nil {
		var tc, tu byte
		if n.Ttl != nil {
			tc, tu = n.Ttl.Count, n.Ttl.Unit
		}
		v = viewTerm(uint32(n.Cookie), int32(n.Size), n.Data, n.Flags, n.Name, n.Mime, n.Pairs, n.LastModified, tc, tu)
		if len(n.Data) > 0 {
			e.served = true
		}
	}
	e.emit(fmt.Sprintf("RawRead %d %d %s", id, cookie, hx.Bool(rd)), fmt.Sprintf("ORead %s %s %s", errClass(err), zterm(int64(count)), v),
		fmt.Sprintf("R%d.%x.%v", id, cookie, rd))
	e.out.Count("op:rawread", 1)
	e.out.Count("rawread:"+errClass(err), 1)
}

func (e *env) rawDelete(id uint64, cookie uint32) {
	n := &needle.Needle{Id: types.NeedleId(id), Cookie: types.Cookie(cookie)}
	size, err := e.s.DeleteVolumeNeedle(e.vid, n)
	e.emit(fmt.Sprintf("RawDelete %d %d", id, cookie), fmt.Sprintf("ODelete %s %s", errClass(err), zterm(int64(size))), fmt.Sprintf("X%d.%x", id, cookie))
	e.out.Count("op:rawdelete", 1)
	e.out.Count("rawdelete:"+errClass(err), 1)
}

func (e *env) setNWOD(b bool) {
	if b {
		hx.Must(e.s.MarkVolumeReadonly(e.vid))
	} else {
		hx.Must(e.s.MarkVolumeWritable(e.vid))
	}
	e.emit("SetNoWriteOrDelete "+hx.Bool(b), "OUnit", "RO"+hx.Bool(b))
	e.out.Count("op:mark-readonly", 1)
}

func (e *env) setNWCD(b bool) {
	e.s.GetVolume(e.vid).VerifSetNoWriteCanDelete(b)
	e.emit("SetNoWriteCanDelete "+hx.Bool(b), "OUnit", "RC"+hx.Bool(b))
	e.out.Count("op:mark-nowrite-candelete", 1)
}

func (e *env) begin(caseNo int) {
	e.vid = needle.VolumeId(caseNo + 1)
	hx.Must(e.s.AddVolume(e.vid, "", storage.NeedleMapInMemory, "000", "", 0, 0, types.HardDriveType))
	e.evs, e.impl, e.canon, e.served, e.nops = nil, nil, nil, false, 0
	dictReset()
}

func (e *env) end(keys []uint64, kind string, t0 time.Time) {
	v := e.s.GetVolume(e.vid)
	datSize, _, _ := v.FileStat()
	var fin []string
	for _, k := range keys {
		off, size, ok := v.VerifNeedleMapEntry(k)
		if ok {
			fin = append(fin, fmt.Sprintf("(%d, Some (%d, %s))", k, off, zterm(int64(size))))
		} else {
			fin = append(fin, fmt.Sprintf("(%d, None)", k))
		}
	}
	if time.Since(t0) > 20*time.Second {
		panic("case took longer than 20 s: the logical clock of the model assumes no TTL (>= 1 minute) can expire inside a case")
	}
	term := fmt.Sprintf("(%s{| evs := [%s]; impl := [%s]; fin_dat := %d; fin_nm := [%s] |})%%N",
		strings.Join(dictLets, ""), strings.Join(e.evs, "; "), strings.Join(e.impl, "; "), datSize, strings.Join(fin, "; "))
	e.out.Add(term, strings.Join(e.canon, ";"), e.served, kind)
	e.out.Count("ops", e.nops)
	// The volume is left open (2 descriptors) and removed with the temp dir at exit:
	// closing it costs three fsyncs per case.
}

// ---------- generators ----------

var (
	keys     = []uint64{1, 2, 3, 7}
	cookies  = []uint32{0x11, 0x2222, 0xfffffffe}
	sizes    = []int{0, 1, 7, 8, 9, 255, 256, 4096}
	names    = []string{"", "a", "n1", "name-xyz", strings.Repeat("q", 255)}
	mimes    = []string{"", "text/x-a", "image/x-b", "application/octet-stream", "application/octet-stream;x=1", strings.Repeat("m", 255)}
	ctypes   = []string{"", "text/x-a", "image/x-b", "application/octet-stream"}
	lastmods = []uint64{0, 1, 12345, 4294967295, 1099511627775}
	tss      = []uint64{1, 12345, 4294967295}
	ttls     = [][2]byte{{0, 0}, {3, 1}, {0, 1}, {5, 2}, {7, 0}, {255, 6}}
	ttlStrs  = []string{"", "3m", "0m", "5h", "2d"}
	ttlOf    = map[string][2]byte{"": {0, 0}, "3m": {3, 1}, "0m": {0, 1}, "5h": {5, 2}, "2d": {2, 3}}
	pairSets = []map[string]string{nil, {"K1": "v1"}, {"K1": "v1", "K2": "w"}, {"K2": "zz"}}
)

type gen struct {
	r          *hx.Rng
	allowEmpty bool
	allowMeta  bool
	tag        int
	assigned   map[uint64]uint32
	written    []nd // needles written through Write/Post (as the model sees them)
	uploads    []up
}

func (g *gen) cookieFor(id uint64) uint32 {
	if c, ok := g.assigned[id]; ok && g.r.Chance(4, 5) {
		return c
	}
	c := cookies[g.r.Intn(len(cookies))]
	if _, ok := g.assigned[id]; !ok {
		g.assigned[id] = c
	}
	return c
}

func (g *gen) payload(compressed bool) []byte {
	size := sizes[g.r.Intn(len(sizes))]
	if size == 4096 && g.r.Chance(2, 3) {
		size = sizes[g.r.Intn(len(sizes)-1)] // the 4 KiB payload is the expensive one for the model side
	}
	if size == 0 && !g.allowEmpty {
		size = 1 + g.r.Intn(12)
	}
	if size == 0 {
		return nil
	}
	g.tag = (g.tag + 1) % 256
	if compressed && g.r.Bool() {
		return gz(pat(g.tag, 1+g.r.Intn(20)))
	}
	return pat(g.tag, size)
}

func expirable(n nd) bool {
	if n.flags&0x10 == 0 || n.flags&0x08 == 0 {
		return false
	}
	return (&needle.TTL{Count: n.tc, Unit: n.tu}).Minutes() != 0
}

func (g *gen) needle() nd {
	// a duplicate of an earlier write: same id, cookie, bytes
	if len(g.written) > 0 && g.r.Chance(1, 4) {
		n := g.written[g.r.Intn(len(g.written))]
		if g.allowMeta {
			switch g.r.Intn(5) {
			case 0:
				n.name = []byte(g.r.PickStr(names))
				n.flags |= 0x02
			case 1:
				n.mime = []byte(g.r.PickStr(mimes))
				n.flags |= 0x04
			case 2:
				n.lastmod = g.r.PickU64(lastmods)
				n.flags |= 0x08
			case 3:
				n.flags ^= 0x01
			}
			return n
		}
		if !expirable(n) {
			return n
		}
	}
	id := keys[g.r.Intn(len(keys))]
	n := nd{id: id, cookie: g.cookieFor(id)}
	for _, bit := range []byte{0x01, 0x02, 0x04, 0x08, 0x10, 0x20} {
		if g.r.Chance(3, 5) {
			n.flags |= bit
		}
	}
	n.data = g.payload(n.flags&0x01 != 0)
	if n.flags&0x02 != 0 || g.r.Chance(1, 4) {
		n.name = []byte(g.r.PickStr(names))
	}
	if n.flags&0x04 != 0 || g.r.Chance(1, 4) {
		n.mime = []byte(g.r.PickStr(mimes))
	}
	if n.flags&0x20 != 0 || g.r.Chance(1, 4) {
		n.pairs = pairsJSON(pairSets[g.r.Intn(len(pairSets))])
	}
	if n.flags&0x08 != 0 || g.r.Chance(1, 4) {
		n.lastmod = g.r.PickU64(lastmods)
	}
	if n.flags&0x10 != 0 || g.r.Chance(1, 4) {
		t := ttls[g.r.Intn(len(ttls))]
		n.tc, n.tu = t[0], t[1]
	}
	return n
}

func (g *gen) upload() up {
	if len(g.uploads) > 0 && g.r.Chance(1, 4) {
		p := g.uploads[g.r.Intn(len(g.uploads))]
		if g.allowMeta {
			switch g.r.Intn(4) {
			case 0:
				p.name = g.r.PickStr(names)
			case 1:
				p.ctype = g.r.PickStr(ctypes)
			case 2:
				p.ts = g.r.PickU64(tss)
			}
			return p
		}
		if p.ttl == "" || p.ttl == "0m" {
			return p
		}
	}
	id := keys[g.r.Intn(len(keys))]
	p := up{id: id, cookie: g.cookieFor(id)}
	p.gz = g.r.Chance(1, 4)
	if p.gz {
		g.tag = (g.tag + 1) % 256
		p.data = gz(pat(g.tag, g.r.Intn(20)))
	} else {
		p.data = g.payload(false)
	}
	p.name = g.r.PickStr(names)
	p.ctype = g.r.PickStr(ctypes)
	p.pairs = pairSets[g.r.Intn(len(pairSets))]
	p.ts = g.r.PickU64(tss)
	p.ttl = g.r.PickStr(ttlStrs)
	t := ttlOf[p.ttl]
	p.tc, p.tu = t[0], t[1]
	return p
}

// the needle CreateNeedleFromRequest builds (only used to remember what was uploaded so
// that Write can later duplicate it; the Coq model derives it on its own)
func needleOfUpload(p up) nd {
	n := nd{id: p.id, cookie: p.cookie, data: p.data, name: []byte(p.name), lastmod: p.ts, tc: p.tc, tu: p.tu}
	n.flags = 0x02 | 0x04 | 0x08
	if p.ctype != "" && p.ctype != "application/octet-stream" {
		n.mime = []byte(p.ctype)
	}
	if len(p.pairs) > 0 {
		n.pairs = pairsJSON(p.pairs)
		n.flags |= 0x20
	}
	if p.gz {
		n.flags |= 0x01
	}
	if p.ttl != "" {
		n.flags |= 0x10
	}
	return n
}

func randomCase(e *env, r *hx.Rng) string {
	g := &gen{r: r, assigned: map[uint64]uint32{}}
	kind := "clean"
	switch k := r.Intn(20); {
	case k < 5:
		g.allowEmpty = true
		kind = "with-empty"
	case k < 9:
		g.allowMeta = true
		kind = "with-meta-dup"
	case k < 10:
		g.allowEmpty, g.allowMeta = true, true
		kind = "with-empty+meta-dup"
	}
	nops := r.Range(4, 30)
	for j := 0; j < nops; j++ {
		id := keys[r.Intn(len(keys))]
		switch k := r.Intn(100); {
		case k < 22:
			n := g.needle()
			e.write(n)
			g.written = append(g.written, n)
		case k < 36:
			p := g.upload()
			e.post(p)
			g.uploads = append(g.uploads, p)
			g.written = append(g.written, needleOfUpload(p))
		case k < 58:
			e.get(id, g.cookieFor(id), r.Chance(1, 8))
		case k < 70:
			e.del(id, g.cookieFor(id))
		case k < 84:
			e.rawRead(id, g.cookieFor(id), r.Chance(1, 8), r.Bool())
		case k < 92:
			e.rawDelete(id, g.cookieFor(id))
		case k < 98:
			e.setNWOD(r.Chance(1, 2))
		default:
			e.setNWCD(r.Chance(1, 2))
		}
	}
	// final sweep: what every key reads as, through both layers
	for _, id := range keys {
		c := g.cookieFor(id)
		e.get(id, c, false)
		e.rawRead(id, c, false, true)
	}
	return kind
}

// witnesses of the known findings, emitted first on every run
func witnessEmpty(e *env) {
	e.write(nd{id: 1, cookie: 0xa, flags: 0x02, name: []byte("nm")})
	e.get(1, 0xb, false)
	e.del(1, 0xa)
	e.get(1, 0xa, false)
}

func witnessUnchanged(e *env) {
	e.post(up{id: 4, cookie: 0xc, data: []byte("hello"), name: "n1", ctype: "text/x-a", ts: 12345})
	e.post(up{id: 4, cookie: 0xc, data: []byte("hello"), name: "n2", ctype: "text/x-b", ts: 12346})
	e.get(4, 0xc, false)
}

// bounded-exhaustive: every sequence of [length] mutating operations over 2 keys x 2 cookies
// (upload / DELETE through the handlers), each followed by a GET of all four fids.
var exKeys = []uint64{1, 2}
var exCookies = []uint32{0x11, 0x2222}

func exhaustiveCase(e *env, index, length int) {
	for pos := 0; pos < length; pos++ {
		sym := index % 8
		index /= 8
		id, cookie := exKeys[sym%2], exCookies[(sym/2)%2]
		if sym < 4 {
			tag := pos / 2 // positions 0,1 upload the same bytes (unchanged path), 2,3 other bytes (overwrite)
			e.post(up{id: id, cookie: cookie, data: pat(tag+1, 3), name: fmt.Sprintf("n%d", tag), ctype: "text/x-a", ts: uint64(100 + tag)})
		} else {
			e.del(id, cookie)
		}
		for _, k := range exKeys {
			for _, c := range exCookies {
				e.get(k, c, false)
			}
		}
	}
}

func main() {
	mode := flag.String("mode", "random", "random|exhaustive")
	out := hx.Flags("C01", 200)
	runtime.GOMAXPROCS(2) // the histories are sequential; shards run as parallel processes
	// glog registers its flags with the repo's own flag package
	hx.Must(fla9.Set("alsologtostderr", "false"))
	hx.Must(fla9.Set("stderrthreshold", "FATAL"))
	dir, err := os.MkdirTemp("", "c01-vol")
	hx.Must(err)
	defer os.RemoveAll(dir)
	s := storage.NewStore(nil, 0, "localhost", "localhost", []string{dir}, []int{1 << 20},
		[]util.MinFreeSpace{{Type: util.AsPercent, Percent: 0}}, "", storage.NeedleMapInMemory, []types.DiskType{types.HardDriveType})
	go func() {
		for range s.NewVolumesChan {
		}
	}()
	go func() {
		for range s.DeletedVolumesChan {
		}
	}()
	e := &env{s: s, vs: weed_server.NewVerifVolumeServer(s, 256<<20), out: out}

	if *mode == "exhaustive" {
		length := 4
		if out.Tier == "thorough" {
			length = 5
		}
		total := 1
		for i := 0; i < length; i++ {
			total *= 8
		}
		out.Rule = fmt.Sprintf("bounded-exhaustive: all %d sequences of %d mutating operations (upload via PostHandler / DELETE via DeleteHandler) over 2 keys x 2 cookies, each operation followed by a GET of all four fids; shard k covers indices [k*n, (k+1)*n); non-trivial = some GET served a non-empty body; distinct = canonical op list", total, length)
		shard := int(out.Seed % 1000)
		for i := 0; i < out.N; i++ {
			t0 := time.Now()
			e.begin(i)
			exhaustiveCase(e, (shard*out.N+i)%total, length)
			e.end(exKeys, "exhaustive", t0)
		}
		out.Write()
		return
	}

	out.Rule = "cases 0,1 = witnesses of findings 0 and 1; then random histories (4..30 ops + a final GET/read sweep) of Write (Store.WriteVolumeNeedle, random flag sets), Post, Get, Del (HTTP handlers), RawRead, RawDelete, mark-read-only over 4 keys x 3 cookies, payload sizes {0,1,7,8,9,255,256,4096} + gzip streams, names/mimes/pairs/last-modified/ttl from small universes incl. 255-byte boundaries; 1/4 of writes repeat an earlier (id,cookie,bytes): exactly in 'clean' cases, with changed metadata in 'with-meta-dup' cases; empty payloads only in 'with-empty' cases; non-trivial = some read/GET served a non-empty payload; distinct = canonical op list"
	root := hx.NewRng(out.Seed)
	for i := 0; i < out.N; i++ {
		r := root.Fork()
		t0 := time.Now()
		e.begin(i)
		kind := ""
		switch i {
		case 0:
			witnessEmpty(e)
			kind = "witness-empty-blob"
		case 1:
			witnessUnchanged(e)
			kind = "witness-unchanged-drops-metadata"
		default:
			kind = randomCase(e, r)
		}
		e.end(keys, kind, t0)
	}
	out.Write()
}
