// C28 harness: histories of S3 object / multipart / copy / delete requests sent
// through the REAL S3 gateway router (weed/s3api) over the in-process real filer
// of package s3env (filer gRPC + HTTP, leveldb2 store), with a loopback
// volume-server stand-in (vol.go) so that bodies become real chunks.
// Streaming-signed bodies go through a second real S3ApiServer that has an
// identity configured (newSignV4ChunkedReader verifies the chunk signatures).
// Observed per request: status class and GET / ListParts payload; at the end:
// every file entry under the bucket with the bytes the filer serves for it, and
// every pending upload directory with (part number, size) in listing order.
package main

import (
	"bufio"
	"bytes"
	"encoding/xml"
	"fmt"
	"io/ioutil"
	"net/http"
	"net/http/httptest"
	"sort"
	"strconv"
	"strings"

	"github.com/gorilla/mux"

	"github.com/chrislusf/seaweedfs/weed/pb/iam_pb"
	"github.com/chrislusf/seaweedfs/weed/s3api"

	"verifharness/hx"
	"verifharness/s3env"
)

const bucket = "b"

// the key universe; kN in coq/check/C28.v
var keys = []string{"a", "a/b", "ab", "a/b/c", "d/e", "d", "f", "g/h", "a/c",
	// 9..: keys with the characters on which URL escaping variants differ (blank, '+', '&', '=' and the
	// URL meta characters '%', '?', '#'); the gateway builds the filer path of a key in three ways:
	// urlPathEscape (PutObject / GetObject / HeadObject / DeleteObject), the raw key over gRPC
	// (CompleteMultipartUpload, DeleteMultipleObjects) and the raw key pasted into a URL (CopyObject,
	// UploadPartCopy)
	"x y", "x+y", "x%20y", "m&n=o", "t?u", "t", "v#w", "dir one/i+n", "q%zz"}

// the keys the namespace kind runs over (keys that are path prefixes of each other)
const nNamespaceKeys = 9

// prefix-free keys with blank, '+', '&', '=' (no URL meta character: every route must agree on them)
var blankKeys = []int{9, 10, 12, 16, 2, 6}

// prefix-free keys including '%', '?', '#' (a copy whose source or destination has one: finding 7);
// "x%20y" / "x y" and "t?u" / "t" collide when the raw key is parsed as a URL
var metaKeys = []int{9, 10, 11, 12, 13, 14, 15, 16, 17}

// encKey: a key as a client sends it in a request line or in X-Amz-Copy-Source: every byte outside
// A-Za-z0-9-_.~/ percent-encoded (the AWS URI encoding; also what the gateway's encodePath computes
// for the canonical request of a signed request)
func encKey(k string) string {
	var sb strings.Builder
	for i := 0; i < len(k); i++ {
		c := k[i]
		switch {
		case 'A' <= c && c <= 'Z', 'a' <= c && c <= 'z', '0' <= c && c <= '9', c == '-', c == '_', c == '.', c == '~', c == '/':
			sb.WriteByte(c)
		default:
			fmt.Fprintf(&sb, "%%%02X", c)
		}
	}
	return sb.String()
}

func xmlText(k string) string {
	var sb strings.Builder
	hx.Must(xml.EscapeText(&sb, []byte(k)))
	return sb.String()
}

// hasURLMeta: raw_meta of the model
func hasURLMeta(k string) bool { return strings.ContainsAny(k, "%?#") }

// keys without any prefix relation among them (and none is an ancestor directory of another)
var cleanKeys = []int{1, 2, 4, 6, 7, 8}

var partNumbers = []int{1, 2, 9, 10, 999, 1000, 1001, 9999, 10000}

// part numbers outside the S3 range 1..10000: refused by the gateway since the repair of former finding 5
// (before it only numbers above 100000 were)
var oddPartNumbers = []int{0, 10001, 100000}

// chunk sizes in bytes of the filer's HTTP write path (0 = the real autoChunk with -maxMB 1)
var chunkSizes = []int{0, 3, 5, 8, 16, 24}

// ---------- world ----------

type world struct {
	env     *s3env.Env
	vol     *fakeVolume
	router2 *mux.Router // S3 gateway with an identity: streaming-signed requests
	chunk   int32       // > 0: filer PUTs are served with this chunk size in bytes
}

func newWorld() *world {
	e := s3env.New(s3env.Options{MaxMB: 1})
	w := &world{env: e, vol: newFakeVolume(e)}
	// small chunks: a PUT to the filer goes to the hook that runs the real doPutAutoChunk with a
	// chunk size in bytes; everything else (and every PUT when chunk == 0) takes the real route
	orig := e.FilerHTTP.Config.Handler
	e.FilerHTTP.Config.Handler = http.HandlerFunc(func(rw http.ResponseWriter, r *http.Request) {
		if _, tagging := r.URL.Query()["tagging"]; r.Method == "PUT" && w.chunk > 0 && !tagging {
			e.FilerServer.VerifC28PutWithChunkSize(rw, r, w.chunk)
			return
		}
		orig.ServeHTTP(rw, r)
	})
	w.router2 = mux.NewRouter().SkipClean(true)
	cfg := &iam_pb.S3ApiConfiguration{Identities: []*iam_pb.Identity{{
		Name:        "c28",
		Credentials: []*iam_pb.Credential{{AccessKey: accessKey, SecretKey: secretKey}},
		Actions:     []string{"Admin"},
	}}}
	if _, err := s3api.VerifNewS3ApiServer(w.router2, cfg, e.FilerHTTPAddr, e.FilerGrpcAddr, ""); err != nil {
		panic(err)
	}
	return w
}

func (w *world) close() {
	w.vol.close()
	w.env.Close()
}

func (w *world) reset(dirListLimit int, inlineLimit int64, chunk int) {
	w.chunk = int32(chunk)
	w.env.Wipe("/")
	w.env.Mkdir("/buckets/" + bucket)
	w.env.FilerServer.VerifC28SetLimits(dirListLimit, inlineLimit)
	w.env.TakeCalls()
	w.env.Store.Take()
	w.vol.mu.Lock()
	w.vol.blobs = map[string][]byte{}
	w.vol.mu.Unlock()
}

type resp struct {
	status int
	header http.Header
	body   []byte
}

func do(router *mux.Router, method, target string, hdr map[string]string, body []byte) *resp {
	var buf bytes.Buffer
	fmt.Fprintf(&buf, "%s %s HTTP/1.1\r\nHost: %s\r\n", method, target, hostName)
	hk := make([]string, 0, len(hdr))
	for k := range hdr {
		hk = append(hk, k)
	}
	sort.Strings(hk)
	for _, k := range hk {
		fmt.Fprintf(&buf, "%s: %s\r\n", k, hdr[k])
	}
	fmt.Fprintf(&buf, "Content-Length: %d\r\n\r\n", len(body))
	buf.Write(body)
	req, err := http.ReadRequest(bufio.NewReader(&buf))
	if err != nil {
		panic(err)
	}
	req.RemoteAddr = "127.0.0.1:1"
	rec := httptest.NewRecorder()
	router.ServeHTTP(rec, req)
	res := rec.Result()
	b, _ := ioutil.ReadAll(res.Body)
	return &resp{status: res.StatusCode, header: res.Header, body: b}
}

func (w *world) s3(method, target string, hdr map[string]string, body []byte) *resp {
	return do(w.env.Router, method, target, hdr, body)
}

// ---------- operations ----------

type rng struct {
	kind string // "", "closed", "from", "suffix"
	a, b uint64
}

type op struct {
	kind   string // Put PutS Copy Get Del BatchDel MpCreate MpPut MpPutS MpCopy MpComplete MpAbort MpList
	key    int
	src    int
	ks     []int
	u      int
	n      int
	ns     []int // MpComplete: the part numbers of the request body
	seed   uint64
	size   int
	rep    bool // body = size copies of byte seed (big bodies)
	tamper bool
	cuts   []int
	r      rng
	hasR   bool
	ra, rb uint64
}

// body bytes: the LCG of `gen` in coq/check/C28.v
func genBody(seed uint64, n int) []byte {
	b := make([]byte, n)
	x := seed
	for i := range b {
		x = (x*1103515245 + 12345) % 2147483648
		b[i] = byte((x / 65536) % 256)
	}
	return b
}

func (o *op) body() []byte {
	if o.rep {
		return bytes.Repeat([]byte{byte(o.seed)}, o.size)
	}
	return genBody(o.seed, o.size)
}

func coqBody(o *op) string {
	if o.rep {
		return fmt.Sprintf("(rep %d %d)", o.seed, o.size)
	}
	return fmt.Sprintf("(gen %d %d)", o.seed, o.size)
}

func coqKey(i int) string { return fmt.Sprintf("k%d", i) }

func coqKeys(ks []int) string {
	xs := make([]string, len(ks))
	for i, k := range ks {
		xs[i] = coqKey(k)
	}
	return hx.List(xs)
}

func coqRange(r rng) string {
	switch r.kind {
	case "closed":
		return fmt.Sprintf("(Some (RClosed %d %d))", r.a, r.b)
	case "from":
		return fmt.Sprintf("(Some (RFrom %d))", r.a)
	case "suffix":
		return fmt.Sprintf("(Some (RSuffix %d))", r.a)
	}
	return "None"
}

func rangeHeader(r rng) string {
	switch r.kind {
	case "closed":
		return fmt.Sprintf("bytes=%d-%d", r.a, r.b)
	case "from":
		return fmt.Sprintf("bytes=%d-", r.a)
	case "suffix":
		return fmt.Sprintf("bytes=-%d", r.a)
	}
	return ""
}

func (o *op) coq() string {
	switch o.kind {
	case "Put":
		return fmt.Sprintf("Put %s %s", coqKey(o.key), coqBody(o))
	case "PutS":
		return fmt.Sprintf("PutS %s %s %s", coqKey(o.key), coqBody(o), hx.Bool(o.tamper))
	case "Copy":
		return fmt.Sprintf("Copy %s %s", coqKey(o.src), coqKey(o.key))
	case "Get":
		return fmt.Sprintf("Get %s %s", coqKey(o.key), coqRange(o.r))
	case "Del":
		return fmt.Sprintf("Del %s", coqKey(o.key))
	case "BatchDel":
		return fmt.Sprintf("BatchDel %s", coqKeys(o.ks))
	case "MpCreate":
		return fmt.Sprintf("MpCreate %s", coqKey(o.key))
	case "MpPut":
		return fmt.Sprintf("MpPut %d %d %s", o.u, o.n, coqBody(o))
	case "MpPutS":
		return fmt.Sprintf("MpPutS %d %d %s %s", o.u, o.n, coqBody(o), hx.Bool(o.tamper))
	case "MpCopy":
		r := "None"
		if o.hasR {
			r = fmt.Sprintf("(Some (%d, %d)%%N)", o.ra, o.rb)
		}
		return fmt.Sprintf("MpCopy %d %d %s %s", o.u, o.n, coqKey(o.src), r)
	case "MpComplete":
		xs := make([]uint64, len(o.ns))
		for i, n := range o.ns {
			xs[i] = uint64(n)
		}
		return fmt.Sprintf("MpComplete %d %s", o.u, hx.NList(xs))
	case "MpAbort":
		return fmt.Sprintf("MpAbort %d", o.u)
	case "MpList":
		return fmt.Sprintf("MpList %d", o.u)
	}
	panic("op kind " + o.kind)
}

func (o *op) canon() string {
	return fmt.Sprintf("%s/%d/%d/%v/%d/%d/%v/%d:%d/%v/%v/%v/%v:%d-%d", o.kind, o.key, o.src, o.ks, o.u, o.n, o.ns, o.seed, o.size, o.tamper, o.cuts, o.r, o.hasR, o.ra, o.rb)
}

// ---------- running one operation on the real gateway ----------

type runner struct {
	w       *world
	ids     []string // upload index -> UUID
	upKeys  []int
	anyData bool
}

type initResult struct {
	UploadId string `xml:"UploadId"`
}

type listPartsResult struct {
	Parts []struct {
		PartNumber int   `xml:"PartNumber"`
		Size       int64 `xml:"Size"`
	} `xml:"Part"`
}

const (
	htmlPrefix = "<!DOCTYPE html>"
	htmlSuffix = "</html>\n"
)

func hasListingPage(b []byte) bool { return bytes.Contains(b, []byte(htmlPrefix)) }

// project replaces every copy of the filer's directory listing page (an HTML
// document whose text the model does not describe) by the model's one-element
// dir_marker (the out-of-range "byte" 256)
func project(b []byte) []uint64 {
	var out []uint64
	for len(b) > 0 {
		i := bytes.Index(b, []byte(htmlPrefix))
		j := -1
		if i >= 0 {
			j = bytes.Index(b[i:], []byte(htmlSuffix))
		}
		if i < 0 || j < 0 {
			break
		}
		for _, c := range b[:i] {
			out = append(out, uint64(c))
		}
		out = append(out, 256)
		b = b[i+j+len(htmlSuffix):]
	}
	for _, c := range b {
		out = append(out, uint64(c))
	}
	return out
}

func projectBytes(b []byte) string { return hx.NList(project(b)) }

// objectHasListingPage looks at the stored object behind a key (straight at the
// filer): ranges into a listing page cannot be described by the model, so such
// requests are sent (and recorded) without a range
func (rn *runner) objectHasListingPage(key string) bool {
	r := rn.w.env.DoFiler("GET", "/buckets/"+bucket+"/"+encKey(key), nil)
	return r.Status == 200 && hasListingPage(r.Body)
}

var segIdent = map[string]string{"a": "sa", "b": "sb", "ab": "sab", "c": "sc", "d": "sd", "e": "se", "f": "sf", "g": "sg", "h": "sh"}

func coqSeg(s string) string {
	if id, ok := segIdent[s]; ok {
		return id
	}
	return hx.Str(s)
}

// finalContent prints the bytes of a stored object: literally when small, as
// (length, sum of bytes, sum of (index+1)*byte) when big
func finalContent(b []byte) string {
	if p := project(b); len(p) <= 256 {
		return "FB " + hx.NList(p)
	}
	var s1, s2 uint64
	for i, c := range b {
		s1 += uint64(c)
		s2 += uint64(i+1) * uint64(c)
	}
	return fmt.Sprintf("FS %d %d %d", len(b), s1, s2)
}

func classify(r *resp) string {
	switch {
	case r.status >= 200 && r.status < 300:
		return "ROk"
	case r.status == 404 && bytes.Contains(r.body, []byte("<Code>NoSuchKey</Code>")):
		return "RNotFound"
	case r.status == 404 && bytes.Contains(r.body, []byte("<Code>NoSuchUpload</Code>")):
		return "RNoUpload"
	case r.status == 416:
		return "RRange"
	}
	return "RErr"
}

func (rn *runner) uploadID(u int) string {
	if u < len(rn.ids) {
		return rn.ids[u]
	}
	return fmt.Sprintf("00000000-0000-4000-8000-%012d", u)
}

func (rn *runner) upKey(u int) string {
	if u < len(rn.upKeys) {
		return encKey(keys[rn.upKeys[u]])
	}
	return "nokey"
}

func (rn *runner) exec(o *op) string {
	w := rn.w
	switch o.kind {
	case "Put":
		return classify(w.s3("PUT", "/b/"+encKey(keys[o.key]), nil, o.body()))
	case "PutS":
		path := "/b/" + encKey(keys[o.key])
		hdr, body := streamingRequest(path, "", o.body(), o.cuts, o.tamper)
		return classify(do(w.router2, "PUT", path, hdr, body))
	case "Copy":
		return classify(w.s3("PUT", "/b/"+encKey(keys[o.key]), map[string]string{"X-Amz-Copy-Source": "/b/" + encKey(keys[o.src])}, nil))
	case "Get":
		var hdr map[string]string
		if o.r.kind != "" && rn.objectHasListingPage(keys[o.key]) {
			o.r = rng{}
		}
		if h := rangeHeader(o.r); h != "" {
			hdr = map[string]string{"Range": h}
		}
		r := w.s3("GET", "/b/"+encKey(keys[o.key]), hdr, nil)
		if r.status == 200 || r.status == 206 {
			if len(r.body) > 0 {
				rn.anyData = true
			}
			return "RData " + projectBytes(r.body)
		}
		return classify(r)
	case "Del":
		return classify(w.s3("DELETE", "/b/"+encKey(keys[o.key]), nil, nil))
	case "BatchDel":
		var sb strings.Builder
		sb.WriteString("<Delete>")
		for _, k := range o.ks {
			sb.WriteString("<Object><Key>" + xmlText(keys[k]) + "</Key></Object>")
		}
		sb.WriteString("</Delete>")
		return classify(w.s3("POST", "/b?delete", nil, []byte(sb.String())))
	case "MpCreate":
		r := w.s3("POST", "/b/"+encKey(keys[o.key])+"?uploads", nil, nil)
		var ir initResult
		if r.status != 200 || xml.Unmarshal(r.body, &ir) != nil || ir.UploadId == "" {
			panic(fmt.Sprintf("create upload: %d %s", r.status, r.body))
		}
		rn.ids = append(rn.ids, ir.UploadId)
		rn.upKeys = append(rn.upKeys, o.key)
		return "ROk"
	case "MpPut":
		return classify(w.s3("PUT", fmt.Sprintf("/b/%s?partNumber=%d&uploadId=%s", rn.upKey(o.u), o.n, rn.uploadID(o.u)), nil, o.body()))
	case "MpPutS":
		path := "/b/" + rn.upKey(o.u)
		q := fmt.Sprintf("partNumber=%d&uploadId=%s", o.n, rn.uploadID(o.u))
		hdr, body := streamingRequest(path, q, o.body(), o.cuts, o.tamper)
		return classify(do(w.router2, "PUT", path+"?"+q, hdr, body))
	case "MpCopy":
		hdr := map[string]string{"X-Amz-Copy-Source": "/b/" + encKey(keys[o.src])}
		if o.hasR && rn.objectHasListingPage(keys[o.src]) {
			o.hasR = false
		}
		if o.hasR {
			hdr["X-Amz-Copy-Source-Range"] = fmt.Sprintf("bytes=%d-%d", o.ra, o.rb)
		}
		return classify(w.s3("PUT", fmt.Sprintf("/b/%s?partNumber=%d&uploadId=%s", rn.upKey(o.u), o.n, rn.uploadID(o.u)), hdr, nil))
	case "MpComplete":
		var sb strings.Builder
		sb.WriteString("<CompleteMultipartUpload>")
		for _, n := range o.ns {
			fmt.Fprintf(&sb, "<Part><PartNumber>%d</PartNumber><ETag>\"%032x\"</ETag></Part>", n, n)
		}
		sb.WriteString("</CompleteMultipartUpload>")
		return classify(w.s3("POST", fmt.Sprintf("/b/%s?uploadId=%s", rn.upKey(o.u), rn.uploadID(o.u)), nil, []byte(sb.String())))
	case "MpAbort":
		return classify(w.s3("DELETE", fmt.Sprintf("/b/%s?uploadId=%s", rn.upKey(o.u), rn.uploadID(o.u)), nil, nil))
	case "MpList":
		r := w.s3("GET", fmt.Sprintf("/b/%s?uploadId=%s", rn.upKey(o.u), rn.uploadID(o.u)), nil, nil)
		if r.status != 200 {
			return classify(r)
		}
		var lr listPartsResult
		hx.Must(xml.Unmarshal(r.body, &lr))
		xs := make([]string, len(lr.Parts))
		for i, p := range lr.Parts {
			size := p.Size
			// a part that holds a copied directory listing page counts as the model's 1-element marker
			pr := w.env.DoFiler("GET", fmt.Sprintf("/buckets/%s/.uploads/%s/%04d.part", bucket, rn.uploadID(o.u), p.PartNumber), nil)
			if pr.Status == 200 && hasListingPage(pr.Body) {
				size = int64(len(project(pr.Body)))
			}
			xs[i] = fmt.Sprintf("(%d, %d)%%N", p.PartNumber, size)
		}
		return "RParts " + hx.List(xs)
	}
	panic("op kind " + o.kind)
}

// final state: file entries under the bucket (outside .uploads) with the bytes the
// filer serves, and pending upload directories
func (rn *runner) final() (objs string, pend string) {
	root := "/buckets/" + bucket + "/"
	var items []string
	type pd struct {
		idx   int
		parts []string
	}
	pends := map[string]*pd{}
	for i, id := range rn.ids {
		pends[id] = &pd{idx: i}
	}
	alive := map[string]bool{}
	for _, n := range rn.w.env.Snapshot("/buckets/" + bucket) {
		rel := strings.TrimPrefix(n.Path, root)
		if rel == ".uploads" {
			continue
		}
		if strings.HasPrefix(rel, ".uploads/") {
			segs := strings.Split(rel, "/")
			p, ok := pends[segs[1]]
			if !ok {
				panic("unknown upload dir " + rel)
			}
			if len(segs) == 2 {
				alive[segs[1]] = true
				continue
			}
			r := rn.w.env.DoFiler("GET", encKey(n.Path), nil)
			if r.Status != 200 {
				panic(fmt.Sprintf("read part %s: %d", n.Path, r.Status))
			}
			num, err := strconv.Atoi(strings.TrimSuffix(segs[2], ".part"))
			if err != nil {
				panic(err)
			}
			p.parts = append(p.parts, fmt.Sprintf("(%d, %d)%%N", num, len(project(r.Body))))
			continue
		}
		if n.IsDir {
			continue
		}
		r := rn.w.env.DoFiler("GET", encKey(n.Path), nil)
		if r.Status != 200 {
			panic(fmt.Sprintf("read %s: %d", n.Path, r.Status))
		}
		segs := strings.Split(rel, "/")
		for i, s := range segs {
			segs[i] = coqSeg(s)
		}
		items = append(items, "("+hx.List(segs)+", "+finalContent(r.Body)+")")
	}
	var ps []string
	for i, id := range rn.ids {
		if alive[id] {
			ps = append(ps, fmt.Sprintf("(%d%%N, %s)", i, hx.List(pends[id].parts)))
		}
	}
	return hx.List(items), hx.List(ps)
}

// ---------- one case ----------

type caseSpec struct {
	limit  int
	inline int
	chunk  int // 0: the real autoChunk (1 MiB)
	ops    []*op
	kind   string
	keys   string // the key universe: "", plain, blank, meta
}

func runCase(out *hx.Out, w *world, c caseSpec) {
	w.reset(c.limit, int64(c.inline), c.chunk)
	chunkBytes := c.chunk
	if chunkBytes == 0 {
		chunkBytes = 1 << 20
	}
	rn := &runner{w: w}
	opTerms := make([]string, len(c.ops))
	impl := make([]string, len(c.ops))
	canon := []string{fmt.Sprintf("L%d/I%d/C%d", c.limit, c.inline, c.chunk)}
	for i, o := range c.ops {
		impl[i] = rn.exec(o)
		opTerms[i] = o.coq()
		canon = append(canon, o.canon())
		out.Count("op:"+o.kind, 1)
		out.Count("result:"+strings.SplitN(impl[i], " ", 2)[0], 1)
	}
	objs, pend := rn.final()
	term := fmt.Sprintf("{| limit := %d; inline := %d; chunk := %d; ops := %s; impl := %s; final := %s; pend := %s |}",
		c.limit, c.inline, chunkBytes, hx.List(opTerms), hx.List(impl), objs, pend)
	out.Add(term, strings.Join(canon, ";"), rn.anyData, c.kind)
	out.Count(fmt.Sprintf("cfg:limit=%d", c.limit), 1)
	out.Count(fmt.Sprintf("cfg:inline=%d", c.inline), 1)
	out.Count(fmt.Sprintf("cfg:chunk=%d", c.chunk), 1)
	if c.keys != "" {
		out.Count("keys:"+c.keys, 1)
	}
	for _, o := range c.ops {
		switch o.kind {
		case "Copy":
			if hasURLMeta(keys[o.src]) || hasURLMeta(keys[o.key]) {
				out.Count("copy:url-meta-key", 1)
			}
		case "MpCopy":
			if hasURLMeta(keys[o.src]) {
				out.Count("copy:url-meta-key", 1)
			}
		}
	}
	for _, n := range rn.w.env.Snapshot("/buckets/" + bucket) {
		if !n.IsDir {
			switch {
			case n.Chunks >= 3:
				out.Count("stored:chunks>=3", 1)
			case n.Chunks == 2:
				out.Count("stored:chunks=2", 1)
			}
		}
	}
}

// ---------- generators ----------

// the flat S3 specification, tracked so that ranges and copy sources make sense
type tracker struct {
	objs map[int][]byte
	ups  []map[int][]byte // nil = dead
	upk  []int
	seed uint64
}

func newTracker(r *hx.Rng) *tracker {
	return &tracker{objs: map[int][]byte{}, seed: uint64(r.Range(1, 1000000))}
}

func (t *tracker) nextSeed() uint64 { t.seed += 7919; return t.seed }

func pickSize(r *hx.Rng) int {
	switch r.Intn(12) {
	case 0:
		return 0
	case 1:
		return 1
	case 2:
		return 64
	}
	return r.Range(1, 64)
}

func genRange(r *hx.Rng, size int) rng {
	if size == 0 {
		switch r.Intn(3) {
		case 0:
			return rng{kind: "closed", a: uint64(r.Range(1, 5)), b: uint64(r.Range(5, 9))}
		case 1:
			return rng{kind: "suffix", a: uint64(r.Range(1, 4))}
		}
		return rng{}
	}
	switch r.Intn(8) {
	case 0, 1, 2:
		a := r.Intn(size)
		b := r.Range(a, size+3)
		return rng{kind: "closed", a: uint64(a), b: uint64(b)}
	case 3:
		return rng{kind: "from", a: uint64(r.Intn(size))}
	case 4:
		return rng{kind: "suffix", a: uint64(r.Range(1, size+3))}
	case 5:
		return rng{kind: "closed", a: uint64(size + r.Range(1, 4)), b: uint64(size + 9)} // unsatisfiable
	case 6:
		return rng{kind: "closed", a: 0, b: uint64(size - 1)}
	}
	return rng{kind: "closed", a: uint64(size - 1), b: uint64(size - 1)}
}

func (t *tracker) getOp(r *hx.Rng, k int) *op {
	o := &op{kind: "Get", key: k}
	if r.Chance(1, 2) {
		o.r = genRange(r, len(t.objs[k]))
	}
	return o
}

func (t *tracker) bodyOp(r *hx.Rng, o *op) []byte {
	o.seed, o.size = t.nextSeed(), pickSize(r)
	if o.kind == "PutS" || o.kind == "MpPutS" {
		o.tamper = r.Chance(1, 6)
		for n := r.Intn(3); n > 0 && o.size > 1; n-- {
			o.cuts = append(o.cuts, r.Range(1, o.size-1))
		}
		sort.Ints(o.cuts)
	}
	return o.body()
}

func sliceOf(d []byte, a, b uint64) []byte {
	if int(b) >= len(d) {
		b = uint64(len(d) - 1)
	}
	return d[a : b+1]
}

// apply mirrors sstep of the Coq specification
func (t *tracker) apply(o *op) {
	switch o.kind {
	case "Put":
		t.objs[o.key] = o.body()
	case "PutS":
		if !o.tamper {
			t.objs[o.key] = o.body()
		}
	case "Copy":
		if d, ok := t.objs[o.src]; ok && o.src != o.key {
			t.objs[o.key] = d
		}
	case "Del":
		delete(t.objs, o.key)
	case "BatchDel":
		for _, k := range o.ks {
			delete(t.objs, k)
		}
	case "MpCreate":
		t.ups = append(t.ups, map[int][]byte{})
		t.upk = append(t.upk, o.key)
	case "MpPut", "MpPutS":
		if o.u < len(t.ups) && t.ups[o.u] != nil && o.n >= 1 && o.n <= 10000 && !o.tamper {
			t.ups[o.u][o.n] = o.body()
		}
	case "MpCopy":
		if o.u < len(t.ups) && t.ups[o.u] != nil && o.n >= 1 && o.n <= 10000 {
			if d, ok := t.objs[o.src]; ok {
				if !o.hasR {
					t.ups[o.u][o.n] = d
				} else if int(o.ra) < len(d) && o.ra <= o.rb {
					t.ups[o.u][o.n] = sliceOf(d, o.ra, o.rb)
				}
			}
		}
	case "MpComplete":
		if o.u < len(t.ups) && t.ups[o.u] != nil && len(t.ups[o.u]) > 0 && len(o.ns) > 0 {
			var all []byte
			for i, n := range o.ns {
				d, ok := t.ups[o.u][n]
				if !ok || (i > 0 && o.ns[i-1] >= n) {
					return
				}
				all = append(all, d...)
			}
			t.objs[t.upk[o.u]] = all
			t.ups[o.u] = nil
		}
	case "MpAbort":
		if o.u < len(t.ups) {
			t.ups[o.u] = nil
		}
	}
}

// completeOp: CompleteMultipartUpload of upload u; mostly with the full ascending list of the
// parts the specification holds, sometimes with a subset, a permutation, a number that was never
// uploaded, a duplicate or an empty list
func (t *tracker) completeOp(r *hx.Rng, u int) *op {
	o := &op{kind: "MpComplete", u: u}
	if u < len(t.ups) {
		for n := range t.ups[u] {
			o.ns = append(o.ns, n)
		}
	}
	sort.Ints(o.ns)
	if r.Chance(5, 6) {
		return o
	}
	switch k := r.Intn(5); {
	case k == 0 && len(o.ns) >= 2: // a subset
		i := r.Intn(len(o.ns))
		o.ns = append(append([]int{}, o.ns[:i]...), o.ns[i+1:]...)
	case k == 1 && len(o.ns) >= 2: // out of order
		i := r.Intn(len(o.ns) - 1)
		o.ns[i], o.ns[i+1] = o.ns[i+1], o.ns[i]
	case k == 2: // a part that was never uploaded
		o.ns = append(o.ns, 10000)
		if len(o.ns) >= 2 && o.ns[len(o.ns)-2] == 10000 {
			o.ns[len(o.ns)-1] = 3
			sort.Ints(o.ns)
		}
	case k == 3 && len(o.ns) >= 1: // a duplicate
		o.ns = append(o.ns, o.ns[len(o.ns)-1])
	default:
		o.ns = nil
	}
	return o
}

func (t *tracker) existingKey(r *hx.Rng, universe []int) (int, bool) {
	var have []int
	for _, k := range universe {
		if _, ok := t.objs[k]; ok {
			have = append(have, k)
		}
	}
	if len(have) == 0 {
		return 0, false
	}
	return have[r.Intn(len(have))], true
}

func pickKey(r *hx.Rng, universe []int) int { return universe[r.Intn(len(universe))] }

func allKeys() []int {
	xs := make([]int, nNamespaceKeys)
	for i := range xs {
		xs[i] = i
	}
	return xs
}

func (t *tracker) copySrc(r *hx.Rng, universe []int) int {
	if k, ok := t.existingKey(r, universe); ok && r.Chance(5, 6) {
		return k
	}
	return pickKey(r, universe)
}

func (t *tracker) mpCopyOp(r *hx.Rng, u int, universe []int) *op {
	o := &op{kind: "MpCopy", u: u, n: r.PickInt(partNumbers), src: t.copySrc(r, universe)}
	if d := t.objs[o.src]; len(d) > 0 && r.Chance(2, 3) {
		o.hasR = true
		o.ra = uint64(r.Intn(len(d)))
		o.rb = o.ra + uint64(r.Intn(len(d)-int(o.ra)+2))
	} else if len(d) == 0 && r.Chance(1, 4) {
		o.hasR, o.ra, o.rb = true, uint64(r.Range(1, 3)), uint64(r.Range(3, 6)) // unsatisfiable
	}
	return o
}

// object-level operation over a key universe
func (t *tracker) objOp(r *hx.Rng, universe []int) *op {
	switch k := r.Intn(20); {
	case k < 5:
		o := &op{kind: "Put", key: pickKey(r, universe)}
		t.bodyOp(r, o)
		return o
	case k < 7:
		o := &op{kind: "PutS", key: pickKey(r, universe)}
		t.bodyOp(r, o)
		return o
	case k < 9:
		return &op{kind: "Copy", src: t.copySrc(r, universe), key: pickKey(r, universe)}
	case k < 15:
		if e, ok := t.existingKey(r, universe); ok && r.Chance(4, 5) {
			return t.getOp(r, e)
		}
		return t.getOp(r, pickKey(r, universe))
	case k < 17:
		if e, ok := t.existingKey(r, universe); ok && r.Chance(2, 3) {
			return &op{kind: "Del", key: e}
		}
		return &op{kind: "Del", key: pickKey(r, universe)}
	default:
		n := r.Range(1, 4)
		o := &op{kind: "BatchDel"}
		for i := 0; i < n; i++ {
			o.ks = append(o.ks, pickKey(r, universe))
		}
		if r.Chance(1, 4) { // the same key twice
			o.ks = append(o.ks, o.ks[r.Intn(len(o.ks))])
		}
		return o
	}
}

func (t *tracker) sweep(universe []int) []*op {
	var ops []*op
	for _, k := range universe {
		ops = append(ops, &op{kind: "Get", key: k})
	}
	return ops
}

// pickUniverse: the prefix-free key universe of a case: plain names, names with blank / '+' / '&' / '='
// (every route must treat them alike), or those plus names with '%', '?', '#'
func pickUniverse(r *hx.Rng, c *caseSpec) []int {
	switch r.Intn(3) {
	case 0:
		c.keys = "plain"
		return cleanKeys
	case 1:
		c.keys = "blank"
		return blankKeys
	}
	c.keys = "meta"
	return metaKeys
}

// crossRoutes: one key through every way the gateway builds the filer path of a key (HTTP-proxied
// put / get / delete, gRPC-side batch delete and multipart completion, raw-URL copy), each write
// followed by a read over another route
func crossRoutes(k, other int, seed uint64) []*op {
	put := func(k int, s uint64, size int) *op { return &op{kind: "Put", key: k, seed: seed + s, size: size} }
	get := func(k int) *op { return &op{kind: "Get", key: k} }
	return []*op{
		put(k, 1, 7), get(k), {kind: "BatchDel", ks: []int{k}}, get(k), // put -> batch delete -> get
		{kind: "MpCreate", key: k}, {kind: "MpPut", u: 0, n: 2, seed: seed + 2, size: 5}, {kind: "MpPut", u: 0, n: 1, seed: seed + 3, size: 4},
		{kind: "MpComplete", u: 0, ns: []int{1, 2}}, get(k), {kind: "Get", key: k, r: rng{kind: "closed", a: 2, b: 6}}, // complete -> get
		{kind: "Copy", src: k, key: other}, get(other), // completed -> copy -> get
		{kind: "Del", key: k}, get(k), // completed -> single delete -> get
		put(k, 4, 6), {kind: "MpCreate", key: other}, {kind: "MpCopy", u: 1, n: 1, src: k}, {kind: "MpComplete", u: 1, ns: []int{1}}, get(other), // put -> part copy -> complete -> get
		{kind: "PutS", key: k, seed: seed + 5, size: 9, cuts: []int{4}}, {kind: "Copy", src: other, key: k}, get(k), // streaming put, copy onto the key
		{kind: "BatchDel", ks: []int{other, k}}, get(k), get(other),
	}
}

func genCase(r *hx.Rng) caseSpec {
	t := newTracker(r)
	c := caseSpec{limit: 100000, inline: 0}
	add := func(o *op) {
		t.apply(o)
		c.ops = append(c.ops, o)
	}
	switch k := r.Intn(10); {
	case k < 5:
		// multipart over conflict-free keys
		c.kind = "multipart"
		switch r.Intn(10) {
		case 0:
			c.limit = r.Range(1, 3)
		case 1:
			c.limit = 1000
		}
		if r.Chance(1, 8) {
			c.inline = r.PickInt([]int{8, 32, 100})
		}
		c.chunk = r.PickInt(chunkSizes)
		universe := pickUniverse(r, &c)
		for i, n := 0, r.Range(0, 2); i < n; i++ {
			o := &op{kind: "Put", key: pickKey(r, universe)}
			t.bodyOp(r, o)
			add(o)
		}
		nUp := r.Range(1, 2)
		for u := 0; u < nUp; u++ {
			add(&op{kind: "MpCreate", key: pickKey(r, universe)})
		}
		// a pool of part numbers per case makes overwrites and the 10000 mix likely
		pool := []int{r.PickInt(partNumbers), r.PickInt(partNumbers), r.PickInt(partNumbers), r.PickInt(partNumbers)}
		if r.Chance(1, 4) {
			pool = append(pool, 10000, r.PickInt([]int{1001, 9999, 1000, 999}))
		}
		if r.Chance(1, 8) {
			pool = append(pool, r.PickInt(oddPartNumbers))
		}
		for i, n := 0, r.Range(2, 9); i < n; i++ {
			u := r.Intn(nUp)
			switch k := r.Intn(20); {
			case k < 10:
				o := &op{kind: "MpPut", u: u, n: r.PickInt(pool)}
				t.bodyOp(r, o)
				add(o)
			case k < 12:
				o := &op{kind: "MpPutS", u: u, n: r.PickInt(pool)}
				t.bodyOp(r, o)
				add(o)
			case k < 14:
				add(t.mpCopyOp(r, u, universe))
			case k < 15:
				o := &op{kind: "MpPut", u: u, n: r.PickInt([]int{100001, 123456}), seed: t.nextSeed(), size: 3}
				add(o)
			case k < 17:
				add(&op{kind: "MpList", u: u})
			case k < 18:
				add(&op{kind: "MpAbort", u: u})
			case k < 19:
				add(t.completeOp(r, u))
			default:
				add(t.objOp(r, universe))
			}
		}
		for u := 0; u < nUp; u++ {
			if r.Chance(1, 3) {
				add(&op{kind: "MpList", u: u})
			}
			if r.Chance(5, 6) {
				add(t.completeOp(r, u))
				k := t.upk[u]
				add(&op{kind: "Get", key: k})
				if r.Chance(2, 3) {
					add(t.getOp(r, k))
				}
			}
		}
		if r.Chance(1, 4) {
			// requests that address an upload after it is gone
			u := r.Intn(nUp)
			switch r.Intn(4) {
			case 0:
				o := &op{kind: "MpPut", u: u, n: r.PickInt(pool)}
				t.bodyOp(r, o)
				add(o)
			case 1:
				add(t.mpCopyOp(r, u, universe))
			case 2:
				add(&op{kind: "MpAbort", u: u})
			default:
				add(&op{kind: "MpList", u: u})
			}
			add(&op{kind: "MpComplete", u: u, ns: []int{r.PickInt(pool)}})
			add(&op{kind: "Get", key: t.upk[u]})
		}
	case k < 8:
		// objects over conflict-free keys: PUT / streaming PUT / copy / ranges / deletes
		c.kind = "objects"
		if r.Chance(1, 6) {
			c.inline = r.PickInt([]int{8, 32, 100})
		}
		c.chunk = r.PickInt(chunkSizes)
		universe := pickUniverse(r, &c)
		for i, n := 0, r.Range(3, 12); i < n; i++ {
			add(t.objOp(r, universe))
		}
		for _, o := range t.sweep(universe) {
			add(o)
		}
	default:
		// the whole key universe: keys that are prefixes of each other (a, a/b, a/b/c, d, d/e)
		c.kind = "namespace"
		c.chunk = r.PickInt(chunkSizes)
		for i, n := 0, r.Range(3, 10); i < n; i++ {
			if r.Chance(1, 8) {
				u := len(t.ups)
				add(&op{kind: "MpCreate", key: pickKey(r, allKeys())})
				o := &op{kind: "MpPut", u: u, n: r.PickInt(partNumbers)}
				t.bodyOp(r, o)
				add(o)
				add(&op{kind: "MpComplete", u: u, ns: []int{o.n}})
				continue
			}
			add(t.objOp(r, allKeys()))
		}
		for _, o := range t.sweep(allKeys()) {
			add(o)
		}
	}
	return c
}

// ---------- the deterministic first cases: witnesses of the known findings ----------
// (cases 1, 5, 6, 7, 10 and the completion of case 0 are witnesses of defects that have been
// repaired in /repo — numeric part order and explicit listing limit in completeMultipartUpload,
// doDeleteEmptyDirectories skipping non-directories, CopyObject checking the source status,
// CopyObjectPart checking the upload, part numbers outside 1..10000 refused — and now pass
// (verdict 0); case 0 still exhibits the ListParts order)

func witnesses() []caseSpec {
	put := func(k int, seed uint64, size int) *op { return &op{kind: "Put", key: k, seed: seed, size: size} }
	part := func(u, n int, seed uint64, size int) *op {
		return &op{kind: "MpPut", u: u, n: n, seed: seed, size: size}
	}
	get := func(k int) *op { return &op{kind: "Get", key: k} }
	complete := func(u int, ns ...int) *op { return &op{kind: "MpComplete", u: u, ns: ns} }
	return []caseSpec{
		// 0: part 10000 sorts between 1000 and 1001
		{limit: 100000, kind: "witness-order", ops: []*op{{kind: "MpCreate", key: 6}, part(0, 1001, 11, 5), part(0, 10000, 12, 6), part(0, 2, 13, 4),
			{kind: "MpList", u: 0}, complete(0, 2, 1001, 10000), get(6), {kind: "Get", key: 6, r: rng{kind: "closed", a: 2, b: 9}}}},
		// 1: the listing limit cuts the upload (dirListLimit 2, three parts)
		{limit: 2, kind: "witness-limit", ops: []*op{{kind: "MpCreate", key: 6}, part(0, 1, 21, 5), part(0, 2, 22, 6), part(0, 3, 23, 7),
			{kind: "MpList", u: 0}, complete(0, 1, 2, 3), get(6)}},
		// 2: parts stored inline are dropped (saveToFilerLimit 32)
		{limit: 100000, inline: 32, kind: "witness-inline", ops: []*op{{kind: "MpCreate", key: 6}, part(0, 1, 31, 10), part(0, 2, 32, 40), part(0, 3, 33, 12),
			complete(0, 1, 2, 3), get(6)}},
		// 3: DELETE of a prefix key removes the objects below it
		{limit: 100000, kind: "witness-delete-prefix", ops: []*op{put(1, 41, 8), put(2, 42, 5), {kind: "Del", key: 0}, get(1), get(2)}},
		// 4: PUT to a key that is a directory lands one level down
		{limit: 100000, kind: "witness-write-conflict", ops: []*op{put(1, 51, 8), put(0, 52, 5), get(0), get(1), put(3, 53, 4), get(3)}},
		// 5: batch delete of a key below an object deletes that object
		{limit: 100000, kind: "witness-batch", ops: []*op{put(0, 61, 8), {kind: "BatchDel", ks: []int{1}}, get(0)}},
		// 6: copy of a missing source creates an empty object
		{limit: 100000, kind: "witness-copy-missing", ops: []*op{{kind: "Copy", src: 2, key: 6}, get(6)}},
		// 7: UploadPartCopy into a completed upload re-creates it
		{limit: 100000, kind: "witness-copy-dead-upload", ops: []*op{put(2, 71, 9), {kind: "MpCreate", key: 6}, part(0, 1, 72, 5), complete(0, 1),
			{kind: "MpCopy", u: 0, n: 2, src: 2}, complete(0, 1, 2), get(6)}},
		// 8: a leftover empty directory redirects a later PUT
		{limit: 100000, kind: "witness-leftover-dir", ops: []*op{put(1, 81, 8), {kind: "Del", key: 1}, put(0, 82, 5), get(0)}},
		// 9: UploadPartCopy with a range that starts at the end of the source stores an empty part
		{limit: 100000, kind: "witness-copy-range-at-end", ops: []*op{put(2, 91, 9), {kind: "MpCreate", key: 6}, part(0, 1, 92, 5),
			{kind: "MpCopy", u: 0, n: 2, src: 2, hasR: true, ra: 9, rb: 12}, {kind: "MpList", u: 0}, complete(0, 1, 2), get(6)}},
		// 10: the witness of former finding 5 (parts 0 and 10001 were accepted, ListParts hid part 0, the object held it):
		// both uploads must be refused now; the completion lists what a client then holds (part 1) and the object is part 1
		{limit: 100000, kind: "witness-part-range", ops: []*op{{kind: "MpCreate", key: 6}, part(0, 0, 101, 5), part(0, 1, 102, 6), part(0, 10001, 103, 4),
			{kind: "MpList", u: 0}, complete(0, 1), get(6)}},
		// 11: CompleteMultipartUpload with the part list [1, 3] of an upload holding 1, 2, 3: all three are assembled
		{limit: 100000, kind: "witness-complete-list", ops: []*op{{kind: "MpCreate", key: 6}, part(0, 1, 111, 5), part(0, 2, 112, 6), part(0, 3, 113, 4),
			complete(0, 1, 3), get(6)}},
		// 12: parts of several filer chunks (chunk size 4 bytes: 3, 1, 0 and 2 chunks), ranges across the boundaries
		{limit: 100000, chunk: 4, kind: "witness-multichunk", ops: []*op{{kind: "MpCreate", key: 6}, part(0, 2, 121, 10), part(0, 1, 122, 3), part(0, 7, 123, 0), part(0, 10000, 124, 8),
			{kind: "MpList", u: 0}, complete(0, 1, 2, 7, 10000), get(6), {kind: "Get", key: 6, r: rng{kind: "closed", a: 2, b: 12}},
			{kind: "Get", key: 6, r: rng{kind: "suffix", a: 9}}, {kind: "Get", key: 6, r: rng{kind: "from", a: 7}}}},
		// 13: finding 7: CopyObject / UploadPartCopy paste the raw key into the filer URL: a source "t?u" reads "t",
		// a source "x%20y" reads "x y" (missing here: refused), a destination "v#w" is stored as "v", "q%zz" is no URL
		{limit: 100000, kind: "witness-copy-raw-key", keys: "meta", ops: []*op{put(14, 131, 4), put(13, 132, 6), {kind: "Copy", src: 13, key: 6}, get(6),
			put(11, 133, 5), {kind: "Copy", src: 11, key: 2}, get(2), {kind: "Copy", src: 14, key: 15}, get(15),
			{kind: "MpCreate", key: 6}, {kind: "MpCopy", u: 0, n: 1, src: 13}, {kind: "MpCopy", u: 0, n: 2, src: 17}, {kind: "MpList", u: 0}, complete(0, 1), get(6),
			put(17, 134, 3), {kind: "Copy", src: 17, key: 2}, {kind: "Copy", src: 14, key: 17}, get(17), get(2)}},
		// 14..17: keys with blank / '+' / '&' / '=' through every route (must meet the specification exactly)
		{limit: 100000, kind: "cross-routes", keys: "blank", ops: crossRoutes(9, 10, 140)},
		{limit: 100000, chunk: 4, kind: "cross-routes", keys: "blank", ops: crossRoutes(10, 9, 150)},
		{limit: 100000, chunk: 3, kind: "cross-routes", keys: "blank", ops: crossRoutes(12, 6, 160)},
		{limit: 100000, kind: "cross-routes", keys: "blank", ops: crossRoutes(16, 9, 170)},
		// 18..21: keys with '%', '?', '#' through every route (the copies: finding 7)
		{limit: 100000, kind: "cross-routes-meta", keys: "meta", ops: crossRoutes(11, 9, 180)},
		{limit: 100000, chunk: 5, kind: "cross-routes-meta", keys: "meta", ops: crossRoutes(13, 14, 190)},
		{limit: 100000, kind: "cross-routes-meta", keys: "meta", ops: crossRoutes(15, 6, 200)},
		{limit: 100000, kind: "cross-routes-meta", keys: "meta", ops: crossRoutes(17, 11, 210)},
	}
}

// big bodies: parts of more than one filer chunk (1 MiB)
func bigCase(r *hx.Rng) caseSpec {
	const mib = 1 << 20
	c := caseSpec{limit: 100000, kind: "multichunk"}
	c.ops = append(c.ops, &op{kind: "MpCreate", key: 6})
	// a small part, a part of two filer chunks (1 MiB + tail), a small part: the running offset
	// has to be carried through the chunks of the middle entry
	nums := []int{1, 2, 9, 10, 999, 1000}
	r0 := r.Intn(len(nums) - 1)
	head := r.Range(1, 30)
	tail := r.Range(0, 40)
	c.ops = append(c.ops, &op{kind: "MpPut", u: 0, n: nums[r0], seed: 98, size: head})
	c.ops = append(c.ops, &op{kind: "MpPut", u: 0, n: nums[r0+1], rep: true, seed: uint64(r.Range(1, 250)), size: mib + tail})
	c.ops = append(c.ops, &op{kind: "MpPut", u: 0, n: 5000, seed: 99, size: r.Range(1, 30)})
	c.ops = append(c.ops, &op{kind: "MpList", u: 0}, &op{kind: "MpComplete", u: 0, ns: []int{nums[r0], nums[r0+1], 5000}})
	for i := 0; i < 3; i++ {
		a := uint64(head + mib - 20 + r.Intn(30)) // around the boundary of the two chunks
		switch i {
		case 1:
			a = uint64(r.Intn(head + 5)) // around the first part boundary
		case 2:
			a = uint64(head + mib + tail - 10 + r.Intn(12)) // around the last part boundary
		}
		c.ops = append(c.ops, &op{kind: "Get", key: 6, r: rng{kind: "closed", a: a, b: a + uint64(r.Range(1, 60))}})
	}
	c.ops = append(c.ops, &op{kind: "Get", key: 6, r: rng{kind: "suffix", a: uint64(r.Range(1, 50))}})
	return c
}

func main() {
	out := hx.Flags("C28", 300)
	out.Rule = "histories of S3 requests on one bucket through the real gateway router over a real in-process filer (leveldb2) with a loopback volume stand-in: " +
		"first 22 deterministic cases: witnesses of the known findings (k=0..4, 6, 7), cross-route sequences (put -> batch delete -> get, multipart complete -> get / ranged get, copy -> get, single delete -> get, put -> part copy -> complete -> get, streaming put, copy onto the key) on keys with blank, '+', '&', '=', '%', '?', '#', witnesses of the repaired defects (incl. former finding 5: part numbers 0 / 10001 must be refused) and of multi-chunk parts, then per case a filer chunk size from {1 MiB through the real autoChunk, 3, 5, 8, 16, 24 bytes through the hook VerifC28PutWithChunkSize around the real doPutAutoChunk} so that most bodies become 2..20 chunks, and one of: multipart (1-2 uploads over a prefix-free key universe chosen per case from {plain names; names with blank / + / & / = ; those plus names with % ? # (x%20y next to x y, t?u next to t, v#w, q%zz)}, every key sent percent-encoded in the request line and in X-Amz-Copy-Source and XML-escaped in the batch delete, part numbers from {1,2,9,10,999,1000,1001,9999,10000} with a small per-case pool so that overwrites and the 10000 mix happen, in 1/8 of the cases also one of {0,10001,100000} (must be refused), bodies 0..64 bytes, streaming-signed parts incl. a bad chunk signature, UploadPartCopy with ranges, ListParts, abort, CompleteMultipartUpload with a real <Part> list in the body (5/6: all parts the specification holds, ascending; else a subset, a swap, a never-uploaded number, a duplicate or an empty list), requests after completion; dirListLimit in {100000,1000,1..3}, saveToFilerLimit in {0,8,32,100}), " +
		"objects (PUT / streaming PUT / copy / GET with closed, open, suffix and unsatisfiable ranges / DELETE / batch delete (1/4 with a repeated key) over prefix-free keys), namespace (the same over keys that are path prefixes of each other: a, a/b, a/b/c, d, d/e, ab), case 13 of shard 0 and every 400th case a 1 MiB multi-chunk upload (a part of 1 MiB + tail = two 1 MiB filer chunks between two small parts, ranges across the chunk and part boundaries). " +
		"non-trivial = some GET returned a non-empty body; distinct = canonical configuration + op list"
	w := newWorld()
	defer w.close()
	root := hx.NewRng(out.Seed)
	wit := witnesses()
	for i := 0; i < out.N; i++ {
		r := root.Fork()
		switch {
		case i < len(wit):
			runCase(out, w, wit[i])
		case i%400 == 399 || (i == len(wit) && out.Seed%1000 == 0):
			// the multi-chunk case is expensive on the Coq side (lists of a million bytes): once per run
			// (bin/check seeds shard k with seed*1000+k) and every 400th case
			runCase(out, w, bigCase(r))
		default:
			runCase(out, w, genCase(r))
		}
	}
	out.Write()
}
