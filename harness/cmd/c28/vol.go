package main

// A minimal volume-server stand-in for the C28 harness: a loopback HTTP server
// (ephemeral port) that stores uploaded chunk bodies by file id and serves them
// back with Range support, plus the master Assign answer that points the filer
// at it.  The filer's real write path (operation.Upload: multipart/form-data
// POST, optional gzip) and read path (util.ReadUrlAsStream: GET with Range or
// Accept-Encoding) talk to it over TCP exactly as they talk to a volume server.
// Chunk deletion (volume gRPC BatchDelete) is not served: deleted chunks simply
// stay in the map (nothing in C28 observes them).

import (
	"bytes"
	"crypto/md5"
	"encoding/json"
	"fmt"
	"io/ioutil"
	"mime"
	"mime/multipart"
	"net/http"
	"net/http/httptest"
	"strings"
	"sync"
	"time"

	"github.com/chrislusf/seaweedfs/weed/pb/master_pb"
	"github.com/chrislusf/seaweedfs/weed/storage/needle"
	"github.com/chrislusf/seaweedfs/weed/util"
	"github.com/chrislusf/seaweedfs/weed/wdclient"

	"verifharness/s3env"
)

const volumeId = 3

type fakeVolume struct {
	mu      sync.Mutex
	blobs   map[string][]byte // fid -> clear bytes
	next    uint64
	uploads int
	srv     *httptest.Server
	addr    string
}

func newFakeVolume(e *s3env.Env) *fakeVolume {
	v := &fakeVolume{blobs: map[string][]byte{}}
	v.srv = httptest.NewServer(http.HandlerFunc(v.serve))
	v.addr = strings.TrimPrefix(v.srv.URL, "http://")
	e.Master.AssignFn = v.assign
	e.Filer.MasterClient.VerifAddLocation(volumeId, wdclient.Location{Url: v.addr, PublicUrl: v.addr})
	return v
}

func (v *fakeVolume) close() { v.srv.Close() }

func (v *fakeVolume) assign(req *master_pb.AssignRequest) (*master_pb.AssignResponse, error) {
	v.mu.Lock()
	defer v.mu.Unlock()
	v.next++
	return &master_pb.AssignResponse{
		Fid:       needle.NewFileId(volumeId, v.next, 0x5eed0c28).String(),
		Url:       v.addr,
		PublicUrl: v.addr,
		Count:     1,
	}, nil
}

func (v *fakeVolume) serve(w http.ResponseWriter, r *http.Request) {
	fid := strings.TrimPrefix(r.URL.Path, "/")
	switch r.Method {
	case "POST", "PUT":
		raw, err := ioutil.ReadAll(r.Body)
		if err != nil {
			http.Error(w, err.Error(), 500)
			return
		}
		_, params, err := mime.ParseMediaType(r.Header.Get("Content-Type"))
		if err != nil {
			http.Error(w, err.Error(), 400)
			return
		}
		mr := multipart.NewReader(bytes.NewReader(raw), params["boundary"])
		part, err := mr.NextPart()
		if err != nil {
			http.Error(w, err.Error(), 400)
			return
		}
		data, err := ioutil.ReadAll(part)
		if err != nil {
			http.Error(w, err.Error(), 400)
			return
		}
		if part.Header.Get("Content-Encoding") == "gzip" {
			if data, err = util.DecompressData(data); err != nil {
				http.Error(w, err.Error(), 400)
				return
			}
		}
		v.mu.Lock()
		v.uploads++
		v.blobs[fid] = data
		v.mu.Unlock()
		sum := md5.Sum(data)
		w.Header().Set("Content-MD5", util.Base64Encode(sum[:]))
		w.Header().Set("Content-Type", "application/json")
		w.WriteHeader(http.StatusCreated)
		json.NewEncoder(w).Encode(map[string]interface{}{"name": part.FileName(), "size": len(data), "eTag": fmt.Sprintf("%x", sum[:4])})
	case "GET", "HEAD":
		v.mu.Lock()
		data, ok := v.blobs[fid]
		v.mu.Unlock()
		if !ok {
			http.Error(w, "not found", 404)
			return
		}
		w.Header().Set("Content-Type", "application/octet-stream")
		http.ServeContent(w, r, "", time.Time{}, bytes.NewReader(data))
	case "DELETE":
		v.mu.Lock()
		delete(v.blobs, fid)
		v.mu.Unlock()
		w.WriteHeader(http.StatusAccepted)
		w.Write([]byte(`{"size":0}`))
	default:
		http.Error(w, "method", 405)
	}
}
