package main

// An independent AWS Signature V4 "streaming" signer (aws-chunked body with
// chained chunk signatures), written from
// https://docs.aws.amazon.com/AmazonS3/latest/API/sigv4-streaming.html — used to
// send PUT Object / UploadPart bodies through newSignV4ChunkedReader
// (weed/s3api/chunked_reader_v4.go).

import (
	"bytes"
	"crypto/hmac"
	"crypto/sha256"
	"encoding/hex"
	"fmt"
	"net/url"
	"sort"
	"strings"
)

const (
	accessKey   = "AKIDC28"
	secretKey   = "c28-secret-key"
	region      = "us-east-1"
	amzDate     = "20200102T030405Z"
	amzDay      = "20200102"
	hostName    = "s3.verif"
	streamingSH = "STREAMING-AWS4-HMAC-SHA256-PAYLOAD"
	emptySHA    = "e3b0c44298fc1c149afbf4c8996fb92427ae41e4649b934ca495991b7852b855"
)

func hmac256(key []byte, data string) []byte {
	h := hmac.New(sha256.New, key)
	h.Write([]byte(data))
	return h.Sum(nil)
}

func sha256hex(b []byte) string {
	s := sha256.Sum256(b)
	return hex.EncodeToString(s[:])
}

func signingKey() []byte {
	k := hmac256([]byte("AWS4"+secretKey), amzDay)
	k = hmac256(k, region)
	k = hmac256(k, "s3")
	return hmac256(k, "aws4_request")
}

// streamingRequest returns the headers and the aws-chunked body of a
// streaming-signed PUT of data to path?rawQuery, the payload cut at the given
// chunk boundaries.  tamper flips one digit of the LAST data chunk's signature.
func streamingRequest(path, rawQuery string, data []byte, cuts []int, tamper bool) (map[string]string, []byte) {
	scope := amzDay + "/" + region + "/s3/aws4_request"
	hdr := map[string]string{
		"X-Amz-Date":                   amzDate,
		"X-Amz-Content-Sha256":         streamingSH,
		"X-Amz-Decoded-Content-Length": fmt.Sprint(len(data)),
		"Content-Encoding":             "aws-chunked",
	}
	signed := []string{"host", "x-amz-content-sha256", "x-amz-date", "x-amz-decoded-content-length"}
	sort.Strings(signed)
	var ch strings.Builder
	for _, h := range signed {
		v := hostName
		if h != "host" {
			for k, x := range hdr {
				if strings.ToLower(k) == h {
					v = x
				}
			}
		}
		ch.WriteString(h + ":" + v + "\n")
	}
	q, _ := url.ParseQuery(rawQuery)
	canonQuery := strings.Replace(q.Encode(), "+", "%20", -1)
	canonical := strings.Join([]string{"PUT", path, canonQuery, ch.String(), strings.Join(signed, ";"), streamingSH}, "\n")
	sts := "AWS4-HMAC-SHA256\n" + amzDate + "\n" + scope + "\n" + sha256hex([]byte(canonical))
	key := signingKey()
	seed := hex.EncodeToString(hmac256(key, sts))
	hdr["Authorization"] = "AWS4-HMAC-SHA256 Credential=" + accessKey + "/" + scope + ", SignedHeaders=" + strings.Join(signed, ";") + ", Signature=" + seed

	// chunks: data pieces, then the final empty chunk
	var pieces [][]byte
	prev := 0
	for _, c := range cuts {
		pieces = append(pieces, data[prev:c])
		prev = c
	}
	pieces = append(pieces, data[prev:])
	var nonEmpty [][]byte
	for _, p := range pieces {
		if len(p) > 0 {
			nonEmpty = append(nonEmpty, p)
		}
	}
	nonEmpty = append(nonEmpty, []byte{})
	var body bytes.Buffer
	prevSig := seed
	for i, p := range nonEmpty {
		csts := "AWS4-HMAC-SHA256-PAYLOAD\n" + amzDate + "\n" + scope + "\n" + prevSig + "\n" + emptySHA + "\n" + sha256hex(p)
		sig := hex.EncodeToString(hmac256(key, csts))
		prevSig = sig
		wire := sig
		lastData := len(nonEmpty) >= 2 && i == len(nonEmpty)-2
		if tamper && (lastData || len(nonEmpty) == 1) {
			c := byte('0')
			if wire[0] == '0' {
				c = '1'
			}
			wire = string(c) + wire[1:]
		}
		fmt.Fprintf(&body, "%x;chunk-signature=%s\r\n", len(p), wire)
		body.Write(p)
		body.WriteString("\r\n")
	}
	return hdr, body.Bytes()
}
