// C07 volume cases (audit items 1-3): a real volume (storage.Store, in-memory needle map) gets a
// short history of writes and deletes, is erasure coded with the REAL WriteEcFiles and
// WriteSortedFileFromIdx, its 14 shards are mounted as an EC volume by a new Store; needles are
// deleted through the real gRPC handler VolumeServer.VolumeEcBlobDelete (what
// Store.DeleteEcShardNeedle makes every shard holder run) and every key is read with
// Store.ReadEcShardNeedle; the Store is closed/reopened (NewEcVolume on the modified files) and
// RebuildEcxFile is run in between; then the real VolumeServer.VolumeEcShardsToVolume (ec.decode:
// FindDatFileSize + WriteDatFile + WriteIdxFileFromEcIndex) runs, the shards are removed, a new
// Store mounts the decoded volume (Volume.load) and every key is read again.
package main

import (
	"bytes"
	"context"
	"encoding/binary"
	"fmt"
	"os"
	"path/filepath"
	"strings"
	"time"

	"github.com/chrislusf/seaweedfs/weed/pb/volume_server_pb"
	weed_server "github.com/chrislusf/seaweedfs/weed/server"
	"github.com/chrislusf/seaweedfs/weed/storage"
	ec "github.com/chrislusf/seaweedfs/weed/storage/erasure_coding"
	"github.com/chrislusf/seaweedfs/weed/storage/needle"
	"github.com/chrislusf/seaweedfs/weed/storage/types"
	"github.com/chrislusf/seaweedfs/weed/util"
	"verifharness/hx"
)

const volCookie = 0x5a5a

var volKeys = []uint64{1, 2, 3, 4, 5, 1<<32 + 5}

type volWrite struct {
	del  bool
	key  uint64
	size int // payload bytes
}

type volOp struct {
	kind int // 0 delete, 1 read all, 2 reopen, 3 rebuild
	key  uint64
}

func volNewStore(dir string) *storage.Store {
	s := storage.NewStore(nil, 0, "localhost", "localhost", []string{dir}, []int{10},
		[]util.MinFreeSpace{{Type: util.AsPercent, Percent: 0}}, "", storage.NeedleMapInMemory, []types.DiskType{types.HardDriveType})
	go func() {
		for range s.NewVolumesChan {
		}
	}()
	go func() {
		for range s.DeletedVolumesChan {
		}
	}()
	go func() {
		for range s.NewEcShardsChan {
		}
	}()
	go func() {
		for range s.DeletedEcShardsChan {
		}
	}()
	return s
}

// payload i: unique content (the write's number is part of it), n bytes
func volData(i, n int) []byte {
	b := make([]byte, n)
	for j := range b {
		b[j] = byte((i*37 + j*11 + 3) % 251)
	}
	tag := fmt.Sprintf("w%03d.", i)
	copy(b, tag)
	if n < len(tag) {
		// short payloads: still unique per write as long as n >= 1 and i < 251
		b[0] = byte(i + 1)
	}
	return b
}

func volReadClass(err error) int {
	switch {
	case err == nil:
		return 0
	case err == storage.ErrorNotFound || strings.Contains(err.Error(), "needle not found") || strings.Contains(err.Error(), "not found"):
		return 1
	case err == storage.ErrorDeleted || strings.Contains(err.Error(), "already deleted"):
		return 2
	}
	return 3
}

func volRun(out *hx.Out, hist []volWrite, ops []volOp, kind string) {
	dir, err := os.MkdirTemp("", "c07v")
	hx.Must(err)
	defer os.RemoveAll(dir)
	base := filepath.Join(dir, "1")
	s := volNewStore(dir)
	hx.Must(s.AddVolume(1, "", storage.NeedleMapInMemory, "000", "", 0, 0, types.HardDriveType))
	var canon []string
	for i, w := range hist {
		if w.del {
			n := &needle.Needle{Id: types.NeedleId(w.key), Cookie: volCookie}
			_, err := s.DeleteVolumeNeedle(1, n)
			hx.Must(err)
			canon = append(canon, fmt.Sprintf("d%d", w.key))
		} else {
			n := &needle.Needle{Id: types.NeedleId(w.key), Cookie: volCookie, Data: volData(i, w.size)}
			n.Checksum = needle.NewCRC(n.Data)
			_, err := s.WriteVolumeNeedle(1, n, false)
			hx.Must(err)
			canon = append(canon, fmt.Sprintf("w%d.%d", w.key, w.size))
		}
	}
	// reads before the encoding; payloads are resolved to record offsets after the scan below
	type rd struct {
		class int
		data  []byte
	}
	readVol := func(st *storage.Store) []rd {
		var l []rd
		for _, k := range volKeys {
			n := &needle.Needle{Id: types.NeedleId(k)}
			_, err := st.ReadVolumeNeedle(1, n, nil)
			l = append(l, rd{volReadClass(err), append([]byte{}, n.Data...)})
		}
		return l
	}
	before := readVol(s)
	s.Close()
	orig := readFile(base + ".dat")
	idx0 := readFile(base + ".idx")

	// scan of the .dat (Version3 records: cookie 4 | id 8 | size 4 | body), payload -> record offset
	var recs []string
	offOf := map[string]uint64{}
	for pos := int64(8); pos+16 <= int64(len(orig)); {
		id := binary.BigEndian.Uint64(orig[pos+4:])
		size := int32(binary.BigEndian.Uint32(orig[pos+12:]))
		recs = append(recs, fmt.Sprintf("DR %d %d %s", pos/8, id, z(int64(size))))
		if size > 0 {
			dl := int64(binary.BigEndian.Uint32(orig[pos+16:]))
			offOf[string(orig[pos+20:pos+20+dl])] = uint64(pos / 8)
		}
		pos += needle.GetActualSize(types.Size(size), needle.Version3)
	}
	vr := func(r rd) string {
		if r.class != 0 {
			return fmt.Sprintf("VR %d 0", r.class)
		}
		return fmt.Sprintf("VR 0 %d", offOf[string(r.data)]) // 0 when the payload is no record's
	}
	vrs := func(l []rd) string {
		var t []string
		for _, r := range l {
			t = append(t, vr(r))
		}
		return hx.List(t)
	}

	// ec.encode
	hx.Must(ec.WriteEcFiles(base))
	hx.Must(ec.WriteSortedFileFromIdx(base, ".ecx"))
	ecx0 := readFile(base + ".ecx")
	hx.Must(os.Remove(base + ".dat"))
	hx.Must(os.Remove(base + ".idx"))

	var st *storage.Store
	var vs *weed_server.VolumeServer
	open := func() {
		st = volNewStore(dir)
		ev, found := st.FindEcVolume(1)
		if !found {
			panic("c07 vol: the EC volume was not loaded")
		}
		ev.ShardLocationsRefreshTime = time.Now() // all 14 shards are local: no master lookup
		vs = weed_server.NewVerifVolumeServer(st, 0)
	}
	open()
	var opT, obT []string
	nontrivial := false
	for _, o := range ops {
		switch o.kind {
		case 0:
			_, err := vs.VolumeEcBlobDelete(context.Background(), &volume_server_pb.VolumeEcBlobDeleteRequest{
				VolumeId: 1, Collection: "", FileKey: o.key, Version: uint32(needle.Version3)})
			cls := "ENone"
			if err != nil {
				switch {
				case strings.Contains(err.Error(), "needle not found"):
					cls = "ENotFound"
				case strings.Contains(err.Error(), "read at"):
					cls = "ERead"
				default:
					cls = "EWrite"
				}
			}
			opT = append(opT, fmt.Sprintf("VDel %d", o.key))
			obT = append(obT, "OVDel "+cls)
			canon = append(canon, fmt.Sprintf("D%d", o.key))
			out.Count("vol:delete:"+cls, 1)
			nontrivial = true
		case 1:
			var l []rd
			for _, k := range volKeys {
				n := &needle.Needle{Id: types.NeedleId(k)}
				_, err := st.ReadEcShardNeedle(1, n)
				l = append(l, rd{volReadClass(err), append([]byte{}, n.Data...)})
			}
			opT = append(opT, "VReadAll")
			obT = append(obT, "OVReads "+vrs(l))
			canon = append(canon, "A")
		case 2:
			st.Close()
			open()
			opT = append(opT, "VReopen")
			obT = append(obT, "OVReopen")
			canon = append(canon, "R")
			out.Count("vol:reopen", 1)
		case 3:
			st.Close()
			rerr := ec.RebuildEcxFile(base)
			open()
			opT = append(opT, "VRebuild")
			obT = append(obT, "OVRebuild "+errClass(rerr))
			canon = append(canon, "B")
			out.Count("vol:rebuild", 1)
		}
	}
	// ec.decode through the real handler, on the mounted EC volume
	ecx := readFile(base + ".ecx")
	ecj := []byte{}
	if _, serr := os.Stat(base + ".ecj"); serr == nil {
		ecj = readFile(base + ".ecj")
	}
	dsz, err := ec.FindDatFileSize(base, base)
	hx.Must(err)
	_, err = vs.VolumeEcShardsToVolume(context.Background(), &volume_server_pb.VolumeEcShardsToVolumeRequest{VolumeId: 1, Collection: ""})
	hx.Must(err)
	st.Close()
	decoded := readFile(base + ".dat")
	idxOut := readFile(base + ".idx")
	prefix := int64(len(decoded)) == dsz && dsz <= int64(len(orig)) && bytes.Equal(decoded, orig[:dsz])
	for i := 0; i < ec.TotalShardsCount; i++ {
		os.Remove(base + ec.ToExt(i))
	}
	os.Remove(base + ".ecx")
	os.Remove(base + ".ecj")
	os.Remove(base + ".vif")

	// mount of the decoded volume
	s3 := volNewStore(dir)
	loaded := s3.GetVolume(1) != nil
	after := "[]"
	if loaded {
		after = vrs(readVol(s3))
	}
	s3.Close()
	datLen, idxLen := int64(0), int64(0)
	if fi, e := os.Stat(base + ".dat"); e == nil {
		datLen = fi.Size()
	}
	if fi, e := os.Stat(base + ".idx"); e == nil {
		idxLen = fi.Size()
	}
	if int64(len(decoded)) > datLen {
		out.Count("vol:mount-truncated-dat", 1)
	}
	if int64(len(idxOut)) > idxLen {
		out.Count("vol:mount-truncated-idx", 1)
	}
	if len(ecj) == 0 {
		out.Count("vol:decode-with-empty-journal", 1)
	}

	term := fmt.Sprintf("CVol {| v_osz := %s; v_idx0 := %s; v_recs := %s; v_len := %d; v_keys := %s; v_before := %s; v_ops := %s; "+
		"iv_ecx0 := %s; iv_obs := %s; iv_ecx := %s; iv_ecj := %s; iv_dsz := %d; iv_prefix := %s; iv_idx := %s; "+
		"iv_loaded := %s; iv_len := %d; iv_idxlen := %d; iv_after := %s |}",
		hx.N(uint64(types.OffsetSize)), hx.Bytes(idx0), hx.List(recs), len(orig), hx.NList(volKeys), vrs(before), hx.List(opT),
		hx.Bytes(ecx0), hx.List(obT), hx.Bytes(ecx), hx.Bytes(ecj), dsz, hx.Bool(prefix), hx.Bytes(idxOut),
		hx.Bool(loaded), datLen, idxLen, after)
	out.Add(term, "vol|"+strings.Join(canon, ","), nontrivial || loaded, kind)
}

func vw(key uint64, size int) volWrite { return volWrite{key: key, size: size} }

// the witness of finding 0 (seed independent): Write(1,3 bytes), Write(2,3 bytes), Write(1,4 bytes);
// encode; decode with an empty journal; mount: .dat 128 -> 88, key 1 unreadable
func volWitness(out *hx.Out) {
	volRun(out, []volWrite{vw(1, 3), vw(2, 3), vw(1, 4)}, []volOp{{1, 0}}, "vol-witness-decode-mount")
}

// 3..9 writes/overwrites/deletes over 6 keys, then on the EC volume: reads, deletes of present,
// absent and already deleted keys, reopen, rebuild
func volRandom(out *hx.Out, r *hx.Rng) {
	n := r.Range(3, 9)
	var hist []volWrite
	written := map[uint64]bool{}
	live := map[uint64]bool{}
	for i := 0; i < n; i++ {
		k := volKeys[r.Intn(len(volKeys))]
		if written[k] && r.Chance(1, 5) {
			hist = append(hist, volWrite{del: true, key: k})
			live[k] = false
			continue
		}
		hist = append(hist, vw(k, r.Range(1, 70)))
		written[k] = true
		live[k] = true
	}
	if r.Chance(1, 3) {
		// rewrite the largest live key last: the decode with an empty journal is then clean
		for i := len(volKeys) - 1; i >= 0; i-- {
			if live[volKeys[i]] {
				hist = append(hist, vw(volKeys[i], r.Range(1, 70)))
				break
			}
		}
	}
	ops := []volOp{{1, 0}}
	if !r.Chance(1, 3) { // two cases in three delete on the EC volume
		nd := r.Range(1, 4)
		for i := 0; i < nd; i++ {
			k := volKeys[r.Intn(len(volKeys))]
			if r.Chance(1, 8) {
				k = 9 // never written
			}
			ops = append(ops, volOp{0, k}, volOp{1, 0})
			switch r.Intn(6) {
			case 0:
				ops = append(ops, volOp{2, 0}, volOp{1, 0})
			case 1:
				ops = append(ops, volOp{3, 0}, volOp{1, 0})
			}
		}
	} else if r.Chance(1, 3) {
		ops = append(ops, volOp{2, 0}, volOp{1, 0})
	}
	volRun(out, hist, ops, "vol-random")
}
