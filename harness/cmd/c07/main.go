// C07 harness: generated .ecx/.ecj files driven through the real EcVolume
// (DeleteNeedleFromEcx, FindNeedleFromEcx), RebuildEcxFile, WriteIdxFileFromEcIndex, and a
// real SortedFileNeedleMap built from a generated .idx (Get, Delete).  All resulting files are
// reported byte for byte.  Build with -tags "verif" and "verif 5BytesOffset".
package main

import (
	"fmt"
	"os"
	"path/filepath"
	"sort"
	"strings"
	"time"

	"github.com/chrislusf/seaweedfs/weed/storage"
	"github.com/chrislusf/seaweedfs/weed/storage/erasure_coding"
	"github.com/chrislusf/seaweedfs/weed/storage/needle"
	"github.com/chrislusf/seaweedfs/weed/storage/needle_map"
	"github.com/chrislusf/seaweedfs/weed/storage/types"
	"verifharness/hx"
)

type ent struct {
	key  uint64
	off  uint64 // stored offset units (ToActualOffset()/8)
	size int32
}

func mkOffset(units uint64) types.Offset { return types.ToOffset(int64(units) * 8) }

func encEntry(e ent) []byte {
	return needle_map.ToBytes(types.NeedleId(e.key), mkOffset(e.off), types.Size(e.size))
}

func encEntries(es []ent) []byte {
	var b []byte
	for _, e := range es {
		b = append(b, encEntry(e)...)
	}
	return b
}

func encKey(k uint64) []byte {
	b := make([]byte, 8)
	types.NeedleIdToBytes(b, types.NeedleId(k))
	return b
}

var farKeys = []uint64{1<<32 - 1, 1 << 32, 1<<32 + 5, 1 << 40, 1 << 63, 1<<64 - 1}

func maxUnits() uint64 {
	if types.OffsetSize == 5 {
		return 1<<40 - 1
	}
	return 1<<32 - 1
}

func genOff(r *hx.Rng) uint64 {
	switch r.Intn(10) {
	case 0:
		return maxUnits()
	case 1, 2:
		if types.OffsetSize == 5 {
			return 1<<32 + uint64(r.Intn(1000))
		}
		return 1<<31 + uint64(r.Intn(1000))
	case 3:
		if types.OffsetSize == 5 {
			return uint64(r.Next() % (1 << 40))
		}
		return uint64(r.Next()%(1<<32-1)) + 1
	default:
		return uint64(r.Range(1, 5000))
	}
}

func genSize(r *hx.Rng) int32 {
	switch r.Intn(14) {
	case 0:
		return 0
	case 1:
		return 1<<31 - 1
	case 2:
		return -1
	case 3:
		return -int32(r.Range(2, 900))
	default:
		return int32(r.Range(1, 100000))
	}
}

func genKeys(r *hx.Rng, n int, small int) []uint64 {
	seen := map[uint64]bool{}
	var ks []uint64
	for len(ks) < n {
		var k uint64
		if r.Chance(1, 6) {
			k = r.PickU64(farKeys)
		} else {
			k = uint64(r.Range(1, small))
		}
		if !seen[k] {
			seen[k] = true
			ks = append(ks, k)
		}
	}
	sort.Slice(ks, func(i, j int) bool { return ks[i] < ks[j] })
	return ks
}

func errClass(err error) string {
	switch {
	case err == nil:
		return "ENone"
	case err == erasure_coding.NotFoundError:
		return "ENotFound"
	case strings.Contains(err.Error(), "read at"):
		return "ERead"
	case strings.Contains(err.Error(), "sorted needle writ"):
		return "EWrite"
	}
	panic("unclassified error: " + err.Error())
}

func units(o types.Offset) uint64 { return uint64(o.ToActualOffset() / 8) }

// Numerals inside [a; b; ...] lists are printed WITHOUT scope delimiters (the typed
// constructors of check/C07.v give the scope): "%N" there makes Coq's parser very slow.
func n(v uint64) string { return fmt.Sprintf("%d", v) }
func z(v int64) string {
	if v < 0 {
		return fmt.Sprintf("(%d)", v)
	}
	return fmt.Sprintf("%d", v)
}

func readFile(p string) []byte {
	b, err := os.ReadFile(p)
	hx.Must(err)
	return b
}

type ecOp struct {
	kind int // 0 del, 1 find, 2 snap, 3 reopen (Close + NewEcVolume)
	key  uint64
}
type sOp struct {
	del    bool
	key    uint64
	off    uint64
	reopen int // 1: reopen with a fresh .sdx (kept), 2: with a stale one (regenerated)
}

type caseIn struct {
	ecx, ecj []byte
	ops      []ecOp
	idx      []byte
	sops     []sOp
	kind     string
}

func runCase(out *hx.Out, in caseIn) {
	dir, err := os.MkdirTemp("", "c07")
	hx.Must(err)
	defer os.RemoveAll(dir)
	base := filepath.Join(dir, "1")
	hx.Must(os.WriteFile(base+".ecx", in.ecx, 0644))
	if len(in.ecj) > 0 {
		hx.Must(os.WriteFile(base+".ecj", in.ecj, 0644))
	}
	ev, err := erasure_coding.NewEcVolume(types.HardDriveType, dir, dir, "", needle.VolumeId(1))
	hx.Must(err)
	var ops, obs, canon []string
	nontrivial := false
	for _, o := range in.ops {
		switch o.kind {
		case 0:
			_, _, ferr := ev.FindNeedleFromEcx(types.NeedleId(o.key))
			if ferr == nil {
				nontrivial = true
			}
			e := ev.DeleteNeedleFromEcx(types.NeedleId(o.key))
			ops = append(ops, "DelEcx "+n(o.key))
			obs = append(obs, "ODel "+errClass(e))
			canon = append(canon, fmt.Sprintf("D%d", o.key))
			out.Count("ec:delete", 1)
		case 1:
			off, size, e := ev.FindNeedleFromEcx(types.NeedleId(o.key))
			ops = append(ops, "FindEcx "+n(o.key))
			switch errClass(e) {
			case "ENone":
				obs = append(obs, fmt.Sprintf("OFind (FFound %s %s)", n(units(off)), z(int64(size))))
			case "ENotFound":
				obs = append(obs, "OFind FNotFound")
			default:
				obs = append(obs, "OFind FErr")
			}
			canon = append(canon, fmt.Sprintf("F%d", o.key))
			out.Count("ec:find", 1)
		case 2:
			ops = append(ops, "Snap")
			ecj := []byte{}
			if _, serr := os.Stat(base + ".ecj"); serr == nil {
				ecj = readFile(base + ".ecj")
			}
			obs = append(obs, fmt.Sprintf("OSnap %s %s", hx.Bytes(readFile(base+".ecx")), hx.Bytes(ecj)))
			canon = append(canon, "S")
		case 3:
			ev.Close()
			ev, err = erasure_coding.NewEcVolume(types.HardDriveType, dir, dir, "", needle.VolumeId(1))
			hx.Must(err)
			ops = append(ops, "Reopen")
			obs = append(obs, "OReopen")
			canon = append(canon, "R")
			out.Count("ec:reopen", 1)
		}
	}
	ev.Close()
	finalEcj := readFile(base + ".ecj")
	// WriteIdxFileFromEcIndex on the final files
	hx.Must(erasure_coding.WriteIdxFileFromEcIndex(base))
	idxOut := readFile(base + ".idx")
	// RebuildEcxFile on a fresh copy of the ORIGINAL .ecx with the final journal
	dir2 := filepath.Join(dir, "r")
	hx.Must(os.Mkdir(dir2, 0755))
	base2 := filepath.Join(dir2, "1")
	hx.Must(os.WriteFile(base2+".ecx", in.ecx, 0644))
	hx.Must(os.WriteFile(base2+".ecj", finalEcj, 0644))
	rerr := erasure_coding.RebuildEcxFile(base2)
	_, statErr := os.Stat(base2 + ".ecj")
	removed := os.IsNotExist(statErr)
	rebuilt := readFile(base2 + ".ecx")

	// sorted-file needle map
	dir3 := filepath.Join(dir, "s")
	hx.Must(os.Mkdir(dir3, 0755))
	base3 := filepath.Join(dir3, "v")
	hx.Must(os.WriteFile(base3+".idx", in.idx, 0644))
	idxFile, err := os.OpenFile(base3+".idx", os.O_RDWR, 0644)
	hx.Must(err)
	sm, err := storage.NewSortedFileNeedleMap(base3, idxFile)
	hx.Must(err)
	sdx0 := readFile(base3 + ".sdx")
	var sops, sobs []string
	for _, o := range in.sops {
		if o.reopen != 0 {
			// Close, then NewSortedFileNeedleMap on the existing .idx/.sdx; the freshness test
			// compares mtimes, which the harness sets explicitly (both branches are reached)
			sm.Close()
			t0 := time.Unix(1600000000, 0)
			if o.reopen == 1 {
				hx.Must(os.Chtimes(base3+".idx", t0, t0))
				hx.Must(os.Chtimes(base3+".sdx", t0.Add(time.Hour), t0.Add(time.Hour)))
			} else {
				hx.Must(os.Chtimes(base3+".sdx", t0, t0))
				hx.Must(os.Chtimes(base3+".idx", t0.Add(time.Hour), t0.Add(time.Hour)))
			}
			idxFile, err = os.OpenFile(base3+".idx", os.O_RDWR, 0644)
			hx.Must(err)
			sm, err = storage.NewSortedFileNeedleMap(base3, idxFile)
			hx.Must(err)
			sops = append(sops, fmt.Sprintf("SReopen %s", hx.Bool(o.reopen == 1)))
			sobs = append(sobs, fmt.Sprintf("OSReopen %s", hx.Bytes(readFile(base3+".sdx"))))
			canon = append(canon, fmt.Sprintf("sr%d", o.reopen))
			out.Count(fmt.Sprintf("sorted:reopen:%d", o.reopen), 1)
			continue
		}
		if o.del {
			e := sm.Delete(types.NeedleId(o.key), mkOffset(o.off))
			sops = append(sops, fmt.Sprintf("SDel %s %s", n(o.key), n(o.off)))
			sobs = append(sobs, "OSDel "+errClass(e))
			canon = append(canon, fmt.Sprintf("sd%d@%d", o.key, o.off))
			out.Count("sorted:delete:"+errClass(e), 1)
		} else {
			v, ok := sm.Get(types.NeedleId(o.key))
			sops = append(sops, "SGet "+n(o.key))
			if ok {
				sobs = append(sobs, fmt.Sprintf("OSGet (Some (OV %s %s))", n(units(v.Offset)), z(int64(v.Size))))
			} else {
				sobs = append(sobs, "OSGet None")
			}
			canon = append(canon, fmt.Sprintf("sg%d", o.key))
			out.Count("sorted:get", 1)
		}
	}
	sm.Close()
	sidx := readFile(base3 + ".idx")
	sdx := readFile(base3 + ".sdx")

	term := fmt.Sprintf("CFile {| c_osz := %s; c_ecx := %s; c_ecj := %s; c_ops := %s; c_idx := %s; c_sops := %s; "+
		"i_obs := %s; i_rebuilt := (%s, %s); i_ecj_removed := %s; i_idx := %s; i_sdx0 := %s; i_sobs := %s; i_sidx := %s; i_sdx := %s |}",
		hx.N(uint64(types.OffsetSize)), hx.Bytes(in.ecx), hx.Bytes(in.ecj), hx.List(ops), hx.Bytes(in.idx), hx.List(sops),
		hx.List(obs), errClass(rerr), hx.Bytes(rebuilt), hx.Bool(removed), hx.Bytes(idxOut), hx.Bytes(sdx0), hx.List(sobs),
		hx.Bytes(sidx), hx.Bytes(sdx))
	out.Count(fmt.Sprintf("ecx-entries:%02d", len(in.ecx)/int(types.NeedleMapEntrySize)/5*5), 1)
	out.Add(term, fmt.Sprintf("%x|%x|%s|%x", in.ecx, in.ecj, strings.Join(canon, ","), in.idx), nontrivial, in.kind)
}

// every key present, plus keys below / between / above
func probeKeys(es []ent) []uint64 {
	seen := map[uint64]bool{}
	var ks []uint64
	add := func(k uint64) {
		if !seen[k] {
			seen[k] = true
			ks = append(ks, k)
		}
	}
	add(0)
	for _, e := range es {
		if e.key > 0 {
			add(e.key - 1)
		}
		add(e.key)
		if e.key < 1<<64-1 {
			add(e.key + 1)
		}
	}
	add(1<<64 - 1)
	return ks
}

func genSorted(r *hx.Rng, wantLiveDelete bool) ([]byte, []sOp) {
	// an .idx as a volume would write it: puts, overwrites, tombstones, in any key order
	n := r.Range(1, 12)
	var es []ent
	state := map[uint64]int32{} // readNeedleMap's view: key -> size
	for i := 0; i < n; i++ {
		k := uint64(r.Range(1, 8))
		if r.Chance(1, 8) {
			k = r.PickU64(farKeys)
		}
		e := ent{key: k, off: genOff(r), size: genSize(r)}
		if r.Chance(1, 5) {
			e.size = -1 // tombstone entry
		}
		if r.Chance(1, 15) {
			e.off = 0
		}
		es = append(es, e)
		if e.off != 0 && e.size != -1 {
			state[k] = e.size
		} else {
			delete(state, k)
		}
	}
	var sops []sOp
	var keys []uint64
	for k := uint64(0); k <= 9; k++ {
		keys = append(keys, k)
	}
	keys = append(keys, farKeys...)
	for _, k := range keys {
		sops = append(sops, sOp{key: k})
	}
	nd := r.Range(1, 4)
	for i := 0; i < nd; i++ {
		k := r.PickU64(keys)
		size, present := state[k]
		live := present && size >= 0
		if live && !wantLiveDelete {
			continue
		}
		sops = append(sops, sOp{del: true, key: k, off: genOff(r)})
		sops = append(sops, sOp{key: k})
	}
	// reopen the map over the modified files (1 case in 2): kept .sdx or regenerated .sdx,
	// then every key again, another delete, and possibly a second reopen
	if r.Chance(1, 2) {
		for round := 0; round < r.Range(1, 2); round++ {
			sops = append(sops, sOp{reopen: r.Range(1, 2)})
			for _, k := range keys {
				sops = append(sops, sOp{key: k})
			}
			k := r.PickU64(keys[:10])
			sops = append(sops, sOp{del: true, key: k, off: genOff(r)}, sOp{key: k})
		}
	}
	for _, k := range keys[:10] {
		sops = append(sops, sOp{key: k})
	}
	return encEntries(es), sops
}

func main() {
	out := hx.Flags("C07", 300)
	out.Rule = "each case: a generated .ecx (0..40 strictly sorted entries over keys 1..30 plus far keys 2^32-1,2^32,2^32+5,2^40,2^63,2^64-1; offsets up to the build's maximum, sizes incl. 0, 2^31-1, tombstone and other negatives; 1 in 10 malformed: unsorted/duplicate keys, zero offset, trailing partial entry), optional initial journal (1 in 6; 1 in 12 with a partial record), then for indexes of <= 8 entries EVERY present key and every neighbour key (k-1,k+1,0,2^64-1) deleted in turn with Find before/after and a byte snapshot of .ecx/.ecj after each delete, for larger indexes a random third of those keys; finally Find of every probe key and a snapshot; RebuildEcxFile on the original .ecx with the final journal; WriteIdxFileFromEcIndex; plus a SortedFileNeedleMap over a generated .idx (1..12 puts/overwrites/tombstones in any key order) with Get of 16 keys and 1..4 Deletes (live keys included in 3 cases out of 4), each followed by a Get; the final .idx and .sdx are compared byte for byte. Every map is reopened in half of the cases (Close + NewSortedFileNeedleMap with the .sdx mtime set after or before the .idx mtime: kept / regenerated .sdx), followed by Get of every key and another Delete; the EC volume is closed and reopened (NewEcVolume) after 1 delete in 6. One case in 6 is a VOLUME case: a real volume (3..10 writes/overwrites/deletes over keys 1..5 and 2^32+5, payloads 1..70 bytes) is encoded with the real WriteEcFiles + WriteSortedFileFromIdx, mounted as an EC volume in a Store, 0..4 keys (written, deleted, never written) deleted through the real VolumeServer.VolumeEcBlobDelete, every key read with Store.ReadEcShardNeedle after every step, Store reopen / RebuildEcxFile in between, then the real VolumeServer.VolumeEcShardsToVolume, mount of the decoded volume by a new Store and a read of every key. First four cases are fixed witnesses (the fourth: finding 0 on a real volume). non-trivial = well-formed index with at least one delete of a present key; distinct = canonical bytes + op list"
	root := hx.NewRng(out.Seed)
	out.Extra["offset_size"] = types.OffsetSize
	out.Extra["entry_size"] = types.NeedleMapEntrySize

	// ---- fixed witnesses (independent of the seed) ----
	five := []ent{{1, 11, 101}, {2, 12, 102}, {3, 13, 103}, {4, 14, 104}, {5, 15, 105}}
	plainIdx := encEntries([]ent{{1, 2, 20}})
	// 0: the repaired callback-offset defect: delete key 3 of a 5-entry .ecx
	runCase(out, caseIn{ecx: encEntries(five), ops: []ecOp{{1, 3}, {0, 3}, {2, 0}, {1, 1}, {1, 2}, {1, 3}, {1, 4}, {1, 5}},
		idx: plainIdx, sops: []sOp{{key: 1}, {key: 2}}, kind: "witness-callback-offset"})
	// 1: the repaired SortedFileNeedleMap.Delete of a live key (.sdx was read-only, tombstone went to .idx offset 0)
	runCase(out, caseIn{ecx: encEntries(five[:2]), ops: []ecOp{{2, 0}},
		idx: plainIdx, sops: []sOp{{key: 1}, {del: true, key: 1, off: 3}, {key: 1}}, kind: "witness-sorted-delete"})
	// 2: every key of a 5-entry index with the largest offsets deleted in turn
	{
		big := []ent{{1, maxUnits(), 1}, {1 << 32, maxUnits() - 1, 0}, {1<<32 + 5, 1, 1<<31 - 1}, {1 << 40, 77, 5}, {1<<64 - 1, maxUnits(), 9}}
		var ops []ecOp
		for _, e := range big {
			ops = append(ops, ecOp{0, e.key}, ecOp{2, 0})
		}
		for _, k := range probeKeys(big) {
			ops = append(ops, ecOp{1, k})
		}
		runCase(out, caseIn{ecx: encEntries(big), ops: ops, idx: plainIdx, sops: []sOp{{key: 1}}, kind: "witness-all-keys"})
	}

	// 3: the witness of finding 0 on a real volume (decode with an empty journal, then mount)
	volWitness(out)

	for i := out.Len(); i < out.N; i++ {
		r := root.Fork()
		if i%6 == 5 {
			volRandom(out, r)
			continue
		}
		var n int
		switch r.Intn(10) {
		case 0:
			n = 0
		case 1, 2, 3, 4, 5:
			n = r.Range(1, 8)
		case 6, 7:
			n = r.Range(9, 20)
		default:
			n = r.Range(21, 40)
		}
		keys := genKeys(r, n, 60)
		es := make([]ent, n)
		for j, k := range keys {
			es[j] = ent{key: k, off: genOff(r), size: genSize(r)}
		}
		kind := "wellformed"
		ecx := encEntries(es)
		if r.Chance(1, 10) && n >= 2 {
			kind = "malformed"
			switch r.Intn(4) {
			case 0: // unsorted
				a, b := r.Intn(n), r.Intn(n)
				es[a], es[b] = es[b], es[a]
				ecx = encEntries(es)
			case 1: // duplicate key
				es[r.Intn(n-1)+1].key = es[0].key
				ecx = encEntries(es)
			case 2: // zero offset
				es[r.Intn(n)].off = 0
				ecx = encEntries(es)
			case 3: // trailing partial entry
				ecx = append(ecx, r.Bytes(r.Range(1, int(types.NeedleMapEntrySize)-1))...)
			}
		}
		var ecj []byte
		if r.Chance(1, 6) {
			m := r.Range(1, 4)
			for j := 0; j < m; j++ {
				if n > 0 && r.Bool() {
					ecj = append(ecj, encKey(es[r.Intn(n)].key)...)
				} else {
					ecj = append(ecj, encKey(uint64(r.Range(0, 31)))...)
				}
			}
			if r.Chance(1, 4) && kind == "wellformed" {
				kind = "malformed"
				ecj = append(ecj, r.Bytes(r.Range(1, 7))...)
			}
		}
		probes := probeKeys(es)
		var ops []ecOp
		// shuffle the probes (Fisher-Yates on the case's stream)
		order := append([]uint64(nil), probes...)
		for j := len(order) - 1; j > 0; j-- {
			k := r.Intn(j + 1)
			order[j], order[k] = order[k], order[j]
		}
		for _, k := range order {
			if n > 8 && !r.Chance(1, 3) {
				continue
			}
			ops = append(ops, ecOp{1, k}, ecOp{0, k}, ecOp{1, k})
			if n <= 8 {
				ops = append(ops, ecOp{2, 0})
			}
			if r.Chance(1, 10) { // delete the same key again
				ops = append(ops, ecOp{0, k})
			}
			if r.Chance(1, 6) { // volume server restart: Close + NewEcVolume on the modified files
				ops = append(ops, ecOp{3, 0}, ecOp{1, k})
			}
		}
		for _, k := range probes {
			ops = append(ops, ecOp{1, k})
		}
		ops = append(ops, ecOp{2, 0})
		idx, sops := genSorted(r, i%4 != 0) // deletes of live keys in 3 cases out of 4
		out.Count("kind-ecj:"+map[bool]string{true: "preseeded", false: "empty"}[len(ecj) > 0], 1)
		runCase(out, caseIn{ecx: ecx, ecj: ecj, ops: ops, idx: idx, sops: sops, kind: kind})
	}
	out.Write()
}
