// Package s3env stands up, in-process and offline, the part of a SeaweedFS
// cluster that the S3 gateway talks to:
//
//	leveldb2 store (temp dir)  <-  RecStore (records every store call: op, path)
//	   <-  real filer.Filer (filer.NewFiler; master client connected to FakeMaster)
//	   <-  real weed_server.FilerServer: gRPC service on 127.0.0.1:<ephemeral>
//	                                     HTTP  handler behind a real http.ServeMux on 127.0.0.1:<ephemeral>
//	   <-  real s3api.S3ApiServer routes on a gorilla mux.Router (SkipClean(true) like `weed s3`)
//
// There is no volume server.  Object bodies written through the S3 PUT route are
// stored INLINE in the filer entry because the filer runs with
// -saveToFilerLimit = Options.SaveToFilerLimit (default 1 MiB; bodies must be
// smaller).  Fixtures are created directly with Env.PutFile / Env.Mkdir
// (filer.Filer.CreateEntry with inline Content).  A harness that needs real
// chunks (C28 multipart) must plug a fake volume server into
// operation.HttpClient and set FakeMaster.AssignFn / LookupFn.
//
// Used by harness/cmd/c27, c29 (and meant for c28).  Build tag: verif (hooks
// /repo/weed/server/verif_s3env.go and /repo/weed/s3api/verif_s3env.go).
//
// API in short:
//
//	e := s3env.New(s3env.Options{AllowEmptyFolder, SaveToFilerLimit, MaxMB}); defer e.Close()
//	e.Mkdir(path) / e.PutFile(path, content)   fixtures through Filer.CreateEntry (inline content)
//	e.Wipe(dir)                                remove everything below dir on the raw store (also
//	                                           entries written under unclean paths); clears the store log
//	e.Do(method, rawTarget, headers, body)     one request through the S3 router; rawTarget is the
//	                                           request target byte for byte ("/b/x/../y?tagging");
//	                                           a handler panic gives Status 599
//	e.DoFiler(method, rawTarget, body)         one request to the filer's ServeMux (no redirect following)
//	e.Store.Take()                             FilerStore calls since the last Take: {Op, Path}
//	e.TakeCalls()                              filer-facing calls since the last TakeCalls: gRPC
//	                                           (Method, Directory, Name, flags) and HTTP (method, URL.Path
//	                                           as decoded by the filer's listener, RawQuery)
//	e.Snapshot(dir) / e.SnapshotString(dir)    the entries below dir read from the RAW store (not recorded)
//	e.S3.VerifS3SetAllowEmptyFolder(b)         flip -allowEmptyFolder between requests
//	e.Filer, e.FilerServer, e.Raw, e.Master    the real objects, for anything else
//	e.Master.AssignFn                          plug volume assignment (C28); DeletedCollections records
//	                                           CollectionDelete calls
//	e.FilerHTTPAddr, e.FilerGrpcAddr           host:port of the in-process filer
//
// One Env per process; every listener is 127.0.0.1:<ephemeral>, all files under
// os.TempDir().  Requests are served synchronously, so logs taken right after Do
// belong to that request.
package s3env

import (
	"bufio"
	"bytes"
	"context"
	"fmt"
	"io/ioutil"
	"net"
	"net/http"
	"net/http/httptest"
	"os"
	"sort"
	"strings"
	"sync"
	"time"

	"github.com/gorilla/mux"
	"google.golang.org/grpc"

	"github.com/chrislusf/seaweedfs/weed/filer"
	leveldb2 "github.com/chrislusf/seaweedfs/weed/filer/leveldb2"
	"github.com/chrislusf/seaweedfs/weed/pb/filer_pb"
	"github.com/chrislusf/seaweedfs/weed/pb/master_pb"
	"github.com/chrislusf/seaweedfs/weed/s3api"
	weed_server "github.com/chrislusf/seaweedfs/weed/server"
	"github.com/chrislusf/seaweedfs/weed/util"
)

// BucketsPath is the filer directory that holds the buckets (filer.toml default).
const BucketsPath = "/buckets"

// ---------- recording store ----------

// Call is one recorded FilerStore call.
type Call struct {
	Op   string // Insert Update Find Delete DeleteChildren List
	Path string // full path of the entry (List / DeleteChildren: the directory)
}

// Mutating reports whether the call changes the store.
func (c Call) Mutating() bool {
	switch c.Op {
	case "Insert", "Update", "Delete", "DeleteChildren":
		return true
	}
	return false
}

// RecStore wraps a FilerStore and logs every path-addressed call.
type RecStore struct {
	filer.FilerStore
	mu   sync.Mutex
	log  []Call
	seen map[string]bool
}

func (s *RecStore) rec(op string, p util.FullPath) {
	s.mu.Lock()
	s.log = append(s.log, Call{op, string(p)})
	if op == "Insert" || op == "Update" {
		// remembered for Wipe: an entry written under an unclean path (".." segments,
		// trailing "/") is not reachable by walking the tree
		if s.seen == nil {
			s.seen = map[string]bool{}
		}
		s.seen[string(p)] = true
	}
	s.mu.Unlock()
}

func (s *RecStore) takeSeen() []string {
	s.mu.Lock()
	defer s.mu.Unlock()
	var l []string
	for p := range s.seen {
		l = append(l, p)
	}
	s.seen = nil
	return l
}

// Take returns the calls recorded since the last Take and clears the log.
func (s *RecStore) Take() []Call {
	s.mu.Lock()
	defer s.mu.Unlock()
	l := s.log
	s.log = nil
	return l
}

func (s *RecStore) InsertEntry(ctx context.Context, e *filer.Entry) error {
	s.rec("Insert", e.FullPath)
	return s.FilerStore.InsertEntry(ctx, e)
}
func (s *RecStore) UpdateEntry(ctx context.Context, e *filer.Entry) error {
	s.rec("Update", e.FullPath)
	return s.FilerStore.UpdateEntry(ctx, e)
}
func (s *RecStore) FindEntry(ctx context.Context, p util.FullPath) (*filer.Entry, error) {
	s.rec("Find", p)
	return s.FilerStore.FindEntry(ctx, p)
}
func (s *RecStore) DeleteEntry(ctx context.Context, p util.FullPath) error {
	s.rec("Delete", p)
	return s.FilerStore.DeleteEntry(ctx, p)
}
func (s *RecStore) DeleteFolderChildren(ctx context.Context, p util.FullPath) error {
	s.rec("DeleteChildren", p)
	return s.FilerStore.DeleteFolderChildren(ctx, p)
}
func (s *RecStore) ListDirectoryEntries(ctx context.Context, dir util.FullPath, start string, incl bool, limit int64, fn filer.ListEachEntryFunc) (string, error) {
	s.rec("List", dir)
	return s.FilerStore.ListDirectoryEntries(ctx, dir, start, incl, limit, fn)
}
func (s *RecStore) ListDirectoryPrefixedEntries(ctx context.Context, dir util.FullPath, start string, incl bool, limit int64, prefix string, fn filer.ListEachEntryFunc) (string, error) {
	s.rec("List", dir)
	return s.FilerStore.ListDirectoryPrefixedEntries(ctx, dir, start, incl, limit, prefix, fn)
}

// ---------- filer-facing call log (what the gateway asks the filer to do) ----------

// FilerCall is one request the filer received: a gRPC call (Method = the RPC
// name, Dir/Name = the request's Directory and Name / Entry.Name) or an HTTP
// request (Method = "HTTP GET" ..., Dir = r.URL.Path exactly as the filer's
// listener decoded it, before the ServeMux canonicalises it; Name = RawQuery).
type FilerCall struct {
	Method    string
	Dir       string
	Name      string
	Recursive bool // DeleteEntry.IsRecursive
	IsDir     bool // CreateEntry / UpdateEntry: Entry.IsDirectory
}

type callLog struct {
	mu  sync.Mutex
	log []FilerCall
}

func (l *callLog) add(c FilerCall) {
	l.mu.Lock()
	l.log = append(l.log, c)
	l.mu.Unlock()
}

func (l *callLog) take() []FilerCall {
	l.mu.Lock()
	defer l.mu.Unlock()
	x := l.log
	l.log = nil
	return x
}

func (l *callLog) recGrpc(method string, req interface{}) {
	i := strings.LastIndex(method, "/")
	c := FilerCall{Method: method[i+1:]}
	switch r := req.(type) {
	case *filer_pb.LookupDirectoryEntryRequest:
		c.Dir, c.Name = r.Directory, r.Name
	case *filer_pb.ListEntriesRequest:
		c.Dir, c.Name = r.Directory, ""
	case *filer_pb.CreateEntryRequest:
		c.Dir, c.Name, c.IsDir = r.Directory, r.Entry.GetName(), r.Entry.GetIsDirectory()
	case *filer_pb.UpdateEntryRequest:
		c.Dir, c.Name, c.IsDir = r.Directory, r.Entry.GetName(), r.Entry.GetIsDirectory()
	case *filer_pb.DeleteEntryRequest:
		c.Dir, c.Name, c.Recursive = r.Directory, r.Name, r.IsRecursive
	case *filer_pb.AtomicRenameEntryRequest:
		c.Dir, c.Name = r.OldDirectory+"/"+r.OldName, r.NewDirectory+"/"+r.NewName
	}
	l.add(c)
}

type recStream struct {
	grpc.ServerStream
	l      *callLog
	method string
	done   bool
}

func (s *recStream) RecvMsg(m interface{}) error {
	err := s.ServerStream.RecvMsg(m)
	if err == nil && !s.done {
		s.done = true
		s.l.recGrpc(s.method, m)
	}
	return err
}

// ---------- fake master ----------

// FakeMaster answers the few master RPCs a filer without volume servers needs.
type FakeMaster struct {
	master_pb.UnimplementedSeaweedServer
	mu                 sync.Mutex
	DeletedCollections []string
	// AssignFn, when set, serves Assign (C28 plugs a fake volume server here).
	AssignFn func(*master_pb.AssignRequest) (*master_pb.AssignResponse, error)
}

func (m *FakeMaster) KeepConnected(stream master_pb.Seaweed_KeepConnectedServer) error {
	if _, err := stream.Recv(); err != nil {
		return err
	}
	<-stream.Context().Done()
	return nil
}

func (m *FakeMaster) Assign(ctx context.Context, req *master_pb.AssignRequest) (*master_pb.AssignResponse, error) {
	if m.AssignFn != nil {
		return m.AssignFn(req)
	}
	return &master_pb.AssignResponse{Error: "s3env: no volume servers"}, nil
}

func (m *FakeMaster) CollectionList(ctx context.Context, req *master_pb.CollectionListRequest) (*master_pb.CollectionListResponse, error) {
	return &master_pb.CollectionListResponse{}, nil
}

func (m *FakeMaster) CollectionDelete(ctx context.Context, req *master_pb.CollectionDeleteRequest) (*master_pb.CollectionDeleteResponse, error) {
	m.mu.Lock()
	m.DeletedCollections = append(m.DeletedCollections, req.Name)
	m.mu.Unlock()
	return &master_pb.CollectionDeleteResponse{}, nil
}

// TakeDeletedCollections returns and clears the collections deleted so far.
func (m *FakeMaster) TakeDeletedCollections() []string {
	m.mu.Lock()
	defer m.mu.Unlock()
	l := m.DeletedCollections
	m.DeletedCollections = nil
	return l
}

// ---------- configuration stub for Store.Initialize ----------

type dirConf struct{ dir string }

func (d dirConf) GetString(key string) string {
	if strings.HasSuffix(key, "dir") {
		return d.dir
	}
	return ""
}
func (d dirConf) GetBool(string) bool            { return false }
func (d dirConf) GetInt(string) int              { return 0 }
func (d dirConf) GetStringSlice(string) []string { return nil }
func (d dirConf) SetDefault(string, interface{}) {}

// ---------- the environment ----------

type Options struct {
	AllowEmptyFolder bool  // `weed s3 -allowEmptyFolder` (default false)
	SaveToFilerLimit int64 // filer -saveToFilerLimit; 0 means 1 MiB here (so that small PUTs need no volume server)
	MaxMB            int   // filer -maxMB; 0 means 4
}

type Env struct {
	Dir           string
	Raw           *leveldb2.LevelDB2Store // the real store (read it to observe state without recording)
	Store         *RecStore               // the recording wrapper the Filer uses
	Filer         *filer.Filer
	FilerServer   *weed_server.FilerServer
	Master        *FakeMaster
	FilerHTTP     *httptest.Server // real ServeMux + filerHandler
	FilerHTTPAddr string           // host:port
	FilerGrpcAddr string           // host:port
	S3            *s3api.S3ApiServer
	Router        *mux.Router // the S3 gateway's router
	calls         callLog
	masterSrv     *grpc.Server
	filerSrv      *grpc.Server
	ctx           context.Context
}

func must(err error) {
	if err != nil {
		panic(err)
	}
}

// New builds the whole stack.  Every listener is on 127.0.0.1 with an ephemeral
// port; all files live under os.TempDir().
func New(opt Options) *Env {
	e := &Env{ctx: context.Background()}
	dir, err := os.MkdirTemp("", "s3env-")
	must(err)
	e.Dir = dir
	if opt.SaveToFilerLimit == 0 {
		opt.SaveToFilerLimit = 1 << 20
	}

	// fake master: SeaweedFS dials a master's gRPC at HTTP port + 10000, so listen
	// on an ephemeral port q > 11024 and call the master "127.0.0.1:q-10000".
	var lis net.Listener
	for i := 0; ; i++ {
		lis, err = net.Listen("tcp", "127.0.0.1:0")
		must(err)
		if lis.Addr().(*net.TCPAddr).Port > 11024 {
			break
		}
		lis.Close()
		if i > 50 {
			panic("s3env: no usable port")
		}
	}
	masterAddr := fmt.Sprintf("127.0.0.1:%d", lis.Addr().(*net.TCPAddr).Port-10000)
	e.Master = &FakeMaster{}
	e.masterSrv = grpc.NewServer()
	master_pb.RegisterSeaweedServer(e.masterSrv, e.Master)
	go e.masterSrv.Serve(lis)

	dial := grpc.WithInsecure()
	e.Filer = filer.NewFiler([]string{masterAddr}, dial, "127.0.0.1", 18888, "", "", "", func() {})
	e.Raw = &leveldb2.LevelDB2Store{}
	must(e.Raw.Initialize(dirConf{dir}, "leveldb2."))
	e.Store = &RecStore{FilerStore: e.Raw}
	e.Filer.SetStore(e.Store)
	e.Filer.DirBucketsPath = BucketsPath
	e.Filer.LoadBuckets()
	go e.Filer.MasterClient.KeepConnectedToMaster()
	e.Filer.MasterClient.WaitUntilConnected()

	e.FilerServer = weed_server.VerifS3NewFilerServer(e.Filer, dial, weed_server.VerifS3FilerOptions{
		MaxMB: opt.MaxMB, SaveToFilerLimit: opt.SaveToFilerLimit,
	})

	// filer HTTP: a real ServeMux in front of filerHandler, as `weed filer` does
	smux := http.NewServeMux()
	e.FilerServer.VerifS3RegisterHTTP(smux)
	e.FilerHTTP = httptest.NewServer(http.HandlerFunc(func(w http.ResponseWriter, r *http.Request) {
		e.calls.add(FilerCall{Method: "HTTP " + r.Method, Dir: r.URL.Path, Name: r.URL.RawQuery})
		smux.ServeHTTP(w, r)
	}))
	e.FilerHTTPAddr = strings.TrimPrefix(e.FilerHTTP.URL, "http://")

	// filer gRPC (the S3 gateway takes the gRPC address as an explicit option, so
	// it needs no port relation to the HTTP address)
	glis, err := net.Listen("tcp", "127.0.0.1:0")
	must(err)
	e.FilerGrpcAddr = glis.Addr().String()
	e.filerSrv = grpc.NewServer(
		grpc.UnaryInterceptor(func(ctx context.Context, req interface{}, info *grpc.UnaryServerInfo, h grpc.UnaryHandler) (interface{}, error) {
			e.calls.recGrpc(info.FullMethod, req)
			return h(ctx, req)
		}),
		grpc.StreamInterceptor(func(srv interface{}, ss grpc.ServerStream, info *grpc.StreamServerInfo, h grpc.StreamHandler) error {
			return h(srv, &recStream{ServerStream: ss, l: &e.calls, method: info.FullMethod})
		}))
	filer_pb.RegisterSeaweedFilerServer(e.filerSrv, e.FilerServer)
	go e.filerSrv.Serve(glis)

	e.Router = mux.NewRouter().SkipClean(true)
	e.S3 = s3api.VerifS3NewServer(e.Router, e.FilerHTTPAddr, e.FilerGrpcAddr, BucketsPath, opt.AllowEmptyFolder)
	e.Store.Take()
	return e
}

// TakeCalls returns the filer-facing calls (gRPC and HTTP, in arrival order)
// recorded since the last TakeCalls and clears the log.
func (e *Env) TakeCalls() []FilerCall { return e.calls.take() }

func (e *Env) Close() {
	e.FilerHTTP.Close()
	e.filerSrv.Stop()
	e.masterSrv.Stop()
	e.Raw.Shutdown()
	os.RemoveAll(e.Dir)
}

// ---------- fixtures (direct, through the real Filer, recorded like any call) ----------

var fixedTime = time.Unix(1600000000, 0)

// Mkdir creates a directory entry (parents are created by the filer).
func (e *Env) Mkdir(path string) {
	must(e.Filer.CreateEntry(e.ctx, &filer.Entry{
		FullPath: util.FullPath(path),
		Attr:     filer.Attr{Mtime: fixedTime, Crtime: fixedTime, Mode: os.ModeDir | 0770, Uid: 1, Gid: 1},
	}, false, false, nil))
}

// PutFile creates a file entry whose body is stored inline (Entry.Content).
func (e *Env) PutFile(path string, content []byte) {
	must(e.Filer.CreateEntry(e.ctx, &filer.Entry{
		FullPath: util.FullPath(path),
		Attr:     filer.Attr{Mtime: fixedTime, Crtime: fixedTime, Mode: 0660, Uid: 1, Gid: 1, FileSize: uint64(len(content))},
		Content:  append([]byte(nil), content...),
	}, false, false, nil))
}

// Node is one entry of a Snapshot.
type Node struct {
	Path     string
	IsDir    bool
	Content  []byte
	Extended map[string]string
	Chunks   int
}

// Snapshot walks the RAW store (nothing is recorded) below dir, depth first in
// name order, and returns every entry.
func (e *Env) Snapshot(dir string) []Node {
	var out []Node
	var walk func(d string)
	walk = func(d string) {
		var kids []*filer.Entry
		_, err := e.Raw.ListDirectoryEntries(e.ctx, util.FullPath(d), "", false, 1<<30, func(en *filer.Entry) bool {
			kids = append(kids, en)
			return true
		})
		must(err)
		sort.Slice(kids, func(i, j int) bool { return kids[i].FullPath < kids[j].FullPath })
		for _, k := range kids {
			n := Node{Path: string(k.FullPath), IsDir: k.IsDirectory(), Content: k.Content, Chunks: len(k.Chunks), Extended: map[string]string{}}
			for key, v := range k.Extended {
				n.Extended[key] = string(v)
			}
			out = append(out, n)
			if k.IsDirectory() {
				walk(string(k.FullPath))
			}
		}
	}
	walk(dir)
	return out
}

// SnapshotString is a canonical one-line-per-entry rendering of Snapshot.
func (e *Env) SnapshotString(dir string) string {
	var sb strings.Builder
	for _, n := range e.Snapshot(dir) {
		ext := make([]string, 0, len(n.Extended))
		for k, v := range n.Extended {
			ext = append(ext, k+"="+v)
		}
		sort.Strings(ext)
		fmt.Fprintf(&sb, "%s dir=%v content=%q chunks=%d ext=%v\n", n.Path, n.IsDir, n.Content, n.Chunks, ext)
	}
	return sb.String()
}

// Wipe removes everything below dir directly on the raw store (nothing is
// recorded), also every entry ever written under a path string that lies below
// dir lexically (entries written under unclean paths are not reachable by the
// walk), and forgets the filer's bucket table entries.
func (e *Env) Wipe(dir string) {
	nodes := e.Snapshot(dir)
	for i := len(nodes) - 1; i >= 0; i-- {
		must(e.Raw.DeleteEntry(e.ctx, util.FullPath(nodes[i].Path)))
	}
	pre := strings.TrimSuffix(dir, "/") + "/"
	for _, p := range e.Store.takeSeen() {
		if strings.HasPrefix(p, pre) {
			must(e.Raw.DeleteEntry(e.ctx, util.FullPath(p)))
		} else {
			e.Store.rec("Update", util.FullPath(p)) // keep remembering it
		}
	}
	e.Store.Take()
	e.Filer.LoadBuckets()
}

// ---------- requests ----------

type Resp struct {
	Status int
	Header http.Header
	Body   []byte
}

// Do sends one request through the S3 gateway's real router.  target is the RAW
// request target exactly as it would appear on the request line
// (e.g. "/b/x/../../other/obj?tagging" or "/b/%2e%2e/y"): the request is built
// by parsing a textual HTTP/1.1 request with http.ReadRequest, i.e. by the same
// code a Go HTTP server uses, so nothing is cleaned or re-escaped on the way.
// target must not contain spaces or control characters.
func (e *Env) Do(method, target string, hdr map[string]string, body []byte) *Resp {
	var buf bytes.Buffer
	fmt.Fprintf(&buf, "%s %s HTTP/1.1\r\nHost: s3.verif\r\n", method, target)
	keys := make([]string, 0, len(hdr))
	for k := range hdr {
		keys = append(keys, k)
	}
	sort.Strings(keys)
	for _, k := range keys {
		fmt.Fprintf(&buf, "%s: %s\r\n", k, hdr[k])
	}
	fmt.Fprintf(&buf, "Content-Length: %d\r\n\r\n", len(body))
	buf.Write(body)
	req, err := http.ReadRequest(bufio.NewReader(&buf))
	must(err)
	req.RemoteAddr = "127.0.0.1:1"
	rec := httptest.NewRecorder()
	panicked := false
	func() {
		// net/http's server recovers a handler panic and drops the connection
		defer func() {
			if x := recover(); x != nil {
				panicked = true
			}
		}()
		e.Router.ServeHTTP(rec, req)
	}()
	if panicked {
		return &Resp{Status: 599, Header: http.Header{}, Body: []byte("handler panic")}
	}
	res := rec.Result()
	b, _ := ioutil.ReadAll(res.Body)
	return &Resp{Status: res.StatusCode, Header: res.Header, Body: b}
}

// DoFiler sends a raw request straight to the filer's HTTP mux (no redirects followed).
func (e *Env) DoFiler(method, target string, body []byte) *Resp {
	var buf bytes.Buffer
	fmt.Fprintf(&buf, "%s %s HTTP/1.1\r\nHost: filer.verif\r\nContent-Length: %d\r\n\r\n", method, target, len(body))
	buf.Write(body)
	req, err := http.ReadRequest(bufio.NewReader(&buf))
	must(err)
	rec := httptest.NewRecorder()
	e.FilerHTTP.Config.Handler.ServeHTTP(rec, req)
	res := rec.Result()
	b, _ := ioutil.ReadAll(res.Body)
	return &Resp{Status: res.StatusCode, Header: res.Header, Body: b}
}
