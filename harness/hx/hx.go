// Package hx: shared helpers for the correspondence harnesses.
//
// Every harness `cmd/cXX` generates cases from ONE splitmix64 stream seeded by
// --seed, runs the real SeaweedFS code on each, and writes into --out:
//
//	cases.v      Coq:  Definition cases : list CXX.case := [ ... ].
//	cases.jsonl  one JSON object per case: {"i":..,"canon":"..","nontrivial":bool,"kind":".."}
//	meta.json    {"rule":..,"distribution":{..},"samples":[..]}
//
// The orchestrator (bin/check) evaluates `summarize_cases cases` inside Coq.
package hx

import (
	"encoding/json"
	"flag"
	"fmt"
	"os"
	"path/filepath"
	"sort"
	"strconv"
	"strings"
)

// ---------- PRNG ----------

type Rng struct{ s uint64 }

// NewRng hashes the seed through the splitmix finalizer first, so that
// neighbouring seeds (bin/check uses seed*1000+shard) give unrelated streams.
func NewRng(seed uint64) *Rng {
	z := seed + 0x9E3779B97F4A7C15
	z = (z ^ (z >> 30)) * 0xBF58476D1CE4E5B9
	z = (z ^ (z >> 27)) * 0x94D049BB133111EB
	z = z ^ (z >> 31)
	return &Rng{s: z ^ 0x1234567}
}

func (r *Rng) Next() uint64 {
	r.s += 0x9E3779B97F4A7C15
	z := r.s
	z = (z ^ (z >> 30)) * 0xBF58476D1CE4E5B9
	z = (z ^ (z >> 27)) * 0x94D049BB133111EB
	return z ^ (z >> 31)
}

// Intn returns a value in [0,n).
func (r *Rng) Intn(n int) int {
	if n <= 0 {
		return 0
	}
	return int(r.Next() % uint64(n))
}

// Range returns a value in [lo,hi].
func (r *Rng) Range(lo, hi int) int { return lo + r.Intn(hi-lo+1) }

func (r *Rng) Bool() bool { return r.Next()&1 == 1 }

// Chance returns true with probability num/den.
func (r *Rng) Chance(num, den int) bool { return r.Intn(den) < num }

func (r *Rng) PickStr(xs []string) string { return xs[r.Intn(len(xs))] }
func (r *Rng) PickInt(xs []int) int       { return xs[r.Intn(len(xs))] }
func (r *Rng) PickU64(xs []uint64) uint64 { return xs[r.Intn(len(xs))] }

func (r *Rng) Bytes(n int) []byte {
	b := make([]byte, n)
	for i := range b {
		b[i] = byte(r.Next())
	}
	return b
}

// Fork derives an independent stream (so that adding draws to one case does not
// shift every later case).
func (r *Rng) Fork() *Rng { return &Rng{s: r.Next()} }

// ---------- Coq term printing ----------

func N(v uint64) string { return strconv.FormatUint(v, 10) + "%N" }
func Nat(v int) string  { return strconv.Itoa(v) + "%nat" }
func Z(v int64) string {
	if v < 0 {
		return "(" + strconv.FormatInt(v, 10) + ")%Z"
	}
	return strconv.FormatInt(v, 10) + "%Z"
}
func Bool(b bool) string {
	if b {
		return "true"
	}
	return "false"
}

// Str prints a Coq string literal. Only printable ASCII is allowed (harnesses
// keep names in small printable alphabets; binary data goes through Bytes).
func Str(s string) string {
	var sb strings.Builder
	sb.WriteString("\"")
	for i := 0; i < len(s); i++ {
		c := s[i]
		if c < 0x20 || c > 0x7e {
			panic(fmt.Sprintf("hx.Str: non printable byte %#x in %q", c, s))
		}
		if c == '"' {
			sb.WriteString("\"\"")
		} else {
			sb.WriteByte(c)
		}
	}
	sb.WriteString("\"%string")
	return sb.String()
}

func List(xs []string) string { return "[" + strings.Join(xs, "; ") + "]" }

// Bytes prints a byte slice as a Coq `list N`.
func Bytes(b []byte) string {
	xs := make([]string, len(b))
	for i, c := range b {
		xs[i] = strconv.Itoa(int(c))
	}
	return "([" + strings.Join(xs, "; ") + "]%N : list N)"
}

func NList(vs []uint64) string {
	xs := make([]string, len(vs))
	for i, c := range vs {
		xs[i] = strconv.FormatUint(c, 10)
	}
	return "([" + strings.Join(xs, "; ") + "]%N : list N)"
}

func ZList(vs []int64) string {
	xs := make([]string, len(vs))
	for i, c := range vs {
		xs[i] = strconv.FormatInt(c, 10)
	}
	return "([" + strings.Join(xs, "; ") + "]%Z : list Z)"
}

func Some(x string) string { return "(Some " + x + ")" }
func Pair(a, b string) string { return "(" + a + ", " + b + ")" }
func App(f string, args ...string) string {
	return "(" + f + " " + strings.Join(args, " ") + ")"
}
func OptN(ok bool, v uint64) string {
	if ok {
		return "(Some " + N(v) + ")"
	}
	return "None"
}

// ---------- output ----------

type caseRec struct {
	I          int    `json:"i"`
	Canon      string `json:"canon"`
	Nontrivial bool   `json:"nontrivial"`
	Kind       string `json:"kind,omitempty"`
}

type Out struct {
	Dir     string
	Module  string // e.g. "C23" (check/C23.v, type C23.case)
	Seed    uint64
	N       int
	Tier    string
	Only    int
	Variant string
	terms   []string
	recs    []caseRec
	dist    map[string]int
	samples []interface{}
	Rule    string
	Extra   map[string]interface{}
}

// Flags parses the common harness flags.
func Flags(module string, defaultN int) *Out {
	o := &Out{Module: module, dist: map[string]int{}, Extra: map[string]interface{}{}}
	flag.StringVar(&o.Dir, "out", "", "output directory")
	flag.Uint64Var(&o.Seed, "seed", 1, "PRNG seed")
	flag.IntVar(&o.N, "n", defaultN, "number of cases")
	flag.StringVar(&o.Tier, "tier", "quick", "quick|thorough")
	flag.IntVar(&o.Only, "only", -1, "emit only this case index (replay)")
	flag.StringVar(&o.Variant, "variant", "", "harness variant (build tag set etc.)")
	flag.Parse()
	if o.Dir == "" {
		fmt.Fprintln(os.Stderr, "--out required")
		os.Exit(2)
	}
	return o
}

// Add records one case: its Coq term (of type <Module>.case), a canonical string
// of the INPUT (used for distinct counting), whether it reached a non-trivial
// path, and a kind label for the distribution.
func (o *Out) Add(term, canon string, nontrivial bool, kind string) {
	i := len(o.recs)
	o.recs = append(o.recs, caseRec{I: i, Canon: canon, Nontrivial: nontrivial, Kind: kind})
	o.terms = append(o.terms, term)
	o.dist["kind:"+kind]++
	if len(o.samples) < 3 || (len(o.samples) < 6 && nontrivial && i%97 == 0) {
		o.samples = append(o.samples, map[string]interface{}{"i": i, "kind": kind, "case": trunc(term, 1500)})
	}
}

func trunc(s string, n int) string {
	if len(s) > n {
		return s[:n] + "…"
	}
	return s
}

// Count adds to a named bucket of the input distribution.
func (o *Out) Count(bucket string, n int) { o.dist[bucket] += n }

func (o *Out) Len() int { return len(o.recs) }

// Write emits cases.v / cases.jsonl / meta.json.
func (o *Out) Write() {
	must(os.MkdirAll(o.Dir, 0o755))
	f, err := os.Create(filepath.Join(o.Dir, "cases.v"))
	must(err)
	fmt.Fprintf(f, "From Coq Require Import List NArith ZArith Bool String.\nFrom SW Require Import check.%s.\nImport ListNotations.\nImport %s.\n", o.Module, o.Module)
	// one definition per case keeps each term small for the parser
	sel := []int{}
	for i := range o.terms {
		if o.Only >= 0 && i != o.Only {
			continue
		}
		sel = append(sel, i)
		fmt.Fprintf(f, "Definition case_%d : %s.case := %s.\n", i, o.Module, o.terms[i])
	}
	names := make([]string, len(sel))
	for k, i := range sel {
		names[k] = fmt.Sprintf("case_%d", i)
	}
	fmt.Fprintf(f, "Definition cases : list %s.case := [%s].\n", o.Module, strings.Join(names, "; "))
	idx := make([]string, len(sel))
	for k, i := range sel {
		idx[k] = strconv.Itoa(i)
	}
	fmt.Fprintf(f, "Definition case_ids : list N := [%s]%%N.\n", strings.Join(idx, "; "))
	must(f.Close())

	g, err := os.Create(filepath.Join(o.Dir, "cases.jsonl"))
	must(err)
	enc := json.NewEncoder(g)
	for _, i := range sel {
		must(enc.Encode(o.recs[i]))
	}
	must(g.Close())

	keys := make([]string, 0, len(o.dist))
	for k := range o.dist {
		keys = append(keys, k)
	}
	sort.Strings(keys)
	meta := map[string]interface{}{
		"rule": o.Rule, "distribution": o.dist, "samples": o.samples, "seed": o.Seed,
		"n": len(sel), "variant": o.Variant, "extra": o.Extra,
	}
	b, err := json.MarshalIndent(meta, "", " ")
	must(err)
	must(os.WriteFile(filepath.Join(o.Dir, "meta.json"), b, 0o644))
}

func must(err error) {
	if err != nil {
		panic(err)
	}
}

// Must is exported for harnesses.
func Must(err error) { must(err) }
