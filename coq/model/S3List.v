(* Model of weed/s3api/s3api_objects_list_handlers.go (C27): ListObjects V1/V2 over a
   bucket tree served by the filer's ListEntries (weed/server/filer_grpc_server.go,
   weed/filer/filer_search.go, leveldb2 ListDirectoryPrefixedEntries).
   Executable definitions only; proofs are in proof/S3ListProofs.v.

   Faithful to the code as it is: the marker is interpreted relative to the prefix
   directory, the marker branch forgets to add the sub-listing's count to `counter`,
   directories that yield nothing (".uploads", all-empty folders) still use up the
   maxKeys+1 look-ahead, a marker that points into a sub directory lists that
   directory whatever prefix and delimiter say.                                      *)
From Coq Require Import List NArith ZArith Bool String Ascii Arith.
Import ListNotations.
Local Open Scope string_scope.
Local Open Scope list_scope.

(* ---------- bucket tree: what the filer stores below /buckets/<bucket> ---------- *)

Inductive tree :=
| File (n : string)
| Dir (n : string) (kids : list tree).

Definition tname (t : tree) : string := match t with File n => n | Dir n _ => n end.
Definition is_dir (t : tree) : bool := match t with File _ => false | Dir _ _ => true end.

Fixpoint tree_has_file (t : tree) : bool :=
  match t with File _ => true | Dir _ k => existsb tree_has_file k end.
Definition has_file (kids : list tree) : bool := existsb tree_has_file kids.

Fixpoint height (t : tree) : nat :=
  match t with File _ => 0 | Dir _ k => S (list_max (map height k)) end.
Definition forest_height (kids : list tree) : nat := list_max (map height kids).

(* ---------- strings ---------- *)

Definition slash : ascii := "/"%char.

(* split at every "/" :  "a/b" -> [a;b], "" -> [""], "/a" -> ["";a], "a/" -> [a;""] *)
Fixpoint split_slash (s : string) : list string :=
  match s with
  | EmptyString => [EmptyString]
  | String c r =>
      if Ascii.eqb c slash then EmptyString :: split_slash r
      else match split_slash r with
           | [] => [String c EmptyString]
           | h :: t => String c h :: t
           end
  end.

(* strings.Index(s, "/") split:  Some (s[:i], s[i+1:]) *)
Fixpoint cut_slash (s : string) : option (string * string) :=
  match s with
  | EmptyString => None
  | String c r =>
      if Ascii.eqb c slash then Some (EmptyString, r)
      else match cut_slash r with
           | Some (a, b) => Some (String c a, b)
           | None => None
           end
  end.

Definition join_slash (l : list string) : string := String.concat "/" l.

Fixpoint count_slash (s : string) : nat :=
  match s with
  | EmptyString => 0
  | String c r => if Ascii.eqb c slash then S (count_slash r) else count_slash r
  end.

Definition uploads : string := ".uploads".

(* ---------- directories as the STRINGS the gateway builds ----------
   A directory is the segment list D of the string
        BucketsPath/bucket ++ concat (map (fun s => "/" ++ s) D)
   (a trailing "/" is a last segment "").  The key the gateway prints for an entry
   named n of that directory is (dir + "/" + n)[len(bucketPrefix):] = join (D ++ [n]). *)

Fixpoint find_dir (n : string) (kids : list tree) : option (list tree) :=
  match kids with
  | [] => None
  | File m :: r => if m =? n then None else find_dir n r
  | Dir m k :: r => if m =? n then Some k else find_dir n r
  end.

Fixpoint walk (kids : list tree) (D : list string) : option (list tree) :=
  match D with
  | [] => Some kids
  | s :: D' => match find_dir s kids with Some k => walk k D' | None => None end
  end.

(* StreamListDirectoryEntries strips ONE trailing "/" of the directory *)
Definition strip_trailing_empty (D : list string) : list string :=
  match rev D with
  | EmptyString :: r => rev r
  | _ => D
  end.

(* the entries the filer lists for the directory string D: the stored path must be
   exactly the (stripped) string, so any other empty, "." or ".." segment finds nothing *)
Definition resolve (rootk : list tree) (D : list string) : list tree :=
  match walk rootk (strip_trailing_empty D) with Some k => k | None => [] end.

(* filer ListEntries(dir, prefix, startFrom = marker, inclusive = false, limit) over
   leveldb2: names with the prefix, strictly after the marker, in byte order *)
Definition list_entries (kids : list tree) (prefix marker : string) (limit : nat) : list tree :=
  firstn limit (filter (fun t => String.prefix prefix (tname t) && String.ltb marker (tname t)) kids).

(* ---------- doListFilerEntries ---------- *)

Inductive item :=
| IKey (path : list string)     (* Contents entry, key = join path *)
| ICP (path : list string).     (* CommonPrefixes entry, prefix = join path ++ "/" *)

Record res := mk_res {
  r_items : list item;   (* what eachEntryFn appended, in call order *)
  r_count : Z;           (* counter *)
  r_trunc : bool;        (* isTruncated *)
  r_next : string        (* nextMarker *)
}.

Definition empty_res : res := mk_res [] 0 false "".

Section DoList.
  Variable ae : bool.            (* s3a.option.AllowEmptyFolder *)
  Variable rootk : list tree.    (* children of the bucket directory *)
  Variable delim : bool.         (* delimiter == "/" *)

  (* the `for { resp, recvErr := stream.Recv() ... }` loop over the entries the filer
     streamed; `rec D' maxKeys'` is the recursive call
     doListFilerEntries(client, dir+"/"+entry.Name, "", maxKeys', "", delimiter, eachEntryFn) *)
  Fixpoint loop (rec : list string -> Z -> res) (D : list string) (maxKeys1 : Z)
           (es : list tree) (items : list item) (counter : Z) (trunc : bool) (next : string)
           {struct es} : res :=
    match es with
    | [] => mk_res items counter trunc next                         (* io.EOF *)
    | e :: es' =>
        if (counter >=? maxKeys1)%Z then mk_res items counter true next
        else
          match e with
          | Dir n _ =>
              if n =? uploads then loop rec D maxKeys1 es' items counter trunc n
              else if negb delim then
                let r := rec (D ++ [n]) (maxKeys1 - counter)%Z in
                let items' := items ++ r_items r in
                let counter' := (counter + r_count r)%Z in
                let next' := (n ++ "/" ++ r_next r)%string in
                if r_trunc r then mk_res items' counter' true next'
                else loop rec D maxKeys1 es' items' counter' trunc next'
              else if negb ae && negb (has_file (resolve rootk (D ++ [n])))
              then loop rec D maxKeys1 es' items counter trunc n   (* isDirectoryAllEmpty: skipped (and deleted) *)
              else loop rec D maxKeys1 es' (items ++ [ICP (D ++ [n])]) (counter + 1)%Z trunc n
          | File n => loop rec D maxKeys1 es' (items ++ [IKey (D ++ [n])]) (counter + 1)%Z trunc n
          end
    end.

  Fixpoint do_list (fuel : nat) (D : list string) (prefix : string) (maxKeys : Z) (marker : string) : res :=
    match fuel with
    | O => empty_res
    | S f =>
      if (prefix =? "/") && delim then empty_res
      else if (maxKeys <=? 0)%Z then empty_res
      else
        (* if strings.Contains(marker, "/") *)
        let '(items0, maxKeys1, trunc0, next0, marker1) :=
          match cut_slash marker with
          | Some (subDir, subMarker) =>
              let r := do_list f (D ++ [subDir]) "" maxKeys subMarker in
              (* maxKeys -= subCounter; counter itself is NOT increased *)
              (r_items r, (maxKeys - r_count r)%Z, r_trunc r, (subDir ++ "/" ++ r_next r)%string, subDir)
          | None => ([], maxKeys, false, "", marker)
          end in
        (* Limit: uint32(maxKeys + 1) *)
        let entries := list_entries (resolve rootk D) prefix marker1 (Z.to_nat (maxKeys1 + 1)) in
        loop (fun D' m' => do_list f D' "" m' "") D maxKeys1 entries items0 0%Z trunc0 next0
    end.
End DoList.

(* ---------- the reference lister: the whole listing of a directory, no budget ---------- *)

Section Ref.
  Variable ae : bool.
  Variable delim : bool.

  Fixpoint ref_tree (D : list string) (t : tree) : list item :=
    match t with
    | File n => [IKey (D ++ [n])]
    | Dir n k =>
        if n =? uploads then []
        else if delim then (if ae || existsb tree_has_file k then [ICP (D ++ [n])] else [])
        else flat_map (ref_tree (D ++ [n])) k
    end.

  Definition ref_forest (D : list string) (kids : list tree) : list item := flat_map (ref_tree D) kids.
End Ref.

(* ---------- listFilerEntries ---------- *)

(* filepath.Split(originalPrefix): (directory segments, name prefix) *)
Definition split_prefix (p : string) : list string * string :=
  let segs := split_slash p in (removelast segs, last segs EmptyString).

(* if strings.HasPrefix(reqDir, "/") { reqDir = reqDir[1:] } *)
Definition strip_leading_empty (D : list string) : list string :=
  match D with EmptyString :: r => r | _ => D end.

Definition req_dir (p : string) : list string := strip_leading_empty (fst (split_prefix p)).

(* the reference listing for a request: the entries of the prefix directory that carry
   the name prefix, expanded *)
Definition ref_list (ae : bool) (rootk : list tree) (prefix : string) (delim : bool) : list item :=
  ref_forest ae delim (req_dir prefix)
             (filter (fun t => String.prefix (snd (split_prefix prefix)) (tname t)) (resolve rootk (req_dir prefix))).

Record page := mk_page {
  pg_keys : list string;
  pg_cps : list string;
  pg_trunc : bool;
  pg_next : string
}.

Definition key_of (it : item) : list string :=
  match it with IKey p => [join_slash p] | ICP _ => [] end.
Definition cp_of (it : item) : list string :=
  match it with IKey _ => [] | ICP p => [(join_slash p ++ "/")%string] end.

Definition list_fuel (rootk : list tree) (marker : string) : nat :=
  S (S (forest_height rootk + count_slash marker)).

Definition list_items (ae : bool) (rootk : list tree) (prefix : string) (maxKeys : Z) (marker : string)
           (delim : bool) : res :=
  do_list ae rootk delim (list_fuel rootk marker) (req_dir prefix) (snd (split_prefix prefix)) maxKeys marker.

Definition list_objects (ae : bool) (rootk : list tree) (prefix : string) (maxKeys : Z) (marker : string)
           (delim : bool) : page :=
  let r := list_items ae rootk prefix maxKeys marker delim in
  mk_page (flat_map key_of (r_items r)) (flat_map cp_of (r_items r)) (r_trunc r)
          (if r_trunc r then r_next r else "").

(* ---------- the client: full pagination ---------- *)

Inductive style :=
| V2Token         (* continuation-token := NextContinuationToken *)
| V1NextMarker    (* marker := NextMarker *)
| V1LastKey       (* marker := last Key of the page (last CommonPrefix if there is no Key) *)
| V2StartAfter.   (* start-after := the same last key *)

(* the last item of the page in S3 (byte) order: the greater of the last Key and the
   last CommonPrefix *)
Definition last_key (p : page) : option string :=
  match rev (pg_keys p), rev (pg_cps p) with
  | k :: _, c :: _ => Some (if String.ltb k c then c else k)
  | k :: _, [] => Some k
  | [], c :: _ => Some c
  | [], [] => None
  end.

Definition next_marker (st : style) (p : page) : option string :=
  match st with
  | V2Token | V1NextMarker => Some (pg_next p)
  | V1LastKey | V2StartAfter => last_key p
  end.

(* at most n pages; the client stops at the first page that is not truncated *)
Fixpoint paginate (n : nat) (ae : bool) (rootk : list tree) (prefix : string) (maxKeys : Z) (delim : bool)
         (st : style) (marker : string) : list page :=
  match n with
  | O => []
  | S n' =>
      let p := list_objects ae rootk prefix maxKeys marker delim in
      p :: (if pg_trunc p then
              match next_marker st p with
              | Some m => paginate n' ae rootk prefix maxKeys delim st m
              | None => []
              end
            else [])
  end.

(* the markers the client sends, in order *)
Fixpoint markers (n : nat) (ae : bool) (rootk : list tree) (prefix : string) (maxKeys : Z) (delim : bool)
         (st : style) (marker : string) : list string :=
  match n with
  | O => []
  | S n' =>
      let p := list_objects ae rootk prefix maxKeys marker delim in
      marker :: (if pg_trunc p then
              match next_marker st p with
              | Some m => markers n' ae rootk prefix maxKeys delim st m
              | None => []
              end
            else [])
  end.

(* ---------- reference semantics (S3): computed from the flat key set ---------- *)

Fixpoint files_of (t : tree) : list (list string) :=
  match t with
  | File n => [[n]]
  | Dir n k => map (cons n) (flat_map files_of k)
  end.

Fixpoint dirs_of (t : tree) : list (list string) :=
  match t with
  | File _ => []
  | Dir n k => [n] :: map (cons n) (flat_map dirs_of k)
  end.

Definition not_upload_internal (p : list string) : bool :=
  match p with s :: _ => negb (s =? uploads) | [] => true end.

(* the object keys of the bucket: every file except the multipart area /.uploads *)
Definition bucket_keys (rootk : list tree) : list string :=
  map join_slash (filter not_upload_internal (flat_map files_of rootk)).

(* with -allowEmptyFolder every directory also counts as the pseudo key "dir/" *)
Definition bucket_folders (rootk : list tree) : list string :=
  map (fun p => (join_slash p ++ "/")%string) (filter not_upload_internal (flat_map dirs_of rootk)).

Fixpoint drop_str (n : nat) (s : string) : string :=
  match n, s with
  | O, _ => s
  | S n', String _ r => drop_str n' r
  | S _, EmptyString => EmptyString
  end.

(* the part of k behind the prefix *)
Definition rest_of (prefix k : string) : string := drop_str (String.length prefix) k.

(* the keys a listing that starts behind `start` ("" = from the beginning) has to cover *)
Definition keys_after (start : string) (l : list string) : list string :=
  filter (fun k => String.ltb start k) l.

Definition spec_keys (rootk : list tree) (prefix : string) (delim : bool) (start : string) : list string :=
  filter (fun k => String.prefix prefix k &&
                   (negb delim || match cut_slash (rest_of prefix k) with None => true | Some _ => false end))
         (keys_after start (bucket_keys rootk)).

Fixpoint dedup (l : list string) : list string :=
  match l with
  | [] => []
  | x :: r => if existsb (String.eqb x) r then dedup r else x :: dedup r
  end.

Definition spec_cps (ae : bool) (rootk : list tree) (prefix : string) (delim : bool) (start : string)
  : list string :=
  if delim then
    dedup (flat_map (fun k => if String.prefix prefix k then
                                match cut_slash (rest_of prefix k) with
                                | Some (seg, _) => [(prefix ++ seg ++ "/")%string]
                                | None => []
                                end
                              else [])
                    (keys_after start (bucket_keys rootk ++ (if ae then bucket_folders rootk else []))))
  else [].

Definition mem (x : string) (l : list string) : bool := existsb (String.eqb x) l.
Definition count (x : string) (l : list string) : nat := List.length (filter (String.eqb x) l).

Definition page_sound_with (sk sc : list string) (maxKeys : Z) (p : page) : bool :=
  (Z.of_nat (List.length (pg_keys p) + List.length (pg_cps p)) <=? maxKeys)%Z &&
  forallb (fun k => mem k sk) (pg_keys p) &&
  forallb (fun c => mem c sc) (pg_cps p).

Definition page_sound_b (ae : bool) (rootk : list tree) (prefix : string) (maxKeys : Z) (delim : bool)
           (start : string) (p : page) : bool :=
  page_sound_with (spec_keys rootk prefix delim start) (spec_cps ae rootk prefix delim start) maxKeys p.

(* every matching key (and common prefix) exactly once over all pages, nothing else,
   and the last page says "not truncated" *)
Definition enumerates_with (sk sc : list string) (pages : list page) : bool :=
  let ks := flat_map pg_keys pages in
  let cs := flat_map pg_cps pages in
  forallb (fun k => Nat.eqb (count k ks) 1) sk &&
  forallb (fun k => mem k sk) ks &&
  forallb (fun c => Nat.eqb (count c cs) 1) sc &&
  forallb (fun c => mem c sc) cs &&
  match rev pages with p :: _ => negb (pg_trunc p) | [] => false end.

Definition enumerates_b (ae : bool) (rootk : list tree) (prefix : string) (delim : bool)
           (start : string) (pages : list page) : bool :=
  enumerates_with (spec_keys rootk prefix delim start) (spec_cps ae rootk prefix delim start) pages.

(* ---------- well-formed trees and the decidable trigger sets ---------- *)

Fixpoint no_slash (s : string) : bool :=
  match s with EmptyString => true | String c r => negb (Ascii.eqb c slash) && no_slash r end.

Definition good_name (s : string) : bool := negb (s =? "") && no_slash s.

Fixpoint sorted_names (l : list string) : bool :=
  match l with
  | [] => true
  | x :: r => match r with [] => true | y :: _ => String.ltb x y && sorted_names r end
  end.

Fixpoint wf_tree (t : tree) : bool :=
  good_name (tname t) &&
  match t with
  | File _ => true
  | Dir _ k => forallb wf_tree k && sorted_names (map tname k)
  end.
Definition wf (rootk : list tree) : bool := forallb wf_tree rootk && sorted_names (map tname rootk).

(* finding 0: the client sends a full key as marker (last key / start-after, or the
   marker of the first V1 request) while the prefix has a directory part *)
Definition full_key_style (st : style) : bool :=
  match st with V1LastKey | V2StartAfter => true | _ => false end.
Definition prefix_has_dir (prefix : string) : bool := negb (Nat.eqb (count_slash prefix) 0).

(* finding 1: some directory yields nothing but still uses up the look-ahead:
   a directory named ".uploads", or a directory without any file *)
Fixpoint tree_zero_yield (t : tree) : bool :=
  match t with
  | File _ => false
  | Dir n k => (n =? uploads) || negb (existsb tree_has_file k) || existsb tree_zero_yield k
  end.
Definition trig_zero_yield (rootk : list tree) : bool := existsb tree_zero_yield rootk.

(* finding 2: a marker that points into a sub directory ("/" in the marker as the
   gateway reads it, i.e. relative to the prefix directory) while a delimiter is set,
   or whose first segment does not carry the name prefix, or is ".uploads" *)
Definition marker_into_subdir (prefix : string) (delim : bool) (marker : string) : bool :=
  match cut_slash marker with
  | Some (subDir, _) => delim || negb (String.prefix (snd (split_prefix prefix)) subDir) || (subDir =? uploads)
  | None => false
  end.

(* finding 3: a marker two or more directories deep *)
Definition deep_marker (marker : string) : bool := Nat.leb 2 (count_slash marker).

(* finding 5: the first marker / start-after names an existing directory: the whole
   directory is skipped although its keys sort behind the marker *)
Definition start_is_dir (rootk : list tree) (start : string) : bool :=
  negb (start =? "") &&
  match walk rootk (split_slash start) with Some _ => true | None => false end.

(* finding 4: unclean prefix (empty segment, leading "/") or a prefix that points into
   the multipart area *)
Definition bad_prefix (prefix : string) : bool :=
  existsb (String.eqb "") (fst (split_prefix prefix)) ||
  match req_dir prefix with s :: _ => s =? uploads | [] => false end.
