(* Model of the filer namespace (C18; shared with C19/C20/C21/C27):
     weed/filer/filer.go                      CreateEntry, ensureParentDirecotryEntry, UpdateEntry, FindEntry
     weed/filer/filer_delete_entry.go         DeleteEntryMetaAndData, doBatchDeleteFolderMetaAndData
     weed/server/filer_grpc_server_rename.go  AtomicRenameEntry, moveEntry, moveFolderSubEntries, moveSelfEntry
     weed/filer/filerstore_wrapper.go + an embedded store (leveldb, leveldb2, leveldb3)
   over a flat store  path -> entry.  Executable definitions only; proofs are in
   proof/FilerNSProofs.v.

   Paths are lists of name segments, root first; [] is "/".
   Modelled store: InsertEntry = UpdateEntry = put (upsert), DeleteEntry, DeleteFolderChildren
   (direct children only), listing of direct children in name order; Begin/Commit/Rollback
   are no-ops (true for the leveldb family), so a failed rename keeps what it has written.
   Not modelled: TTL expiry (TtlSec = 0), buckets (no path under DirBucketsPath), store I/O errors,
   notification/meta log, chunk deletion queue, pagination (a directory has < 1024 children, so
   every paginated loop sees the whole directory in one page). *)
From Coq Require Import List NArith Bool String Arith.
Import ListNotations.
Local Open Scope string_scope.
Local Open Scope list_scope.

(* ---------- paths ---------- *)
Definition name := string.
Definition path := list name.

Fixpoint path_eqb (p q : path) : bool :=
  match p, q with
  | [], [] => true
  | a :: p', b :: q' => String.eqb a b && path_eqb p' q'
  | _, _ => false
  end.

(* strip_prefix p q = Some r  iff  q = p ++ r *)
Fixpoint strip_prefix (p q : path) : option path :=
  match p, q with
  | [], _ => Some q
  | a :: p', b :: q' => if String.eqb a b then strip_prefix p' q' else None
  | _ :: _, [] => None
  end.

(* p is q or an ancestor of q *)
Definition is_prefix (p q : path) : bool :=
  match strip_prefix p q with Some _ => true | None => false end.

(* util.FullPath.Child *)
Definition child (d : path) (n : name) : path := d ++ [n].

(* util.FullPath.DirAndName *)
Fixpoint split_last (p : path) : option (path * name) :=
  match p with
  | [] => None
  | a :: p' => match split_last p' with
               | Some (d, n) => Some (a :: d, n)
               | None => Some ([], a)
               end
  end.
Definition parent (p : path) : path := match split_last p with Some (d, _) => d | None => [] end.
Definition base_name (p : path) : name := match split_last p with Some (_, n) => n | None => "" end.

(* the proper, non-root ancestors of p, shortest first:  /a/b/c -> [/a; /a/b] *)
Fixpoint ancestors_from (acc p : path) : list path :=
  match p with
  | [] => []
  | n :: p' => match p' with
               | [] => []
               | _ :: _ => (acc ++ [n]) :: ancestors_from (acc ++ [n]) p'
               end
  end.
Definition ancestors (p : path) : list path := ancestors_from [] p.

(* ---------- entries ---------- *)
Record entry := mk_entry {
  e_dir : bool;                     (* Attr.Mode & os.ModeDir *)
  e_perm : N;                       (* Attr.Mode & os.ModePerm *)
  e_uid : N;                        (* Attr.Uid *)
  e_chunks : list N;                (* chunk file ids *)
  e_hl : list N;                    (* HardLinkId bytes, [] = none *)
  e_hl_cnt : N;                     (* HardLinkCounter *)
  e_ext : list (string * list N)    (* Extended, sorted by key *)
}.

Fixpoint list_eqb {A} (f : A -> A -> bool) (l1 l2 : list A) : bool :=
  match l1, l2 with
  | [], [] => true
  | x :: l1', y :: l2' => f x y && list_eqb f l1' l2'
  | _, _ => false
  end.

Definition entry_eqb (a b : entry) : bool :=
  Bool.eqb (e_dir a) (e_dir b) && N.eqb (e_perm a) (e_perm b) && N.eqb (e_uid a) (e_uid b) &&
  list_eqb N.eqb (e_chunks a) (e_chunks b) && list_eqb N.eqb (e_hl a) (e_hl b) &&
  N.eqb (e_hl_cnt a) (e_hl_cnt b) &&
  list_eqb (fun x y => String.eqb (fst x) (fst y) && list_eqb N.eqb (snd x) (snd y)) (e_ext a) (e_ext b).

(* filer.Root: returned by Filer.FindEntry("/") without touching the store *)
Definition root_entry : entry :=
  {| e_dir := true; e_perm := 493 (* 0755 *); e_uid := 0; e_chunks := []; e_hl := []; e_hl_cnt := 0; e_ext := [] |}.

(* the directory entry ensureParentDirecotryEntry creates for a missing ancestor:
   Mode = os.ModeDir | entry.Mode | 0110, Uid/Gid/... copied from the entry being created *)
Definition implicit_dir (tmpl : entry) : entry :=
  {| e_dir := true; e_perm := N.lor (e_perm tmpl) 72 (* 0110 *); e_uid := e_uid tmpl;
     e_chunks := []; e_hl := []; e_hl_cnt := 0; e_ext := [] |}.

(* moveSelfEntry builds the new entry from Attr, Chunks, Extended, Content only:
   HardLinkId / HardLinkCounter are dropped *)
Definition strip_hl (e : entry) : entry :=
  {| e_dir := e_dir e; e_perm := e_perm e; e_uid := e_uid e; e_chunks := e_chunks e;
     e_hl := []; e_hl_cnt := 0; e_ext := e_ext e |}.

(* ---------- the flat store ---------- *)
Definition store := list (path * entry).

Fixpoint find (s : store) (p : path) : option entry :=
  match s with
  | [] => None
  | (q, e) :: s' => if path_eqb q p then Some e else find s' p
  end.

Definition remove (s : store) (p : path) : store :=
  filter (fun kv => negb (path_eqb (fst kv) p)) s.

(* store.InsertEntry: a put *)
Definition insert (s : store) (p : path) (e : entry) : store := (p, e) :: remove s p.
(* store.UpdateEntry: the same put (leveldb*: UpdateEntry calls InsertEntry) *)
Definition update (s : store) (p : path) (e : entry) : store := insert s p e.
(* store.DeleteEntry *)
Definition delete_one (s : store) (p : path) : store := remove s p.

(* q is a direct child of d *)
Definition is_child_of (d q : path) : bool :=
  match strip_prefix d q with Some [_] => true | _ => false end.

(* store.DeleteFolderChildren: the direct children only *)
Definition delete_folder_children (s : store) (d : path) : store :=
  filter (fun kv => negb (is_child_of d (fst kv))) s.

Fixpoint insert_by_name (x : name * entry) (l : list (name * entry)) : list (name * entry) :=
  match l with
  | [] => [x]
  | y :: l' => if String.leb (fst x) (fst y) then x :: l else y :: insert_by_name x l'
  end.
Definition sort_by_name (l : list (name * entry)) : list (name * entry) := fold_right insert_by_name [] l.

Definition children_raw (s : store) (d : path) : list (name * entry) :=
  flat_map (fun kv => match strip_prefix d (fst kv) with Some [n] => [(n, snd kv)] | _ => [] end) s.

(* ListDirectoryEntries(dir, "", false, 1024): the direct children in name (byte) order *)
Definition list_children (s : store) (d : path) : list (name * entry) := sort_by_name (children_raw s d).

Definition has_children (s : store) (d : path) : bool := existsb (fun kv => is_child_of d (fst kv)) s.

Definition keys (s : store) : list path := map fst s.

(* the subtree rooted at p as (path relative to p, entry) pairs; ([], e) is p itself *)
Definition subtree_rel (s : store) (p : path) : list (path * entry) :=
  flat_map (fun kv => match strip_prefix p (fst kv) with Some r => [(r, snd kv)] | None => [] end) s.

(* ---------- results ---------- *)
Inductive err :=
| OK
| ENotFound      (* filer_pb.ErrNotFound *)
| EExist         (* "EEXIST: entry %s already exists" *)
| ENotDir        (* "%s is a file": an ancestor is a file *)
| EIsDir         (* "existing %s is a directory" *)
| EIsFile        (* "existing %s is a file" *)
| ENotEmpty      (* MsgFailDelNonEmptyFolder *)
| EInvalid       (* rename into the own subtree *)
| OutOfFuel.     (* the Go recursion would not terminate / exceeds the model's fuel *)

Definition is_err (r : err) : bool := match r with OK => false | _ => true end.
Definition is_fuel (r : err) : bool := match r with OutOfFuel => true | _ => false end.
Definition err_eqb (a b : err) : bool :=
  match a, b with
  | OK, OK | ENotFound, ENotFound | EExist, EExist | ENotDir, ENotDir | EIsDir, EIsDir
  | EIsFile, EIsFile | ENotEmpty, ENotEmpty | EInvalid, EInvalid | OutOfFuel, OutOfFuel => true
  | _, _ => false
  end.

(* run [step] over a list, threading the store, stopping at the first error *)
Fixpoint iter_err {X} (step : store -> X -> store * err) (xs : list X) (s : store) : store * err :=
  match xs with
  | [] => (s, OK)
  | x :: xs' => let (s1, r) := step s x in if is_err r then (s1, r) else iter_err step xs' s1
  end.

(* ---------- Filer.FindEntry ---------- *)
Definition find_entry (s : store) (p : path) : option entry :=
  match p with [] => Some root_entry | _ => find s p end.

(* ---------- Filer.UpdateEntry(oldEntry, entry) ---------- *)
Definition update_entry_raw (s : store) (p : path) (old : option entry) (e : entry) : store * err :=
  match old with
  | Some o =>
      if e_dir o && negb (e_dir e) then (s, EIsDir)
      else if negb (e_dir o) && e_dir e then (s, EIsFile)
      else (update s p e, OK)
  | None => (update s p e, OK)
  end.

(* the gRPC UpdateEntry handler: FindEntry, then Filer.UpdateEntry(found, new) *)
Definition update_entry (s : store) (p : path) (e : entry) : store * err :=
  match find_entry s p with
  | None => (s, ENotFound)
  | Some o => update_entry_raw s p (Some o) e
  end.

(* ---------- Filer.ensureParentDirecotryEntry ----------
   [rd] is the directory path REVERSED (innermost segment first), so that the Go
   recursion level -> level-1 is structural. *)
Fixpoint ensure_dir (s : store) (rd : list name) (tmpl : entry) : store * err :=
  match find_entry s (rev rd) with
  | Some d => if e_dir d then (s, OK) else (s, ENotDir)
  | None =>
      match rd with
      | [] => (s, OK)
      | _ :: rd' =>
          let (s1, r) := ensure_dir s rd' tmpl in
          if is_err r then (s1, r) else (insert s1 (rev rd) (implicit_dir tmpl), OK)
      end
  end.

(* ---------- Filer.CreateEntry(entry, o_excl) ---------- *)
Definition create_entry (s : store) (p : path) (e : entry) (o_excl : bool) : store * err :=
  match p with
  | [] => (s, OK)
  | _ =>
      match find_entry s p with
      | None =>
          let (s1, r) := ensure_dir s (rev (parent p)) e in
          if is_err r then (s1, r) else (insert s1 p e, OK)
      | Some old =>
          if o_excl then (s, EExist) else update_entry_raw s p (Some old) e
      end
  end.

(* ---------- Filer.doBatchDeleteFolderMetaAndData ---------- *)
Fixpoint batch_delete (fuel : nat) (s : store) (d : path) (rec ign : bool) : store * err :=
  match fuel with
  | O => (s, OutOfFuel)
  | S f =>
      let cs := list_children s d in
      if negb rec && negb (match cs with [] => true | _ => false end) then (s, ENotEmpty)
      else
        let (s1, r) :=
          iter_err (fun s0 (c : name * entry) =>
                      if e_dir (snd c) then
                        let (s2, r2) := batch_delete f s0 (child d (fst c)) rec ign in
                        if is_fuel r2 then (s2, r2)
                        else if is_err r2 && negb ign then (s2, r2) else (s2, OK)
                      else (s0, OK)) cs s in
        if is_err r then (s1, r) else (delete_folder_children s1 d, OK)
  end.

(* recursion depth needed: one more than the longest key *)
Definition max_len (s : store) : nat := fold_right (fun kv m => Nat.max (List.length (fst kv)) m) 0 s.
Definition default_fuel (s : store) : nat := S (max_len s).

(* ---------- Filer.DeleteEntryMetaAndData(p, isRecursive, ignoreRecursiveError) ---------- *)
Definition delete_entry_fuel (fuel : nat) (s : store) (p : path) (rec ign : bool) : store * err :=
  match p with
  | [] => (s, OK)
  | _ =>
      match find_entry s p with
      | None => (s, ENotFound)
      | Some e =>
          if e_dir e then
            let (s1, r) := batch_delete fuel s p rec ign in
            if is_err r then (s1, r) else (delete_one s1 p, OK)
          else (delete_one s p, OK)
      end
  end.
Definition delete_entry (s : store) (p : path) (rec ign : bool) : store * err :=
  delete_entry_fuel (default_fuel s) s p rec ign.

(* ---------- FilerServer.moveEntry / moveSelfEntry / moveFolderSubEntries ---------- *)
Fixpoint move_entry (fuel : nat) (s : store) (oldp : path) (e : entry) (newp : path) : store * err :=
  match fuel with
  | O => (s, OutOfFuel)
  | S f =>
      if path_eqb oldp newp then (s, OK)
      else
        let (s1, r1) := create_entry s newp (strip_hl e) false in
        if is_err r1 then (s1, r1)
        else
          let (s2, r2) :=
            if e_dir e then
              iter_err (fun s0 (c : name * entry) =>
                          move_entry f s0 (child oldp (fst c)) (snd c) (child newp (fst c)))
                       (list_children s1 oldp) s1
            else (s1, OK) in
          if is_err r2 then (s2, r2)
          else delete_entry s2 oldp false false
  end.

(* ---------- FilerServer.AtomicRenameEntry (with the own-subtree check) ---------- *)
Definition rename_fuel (fuel : nat) (s : store) (od : path) (on : name) (nd : path) (nn : name) : store * err :=
  let oldp := child od on in
  let newp := child nd nn in
  if is_prefix oldp nd then (s, EInvalid)
  else
    match find_entry s oldp with
    | None => (s, ENotFound)
    | Some e => move_entry fuel s oldp e newp
    end.
Definition rename (s : store) (od : path) (on : name) (nd : path) (nn : name) : store * err :=
  rename_fuel (default_fuel s) s od on nd nn.

(* ---------- operation histories ---------- *)
Inductive op :=
| Create (p : path) (e : entry) (o_excl : bool)
| Update (p : path) (e : entry)
| Delete (p : path) (rec ign : bool)
| Rename (od : path) (on : name) (nd : path) (nn : name).

Definition step (s : store) (o : op) : store * err :=
  match o with
  | Create p e x => create_entry s p e x
  | Update p e => update_entry s p e
  | Delete p rec ign => delete_entry s p rec ign
  | Rename od on nd nn => rename s od on nd nn
  end.

(* the store and the result after every operation *)
Fixpoint run (s : store) (ops : list op) : list (store * err) :=
  match ops with
  | [] => []
  | o :: ops' => let sr := step s o in sr :: run (fst sr) ops'
  end.

Fixpoint final (s : store) (ops : list op) : store :=
  match ops with
  | [] => s
  | o :: ops' => final (fst (step s o)) ops'
  end.

(* ---------- well-formedness, executable ---------- *)
Definition parent_ok (s : store) (p : path) : bool :=
  match split_last p with
  | None => true                        (* a stored "/" is harmless *)
  | Some ([], _) => true
  | Some (d, _) => match find s d with Some de => e_dir de | None => false end
  end.
Fixpoint nodup_paths (l : list path) : bool :=
  match l with
  | [] => true
  | p :: l' => negb (existsb (path_eqb p) l') && nodup_paths l'
  end.
Definition wf_b (s : store) : bool := nodup_paths (keys s) && forallb (fun kv => parent_ok s (fst kv)) s.

(* two stores hold the same map *)
Definition find_eqb (a b : store) (p : path) : bool :=
  match find a p, find b p with
  | Some x, Some y => entry_eqb x y
  | None, None => true
  | _, _ => false
  end.
Definition store_equiv_b (a b : store) : bool :=
  forallb (find_eqb a b) (keys a) && forallb (find_eqb a b) (keys b).

(* ---------- reference namespace (the property's oracle) ----------
   Declarative, non-recursive descriptions of what each operation must do to a
   well-formed namespace.  Stores are compared as maps (store_equiv_b). *)
Definition has_file_ancestor (s : store) (p : path) : bool :=
  existsb (fun a => match find s a with Some d => negb (e_dir d) | None => false end) (ancestors p).

Definition add_missing_ancestors (s : store) (p : path) (tmpl : entry) : store :=
  fold_left (fun s0 a => match find s0 a with Some _ => s0 | None => insert s0 a (implicit_dir tmpl) end)
            (ancestors p) s.

Definition ref_remove_subtree (s : store) (p : path) : store :=
  filter (fun kv => negb (is_prefix p (fst kv))) s.

Definition ref_create (s : store) (p : path) (e : entry) (o_excl : bool) : store * err :=
  match p with
  | [] => (s, OK)
  | _ =>
      match find s p with
      | Some old =>
          if o_excl then (s, EExist)
          else if e_dir old && negb (e_dir e) then (s, EIsDir)
          else if negb (e_dir old) && e_dir e then (s, EIsFile)
          else (insert s p e, OK)
      | None =>
          if has_file_ancestor s p then (s, ENotDir)
          else (insert (add_missing_ancestors s p e) p e, OK)
      end
  end.

Definition ref_update (s : store) (p : path) (e : entry) : store * err :=
  match find_entry s p with
  | None => (s, ENotFound)
  | Some old =>
      if e_dir old && negb (e_dir e) then (s, EIsDir)
      else if negb (e_dir old) && e_dir e then (s, EIsFile)
      else (insert s p e, OK)
  end.

Definition ref_delete (s : store) (p : path) (rec : bool) : store * err :=
  match p with
  | [] => (s, OK)
  | _ =>
      match find s p with
      | None => (s, ENotFound)
      | Some e =>
          if e_dir e && negb rec && has_children s p then (s, ENotEmpty)
          else (ref_remove_subtree s p, OK)
      end
  end.

(* the subtree at oldp re-rooted at newp, laid over everything outside oldp *)
Definition ref_move (s : store) (oldp newp : path) (eo : entry) : store :=
  flat_map (fun kv => match strip_prefix oldp (fst kv) with
                      | Some r => [(newp ++ r, strip_hl (snd kv))]
                      | None => []
                      end) s
  ++ add_missing_ancestors (ref_remove_subtree s oldp) newp (strip_hl eo).

(* None: the reference does not say (a directory renamed onto a non-empty directory) *)
Definition ref_rename (s : store) (od : path) (on : name) (nd : path) (nn : name) : option (store * err) :=
  let oldp := child od on in
  let newp := child nd nn in
  if is_prefix oldp nd then Some (s, EInvalid)
  else
    match find s oldp with
    | None => Some (s, ENotFound)
    | Some eo =>
        if path_eqb oldp newp then Some (s, OK)
        else
          match find s newp with
          | Some en =>
              if e_dir eo && negb (e_dir en) then Some (s, EIsFile)
              else if negb (e_dir eo) && e_dir en then Some (s, EIsDir)
              else if e_dir eo && has_children s newp then None
              else Some (ref_move s oldp newp eo, OK)
          | None =>
              if has_file_ancestor s newp then Some (s, ENotDir)
              else Some (ref_move s oldp newp eo, OK)
          end
    end.

(* the decidable trigger of the known finding: a directory renamed onto an existing
   non-empty directory (POSIX: ENOTEMPTY) is merged entry by entry instead of refused *)
Definition rename_trigger (s : store) (od : path) (on : name) (nd : path) (nn : name) : bool :=
  match ref_rename s od on nd nn with None => true | Some _ => false end.

Definition op_trigger (s : store) (o : op) : bool :=
  match o with
  | Rename od on nd nn => rename_trigger s od on nd nn
  | _ => false
  end.

Definition ref_step (s : store) (o : op) : option (store * err) :=
  match o with
  | Create p e x => Some (ref_create s p e x)
  | Update p e => Some (ref_update s p e)
  | Delete p rec _ => Some (ref_delete s p rec)
  | Rename od on nd nn => ref_rename s od on nd nn
  end.

(* no operation of the history falls under the trigger (evaluated along the model's run) *)
Fixpoint history_trigger (s : store) (ops : list op) : bool :=
  match ops with
  | [] => false
  | o :: ops' => op_trigger s o || history_trigger (fst (step s o)) ops'
  end.
