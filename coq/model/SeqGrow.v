(* Model of concurrent volume growth: VolumeGrowth.GrowByCountAndType /
   findAndGrow (weed/topology/volume_growth.go) calling Topology.NextVolumeId
   (topology.go, cluster_commands.go) -- C13, "new volume ids are unique".
   Executable definitions only; proofs are in proof/SeqGrow.v.

   The volume-id allocator is a machine of ATOMIC steps taken by several grow
   requests (goroutines started by MasterServer.ProcessGrowRequest, /vol/grow,
   ...) that share one VolumeGrowth and one Topology:

     GStart a n   request a calls GrowByCountAndType(targetCount = n)
     GLock a      vg.accessLock.Lock() succeeds (it is a no-op - the goroutine
                  stays blocked - while another request holds the lock)
     GRead a      findAndGrow: findEmptySlotsForOneVolume, then NextVolumeId reads
                  vid := GetMaxVolumeId(); next := vid.Next() and calls
                  RaftServer.Do(MaxVolumeIdCommand(next))      -- the PROPOSAL
     GApply a r   the raft Do finishes: r = GRaftErr: error, nothing applied,
                  GrowByCountAndType returns (deferred Unlock);
                  otherwise Apply: UpAdjustMaxVolumeId(next), NextVolumeId returns
                  next                                          -- the GRANT
                  and vg.grow sends AllocateVolume(next) to the picked servers;
                  r = GAllocErr: an AllocateVolume fails, the request returns;
                  r = GOk: next loop iteration, or return after the n-th one
     GHb v        a heartbeat registers volume v: UpAdjustMaxVolumeId(v)

   The growth lock is the atomicity boundary the code establishes: it is taken
   at the start of GrowByCountAndType and released by the deferred Unlock, so
   GRead / GApply of a request happen only while that request holds the lock.
   The parameter [lk] says whether the lock covers that region: [lk = true] is
   the code as it is; [lk = false] is the same machine with a lock that does not
   cover NextVolumeId (e.g. one narrowed to findEmptySlotsForOneVolume): reads
   and applies of different requests may interleave. *)
From Coq Require Import List NArith Bool Arith.
From SW Require Import model.Seq.
Import ListNotations.
Local Open Scope N_scope.

Inductive gres := GOk | GRaftErr | GAllocErr.

Inductive gop :=
| GStart (a : nat) (n : N)
| GLock (a : nat)
| GRead (a : nat)
| GApply (a : nat) (r : gres)
| GHb (v : N).

Inductive gpc :=
| GIdle                    (* no request running *)
| GWant (n : N)            (* inside GrowByCountAndType, before accessLock.Lock() returned *)
| GHold (n : N)            (* in the loop, n iterations to go, before NextVolumeId *)
| GProp (n next : N).      (* inside RaftServer.Do(MaxVolumeIdCommand(next)) *)

(* observable events: a raft proposal, a volume id handed out (returned by
   NextVolumeId and sent to the volume servers), a volume id seen in a heartbeat *)
Inductive gev :=
| EProp (a : nat) (v : N)
| EGrant (a : nat) (v : N)
| ESeen (v : N).

Record gst := { gmax : N; gholder : option nat; gpcs : list gpc }.

Definition ginit (nact : nat) (m0 : N) : gst :=
  {| gmax := m0; gholder := None; gpcs := repeat GIdle nact |}.

Definition gpc_of (s : gst) (a : nat) : gpc := nth a (gpcs s) GIdle.

Definition gset (s : gst) (mx : N) (h : option nat) (a : nat) (q : gpc) : gst :=
  {| gmax := mx; gholder := h; gpcs := setnth (gpcs s) a q |}.

Definition lock_busy (lk : bool) (s : gst) : bool :=
  if lk then match gholder s with Some _ => true | None => false end else false.

Definition gstep (lk : bool) (s : gst) (o : gop) : gst * option gev :=
  match o with
  | GHb v => ({| gmax := N.max (gmax s) v; gholder := gholder s; gpcs := gpcs s |}, Some (ESeen v))
  | GStart a n =>
      match gpc_of s a with
      | GIdle => (gset s (gmax s) (gholder s) a (GWant n), None)
      | _ => (s, None)
      end
  | GLock a =>
      match gpc_of s a with
      | GWant n =>
          if lock_busy lk s then (s, None)                                   (* blocked on accessLock *)
          else if n =? 0 then (gset s (gmax s) (gholder s) a GIdle, None)    (* empty loop, deferred Unlock *)
          else (gset s (gmax s) (if lk then Some a else None) a (GHold n), None)
      | _ => (s, None)
      end
  | GRead a =>
      match gpc_of s a with
      | GHold n =>
          let next := (gmax s + 1) mod two32 in                              (* VolumeId(uint32(vid)+1) *)
          (gset s (gmax s) (gholder s) a (GProp n next), Some (EProp a next))
      | _ => (s, None)
      end
  | GApply a r =>
      match gpc_of s a with
      | GProp n next =>
          match r with
          | GRaftErr => (gset s (gmax s) None a GIdle, None)                 (* return 0, raftErr; Unlock *)
          | GAllocErr => (gset s (N.max (gmax s) next) None a GIdle, Some (EGrant a next))
          | GOk =>
              if n - 1 =? 0
              then (gset s (N.max (gmax s) next) None a GIdle, Some (EGrant a next))
              else (gset s (N.max (gmax s) next) (gholder s) a (GHold (n - 1)), Some (EGrant a next))
          end
      | _ => (s, None)
      end
  end.

Definition grow_run (lk : bool) (s : gst) (sched : list gop) : gst * list (option gev) :=
  grun (gstep lk) s sched.

(* the 32-bit volume id space is not exhausted, reported ids are 32 bit *)
Definition gfit_guard (s : gst) (o : gop) : bool :=
  match o with
  | GRead _ => gmax s + 1 <? two32
  | GHb v => v <? two32
  | _ => true
  end.
Definition gfits (lk : bool) (s : gst) (sched : list gop) : bool := gall (gstep lk) gfit_guard s sched.

Fixpoint grants (l : list (option gev)) : list N :=
  match l with
  | [] => []
  | Some (EGrant _ v) :: l' => v :: grants l'
  | _ :: l' => grants l'
  end.

(* the AllocateVolume requests a run sends: (request, volume id), [copies] per
   grant, one when the first of them fails *)
Fixpoint gallocs (copies : nat) (sched : list gop) (outs : list (option gev)) : list (nat * N) :=
  match sched, outs with
  | GApply _ r :: sched', Some (EGrant a v) :: outs' =>
      repeat (a, v) (match r with GAllocErr => 1%nat | _ => copies end) ++ gallocs copies sched' outs'
  | _ :: sched', _ :: outs' => gallocs copies sched' outs'
  | _, _ => []
  end.

(* ---- the property's executable oracle on a trace of events ----
   e1 happened before e2: a grant is above every earlier grant (so no volume id
   is handed out twice) and is not below any earlier proposal; every proposal is
   above every volume id granted or seen in a heartbeat before it was made *)
Definition gev_ok (e1 e2 : gev) : Prop :=
  match e1, e2 with
  | EGrant _ v1, EGrant _ v2 => v1 < v2
  | EGrant _ v1, EProp _ v2 => v1 < v2
  | ESeen v1, EProp _ v2 => v1 < v2
  | EProp _ v1, EGrant _ v2 => v1 <= v2
  | _, _ => True
  end.
Definition gev_okb (e1 e2 : gev) : bool :=
  match e1, e2 with
  | EGrant _ v1, EGrant _ v2 => v1 <? v2
  | EGrant _ v1, EProp _ v2 => v1 <? v2
  | ESeen v1, EProp _ v2 => v1 <? v2
  | EProp _ v1, EGrant _ v2 => v1 <=? v2
  | _, _ => true
  end.
Fixpoint gtrace_okb (tr : list gev) : bool :=
  match tr with
  | [] => true
  | e :: tr' => forallb (gev_okb e) tr' && gtrace_okb tr'
  end.
