(* Model of the S3 gateway's request authentication/authorisation (C26):
     weed/s3api/s3api_auth.go          getRequestAuthType and the isRequest... predicates
     weed/s3api/auth_credentials.go    IdentityAccessManagement.Auth / authRequest / authUser / canDo / lookup...
     weed/s3api/auth_signature_v{2,4}.go  only the ORDER of the checks; the HMAC comparison is an oracle
     weed/s3api/s3api_server.go        registerRouter: route table (method, path, headers, queries) -> ACTION_*
     weed/iamapi/iamapi_management_handlers.go  GetActions / MapToStatementAction / PutUserPolicy
     weed/s3api/s3api_object_copy_handlers.go   which bucket CopyObject / CopyObjectPart download the source from
   Executable definitions only; proofs are in proof/S3AuthProofs.v. *)
From Coq Require Import List NArith Bool String Ascii.
Import ListNotations.
Local Open Scope string_scope.

(* ---------- strings (Go: strings.HasPrefix / Contains / HasSuffix / Split) ---------- *)
Fixpoint sprefix (p s : string) : bool :=
  match p with
  | EmptyString => true
  | String a p' => match s with
                   | EmptyString => false
                   | String b s' => Ascii.eqb a b && sprefix p' s'
                   end
  end.

Fixpoint contains (sub s : string) : bool :=
  sprefix sub s || match s with EmptyString => false | String _ s' => contains sub s' end.

(* strings.HasSuffix(s, "*") *)
Fixpoint last_is_star (s : string) : bool :=
  match s with
  | EmptyString => false
  | String c s' => match s' with EmptyString => Ascii.eqb c "*" | String _ _ => last_is_star s' end
  end.

(* s[:len(s)-1] *)
Fixpoint drop_last (s : string) : string :=
  match s with
  | EmptyString => EmptyString
  | String c s' => match s' with EmptyString => EmptyString | String _ _ => String c (drop_last s') end
  end.

(* strings.Split(s, sep) for a one-byte separator *)
Fixpoint split_on (sep : ascii) (s : string) : list string :=
  match s with
  | EmptyString => [EmptyString]
  | String c s' =>
      if Ascii.eqb c sep then EmptyString :: split_on sep s'
      else match split_on sep s' with
           | [] => [String c EmptyString]
           | x :: xs => String c x :: xs
           end
  end.

Fixpoint all_digits (s : string) : bool :=
  match s with
  | EmptyString => true
  | String c s' => (N.leb 48 (N_of_ascii c) && N.leb (N_of_ascii c) 57) && all_digits s'
  end.

(* ---------- requests ---------- *)
(* authType, s3api_auth.go *)
Inductive auth_type :=
| Unknown | Anonymous | Presigned | PresignedV2 | PostPolicy | StreamingSigned | Signed | SignedV2 | JWT.

(* The projection of an http.Request the code looks at.  rq_object = "" means a
   bucket-level path; rq_bucket = "" means the path "/".  rq_authz = None means
   the Authorization header is absent (Some "" = present but empty); the other
   headers are read with Header.Get, so absent = "".  Signature material in the
   query string is kept as keys only. *)
Record request := {
  rq_method : string;
  rq_bucket : string;
  rq_object : string;
  rq_query : list (string * option string);   (* raw query in order; None = element written without "=" *)
  rq_authz : option string;
  rq_sha256 : string;      (* x-amz-content-sha256 *)
  rq_ctype : string;       (* Content-Type *)
  rq_copysrc : string      (* X-Amz-Copy-Source *)
}.

Definition has_query (k : string) (q : list (string * option string)) : bool :=
  existsb (fun kv => String.eqb (fst kv) k) q.

(* first value of a key, like url.Values / mux findFirstQueryKey (a bare key has value "") *)
Fixpoint query_get (k : string) (q : list (string * option string)) : option string :=
  match q with
  | [] => None
  | (k', v) :: q' =>
      if String.eqb k' k then Some (match v with Some x => x | None => "" end) else query_get k q'
  end.

(* some query element is written without "=" *)
Definition has_bare_query (q : list (string * option string)) : bool :=
  existsb (fun kv => match snd kv with None => true | Some _ => false end) q.

Definition hdr_authz (r : request) : string := match rq_authz r with Some v => v | None => "" end.

Definition signV4Algorithm := "AWS4-HMAC-SHA256".
Definition signV2Algorithm := "AWS".
Definition streamingContentSHA256 := "STREAMING-AWS4-HMAC-SHA256-PAYLOAD".

Definition is_request_jwt r := sprefix "Bearer" (hdr_authz r).
Definition is_request_signature_v4 r := sprefix signV4Algorithm (hdr_authz r).
Definition is_request_signature_v2 r :=
  negb (sprefix signV4Algorithm (hdr_authz r)) && sprefix signV2Algorithm (hdr_authz r).
Definition is_request_presigned_v4 r := has_query "X-Amz-Credential" (rq_query r).
Definition is_request_presigned_v2 r := has_query "AWSAccessKeyId" (rq_query r).
Definition is_request_post_policy r :=
  contains "multipart/form-data" (rq_ctype r) && String.eqb (rq_method r) "POST".
Definition is_request_sign_streaming_v4 r :=
  String.eqb (rq_sha256 r) streamingContentSHA256 && String.eqb (rq_method r) "PUT".

(* getRequestAuthType: the ORDER of the tests is the point *)
Definition get_request_auth_type (r : request) : auth_type :=
  if is_request_signature_v2 r then SignedV2
  else if is_request_presigned_v2 r then PresignedV2
  else if is_request_sign_streaming_v4 r then StreamingSigned
  else if is_request_signature_v4 r then Signed
  else if is_request_presigned_v4 r then Presigned
  else if is_request_jwt r then JWT
  else if is_request_post_policy r then PostPolicy
  else match rq_authz r with None => Anonymous | Some _ => Unknown end.

(* ---------- identities ---------- *)
Record identity := {
  id_name : string;
  id_creds : list (string * string);     (* (access key, secret key) *)
  id_actions : list string
}.

Fixpoint find_cred (ak : string) (cs : list (string * string)) : option string :=
  match cs with
  | [] => None
  | (k, s) :: cs' => if String.eqb k ak then Some s else find_cred ak cs'
  end.

(* lookupByAccessKey: first identity (in configuration order) holding the key *)
Fixpoint lookup_by_access_key (ids : list identity) (ak : string) : option (identity * string) :=
  match ids with
  | [] => None
  | i :: ids' => match find_cred ak (id_creds i) with
                 | Some s => Some (i, s)
                 | None => lookup_by_access_key ids' ak
                 end
  end.

(* lookupAnonymous *)
Definition lookup_anonymous (ids : list identity) : option identity :=
  find (fun i => String.eqb (id_name i) "anonymous") ids.

Definition ACTION_READ := "Read".
Definition ACTION_WRITE := "Write".
Definition ACTION_ADMIN := "Admin".
Definition ACTION_TAGGING := "Tagging".
Definition ACTION_LIST := "List".
Definition s3_actions : list string := [ACTION_READ; ACTION_WRITE; ACTION_ADMIN; ACTION_TAGGING; ACTION_LIST].
Definition is_s3_action (a : string) : bool := existsb (String.eqb a) s3_actions.

(* Identity.isAdmin *)
Definition is_admin (acts : list string) : bool := existsb (fun a => String.eqb a ACTION_ADMIN) acts.

(* Identity.canDo(action, bucket) *)
Definition can_do (acts : list string) (action bucket : string) : bool :=
  if is_admin acts then true
  else if existsb (fun a => String.eqb a action) acts then true
  else if String.eqb bucket "" then false
  else
    let limited := action ++ ":" ++ bucket in
    let admin_limited := ACTION_ADMIN ++ ":" ++ bucket in
    existsb (fun act =>
      if last_is_star act
      then sprefix (drop_last act) limited || sprefix (drop_last act) admin_limited
      else String.eqb act limited || String.eqb act admin_limited) acts.

(* ---------- signature verification: order of checks, HMAC as an oracle ----------
   The harness knows how it signed a request; a [claim] says which access key the
   request names, which secret the signature was really computed with, and
   whether the signed material was altered afterwards.
     Intact     the request is exactly what was signed, date inside the validity window
     Tampered   signature or a signed header changed after signing
     Expired    signed correctly, but the date is old (presigned: past its Expires;
                header-signed: the code has no freshness check at all)
     Malformed  the credential syntax does not parse (fails before any lookup)    *)
Inductive damage := Intact | Tampered | Expired | Malformed.
Record claim := { cl_ak : string; cl_secret : string; cl_damage : damage }.

(* s3err codes that Auth can produce *)
Inductive err :=
| ErrAccessDenied | ErrNotImplemented | ErrInvalidAccessKeyID | ErrSignatureDoesNotMatch
| ErrExpiredPresignRequest | ErrMissingFields | ErrInvalidQueryParams.

(* errorCodeResponse: (HTTP status, Code) *)
Definition api_error (e : err) : N * string :=
  match e with
  | ErrAccessDenied => (403%N, "AccessDenied")
  | ErrNotImplemented => (501%N, "NotImplemented")
  | ErrInvalidAccessKeyID => (403%N, "InvalidAccessKeyId")
  | ErrSignatureDoesNotMatch => (403%N, "SignatureDoesNotMatch")
  | ErrExpiredPresignRequest => (403%N, "AccessDenied")
  | ErrMissingFields => (400%N, "MissingFields")
  | ErrInvalidQueryParams => (400%N, "AuthorizationQueryParametersError")
  end.

Inductive sig_result := SigOk (id : identity) | SigErr (e : err).

(* does the date part still hold?  header signatures are never checked for age *)
Definition sig_fresh (presigned : bool) (d : damage) : bool :=
  match d with
  | Intact => true
  | Expired => negb presigned
  | Tampered | Malformed => false
  end.

(* doesSignatureMatch / doesPresignedSignatureMatch / doesSignV2Match /
   doesPresignV2SignatureMatch: parse, look the key up, (presigned: expiry), compare. *)
Definition sig_verify (ids : list identity) (presigned : bool) (c : claim) : sig_result :=
  match cl_damage c with
  | Malformed => SigErr (if presigned then ErrInvalidQueryParams else ErrMissingFields)
  | d =>
      match lookup_by_access_key ids (cl_ak c) with
      | None => SigErr ErrInvalidAccessKeyID
      | Some (id, secret) =>
          if presigned && match d with Expired => true | _ => false end then SigErr ErrExpiredPresignRequest
          else if String.eqb secret (cl_secret c) && sig_fresh presigned d then SigOk id
          else SigErr ErrSignatureDoesNotMatch
      end
  end.

(* isReqAuthenticatedV2 / reqSignatureV4Verify, by classified type.  V2 presigned:
   every query element must contain "=" (checked while parsing, before the lookup). *)
Definition sig_check (ids : list identity) (t : auth_type) (r : request) (c : claim) : sig_result :=
  match t with
  | PresignedV2 =>
      if has_bare_query (rq_query r) then SigErr ErrInvalidQueryParams else sig_verify ids true c
  | Presigned => sig_verify ids true c
  | _ => sig_verify ids false c
  end.

(* ---------- Auth ---------- *)
Inductive decision := Run (who : option identity) | Reject (e : err).

(* The switch over getRequestAuthType(r); authRequest and authUser contain the same
   switch (textually), so it is written once here. *)
Inductive authn := PassUnchecked | Deny (e : err) | Ident (id : identity).

Definition authenticate (ids : list identity) (r : request) (c : claim) : authn :=
  match get_request_auth_type r with
  | StreamingSigned => PassUnchecked                (* return identity(nil), ErrNone *)
  | Unknown => Deny ErrAccessDenied
  | PresignedV2 | SignedV2 | Signed | Presigned =>
      match sig_check ids (get_request_auth_type r) r c with
      | SigOk id => Ident id
      | SigErr e => Deny e
      end
  | PostPolicy => PassUnchecked                     (* return identity(nil), ErrNone *)
  | JWT => Deny ErrNotImplemented
  | Anonymous =>
      match lookup_anonymous ids with
      | None => Deny ErrAccessDenied
      | Some id => Ident id
      end
  end.

Definition authorize (id : identity) (action bucket : string) : decision :=
  if can_do (id_actions id) action bucket then Run (Some id) else Reject ErrAccessDenied.

(* authRequest *)
Definition auth_request (ids : list identity) (r : request) (c : claim) (action : string) : decision :=
  match authenticate ids r c with
  | PassUnchecked => Run None
  | Deny e => Reject e
  | Ident id => authorize id action (rq_bucket r)
  end.

(* Auth(f, action): isEnabled() = identities configured *)
Definition auth (ids : list identity) (r : request) (c : claim) (action : string) : decision :=
  match ids with
  | [] => Run None
  | _ => auth_request ids r c action
  end.

(* authUser (ListBuckets): the same without canDo *)
Definition auth_user_request (ids : list identity) (r : request) (c : claim) : decision :=
  match authenticate ids r c with
  | PassUnchecked => Run None
  | Deny e => Reject e
  | Ident id => Run (Some id)
  end.

Definition auth_user (ids : list identity) (r : request) (c : claim) : decision :=
  match ids with
  | [] => Run None
  | _ => auth_user_request ids r c
  end.

(* the s3-identity-id / s3-is-admin request headers Auth sets before calling f *)
Definition id_header (d : decision) : string * bool :=
  match d with
  | Run (Some id) => if String.eqb (id_name id) "" then ("", false) else (id_name id, is_admin (id_actions id))
  | _ => ("", false)
  end.

(* ---------- the route table of registerRouter (in registration order) ---------- *)
Inductive qcond :=
| QHas (k : string)           (* Queries(k, "") and Queries(k, "{x:.*}"): key present, any value *)
| QEq (k v : string)          (* Queries(k, v) *)
| QDigits (k : string).       (* Queries(k, "{x:[0-9]+}") *)

Inductive hcond :=
| HNone
| HCopySource                 (* HeadersRegexp("X-Amz-Copy-Source", `.*?(\/|%2F).*?`) *)
| HFormData.                  (* HeadersRegexp("Content-Type", "multipart/form-data*") *)

Record route := {
  rt_name : string; rt_method : string;
  rt_object : bool;           (* Path("/{object:.+}") *)
  rt_hdr : hcond; rt_queries : list qcond;
  rt_action : string }.

Definition mk (name meth : string) (obj : bool) (h : hcond) (qs : list qcond) (a : string) : route :=
  {| rt_name := name; rt_method := meth; rt_object := obj; rt_hdr := h; rt_queries := qs; rt_action := a |}.

Definition route_table : list route := [
  mk "HeadObjectHandler" "HEAD" true HNone [] ACTION_READ;
  mk "HeadBucketHandler" "HEAD" false HNone [] ACTION_ADMIN;
  mk "CopyObjectPartHandler" "PUT" true HCopySource [QDigits "partNumber"; QHas "uploadId"] ACTION_WRITE;
  mk "PutObjectPartHandler" "PUT" true HNone [QDigits "partNumber"; QHas "uploadId"] ACTION_WRITE;
  mk "CompleteMultipartUploadHandler" "POST" true HNone [QHas "uploadId"] ACTION_WRITE;
  mk "NewMultipartUploadHandler" "POST" true HNone [QHas "uploads"] ACTION_WRITE;
  mk "AbortMultipartUploadHandler" "DELETE" true HNone [QHas "uploadId"] ACTION_WRITE;
  mk "ListObjectPartsHandler" "GET" true HNone [QHas "uploadId"] ACTION_READ;
  mk "ListMultipartUploadsHandler" "GET" false HNone [QHas "uploads"] ACTION_READ;
  mk "GetObjectTaggingHandler" "GET" true HNone [QHas "tagging"] ACTION_READ;
  mk "PutObjectTaggingHandler" "PUT" true HNone [QHas "tagging"] ACTION_TAGGING;
  mk "DeleteObjectTaggingHandler" "DELETE" true HNone [QHas "tagging"] ACTION_TAGGING;
  mk "CopyObjectHandler" "PUT" true HCopySource [] ACTION_WRITE;
  mk "PutObjectHandler" "PUT" true HNone [] ACTION_WRITE;
  mk "PutBucketHandler" "PUT" false HNone [] ACTION_ADMIN;
  mk "DeleteObjectHandler" "DELETE" true HNone [] ACTION_WRITE;
  mk "DeleteBucketHandler" "DELETE" false HNone [] ACTION_WRITE;
  mk "ListObjectsV2Handler" "GET" false HNone [QEq "list-type" "2"] ACTION_LIST;
  mk "GetObjectHandler" "GET" true HNone [] ACTION_READ;
  mk "ListObjectsV1Handler" "GET" false HNone [] ACTION_LIST;
  mk "PostPolicyBucketHandler" "POST" false HFormData [] ACTION_WRITE;
  mk "DeleteMultipleObjectsHandler" "POST" false HNone [QHas "delete"] ACTION_WRITE
].

Definition qcond_holds (q : list (string * option string)) (c : qcond) : bool :=
  match c with
  | QHas k => match query_get k q with Some _ => true | None => false end
  | QEq k v => match query_get k q with Some v' => String.eqb v' v | None => false end
  | QDigits k => match query_get k q with
                 | Some v => negb (String.eqb v "") && all_digits v
                 | None => false
                 end
  end.

Definition hcond_holds (r : request) (h : hcond) : bool :=
  match h with
  | HNone => true
  | HCopySource => contains "/" (rq_copysrc r) || contains "%2F" (rq_copysrc r)
  | HFormData => contains "multipart/form-dat" (rq_ctype r)
  end.

(* a route of the "/{bucket}" sub-router matches *)
Definition route_matches (r : request) (rt : route) : bool :=
  negb (String.eqb (rq_bucket r) "") &&
  String.eqb (rq_method r) (rt_method rt) &&
  (negb (rt_object rt) || negb (String.eqb (rq_object r) "")) &&
  hcond_holds r (rt_hdr rt) &&
  forallb (qcond_holds (rq_query r)) (rt_queries rt).

Fixpoint find_index {A} (f : A -> bool) (l : list A) (i : N) : option N :=
  match l with
  | [] => None
  | x :: l' => if f x then Some i else find_index f l' (i + 1)%N
  end.

(* index of ListBuckets: registered after the bucket sub-router, Methods("GET").Path("/"), no Auth wrapper *)
Definition list_buckets_index : N := 22%N.

(* mux: first registered route that matches *)
Definition route_match (r : request) : option N :=
  match find_index (route_matches r) route_table 0%N with
  | Some i => Some i
  | None =>
      if String.eqb (rq_bucket r) "" && String.eqb (rq_object r) "" && String.eqb (rq_method r) "GET"
      then Some list_buckets_index else None
  end.

(* what runs behind the matched route *)
Definition route_decision (ids : list identity) (r : request) (c : claim) (i : N) : decision :=
  match nth_error route_table (N.to_nat i) with
  | Some rt => auth ids r c (rt_action rt)
  | None => auth_user ids r c            (* ListBuckets: authUser inside the handler *)
  end.

(* ---------- IAM policy documents (iamapi) ---------- *)
Record statement := { st_effect : string; st_actions : list string; st_resources : list string }.

(* MapToStatementAction *)
Definition map_to_statement_action (a : string) : string :=
  if String.eqb a "*" then ACTION_ADMIN
  else if String.eqb a "Put*" then ACTION_WRITE
  else if String.eqb a "Get*" then ACTION_READ
  else if String.eqb a "List*" then ACTION_LIST
  else if String.eqb a "Tagging*" then ACTION_TAGGING
  else "".

Definition action_grant (r5 : string) (action : string) : list string :=
  match split_on ":" action with
  | [a0; a1] =>
      if String.eqb a0 "s3" then
        let sa := map_to_statement_action a1 in
        if String.eqb r5 "*" then [sa]
        else match split_on "/" r5 with
             | [p0; p1] => if String.eqb p1 "*" then [sa ++ ":" ++ p0] else []
             | _ => []
             end
      else []
  | _ => []
  end.

Definition resource_grants (acts : list string) (res : string) : list string :=
  match split_on ":" res with
  | [r0; r1; r2; _; _; r5] =>
      if String.eqb r0 "arn" && String.eqb r1 "aws" && String.eqb r2 "s3"
      then flat_map (action_grant r5) acts
      else []
  | _ => []
  end.

(* GetActions *)
Definition get_actions (doc : list statement) : list string :=
  flat_map (fun st =>
    if String.eqb (st_effect st) "Allow"
    then flat_map (resource_grants (st_actions st)) (st_resources st)
    else []) doc.

(* PutUserPolicy: the user's actions after the call *)
Definition put_user_policy (prior : list string) (doc : list statement) : list string :=
  (prior ++ get_actions doc)%list.

(* ---------- reference specifications (used as oracles by check/C26.v) ---------- *)

(* one configured action string grants (action, bucket) *)
Definition grants (x action bucket : string) : bool :=
  String.eqb x ACTION_ADMIN || String.eqb x action ||
  (negb (String.eqb bucket "") &&
   (if last_is_star x
    then sprefix (drop_last x) (action ++ ":" ++ bucket) || sprefix (drop_last x) (ACTION_ADMIN ++ ":" ++ bucket)
    else String.eqb x (action ++ ":" ++ bucket) || String.eqb x (ACTION_ADMIN ++ ":" ++ bucket))).

Definition allows (acts : list string) (action bucket : string) : bool :=
  existsb (fun x => grants x action bucket) acts.

Definition is_sig_type (t : auth_type) : bool :=
  match t with Signed | SignedV2 | Presigned | PresignedV2 => true | _ => false end.
Definition is_presigned_type (t : auth_type) : bool :=
  match t with Presigned | PresignedV2 => true | _ => false end.

(* all (identity, access key, secret) triples in configuration order *)
Definition cred_table (ids : list identity) : list (identity * string * string) :=
  flat_map (fun i => map (fun ks => (i, fst ks, snd ks)) (id_creds i)) ids.

(* "carries a valid signature of an identity whose actions allow the operation on the
   bucket, or is anonymous with an anonymous identity allowed to do it" *)
Definition authorized_spec (ids : list identity) (t : auth_type) (c : claim) (action bucket : string) : bool :=
  (is_sig_type t &&
   match find (fun e => String.eqb (snd (fst e)) (cl_ak c)) (cred_table ids) with
   | Some (id, _, secret) =>
       String.eqb secret (cl_secret c) && sig_fresh (is_presigned_type t) (cl_damage c) &&
       allows (id_actions id) action bucket
   | None => false
   end)
  ||
  (match t with Anonymous => true | _ => false end &&
   match find (fun i => String.eqb (id_name i) "anonymous") ids with
   | Some id => allows (id_actions id) action bucket
   | None => false
   end).

(* the same without the action: authenticated at all (ListBuckets) *)
Definition authenticated_spec (ids : list identity) (t : auth_type) (c : claim) : bool :=
  (is_sig_type t &&
   match find (fun e => String.eqb (snd (fst e)) (cl_ak c)) (cred_table ids) with
   | Some (_, _, secret) => String.eqb secret (cl_secret c) && sig_fresh (is_presigned_type t) (cl_damage c)
   | None => false
   end)
  ||
  (match t with Anonymous => true | _ => false end &&
   match find (fun i => String.eqb (id_name i) "anonymous") ids with Some _ => true | None => false end).

(* trigger set of finding 0: the two types authRequest lets through unchecked *)
Definition bypass_type (t : auth_type) : bool :=
  match t with StreamingSigned | PostPolicy => true | _ => false end.
Definition trigger (r : request) : bool := bypass_type (get_request_auth_type r).

(* what an Allow statement NAMES (a generous reading: any s3:Get... pattern names the
   read family, any resource whose first path segment matches names the bucket) *)
Definition wild_match (pat s : string) : bool :=
  if last_is_star pat then sprefix (drop_last pat) s else String.eqb pat s.

Definition act_names (pat action : string) : bool :=
  match split_on ":" pat with
  | [svc; p] =>
      String.eqb svc "s3" &&
      (String.eqb p "*" ||
       (sprefix "Get" p && String.eqb action ACTION_READ) ||
       (sprefix "Put" p && String.eqb action ACTION_WRITE) ||
       (sprefix "List" p && String.eqb action ACTION_LIST) ||
       (sprefix "Tagging" p && String.eqb action ACTION_TAGGING))
  | _ => false
  end.

Definition res_covers (res bucket : string) : bool :=
  match split_on ":" res with
  | [r0; r1; r2; _; _; r5] =>
      String.eqb r0 "arn" && String.eqb r1 "aws" && String.eqb r2 "s3" &&
      wild_match (hd "" (split_on "/" r5)) bucket
  | _ => false
  end.

Definition stmt_names (st : statement) (action bucket : string) : bool :=
  String.eqb (st_effect st) "Allow" &&
  existsb (fun a => act_names a action) (st_actions st) &&
  existsb (fun r => res_covers r bucket) (st_resources st).

Definition named (doc : list statement) (action bucket : string) : bool :=
  existsb (fun st => stmt_names st action bucket) doc.

(* ====================================================================================
   Handler-level verification (the three handlers that verify what authRequest lets
   through unchecked):
     PutObjectHandler / PutObjectPartHandler  s3api_object_handlers.go, s3api_object_multipart_handlers.go
         -> newSignV4ChunkedReader -> calculateSeedSignature (chunked_reader_v4.go)
     PostPolicyBucketHandler                  s3api_object_handlers_postpolicy.go
         -> doesPolicySignatureMatch (V2: auth_signature_v2.go, V4: auth_signature_v4.go)
   ==================================================================================== *)

(* strings.Replace(v4Auth, " ", "", -1) *)
Fixpoint remove_spaces (s : string) : string :=
  match s with
  | EmptyString => EmptyString
  | String c s' => if Ascii.eqb c " " then remove_spaces s' else String c (remove_spaces s')
  end.

(* strconv.Atoi on a string of decimal digits (the route guarantees [0-9]+) *)
Fixpoint digits_value (acc : N) (s : string) : N :=
  match s with
  | EmptyString => acc
  | String c s' => digits_value (acc * 10 + (N_of_ascii c - 48))%N s'
  end.

Definition globalMaxPartID : N := 10000%N.   (* S3 part numbers are 1..10000 (100000 and no lower bound before the repair of C28 finding 5) *)

(* what the body of a POST carries (the harness builds it; an input of the case) *)
Inductive form_state :=
| NoForm                                   (* no parsable multipart/form-data body *)
| FormNoFile                               (* form without a file part and without policy / credential fields *)
| FormPolicy (v2 : bool) (pc : claim).     (* form with a file and a signed policy: V2 (Signature field) or V4;
                                              pc says how the POLICY was signed; Expired = policy expiration passed *)

(* the environment of a request: what the filer stand-in holds and what the body carries *)
Record env := {
  e_upload_exists : bool;
  e_form : form_state;
  e_client_idhdr : string * bool      (* s3-identity-id value / s3-is-admin present, AS SENT BY THE CLIENT *)
}.

(* the identity headers the handler sees: Auth only SETS them (identity with a name: the
   name; admin identity: s3-is-admin) and never removes what the client sent *)
Definition seen_id_header (d : decision) (e : env) : string * bool :=
  match d with
  | Run (Some id) =>
      if String.eqb (id_name id) "" then e_client_idhdr e
      else (id_name id, is_admin (id_actions id) || snd (e_client_idhdr e))
  | _ => e_client_idhdr e
  end.

(* responses the three handlers produce before anything is sent to the filer *)
Inductive herr :=
| HAuth (e : err)
| HAuthHeaderEmpty | HSigVersionNotSupported | HAuthNotSetup
| HMalformedPOST | HPOSTFileRequired | HPolicyRedirect
| HNoSuchUpload | HInvalidMaxParts.

Definition herr_resp (h : herr) : N * string :=
  match h with
  | HAuth e => api_error e
  | HAuthHeaderEmpty => (400%N, "InvalidArgument")
  | HSigVersionNotSupported => (400%N, "InvalidRequest")
  | HAuthNotSetup => (400%N, "InvalidRequest")
  | HMalformedPOST => (400%N, "MalformedPOSTRequest")
  | HPOSTFileRequired => (400%N, "InvalidArgument")
  | HPolicyRedirect => (307%N, "")
  | HNoSuchUpload => (404%N, "NoSuchUpload")
  | HInvalidMaxParts => (400%N, "InvalidArgument")
  end.

(* GPass who: the handler's own verification is passed (who = the identity it verified,
   None = it verifies nothing); it goes on to the filer *)
Inductive gate := GReject (h : herr) | GPass (who : option identity).

(* calculateSeedSignature: parseSignV4, lookupByAccessKey, canDo("Write", bucket), compare.
   No freshness check of the date (as for every header signature). *)
Definition seed_verify (ids : list identity) (r : request) (c : claim) : gate :=
  let a := remove_spaces (hdr_authz r) in
  if String.eqb a "" then GReject HAuthHeaderEmpty
  else if negb (sprefix signV4Algorithm a) then GReject HSigVersionNotSupported
  else match cl_damage c with
       | Malformed => GReject (HAuth ErrMissingFields)
       | d =>
           match lookup_by_access_key ids (cl_ak c) with
           | None => GReject (HAuth ErrInvalidAccessKeyID)
           | Some (id, secret) =>
               if can_do (id_actions id) ACTION_WRITE (rq_bucket r) then
                 if String.eqb secret (cl_secret c) && sig_fresh false d then GPass (Some id)
                 else GReject (HAuth ErrSignatureDoesNotMatch)
               else GReject (HAuth ErrAccessDenied)
           end
       end.

(* doesPolicySignatureMatch + CheckPostPolicy's expiration test.  NO canDo. *)
Definition policy_verify (ids : list identity) (v2 : bool) (pc : claim) : gate :=
  match cl_damage pc, v2 with
  | Malformed, false => GReject (HAuth ErrMissingFields)      (* parseCredentialHeader *)
  | d, _ =>
      match lookup_by_access_key ids (cl_ak pc) with
      | None => GReject (HAuth ErrInvalidAccessKeyID)
      | Some (id, secret) =>
          if String.eqb secret (cl_secret pc) && match d with Intact | Expired => true | _ => false end then
            match d with Expired => GReject HPolicyRedirect | _ => GPass (Some id) end
          else GReject (HAuth ErrSignatureDoesNotMatch)
      end
  end.

Definition PUT_OBJECT_PART_IDX : N := 3%N.
Definition PUT_OBJECT_IDX : N := 13%N.
Definition POST_POLICY_IDX : N := 20%N.

(* PutObjectHandler's switch over getRequestAuthType (V2/V4 types are verified a second
   time with the same functions Auth used: they pass again) *)
Definition put_object_gate (ids : list identity) (r : request) (c : claim) (w : option identity) : gate :=
  match get_request_auth_type r with
  | StreamingSigned => match ids with [] => GReject HAuthNotSetup | _ => seed_verify ids r c end
  | _ => GPass w
  end.

(* strconv.Atoi(r.URL.Query().Get("partNumber")) *)
Definition part_number (r : request) : N :=
  digits_value 0 (match query_get "partNumber" (rq_query r) with Some v => v | None => "" end).

Definition put_object_part_gate (ids : list identity) (r : request) (c : claim) (e : env) (w : option identity) : gate :=
  if negb (e_upload_exists e) then GReject HNoSuchUpload          (* s3a.exists: a filer LOOKUP, before any verification *)
  else if ((part_number r <? 1) || (globalMaxPartID <? part_number r))%N     (* partID < 1 || partID > globalMaxPartID *)
       then GReject HInvalidMaxParts
  else match get_request_auth_type r with
       | StreamingSigned => match ids with [] => GPass w | _ => seed_verify ids r c end
       | _ => GPass w
       end.

Definition post_policy_gate (ids : list identity) (e : env) : gate :=
  match e_form e with
  | NoForm => GReject HMalformedPOST
  | FormNoFile => GReject (HAuth ErrMissingFields)   (* no file part at all: extractPostPolicyFormValues makes up an empty
                                                        file; the harness's file-less form has no credential fields either,
                                                        so doesPolicySignatureV4Match fails in parseCredentialHeader *)
  | FormPolicy v2 pc => policy_verify ids v2 pc
  end.

(* what the handler behind route i does with a request Auth let through with identity w *)
Definition handler_gate (ids : list identity) (r : request) (c : claim) (e : env) (i : N) (w : option identity) : gate :=
  if (i =? PUT_OBJECT_IDX)%N then put_object_gate ids r c w
  else if (i =? PUT_OBJECT_PART_IDX)%N then put_object_part_gate ids r c e w
  else if (i =? POST_POLICY_IDX)%N then post_policy_gate ids e
  else GPass w.

(* Auth followed by the handler's own verification: Some w = the request goes on to the
   filer (data path), w = the identity that was verified last *)
Definition takes_effect (ids : list identity) (r : request) (c : claim) (e : env) (i : N) : option (option identity) :=
  match route_decision ids r c i with
  | Reject _ => None
  | Run w => match handler_gate ids r c e i w with GReject _ => None | GPass w' => Some w' end
  end.

(* ---------- reference specifications at the handler level ---------- *)
Definition find_cred_spec (ids : list identity) (ak : string) : option (identity * string * string) :=
  find (fun e => String.eqb (snd (fst e)) ak) (cred_table ids).

(* valid V4 streaming seed signature of an identity allowed to Write the bucket *)
Definition seed_spec (ids : list identity) (r : request) (c : claim) : bool :=
  sprefix signV4Algorithm (remove_spaces (hdr_authz r)) &&
  match find_cred_spec ids (cl_ak c) with
  | Some (id, _, secret) =>
      String.eqb secret (cl_secret c) && sig_fresh false (cl_damage c) && allows (id_actions id) ACTION_WRITE (rq_bucket r)
  | None => false
  end.

(* valid POST policy signature (inside its expiration) of some configured identity *)
Definition policy_signer (ids : list identity) (f : form_state) : option identity :=
  match f with
  | FormPolicy _ pc =>
      match find_cred_spec ids (cl_ak pc) with
      | Some (id, _, secret) =>
          if String.eqb secret (cl_secret pc) && match cl_damage pc with Intact => true | _ => false end
          then Some id else None
      | None => None
      end
  | _ => None
  end.

Definition policy_spec (ids : list identity) (r : request) (f : form_state) : bool :=
  match policy_signer ids f with
  | Some id => allows (id_actions id) ACTION_WRITE (rq_bucket r)
  | None => false
  end.

(* the property's right-hand side for route i, all signature kinds of the property text:
   the route's own action on the bucket of the URL *)
Definition effect_authorized_spec0 (ids : list identity) (r : request) (c : claim) (e : env) (i : N) : bool :=
  let t := get_request_auth_type r in
  match nth_error route_table (N.to_nat i) with
  | Some rt =>
      authorized_spec ids t c (rt_action rt) (rq_bucket r) ||
      (match t with StreamingSigned => true | _ => false end &&
       ((i =? PUT_OBJECT_IDX)%N || (i =? PUT_OBJECT_PART_IDX)%N) && seed_spec ids r c) ||
      (match t with PostPolicy => true | _ => false end && (i =? POST_POLICY_IDX)%N && policy_spec ids r (e_form e))
  | None => authenticated_spec ids t c
  end.

(* ---------- copy routes: the read of the SOURCE bucket ----------
   CopyObjectHandler / CopyObjectPartHandler (s3api_object_copy_handlers.go) download
   X-Amz-Copy-Source from the filer and upload it to the destination.  Auth wrapped them with
   ACTION_WRITE on the bucket of the URL (the destination) only. *)
Definition hex_val (c : ascii) : option N :=
  let n := N_of_ascii c in
  if (48 <=? n)%N && (n <=? 57)%N then Some (n - 48)%N
  else if (97 <=? n)%N && (n <=? 102)%N then Some (n - 87)%N
  else if (65 <=? n)%N && (n <=? 70)%N then Some (n - 55)%N
  else None.

(* url.QueryUnescape: "%XX" -> the byte, "+" -> " "; None = EscapeError *)
Fixpoint query_unescape (s : string) : option string :=
  match s with
  | EmptyString => Some EmptyString
  | String c s' =>
      if Ascii.eqb c "%" then
        match s' with
        | String a (String b s'') =>
            match hex_val a, hex_val b with
            | Some x, Some y => option_map (String (ascii_of_N (16 * x + y))) (query_unescape s'')
            | _, _ => None
            end
        | _ => None
        end
      else option_map (String (if Ascii.eqb c "+" then " "%char else c)) (query_unescape s')
  end.

(* cpSrcPath: the unescaped header, or the header as it is when it does not unescape *)
Definition copy_source_path (r : request) : string :=
  match query_unescape (rq_copysrc r) with Some p => p | None => rq_copysrc r end.

(* strings.TrimPrefix(path, "/") *)
Definition trim_slash (s : string) : string :=
  match s with
  | String c s' => if Ascii.eqb c "/" then s' else s
  | EmptyString => s
  end.

(* strings.SplitN(path, "/", 2): the part before the first "/", and the rest if there is a "/" *)
Fixpoint split_first_slash (s : string) : string * option string :=
  match s with
  | EmptyString => (EmptyString, None)
  | String c s' =>
      if Ascii.eqb c "/" then (EmptyString, Some s')
      else let (b, o) := split_first_slash s' in (String c b, o)
  end.

(* pathToBucketAndObject *)
Definition path_to_bucket_and_object (p : string) : string * string :=
  match split_first_slash (trim_slash p) with
  | (b, Some o) => (b, "/" ++ o)
  | (b, None) => (b, "/")
  end.

Definition COPY_OBJECT_PART_IDX : N := 2%N.
Definition COPY_OBJECT_IDX : N := 12%N.

(* Some sb: the handler behind route i asks the filer for an object of bucket sb (util.DownloadFile /
   util.ReadUrlAsReaderCloser on BucketsPath/sb/...); None: it answers before that, or i is not
   a copy route.  X-Amz-Metadata-Directive is not part of the request projection: the harness
   never sends it, so isReplace(r) = false and CopyObjectHandler's touch-only branch is skipped. *)
Definition copy_reads_source (r : request) (e : env) (i : N) : option string :=
  let (sb, so) := path_to_bucket_and_object (copy_source_path r) in
  if (i =? COPY_OBJECT_IDX)%N then
    if String.eqb so "" || String.eqb sb "" then None                                   (* ErrInvalidCopySource *)
    else if String.eqb sb (rq_bucket r) && String.eqb so ("/" ++ rq_object r) then None   (* ErrInvalidCopyDest *)
    else Some sb
  else if (i =? COPY_OBJECT_PART_IDX)%N then
    if String.eqb so "" || String.eqb sb "" then None                                   (* ErrInvalidCopySource *)
    else if negb (e_upload_exists e) then None                                          (* ErrNoSuchUpload *)
    else if ((part_number r <? 1) || (globalMaxPartID <? part_number r))%N then None    (* ErrInvalidMaxParts *)
    else Some sb
  else None.

(* "allow that operation on that bucket", the read half of a copy: the signer (or the anonymous
   identity) may Read the bucket the data is taken from *)
Definition source_read_spec (ids : list identity) (r : request) (c : claim) (e : env) (i : N) : bool :=
  match copy_reads_source r e i with
  | Some sb => authorized_spec ids (get_request_auth_type r) c ACTION_READ sb
  | None => true
  end.

(* the property's right-hand side for route i: the route's action on the URL's bucket AND, for a
   copy, Read on the source bucket *)
Definition effect_authorized_spec (ids : list identity) (r : request) (c : claim) (e : env) (i : N) : bool :=
  effect_authorized_spec0 ids r c e i && source_read_spec ids r c e i.

(* ---------- narrowed trigger sets ----------
   finding 0: a bypass-type request on a route whose handler verifies nothing itself
              (every route but PutObject / PostPolicy; PutObjectPart: its filer lookup runs
              before the seed verification, so it stays inside unless the seed is valid)
   finding 1: a POST policy upload validly signed by an identity that may NOT Write the bucket
   finding 3: see trigger3 below *)
Definition trigger0 (ids : list identity) (r : request) (c : claim) (i : N) : bool :=
  bypass_type (get_request_auth_type r) &&
  negb ((i =? PUT_OBJECT_IDX)%N || (i =? POST_POLICY_IDX)%N) &&
  negb ((i =? PUT_OBJECT_PART_IDX)%N && seed_spec ids r c).

Definition trigger1 (ids : list identity) (r : request) (e : env) (i : N) : bool :=
  match get_request_auth_type r with PostPolicy => true | _ => false end &&
  (i =? POST_POLICY_IDX)%N &&
  match policy_signer ids (e_form e) with
  | Some id => negb (allows (id_actions id) ACTION_WRITE (rq_bucket r))
  | None => false
  end.

(* finding 3: a copy by a request that is authorised to Write the destination but whose signer may
   NOT Read the bucket the source is taken from (the handler downloads it all the same) *)
Definition trigger3 (ids : list identity) (r : request) (c : claim) (e : env) (i : N) : bool :=
  let t := get_request_auth_type r in
  negb (bypass_type t) &&
  match copy_reads_source r e i with
  | Some sb => authorized_spec ids t c ACTION_WRITE (rq_bucket r) && negb (authorized_spec ids t c ACTION_READ sb)
  | None => false
  end.
