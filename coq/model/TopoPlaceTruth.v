(* Ground truth for property C10: what every volume server REALLY holds, computed from the
   heartbeat events alone, and the topology carrying the counters that follow from it.

   The placement model (model/TopoPlace.v) takes the counters of every level as given, as the
   code does.  Whether a chosen server "has a free slot" must in the end be judged against
   what the server holds, not against the master's counters.  Here:
     * [truth_of ops]      the set of registered servers with, per server, the last reported
                           max volume counts, the volumes and the EC shards it holds after the
                           history [ops] -- an assoc-list specification that never looks at a
                           counter (events: TopoCount.op, imported read-only);
     * [true_counts]       volumeCount / remoteVolumeCount / ecShardCount / maxVolumeCount of a
                           server and disk type counted from that;
     * [truth_topology]    the tree of ids of a given topology with, at every level, the sums
                           of the true counts of the servers beneath it; NodeImpl.AvailableSpaceFor
                           on it (TopoPlace.free_space, incl. the EC rule  - ecShardCount/10 - 1)
                           is the number of really free slots as the code itself defines it;
     * [counters_true]     the observed counters equal the truth at every level (the invariant
                           of property C12), activeVolumeCount apart (AvailableSpaceFor does not
                           read it).
   Executable definitions only; proofs are in proof/TopoPlaceTruthProofs.v. *)
From Coq Require Import String List ZArith NArith Bool Arith.
From SW Require Import model.TopoPlace model.TopoCount.
Import ListNotations.
Local Open Scope Z_scope.

(* ---------- what one volume server holds ---------- *)
Record held := mkH {
  h_max : list (string * Z);   (* disk type -> last reported non-zero max volume count *)
  h_vols : list vinfo;         (* volumes, keyed by id *)
  h_ecs : list ecinfo          (* EC volumes with the shard ids held, keyed by id *) }.
Definition empty_held : held := mkH [] [] [].

(* entries for every data center [dc] and rack [dc;rack] ever created (nothing held) and for
   every registered server [dc;rack;node] *)
Definition truth := list (path * held).

Definition t_present (tr : truth) (p : path) : bool := existsb (fun e => path_eqb (fst e) p) tr.
Fixpoint t_info (tr : truth) (p : path) : held :=
  match tr with
  | [] => empty_held
  | (k, h) :: tr' => if path_eqb k p then h else t_info tr' p
  end.
Definition t_upd (tr : truth) (p : path) (f : held -> held) : truth :=
  map (fun e => if path_eqb (fst e) p then (fst e, f (snd e)) else e) tr.
Definition t_link (tr : truth) (p : path) : truth :=
  if t_present tr p then tr else tr ++ [(p, empty_held)].

(* shard ids gained / lost by one EC volume *)
Fixpoint ec_plus (s : ecinfo) (l : list ecinfo) : list ecinfo :=
  match l with
  | [] => [s]
  | x :: l' =>
      if N.eqb (e_id x) (e_id s)
      then mkE (e_id x) (e_disk x) (N.lor (e_bits x) (e_bits s)) :: l'
      else x :: ec_plus s l'
  end.
Definition ec_minus (s : ecinfo) (l : list ecinfo) : list ecinfo :=
  map (fun x => if N.eqb (e_id x) (e_id s)
                then mkE (e_id x) (e_disk x) (N.ldiff (e_bits x) (e_bits s)) else x) l.

Definition set_max (m : list (string * Z)) (h : held) : held := mkH m (h_vols h) (h_ecs h).
Definition set_hvols (l : list vinfo) (h : held) : held := mkH (h_max h) l (h_ecs h).
Definition set_hecs (l : list ecinfo) (h : held) : held := mkH (h_max h) (h_vols h) l.

(* one heartbeat event.  A server that is not registered is not in the tree: events
   addressed to it change nothing. *)
Definition truth_step (tr : truth) (o : op) : truth :=
  match o with
  | Join dc rack node maxs =>
      let tr1 := t_link (t_link tr [dc]) [dc; rack] in
      let n := [dc; rack; node] in
      if t_present tr1 n then tr1
      else tr1 ++ [(n, mkH (fold_left (fun acc (km : string * Z) =>
                                 rset acc (to_dt (fst km)) (rget acc (to_dt (fst km)) + snd km)) maxs [])
                           [] [])]
  | _ =>
    let n := op_node o in
    if negb (t_present tr n && Nat.eqb (length n) 3) then tr
    else match o with
         | Join _ _ _ _ => tr
         | AdjustMax _ maxs =>                 (* a reported 0 is ignored, as the code intends *)
             t_upd tr n (fun h => set_max (fold_left (fun acc (km : string * Z) =>
                 if snd km =? 0 then acc else rset acc (to_dt (fst km)) (snd km)) maxs (h_max h)) h)
         | FullVol _ vs =>                     (* the server lists all its volumes *)
             t_upd tr n (set_hvols (fold_left (fun acc v => put_vol v acc) vs []))
         | IncVol _ news dels =>               (* volumes gone, then volumes new *)
             t_upd tr n (fun h => set_hvols
               (fold_left (fun acc v => put_vol (of_short v) acc) news
                  (fold_left (fun acc v => remove_vol (fst v) acc) dels (h_vols h))) h)
         | FullEc _ shards =>                  (* the server lists all its EC shards *)
             t_upd tr n (set_hecs (fold_left (fun acc s => ec_plus s acc) shards []))
         | IncEc _ news dels =>                (* shards mounted, then shards unmounted: naming a
                                                  shard that is not held removes nothing *)
             t_upd tr n (fun h => set_hecs
               (fold_left (fun acc s => ec_minus s acc) dels
                  (fold_left (fun acc s => ec_plus s acc) news (h_ecs h))) h)
         | Unregister _ => filter (fun e => negb (path_eqb (fst e) n)) tr
         | Grow _ v => t_upd tr n (fun h => set_hvols (put_vol v (h_vols h)) h)
         end
  end.

Definition truth_of (ops : list op) : truth := fold_left truth_step ops [].

(* ---------- the true counts ---------- *)
Definition true_counts (h : held) (t : string) : counts :=
  mkCounts (sumZ (fun v => if String.eqb (to_dt (v_disk v)) t then 1 else 0) (h_vols h))
           (sumZ (fun v => if String.eqb (to_dt (v_disk v)) t && v_remote v then 1 else 0) (h_vols h))
           0
           (sumZ (fun e => if String.eqb (to_dt (e_disk e)) t then popcount (e_bits e) else 0) (h_ecs h))
           (rget (h_max h) t).

Definition t_types (tr : truth) : list string :=
  dedup String.eqb
    (flat_map (fun e => map fst (h_max (snd e)) ++ map (fun v => to_dt (v_disk v)) (h_vols (snd e)) ++
                        map (fun x => to_dt (e_disk x)) (h_ecs (snd e))) tr).

(* sum over the servers beneath p (p itself included) *)
Definition true_under (tr : truth) (p : path) (t : string) : counts :=
  fold_right (fun e acc => if is_prefix p (fst e) then cadd (true_counts (snd e) t) acc else acc)
             zero_counts tr.
Definition true_usages (tr : truth) (p : path) : usages :=
  map (fun t => (t, true_under tr p t)) (t_types tr).

(* the id tree of [shape] with the true counts at every level *)
Definition truth_topology (shape : topology) (tr : truth) : topology :=
  {| t_usage := true_usages tr [];
     t_dcs := map (fun dc =>
       {| d_id := d_id dc; d_usage := true_usages tr [d_id dc];
          d_racks := map (fun rk =>
            {| r_id := r_id rk; r_usage := true_usages tr [d_id dc; r_id rk];
               r_nodes := map (fun n =>
                 {| n_id := n_id n; n_usage := true_usages tr [d_id dc; r_id rk; n_id n] |})
                 (r_nodes rk) |}) (d_racks dc) |}) (t_dcs shape) |}.

(* the really free slots of a server for a disk type, as AvailableSpaceFor defines them *)
Definition true_free (tr : truth) (p : path) (t : string) : Z := free_space (true_under tr p t).

(* ---------- the tree has exactly the registered servers ---------- *)
Definition topo_node_paths (t : topology) : list path :=
  flat_map (fun dc => flat_map (fun rk => map (fun n => [d_id dc; r_id rk; n_id n]) (r_nodes rk))
                               (d_racks dc)) (t_dcs t).
Definition truth_node_paths (tr : truth) : list path :=
  map fst (filter (fun e => Nat.eqb (length (fst e)) 3) tr).
Definition mem_path (p : path) (l : list path) : bool := existsb (path_eqb p) l.
Definition same_nodes (t : topology) (tr : truth) : bool :=
  forallb (fun p => mem_path p (truth_node_paths tr)) (topo_node_paths t) &&
  forallb (fun p => mem_path p (topo_node_paths t)) (truth_node_paths tr).

(* ---------- counters equal the truth (activeVolumeCount apart) ---------- *)
Definition counts_eqb4 (a b : counts) : bool :=
  (volumeCount a =? volumeCount b) && (remoteVolumeCount a =? remoteVolumeCount b) &&
  (ecShardCount a =? ecShardCount b) && (maxVolumeCount a =? maxVolumeCount b).
Definition usages_eqb4 (a b : usages) : bool :=
  forallb (fun k => counts_eqb4 (uget a k) (uget b k)) (map fst a ++ map fst b).
Definition node_eqb4 (a b : dnode) : bool := String.eqb (n_id a) (n_id b) && usages_eqb4 (n_usage a) (n_usage b).
Definition rack_eqb4 (a b : rack) : bool :=
  String.eqb (r_id a) (r_id b) && usages_eqb4 (r_usage a) (r_usage b) && list_eqb node_eqb4 (r_nodes a) (r_nodes b).
Definition dc_eqb4 (a b : dcenter) : bool :=
  String.eqb (d_id a) (d_id b) && usages_eqb4 (d_usage a) (d_usage b) && list_eqb rack_eqb4 (d_racks a) (d_racks b).
(* [t] and [T]: the same id tree, and at every level the four counters AvailableSpaceFor reads agree *)
Definition counters_true (t T : topology) : bool :=
  usages_eqb4 (t_usage t) (t_usage T) && list_eqb dc_eqb4 (t_dcs t) (t_dcs T).

(* ---------- histories of a consistent volume server ---------- *)
(* A volume id / EC volume id lives on ONE disk type of a server for the whole history, and a
   full heartbeat lists an id once.  (Outside: the known findings 0 and 1 of property C12 --
   UpdateEcShards / UpdateVolumes key registered entries by id only -- where the counters of
   the unchanged code drift; such histories are kept out of C10's generator.) *)
Definition mention := (path * N * string)%type.    (* server, id, disk (the raw string: the code keys a server's disks by it) *)
Definition op_vol_mentions (o : op) : list mention :=
  match o with
  | FullVol n vs => map (fun v => (n, v_id v, v_disk v)) vs
  | IncVol n news dels => map (fun v => (n, fst v, snd v)) (news ++ dels)
  | Grow n v => [(n, v_id v, v_disk v)]
  | _ => []
  end.
Definition op_ec_mentions (o : op) : list mention :=
  match o with
  | FullEc n es => map (fun e => (n, e_id e, e_disk e)) es
  | IncEc n news dels => map (fun e => (n, e_id e, e_disk e)) (news ++ dels)
  | _ => []
  end.
Fixpoint functional (l : list mention) : bool :=
  match l with
  | [] => true
  | (n, id, d) :: l' =>
      forallb (fun m => let '(n', id', d') := m in
                 negb (path_eqb n n' && N.eqb id id') || String.eqb d d') l' && functional l'
  end.
Definition full_lists_nodup (o : op) : bool :=
  match o with
  | FullVol _ vs => nodupb N.eqb (map v_id vs)
  | FullEc _ es => nodupb N.eqb (map e_id es)
  | _ => true
  end.
Definition hist_wf (ops : list op) : bool :=
  forallb wf_op ops && forallb full_lists_nodup ops &&
  functional (flat_map op_vol_mentions ops) && functional (flat_map op_ec_mentions ops).
