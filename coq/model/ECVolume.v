(* Model of ec.decode followed by the mount of the decoded volume (C06, audit item 1):
     weed/server/volume_grpc_erasure_coding.go   VolumeEcShardsToVolume:
                                                 FindDatFileSize, WriteDatFile, WriteIdxFileFromEcIndex
     weed/storage/erasure_coding/ec_encoder.go   WriteSortedFileFromIdx (readNeedleMap, MemDb.AscendingVisit)
     weed/storage/erasure_coding/ec_decoder.go   FindDatFileSize, WriteIdxFileFromEcIndex
     weed/storage/volume_loading.go, volume_checking.go   Volume.load -> CheckAndFixVolumeDataIntegrity
   Record level: the volume, its .idx log, the MemDb, the loaded files and the integrity
   check are those of C04 (model/Compaction.v, imported read-only).  The byte level
   (WriteDatFile gives back the first datSize bytes of the encoded .dat when datSize has
   as many large block rows as the encoded .dat) is model/EC.v, theorem c06_decode.
   The .ecj journal (deletions after the encoding) is empty here: the volume is decoded
   right after it was encoded.
   Executable definitions only; proofs are in proof/ECVolumeProofs.v. *)
From Coq Require Import List NArith ZArith Bool.
From SW Require Import model.Volume model.Compaction.
Import ListNotations.
Local Open Scope N_scope.

(* readNeedleMap: "if !offset.IsZero() && size != types.TombstoneFileSize { cm.Set } else { cm.Delete }" *)
Definition ecx_dead (e : ientry) : bool := (ie_off e =? 0) || (ie_size e =? -1)%Z.

(* WriteSortedFileFromIdx: the .idx replayed oldest entry first into a MemDb, then
   AscendingVisit writes EVERY entry of the MemDb, ascending by key: the .ecx file *)
Definition ecx_of (idx : idxlog) : memdb :=
  fold_right (fun e db => if ecx_dead e then db_del db (ie_key e) else db_set db e) [] idx.

(* the end of one .ecx entry: offset.ToActualOffset() + needle.GetActualSize(size, version 3) *)
Definition entry_stop (e : ientry) : N := ie_off e + actual_size (Z.to_N (ie_size e)).

(* FindDatFileSize: "if size.IsDeleted() { return nil }; if datSize < entryStopOffset { datSize = entryStopOffset }" *)
Definition find_dat_size (ecx : memdb) : N :=
  fold_left (fun acc e => if size_deleted (ie_size e) then acc
                          else if acc <? entry_stop e then entry_stop e else acc) ecx 0.

Definition ecx_file (s : cvol) : memdb := ecx_of (cidx s).
Definition dat_size (s : cvol) : N := find_dat_size (ecx_file s).

(* WriteDatFile(base, datSize): the first datSize bytes of the encoded .dat (records never
   straddle datSize: it is the end of a record);
   WriteIdxFileFromEcIndex: io.Copy of the .ecx, then one tombstone per .ecj id (none here).
   [f_idx] is newest first, the file is ascending by key: reversed. *)
Definition decoded_files (s : cvol) : files :=
  {| f_recs := filter (fun r => r_off r <? dat_size s) (recs (cv s));
     f_end := dat_size s;
     f_idx := rev (ecx_file s) |}.

(* Volume.load: a .dat shorter than the super block (SuperBlockSize = 8) of a volume that
   was not just created: "volume %s not initialized"; otherwise CheckAndFixVolumeDataIntegrity
   (with its truncation) and doLoading = Compaction.commit *)
Definition mounted (s : cvol) : option vol :=
  if dat_size s <? 8 then None else Some (commit (decoded_files s)).

(* a read on the decoded volume; a volume that is not mounted serves nothing *)
Definition read_mounted (m : option vol) (now id : N) : option (Z * view) :=
  match m with Some v => read_of v now id | None => None end.

(* ---------- the triggers of the three findings (decidable, structural) ---------- *)
(* finding 1: no entry of the .ecx is live *)
Definition no_live_entry (s : cvol) : bool :=
  forallb (fun e => size_deleted (ie_size e)) (ecx_file s).

(* finding 2: the encoder lays the shards out for the real .dat size, WriteDatFile copies
   large blocks "for datFileSize > DataShardsCount*largeBlockSize" starting from the size
   FindDatFileSize returned: both write/read (size-1)/(10*large) large rows (int64 division,
   truncating), and they differ when the live part ends in an earlier large row.
   [L] = large block size. *)
Definition large_rows (L : Z) (size : N) : Z := Z.quot (Z.of_N size - 1) (L * 10).
Definition fewer_large_rows (L : Z) (s : cvol) : bool :=
  (large_rows L (dat_size s) <? large_rows L (dat_end (cv s)))%Z.

(* finding 0: a live .ecx entry points behind the entry of the largest key (the last one) *)
Definition sorted_idx_truncates (s : cvol) : bool :=
  match rev (ecx_file s) with
  | [] => false
  | last :: _ =>
      existsb (fun e => negb (size_deleted (ie_size e)) && (ie_off last <? ie_off e)) (ecx_file s)
  end.

(* priority used by the check: 1, then 2, then 0 *)
Definition decode_trigger (L : Z) (s : cvol) : option N :=
  if no_live_entry s then Some 1
  else if fewer_large_rows L s then Some 2
  else if sorted_idx_truncates s then Some 0
  else None.
