(* Model of the small persistent codecs (C08):
     weed/storage/super_block/replica_placement.go   NewReplicaPlacementFromString (as repaired: lengths
                                                     other than 0 and 3 are errors), FromByte, Byte, String
     weed/storage/super_block/super_block.go         SuperBlock.Bytes, BlockSize
     weed/storage/super_block/super_block_read.go.go ReadSuperBlock (as repaired: the extra bytes are read
                                                     from the file before proto.Unmarshal)
     weed/storage/needle/volume_ttl.go               ReadTTL (as repaired: counts outside 0..255 and
                                                     unknown units are errors), String, ToBytes,
                                                     LoadTTLFromBytes, ToUint32, LoadTTLFromUint32
     weed/storage/needle/volume_id.go                NewVolumeId (as repaired: ParseUint(.., 10, 32)), String
     weed/storage/needle/file_id.go                  FileId.String, formatNeedleIdCookie, ParseFileIdFromString
     weed/storage/needle/needle.go                   ParsePath, ParseNeedleIdCookie
     weed/storage/types                              ParseNeedleId, ParseCookie, OffsetToBytes/BytesToOffset,
                                                     ToOffset/ToActualOffset (4-byte offsets; the *_w
                                                     definitions take the width [osz] = types.OffsetSize,
                                                     4 or 5 with -tags 5BytesOffset)
     weed/storage/needle_map/needle_value.go         ToBytes;  weed/storage/idx/walk.go IdxFileEntry
   Strings are byte lists ([list N], bytes < 256).  The strconv functions (Atoi, ParseUint,
   Itoa/FormatUint), hex.EncodeToString and fmt "%03d" are modelled by their specification.
   Executable definitions only; proofs are in proof/CodecsProofs.v. *)
From Coq Require Import List NArith ZArith Bool.
From SW Require Import model.Needle.
Import ListNotations.
Local Open Scope N_scope.

(* ---------- strconv ---------- *)
Definition is_digit (c : N) : bool := (48 <=? c) && (c <=? 57).

(* value of a string of decimal digits; None if some byte is not a digit *)
Fixpoint dec_val (l : list N) (acc : N) : option N :=
  match l with
  | [] => Some acc
  | c :: r => if is_digit c then dec_val r (acc * 10 + (c - 48)) else None
  end.

(* strconv.ParseUint(s, 10, bits): digits only, non-empty, value < 2^bits *)
Definition parse_uint_dec (bits : N) (s : list N) : option N :=
  match s with
  | [] => None
  | _ => match dec_val s 0 with
         | Some v => if v <? 2 ^ bits then Some v else None
         | None => None
         end
  end.

(* strconv.Atoi on a 64-bit platform: optional sign, digits, int64 range *)
Definition atoi (s : list N) : option Z :=
  match s with
  | [] => None
  | c :: r =>
      let '(neg, digits) := if c =? 43 then (false, r) else if c =? 45 then (true, r) else (false, s) in
      match digits with
      | [] => None
      | _ => match dec_val digits 0 with
             | None => None
             | Some v =>
                 if neg then (if v <=? 9223372036854775808 then Some (- Z.of_N v)%Z else None)
                 else (if v <? 9223372036854775808 then Some (Z.of_N v) else None)
             end
      end
  end.

(* strconv.Itoa / FormatUint(v, 10) for v >= 0 *)
Fixpoint dec_digits (fuel : nat) (n : N) (acc : list N) : list N :=
  match fuel with
  | O => acc
  | S f => let acc' := (48 + n mod 10) :: acc in
           if n <? 10 then acc' else dec_digits f (n / 10) acc'
  end.
Definition itoa (n : N) : list N := dec_digits (S (N.to_nat (N.log2 n))) n [].

(* hexadecimal *)
Definition hex_digit_val (c : N) : option N :=
  if (48 <=? c) && (c <=? 57) then Some (c - 48)
  else if (97 <=? c) && (c <=? 102) then Some (c - 87)
  else if (65 <=? c) && (c <=? 70) then Some (c - 55)
  else None.
Fixpoint hex_val (l : list N) (acc : N) : option N :=
  match l with
  | [] => Some acc
  | c :: r => match hex_digit_val c with Some d => hex_val r (acc * 16 + d) | None => None end
  end.
(* strconv.ParseUint(s, 16, bits) *)
Definition parse_uint_hex (bits : N) (s : list N) : option N :=
  match s with
  | [] => None
  | _ => match hex_val s 0 with
         | Some v => if v <? 2 ^ bits then Some v else None
         | None => None
         end
  end.
Definition hex_char (n : N) : N := if n <? 10 then 48 + n else 87 + n.
(* hex.EncodeToString *)
Definition hex_of_bytes (l : list N) : list N := flat_map (fun b => [hex_char (b / 16); hex_char (b mod 16)]) l.

(* ---------- replica placement ---------- *)
(* (DiffDataCenterCount, DiffRackCount, SameRackCount) *)
Definition rp := (N * N * N)%type.

(* NewReplicaPlacementFromString: for i, c := range t.  A byte >= 128 starts a rune >= 0x80
   (or is an invalid byte, rune 0xFFFD): rejected like every byte outside '0'..'2'. *)
Fixpoint rp_parse (i : N) (s : list N) (r : rp) : option rp :=
  match s with
  | [] => Some r
  | c :: s' =>
      if (48 <=? c) && (c <=? 50) then
        let count := c - 48 in
        let '(dc, rack, same) := r in
        rp_parse (i + 1) s'
          (if i =? 0 then (count, rack, same) else if i =? 1 then (dc, count, same)
           else if i =? 2 then (dc, rack, count) else r)
      else None
  end.
(* as repaired: a string that is neither empty (the default, 000) nor 3 bytes long is an error *)
Definition rp_from_string (s : list N) : option rp :=
  if negb (len s =? 0) && negb (len s =? 3) then None else rp_parse 0 s (0, 0, 0).
(* fmt.Sprintf("%03d", b) for a byte *)
Definition fmt03 (b : N) : list N := [48 + b / 100; 48 + (b / 10) mod 10; 48 + b mod 10].
Definition rp_from_byte (b : N) : option rp := rp_from_string (fmt03 b).
(* Byte(): byte(dc*100 + rack*10 + same) *)
Definition rp_byte (r : rp) : N := let '(dc, rack, same) := r in (dc * 100 + rack * 10 + same) mod 256.
(* String() *)
Definition rp_string (r : rp) : list N :=
  let '(dc, rack, same) := r in [(dc + 48) mod 256; (rack + 48) mod 256; (same + 48) mod 256].
Definition rp_valid (r : rp) : bool := let '(dc, rack, same) := r in (dc <=? 2) && (rack <=? 2) && (same <=? 2).

(* ---------- TTL: (Count, Unit) ---------- *)
Definition ttl := (N * N)%type.
Definition to_stored_byte (c : N) : N :=
  if c =? 109 then 1        (* 'm' Minute *)
  else if c =? 104 then 2   (* 'h' Hour *)
  else if c =? 100 then 3   (* 'd' Day *)
  else if c =? 119 then 4   (* 'w' Week *)
  else if c =? 77 then 5    (* 'M' Month *)
  else if c =? 121 then 6   (* 'y' Year *)
  else 0.

(* the count part and the unit byte ReadTTL works with *)
Definition ttl_split (s : list N) : list N * N :=
  let unit_byte := last s 0 in
  if is_digit unit_byte then (s, 109) else (removelast s, unit_byte).

(* ReadTTL, repaired: error when the count is not in 0..255 or the unit letter is unknown *)
Definition read_ttl (s : list N) : option ttl :=
  match s with
  | [] => Some (0, 0)                       (* EMPTY_TTL *)
  | _ =>
      let '(count_bytes, unit_byte) := ttl_split s in
      match atoi count_bytes with
      | None => None
      | Some count =>
          let unit := to_stored_byte unit_byte in
          if ((count <? 0) || (255 <? count))%Z then None
          else if unit =? 0 then None
          else Some (Z.to_N count, unit)
      end
  end.

Definition unit_char (u : N) : option N :=
  if u =? 1 then Some 109 else if u =? 2 then Some 104 else if u =? 3 then Some 100
  else if u =? 4 then Some 119 else if u =? 5 then Some 77 else if u =? 6 then Some 121 else None.
(* TTL.String() *)
Definition ttl_string (t : ttl) : list N :=
  let '(c, u) := t in
  if c =? 0 then [] else
  match unit_char u with
  | Some ch => itoa c ++ [ch]
  | None => []
  end.
Definition ttl_to_bytes (t : ttl) : list N := [fst t; snd t].
(* LoadTTLFromBytes: (0,0) is EMPTY_TTL = TTL{0,0} *)
Definition load_ttl_bytes (b : list N) : ttl := (nth 0 b 0, nth 1 b 0).
Definition ttl_to_u32 (t : ttl) : N := let '(c, u) := t in if c =? 0 then 0 else c * 256 + u.
Definition load_ttl_u32 (x : N) : ttl := ((x / 256) mod 256, x mod 256).

(* ---------- volume id ---------- *)
(* NewVolumeId, repaired: strconv.ParseUint(vid, 10, 32) *)
Definition new_volume_id (s : list N) : option N := parse_uint_dec 32 s.
Definition vid_string (v : N) : list N := itoa v.

(* ---------- file id ---------- *)
Fixpoint strip_zeros (k : nat) (l : list N) : list N :=
  match k, l with
  | S k', 0 :: r => strip_zeros k' r
  | _, _ => l
  end.
(* formatNeedleIdCookie (working tree, repaired: `nonzero_index < NeedleIdSize-1`): hex of
   key(8) ++ cookie(4) without the leading zero bytes of the key; at most NeedleIdSize-1 = 7
   bytes are dropped, so at least one key byte is always printed *)
Definition format_key_cookie (key cookie : N) : list N :=
  hex_of_bytes (strip_zeros 7 (be_encode 8 key ++ be_encode 4 cookie)).

(* ParseNeedleIdCookie *)
Definition parse_key_cookie (s : list N) : option (N * N) :=
  if len s <=? 8 then None                       (* "KeyHash is too short." *)
  else if 24 <? len s then None                  (* "KeyHash is too long." *)
  else
    let split := len s - 8 in
    match parse_uint_hex 64 (takeN split s) with
    | None => None
    | Some key => match parse_uint_hex 32 (dropN split s) with
                  | None => None
                  | Some cookie => Some (key, cookie)
                  end
    end.

(* strings.Index(s, c) *)
Fixpoint index_of (c : N) (s : list N) (i : N) : option N :=
  match s with
  | [] => None
  | x :: r => if x =? c then Some i else index_of c r (i + 1)
  end.
(* strings.LastIndex(s, c) *)
Fixpoint last_index_of (c : N) (s : list N) (i : N) (found : option N) : option N :=
  match s with
  | [] => found
  | x :: r => last_index_of c r (i + 1) (if x =? c then Some i else found)
  end.

(* ParseFileIdFromString: splitVolumeId, NewVolumeId, ParseNeedleIdCookie *)
Definition parse_file_id (s : list N) : option (N * N * N) :=
  match index_of 44 s 0 with
  | None => None
  | Some ci =>
      if ci =? 0 then None else
      match new_volume_id (takeN ci s) with
      | None => None
      | Some vid => match parse_key_cookie (dropN (ci + 1) s) with
                    | None => None
                    | Some (key, cookie) => Some (vid, key, cookie)
                    end
      end
  end.
(* FileId.String() *)
Definition fid_string (vid key cookie : N) : list N := vid_string vid ++ [44] ++ format_key_cookie key cookie.

(* Needle.ParsePath: key/cookie with an optional "_delta" suffix *)
Definition parse_path (s : list N) : option (N * N) :=
  if len s <=? 8 then None else
  let '(fid, delta) :=
    match last_index_of 95 s 0 None with
    | Some di => if 0 <? di then (takeN di s, dropN (di + 1) s) else (s, [])
    | None => (s, [])
    end in
  match parse_key_cookie fid with
  | None => None
  | Some (key, cookie) =>
      match delta with
      | [] => Some (key, cookie)
      | _ => match parse_uint_dec 64 delta with
             | None => None
             | Some d => Some ((key + d) mod 18446744073709551616, cookie)   (* n.Id += d, uint64 *)
             end
      end
  end.

(* ---------- super block ---------- *)
Record super_block := {
  sb_version : N;
  sb_rp : rp;
  sb_ttl : ttl;
  sb_compaction : N;        (* uint16 *)
  sb_extra : list N         (* proto.Marshal(Extra); [] when Extra is nil (or marshals to nothing) *)
}.

(* SuperBlock.Bytes() *)
Definition sb_bytes (s : super_block) : list N :=
  [sb_version s; rp_byte (sb_rp s); fst (sb_ttl s); snd (sb_ttl s)]
  ++ be_encode 2 (sb_compaction s)
  ++ (match sb_extra s with [] => [0; 0] | _ => be_encode 2 (len (sb_extra s)) end)
  ++ sb_extra s.
(* BlockSize(), after Bytes() has set ExtraSize *)
Definition sb_block_size (s : super_block) : N :=
  if (sb_version s =? 2) || (sb_version s =? 3) then 8 + len (sb_extra s) else 8.

(* ReadSuperBlock, as repaired: when ExtraSize > 0 the extra bytes are read from the file at
   offset 8 (a short read is an error) and handed to proto.Unmarshal.
   [pb] is the protobuf oracle: pb b = Some (proto.Marshal of the message proto.Unmarshal
   decodes from b), None when Unmarshal fails. *)
Definition sb_read (pb : list N -> option (list N)) (file : list N) : option super_block :=
  if len file <? 8 then None else
  match rp_from_byte (nth 1 file 0) with
  | None => None
  | Some r =>
      let extra_size := be_decode (takeN 2 (dropN 6 file)) in
      let mk := fun e => Some {| sb_version := nth 0 file 0; sb_rp := r; sb_ttl := (nth 2 file 0, nth 3 file 0);
                                 sb_compaction := be_decode (takeN 2 (dropN 4 file)); sb_extra := e |} in
      if 0 <? extra_size then
        let extra := takeN extra_size (dropN 8 file) in
        if len extra <? extra_size then None
        else match pb extra with Some e => mk e | None => None end
      else mk []
  end.

(* ---------- index entries (4-byte offsets) ---------- *)
(* ToOffset: uint32(offset / NeedlePaddingSize);  ToActualOffset *)
Definition to_offset (actual : N) : N := (actual / 8) mod 4294967296.
Definition to_actual_offset (off : N) : N := off * 8.
Definition of_int32 (x : Z) : N := Z.to_N (x mod 4294967296)%Z.
Definition to_int32 (x : N) : Z := if x <? 2147483648 then Z.of_N x else (Z.of_N x - 4294967296)%Z.
(* needle_map.ToBytes(key, offset, size) *)
Definition idx_bytes (key off : N) (size : Z) : list N :=
  be_encode 8 key ++ be_encode 4 off ++ be_encode 4 (of_int32 size).
(* idx.IdxFileEntry *)
Definition idx_parse (b : list N) : N * N * Z :=
  (be_decode (takeN 8 b), be_decode (takeN 4 (dropN 8 b)), to_int32 (be_decode (takeN 4 (dropN 12 b)))).

(* ---------- offsets and index entries by offset width ---------- *)
(* [osz] = types.OffsetSize: 4 (offset_4bytes.go) or 5 (offset_5bytes.go, -tags 5BytesOffset).
   An Offset is the number b0 + b1<<8 + b2<<16 + b3<<24 (+ b4<<32). *)
Definition off_limit (osz : N) : N := if osz =? 5 then 1099511627776 else 4294967296.   (* 2^40 / 2^32 *)
(* types.MaxPossibleVolumeSize: 32 GiB, times 256 with 5 bytes; = NeedlePaddingSize x off_limit *)
Definition max_volume_size (osz : N) : N := 8 * off_limit osz.
(* ToOffset: 4 bytes uint32(offset/8); 5 bytes b0..b3 = byte(smaller >> 0..24), b4 = byte(smaller >> 32) *)
Definition to_offset_w (osz actual : N) : N := (actual / 8) mod off_limit osz.
(* OffsetToBytes: bytes[0..3] = b3 b2 b1 b0 (big endian), bytes[4] = b4 *)
Definition off_bytes (osz off : N) : list N :=
  be_encode 4 (off mod 4294967296) ++ (if osz =? 5 then [(off / 4294967296) mod 256] else []).
(* BytesToOffset *)
Definition off_parse (osz : N) (b : list N) : N :=
  be_decode (takeN 4 b) + (if osz =? 5 then nth 4 b 0 * 4294967296 else 0).
(* needle_map.ToBytes(key, offset, size): NeedleMapEntrySize = 8 + osz + 4 bytes *)
Definition idx_bytes_w (osz key off : N) (size : Z) : list N :=
  be_encode 8 key ++ off_bytes osz off ++ be_encode 4 (of_int32 size).
(* idx.IdxFileEntry *)
Definition idx_parse_w (osz : N) (b : list N) : N * N * Z :=
  (be_decode (takeN 8 b), off_parse osz (takeN osz (dropN 8 b)),
   to_int32 (be_decode (takeN 4 (dropN (8 + osz) b)))).

(* ---------- SuperBlock.Bytes with its size guard ---------- *)
(* Bytes(): glog.Fatalf (process exit, modelled as None) when len(extraData) > 256*256-2 *)
Definition sb_extra_max : N := 65534.
Definition sb_bytes_checked (s : super_block) : option (list N) :=
  if sb_extra_max <? len (sb_extra s) then None else Some (sb_bytes s).
(* Note on sb_extra = []: Go writes the same 8 bytes for Extra == nil and for a non-nil Extra that
   marshals to nothing (ExtraSize 0, nothing appended); ReadSuperBlock then returns Extra == nil.
   The model identifies the two: both are sb_extra = []. *)

(* ---------- trigger sets of the known findings ---------- *)
(* (former finding 0, needle key 0 printed without key digits, is repaired in the working tree:
   see format_key_cookie) *)
(* finding 1: LoadTTLFromUint32 looks at the low 16 bits only and has no error path: an integer
   that is not the ToUint32 of any TTL (bits above 16 set, or count byte 0 with a unit) is decoded
   all the same.  Exactly the integers x with ToUint32(LoadTTLFromUint32 x) <> x. *)
Definition trig_ttl_u32 (x : N) : bool := (65536 <=? x) || ((0 <? x) && (x <? 256)).

(* ---------- small helpers for the check ---------- *)
Definition rp_eqb (a b : rp) : bool :=
  let '(a1, a2, a3) := a in let '(b1, b2, b3) := b in (a1 =? b1) && (a2 =? b2) && (a3 =? b3).
Definition ttl_pair_eqb (a b : ttl) : bool := (fst a =? fst b) && (snd a =? snd b).
