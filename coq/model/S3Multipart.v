(* Model of the S3 gateway's object and multipart routes over the filer (C28):
     weed/s3api/filer_multipart.go                   createMultipartUpload, completeMultipartUpload,
                                                     abortMultipartUpload, listObjectParts
     weed/s3api/s3api_object_multipart_handlers.go   PutObjectPartHandler (part file name "%04d.part")
     weed/s3api/s3api_object_handlers.go             PutObject, GetObject, DeleteObject, DeleteMultipleObjects
     weed/s3api/s3api_object_copy_handlers.go        CopyObject, CopyObjectPart
   and of the filer behaviour underneath them:
     weed/server/filer_server_handlers_write_autochunk.go / _upload.go   HTTP PUT: chunking, inlining, saveMetaData
     weed/server/filer_server_handlers_read.go       HTTP GET: inline content or StreamContent
     weed/filer/filer.go                             CreateEntry / ensureParentDirecotryEntry / UpdateEntry
     weed/filer/filer_delete_entry.go                DeleteEntryMetaAndData
     weed/server/filer_grpc_server.go                ListEntries (request limit 0 = -dirListLimit)
   Executable definitions only; proofs are in proof/S3MultipartProofs.v.

   One bucket.  Keys are lists of non-empty name segments ("a/b" = ["a";"b"]); the
   bucket directory is [].  The multipart area .uploads/<id>/ is kept apart from
   the object namespace (assumption: no object key starts with ".uploads").
   Upload ids are the creation indices 0,1,2.. (the harness maps the UUIDs), and a
   client always addresses an upload with the key it was created with.
   CompleteMultipartUpload carries the part numbers of the request body
   (<Part><PartNumber>); the gateway never reads that body, the specification does. *)
From Coq Require Import List NArith ZArith Bool String Ascii Arith.
From SW Require Import model.HttpRange.
Import ListNotations.
Local Open Scope N_scope.
Local Open Scope list_scope.
Local Notation length := List.length.

Definition bytes := list N.
Definition path := list string.

Definition blen (b : bytes) : N := N.of_nat (length b).

(* firstn / skipn with a binary counter (never builds a big unary number) *)
Fixpoint takeN {A} (n : N) (l : list A) : list A :=
  match l with
  | [] => []
  | x :: r => if n =? 0 then [] else x :: takeN (n - 1) r
  end.
Fixpoint dropN {A} (n : N) (l : list A) : list A :=
  match l with
  | [] => []
  | x :: r => if n =? 0 then l else dropN (n - 1) r
  end.
(* b[off, off+len) clipped to b *)
Definition slice (b : bytes) (off len : N) : bytes := takeN len (dropN off b).

(* ---------- configuration ---------- *)
(* (the filer's -dirListLimit no longer matters: completeMultipartUpload lists with an explicit limit) *)
Record cfg := {
  c_inline : N;   (* filer -saveToFilerLimit (FilerOption.SaveToFilerLimit), default 0 *)
  c_chunk : N      (* chunk size of the filer HTTP write path: 1024*1024*maxMB *)
}.

Definition max_part_id : N := 10000.       (* globalMaxPartID *)
Definition max_parts_list : N := 10000.    (* maxPartsList *)

(* ---------- part file names: fmt.Sprintf("%04d.part", partID) ---------- *)
(* decimal digits (ASCII codes), most significant first *)
Fixpoint dec_digits (fuel : nat) (n : N) (acc : list N) : list N :=
  match fuel with
  | O => acc
  | S f => let acc' := (48 + n mod 10) :: acc in
           if n / 10 =? 0 then acc' else dec_digits f (n / 10) acc'
  end.
Definition pad4 (l : list N) : list N := repeat 48 (4 - length l)%nat ++ l.
Definition dot_part : list N := [46; 112; 97; 114; 116].      (* ".part" *)
Definition part_digits (n : N) : list N := pad4 (dec_digits 20 n []).
Definition part_name (n : N) : list N := part_digits n ++ dot_part.

(* byte-wise lexicographic order: the order in which the store lists a directory *)
Fixpoint lex_cmp (a b : list N) : comparison :=
  match a, b with
  | [], [] => Eq
  | [], _ :: _ => Lt
  | _ :: _, [] => Gt
  | x :: a', y :: b' => match N.compare x y with Eq => lex_cmp a' b' | c => c end
  end.
Definition lex_ltb (a b : list N) : bool := match lex_cmp a b with Lt => true | _ => false end.
Definition lex_leb (a b : list N) : bool := match lex_cmp a b with Gt => false | _ => true end.
Definition lex_eqb (a b : list N) : bool := match lex_cmp a b with Eq => true | _ => false end.

(* strings.HasSuffix(name, ".part") *)
Definition has_part_suffix (nm : list N) : bool :=
  let n := length nm in
  Nat.leb 5 n && lex_eqb (skipn (n - 5) nm) dot_part.

(* strconv.Atoi on a string of decimal digits *)
Definition atoi (ds : list N) : N := fold_left (fun acc d => acc * 10 + (d - 48)) ds 0.
Definition part_number_of (nm : list N) : N := atoi (firstn (length nm - 5) nm).

(* ---------- stored files ---------- *)
Record chunk := { k_off : N; k_data : bytes }.          (* FileChunk: Offset and the blob behind its file id (Size = length) *)
Record file := { f_inline : bytes; f_chunks : list chunk }.   (* Entry.Content, Entry.Chunks *)

(* filer.TotalSize *)
Definition chunks_size (cs : list chunk) : N :=
  fold_left (fun acc c => N.max acc (k_off c + blen (k_data c))) cs 0.
(* Entry.Size(): max(TotalSize(chunks), Attr.FileSize); Attr.FileSize is the body length for a
   file written over HTTP and 0 for a completed multipart object *)
Definition file_size (f : file) : N := N.max (blen (f_inline f)) (chunks_size (f_chunks f)).

(* the bytes of a chunk list that is sorted by offset: zeros in the holes
   (StreamContent, proved equal to the chunk overlay in C17) *)
Fixpoint layout (pos : N) (cs : list chunk) : bytes :=
  match cs with
  | [] => []
  | c :: r => repeat 0 (N.to_nat (k_off c - pos)) ++ k_data c ++ layout (k_off c + blen (k_data c)) r
  end.

(* the writeFn of GetOrHeadHandler *)
Definition read_file (f : file) (off len : N) : bytes :=
  if off + len <=? blen (f_inline f) then slice (f_inline f) off len
  else slice (layout 0 (f_chunks f)) off len.
Definition file_bytes (f : file) : bytes := read_file f 0 (file_size f).

(* uploadReaderToChunks: blocks of chunkSize at offsets 0, cs, 2cs, .. *)
Fixpoint split_chunks (fuel : nat) (cs off : N) (b : bytes) : list chunk :=
  match fuel with
  | O => []
  | S f =>
      match b with
      | [] => []
      | _ :: _ => let d := takeN cs b in
                  {| k_off := off; k_data := d |} :: split_chunks f cs (off + blen d) (dropN cs b)
      end
  end.

(* what an HTTP PUT of body b leaves in the entry *)
Definition store_body (c : cfg) (b : bytes) : file :=
  let n := blen b in
  if n =? 0 then {| f_inline := []; f_chunks := [] |}
  else if (n <? c_chunk c) && (n <? c_inline c) then {| f_inline := b; f_chunks := [] |}   (* smallContent *)
  else {| f_inline := []; f_chunks := split_chunks (length b) (c_chunk c) 0 b |}.

(* ---------- the object namespace under the bucket ---------- *)
Inductive node := Dir | File (f : file).
Definition store := list (path * node).

Fixpoint path_eqb (p q : path) : bool :=
  match p, q with
  | [], [] => true
  | a :: p', b :: q' => String.eqb a b && path_eqb p' q'
  | _, _ => false
  end.
(* p is q or an ancestor of q *)
Fixpoint is_prefix (p q : path) : bool :=
  match p, q with
  | [], _ => true
  | a :: p', b :: q' => String.eqb a b && is_prefix p' q'
  | _ :: _, [] => false
  end.
Definition is_proper_prefix (p q : path) : bool := is_prefix p q && negb (path_eqb p q).
Definition parent (p : path) : path := removelast p.
Definition last_seg (p : path) : string := last p EmptyString.
Definition is_child (d q : path) : bool :=
  match q with [] => false | _ :: _ => path_eqb d (parent q) end.

Fixpoint find (s : store) (p : path) : option node :=
  match s with
  | [] => None
  | (q, n) :: s' => if path_eqb q p then Some n else find s' p
  end.
Definition remove (s : store) (p : path) : store := filter (fun kv => negb (path_eqb (fst kv) p)) s.
Definition set_node (s : store) (p : path) (n : node) : store := (p, n) :: remove s p.
(* Filer.FindEntry under the bucket: the bucket directory itself always exists *)
Definition find_node (s : store) (p : path) : option node :=
  match p with [] => Some Dir | _ :: _ => find s p end.
Definition has_children (s : store) (d : path) : bool := existsb (fun kv => is_child d (fst kv)) s.
Definition is_dir (n : node) : bool := match n with Dir => true | File _ => false end.

(* ensureParentDirecotryEntry: the nearest existing ancestor must be a directory,
   the missing ones below it are created *)
Fixpoint ensure_dirs (fuel : nat) (s : store) (d : path) : option store :=
  match fuel with
  | O => Some s
  | S f =>
      match d with
      | [] => Some s
      | _ :: _ =>
          match find s d with
          | Some Dir => Some s
          | Some (File _) => None                            (* "<dir> is a file" *)
          | None => match ensure_dirs f s (parent d) with
                    | None => None
                    | Some s' => Some (set_node s' d Dir)
                    end
          end
      end
  end.

(* Filer.CreateEntry (also behind the gRPC CreateEntry of mkFile) *)
Definition create_entry (s : store) (p : path) (n : node) : store * bool :=
  match find_node s p with
  | None => match ensure_dirs (length p) s (parent p) with
            | None => (s, false)
            | Some s' => (set_node s' p n, true)
            end
  | Some old => if Bool.eqb (is_dir old) (is_dir n) then (set_node s p n, true)
                else (s, false)                              (* "existing .. is a directory / a file" *)
  end.

(* the filer's HTTP PUT (saveMetaData): a directory at the path redirects the file
   to <path>/<base name> *)
Definition http_put (s : store) (p : path) (f : file) : store * bool :=
  let p' := match find_node s p with
            | Some Dir => p ++ [last_seg p]
            | _ => p
            end in
  create_entry s p' (File f).

(* the filer's HTTP DELETE ?recursive=true (DeleteObjectHandler) *)
Definition delete_recursive (s : store) (p : path) : store :=
  match find s p with
  | None => s
  | Some (File _) => remove s p
  | Some Dir => filter (fun kv => negb (is_prefix p (fst kv))) s
  end.

(* gRPC DeleteEntry, not recursive (doDeleteEntry): true = no error (not found counts as success) *)
Definition grpc_delete (s : store) (p : path) : store * bool :=
  match p with
  | [] => (s, true)
  | _ :: _ =>
      match find s p with
      | None => (s, true)
      | Some (File _) => (remove s p, true)
      | Some Dir => if has_children s p then (s, false)       (* MsgFailDelNonEmptyFolder *)
                    else (remove s p, true)
      end
  end.

(* doDeleteEmptyDirectories, followed upwards from one directory: only an existing directory
   is a candidate (s3a.exists(parentDir, dirName, true)); deleting it (not recursive, so only
   when it is empty) makes its parent the next candidate; the bucket directory stops it *)
Fixpoint purge_up (fuel : nat) (s : store) (d : path) : store :=
  match fuel with
  | O => s
  | S f =>
      match d with
      | [] => s
      | _ :: _ =>
          match find s d with
          | Some Dir => if has_children s d then s else purge_up f (remove s d) (parent d)
          | _ => s                                            (* missing, or an object: skipped *)
          end
      end
  end.

(* len of the path as a string: the sort key of doDeleteEmptyDirectories *)
Definition plen (p : path) : nat := fold_left (fun acc g => (acc + 1 + String.length g)%nat) p 0%nat.
Fixpoint insert_by_len (d : path) (l : list path) : list path :=
  match l with
  | [] => [d]
  | x :: r => if Nat.leb (plen x) (plen d) then d :: l else x :: insert_by_len d r
  end.
Definition sort_longest_first (l : list path) : list path := fold_right insert_by_len [] l.

(* DeleteMultipleObjectsHandler *)
Definition batch_delete (s : store) (ks : list path) : store :=
  let '(s1, dirs) :=
    fold_left (fun (acc : store * list path) k =>
                 let '(s0, ds) := acc in
                 let (s', ok) := grpc_delete s0 k in
                 (s', if ok then parent k :: ds else ds)) ks (s, []) in
  fold_left (fun s0 d => purge_up (S (length d)) s0 d) (sort_longest_first dirs) s1.

(* the objects of a store: its file entries with their bytes *)
Definition objects (s : store) : list (path * bytes) :=
  flat_map (fun kv => match snd kv with File f => [(fst kv, file_bytes f)] | Dir => [] end) s.

(* ---------- the multipart area ---------- *)
(* .uploads/<id>/ in listing (name) order *)
Definition updir := list (list N * file).

Fixpoint dir_put (nm : list N) (f : file) (d : updir) : updir :=
  match d with
  | [] => [(nm, f)]
  | (m, g) :: r => match lex_cmp nm m with
                   | Eq => (nm, f) :: r
                   | Lt => (nm, f) :: d
                   | Gt => (m, g) :: dir_put nm f r
                   end
  end.

(* the inner loop of completeMultipartUpload: Offset := offset; offset += Size *)
Fixpoint shift_chunks (off : N) (cs : list chunk) : list chunk * N :=
  match cs with
  | [] => ([], off)
  | c :: r => let (r', o') := shift_chunks (off + blen (k_data c)) r in
              ({| k_off := off; k_data := k_data c |} :: r', o')
  end.
(* the outer loop: the entries in listing order, names ending in ".part" *)
Fixpoint assemble (off : N) (es : updir) : list chunk :=
  match es with
  | [] => []
  | (nm, f) :: r =>
      if has_part_suffix nm
      then let (cs, o') := shift_chunks off (f_chunks f) in cs ++ assemble o' r
      else assemble off r
  end.

(* the entries completeMultipartUpload sees: s3a.list(dir, "", "", false, globalMaxPartID+1) *)
Definition listed (d : updir) : updir := takeN (max_part_id + 1) d.
(* sort.SliceStable(entries, by strconv.Atoi(strings.TrimSuffix(name, ".part"))): stable insertion sort *)
Fixpoint insert_by_number (e : list N * file) (l : updir) : updir :=
  match l with
  | [] => [e]
  | x :: r => if part_number_of (fst x) <? part_number_of (fst e) then x :: insert_by_number e r else e :: l
  end.
Definition sort_by_number (l : updir) : updir := fold_right insert_by_number [] l.
Definition completed_file (d : updir) : file :=
  {| f_inline := []; f_chunks := assemble 0 (sort_by_number (listed d)) |}.

Record upload := {
  u_key : path;               (* the key the client uses with this upload id *)
  u_dir : option updir        (* None: .uploads/<id> does not exist (completed, aborted) *)
}.

Record state := { st_store : store; st_ups : list upload }.
Definition init_state : state := {| st_store := []; st_ups := [] |}.

Fixpoint set_nth {A} (n : nat) (x : A) (l : list A) : list A :=
  match l, n with
  | [], _ => []
  | _ :: r, O => x :: r
  | y :: r, S k => y :: set_nth k x r
  end.
Definition set_updir (st : state) (u : N) (up : upload) (d : option updir) : state :=
  {| st_store := st_store st;
     st_ups := set_nth (N.to_nat u) {| u_key := u_key up; u_dir := d |} (st_ups st) |}.
Definition get_upload (st : state) (u : N) : option upload := nth_error (st_ups st) (N.to_nat u).

(* ---------- operations ---------- *)
Inductive op :=
| Put (k : path) (b : bytes)
| PutS (k : path) (b : bytes) (tampered : bool)   (* streaming-signed PUT (aws-chunked); tampered = a bad chunk signature *)
| Copy (src dst : path)
| Get (k : path) (r : option rspec)
| Del (k : path)
| BatchDel (ks : list path)
| MpCreate (k : path)
| MpPut (u n : N) (b : bytes)
| MpPutS (u n : N) (b : bytes) (tampered : bool)
| MpCopy (u n : N) (src : path) (r : option (N * N))   (* x-amz-copy-source-range: bytes=a-b *)
| MpComplete (u : N) (ns : list N)   (* ns: the <PartNumber>s of the request body, in request order *)
| MpAbort (u : N)
| MpList (u : N).

Inductive res :=
| ROk                          (* 2xx without a body of interest *)
| RData (b : bytes)            (* GET 200 / 206 *)
| RParts (l : list (N * N))    (* ListParts: (part number, size) in response order *)
| RNotFound                    (* 404 NoSuchKey *)
| RNoUpload                    (* 404 NoSuchUpload *)
| RRange                       (* 416 *)
| RErr.                        (* any other 4xx / 5xx *)

(* what ends up in an object when the filer's directory listing page is copied into it *)
Definition dir_marker : bytes := [256].

Definition get_obj (s : store) (k : path) (r : option rspec) : res :=
  match find_node s k with
  | Some (File f) =>
      let size := file_size f in
      match r with
      | None => RData (read_file f 0 size)
      | Some sp => match parse_spec sp (Z.of_N size) with
                   | None => RRange
                   | Some (o, l) => RData (read_file f (Z.to_N o) (Z.to_N l))
                   end
      end
  | _ => RNotFound               (* missing, or a directory (its listing has no Content-Length) *)
  end.

(* util.DownloadFile(srcUrl) of CopyObjectHandler: the response status is not looked at *)
Definition fetch_any (s : store) (k : path) : bytes :=
  match find_node s k with
  | Some (File f) => file_bytes f
  | Some Dir => dir_marker
  | None => []
  end.
(* util.ReadUrlAsReaderCloser(srcUrl, range) of CopyObjectPartHandler: status >= 400 is an error *)
Definition fetch_range (s : store) (k : path) (r : option (N * N)) : option bytes :=
  match find_node s k with
  | Some (File f) =>
      match r with
      | None => Some (file_bytes f)
      | Some (a, b) => match parse_spec (RClosed a b) (Z.of_N (file_size f)) with
                       | None => None
                       | Some (o, l) => Some (read_file f (Z.to_N o) (Z.to_N l))
                       end
      end
  | Some Dir => Some dir_marker
  | None => None
  end.

(* ---------- known-finding triggers raised while running (see props/C28.v) ---------- *)
Definition in_range (lo hi n : N) : bool := (lo <=? n) && (n <=? hi).
(* 0: a part stored inline (saveToFilerLimit > 0) *)
Definition is_inline (f : file) : bool := negb (blen (f_inline f) =? 0).
Definition trig_inline (d : updir) : bool := existsb (fun e => is_inline (snd e)) d.
(* 1: single DELETE of a key under which objects exist *)
Definition has_file_below (s : store) (k : path) : bool :=
  existsb (fun kv => is_proper_prefix k (fst kv) && negb (is_dir (snd kv))) s.
(* 2: a write to a key that is a directory, or below a key that is a file; a copy whose source key
   is a directory *)
Definition file_ancestor (s : store) (k : path) : bool :=
  existsb (fun kv => is_proper_prefix (fst kv) k && negb (is_dir (snd kv))) s.
Definition is_dir_at (s : store) (k : path) : bool :=
  match find_node s k with Some Dir => true | _ => false end.
Definition trig_write (s : store) (k : path) : bool := is_dir_at s k || file_ancestor s k.
(* 4: ListParts of an upload that holds part 10000 together with a part in 1001..9999
   (the response follows the file names: "10000.part" sorts before "1001.part") *)
Definition trig_order (nums : list N) : bool :=
  existsb (N.eqb 10000) nums && existsb (in_range 1001 9999) nums.

(* 3: a copy-source range that starts exactly at the end of the source: the filer's range parser
   answers 206 with zero bytes (C32, finding 2) and an empty part is stored *)
Definition range_at_end (s : store) (k : path) (r : option (N * N)) : bool :=
  match find_node s k, r with
  | Some (File f), Some (a, _) => a =? file_size f
  | _, _ => false
  end.

(* (5 was: part numbers 0 and 10001..100000 accepted; repaired, the number 5 is not reused.)
   The S3 range of part numbers, used by the specification: *)
Definition valid_part (n : N) : bool := in_range 1 10000 n.
(* PutObjectPartHandler / CopyObjectPartHandler: partID < 1 || partID > globalMaxPartID -> ErrInvalidMaxParts *)
Definition part_refused (n : N) : bool := (n <? 1) || (max_part_id <? n).
(* 6: CompleteMultipartUpload whose part list is not exactly the uploaded part numbers in ascending
   order (a subset, a permutation, a number that was never uploaded, duplicates): the body is not read *)
Fixpoint nums_eqb (a b : list N) : bool :=
  match a, b with
  | [], [] => true
  | x :: a', y :: b' => (x =? y) && nums_eqb a' b'
  | _, _ => false
  end.

Definition flag (k : N) (b : bool) : list N := if b then [k] else [].

(* ---------- the step function ---------- *)
Definition put_obj (c : cfg) (st : state) (k : path) (b : bytes) : state * res * list N :=
  let s := st_store st in
  let (s', ok) := http_put s k (store_body c b) in
  ({| st_store := s'; st_ups := st_ups st |}, if ok then ROk else RErr, flag 2 (trig_write s k)).

Definition put_part (c : cfg) (st : state) (u n : N) (b : bytes) : state * res * list N :=
  match get_upload st u with
  | None => (st, RNoUpload, [])
  | Some up =>
      match u_dir up with
      | None => (st, RNoUpload, [])
      | Some d => if part_refused n then (st, RErr, [])
                  else (set_updir st u up (Some (dir_put (part_name n) (store_body c b) d)), ROk, [])
      end
  end.

(* 7: CopyObjectHandler / CopyObjectPartHandler paste the RAW key into the filer URL
   (fmt.Sprintf("http://%s%s/%s%s", filer, BucketsPath, bucket, object)) where every other route
   escapes it (urlPathEscape) or hands the literal key to the filer over gRPC: net/url then cuts the
   path at the first '?' or '#' (query / fragment) and percent-decodes what is left; an invalid
   escape makes http.NewRequest fail.  raw_path k = the key the filer sees (None: no URL). *)
Definition hex_val (c : ascii) : option N :=
  let n := N_of_ascii c in
  if (48 <=? n) && (n <=? 57) then Some (n - 48)
  else if (65 <=? n) && (n <=? 70) then Some (n - 55)
  else if (97 <=? n) && (n <=? 102) then Some (n - 87)
  else None.
Definition is_cut (c : ascii) : bool := Ascii.eqb c "?"%char || Ascii.eqb c "#"%char.
Definition is_meta (c : ascii) : bool := Ascii.eqb c "%"%char || is_cut c.
Fixpoint seg_cut (g : string) : string * bool :=
  match g with
  | EmptyString => (EmptyString, false)
  | String a r => if is_cut a then (EmptyString, true)
                  else let (t, b) := seg_cut r in (String a t, b)
  end.
Fixpoint seg_unescape (g : string) : option string :=
  match g with
  | EmptyString => Some EmptyString
  | String a r =>
      if Ascii.eqb a "%"%char then
        match r with
        | String h (String l r') =>
            match hex_val h, hex_val l, seg_unescape r' with
            | Some x, Some y, Some t => Some (String (ascii_of_N (x * 16 + y)) t)
            | _, _, _ => None
            end
        | _ => None
        end
      else match seg_unescape r with Some t => Some (String a t) | None => None end
  end.
Fixpoint seg_meta (g : string) : bool :=
  match g with
  | EmptyString => false
  | String a r => is_meta a || seg_meta r
  end.
Definition raw_meta (k : path) : bool := existsb seg_meta k.
Fixpoint raw_cut (k : path) : path :=
  match k with
  | [] => []
  | g :: r => let (t, b) := seg_cut g in if b then [t] else t :: raw_cut r
  end.
Fixpoint raw_unescape (k : path) : option path :=
  match k with
  | [] => Some []
  | g :: r => match seg_unescape g, raw_unescape r with
              | Some a, Some b => Some (a :: b)
              | _, _ => None
              end
  end.
Definition raw_path (k : path) : option path := raw_unescape (raw_cut k).

(* CopyObject after the same-key test, on the paths the filer sees (None: the URL does not parse:
   util.DownloadFile / putToFiler fail before anything is sent) *)
Definition copy_obj (c : cfg) (st : state) (osrc odst : option path) : state * res * list N :=
  let s := st_store st in
  match osrc, odst with
  | Some src, Some dst =>
      match find_node s src with
      | None => (st, RErr, [])                            (* the source GET answers 404: ErrInvalidCopySource *)
      | Some _ =>
          let (s', ok) := http_put s dst (store_body c (fetch_any s src)) in
          ({| st_store := s'; st_ups := st_ups st |}, if ok then ROk else RErr,
           flag 2 (trig_write s dst) ++ flag 2 (is_dir_at s src))
      end
  | _, _ => (st, RErr, [])
  end.

(* UploadPartCopy, the source as the filer sees it; raw: the source key has a URL meta character
   (trigger 7 is raised only when the source URL is really used: after the upload and the part
   number have been accepted) *)
Definition mp_copy (c : cfg) (st : state) (u n : N) (raw : bool) (osrc : option path) (r : option (N * N))
  : state * res * list N :=
  let s := st_store st in
  match get_upload st u with
  | None => (st, RNoUpload, [])
  | Some up =>
      match u_dir up with
      | None => (st, RNoUpload, [])                        (* the upload must exist, as for PutObjectPart *)
      | Some d =>
          if part_refused n then (st, RErr, [])
          else match osrc with
               | None => (st, RErr, flag 7 raw)           (* http.NewRequest fails: ErrInvalidCopySource *)
               | Some src =>
                   match fetch_range s src r with
                   | None => (st, RErr, flag 7 raw)       (* ErrInvalidCopySource *)
                   | Some data =>
                       (set_updir st u up (Some (dir_put (part_name n) (store_body c data) d)), ROk,
                        flag 7 raw ++ flag 2 (is_dir_at s src) ++ flag 3 (range_at_end s src r))
                   end
               end
      end
  end.

Definition step (c : cfg) (st : state) (o : op) : state * res * list N :=
  let s := st_store st in
  match o with
  | Put k b => put_obj c st k b
  | PutS k b tampered => if tampered then (st, RErr, []) else put_obj c st k b
  | Copy src dst =>
      if path_eqb src dst then (st, RErr, [])                 (* ErrInvalidCopyDest: compares the literal keys *)
      else if raw_meta src || raw_meta dst then
        (* finding 7: srcUrl / dstUrl are built from the raw keys *)
        let '(st', r, fl) := copy_obj c st (raw_path src) (raw_path dst) in (st', r, 7 :: fl)
      else copy_obj c st (Some src) (Some dst)
  | Get k r => (st, get_obj s k r, [])
  | Del k => ({| st_store := delete_recursive s k; st_ups := st_ups st |}, ROk, flag 1 (has_file_below s k))
  | BatchDel ks => ({| st_store := batch_delete s ks; st_ups := st_ups st |}, ROk, [])
  | MpCreate k => ({| st_store := s; st_ups := st_ups st ++ [{| u_key := k; u_dir := Some [] |}] |}, ROk, [])
  | MpPut u n b => put_part c st u n b
  | MpPutS u n b tampered =>
      match get_upload st u with
      | None => (st, RNoUpload, [])
      | Some up => match u_dir up with
                   | None => (st, RNoUpload, [])
                   | Some _ => if part_refused n then (st, RErr, [])
                               else if tampered then (st, RErr, []) else put_part c st u n b
                   end
      end
  | MpCopy u n src r =>
      if raw_meta src then mp_copy c st u n true (raw_path src) r   (* finding 7 *)
      else mp_copy c st u n false (Some src) r
  | MpComplete u ns =>
      match get_upload st u with
      | None => (st, RNoUpload, [])
      | Some up =>
          match u_dir up with
          | None => (st, RNoUpload, [])
          | Some d =>
              match listed d with
              | [] => (st, RNoUpload, [])                      (* len(entries) == 0 *)
              | _ :: _ =>
                  let fl := flag 0 (trig_inline d) ++ flag 2 (trig_write s (u_key up)) ++
                            flag 6 (negb (nums_eqb ns (map (fun e => part_number_of (fst e))
                                                           (sort_by_number (listed d))))) in
                  let (s', ok) := create_entry s (u_key up) (File (completed_file d)) in
                  if ok then (set_updir {| st_store := s'; st_ups := st_ups st |} u up None, ROk, fl)
                  else (st, RErr, fl)
              end
          end
      end
  | MpAbort u =>
      match get_upload st u with
      | None => (st, ROk, [])
      | Some up => (set_updir st u up None, ROk, [])
      end
  | MpList u =>
      match get_upload st u with
      | None => (st, RParts [], [])
      | Some up =>
          let d := match u_dir up with Some d => d | None => [] end in
          (* s3a.list(dir, "", "0000.part", false, maxParts) *)
          let es := takeN max_parts_list (filter (fun e => lex_ltb (part_name 0) (fst e)) d) in
          (st, RParts (map (fun e => (part_number_of (fst e), file_size (snd e)))
                           (filter (fun e => has_part_suffix (fst e)) es)),
           flag 4 (trig_order (map (fun e => part_number_of (fst e)) d)))
      end
  end.

Fixpoint run (c : cfg) (st : state) (ops : list op) : list res * list N * state :=
  match ops with
  | [] => ([], [], st)
  | o :: r => let '(st', x, fl) := step c st o in
              let '(xs, fls, fin) := run c st' r in
              (x :: xs, fl ++ fls, fin)
  end.

(* pending uploads: (id, [(part number, size)] in listing order) *)
Definition pending (st : state) : list (N * list (N * N)) :=
  let fix go (i : N) (l : list upload) :=
    match l with
    | [] => []
    | up :: r => match u_dir up with
                 | Some d => (i, map (fun e => (part_number_of (fst e), file_size (snd e))) d) :: go (i + 1) r
                 | None => go (i + 1) r
                 end
    end in
  go 0 (st_ups st).

(* ---------- the specification: a flat key -> bytes map (the property's oracle) ---------- *)
Fixpoint sfind {V} (m : list (path * V)) (k : path) : option V :=
  match m with
  | [] => None
  | (q, v) :: r => if path_eqb q k then Some v else sfind r k
  end.
Definition sremove {V} (m : list (path * V)) (k : path) : list (path * V) :=
  filter (fun kv => negb (path_eqb (fst kv) k)) m.
Definition sput {V} (m : list (path * V)) (k : path) (v : V) : list (path * V) := (k, v) :: sremove m k.

(* parts in ascending part-number order *)
Fixpoint parts_put (n : N) (b : bytes) (l : list (N * bytes)) : list (N * bytes) :=
  match l with
  | [] => [(n, b)]
  | (m, x) :: r => if n =? m then (n, b) :: r
                   else if n <? m then (n, b) :: l
                   else (m, x) :: parts_put n b r
  end.

Record sup := { su_key : path; su_parts : option (list (N * bytes)) }.
Record sstate := { ss_objs : list (path * bytes); ss_ups : list sup }.
Definition sinit : sstate := {| ss_objs := []; ss_ups := [] |}.

Inductive expect :=
| ENone                        (* nothing to judge *)
| EOk                          (* the write must be acknowledged (2xx) *)
| EFail                        (* the request must be refused (no 2xx) *)
| EData (b : bytes)
| ENotFound
| EParts (l : list (N * N)).

(* the parts a CompleteMultipartUpload body selects *)
Fixpoint pget (n : N) (l : list (N * bytes)) : option bytes :=
  match l with
  | [] => None
  | (m, x) :: r => if m =? n then Some x else pget n r
  end.
Fixpoint pick (ns : list N) (ps : list (N * bytes)) : option (list bytes) :=
  match ns with
  | [] => Some []
  | n :: r => match pget n ps, pick r ps with
              | Some b, Some bs => Some (b :: bs)
              | _, _ => None                                  (* InvalidPart *)
              end
  end.
Fixpoint strict_asc (l : list N) : bool :=
  match l with
  | [] => true
  | a :: r => match r with [] => true | b :: _ => (a <? b) && strict_asc r end   (* else InvalidPartOrder *)
  end.

Definition s_set_parts (ss : sstate) (u : N) (up : sup) (p : option (list (N * bytes))) : sstate :=
  {| ss_objs := ss_objs ss;
     ss_ups := set_nth (N.to_nat u) {| su_key := su_key up; su_parts := p |} (ss_ups ss) |}.

Definition s_put_part (ss : sstate) (u n : N) (b : bytes) : sstate * expect :=
  match nth_error (ss_ups ss) (N.to_nat u) with
  | None => (ss, EFail)                                       (* NoSuchUpload *)
  | Some up => match su_parts up with
               | None => (ss, EFail)
               | Some ps => if valid_part n then (s_set_parts ss u up (Some (parts_put n b ps)), EOk)
                            else (ss, EFail)                  (* InvalidArgument *)
               end
  end.

Definition sstep (ss : sstate) (o : op) : sstate * expect :=
  let objs := ss_objs ss in
  match o with
  | Put k b => ({| ss_objs := sput objs k b; ss_ups := ss_ups ss |}, EOk)
  | PutS k b tampered =>
      if tampered then (ss, EFail) else ({| ss_objs := sput objs k b; ss_ups := ss_ups ss |}, EOk)
  | Copy src dst =>
      if path_eqb src dst then (ss, ENone)
      else match sfind objs src with
           | Some b => ({| ss_objs := sput objs dst b; ss_ups := ss_ups ss |}, EOk)
           | None => (ss, EFail)
           end
  | Get k r =>
      match sfind objs k with
      | None => (ss, ENotFound)
      | Some d =>
          match r with
          | None => (ss, EData d)
          | Some sp => match ref_spec sp (Z.of_N (blen d)) with
                       | Some (o, l) => (ss, EData (slice d (Z.to_N o) (Z.to_N l)))
                       | None => (ss, ENone)                  (* unsatisfiable range: C32's business *)
                       end
          end
      end
  | Del k => ({| ss_objs := sremove objs k; ss_ups := ss_ups ss |}, EOk)
  | BatchDel ks => ({| ss_objs := fold_left sremove ks objs; ss_ups := ss_ups ss |}, EOk)
  | MpCreate k => ({| ss_objs := objs; ss_ups := ss_ups ss ++ [{| su_key := k; su_parts := Some [] |}] |}, EOk)
  | MpPut u n b => s_put_part ss u n b
  | MpPutS u n b tampered => if tampered then (ss, EFail) else s_put_part ss u n b
  | MpCopy u n src r =>
      match sfind objs src with
      | None => (ss, EFail)
      | Some d =>
          match r with
          | None => s_put_part ss u n d
          | Some (a, b) => match ref_spec (RClosed a b) (Z.of_N (blen d)) with
                           | Some (o, l) => s_put_part ss u n (slice d (Z.to_N o) (Z.to_N l))
                           | None => (ss, EFail)                  (* InvalidRange *)
                           end
          end
      end
  | MpComplete u ns =>
      match nth_error (ss_ups ss) (N.to_nat u) with
      | None => (ss, EFail)
      | Some up =>
          match su_parts up with
          | None => (ss, EFail)
          | Some [] => (ss, EFail)
          | Some ps =>
              (* the object is the concatenation of the parts the request lists, which must be
                 uploaded parts in ascending order; parts not listed are discarded *)
              match ns, strict_asc ns, pick ns ps with
              | _ :: _, true, Some bs =>
                  (s_set_parts {| ss_objs := sput objs (su_key up) (List.concat bs); ss_ups := ss_ups ss |}
                               u up None, EOk)
              | _, _, _ => (ss, EFail)
              end
          end
      end
  | MpAbort u =>
      match nth_error (ss_ups ss) (N.to_nat u) with
      | None => (ss, ENone)
      | Some up => (s_set_parts ss u up None, match su_parts up with Some _ => EOk | None => ENone end)
      end
  | MpList u =>
      match nth_error (ss_ups ss) (N.to_nat u) with
      | None => (ss, ENone)
      | Some up => match su_parts up with
                   | None => (ss, ENone)
                   | Some ps => (ss, EParts (map (fun p => (fst p, blen (snd p))) ps))
                   end
      end
  end.

Fixpoint srun (ss : sstate) (ops : list op) : list expect * sstate :=
  match ops with
  | [] => ([], ss)
  | o :: r => let (ss', e) := sstep ss o in
              let (es, fin) := srun ss' r in
              (e :: es, fin)
  end.

(* ---------- comparison helpers ---------- *)
Fixpoint bytes_eqb (a b : bytes) : bool :=
  match a, b with
  | [], [] => true
  | x :: a', y :: b' => (x =? y) && bytes_eqb a' b'
  | _, _ => false
  end.
Fixpoint pairs_eqb (a b : list (N * N)) : bool :=
  match a, b with
  | [], [] => true
  | (x1, x2) :: a', (y1, y2) :: b' => (x1 =? y1) && (x2 =? y2) && pairs_eqb a' b'
  | _, _ => false
  end.
Definition res_eqb (a b : res) : bool :=
  match a, b with
  | ROk, ROk | RNotFound, RNotFound | RNoUpload, RNoUpload | RRange, RRange | RErr, RErr => true
  | RData x, RData y => bytes_eqb x y
  | RParts x, RParts y => pairs_eqb x y
  | _, _ => false
  end.
(* does an observed result satisfy what the specification expects? *)
Definition meets (e : expect) (r : res) : bool :=
  match e, r with
  | ENone, _ => true
  | EOk, ROk => true
  | EFail, RErr | EFail, RNoUpload | EFail, RNotFound | EFail, RRange => true
  | EData d, RData x => bytes_eqb d x
  | ENotFound, RNotFound => true
  | EParts l, RParts x => pairs_eqb l x
  | _, _ => false
  end.
Fixpoint all2 {A B} (f : A -> B -> bool) (l1 : list A) (l2 : list B) : bool :=
  match l1, l2 with
  | [], [] => true
  | x :: l1', y :: l2' => f x y && all2 f l1' l2'
  | _, _ => false
  end.
(* two key -> bytes tables hold the same bindings (keys are unique on both sides) *)
Definition objs_subset (a b : list (path * bytes)) : bool :=
  forallb (fun kv => match sfind b (fst kv) with Some x => bytes_eqb (snd kv) x | None => false end) a.
Definition objs_same (a b : list (path * bytes)) : bool :=
  Nat.eqb (length a) (length b) && objs_subset a b && objs_subset b a.
