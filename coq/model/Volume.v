(* Record-level model of one SeaweedFS volume (C01):
     weed/storage/volume_write.go   doWriteRequest, isFileUnchanged, doDeleteRequest
     weed/storage/volume_read.go    readNeedle
     weed/storage/store.go          WriteVolumeNeedle / DeleteVolumeNeedle / ReadVolumeNeedle guards
     weed/storage/needle/needle_read_write.go   prepareWriteBuffer (Size), readNeedleDataVersion2 (what comes back)
     weed/storage/needle/needle.go  CreateNeedleFromRequest
     weed/server/volume_server_handlers_{read,write}.go   GetOrHeadHandler / PostHandler / DeleteHandler
   The .dat file is a list of appended records (not bytes; the byte codec is C02's),
   the needle map is a finite map id -> (offset, size) (the CompactMap is C05's).
   Executable definitions only; proofs are in proof/VolumeProofs.v.
   Everything mirrors the Go code as it is, including the empty-payload behaviour. *)
From Coq Require Import List NArith ZArith Bool.
Import ListNotations.
Local Open Scope N_scope.

Definition bytes := list N.
Definition blen (b : bytes) : N := N.of_nat (length b).

Fixpoint bytes_eqb (a b : bytes) : bool :=
  match a, b with
  | [], [] => true
  | x :: a', y :: b' => (x =? y) && bytes_eqb a' b'
  | _, _ => false
  end.

Fixpoint is_prefix (p b : bytes) : bool :=
  match p, b with
  | [], _ => true
  | x :: p', y :: b' => (x =? y) && is_prefix p' b'
  | _ :: _, [] => false
  end.

(* ---------- needle.Needle (the fields a caller fills in) ---------- *)
Record needle := {
  n_id : N; n_cookie : N;
  n_data : bytes; n_flags : N;
  n_name : bytes; n_mime : bytes; n_pairs : bytes;
  n_lastmod : N;
  n_ttl : N * N            (* (Count, Unit); (0,0) stands for nil / EMPTY_TTL *)
}.

(* flag bits, needle_read_write.go *)
Definition is_compressed (f : N) := N.testbit f 0.   (* FlagIsCompressed        = 0x01 *)
Definition has_name (f : N) := N.testbit f 1.        (* FlagHasName             = 0x02 *)
Definition has_mime (f : N) := N.testbit f 2.        (* FlagHasMime             = 0x04 *)
Definition has_lastmod (f : N) := N.testbit f 3.     (* FlagHasLastModifiedDate = 0x08 *)
Definition has_ttl (f : N) := N.testbit f 4.         (* FlagHasTtl              = 0x10 *)
Definition has_pairs (f : N) := N.testbit f 5.       (* FlagHasPairs            = 0x20 *)
Definition is_chunk_manifest (f : N) := N.testbit f 7. (* FlagIsChunkManifest   = 0x80 *)

(* prepareWriteBuffer: NameSize = min(len(Name), 255) *)
Definition stored_name (n : needle) : bytes := firstn 255 (n_name n).

(* prepareWriteBuffer, Version2/3: the Size header field.  DataSize = 0 => Size = 0. *)
Definition needle_size (n : needle) : N :=
  let f := n_flags n in
  if 0 <? blen (n_data n) then
    4 + blen (n_data n) + 1
    + (if has_name f then 1 + blen (stored_name n) else 0)
    + (if has_mime f then 1 + blen (n_mime n) else 0)
    + (if has_lastmod f then 5 else 0)              (* LastModifiedBytesLength *)
    + (if has_ttl f then 2 else 0)                  (* TtlBytesLength *)
    + (if has_pairs f then 2 + blen (n_pairs n) else 0)
  else 0.

(* GetActualSize, Version3: header 16 + size + checksum 4 + timestamp 8 + padding 1..8 *)
Definition actual_size (size : N) : N :=
  let raw := 16 + size + 4 + 8 in
  raw + (8 - raw mod 8).

(* ---------- what a reader gets back (ReadBytes / readNeedleDataVersion2) ---------- *)
Record view := {
  v_cookie : N; v_size : N;
  v_data : bytes; v_flags : N;
  v_name : bytes; v_mime : bytes; v_pairs : bytes;
  v_lastmod : N; v_ttl : N * N
}.

(* a needle that only has Id and Cookie set (what the read API is called with) *)
Definition blank_view (cookie : N) : view :=
  {| v_cookie := cookie; v_size := 0; v_data := []; v_flags := 0; v_name := []; v_mime := [];
     v_pairs := []; v_lastmod := 0; v_ttl := (0, 0) |}.

(* parse of a record whose Size > 0: fields are present only when their flag is set;
   last-modified is stored in 5 bytes *)
Definition view_of (n : needle) : view :=
  let f := n_flags n in
  {| v_cookie := n_cookie n; v_size := needle_size n;
     v_data := n_data n; v_flags := f;
     v_name := if has_name f then stored_name n else [];
     v_mime := if has_mime f then n_mime n else [];
     v_pairs := if has_pairs f then n_pairs n else [];
     v_lastmod := if has_lastmod f then n_lastmod n mod 1099511627776 (* 2^40 *) else 0;
     v_ttl := if has_ttl f then n_ttl n else (0, 0) |}.

(* TTL.Minutes() *)
Definition ttl_minutes (t : N * N) : N :=
  let '(c, u) := t in
  match u with
  | 1 => c               (* Minute *)
  | 2 => c * 60          (* Hour *)
  | 3 => c * 60 * 24     (* Day *)
  | 4 => c * 60 * 24 * 7 (* Week *)
  | 5 => c * 60 * 24 * 30  (* Month *)
  | 6 => c * 60 * 24 * 365 (* Year *)
  | _ => 0
  end.

(* readNeedle's TTL test on the needle just read; [at] = AppendAtNs of the record, [now] in ns *)
Definition view_expired (v : view) (at_ns now : N) : bool :=
  has_ttl (v_flags v) && negb (ttl_minutes (v_ttl v) =? 0) && has_lastmod (v_flags v)
  && negb (now <? at_ns + ttl_minutes (v_ttl v) * 60000000000).

(* ---------- the volume ---------- *)
Record rec := { r_off : N; r_size : N; r_at : N; r_n : needle }.

Record nval := { nv_off : N; nv_size : Z }.
Definition nmap := list (N * nval).      (* newest binding first *)

Fixpoint nm_get (m : nmap) (k : N) : option nval :=
  match m with
  | [] => None
  | (k', v) :: m' => if k' =? k then Some v else nm_get m' k
  end.
(* CompactMap.Set *)
Definition nm_set (m : nmap) (k : N) (v : nval) : nmap := (k, v) :: m.
(* Size.IsValid / Size.IsDeleted, TombstoneFileSize = -1 *)
Definition size_valid (s : Z) : bool := (0 <? s)%Z && negb (s =? -1)%Z.
Definition size_deleted (s : Z) : bool := (s <? 0)%Z || (s =? -1)%Z.
(* CompactMap.Delete: negate the size when it is valid; the offset stays *)
Definition nm_delete (m : nmap) (k : N) : nmap :=
  match nm_get m k with
  | Some v => if size_valid (nv_size v) then (k, {| nv_off := nv_off v; nv_size := (- nv_size v)%Z |}) :: m else m
  | None => m
  end.

Record vol := {
  recs : list rec;             (* the .dat records, newest first; each carries its offset *)
  nm : nmap;
  dat_end : N;                 (* size of the .dat file *)
  no_write_or_delete : bool;
  no_write_can_delete : bool
}.

Definition init : vol :=
  {| recs := []; nm := []; dat_end := 8 (* SuperBlockSize *);
     no_write_or_delete := false; no_write_can_delete := false |}.

Fixpoint find_rec (l : list rec) (off : N) : option rec :=
  match l with
  | [] => None
  | r :: l' => if r_off r =? off then Some r else find_rec l' off
  end.

Inductive err := ENone | ENotFound | EDeleted | ECookie | EReadOnly | EOther.

Definition err_eqb (a b : err) : bool :=
  match a, b with
  | ENone, ENone | ENotFound, ENotFound | EDeleted, EDeleted | ECookie, ECookie
  | EReadOnly, EReadOnly | EOther, EOther => true
  | _, _ => false
  end.

(* Needle.ReadData(offset, size): the record at [off] must carry header Size = size *)
Definition read_data (st : vol) (off : N) (size : Z) : option rec :=
  match find_rec (recs st) off with
  | Some r => if (Z.of_N (r_size r) =? size)%Z then Some r else None
  | None => None
  end.

(* the view of a stored record: a Size = 0 record has no body at all *)
Definition view_of_rec (r : rec) : view :=
  if 0 <? r_size r then view_of (r_n r) else blank_view (n_cookie (r_n r)).

(* isFileUnchanged (volume TTL is empty): same cookie, same bytes (the request carries
   Checksum = CRC(Data), so the checksum comparison adds nothing) *)
Definition is_file_unchanged (st : vol) (n : needle) : bool :=
  match nm_get (nm st) (n_id n) with
  | Some nv =>
      if negb (nv_off nv =? 0) && size_valid (nv_size nv) then
        match read_data st (nv_off nv) (nv_size nv) with
        | Some r => (v_cookie (view_of_rec r) =? n_cookie n) && bytes_eqb (v_data (view_of_rec r)) (n_data n)
        | None => false
        end
      else false
  | None => false
  end.

(* Needle.Append + bookkeeping *)
Definition append (st : vol) (n : needle) (at_ns : N) : vol * N * N :=
  let off := dat_end st in
  let size := needle_size n in
  ({| recs := {| r_off := off; r_size := size; r_at := at_ns; r_n := n |} :: recs st;
      nm := nm st; dat_end := off + actual_size size;
      no_write_or_delete := no_write_or_delete st; no_write_can_delete := no_write_can_delete st |},
   off, size).

Definition with_nm (st : vol) (m : nmap) : vol :=
  {| recs := recs st; nm := m; dat_end := dat_end st;
     no_write_or_delete := no_write_or_delete st; no_write_can_delete := no_write_can_delete st |}.

(* result of a write: error class, isUnchanged, n.Size after the call *)
Record wres := { w_err : err; w_unchanged : bool; w_size : N }.

(* doWriteRequest *)
Definition do_write (st : vol) (n : needle) (at_ns : N) : vol * wres :=
  if is_file_unchanged st n then (st, {| w_err := ENone; w_unchanged := true; w_size := 0 |})
  else
    let g := nm_get (nm st) (n_id n) in
    let cookie_check :=
      match g with
      | Some nv =>
          match find_rec (recs st) (nv_off nv) with     (* ReadNeedleHeader at the mapped offset *)
          | Some r => if n_cookie (r_n r) =? n_cookie n then ENone else ECookie
          | None => EOther
          end
      | None => ENone
      end in
    match cookie_check with
    | ENone =>
        let '(st1, off, size) := append st n at_ns in
        let newer := match g with Some nv => nv_off nv <? off | None => true end in
        let st2 := if newer then with_nm st1 (nm_set (nm st1) (n_id n) {| nv_off := off; nv_size := Z.of_N size |}) else st1 in
        (st2, {| w_err := ENone; w_unchanged := false; w_size := size |})
    | e => (st, {| w_err := e; w_unchanged := false; w_size := 0 |})
    end.

(* Volume.IsReadOnly (the disk-space flag of the location is not modelled) *)
Definition is_read_only (st : vol) : bool := no_write_or_delete st || no_write_can_delete st.

(* Store.WriteVolumeNeedle *)
Definition store_write (st : vol) (n : needle) (at_ns : N) : vol * wres :=
  if is_read_only st then (st, {| w_err := EReadOnly; w_unchanged := false; w_size := 0 |})
  else do_write st n at_ns.

Definition tombstone (id cookie : N) : needle :=
  {| n_id := id; n_cookie := cookie; n_data := []; n_flags := 0; n_name := []; n_mime := [];
     n_pairs := []; n_lastmod := 0; n_ttl := (0, 0) |}.

(* Store.DeleteVolumeNeedle / doDeleteRequest: the appended record has Data = nil, so Size = 0 *)
Definition store_delete (st : vol) (id cookie : N) (at_ns : N) : vol * err * Z :=
  if no_write_or_delete st then (st, EReadOnly, 0%Z)
  else
    match nm_get (nm st) id with
    | Some nv =>
        if size_valid (nv_size nv) then
          let '(st1, _, _) := append st (tombstone id cookie) at_ns in
          (with_nm st1 (nm_delete (nm st1) id), ENone, nv_size nv)
        else (st, ENone, 0%Z)
    | None => (st, ENone, 0%Z)
    end.

(* Store.ReadVolumeNeedle / readNeedle; the needle passed in has Id and Cookie only.
   Result: error class, returned count, and the needle afterwards (untouched = blank on the
   not-found / deleted / read-error paths, filled on the expired path). *)
Definition store_read (st : vol) (id cookie : N) (read_deleted : bool) (now : N) : err * Z * view :=
  match nm_get (nm st) id with
  | None => (ENotFound, (-1)%Z, blank_view cookie)
  | Some nv =>
      if nv_off nv =? 0 then (ENotFound, (-1)%Z, blank_view cookie)
      else
        let go (read_size : Z) :=
          if (read_size =? 0)%Z then (ENone, 0%Z, blank_view cookie)      (* the size == 0 short-cut *)
          else
            match read_data st (nv_off nv) read_size with
            | None => (EOther, 0%Z, blank_view cookie)
            | Some r =>
                let v := view_of_rec r in
                (* the needle passed in has been filled by ReadData before the TTL test *)
                if view_expired v (r_at r) now then (ENotFound, (-1)%Z, v)
                else (ENone, Z.of_N (blen (v_data v)), v)
            end in
        if size_deleted (nv_size nv) then
          if read_deleted && negb (nv_size nv =? -1)%Z then go (- nv_size nv)%Z
          else (EDeleted, (-1)%Z, blank_view cookie)
        else go (nv_size nv)
  end.

(* ---------- HTTP layer ---------- *)
(* what GetOrHeadHandler serves (request without Range/resize/If-* headers, with
   Accept-Encoding: gzip, fid without file name or extension) *)
Record hview := { h_data : bytes; h_name : bytes; h_mime : bytes; h_pairs : bytes; h_lastmod : N; h_gzip : bool }.
Definition blank_hview : hview :=
  {| h_data := []; h_name := []; h_mime := []; h_pairs := []; h_lastmod := 0; h_gzip := false |}.

(* "application/octet-stream" *)
Definition octet_stream : bytes :=
  [97;112;112;108;105;99;97;116;105;111;110;47;111;99;116;101;116;45;115;116;114;101;97;109].

(* util.IsGzippedContent *)
Definition is_gzip_content (d : bytes) : bool :=
  match d with a :: b :: _ => (a =? 31) && (b =? 139) | _ => false end.

(* strings.ToLower on ASCII *)
Definition lower_ascii (b : bytes) : bytes :=
  map (fun c => if (65 <=? c) && (c <=? 90) then c + 32 else c) b.

(* filepath.Ext: the suffix starting at the last dot of the last path element *)
Definition is_dot_or_slash (c : N) : bool := (c =? 46) || (c =? 47).
Fixpoint ext_of (l : bytes) : bytes :=
  match l with
  | [] => []
  | c :: r => if existsb is_dot_or_slash r then ext_of r else if c =? 46 then l else []
  end.

(* mime.TypeByExtension on the extensions the harness uses (Go's built-in table; the lookup
   falls back to the lower-cased extension); every other extension of the harness universe is
   unknown to the mime package.  The harness asserts this table against the real function. *)
Definition ext_css : bytes := [46; 99; 115; 115].     (* ".css" *)
Definition ext_pdf : bytes := [46; 112; 100; 102].    (* ".pdf" *)
Definition mime_css : bytes :=                        (* "text/css; charset=utf-8" *)
  [116;101;120;116;47;99;115;115;59;32;99;104;97;114;115;101;116;61;117;116;102;45;56].
Definition mime_pdf : bytes :=                        (* "application/pdf" *)
  [97;112;112;108;105;99;97;116;105;111;110;47;112;100;102].
Definition mime_by_ext (e : bytes) : bytes :=
  let le := lower_ascii e in
  if bytes_eqb le ext_css then mime_css else if bytes_eqb le ext_pdf then mime_pdf else [].

(* writeResponseContent: the stored mime unless it is empty or application/octet-stream*,
   else the type of the file name's extension *)
Definition served_mime (filename mime : bytes) : bytes :=
  let m := if is_prefix octet_stream mime then [] else mime in
  if blen m =? 0 then (let e := ext_of filename in if blen e =? 0 then [] else mime_by_ext e) else m.

Definition hproj (v : view) : hview :=
  {| h_data := v_data v;
     h_name := v_name v;
     h_mime := served_mime (v_name v) (v_mime v);
     h_pairs := if has_pairs (v_flags v) then v_pairs v else [];
     h_lastmod := v_lastmod v;
     h_gzip := is_compressed (v_flags v) && is_gzip_content (v_data v) |}.

(* GetOrHeadHandler: read, then compare the cookie of the needle with the request's *)
Definition http_get (st : vol) (id cookie : N) (read_deleted : bool) (now : N) : N * hview :=
  let '(e, count, v) := store_read st id cookie read_deleted now in
  if negb (err_eqb e ENone) || (count <? 0)%Z then (404, blank_hview)
  else if negb (v_cookie v =? cookie) then (404, blank_hview)
  else (200, hproj v).

(* DeleteHandler: read first, compare cookies, then delete; answers n.Size of the needle read *)
Definition http_delete (st : vol) (id cookie : N) (now : N) : vol * N * N :=
  let '(e, _, v) := store_read st id cookie false now in
  if negb (err_eqb e ENone) then (st, 404, 0)
  else if negb (v_cookie v =? cookie) then (st, 400, 0)
  else
    let '(st', e', _) := store_delete st id (v_cookie v) now in
    match e' with
    | ENone => (st', 202, v_size v)
    | _ => (st', 500, 0)
    end.

(* a multipart POST as the harness sends it: one file part (file name without dot or slash),
   optional part Content-Type, Content-Encoding: gzip, Seaweed-* headers, ?ts=&ttl= *)
Record upload := {
  u_id : N; u_cookie : N; u_data : bytes; u_name : bytes; u_ctype : bytes;
  u_pairs : bytes;      (* json.Marshal of the pair map; [] when there is no Seaweed-* header *)
  u_ts : N; u_ttl : N * N; u_gzip : bool }.

(* parseMultipart: ext = ToLower(FileName[LastIndex(FileName, "."):]) when that index is > 0 *)
Fixpoint from_last_dot (l : bytes) : bytes :=
  match l with
  | [] => []
  | c :: r => if existsb (fun x => x =? 46) r then from_last_dot r else if c =? 46 then l else []
  end.
Definition upload_ext (name : bytes) : bytes :=
  match name with
  | [] => []
  | _ :: r => lower_ascii (from_last_dot r)     (* a dot at index 0 does not count *)
  end.

(* parseMultipart + CreateNeedleFromRequest; the part's Content-Type is kept only when it is not
   what the file name's extension already says *)
Definition needle_of_upload (u : upload) : needle :=
  let mtype := let e := upload_ext (u_name u) in if blen e =? 0 then [] else mime_by_ext e in
  let mime := if (blen (u_ctype u) =? 0) || bytes_eqb (u_ctype u) octet_stream || bytes_eqb mtype (u_ctype u)
              then [] else u_ctype u in
  let f := (if blen (u_name u) <? 256 then 2 else 0)
         + (if blen mime <? 256 then 4 else 0)
         + (if negb (blen (u_pairs u) =? 0) && (blen (u_pairs u) <? 65536) then 32 else 0)
         + (if u_gzip u then 1 else 0)
         + 8
         + (if (fst (u_ttl u) =? 0) && (snd (u_ttl u) =? 0) then 0 else 16) in
  {| n_id := u_id u; n_cookie := u_cookie u; n_data := u_data u; n_flags := f;
     n_name := if blen (u_name u) <? 256 then u_name u else [];
     n_mime := if blen mime <? 256 then mime else [];
     n_pairs := if negb (blen (u_pairs u) =? 0) && (blen (u_pairs u) <? 65536) then u_pairs u else [];
     n_lastmod := u_ts u; n_ttl := u_ttl u |}.

(* PostHandler's status *)
Definition post_status (w : wres) : N :=
  match w_err w with
  | ENone => if w_unchanged w then 204 else 201
  | _ => 500
  end.

(* ---------- histories ---------- *)
Inductive op :=
| Write (n : needle)                        (* Store.WriteVolumeNeedle *)
| Post (u : upload)                         (* PostHandler *)
| Get (id cookie : N) (read_deleted : bool) (* GetOrHeadHandler *)
| Del (id cookie : N)                       (* DeleteHandler *)
| RawRead (id cookie : N) (read_deleted : bool)   (* Store.ReadVolumeNeedle *)
| RawDelete (id cookie : N)                 (* Store.DeleteVolumeNeedle *)
| SetNoWriteOrDelete (b : bool)             (* Store.MarkVolumeReadonly / MarkVolumeWritable *)
| SetNoWriteCanDelete (b : bool).           (* what loading a remote-tier volume sets *)

(* an event is an operation together with the clock reading (ns) the code takes during it *)
Definition event := (N * op)%type.

Inductive out :=
| OWrite (e : err) (unchanged : bool) (size : N)
| OPost (status : N) (e : err)
| OGet (status : N) (h : hview)
| ODel (status : N) (size : N)
| ORead (e : err) (count : Z) (v : view)
| ODelete (e : err) (size : Z)
| OUnit.

Definition step (st : vol) (ev : event) : vol * out :=
  let '(t, o) := ev in
  match o with
  | Write n => let '(st', w) := store_write st n t in (st', OWrite (w_err w) (w_unchanged w) (w_size w))
  | Post u => let '(st', w) := store_write st (needle_of_upload u) t in (st', OPost (post_status w) (w_err w))
  | Get id c rd => let '(s, h) := http_get st id c rd t in (st, OGet s h)
  | Del id c => let '(st', s, z) := http_delete st id c t in (st', ODel s z)
  | RawRead id c rd => let '(e, cnt, v) := store_read st id c rd t in (st, ORead e cnt v)
  | RawDelete id c => let '(st', e, z) := store_delete st id c t in (st', ODelete e z)
  | SetNoWriteOrDelete b =>
      ({| recs := recs st; nm := nm st; dat_end := dat_end st;
          no_write_or_delete := b; no_write_can_delete := no_write_can_delete st |}, OUnit)
  | SetNoWriteCanDelete b =>
      ({| recs := recs st; nm := nm st; dat_end := dat_end st;
          no_write_or_delete := no_write_or_delete st; no_write_can_delete := b |}, OUnit)
  end.

Fixpoint run (st : vol) (h : list event) : list out :=
  match h with
  | [] => []
  | ev :: h' => let '(st', o) := step st ev in o :: run st' h'
  end.

Definition state_after (st : vol) (h : list event) : vol := fold_left (fun s ev => fst (step s ev)) h st.

(* ---------- the specification: a map id -> (cookie, last written needle) ---------- *)
Record sentry := {
  s_cookie : N;
  s_live : option (needle * N)   (* the last successfully written needle and its write time; None once deleted *)
}.
Record spec := { s_map : list (N * sentry); s_nwod : bool; s_nwcd : bool }.
Definition spec_init : spec := {| s_map := []; s_nwod := false; s_nwcd := false |}.

Fixpoint s_get (m : list (N * sentry)) (k : N) : option sentry :=
  match m with
  | [] => None
  | (k', v) :: m' => if k' =? k then Some v else s_get m' k
  end.
Definition with_map (sp : spec) (m : list (N * sentry)) : spec :=
  {| s_map := m; s_nwod := s_nwod sp; s_nwcd := s_nwcd sp |}.

(* what a read of needle [n] is expected to give: every field whose flag is set, in full *)
Definition exp_view (n : needle) : view :=
  let f := n_flags n in
  {| v_cookie := n_cookie n; v_size := needle_size n;
     v_data := n_data n; v_flags := f;
     v_name := if has_name f then n_name n else [];
     v_mime := if has_mime f then n_mime n else [];
     v_pairs := if has_pairs f then n_pairs n else [];
     v_lastmod := if has_lastmod f then n_lastmod n else 0;
     v_ttl := if has_ttl f then n_ttl n else (0, 0) |}.

(* a live, unexpired entry *)
Definition s_lookup (sp : spec) (id now : N) : option (N * needle) :=
  match s_get (s_map sp) id with
  | Some e =>
      match s_live e with
      | Some (n, at_ns) => if view_expired (exp_view n) at_ns now then None else Some (s_cookie e, n)
      | None => None
      end
  | None => None
  end.

(* expected outputs; fields the property does not speak about are left open *)
Inductive eout :=
| EWrite (ok : bool)                  (* success / rejection *)
| EGet (status : N) (h : hview)
| EDel (status : N)
| ERead (found : option (Z * view))   (* Some: no error, count, needle; None: not found or deleted *)
| EDelete (ok : bool)
| EAny.

Definition spec_write (sp : spec) (n : needle) (t : N) : spec * eout :=
  let ro := s_nwod sp || s_nwcd sp in
  let cookie_ok := match s_get (s_map sp) (n_id n) with Some e => s_cookie e =? n_cookie n | None => true end in
  if negb ro && cookie_ok
  then (with_map sp ((n_id n, {| s_cookie := n_cookie n; s_live := Some (n, t) |}) :: s_map sp), EWrite true)
  else (sp, EWrite false).

Definition spec_kill (sp : spec) (id : N) : spec :=
  match s_get (s_map sp) id with
  | Some e => with_map sp ((id, {| s_cookie := s_cookie e; s_live := None |}) :: s_map sp)
  | None => sp
  end.

Definition spec_step (sp : spec) (ev : event) : spec * eout :=
  let '(t, o) := ev in
  match o with
  | Write n => spec_write sp n t
  | Post u => spec_write sp (needle_of_upload u) t
  | Get id c rd =>
      if rd then (sp, EAny)
      else match s_lookup sp id t with
           | Some (c', n) => if c' =? c then (sp, EGet 200 (hproj (exp_view n))) else (sp, EGet 404 blank_hview)
           | None => (sp, EGet 404 blank_hview)
           end
  | RawRead id c rd =>
      if rd then (sp, EAny)
      else match s_lookup sp id t with
           | Some (_, n) => (sp, ERead (Some (Z.of_N (blen (n_data n)), exp_view n)))
           | None => (sp, ERead None)
           end
  | Del id c =>
      match s_lookup sp id t with
      | Some (c', _) =>
          if negb (c' =? c) then (sp, EDel 400)
          else if s_nwod sp then (sp, EDel 500)
          else (spec_kill sp id, EDel 202)
      | None => (sp, EDel 404)
      end
  | RawDelete id c =>
      if s_nwod sp then (sp, EDelete false) else (spec_kill sp id, EDelete true)
  | SetNoWriteOrDelete b => ({| s_map := s_map sp; s_nwod := b; s_nwcd := s_nwcd sp |}, EAny)
  | SetNoWriteCanDelete b => ({| s_map := s_map sp; s_nwod := s_nwod sp; s_nwcd := b |}, EAny)
  end.

Fixpoint spec_run (sp : spec) (h : list event) : list eout :=
  match h with
  | [] => []
  | ev :: h' => let '(sp', o) := spec_step sp ev in o :: spec_run sp' h'
  end.

Definition spec_after (sp : spec) (h : list event) : spec := fold_left (fun s ev => fst (spec_step s ev)) h sp.

(* ---------- comparing ---------- *)
Definition pair_eqb (a b : N * N) : bool := (fst a =? fst b) && (snd a =? snd b).

Definition view_eqb (a b : view) : bool :=
  (v_cookie a =? v_cookie b) && (v_size a =? v_size b) && bytes_eqb (v_data a) (v_data b) &&
  (v_flags a =? v_flags b) && bytes_eqb (v_name a) (v_name b) && bytes_eqb (v_mime a) (v_mime b) &&
  bytes_eqb (v_pairs a) (v_pairs b) && (v_lastmod a =? v_lastmod b) && pair_eqb (v_ttl a) (v_ttl b).

Definition hview_eqb (a b : hview) : bool :=
  bytes_eqb (h_data a) (h_data b) && bytes_eqb (h_name a) (h_name b) && bytes_eqb (h_mime a) (h_mime b) &&
  bytes_eqb (h_pairs a) (h_pairs b) && (h_lastmod a =? h_lastmod b) && Bool.eqb (h_gzip a) (h_gzip b).

Definition out_eqb (a b : out) : bool :=
  match a, b with
  | OWrite e u s, OWrite e' u' s' => err_eqb e e' && Bool.eqb u u' && (s =? s')
  | OPost s e, OPost s' e' => (s =? s') && err_eqb e e'
  | OGet s h, OGet s' h' => (s =? s') && hview_eqb h h'
  | ODel s z, ODel s' z' => (s =? s') && (z =? z')
  | ORead e c v, ORead e' c' v' => err_eqb e e' && (c =? c')%Z && view_eqb v v'
  | ODelete e z, ODelete e' z' => err_eqb e e' && (z =? z')%Z
  | OUnit, OUnit => true
  | _, _ => false
  end.

(* does an observed output satisfy the expected one? *)
Definition match_out (e : eout) (o : out) : bool :=
  match e, o with
  | EWrite ok, OWrite er _ _ => Bool.eqb (err_eqb er ENone) ok
  | EWrite ok, OPost s _ => Bool.eqb (s <? 300) ok
  | EGet s h, OGet s' h' => (s =? s') && hview_eqb h h'
  | EDel s, ODel s' _ => s =? s'
  | ERead (Some (c, v)), ORead er c' v' => err_eqb er ENone && (c =? c')%Z && view_eqb v v'
  | ERead None, ORead er _ _ => err_eqb er ENotFound || err_eqb er EDeleted
  | EDelete ok, ODelete er _ => Bool.eqb (err_eqb er ENone) ok
  | EAny, _ => true
  | _, _ => false
  end.

Fixpoint all2 {A B} (f : A -> B -> bool) (l1 : list A) (l2 : list B) : bool :=
  match l1, l2 with
  | [], [] => true
  | x :: l1', y :: l2' => f x y && all2 f l1' l2'
  | _, _ => false
  end.

(* ---------- input well-formedness and the triggers of the known findings ---------- *)
(* a needle the v2/v3 record format can represent (the limits CreateNeedleFromRequest enforces) *)
(* prepareWriteBuffer stores MimeSize = uint8(len(Mime)) and the caller's PairsSize (uint16) but
   writes all the bytes: a longer mime / pairs field written under its flag gives a record whose
   Size header disagrees with its bytes.  Such needles are outside the model. *)
Definition mime_fits (n : needle) : bool := negb (has_mime (n_flags n)) || (blen (n_mime n) <? 256).
Definition pairs_fit (n : needle) : bool := negb (has_pairs (n_flags n)) || (blen (n_pairs n) <? 65536).

Definition wf_needle (n : needle) : bool :=
  (n_flags n <? 128) &&                       (* one byte, not a chunk manifest *)
  (blen (n_name n) <? 256) && (n_lastmod n <? 1099511627776) &&
  mime_fits n && pairs_fit n.

Definition op_needle (o : op) : option needle :=
  match o with Write n => Some n | Post u => Some (needle_of_upload u) | _ => None end.

Definition wf_event (ev : event) : bool :=
  match op_needle (snd ev) with Some n => wf_needle n | None => true end.
Definition wf_history (h : list event) : bool := forallb wf_event h.

(* finding 0: a write with an empty payload *)
Definition empty_payload (h : list event) : bool :=
  existsb (fun ev => match op_needle (snd ev) with Some n => blen (n_data n) =? 0 | None => false end) h.

(* a needle whose TTL can expire *)
Definition expirable (n : needle) : bool :=
  let v := exp_view n in has_ttl (v_flags v) && negb (ttl_minutes (v_ttl v) =? 0) && has_lastmod (v_flags v).

(* finding 1: a write that repeats the id, cookie and bytes of an earlier write but not its
   metadata (or that should restart a TTL) *)
Definition conflicts (a b : needle) : bool :=
  (n_id a =? n_id b) && (n_cookie a =? n_cookie b) && bytes_eqb (n_data a) (n_data b) &&
  (negb (view_eqb (exp_view a) (exp_view b)) || expirable a).

Fixpoint meta_dup (seen : list needle) (h : list event) : bool :=
  match h with
  | [] => false
  | ev :: h' =>
      match op_needle (snd ev) with
      | Some n => existsb (conflicts n) seen || meta_dup (n :: seen) h'
      | None => meta_dup seen h'
      end
  end.

(* ====================================================================================== *)
(* Additions for C01 (second round).  Nothing above depends on them.                       *)
(* ====================================================================================== *)

(* ---------- the literals used above under the names of their Go sources ---------- *)
Definition vc_header_size : N := 16.        (* types.NeedleHeaderSize = CookieSize + NeedleIdSize + SizeSize *)
Definition vc_checksum_size : N := 4.       (* needle.NeedleChecksumSize *)
Definition vc_timestamp_size : N := 8.      (* types.TimestampSize *)
Definition vc_padding_size : N := 8.        (* types.NeedlePaddingSize *)
Definition vc_super_block_size : N := 8.    (* super_block.SuperBlockSize *)
Definition vc_lastmod_bytes : N := 5.       (* needle.LastModifiedBytesLength *)
Definition vc_ttl_bytes : N := 2.           (* needle.TtlBytesLength *)
Definition vc_max_name : nat := 255.        (* math.MaxUint8 *)
Definition vc_flag_compressed : N := 1.     (* needle.FlagIsCompressed *)
Definition vc_flag_name : N := 2.           (* needle.FlagHasName *)
Definition vc_flag_mime : N := 4.           (* needle.FlagHasMime *)
Definition vc_flag_lastmod : N := 8.        (* needle.FlagHasLastModifiedDate *)
Definition vc_flag_ttl : N := 16.           (* needle.FlagHasTtl *)
Definition vc_flag_pairs : N := 32.         (* needle.FlagHasPairs *)
Definition vc_flag_manifest : N := 128.     (* needle.FlagIsChunkManifest *)
Definition vc_tombstone : Z := (-1)%Z.      (* types.TombstoneFileSize *)

(* ---------- further entry points ---------- *)
(* a GET/HEAD request: Accept-Encoding: gzip or none, HEAD, a file name in the URL path
   (/vid/fid/name; [] for the /vid,fid /vid,fid.ext /vid/fid forms) *)
Record gopt := { g_gzip : bool; g_head : bool; g_name : bytes }.
Definition gopt_default : gopt := {| g_gzip := true; g_head := false; g_name := [] |}.

Inductive xop :=
| XBase (o : op)
| XGet (id cookie : N) (rd : bool) (g : gopt)          (* GetOrHeadHandler, any request form *)
| XBatch (fids : list (N * N)) (skip : bool).          (* gRPC BatchDelete(FileIds, SkipCookieCheck) *)
Definition xevent := (N * xop)%type.

Inductive xout :=
| XO (o : out)
| XOGet (status : N) (h : hview) (clen : N)            (* clen = Content-Length header (0 when absent) *)
| XOBatch (rs : list (N * N)).                         (* (Status, Size) of every DeleteResult *)

Definition drop_body (h : hview) : hview :=
  {| h_data := []; h_name := h_name h; h_mime := h_mime h; h_pairs := h_pairs h;
     h_lastmod := h_lastmod h; h_gzip := h_gzip h |}.

Fixpoint memN (k : N) (l : list N) : bool :=
  match l with [] => false | x :: r => (x =? k) || memN k r end.

Fixpoint pairs_eqb (a b : list (N * N)) : bool :=
  match a, b with
  | [], [] => true
  | x :: a', y :: b' => pair_eqb x y && pairs_eqb a' b'
  | _, _ => false
  end.

Section Gunzip.
(* util.DecompressData applied to bytes that start with the gzip magic (compress/gzip is a black box) *)
Variable gun : bytes -> bytes.

(* GetOrHeadHandler: a compressed needle is served as stored to a client that accepts gzip when
   its bytes are a gzip stream, and decompressed otherwise (bytes that are not a gzip stream
   come back unchanged from DecompressData) *)
Definition served_data (g : gopt) (v : view) : bytes * bool :=
  if is_compressed (v_flags v) then
    if g_gzip g && is_gzip_content (v_data v) then (v_data v, true)
    else ((if is_gzip_content (v_data v) then gun (v_data v) else v_data v), false)
  else (v_data v, false).

Definition hproj_x (g : gopt) (v : view) : hview :=
  let filename := if blen (g_name g) =? 0 then v_name v else g_name g in
  {| h_data := fst (served_data g v);
     h_name := filename;
     h_mime := served_mime filename (v_mime v);
     h_pairs := if has_pairs (v_flags v) then v_pairs v else [];
     h_lastmod := v_lastmod v;
     h_gzip := snd (served_data g v) |}.

Definition http_get_x (st : vol) (id cookie : N) (rd : bool) (g : gopt) (now : N) : N * hview * N :=
  let '(e, count, v) := store_read st id cookie rd now in
  if negb (err_eqb e ENone) || (count <? 0)%Z then (404, blank_hview, 0)
  else if negb (v_cookie v =? cookie) then (404, blank_hview, 0)
  else let h := hproj_x g v in (200, (if g_head g then drop_body h else h), blen (h_data h)).

(* BatchDelete, one file id: the result and whether the loop goes on (a cookie mismatch
   ends the whole batch: `break`) *)
Definition batch_one (st : vol) (id cookie : N) (skip : bool) (now : N) : vol * (N * N) * bool :=
  let del (c : N) :=
    let '(st', e, z) := store_delete st id c now in
    (st', (match e with ENone => (202, Z.to_N z) | _ => (500, 0) end), true) in
  if skip then del 0                                        (* n.Cookie stays 0 *)
  else
    let '(e, _, v) := store_read st id cookie false now in
    if negb (err_eqb e ENone) then (st, (404, 0), true)
    else if negb (v_cookie v =? cookie) then (st, (400, 0), false)
    else if is_chunk_manifest (v_flags v) then (st, (406, 0), true)
    else del (v_cookie v).

Fixpoint batch_delete (st : vol) (fids : list (N * N)) (skip : bool) (now : N) : vol * list (N * N) :=
  match fids with
  | [] => (st, [])
  | (id, c) :: rest =>
      let '(st', r, cont) := batch_one st id c skip now in
      if cont then let '(st'', rs) := batch_delete st' rest skip now in (st'', r :: rs)
      else (st', [r])
  end.

Definition xstep (st : vol) (ev : xevent) : vol * xout :=
  let '(t, o) := ev in
  match o with
  | XBase b => let '(st', r) := step st (t, b) in (st', XO r)
  | XGet id c rd g => let '(s, h, l) := http_get_x st id c rd g t in (st, XOGet s h l)
  | XBatch fids skip => let '(st', rs) := batch_delete st fids skip t in (st', XOBatch rs)
  end.

Fixpoint xrun (st : vol) (h : list xevent) : list xout :=
  match h with
  | [] => []
  | ev :: h' => let '(st', o) := xstep st ev in o :: xrun st' h'
  end.

Definition xstate_after (st : vol) (h : list xevent) : vol := fold_left (fun s ev => fst (xstep s ev)) h st.

(* ---------- the specification with every answer field ---------- *)
Inductive xeout :=
| XEWrite (ok unchanged : bool) (size : N)      (* success, "unchanged" acknowledgement (204), n.Size *)
| XEGet (status : N) (h : hview) (clen : option N)
| XEDel (status : N) (size : N)
| XERead (found : option (Z * view))
| XEDelete (ok : bool) (size : Z)
| XEBatch (rs : list (N * N))
| XEAny.

(* the last written needle of an id, expired or not *)
Definition s_stored (sp : spec) (id : N) : option (N * needle) :=
  match s_get (s_map sp) id with
  | Some e => match s_live e with Some (n, _) => Some (s_cookie e, n) | None => None end
  | None => None
  end.

(* a write that repeats the stored cookie and bytes is acknowledged as "unchanged" *)
Definition spec_unchanged (sp : spec) (n : needle) : bool :=
  match s_stored sp (n_id n) with
  | Some (c, n0) => (c =? n_cookie n) && bytes_eqb (n_data n0) (n_data n)
  | None => false
  end.

Definition xexpect_write (sp : spec) (n : needle) (t : N) : xeout :=
  match snd (spec_write sp n t) with
  | EWrite true => let u := spec_unchanged sp n in XEWrite true u (if u then 0 else needle_size n)
  | _ => XEWrite false false 0
  end.

Definition stored_size (sp : spec) (id : N) : N :=
  match s_stored sp id with Some (_, n) => needle_size n | None => 0 end.

Definition xexpect (sp : spec) (t : N) (o : op) : xeout :=
  match o with
  | Write n => xexpect_write sp n t
  | Post u => xexpect_write sp (needle_of_upload u) t
  | Get id c rd =>
      if rd then XEAny
      else match s_lookup sp id t with
           | Some (c', n) => if c' =? c then XEGet 200 (hproj (exp_view n)) None else XEGet 404 blank_hview None
           | None => XEGet 404 blank_hview None
           end
  | RawRead id c rd =>
      if rd then XEAny
      else match s_lookup sp id t with
           | Some (_, n) => XERead (Some (Z.of_N (blen (n_data n)), exp_view n))
           | None => XERead None
           end
  | Del id c =>
      match s_lookup sp id t with
      | Some (c', n) =>
          if negb (c' =? c) then XEDel 400 0
          else if s_nwod sp then XEDel 500 0
          else XEDel 202 (needle_size n)
      | None => XEDel 404 0
      end
  | RawDelete id c => if s_nwod sp then XEDelete false 0%Z else XEDelete true (Z.of_N (stored_size sp id))
  | SetNoWriteOrDelete _ | SetNoWriteCanDelete _ => XEAny
  end.

(* BatchDelete on the specification: the same loop *)
Definition spec_batch_one (sp : spec) (id cookie : N) (skip : bool) (t : N) : spec * (N * N) * bool :=
  if skip then
    if s_nwod sp then (sp, (500, 0), true) else (spec_kill sp id, (202, stored_size sp id), true)
  else
    match s_lookup sp id t with
    | None => (sp, (404, 0), true)
    | Some (c', n) =>
        if negb (c' =? cookie) then (sp, (400, 0), false)
        else if is_chunk_manifest (n_flags n) then (sp, (406, 0), true)
        else if s_nwod sp then (sp, (500, 0), true)
        else (spec_kill sp id, (202, needle_size n), true)
    end.

Fixpoint spec_batch (sp : spec) (fids : list (N * N)) (skip : bool) (t : N) : spec * list (N * N) :=
  match fids with
  | [] => (sp, [])
  | (id, c) :: rest =>
      let '(sp', r, cont) := spec_batch_one sp id c skip t in
      if cont then let '(sp'', rs) := spec_batch sp' rest skip t in (sp'', r :: rs)
      else (sp', [r])
  end.

Definition xspec_step (sp : spec) (ev : xevent) : spec * xeout :=
  let '(t, o) := ev in
  match o with
  | XBase b => (fst (spec_step sp (t, b)), xexpect sp t b)
  | XGet id c rd g =>
      if rd then (sp, XEAny)
      else match s_lookup sp id t with
           | Some (c', n) =>
               if c' =? c
               then let h := hproj_x g (exp_view n) in
                    (sp, XEGet 200 (if g_head g then drop_body h else h) (Some (blen (h_data h))))
               else (sp, XEGet 404 blank_hview (Some 0))
           | None => (sp, XEGet 404 blank_hview (Some 0))
           end
  | XBatch fids skip => let '(sp', rs) := spec_batch sp fids skip t in (sp', XEBatch rs)
  end.

Definition xspec_after (sp : spec) (h : list xevent) : spec := fold_left (fun s ev => fst (xspec_step s ev)) h sp.

Definition xmatch (e : xeout) (o : xout) : bool :=
  match e, o with
  | XEWrite ok u s, XO (OWrite er u' s') => Bool.eqb (err_eqb er ENone) ok && Bool.eqb u u' && (s =? s')
  | XEWrite ok u _, XO (OPost st er) =>
      (st =? (if ok then if u then 204 else 201 else 500)) && Bool.eqb (err_eqb er ENone) ok
  | XEGet s h None, XO (OGet s' h') => (s =? s') && hview_eqb h h'
  | XEGet s h (Some l), XOGet s' h' l' => (s =? s') && hview_eqb h h' && (l =? l')
  | XEDel s z, XO (ODel s' z') => (s =? s') && (z =? z')
  | XERead (Some (c, v)), XO (ORead er c' v') => err_eqb er ENone && (c =? c')%Z && view_eqb v v'
  | XERead None, XO (ORead er _ _) => err_eqb er ENotFound || err_eqb er EDeleted
  | XEDelete ok z, XO (ODelete er z') => Bool.eqb (err_eqb er ENone) ok && (z =? z')%Z
  | XEBatch rs, XOBatch rs' => pairs_eqb rs rs'
  | XEAny, _ => true
  | _, _ => false
  end.

(* ---------- per-key triggers ---------- *)
Definition xkeys (o : xop) : list N :=
  match o with
  | XBase (Write n) => [n_id n]
  | XBase (Post u) => [u_id u]
  | XBase (Get id _ _) | XBase (Del id _) | XBase (RawRead id _ _) | XBase (RawDelete id _) => [id]
  | XBase (SetNoWriteOrDelete _) | XBase (SetNoWriteCanDelete _) => []
  | XGet id _ _ _ => [id]
  | XBatch fids _ => map fst fids
  end.

Definition xop_needle (o : xop) : option needle :=
  match o with XBase b => op_needle b | _ => None end.

Definition xseen_next (seen : list needle) (o : xop) : list needle :=
  match xop_needle o with Some n => n :: seen | None => seen end.

Definition xwf_event (ev : xevent) : bool :=
  match xop_needle (snd ev) with Some n => wf_needle n | None => true end.
Definition xwf_history (h : list xevent) : bool := forallb xwf_event h.

(* the finding an event falls under by itself: 0 = empty payload, 1 = repeats id, cookie and
   bytes of an earlier write with other metadata *)
Definition self_trig (seen : list needle) (o : xop) : option N :=
  match xop_needle o with
  | Some n => if blen (n_data n) =? 0 then Some 0 else if existsb (conflicts n) seen then Some 1 else None
  | None => None
  end.

(* the keys a finding has touched so far, each with the number of the finding *)
Definition dirt := list (N * N).
Fixpoint dirt_get (D : dirt) (k : N) : option N :=
  match D with
  | [] => None
  | (k', f) :: D' => if k' =? k then Some f else dirt_get D' k
  end.
Fixpoint dirt_of_keys (D : dirt) (ks : list N) : option N :=
  match ks with
  | [] => None
  | k :: ks' => match dirt_get D k with Some f => Some f | None => dirt_of_keys D ks' end
  end.

(* an event soils its keys when it falls under a finding itself or touches a soiled key (a batch
   that names a soiled key stops or goes on differently, so all its keys are soiled) *)
Definition dirty_step (D : dirt) (seen : list needle) (o : xop) : dirt :=
  match (match self_trig seen o with Some f => Some f | None => dirt_of_keys D (xkeys o) end) with
  | Some f => map (fun k => (k, f)) (xkeys o) ++ D
  | None => D
  end.

Fixpoint dirt_after (D : dirt) (seen : list needle) (h : list xevent) : dirt :=
  match h with
  | [] => D
  | ev :: h' => dirt_after (dirty_step D seen (snd ev)) (xseen_next seen (snd ev)) h'
  end.
Fixpoint xseen_after (seen : list needle) (h : list xevent) : list needle :=
  match h with [] => seen | ev :: h' => xseen_after (xseen_next seen (snd ev)) h' end.

(* per event: does the answer satisfy the specification, and the finding (if any) of a soiled key
   the event touches *)
Fixpoint xjudge (D : dirt) (seen : list needle) (sp : spec) (h : list xevent) (os : list xout)
  : list (bool * option N) :=
  match h, os with
  | ev :: h', o :: os' =>
      let D' := dirty_step D seen (snd ev) in
      let '(sp', e) := xspec_step sp ev in
      (xmatch e o, dirt_of_keys D' (xkeys (snd ev))) :: xjudge D' (xseen_next seen (snd ev)) sp' h' os'
  | _, _ => []
  end.

End Gunzip.

Definition is_some {A} (o : option A) : bool := match o with Some _ => true | None => false end.

(* every answer is the specification's, except (possibly) at events that touch a soiled key *)
Definition pk_ok (j : list (bool * option N)) : bool := forallb (fun x => fst x || is_some (snd x)) j.
(* every answer is the specification's *)
Definition all_ok (j : list (bool * option N)) : bool := forallb fst j.
(* when some answer is not: the finding of the first such event, provided every failing event
   touches a soiled key *)
Fixpoint fail_trig (j : list (bool * option N)) : option N :=
  match j with
  | [] => None
  | (true, _) :: j' => fail_trig j'
  | (false, Some f) :: j' => if forallb (fun x => fst x || is_some (snd x)) j' then Some f else None
  | (false, None) :: _ => None
  end.

(* no event falls under a finding by itself *)
Fixpoint xclean (seen : list needle) (h : list xevent) : bool :=
  match h with
  | [] => true
  | ev :: h' => negb (is_some (self_trig seen (snd ev))) && xclean (xseen_next seen (snd ev)) h'
  end.
