(* Record-level model of one SeaweedFS volume (C01):
     weed/storage/volume_write.go   doWriteRequest, isFileUnchanged, doDeleteRequest
     weed/storage/volume_read.go    readNeedle
     weed/storage/store.go          WriteVolumeNeedle / DeleteVolumeNeedle / ReadVolumeNeedle guards
     weed/storage/needle/needle_read_write.go   prepareWriteBuffer (Size), readNeedleDataVersion2 (what comes back)
     weed/storage/needle/needle.go  CreateNeedleFromRequest
     weed/server/volume_server_handlers_{read,write}.go   GetOrHeadHandler / PostHandler / DeleteHandler
   The .dat file is a list of appended records (not bytes; the byte codec is C02's),
   the needle map is a finite map id -> (offset, size) (the CompactMap is C05's).
   Executable definitions only; proofs are in proof/VolumeProofs.v.
   Everything mirrors the Go code as it is, including the empty-payload behaviour. *)
From Coq Require Import List NArith ZArith Bool.
Import ListNotations.
Local Open Scope N_scope.

Definition bytes := list N.
Definition blen (b : bytes) : N := N.of_nat (length b).

Fixpoint bytes_eqb (a b : bytes) : bool :=
  match a, b with
  | [], [] => true
  | x :: a', y :: b' => (x =? y) && bytes_eqb a' b'
  | _, _ => false
  end.

Fixpoint is_prefix (p b : bytes) : bool :=
  match p, b with
  | [], _ => true
  | x :: p', y :: b' => (x =? y) && is_prefix p' b'
  | _ :: _, [] => false
  end.

(* ---------- needle.Needle (the fields a caller fills in) ---------- *)
Record needle := {
  n_id : N; n_cookie : N;
  n_data : bytes; n_flags : N;
  n_name : bytes; n_mime : bytes; n_pairs : bytes;
  n_lastmod : N;
  n_ttl : N * N            (* (Count, Unit); (0,0) stands for nil / EMPTY_TTL *)
}.

(* flag bits, needle_read_write.go *)
Definition is_compressed (f : N) := N.testbit f 0.   (* FlagIsCompressed        = 0x01 *)
Definition has_name (f : N) := N.testbit f 1.        (* FlagHasName             = 0x02 *)
Definition has_mime (f : N) := N.testbit f 2.        (* FlagHasMime             = 0x04 *)
Definition has_lastmod (f : N) := N.testbit f 3.     (* FlagHasLastModifiedDate = 0x08 *)
Definition has_ttl (f : N) := N.testbit f 4.         (* FlagHasTtl              = 0x10 *)
Definition has_pairs (f : N) := N.testbit f 5.       (* FlagHasPairs            = 0x20 *)
Definition is_chunk_manifest (f : N) := N.testbit f 7. (* FlagIsChunkManifest   = 0x80 *)

(* prepareWriteBuffer: NameSize = min(len(Name), 255) *)
Definition stored_name (n : needle) : bytes := firstn 255 (n_name n).

(* prepareWriteBuffer, Version2/3: the Size header field.  DataSize = 0 => Size = 0. *)
Definition needle_size (n : needle) : N :=
  let f := n_flags n in
  if 0 <? blen (n_data n) then
    4 + blen (n_data n) + 1
    + (if has_name f then 1 + blen (stored_name n) else 0)
    + (if has_mime f then 1 + blen (n_mime n) else 0)
    + (if has_lastmod f then 5 else 0)              (* LastModifiedBytesLength *)
    + (if has_ttl f then 2 else 0)                  (* TtlBytesLength *)
    + (if has_pairs f then 2 + blen (n_pairs n) else 0)
  else 0.

(* GetActualSize, Version3: header 16 + size + checksum 4 + timestamp 8 + padding 1..8 *)
Definition actual_size (size : N) : N :=
  let raw := 16 + size + 4 + 8 in
  raw + (8 - raw mod 8).

(* ---------- what a reader gets back (ReadBytes / readNeedleDataVersion2) ---------- *)
Record view := {
  v_cookie : N; v_size : N;
  v_data : bytes; v_flags : N;
  v_name : bytes; v_mime : bytes; v_pairs : bytes;
  v_lastmod : N; v_ttl : N * N
}.

(* a needle that only has Id and Cookie set (what the read API is called with) *)
Definition blank_view (cookie : N) : view :=
  {| v_cookie := cookie; v_size := 0; v_data := []; v_flags := 0; v_name := []; v_mime := [];
     v_pairs := []; v_lastmod := 0; v_ttl := (0, 0) |}.

(* parse of a record whose Size > 0: fields are present only when their flag is set;
   last-modified is stored in 5 bytes *)
Definition view_of (n : needle) : view :=
  let f := n_flags n in
  {| v_cookie := n_cookie n; v_size := needle_size n;
     v_data := n_data n; v_flags := f;
     v_name := if has_name f then stored_name n else [];
     v_mime := if has_mime f then n_mime n else [];
     v_pairs := if has_pairs f then n_pairs n else [];
     v_lastmod := if has_lastmod f then n_lastmod n mod 1099511627776 (* 2^40 *) else 0;
     v_ttl := if has_ttl f then n_ttl n else (0, 0) |}.

(* TTL.Minutes() *)
Definition ttl_minutes (t : N * N) : N :=
  let '(c, u) := t in
  match u with
  | 1 => c               (* Minute *)
  | 2 => c * 60          (* Hour *)
  | 3 => c * 60 * 24     (* Day *)
  | 4 => c * 60 * 24 * 7 (* Week *)
  | 5 => c * 60 * 24 * 30  (* Month *)
  | 6 => c * 60 * 24 * 365 (* Year *)
  | _ => 0
  end.

(* readNeedle's TTL test on the needle just read; [at] = AppendAtNs of the record, [now] in ns *)
Definition view_expired (v : view) (at_ns now : N) : bool :=
  has_ttl (v_flags v) && negb (ttl_minutes (v_ttl v) =? 0) && has_lastmod (v_flags v)
  && negb (now <? at_ns + ttl_minutes (v_ttl v) * 60000000000).

(* ---------- the volume ---------- *)
Record rec := { r_off : N; r_size : N; r_at : N; r_n : needle }.

Record nval := { nv_off : N; nv_size : Z }.
Definition nmap := list (N * nval).      (* newest binding first *)

Fixpoint nm_get (m : nmap) (k : N) : option nval :=
  match m with
  | [] => None
  | (k', v) :: m' => if k' =? k then Some v else nm_get m' k
  end.
(* CompactMap.Set *)
Definition nm_set (m : nmap) (k : N) (v : nval) : nmap := (k, v) :: m.
(* Size.IsValid / Size.IsDeleted, TombstoneFileSize = -1 *)
Definition size_valid (s : Z) : bool := (0 <? s)%Z && negb (s =? -1)%Z.
Definition size_deleted (s : Z) : bool := (s <? 0)%Z || (s =? -1)%Z.
(* CompactMap.Delete: negate the size when it is valid; the offset stays *)
Definition nm_delete (m : nmap) (k : N) : nmap :=
  match nm_get m k with
  | Some v => if size_valid (nv_size v) then (k, {| nv_off := nv_off v; nv_size := (- nv_size v)%Z |}) :: m else m
  | None => m
  end.

Record vol := {
  recs : list rec;             (* the .dat records, newest first; each carries its offset *)
  nm : nmap;
  dat_end : N;                 (* size of the .dat file *)
  no_write_or_delete : bool;
  no_write_can_delete : bool
}.

Definition init : vol :=
  {| recs := []; nm := []; dat_end := 8 (* SuperBlockSize *);
     no_write_or_delete := false; no_write_can_delete := false |}.

Fixpoint find_rec (l : list rec) (off : N) : option rec :=
  match l with
  | [] => None
  | r :: l' => if r_off r =? off then Some r else find_rec l' off
  end.

Inductive err := ENone | ENotFound | EDeleted | ECookie | EReadOnly | EOther.

Definition err_eqb (a b : err) : bool :=
  match a, b with
  | ENone, ENone | ENotFound, ENotFound | EDeleted, EDeleted | ECookie, ECookie
  | EReadOnly, EReadOnly | EOther, EOther => true
  | _, _ => false
  end.

(* Needle.ReadData(offset, size): the record at [off] must carry header Size = size *)
Definition read_data (st : vol) (off : N) (size : Z) : option rec :=
  match find_rec (recs st) off with
  | Some r => if (Z.of_N (r_size r) =? size)%Z then Some r else None
  | None => None
  end.

(* the view of a stored record: a Size = 0 record has no body at all *)
Definition view_of_rec (r : rec) : view :=
  if 0 <? r_size r then view_of (r_n r) else blank_view (n_cookie (r_n r)).

(* isFileUnchanged (volume TTL is empty): same cookie, same bytes (the request carries
   Checksum = CRC(Data), so the checksum comparison adds nothing) *)
Definition is_file_unchanged (st : vol) (n : needle) : bool :=
  match nm_get (nm st) (n_id n) with
  | Some nv =>
      if negb (nv_off nv =? 0) && size_valid (nv_size nv) then
        match read_data st (nv_off nv) (nv_size nv) with
        | Some r => (v_cookie (view_of_rec r) =? n_cookie n) && bytes_eqb (v_data (view_of_rec r)) (n_data n)
        | None => false
        end
      else false
  | None => false
  end.

(* Needle.Append + bookkeeping *)
Definition append (st : vol) (n : needle) (at_ns : N) : vol * N * N :=
  let off := dat_end st in
  let size := needle_size n in
  ({| recs := {| r_off := off; r_size := size; r_at := at_ns; r_n := n |} :: recs st;
      nm := nm st; dat_end := off + actual_size size;
      no_write_or_delete := no_write_or_delete st; no_write_can_delete := no_write_can_delete st |},
   off, size).

Definition with_nm (st : vol) (m : nmap) : vol :=
  {| recs := recs st; nm := m; dat_end := dat_end st;
     no_write_or_delete := no_write_or_delete st; no_write_can_delete := no_write_can_delete st |}.

(* result of a write: error class, isUnchanged, n.Size after the call *)
Record wres := { w_err : err; w_unchanged : bool; w_size : N }.

(* doWriteRequest *)
Definition do_write (st : vol) (n : needle) (at_ns : N) : vol * wres :=
  if is_file_unchanged st n then (st, {| w_err := ENone; w_unchanged := true; w_size := 0 |})
  else
    let g := nm_get (nm st) (n_id n) in
    let cookie_check :=
      match g with
      | Some nv =>
          match find_rec (recs st) (nv_off nv) with     (* ReadNeedleHeader at the mapped offset *)
          | Some r => if n_cookie (r_n r) =? n_cookie n then ENone else ECookie
          | None => EOther
          end
      | None => ENone
      end in
    match cookie_check with
    | ENone =>
        let '(st1, off, size) := append st n at_ns in
        let newer := match g with Some nv => nv_off nv <? off | None => true end in
        let st2 := if newer then with_nm st1 (nm_set (nm st1) (n_id n) {| nv_off := off; nv_size := Z.of_N size |}) else st1 in
        (st2, {| w_err := ENone; w_unchanged := false; w_size := size |})
    | e => (st, {| w_err := e; w_unchanged := false; w_size := 0 |})
    end.

(* Volume.IsReadOnly (the disk-space flag of the location is not modelled) *)
Definition is_read_only (st : vol) : bool := no_write_or_delete st || no_write_can_delete st.

(* Store.WriteVolumeNeedle *)
Definition store_write (st : vol) (n : needle) (at_ns : N) : vol * wres :=
  if is_read_only st then (st, {| w_err := EReadOnly; w_unchanged := false; w_size := 0 |})
  else do_write st n at_ns.

Definition tombstone (id cookie : N) : needle :=
  {| n_id := id; n_cookie := cookie; n_data := []; n_flags := 0; n_name := []; n_mime := [];
     n_pairs := []; n_lastmod := 0; n_ttl := (0, 0) |}.

(* Store.DeleteVolumeNeedle / doDeleteRequest: the appended record has Data = nil, so Size = 0 *)
Definition store_delete (st : vol) (id cookie : N) (at_ns : N) : vol * err * Z :=
  if no_write_or_delete st then (st, EReadOnly, 0%Z)
  else
    match nm_get (nm st) id with
    | Some nv =>
        if size_valid (nv_size nv) then
          let '(st1, _, _) := append st (tombstone id cookie) at_ns in
          (with_nm st1 (nm_delete (nm st1) id), ENone, nv_size nv)
        else (st, ENone, 0%Z)
    | None => (st, ENone, 0%Z)
    end.

(* Store.ReadVolumeNeedle / readNeedle; the needle passed in has Id and Cookie only.
   Result: error class, returned count, and the needle afterwards (blank on every error path). *)
Definition store_read (st : vol) (id cookie : N) (read_deleted : bool) (now : N) : err * Z * view :=
  match nm_get (nm st) id with
  | None => (ENotFound, (-1)%Z, blank_view cookie)
  | Some nv =>
      if nv_off nv =? 0 then (ENotFound, (-1)%Z, blank_view cookie)
      else
        let go (read_size : Z) :=
          if (read_size =? 0)%Z then (ENone, 0%Z, blank_view cookie)      (* the size == 0 short-cut *)
          else
            match read_data st (nv_off nv) read_size with
            | None => (EOther, 0%Z, blank_view cookie)
            | Some r =>
                let v := view_of_rec r in
                if view_expired v (r_at r) now then (ENotFound, (-1)%Z, blank_view cookie)
                else (ENone, Z.of_N (blen (v_data v)), v)
            end in
        if size_deleted (nv_size nv) then
          if read_deleted && negb (nv_size nv =? -1)%Z then go (- nv_size nv)%Z
          else (EDeleted, (-1)%Z, blank_view cookie)
        else go (nv_size nv)
  end.

(* ---------- HTTP layer ---------- *)
(* what GetOrHeadHandler serves (request without Range/resize/If-* headers, with
   Accept-Encoding: gzip, fid without file name or extension) *)
Record hview := { h_data : bytes; h_name : bytes; h_mime : bytes; h_pairs : bytes; h_lastmod : N; h_gzip : bool }.
Definition blank_hview : hview :=
  {| h_data := []; h_name := []; h_mime := []; h_pairs := []; h_lastmod := 0; h_gzip := false |}.

(* "application/octet-stream" *)
Definition octet_stream : bytes :=
  [97;112;112;108;105;99;97;116;105;111;110;47;111;99;116;101;116;45;115;116;114;101;97;109].

(* util.IsGzippedContent *)
Definition is_gzip_content (d : bytes) : bool :=
  match d with a :: b :: _ => (a =? 31) && (b =? 139) | _ => false end.

Definition hproj (v : view) : hview :=
  {| h_data := v_data v;
     h_name := v_name v;
     h_mime := if is_prefix octet_stream (v_mime v) then [] else v_mime v;
     h_pairs := if has_pairs (v_flags v) then v_pairs v else [];
     h_lastmod := v_lastmod v;
     h_gzip := is_compressed (v_flags v) && is_gzip_content (v_data v) |}.

(* GetOrHeadHandler: read, then compare the cookie of the needle with the request's *)
Definition http_get (st : vol) (id cookie : N) (read_deleted : bool) (now : N) : N * hview :=
  let '(e, count, v) := store_read st id cookie read_deleted now in
  if negb (err_eqb e ENone) || (count <? 0)%Z then (404, blank_hview)
  else if negb (v_cookie v =? cookie) then (404, blank_hview)
  else (200, hproj v).

(* DeleteHandler: read first, compare cookies, then delete; answers n.Size of the needle read *)
Definition http_delete (st : vol) (id cookie : N) (now : N) : vol * N * N :=
  let '(e, _, v) := store_read st id cookie false now in
  if negb (err_eqb e ENone) then (st, 404, 0)
  else if negb (v_cookie v =? cookie) then (st, 400, 0)
  else
    let '(st', e', _) := store_delete st id (v_cookie v) now in
    match e' with
    | ENone => (st', 202, v_size v)
    | _ => (st', 500, 0)
    end.

(* a multipart POST as the harness sends it: one file part (file name without dot or slash),
   optional part Content-Type, Content-Encoding: gzip, Seaweed-* headers, ?ts=&ttl= *)
Record upload := {
  u_id : N; u_cookie : N; u_data : bytes; u_name : bytes; u_ctype : bytes;
  u_pairs : bytes;      (* json.Marshal of the pair map; [] when there is no Seaweed-* header *)
  u_ts : N; u_ttl : N * N; u_gzip : bool }.

(* parseMultipart + CreateNeedleFromRequest *)
Definition needle_of_upload (u : upload) : needle :=
  let mime := if (blen (u_ctype u) =? 0) || bytes_eqb (u_ctype u) octet_stream then [] else u_ctype u in
  let f := (if blen (u_name u) <? 256 then 2 else 0)
         + (if blen mime <? 256 then 4 else 0)
         + (if negb (blen (u_pairs u) =? 0) && (blen (u_pairs u) <? 65536) then 32 else 0)
         + (if u_gzip u then 1 else 0)
         + 8
         + (if (fst (u_ttl u) =? 0) && (snd (u_ttl u) =? 0) then 0 else 16) in
  {| n_id := u_id u; n_cookie := u_cookie u; n_data := u_data u; n_flags := f;
     n_name := if blen (u_name u) <? 256 then u_name u else [];
     n_mime := if blen mime <? 256 then mime else [];
     n_pairs := if negb (blen (u_pairs u) =? 0) && (blen (u_pairs u) <? 65536) then u_pairs u else [];
     n_lastmod := u_ts u; n_ttl := u_ttl u |}.

(* PostHandler's status *)
Definition post_status (w : wres) : N :=
  match w_err w with
  | ENone => if w_unchanged w then 204 else 201
  | _ => 500
  end.

(* ---------- histories ---------- *)
Inductive op :=
| Write (n : needle)                        (* Store.WriteVolumeNeedle *)
| Post (u : upload)                         (* PostHandler *)
| Get (id cookie : N) (read_deleted : bool) (* GetOrHeadHandler *)
| Del (id cookie : N)                       (* DeleteHandler *)
| RawRead (id cookie : N) (read_deleted : bool)   (* Store.ReadVolumeNeedle *)
| RawDelete (id cookie : N)                 (* Store.DeleteVolumeNeedle *)
| SetNoWriteOrDelete (b : bool)             (* Store.MarkVolumeReadonly / MarkVolumeWritable *)
| SetNoWriteCanDelete (b : bool).           (* what loading a remote-tier volume sets *)

(* an event is an operation together with the clock reading (ns) the code takes during it *)
Definition event := (N * op)%type.

Inductive out :=
| OWrite (e : err) (unchanged : bool) (size : N)
| OPost (status : N) (e : err)
| OGet (status : N) (h : hview)
| ODel (status : N) (size : N)
| ORead (e : err) (count : Z) (v : view)
| ODelete (e : err) (size : Z)
| OUnit.

Definition step (st : vol) (ev : event) : vol * out :=
  let '(t, o) := ev in
  match o with
  | Write n => let '(st', w) := store_write st n t in (st', OWrite (w_err w) (w_unchanged w) (w_size w))
  | Post u => let '(st', w) := store_write st (needle_of_upload u) t in (st', OPost (post_status w) (w_err w))
  | Get id c rd => let '(s, h) := http_get st id c rd t in (st, OGet s h)
  | Del id c => let '(st', s, z) := http_delete st id c t in (st', ODel s z)
  | RawRead id c rd => let '(e, cnt, v) := store_read st id c rd t in (st, ORead e cnt v)
  | RawDelete id c => let '(st', e, z) := store_delete st id c t in (st', ODelete e z)
  | SetNoWriteOrDelete b =>
      ({| recs := recs st; nm := nm st; dat_end := dat_end st;
          no_write_or_delete := b; no_write_can_delete := no_write_can_delete st |}, OUnit)
  | SetNoWriteCanDelete b =>
      ({| recs := recs st; nm := nm st; dat_end := dat_end st;
          no_write_or_delete := no_write_or_delete st; no_write_can_delete := b |}, OUnit)
  end.

Fixpoint run (st : vol) (h : list event) : list out :=
  match h with
  | [] => []
  | ev :: h' => let '(st', o) := step st ev in o :: run st' h'
  end.

Definition state_after (st : vol) (h : list event) : vol := fold_left (fun s ev => fst (step s ev)) h st.

(* ---------- the specification: a map id -> (cookie, last written needle) ---------- *)
Record sentry := {
  s_cookie : N;
  s_live : option (needle * N)   (* the last successfully written needle and its write time; None once deleted *)
}.
Record spec := { s_map : list (N * sentry); s_nwod : bool; s_nwcd : bool }.
Definition spec_init : spec := {| s_map := []; s_nwod := false; s_nwcd := false |}.

Fixpoint s_get (m : list (N * sentry)) (k : N) : option sentry :=
  match m with
  | [] => None
  | (k', v) :: m' => if k' =? k then Some v else s_get m' k
  end.
Definition with_map (sp : spec) (m : list (N * sentry)) : spec :=
  {| s_map := m; s_nwod := s_nwod sp; s_nwcd := s_nwcd sp |}.

(* what a read of needle [n] is expected to give: every field whose flag is set, in full *)
Definition exp_view (n : needle) : view :=
  let f := n_flags n in
  {| v_cookie := n_cookie n; v_size := needle_size n;
     v_data := n_data n; v_flags := f;
     v_name := if has_name f then n_name n else [];
     v_mime := if has_mime f then n_mime n else [];
     v_pairs := if has_pairs f then n_pairs n else [];
     v_lastmod := if has_lastmod f then n_lastmod n else 0;
     v_ttl := if has_ttl f then n_ttl n else (0, 0) |}.

(* a live, unexpired entry *)
Definition s_lookup (sp : spec) (id now : N) : option (N * needle) :=
  match s_get (s_map sp) id with
  | Some e =>
      match s_live e with
      | Some (n, at_ns) => if view_expired (exp_view n) at_ns now then None else Some (s_cookie e, n)
      | None => None
      end
  | None => None
  end.

(* expected outputs; fields the property does not speak about are left open *)
Inductive eout :=
| EWrite (ok : bool)                  (* success / rejection *)
| EGet (status : N) (h : hview)
| EDel (status : N)
| ERead (found : option (Z * view))   (* Some: no error, count, needle; None: not found or deleted *)
| EDelete (ok : bool)
| EAny.

Definition spec_write (sp : spec) (n : needle) (t : N) : spec * eout :=
  let ro := s_nwod sp || s_nwcd sp in
  let cookie_ok := match s_get (s_map sp) (n_id n) with Some e => s_cookie e =? n_cookie n | None => true end in
  if negb ro && cookie_ok
  then (with_map sp ((n_id n, {| s_cookie := n_cookie n; s_live := Some (n, t) |}) :: s_map sp), EWrite true)
  else (sp, EWrite false).

Definition spec_kill (sp : spec) (id : N) : spec :=
  match s_get (s_map sp) id with
  | Some e => with_map sp ((id, {| s_cookie := s_cookie e; s_live := None |}) :: s_map sp)
  | None => sp
  end.

Definition spec_step (sp : spec) (ev : event) : spec * eout :=
  let '(t, o) := ev in
  match o with
  | Write n => spec_write sp n t
  | Post u => spec_write sp (needle_of_upload u) t
  | Get id c rd =>
      if rd then (sp, EAny)
      else match s_lookup sp id t with
           | Some (c', n) => if c' =? c then (sp, EGet 200 (hproj (exp_view n))) else (sp, EGet 404 blank_hview)
           | None => (sp, EGet 404 blank_hview)
           end
  | RawRead id c rd =>
      if rd then (sp, EAny)
      else match s_lookup sp id t with
           | Some (_, n) => (sp, ERead (Some (Z.of_N (blen (n_data n)), exp_view n)))
           | None => (sp, ERead None)
           end
  | Del id c =>
      match s_lookup sp id t with
      | Some (c', _) =>
          if negb (c' =? c) then (sp, EDel 400)
          else if s_nwod sp then (sp, EDel 500)
          else (spec_kill sp id, EDel 202)
      | None => (sp, EDel 404)
      end
  | RawDelete id c =>
      if s_nwod sp then (sp, EDelete false) else (spec_kill sp id, EDelete true)
  | SetNoWriteOrDelete b => ({| s_map := s_map sp; s_nwod := b; s_nwcd := s_nwcd sp |}, EAny)
  | SetNoWriteCanDelete b => ({| s_map := s_map sp; s_nwod := s_nwod sp; s_nwcd := b |}, EAny)
  end.

Fixpoint spec_run (sp : spec) (h : list event) : list eout :=
  match h with
  | [] => []
  | ev :: h' => let '(sp', o) := spec_step sp ev in o :: spec_run sp' h'
  end.

Definition spec_after (sp : spec) (h : list event) : spec := fold_left (fun s ev => fst (spec_step s ev)) h sp.

(* ---------- comparing ---------- *)
Definition pair_eqb (a b : N * N) : bool := (fst a =? fst b) && (snd a =? snd b).

Definition view_eqb (a b : view) : bool :=
  (v_cookie a =? v_cookie b) && (v_size a =? v_size b) && bytes_eqb (v_data a) (v_data b) &&
  (v_flags a =? v_flags b) && bytes_eqb (v_name a) (v_name b) && bytes_eqb (v_mime a) (v_mime b) &&
  bytes_eqb (v_pairs a) (v_pairs b) && (v_lastmod a =? v_lastmod b) && pair_eqb (v_ttl a) (v_ttl b).

Definition hview_eqb (a b : hview) : bool :=
  bytes_eqb (h_data a) (h_data b) && bytes_eqb (h_name a) (h_name b) && bytes_eqb (h_mime a) (h_mime b) &&
  bytes_eqb (h_pairs a) (h_pairs b) && (h_lastmod a =? h_lastmod b) && Bool.eqb (h_gzip a) (h_gzip b).

Definition out_eqb (a b : out) : bool :=
  match a, b with
  | OWrite e u s, OWrite e' u' s' => err_eqb e e' && Bool.eqb u u' && (s =? s')
  | OPost s e, OPost s' e' => (s =? s') && err_eqb e e'
  | OGet s h, OGet s' h' => (s =? s') && hview_eqb h h'
  | ODel s z, ODel s' z' => (s =? s') && (z =? z')
  | ORead e c v, ORead e' c' v' => err_eqb e e' && (c =? c')%Z && view_eqb v v'
  | ODelete e z, ODelete e' z' => err_eqb e e' && (z =? z')%Z
  | OUnit, OUnit => true
  | _, _ => false
  end.

(* does an observed output satisfy the expected one? *)
Definition match_out (e : eout) (o : out) : bool :=
  match e, o with
  | EWrite ok, OWrite er _ _ => Bool.eqb (err_eqb er ENone) ok
  | EWrite ok, OPost s _ => Bool.eqb (s <? 300) ok
  | EGet s h, OGet s' h' => (s =? s') && hview_eqb h h'
  | EDel s, ODel s' _ => s =? s'
  | ERead (Some (c, v)), ORead er c' v' => err_eqb er ENone && (c =? c')%Z && view_eqb v v'
  | ERead None, ORead er _ _ => err_eqb er ENotFound || err_eqb er EDeleted
  | EDelete ok, ODelete er _ => Bool.eqb (err_eqb er ENone) ok
  | EAny, _ => true
  | _, _ => false
  end.

Fixpoint all2 {A B} (f : A -> B -> bool) (l1 : list A) (l2 : list B) : bool :=
  match l1, l2 with
  | [], [] => true
  | x :: l1', y :: l2' => f x y && all2 f l1' l2'
  | _, _ => false
  end.

(* ---------- input well-formedness and the triggers of the known findings ---------- *)
(* a needle the v2/v3 record format can represent (the limits CreateNeedleFromRequest enforces) *)
Definition wf_needle (n : needle) : bool :=
  (n_flags n <? 128) &&                       (* one byte, not a chunk manifest *)
  (blen (n_name n) <? 256) && (n_lastmod n <? 1099511627776).

Definition op_needle (o : op) : option needle :=
  match o with Write n => Some n | Post u => Some (needle_of_upload u) | _ => None end.

Definition wf_event (ev : event) : bool :=
  match op_needle (snd ev) with Some n => wf_needle n | None => true end.
Definition wf_history (h : list event) : bool := forallb wf_event h.

(* finding 0: a write with an empty payload *)
Definition empty_payload (h : list event) : bool :=
  existsb (fun ev => match op_needle (snd ev) with Some n => blen (n_data n) =? 0 | None => false end) h.

(* a needle whose TTL can expire *)
Definition expirable (n : needle) : bool :=
  let v := exp_view n in has_ttl (v_flags v) && negb (ttl_minutes (v_ttl v) =? 0) && has_lastmod (v_flags v).

(* finding 1: a write that repeats the id, cookie and bytes of an earlier write but not its
   metadata (or that should restart a TTL) *)
Definition conflicts (a b : needle) : bool :=
  (n_id a =? n_id b) && (n_cookie a =? n_cookie b) && bytes_eqb (n_data a) (n_data b) &&
  (negb (view_eqb (exp_view a) (exp_view b)) || expirable a).

Fixpoint meta_dup (seen : list needle) (h : list event) : bool :=
  match h with
  | [] => false
  | ev :: h' =>
      match op_needle (snd ev) with
      | Some n => existsb (conflicts n) seen || meta_dup (n :: seen) h'
      | None => meta_dup seen h'
      end
  end.
