(* Model of the on-disk needle index entry codec (weed/storage/types, weed/storage/idx/walk.go,
   needle_map/needle_value.go ToBytes) and of the sorted index used by EC volumes and
   read-only volumes (weed/storage/erasure_coding/ec_volume.go SearchNeedleFromSortedIndex,
   ec_volume_delete.go, ec_decoder.go, needle_map_sorted_file.go Delete)  (C07; the codec and
   the search are also used by C05's model/NeedleMap.v).
   Executable definitions only; proofs are in proof/EcIndexProofs.v.

   Files are byte lists ([list N], every element < 256).  The build configuration is the
   parameter [osz] = types.OffsetSize: 4 (default build) or 5 (-tags 5BytesOffset).

   Repairs already applied to the Go tree that this model follows:
     ec_volume.go SearchNeedleFromSortedIndex passes m*NeedleMapEntrySize (was
     m*NeedleHeaderSize = 16*m, wrong when the entry size is 17) to the callback;
     needle_map_sorted_file.go NewSortedFileNeedleMap opens the .sdx read-write and sets
     indexFileOffset to the .idx size (see sorted_delete below). *)
From Coq Require Import List NArith ZArith Bool.
Import ListNotations.
Local Open Scope N_scope.

(* ---------- integer widths ---------- *)
Definition two31 : N := 2147483648.
Definition two32 : N := 4294967296.
Definition two64 : N := 18446744073709551616.

(* types.Size is int32.  uint32(size) and Size(uint32) reinterpret the bits. *)
Definition u32_of_size (s : Z) : N := Z.to_N (s mod 4294967296)%Z.
Definition size_of_u32 (v : N) : Z := if v <? two31 then Z.of_N v else (Z.of_N v - 4294967296)%Z.

Definition tombstone : Z := (-1)%Z.                             (* types.TombstoneFileSize *)
Definition size_is_deleted (s : Z) : bool := (s <? 0)%Z || (s =? tombstone)%Z.   (* Size.IsDeleted *)
Definition size_is_valid (s : Z) : bool := (0 <? s)%Z && negb (s =? tombstone)%Z. (* Size.IsValid *)

(* ---------- big-endian integers (util.Uint64toBytes / Uint32toBytes / BytesToUint..) ---------- *)
Fixpoint be_bytes (n : nat) (v : N) : list N :=
  match n with
  | O => []
  | S n' => (v / 256 ^ N.of_nat n') mod 256 :: be_bytes n' v
  end.
Definition be_val (l : list N) : N := fold_left (fun a b => a * 256 + b) l 0.

(* ---------- one index entry: NeedleId (8) | Offset (osz) | Size (4) ---------- *)
Record entry := { e_key : N; e_off : N; e_size : Z }.
(* e_off is the stored offset in units of NeedlePaddingSize: b0 + b1<<8 + b2<<16 + b3<<24 (+ b4<<32) *)

Definition entry_size (osz : N) : N := 8 + osz + 4.            (* types.NeedleMapEntrySize *)
Definition header_size : N := 16.                              (* types.NeedleHeaderSize = 4+8+4 *)

(* OffsetToBytes: bytes[0..3] = b3 b2 b1 b0, and under 5BytesOffset bytes[4] = b4 *)
Definition enc_off (osz : N) (off : N) : list N :=
  be_bytes 4 (off mod two32) ++ (if osz =? 5 then [(off / two32) mod 256] else []).
Definition dec_off (osz : N) (b : list N) : N :=
  be_val (firstn 4 b) + (if osz =? 5 then nth 4 b 0 * two32 else 0).

Definition enc_key (k : N) : list N := be_bytes 8 k.
Definition enc_entry (osz : N) (e : entry) : list N :=
  enc_key (e_key e) ++ enc_off osz (e_off e) ++ be_bytes 4 (u32_of_size (e_size e)).
(* idx.IdxFileEntry *)
Definition dec_entry (osz : N) (b : list N) : entry :=
  {| e_key := be_val (firstn 8 b);
     e_off := dec_off osz (firstn (N.to_nat osz) (skipn 8 b));
     e_size := size_of_u32 (be_val (firstn 4 (skipn (8 + N.to_nat osz) b))) |}.

Definition encode (osz : N) (es : list entry) : list N := concat (map (enc_entry osz) es).

(* idx.WalkIndexFile: whole entries in file order; a trailing partial entry is ignored.
   (The 1024-row read batching is not observable.) *)
Fixpoint walk_fuel (fuel : nat) (osz : N) (b : list N) : list entry :=
  match fuel with
  | O => []
  | S f =>
      let n := N.to_nat (entry_size osz) in
      if (length b <? n)%nat then []
      else dec_entry osz (firstn n b) :: walk_fuel f osz (skipn n b)
  end.
Definition walk (osz : N) (b : list N) : list entry := walk_fuel (length b) osz b.

(* ---------- positional file access ---------- *)
(* os.File.ReadAt(buf, pos) with len(buf) = n: error (short read / EOF) unless pos+n <= size *)
Definition read_at (file : list N) (pos n : N) : option (list N) :=
  if pos + n <=? N.of_nat (length file)
  then Some (firstn (N.to_nat n) (skipn (N.to_nat pos) file)) else None.
(* os.File.WriteAt(b, pos) for pos <= size: overwrites in place and extends the file when
   pos+len(b) > size (no use with pos > size, which would leave a hole) *)
Definition write_at (file : list N) (pos : N) (b : list N) : list N :=
  firstn (N.to_nat pos) file ++ b ++ skipn (N.to_nat pos + length b) file.

(* ---------- SearchNeedleFromSortedIndex ---------- *)
Inductive sres :=
| SFound (m : N) (off : N) (size : Z)   (* entry index m (the callback gets m*NeedleMapEntrySize) *)
| SNotFound                             (* NotFoundError *)
| SReadErr.                             (* "ecx file %d read at %d" *)

Fixpoint search_loop (fuel : nat) (osz : N) (file : list N) (key : N) (l h : N) : sres :=
  match fuel with
  | O => SNotFound
  | S f =>
      if l <? h then
        let m := (l + h) / 2 in
        match read_at file (m * entry_size osz) (entry_size osz) with
        | None => SReadErr
        | Some buf =>
            let e := dec_entry osz buf in
            if e_key e =? key then SFound m (e_off e) (e_size e)
            else if e_key e <? key then search_loop f osz file key (m + 1) h
            else search_loop f osz file key l m
        end
      else SNotFound
  end.
(* fsize = the file size captured when the file was opened (ecxFileSize / dbFileSize) *)
Definition search_sorted (osz : N) (file : list N) (fsize : N) (key : N) : sres :=
  let n := fsize / entry_size osz in
  search_loop (S (N.to_nat n)) osz file key 0 n.

(* the byte offset handed to processNeedleFn for entry index m (repaired: entry size) *)
Definition callback_offset (osz : N) (m : N) : N := m * entry_size osz.

(* MarkNeedleDeleted(file, offset): write TombstoneFileSize at offset+NeedleIdSize+OffsetSize.
   [writable] = the descriptor was opened for writing; otherwise WriteAt fails (EBADF). *)
Definition mark_deleted (writable : bool) (osz : N) (file : list N) (offset : N) : option (list N) :=
  if writable then Some (write_at file (offset + 8 + osz) (be_bytes 4 (u32_of_size tombstone)))
  else None.

(* ====================================================================== *)
(* EC volume (.ecx sorted index + .ecj deletion journal), C07              *)
(* ====================================================================== *)
Definition file_size (f : list N) : N := N.of_nat (length f).

(* error classes of the functions below *)
Inductive ecode := ENone | ENotFound | ERead | EWrite.
Definition ecode_eqb (a b : ecode) : bool :=
  match a, b with
  | ENone, ENone | ENotFound, ENotFound | ERead, ERead | EWrite, EWrite => true
  | _, _ => false
  end.

(* one call SearchNeedleFromSortedIndex(file, fsize, key, MarkNeedleDeleted) *)
Definition search_mark (writable : bool) (osz : N) (file : list N) (fsize key : N) : ecode * list N :=
  match search_sorted osz file fsize key with
  | SFound m _ _ =>
      match mark_deleted writable osz file (callback_offset osz m) with
      | Some f' => (ENone, f')
      | None => (EWrite, file)
      end
  | SNotFound => (ENotFound, file)
  | SReadErr => (ERead, file)
  end.

(* EcVolume.FindNeedleFromEcx *)
Definition find_from_ecx (osz : N) (ecx : list N) (key : N) : sres :=
  search_sorted osz ecx (file_size ecx) key.

(* EcVolume.DeleteNeedleFromEcx: (error, .ecx, .ecj).  The .ecx is opened O_RDWR. *)
Definition delete_from_ecx (osz : N) (ecx ecj : list N) (key : N) : ecode * list N * list N :=
  match search_mark true osz ecx (file_size ecx) key with
  | (ENone, ecx') => (ENone, ecx', ecj ++ enc_key key)
  | (ENotFound, _) => (ENone, ecx, ecj)          (* err == NotFoundError: return nil *)
  | (e, _) => (e, ecx, ecj)
  end.

(* the keys recorded in a journal: 8-byte records, a trailing partial record is ignored *)
Fixpoint ecj_keys_fuel (fuel : nat) (b : list N) : list N :=
  match fuel with
  | O => []
  | S f => if (length b <? 8)%nat then [] else be_val (firstn 8 b) :: ecj_keys_fuel f (skipn 8 b)
  end.
Definition ecj_keys (b : list N) : list N := ecj_keys_fuel (length b) b.

(* RebuildEcxFile (the .ecj exists): mark every journalled key; stop at the first error that is
   not NotFound.  On success the .ecj is removed (the caller observes that). *)
Fixpoint rebuild_keys (osz : N) (ecx : list N) (fsize : N) (ks : list N) : ecode * list N :=
  match ks with
  | [] => (ENone, ecx)
  | k :: ks' =>
      match search_mark true osz ecx fsize k with
      | (ENone, ecx') => rebuild_keys osz ecx' fsize ks'
      | (ENotFound, _) => rebuild_keys osz ecx fsize ks'
      | (e, _) => (e, ecx)
      end
  end.
Definition rebuild_ecx (osz : N) (ecx ecj : list N) : ecode * list N :=
  rebuild_keys osz ecx (file_size ecx) (ecj_keys ecj).

(* WriteIdxFileFromEcIndex: copy of the .ecx, then one tombstone entry (zero offset) per journal key *)
Definition tomb_entry (k : N) : entry := {| e_key := k; e_off := 0; e_size := tombstone |}.
Definition write_idx_from_ec (osz : N) (ecx ecj : list N) : list N :=
  ecx ++ encode osz (map tomb_entry (ecj_keys ecj)).

(* ---------- MemDb (LevelDB in memory): an ordered map NeedleId -> (offset, size) ---------- *)
Definition omap := list (N * (N * Z)).
Fixpoint om_put (m : omap) (k : N) (v : N * Z) : omap :=
  match m with
  | [] => [(k, v)]
  | (k', v') :: r =>
      if k <? k' then (k, v) :: m
      else if k =? k' then (k, v) :: r
      else (k', v') :: om_put r k v
  end.
Fixpoint om_del (m : omap) (k : N) : omap :=
  match m with
  | [] => []
  | (k', v') :: r =>
      if k <? k' then m
      else if k =? k' then r
      else (k', v') :: om_del r k
  end.
Fixpoint om_get (m : omap) (k : N) : option (N * Z) :=
  match m with
  | [] => None
  | (k', v') :: r => if k =? k' then Some v' else om_get r k
  end.

(* MemDb.LoadFromReaderAt: offset.IsZero() || size.IsDeleted() -> Delete, else Set *)
Definition memdb_step (m : omap) (e : entry) : omap :=
  if (e_off e =? 0) || size_is_deleted (e_size e) then om_del m (e_key e)
  else om_put m (e_key e) (e_off e, e_size e).
Definition memdb_load (osz : N) (idx : list N) : omap := fold_left memdb_step (walk osz idx) [].

(* readNeedleMap (ec_encoder.go): !offset.IsZero() && size != TombstoneFileSize -> Set, else Delete *)
Definition rnm_step (m : omap) (e : entry) : omap :=
  if negb (e_off e =? 0) && negb (e_size e =? tombstone)%Z then om_put m (e_key e) (e_off e, e_size e)
  else om_del m (e_key e).
Definition read_needle_map (osz : N) (idx : list N) : omap := fold_left rnm_step (walk osz idx) [].
Definition entry_of_kv (kv : N * (N * Z)) : entry :=
  {| e_key := fst kv; e_off := fst (snd kv); e_size := snd (snd kv) |}.
Definition kv_of_entry (e : entry) : N * (N * Z) := (e_key e, (e_off e, e_size e)).
(* WriteSortedFileFromIdx: AscendingVisit of that MemDb, every entry written *)
Definition write_sorted_from_idx (osz : N) (idx : list N) : list N :=
  encode osz (map entry_of_kv (read_needle_map osz idx)).

(* live set of a sorted index file: the entries whose size is not deleted *)
Definition live_of_sorted (osz : N) (f : list N) : omap :=
  map kv_of_entry (filter (fun e => negb (size_is_deleted (e_size e))) (walk osz f)).

(* ---------- SortedFileNeedleMap (needle_map_sorted_file.go) ---------- *)
(* Get: ok = (err == nil); the value is meaningful only when ok *)
Definition sorted_get (osz : N) (sdx : list N) (key : N) : option (N * Z) :=
  match search_sorted osz sdx (file_size sdx) key with
  | SFound _ off size => Some (off, size)
  | _ => None
  end.
(* Delete(key, offset): (error, .idx, indexFileOffset, .sdx).
   Repaired NewSortedFileNeedleMap: m.dbFile is opened O_RDWR (was os.Open: MarkNeedleDeleted's
   WriteAt failed), and m.indexFileOffset is initialised to the size of the .idx (was left 0:
   the "appended" tombstone overwrote the beginning of the .idx).  [ioff] is that field; for a
   freshly opened map it is [file_size idx]. *)
Definition sorted_delete (osz : N) (idx : list N) (ioff : N) (sdx : list N) (key off : N)
  : ecode * list N * N * list N :=
  match search_sorted osz sdx (file_size sdx) key with
  | SNotFound => (ENone, idx, ioff, sdx)
  | SReadErr => (ERead, idx, ioff, sdx)
  | SFound _ _ size =>
      if size_is_deleted size then (ENone, idx, ioff, sdx)
      else
        (* appendToIndexFile: WriteAt(bytes, indexFileOffset); indexFileOffset += written *)
        let idx' := write_at idx ioff (enc_entry osz {| e_key := key; e_off := off; e_size := tombstone |}) in
        let '(e, sdx') := search_mark true osz sdx (file_size sdx) key in
        (e, idx', ioff + entry_size osz, sdx')
  end.

(* ====================================================================== *)
(* Appended for the C07 audit (items 1-3).  Nothing above is changed.      *)
(* ====================================================================== *)

(* ---------- reopening a SortedFileNeedleMap (NewSortedFileNeedleMap on existing files) ----------
   isSortedFileFresh: the .sdx is kept when its mtime is after the .idx's, otherwise it is
   regenerated from the .idx (WriteSortedFileFromIdx: tombstoned keys disappear).  The mtime
   comparison is the input [fresh].  indexFileOffset becomes the .idx size. *)
Definition sorted_reopen (fresh : bool) (osz : N) (idx sdx : list N) : N * list N :=
  (file_size idx, if fresh then sdx else write_sorted_from_idx osz idx).

(* ---------- ec.decode (VolumeEcShardsToVolume) and the mount of the decoded volume ----------
   FindDatFileSize + WriteDatFile + WriteIdxFileFromEcIndex, then Volume.load:
   CheckAndFixVolumeDataIntegrity (volume_checking.go) and doLoading (needle_map_memory.go),
   then Volume.readNeedle.  Index level: the .dat is described by its records (start in offset
   units, id, Size field of the header) and its length in bytes. *)
(* needle.GetActualSize(size, Version3): header 16 + size + checksum 4 + timestamp 8 + padding 1..8 *)
Definition dm_span (size : Z) : N :=
  let raw := 16 + Z.to_N size + 4 + 8 in raw + (8 - raw mod 8).
(* offset.ToActualOffset() + GetActualSize(size, version) *)
Definition dm_stop (e : entry) : N := e_off e * 8 + dm_span (e_size e).
(* FindDatFileSize: the largest stop offset of the entries that are not deleted *)
Definition dm_dat_size_es (es : list entry) : N :=
  fold_left (fun acc e => if size_is_deleted (e_size e) then acc
                          else if acc <? dm_stop e then dm_stop e else acc) es 0.
Definition dm_dat_size (osz : N) (ecx : list N) : N := dm_dat_size_es (walk osz ecx).

Record dm_rec := { dm_off : N; dm_key : N; dm_size : Z }.
Definition dm_rec_at (recs : list dm_rec) (off : N) : option dm_rec :=
  find (fun r => dm_off r =? off) recs.
(* WriteDatFile(base, datSize): the first datSize bytes of the encoded .dat *)
Definition dm_keep (recs : list dm_rec) (dsz : N) : list dm_rec :=
  filter (fun r => dm_off r * 8 <? dsz) recs.

(* verifyNeedleIntegrity(datFile, Version3, offset, key, size) on a .dat of [len] bytes *)
Inductive dm_vres :=
| DmOk (len' : N)     (* nil; the .dat now has len' bytes (truncated behind the record when longer) *)
| DmEOF               (* io.EOF *)
| DmMismatch          (* ErrorSizeMismatch *)
| DmErr.              (* any other error *)
Definition dm_verify (recs : list dm_rec) (len off : N) (size : Z) : dm_vres :=
  let o := off * 8 in
  if len <? o + 16 then DmEOF                         (* ReadNeedleHeader: short read *)
  else match dm_rec_at recs off with
       | None => DmErr                                (* no record starts there (not reached from a consistent index) *)
       | Some r =>
           if negb (dm_size r =? size)%Z then DmMismatch
           else if len <? o + 16 + Z.to_N size + 4 + 8 then DmEOF      (* the timestamp ReadAt *)
           else
             let tail := o + dm_span size in
             if len =? tail then DmOk len             (* n.Id is NOT compared with the index key on this path *)
             else if tail <? len then DmOk tail       (* "Truncate %s from %d bytes to %d bytes!" *)
             else DmErr                               (* shorter than the record: ReadData fails *)
       end.

(* the loop of CheckAndFixVolumeDataIntegrity over the last 10 entries; [res] = the entries from
   the last one backwards, [pos] = number of entries before the head of [res];
   result: (new .dat length, number of index entries kept = healthyIndexSize / entry size) *)
Fixpoint dm_cf_loop (fuel : nat) (res : list entry) (pos : N) (recs : list dm_rec) (len healthy : N) : N * N :=
  match fuel, res with
  | S f, e :: r =>
      if e_off e =? 0 then (len, healthy)             (* doCheckAndFixVolumeData: offset.IsZero() -> nil -> break *)
      else
        let size := if (e_size e <? 0)%Z then 0%Z else e_size e in
        match dm_verify recs len (e_off e) size with
        | DmEOF => dm_cf_loop f r (pos - 1) recs len pos
        | DmMismatch => dm_cf_loop f r (pos - 1) recs len healthy
        | DmOk len' => (len', healthy)
        | DmErr => (len, healthy)
        end
  | _, _ => (len, healthy)
  end.
Definition dm_check_fix (es : list entry) (recs : list dm_rec) (len : N) : N * N :=
  let n := N.of_nat (length es) in
  dm_cf_loop 10 (rev es) (n - 1) recs len n.

(* doLoading (LoadCompactNeedleMap): !offset.IsZero() && size.IsValid() -> Set, else Delete *)
Definition dm_nm_step (m : omap) (e : entry) : omap :=
  if negb (e_off e =? 0) && size_is_valid (e_size e) then om_put m (e_key e) (e_off e, e_size e)
  else om_del m (e_key e).
Definition dm_nm_load (es : list entry) : omap := fold_left dm_nm_step es [].

(* Volume.load of the decoded files: None = "volume not initialized" (no super block);
   otherwise (needle map, .dat length, index entries kept) *)
Definition dm_mount (osz : N) (idx : list N) (recs : list dm_rec) (len : N) : option (omap * N * N) :=
  if len <? 8 then None
  else
    let es := walk osz idx in
    let '(len', h) := dm_check_fix es recs len in
    Some (dm_nm_load (firstn (N.to_nat h) es), len', h).

(* what a read returns: the record at [off] with Size [size], or an error class *)
Inductive dm_rres := DmData (off : N) (size : Z) | DmNotFound | DmDeleted | DmReadErr.
(* Volume.readNeedle on the mounted volume *)
Definition dm_read (m : omap) (len : N) (k : N) : dm_rres :=
  match om_get m k with
  | None => DmNotFound
  | Some (off, size) =>
      if off =? 0 then DmNotFound
      else if size_is_deleted size then DmDeleted
      else if (size =? 0)%Z then DmData off 0%Z
      else if off * 8 + dm_span size <=? len then DmData off size
      else DmReadErr                                  (* ReadData: EOF *)
  end.
(* Store.ReadEcShardNeedle on the EC volume (all shards local): LocateEcShardNeedle error,
   size.IsDeleted() -> ErrorDeleted, else the record bytes from the shards *)
Definition dm_ec_read (osz : N) (ecx : list N) (k : N) : dm_rres :=
  match find_from_ecx osz ecx k with
  | SFound _ off size => if size_is_deleted size then DmDeleted else DmData off size
  | SNotFound => DmNotFound
  | SReadErr => DmReadErr
  end.

(* ec.decode of (.ecx, .ecj, shards of a .dat with records [recs]) followed by the mount *)
Definition dm_decode_mount (osz : N) (ecx ecj : list N) (recs : list dm_rec) : option (omap * N * N) :=
  let dsz := dm_dat_size osz ecx in
  dm_mount osz (write_idx_from_ec osz ecx ecj) (dm_keep recs dsz) dsz.

(* the trigger of finding C07 k=0: the integrity check of the mount changes the decoded files
   (truncates the .dat behind the record of one of the last index entries, or drops index entries) *)
Definition dm_cuts (osz : N) (ecx ecj : list N) (recs : list dm_rec) : bool :=
  let dsz := dm_dat_size osz ecx in
  let es := walk osz (write_idx_from_ec osz ecx ecj) in
  let '(len', h) := dm_check_fix es (dm_keep recs dsz) dsz in
  negb ((len' =? dsz) && (h =? N.of_nat (length es))).
